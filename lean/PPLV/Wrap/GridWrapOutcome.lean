import PPLV.Wrap.GridWrapMain

/-!
# `Grid::wrap_assign` lemmas, part 6: which outcomes are possible

* a dimension exception is thrown exactly by the two checks at the top of the function;
* `add_grid_generator` throws only when overflow wraps and the receiver has become empty inside the loop (it is left
  empty); with `OVERFLOW_UNDEFINED` the receiver never becomes empty, with `OVERFLOW_IMPOSSIBLE` no generator is added.
-/
namespace PPLV.Wrap.GW
open PPLV.Lattice PPLV.Wrap

theorem addGridGeneratorParam_error' {this l : GridGens} {x : Nat} {c : Int}
    (h : addGridGeneratorParam this x c = .error l) : l.isEmpty = true := by
  unfold addGridGeneratorParam at h
  split at h
  · cases h; assumption
  · cases h

/-- the outcomes with which the body of the first loop leaves the function -/
theorem stepWI_inr {w : Nat} {o : Ovf} {minV maxV : Int} {gr : Gens} {x : Nat} {this : GridGens} {out : Outcome}
    (h : stepWI w o minV maxV gr x this = .inr out) :
    out = .ok .empty ∨ ∃ l, out = .invalidGenerator l ∧ l.isEmpty = true ∧ o = .wraps := by
  unfold stepWI at h
  simp only [] at h
  split at h
  · split at h
    · rename_i ho
      split at h
      · cases h
      · rename_i l hl
        cases h
        exact Or.inr ⟨l, rfl, addGridGeneratorParam_error' hl, ho⟩
    · cases h
  · split at h
    · split at h
      · cases h; exact Or.inl rfl
      · split at h
        · split at h
          · cases h; exact Or.inl rfl
          · cases h
        · cases h
    · split at h
      · cases h; exact Or.inl rfl
      · split at h
        · rename_i ho
          split at h
          · cases h
          · rename_i l hl
            cases h
            exact Or.inr ⟨l, rfl, addGridGeneratorParam_error' hl, ho.1⟩
        · split at h
          · split at h <;> cases h
          · cases h

theorem loopWI_outcome (w : Nat) (o : Ovf) (minV maxV : Int) (gr : Gens) :
    ∀ (xs : List Nat) (this : GridGens) (out : Outcome), loopWI w o minV maxV gr xs this = out →
      (∃ R, out = .ok R) ∨ ∃ l, out = .invalidGenerator l ∧ l.isEmpty = true ∧ o = .wraps := by
  intro xs
  induction xs with
  | nil => intro this out h; exact Or.inl ⟨this, h.symm⟩
  | cons x xs ih =>
    intro this out h
    unfold loopWI at h
    cases hs : stepWI w o minV maxV gr x this with
    | inl t => rw [hs] at h; exact ih t out h
    | inr o' =>
      rw [hs] at h
      simp only [] at h
      subst h
      rcases stepWI_inr hs with h | h
      · exact Or.inl ⟨_, h⟩
      · exact Or.inr h

/-- `OVERFLOW_UNDEFINED`: a non-empty receiver stays non-empty, so `add_grid_generator` never throws -/
theorem stepU_nonempty {minV maxV : Int} {gr : Gens} {x : Nat} {this : GridGens} (hne : ∃ u, Gen.sem this u) :
    (∃ t, stepU minV maxV gr x this = .inl t ∧ ∃ u, Gen.sem t u) ∨ stepU minV maxV gr x this = .inr (.ok .empty) := by
  obtain ⟨u, hu⟩ := hne
  have hpar : ∀ c : Int, ∃ t, (match addGridGeneratorParam this x c with
          | .ok t => (Sum.inl t : GridGens ⊕ Outcome)
          | .error l => .inr (.invalidGenerator l)) = .inl t ∧ ∃ u, Gen.sem t u := by
    intro c
    obtain ⟨t, ht, hm⟩ := param_step (c := c) hu (u x + ((0 : Int) : Rat) * (c : Rat)) 0 rfl
    exact ⟨t, ht, _, hm⟩
  unfold stepU
  simp only []
  split
  · split
    · exact Or.inl ⟨_, rfl, _, freeInt_mem 0 hu⟩
    · exact Or.inl (hpar 1)
  · split
    · exact Or.inr rfl
    · split
      · exact Or.inl (hpar 1)
      · exact Or.inl ⟨this, rfl, u, hu⟩

theorem loopU_outcome (minV maxV : Int) (gr : Gens) :
    ∀ (xs : List Nat) (this : GridGens), (∃ u, Gen.sem this u) → ∃ R, loopU minV maxV gr xs this = .ok R := by
  intro xs
  induction xs with
  | nil => intro this _; exact ⟨this, rfl⟩
  | cons x xs ih =>
    intro this hne
    unfold loopU
    rcases stepU_nonempty (minV := minV) (maxV := maxV) (gr := gr) (x := x) hne with ⟨t, ht, hne'⟩ | h
    · rw [ht]; exact ih t hne'
    · rw [h]; exact ⟨_, rfl⟩

/-- a dimension exception is thrown by, and only by, the two checks at the top of the function -/
theorem gridWrapAssign_dim (n : Nat) (cfg : WrapCfg) (G : GridGens) :
    gridWrapAssign n cfg G = .dimensionIncompatible ↔
      guardTooBig n cfg.guard = true ∨ (cfg.vars.isEmpty = false ∧ n < varsSpaceDim cfg.vars) := by
  unfold gridWrapAssign
  by_cases hg : guardTooBig n cfg.guard = true
  · simp [hg]
  · rw [if_neg hg]
    by_cases he : cfg.vars.isEmpty = true
    · simp [hg, he]
    · rw [if_neg he]
      by_cases hd : n < varsSpaceDim cfg.vars
      · simp [hd, he]
      · rw [if_neg hd]
        have he' : cfg.vars.isEmpty = false := by simpa using he
        constructor
        · intro h
          exfalso
          cases G with
          | empty => cases h
          | gens gr =>
            simp only [] at h
            split at h
            · rcases loopWI_outcome _ _ _ _ _ _ _ _ h with ⟨R, hR⟩ | ⟨l, hl, _⟩
              · cases hR
              · cases hl
            · obtain ⟨R, hR⟩ := loopU_outcome (rangeOf cfg.r cfg.w).1 (rangeOf cfg.r cfg.w).2 gr (normVars cfg.vars)
                (.gens gr) ⟨_, Gens.Mem.pt⟩
              rw [hR] at h; cases h
        · rintro (h | ⟨_, h⟩)
          · exact absurd h hg
          · exact absurd h hd

/-- `add_grid_generator` throws only when overflow wraps, and leaves the receiver empty -/
theorem gridWrapAssign_invalidGenerator (n : Nat) (cfg : WrapCfg) (G : GridGens) (l : GridGens)
    (h : gridWrapAssign n cfg G = .invalidGenerator l) : l.isEmpty = true ∧ cfg.o = .wraps := by
  unfold gridWrapAssign at h
  split at h
  · cases h
  · split at h
    · cases h
    · split at h
      · cases h
      · cases G with
        | empty => cases h
        | gens gr =>
          simp only [] at h
          split at h
          · rcases loopWI_outcome _ _ _ _ _ _ _ _ h with ⟨R, hR⟩ | ⟨l', hl, he, ho⟩
            · cases hR
            · cases hl; exact ⟨he, ho⟩
          · obtain ⟨R, hR⟩ := loopU_outcome (rangeOf cfg.r cfg.w).1 (rangeOf cfg.r cfg.w).2 gr (normVars cfg.vars)
              (.gens gr) ⟨_, Gens.Mem.pt⟩
            rw [hR] at h; cases h

end PPLV.Wrap.GW
