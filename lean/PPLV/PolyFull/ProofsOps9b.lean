import PPLV.PolyFull.ProofsOps8
import PPLV.PolyFull.ProofsOps9

/-!
# Integration stage — `generalized_affine_image` (`≤ = ≥`) without the hypothesis `hNPc`
-/
namespace PPLV.PolyFull
open PPLV.Lin PPLV.PolyOps

/-- **`generalized_affine_image`, `relsym ∈ {≤, =, ≥}`, the whole object.**  PARTIAL exactly as
    `affineImage_refines_partial'`: `hLow`, `hNPg`, `hEng` are the fields `low`, `denNPg`, `eng` of the
    intermediate `x.affineImage v e den` in the invertible case on a receiver not marked empty. -/
theorem generalizedAffineImage_refines_partial' (G : GlueFacts) (x : FPoly) (ref : RefPoly) (v : Nat) (r : Rel)
    (e : LinExpr) (den : Int) (hn : ref.n = x.p.dim) (hnnc : ref.nnc = x.p.nnc) (hwf : WF ref.n ref.cs)
    (hv : v < x.p.dim) (he : e.coeffs.length = x.p.dim) (hden : den ≠ 0) (hx : x.Inv (sem ref.cs))
    (hr : r = .le ∨ r = .eq ∨ r = .ge)
    (hLow : e.coeffs.getD v 0 ≠ 0 → x.p.st.empty = false → (x.affineImage v e den).p.st.cUp = true →
      LowLevel (x.affineImage v e den).p.nnc (x.affineImage v e den).p.dim (x.affineImage v e den).p.cs.rows)
    (hNPg : e.coeffs.getD v 0 ≠ 0 → x.p.st.empty = false → (x.affineImage v e den).p.st.gPend = true →
      conSem (x.affineImage v e den).p.nnc (x.affineImage v e den).p.cs.rows =
        genSem (x.affineImage v e den).p.nnc (x.affineImage v e den).p.dim (x.affineImage v e den).npG)
    (hEng : e.coeffs.getD v 0 ≠ 0 → x.p.st.empty = false → (x.affineImage v e den).p.st.canPend = true →
      EnginePair (x.affineImage v e den).p.nnc (x.affineImage v e den).p.dim (x.affineImage v e den).npC
        (x.affineImage v e den).npG (x.affineImage v e den).p.st.satC (x.affineImage v e den).p.st.satG
        (x.affineImage v e den).satC (x.affineImage v e den).satG) :
    (x.generalizedAffineImage v r e den).Inv (sem (ref.genAffineImage v r e den).cs) ∧
      x.SameShape (x.generalizedAffineImage v r e den) :=
  generalizedAffineImage_of_affineImage G x ref v r e den hn hwf hv he hden hr
    (affineImage_refines_partial' G x ref v e den hn hnnc hwf hv he hden hx hLow hNPg hEng)

end PPLV.PolyFull
