import PPLV.PolyFull.ProofsStatus4n

/-!
# Integration stage — `operator==` against `PolyStatus/Ops2.lean` (`y` another object)

The abstract method is two steps (`equalsHead`, `equalsTail`); the ghost `gx.aux` of the second step is the
answer of the first inclusion test.  The ghost conditions of the second step are stated on the abstract state
the first step leaves (`EqTailOk`).
-/
namespace PPLV.PolyFull
open PPLV.PolyOps PPLV.Lin
open PPLV.PolyStatus (PState Gh Two Gh2)

attribute [local simp] FPoly.st FPoly.nnc FPoly.dim FPoly.withSt FPoly.withCs FPoly.withGs

/-- the tail of `operator==` after the first inclusion test answered `ans` -/
def FPoly.eqTail (ans : Bool) (x1 y1 : FPoly) : Bool × FPoly × FPoly :=
  if ans then
    if x1.st.empty then let e := y1.isEmpty; (e.1, x1, e.2)
    else let r2 := y1.isIncludedIn x1; (r2.1, r2.2.2, r2.2.1)
  else (false, x1, y1)

/-- ghost conditions of the second step, on the states `x1`, `y1` / `s1`, `t1` the first step leaves -/
structure EqTailOk (x1 y1 : FPoly) (h : Gh2) (s1 t1 : PState) : Prop where
  emp : x1.p.st.empty = true → IsEmptyGhost y1 h.gy t1
  ly : x1.p.st.empty = false → y1.p.st.cPend = true → y1.p.st.gUp = true
  lx : x1.p.st.empty = false → x1.p.st.gPend = true → x1.p.st.cUp = true
  gy : x1.p.st.empty = false → NeedGensGhost y1 h.gy t1
  gx : x1.p.st.empty = false → NeedConsGhost x1 h.gx s1

theorem eqTail_sim (ans : Bool) (x1 y1 : FPoly) (h : Gh2) (s1 t1 : PState) (hx : Sim x1 s1) (hy : Sim y1 t1)
    (haux : h.gx.aux = ans) (hok : ans = true → EqTailOk x1 y1 h s1 t1) :
    Sim (FPoly.eqTail ans x1 y1).2.1
        (PPLV.PolyStatus.equalsTail h { x := s1, y := t1, al := false, go := true }).x
    ∧ Sim (FPoly.eqTail ans x1 y1).2.2
        (PPLV.PolyStatus.equalsTail h { x := s1, y := t1, al := false, go := true }).y := by
  cases ans
  · have e2 : PPLV.PolyStatus.equalsTail h { x := s1, y := t1, al := false, go := true }
        = { x := s1, y := t1, al := false, go := true } := by
      simp [PPLV.PolyStatus.equalsTail, haux]
    rw [e2]; exact ⟨hx, hy⟩
  · have ok := hok rfl
    rcases (Bool.eq_false_or_eq_true x1.p.st.empty).symm with a | a
    · have e1 : FPoly.eqTail true x1 y1 = ((y1.isIncludedIn x1).1, (y1.isIncludedIn x1).2.2, (y1.isIncludedIn x1).2.1) := by
        simp [FPoly.eqTail, a]
      have e2 : PPLV.PolyStatus.equalsTail h { x := s1, y := t1, al := false, go := true }
          = (PPLV.PolyStatus.isIncludedIn h.gy h.gx { x := t1, y := s1, al := false, go := true }).swap := by
        simp [PPLV.PolyStatus.equalsTail, haux, PState.em, hx.em, a, Two.swap]
      obtain ⟨i1, i2⟩ := isIncludedIn_sim y1 x1 t1 s1 h.gy h.gx true hy hx (ok.ly a) (ok.lx a) (ok.gy a) (ok.gx a)
      have hal := abs_isIncludedIn_al h.gy h.gx t1 s1 true
      rw [e1, e2]
      simp only [Two.swap, hal, Bool.false_eq_true, ↓reduceIte]
      exact ⟨i2, i1⟩
    · have e1 : FPoly.eqTail true x1 y1 = (y1.isEmpty.1, x1, y1.isEmpty.2) := by simp [FPoly.eqTail, a]
      have e2 : PPLV.PolyStatus.equalsTail h { x := s1, y := t1, al := false, go := true }
          = { x := s1, y := (PPLV.PolyStatus.isEmpty h.gy t1).2, al := false, go := true } := by
        simp [PPLV.PolyStatus.equalsTail, haux, PState.em, hx.em, a, Two.onYb]
      rw [e1, e2]
      exact ⟨hx, (isEmpty_sim y1 t1 h.gy hy (ok.emp a)).2⟩

/-- `operator==(x, y)`: the cases decided by the first step -/
theorem equals_decided (x y : FPoly) (s t : PState) (h1 h2 : Gh2) (hx : Sim x s) (hy : Sim y t)
    (hE1 : x.p.st.empty = true → IsEmptyGhost y h1.gy t)
    (hE2 : x.p.st.empty = false → y.p.st.empty = true → IsEmptyGhost x h1.gx s)
    (hq : QOk x y h1.q s t)
    (hdec : x.p.st.empty = true ∨ y.p.st.empty = true ∨ x.p.dim = 0 ∨ (x.quickEquivalenceTest y).1.isSome = true) :
    Sim (x.equals y).2.1
        (PPLV.PolyStatus.runSteps2 PPLV.PolyStatus.equalsSteps [h1, h2] { x := s, y := t, al := false }).x
    ∧ Sim (x.equals y).2.2
        (PPLV.PolyStatus.runSteps2 PPLV.PolyStatus.equalsSteps [h1, h2] { x := s, y := t, al := false }).y := by
  have hsx : s.b .em = x.p.st.empty := hx.em
  have hty : t.b .em = y.p.st.empty := hy.em
  have er : PPLV.PolyStatus.runSteps2 PPLV.PolyStatus.equalsSteps [h1, h2] { x := s, y := t, al := false }
      = PPLV.PolyStatus.equalsTail h2 (PPLV.PolyStatus.equalsHead h1 { x := s, y := t, al := false }) := rfl
  rw [er]
  rcases (Bool.eq_false_or_eq_true x.p.st.empty).symm with a | a
  swap
  · have e1 : x.equals y = (y.isEmpty.1, x, y.isEmpty.2) := by simp [FPoly.equals, a]
    have e2 : PPLV.PolyStatus.equalsHead h1 { x := s, y := t, al := false }
        = { x := s, y := (PPLV.PolyStatus.isEmpty h1.gy t).2, al := false, go := false } := by
      simp [PPLV.PolyStatus.equalsHead, Two.onYb, PState.em, hsx, a]
    rw [e1, e2]
    simp only [PPLV.PolyStatus.equalsTail, Bool.false_and, Bool.false_eq_true, ↓reduceIte]
    exact ⟨hx, (isEmpty_sim y t h1.gy hy (hE1 a)).2⟩
  rcases (Bool.eq_false_or_eq_true y.p.st.empty).symm with b | b
  swap
  · have e1 : x.equals y = (x.isEmpty.1, x.isEmpty.2, y) := by simp [FPoly.equals, a, b]
    have e2 : PPLV.PolyStatus.equalsHead h1 { x := s, y := t, al := false }
        = { x := (PPLV.PolyStatus.isEmpty h1.gx s).2, y := t, al := false, go := false } := by
      simp [PPLV.PolyStatus.equalsHead, Two.onXb, Two.gy, PState.em, hsx, a, hty, b]
    rw [e1, e2]
    simp only [PPLV.PolyStatus.equalsTail, Bool.false_and, Bool.false_eq_true, ↓reduceIte]
    exact ⟨(isEmpty_sim x s h1.gx hx (hE2 a b)).2, hy⟩
  by_cases d : x.p.dim = 0
  · have e1 : x.equals y = (true, x, y) := by simp [FPoly.equals, a, b, d]
    have e2 : PPLV.PolyStatus.equalsHead h1 { x := s, y := t, al := false }
        = { x := s, y := t, al := false, go := false } := by
      simp [PPLV.PolyStatus.equalsHead, Two.gy, PState.em, hsx, a, hty, b, hx.dim, d]
    rw [e1, e2]
    simp only [PPLV.PolyStatus.equalsTail, Bool.false_and, Bool.false_eq_true, ↓reduceIte]
    exact ⟨hx, hy⟩
  have hsome : (x.quickEquivalenceTest y).1.isSome = true := by
    rcases hdec with h | h | h | h
    · rw [a] at h; cases h
    · rw [b] at h; cases h
    · exact absurd h d
    · exact h
  have d' : (x.p.dim == 0) = false := by simpa using d
  have ds : (s.dim == 0) = false := by rw [hx.dim]; exact d'
  obtain ⟨q1, q2, s', t', q3, q4, q5⟩ := hq true
  obtain ⟨bb, hb⟩ : ∃ bb, (x.quickEquivalenceTest y).1 = some bb := by
    cases hh : (x.quickEquivalenceTest y).1 with
    | none => rw [hh] at hsome; cases hsome
    | some v => exact ⟨v, rfl⟩
  have e1 : x.equals y = (bb, (x.quickEquivalenceTest y).2.1, (x.quickEquivalenceTest y).2.2) := by
    unfold FPoly.equals
    simp only [FPoly.st, FPoly.dim, a, b, d', Bool.false_eq_true, ↓reduceIte, hb]
  have hor : ((PPLV.PolyStatus.quickEquivalenceTest h1.q { x := s, y := t, al := false }).1.1
      || (PPLV.PolyStatus.quickEquivalenceTest h1.q { x := s, y := t, al := false }).1.2) = true := by
    rw [q1, q2, hb]; cases bb <;> rfl
  have e2 : PPLV.PolyStatus.equalsHead h1 { x := s, y := t, al := false }
      = { x := s', y := t', al := false, go := false } := by
    simp only [PPLV.PolyStatus.equalsHead, Two.gy, PState.em, hsx, a, hty, b, ds, Bool.false_eq_true, ↓reduceIte,
      hor, q3]
  rw [e1, e2]
  simp only [PPLV.PolyStatus.equalsTail, Bool.false_and, Bool.false_eq_true, ↓reduceIte]
  exact ⟨q4, q5⟩

/-- `operator==(x, y)`: the quick test does not decide; both inclusion tests -/
theorem equals_undecided (x y : FPoly) (s t : PState) (h1 h2 : Gh2) (hx : Sim x s) (hy : Sim y t)
    (a : x.p.st.empty = false) (b : y.p.st.empty = false) (d : x.p.dim ≠ 0)
    (hnone : (x.quickEquivalenceTest y).1 = none)
    (hq : QOk x y h1.q s t)
    (hI1 : ∀ s' t', Sim (x.quickEquivalenceTest y).2.1 s' → Sim (x.quickEquivalenceTest y).2.2 t' →
        ((x.quickEquivalenceTest y).2.1.p.st.cPend = true → (x.quickEquivalenceTest y).2.1.p.st.gUp = true)
        ∧ ((x.quickEquivalenceTest y).2.2.p.st.gPend = true → (x.quickEquivalenceTest y).2.2.p.st.cUp = true)
        ∧ NeedGensGhost (x.quickEquivalenceTest y).2.1 h1.gx s' ∧ NeedConsGhost (x.quickEquivalenceTest y).2.2 h1.gy t')
    (haux : h2.gx.aux = ((x.quickEquivalenceTest y).2.1.isIncludedIn (x.quickEquivalenceTest y).2.2).1)
    (hI2 : ∀ s1 t1, Sim ((x.quickEquivalenceTest y).2.1.isIncludedIn (x.quickEquivalenceTest y).2.2).2.1 s1 →
        Sim ((x.quickEquivalenceTest y).2.1.isIncludedIn (x.quickEquivalenceTest y).2.2).2.2 t1 →
        ((x.quickEquivalenceTest y).2.1.isIncludedIn (x.quickEquivalenceTest y).2.2).1 = true →
        EqTailOk ((x.quickEquivalenceTest y).2.1.isIncludedIn (x.quickEquivalenceTest y).2.2).2.1
                 ((x.quickEquivalenceTest y).2.1.isIncludedIn (x.quickEquivalenceTest y).2.2).2.2 h2 s1 t1) :
    Sim (x.equals y).2.1
        (PPLV.PolyStatus.runSteps2 PPLV.PolyStatus.equalsSteps [h1, h2] { x := s, y := t, al := false }).x
    ∧ Sim (x.equals y).2.2
        (PPLV.PolyStatus.runSteps2 PPLV.PolyStatus.equalsSteps [h1, h2] { x := s, y := t, al := false }).y := by
  have hsx : s.b .em = x.p.st.empty := hx.em
  have hty : t.b .em = y.p.st.empty := hy.em
  have er : PPLV.PolyStatus.runSteps2 PPLV.PolyStatus.equalsSteps [h1, h2] { x := s, y := t, al := false }
      = PPLV.PolyStatus.equalsTail h2 (PPLV.PolyStatus.equalsHead h1 { x := s, y := t, al := false }) := rfl
  rw [er]
  have d' : (x.p.dim == 0) = false := by simpa using d
  have ds : (s.dim == 0) = false := by rw [hx.dim]; exact d'
  obtain ⟨q1, q2, s', t', q3, q4, q5⟩ := hq true
  have e1 : x.equals y = FPoly.eqTail ((x.quickEquivalenceTest y).2.1.isIncludedIn (x.quickEquivalenceTest y).2.2).1
      ((x.quickEquivalenceTest y).2.1.isIncludedIn (x.quickEquivalenceTest y).2.2).2.1
      ((x.quickEquivalenceTest y).2.1.isIncludedIn (x.quickEquivalenceTest y).2.2).2.2 := by
    unfold FPoly.equals FPoly.eqTail
    simp only [FPoly.st, FPoly.dim, a, b, d', Bool.false_eq_true, ↓reduceIte, hnone]
  have hor : ((PPLV.PolyStatus.quickEquivalenceTest h1.q { x := s, y := t, al := false }).1.1
      || (PPLV.PolyStatus.quickEquivalenceTest h1.q { x := s, y := t, al := false }).1.2) = false := by
    rw [q1, q2, hnone]; rfl
  obtain ⟨l1, l2, l3, l4⟩ := hI1 s' t' q4 q5
  obtain ⟨i1, i2⟩ := isIncludedIn_sim (x.quickEquivalenceTest y).2.1 (x.quickEquivalenceTest y).2.2 s' t' h1.gx h1.gy true
    q4 q5 l1 l2 l3 l4
  have hal := abs_isIncludedIn_al h1.gx h1.gy s' t' true
  generalize hR : PPLV.PolyStatus.isIncludedIn h1.gx h1.gy { x := s', y := t', al := false, go := true } = R at *
  have e2 : PPLV.PolyStatus.equalsHead h1 { x := s, y := t, al := false }
      = { x := R.x, y := R.y, al := false, go := true } := by
    simp only [PPLV.PolyStatus.equalsHead, Two.gy, PState.em, hsx, a, hty, b, ds, Bool.false_eq_true, ↓reduceIte,
      hor, q3, hR]
    cases R; simp_all
  rw [e1, e2]
  exact eqTail_sim _ _ _ h2 _ _ i1 i2 haux (fun hr => hI2 _ _ i1 i2 hr)

end PPLV.PolyFull
