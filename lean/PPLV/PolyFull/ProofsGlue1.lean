import PPLV.PolyFull.GlueFacts
import PPLV.PolyOps.ProofsLattice

/-!
# Integration stage — `GlueFacts` from `ConvContract`, part 1: the vocabulary

Projections of `statusLegalB`, `SameShape` is a preorder, `set_empty()` establishes `Inv ∅`,
"an `EnginePost` with the fully-minimized status word is `Inv` + `FullyMin`", and "generators up to
date without pending constraints ⇒ the set is not empty".
-/
namespace PPLV.PolyFull
open PPLV.Lin PPLV.PolyOps
open PPLV.Conv (LRow BRow Vec Sound SatCorrect holds holdsAll Generated)

theorem FPoly.SameShape.refl (x : FPoly) : x.SameShape x := ⟨rfl, rfl⟩
theorem FPoly.SameShape.trans {x y z : FPoly} (h1 : x.SameShape y) (h2 : y.SameShape z) :
    x.SameShape z := ⟨h2.1.trans h1.1, h2.2.trans h1.2⟩

/-! ### the legality table -/

theorem legal_cMin {s : Status} {d : Nat} (h : statusLegalB s d = true) (hm : s.cMin = true) :
    s.cUp = true := by
  simp only [statusLegalB, Bool.and_eq_true] at h
  have := h.1.1.1.1.1.2
  simpa [hm] using this

theorem legal_gMin {s : Status} {d : Nat} (h : statusLegalB s d = true) (hm : s.gMin = true) :
    s.gUp = true := by
  simp only [statusLegalB, Bool.and_eq_true] at h
  have := h.1.1.1.1.2
  simpa [hm] using this

theorem legal_not_both {s : Status} {d : Nat} (h : statusLegalB s d = true) :
    ¬ (s.cPend = true ∧ s.gPend = true) := by
  simp only [statusLegalB, Bool.and_eq_true] at h
  have := h.1.1.1.2
  rintro ⟨a, b⟩
  simp [a, b] at this

theorem legal_cPend {s : Status} {d : Nat} (h : statusLegalB s d = true) (hp : s.cPend = true) :
    s.canPend = true := by
  simp only [statusLegalB, Bool.and_eq_true] at h
  have := h.1.1.2
  simpa [hp] using this

theorem legal_gPend {s : Status} {d : Nat} (h : statusLegalB s d = true) (hp : s.gPend = true) :
    s.canPend = true := by
  simp only [statusLegalB, Bool.and_eq_true] at h
  have := h.1.1.2
  simpa [hp] using this

theorem canPend_iff (s : Status) :
    s.canPend = true ↔ s.cMin = true ∧ s.gMin = true ∧ (s.satC = true ∨ s.satG = true) := by
  simp [Status.canPend, and_assoc]

/-- everything up to date and minimized, nothing pending: a legal status word in positive dimension -/
theorem statusLegal_fullyMin (s : Status) (d : Nat) (hd : 0 < d) (he : s.empty = false)
    (hcu : s.cUp = true) (hgu : s.gUp = true) (hcm : s.cMin = true) (hgm : s.gMin = true)
    (hcp : s.cPend = false) (hgp : s.gPend = false) : statusLegalB s d = true := by
  have hd' : (d != 0) = true := by simp; omega
  simp [statusLegalB, he, hcu, hgu, hcm, hgm, hcp, hgp, hd']

/-! ### `set_empty()` -/

theorem inv_setEmpty (x : FPoly) : x.setEmpty.Inv ∅ where
  wf := {
    cs_len := fun h => by simp [FPoly.setEmpty, Poly.setEmpty, Status.setEmpty] at h
    gs_wf := fun h => by simp [FPoly.setEmpty, Poly.setEmpty, Status.setEmpty] at h
    gs_pt := fun h => by simp [FPoly.setEmpty, Poly.setEmpty, Status.setEmpty] at h
    pend_c := fun h => by simp [FPoly.setEmpty, Poly.setEmpty, Status.setEmpty] at h
    pend_g := fun h => by simp [FPoly.setEmpty, Poly.setEmpty, Status.setEmpty] at h
    pend_one := fun h => by simp [FPoly.setEmpty, Poly.setEmpty, Status.setEmpty] at h
    some_up := fun h => by simp [FPoly.setEmpty, Poly.setEmpty, Status.setEmpty] at h
    zero_dim := fun _ => ⟨rfl, rfl⟩ }
  den := ⟨fun _ => rfl, fun h => by simp [FPoly.setEmpty, Poly.setEmpty, Status.setEmpty] at h⟩
  legal := by simp [statusLegalB, FPoly.setEmpty, Poly.setEmpty, Status.setEmpty, Status.canPend]
  fpC := fun h => by simp [FPoly.setEmpty, Poly.setEmpty, Status.setEmpty] at h
  fpG := fun h => by simp [FPoly.setEmpty, Poly.setEmpty, Status.setEmpty] at h
  low := fun h => by simp [FPoly.setEmpty, Poly.setEmpty, Status.setEmpty] at h
  denNPc := fun h => by simp [FPoly.setEmpty, Poly.setEmpty, Status.setEmpty] at h
  denNPg := fun h => by simp [FPoly.setEmpty, Poly.setEmpty, Status.setEmpty] at h
  eng := fun h => by simp [FPoly.setEmpty, Poly.setEmpty, Status.setEmpty] at h

theorem sameShape_setEmpty (x : FPoly) : x.SameShape x.setEmpty := ⟨rfl, rfl⟩
theorem setEmpty_empty (x : FPoly) : x.setEmpty.p.st.empty = true := rfl

/-! ### what a successful engine call establishes -/

theorem inv_of_post (y : FPoly) (S : Set Val) (hd : 0 < y.p.dim)
    (hp : EnginePost y.p.nnc y.p.dim S y.p.cs y.p.gs y.p.st.satC y.p.st.satG y.satC y.satG)
    (he : y.p.st.empty = false) (hcu : y.p.st.cUp = true) (hgu : y.p.st.gUp = true)
    (hcm : y.p.st.cMin = true) (hgm : y.p.st.gMin = true)
    (hcp : y.p.st.cPend = false) (hgp : y.p.st.gPend = false) : y.Inv S ∧ y.FullyMin := by
  refine ⟨?_, he, hcu, hgu, hcm, hgm, hcp, hgp⟩
  exact {
    wf := {
      cs_len := fun _ _ => hp.csLen
      gs_wf := fun _ _ => hp.gsWF
      gs_pt := fun _ _ => hp.gsPt
      pend_c := fun h => by rw [hcp] at h; cases h
      pend_g := fun h => by rw [hgp] at h; cases h
      pend_one := fun h => by rw [hcp] at h; cases h.1
      some_up := fun _ _ => Or.inl hcu
      zero_dim := fun h => by omega }
    den := ⟨fun h => (by rw [he] at h; cases h),
      fun _ => ⟨fun _ _ => hp.denC, fun _ _ => hp.denG, fun h => (by rw [hcu] at h; cases h)⟩⟩
    legal := statusLegal_fullyMin _ _ hd he hcu hgu hcm hgm hcp hgp
    fpC := fun _ _ => ⟨le_of_eq hp.fpC, fun _ => hp.fpC⟩
    fpG := fun _ _ => ⟨le_of_eq hp.fpG, fun _ => hp.fpG⟩
    low := fun _ _ => hp.low
    denNPc := fun _ h => by rw [hcp] at h; cases h
    denNPg := fun _ h => by rw [hgp] at h; cases h
    eng := fun _ _ => by
      unfold FPoly.npC FPoly.npG
      rw [hp.fpC, hp.fpG, List.take_length, List.take_length]
      exact hp.pair }

/-! ### non-emptiness -/

theorem FPoly.Inv.nonempty_of_gUp {x : FPoly} {S : Set Val} (h : x.Inv S) (he : x.p.st.empty = false)
    (hg : x.p.st.gUp = true) (hc : x.p.st.cPend = false) : S.Nonempty := by
  have hden := (h.den.2 he).2.1 hg hc
  rw [← hden]
  exact kit_nonempty _ _ _ (h.wf.gs_wf he hg) (h.wf.gs_pt he hg)

theorem FPoly.Inv.ne_empty_of_gUp {x : FPoly} {S : Set Val} (h : x.Inv S) (he : x.p.st.empty = false)
    (hg : x.p.st.gUp = true) (hc : x.p.st.cPend = false) : S ≠ ∅ :=
  (h.nonempty_of_gUp he hg hc).ne_empty

theorem FPoly.Inv.ne_empty_of_fullyMin {x : FPoly} {S : Set Val} (h : x.Inv S) (hf : x.FullyMin) : S ≠ ∅ :=
  h.ne_empty_of_gUp hf.1 hf.2.2.1 hf.2.2.2.2.2.1

theorem FPoly.Inv.empty_of_marked {x : FPoly} {S : Set Val} (h : x.Inv S) (he : x.p.st.empty = true) :
    S = ∅ := h.den.1 he

/-- a non-empty zero-dimensional polyhedron is the universe -/
theorem FPoly.Inv.ne_empty_of_zeroDim {x : FPoly} {S : Set Val} (h : x.Inv S) (he : x.p.st.empty = false)
    (hd : x.p.dim = 0) : S ≠ ∅ := by
  have hz := h.wf.zero_dim hd
  have := (h.den.2 he).2.2 hz.1 hz.2
  rw [this]
  exact Set.univ_nonempty.ne_empty

/-- the flag `empty` of a state denoting a non-empty set is clear -/
theorem FPoly.Inv.not_marked {x : FPoly} {S : Set Val} (h : x.Inv S) (hS : S ≠ ∅) :
    x.p.st.empty = false := by
  cases he : x.p.st.empty
  · rfl
  · exact absurd (h.den.1 he) hS

end PPLV.PolyFull
