import PPLV.PolyFull.ProofsObs1
import PPLV.PolyFull.ProofsOps1

/-!
# Integration stage — the binary observers, part 2: `is_included_in` answers inclusion

`isIncludedIn_facts`: on two non-empty-marked objects of the same topology and positive dimension,
`x.is_included_in(y)` (Polyhedron_nonpublic.cc:425) leaves both objects denoting the same sets and
answers `true` exactly when `S ⊆ T`.
-/
namespace PPLV.PolyFull
open PPLV.Lin PPLV.PolyOps

/-! ## the four preparation steps of `is_included_in` -/

/-- :431 `if (x.has_pending_constraints() && !x.process_pending_constraints()) return true;` -/
def prepPC (x : FPoly) : Bool × FPoly := if x.st.cPend then x.processPendingConstraints else (true, x)
/-- :434 `if (y.has_pending_generators()) y.process_pending_generators();` -/
def prepPG (y : FPoly) : FPoly := if y.st.gPend then y.processPendingGenerators else y
/-- :449 `if (!x.generators_are_up_to_date() && !x.update_generators()) return true;` -/
def prepUG (x : FPoly) : Bool × FPoly := if !x.st.gUp then x.updateGenerators else (true, x)
/-- :452 `if (!y.constraints_are_up_to_date()) y.update_constraints();` -/
def prepUC (y : FPoly) : FPoly := if !y.st.cUp then y.updateConstraints else y

theorem isIncludedIn_eq (x y : FPoly) :
    x.isIncludedIn y =
      if !(prepPC x).1 then (true, (prepPC x).2, y)
      else if !(prepUG (prepPC x).2).1 then (true, (prepUG (prepPC x).2).2, prepPG y)
      else (FPoly.includedLoops (prepUG (prepPC x).2).2.nnc (prepUG (prepPC x).2).2.p.gs.rows
              (prepUC (prepPG y)).p.cs.rows, (prepUG (prepPC x).2).2, prepUC (prepPG y)) := rfl

theorem SameShape.refl (x : FPoly) : x.SameShape x := ⟨rfl, rfl⟩
theorem SameShape.trans {x y z : FPoly} (h1 : x.SameShape y) (h2 : y.SameShape z) : x.SameShape z :=
  ⟨h2.1.trans h1.1, h2.2.trans h1.2⟩

theorem prepPC_facts (G : GlueFacts) (x : FPoly) (S : Set Val) (hx : x.Inv S)
    (hex : x.p.st.empty = false) :
    x.SameShape (prepPC x).2 ∧ (prepPC x).2.Inv S ∧ ((prepPC x).1 = false → S = ∅) ∧
    ((prepPC x).1 = true → (prepPC x).2.p.st.empty = false ∧ (prepPC x).2.p.st.cPend = false) := by
  unfold prepPC
  by_cases h : x.st.cPend = true
  · rw [if_pos h]
    obtain ⟨h1, h2, h3, h4⟩ := G.ppc x S hx hex h
    exact ⟨h1, h2, fun hb => (h3 hb).1, fun hb => ⟨(h4 hb).1, (h4 hb).2.2.2.2.2.1⟩⟩
  · rw [if_neg h]
    have h' : x.p.st.cPend = false := by simpa [FPoly.st] using h
    exact ⟨SameShape.refl x, hx, fun hb => (by cases hb), fun _ => ⟨hex, h'⟩⟩

theorem prepPG_facts (G : GlueFacts) (y : FPoly) (T : Set Val) (hy : y.Inv T)
    (hey : y.p.st.empty = false) :
    y.SameShape (prepPG y) ∧ (prepPG y).Inv T ∧ (prepPG y).p.st.empty = false ∧
      (prepPG y).p.st.gPend = false := by
  unfold prepPG
  by_cases h : y.st.gPend = true
  · rw [if_pos h]
    obtain ⟨h1, h2, h3⟩ := G.ppg y T hy hey h
    exact ⟨h1, h2, h3.1, h3.2.2.2.2.2.2⟩
  · rw [if_neg h]
    have h' : y.p.st.gPend = false := by simpa [FPoly.st] using h
    exact ⟨SameShape.refl y, hy, hey, h'⟩

theorem prepUG_facts (G : GlueFacts) (x : FPoly) (S : Set Val) (hx : x.Inv S)
    (hex : x.p.st.empty = false) (hd : 0 < x.p.dim) (hcp : x.p.st.cPend = false) :
    x.SameShape (prepUG x).2 ∧ (prepUG x).2.Inv S ∧ ((prepUG x).1 = false → S = ∅) ∧
    ((prepUG x).1 = true → (prepUG x).2.p.st.empty = false ∧ (prepUG x).2.p.st.gUp = true ∧
      (prepUG x).2.p.st.cPend = false) := by
  unfold prepUG
  by_cases h : x.p.st.gUp = true
  · have : (!x.st.gUp) = false := by show (!x.p.st.gUp) = false; rw [h]; rfl
    rw [this]
    exact ⟨SameShape.refl x, hx, fun hb => (by cases hb), fun _ => ⟨hex, h, hcp⟩⟩
  · have h' : x.p.st.gUp = false := by simpa using h
    have : (!x.st.gUp) = true := by show (!x.p.st.gUp) = true; rw [h']; rfl
    rw [this, if_pos rfl]
    have hcu : x.p.st.cUp = true := by
      rcases hx.wf.some_up hex hd with hc | hg
      · exact hc
      · rw [h'] at hg; cases hg
    have hgp : x.p.st.gPend = false := by
      cases hg : x.p.st.gPend
      · rfl
      · have := (hx.wf.pend_g hg).2; rw [h'] at this; cases this
    have hsp : x.p.st.somethingPending = false := by
      unfold Status.somethingPending; rw [hcp, hgp]; rfl
    obtain ⟨h1, h2, h3, h4⟩ := G.updG x S hx hex hd hcu hsp
    exact ⟨h1, h2, fun hb => (h3 hb).1,
      fun hb => ⟨(h4 hb).1, (h4 hb).2.2.1, (h4 hb).2.2.2.2.2.1⟩⟩

theorem prepUC_facts (G : GlueFacts) (y : FPoly) (T : Set Val) (hy : y.Inv T)
    (hey : y.p.st.empty = false) (hd : 0 < y.p.dim) (hgp : y.p.st.gPend = false) :
    y.SameShape (prepUC y) ∧ (prepUC y).Inv T ∧ (prepUC y).p.st.empty = false ∧
      (prepUC y).p.st.cUp = true ∧ (prepUC y).p.st.gPend = false := by
  unfold prepUC
  by_cases h : y.p.st.cUp = true
  · have : (!y.st.cUp) = false := by show (!y.p.st.cUp) = false; rw [h]; rfl
    rw [this]
    exact ⟨SameShape.refl y, hy, hey, h, hgp⟩
  · have h' : y.p.st.cUp = false := by simpa using h
    have : (!y.st.cUp) = true := by show (!y.p.st.cUp) = true; rw [h']; rfl
    rw [this, if_pos rfl]
    have hgu : y.p.st.gUp = true := by
      rcases hy.wf.some_up hey hd with hc | hg
      · rw [h'] at hc; cases hc
      · exact hg
    have hcp : y.p.st.cPend = false := by
      cases hc : y.p.st.cPend
      · rfl
      · have := (hy.wf.pend_c hc).1; rw [h'] at this; cases this
    have hsp : y.p.st.somethingPending = false := by
      unfold Status.somethingPending; rw [hcp, hgp]; rfl
    obtain ⟨h1, h2, h3⟩ := G.updC y T hy hey hd hgu hsp
    exact ⟨h1, h2, h3.1, h3.2.1, h3.2.2.2.2.2.2⟩

/-! ## the answer -/

/-- **`x.is_included_in(y)` answers `S ⊆ T`** and leaves both objects denoting their sets -/
theorem isIncludedIn_facts (G : GlueFacts) (x y : FPoly) (S T : Set Val) (hx : x.Inv S) (hy : y.Inv T)
    (hdim : y.p.dim = x.p.dim) (hnnc : y.p.nnc = x.p.nnc)
    (hex : x.p.st.empty = false) (hey : y.p.st.empty = false) (hd : 0 < x.p.dim) :
    (x.isIncludedIn y).2.1.Inv S ∧ (x.isIncludedIn y).2.2.Inv T ∧
    x.SameShape (x.isIncludedIn y).2.1 ∧ y.SameShape (x.isIncludedIn y).2.2 ∧
    ((x.isIncludedIn y).1 = true ↔ S ⊆ T) := by
  obtain ⟨hs1, hi1, he1, hn1⟩ := prepPC_facts G x S hx hex
  rw [isIncludedIn_eq]
  cases hb1 : (prepPC x).1
  · -- `x` found empty while processing its pending constraints
    have hS := he1 hb1
    simp only [Bool.not_false, if_true]
    exact ⟨hi1, hy, hs1, SameShape.refl y, by subst hS; simp⟩
  · obtain ⟨hne1, hcp1⟩ := hn1 hb1
    have hd1 : 0 < (prepPC x).2.p.dim := by rw [hs1.2]; exact hd
    obtain ⟨hs2, hi2, hne2, hgp2⟩ := prepPG_facts G y T hy hey
    obtain ⟨hs3, hi3, he3, hn3⟩ := prepUG_facts G _ S hi1 hne1 hd1 hcp1
    simp only [Bool.not_true, Bool.false_eq_true, if_false]
    cases hb3 : (prepUG (prepPC x).2).1
    · have hS := he3 hb3
      simp only [Bool.not_false, if_true]
      exact ⟨hi3, hi2, SameShape.trans hs1 hs3, hs2, by subst hS; simp⟩
    · obtain ⟨hne3, hgu3, hcp3⟩ := hn3 hb3
      have hd2 : 0 < (prepPG y).p.dim := by rw [hs2.2, hdim]; exact hd
      obtain ⟨hs4, hi4, hne4, hcu4, hgp4⟩ := prepUC_facts G _ T hi2 hne2 hd2 hgp2
      simp only [Bool.not_true, Bool.false_eq_true, if_false]
      have hsx := SameShape.trans hs1 hs3
      have hsy := SameShape.trans hs2 hs4
      refine ⟨hi3, hi4, hsx, hsy, ?_⟩
      have hG := (hi3.den.2 hne3).2.1 hgu3 hcp3
      have hC := (hi4.den.2 hne4).1 hcu4 hgp4
      have hnn : (prepUC (prepPG y)).p.nnc = (prepUG (prepPC x).2).2.p.nnc := by
        rw [hsy.1, hsx.1, hnnc]
      have hdd : (prepUC (prepPG y)).p.dim = (prepUG (prepPC x).2).2.p.dim := by
        rw [hsy.2, hsx.2, hdim]
      rw [← hG, ← hC, hnn]
      exact includedLoops_iff _ _ _ _ (hi3.wf.gs_wf hne3 hgu3) (hi3.wf.gs_pt hne3 hgu3)
        (fun r hr => by rw [← hdd]; exact hi4.wf.cs_len hne4 hcu4 r hr)

end PPLV.PolyFull
