import PPLV.PolyFull.ProofsOps6

/-!
# Integration stage — `remove_space_dimensions` refines `RefPoly.removeDims`
-/
namespace PPLV.PolyFull
open PPLV.Lin PPLV.PolyOps

/-- what the row-level operators of this file leave: a marked-empty object stays marked empty with
    its status word; otherwise only the generators are held, nothing pending, nothing minimized -/
def GensOnlyResult (p q : Poly) : Prop :=
  (p.st.empty = true → q.st = p.st) ∧
  (p.st.empty = false → q.st.empty = false ∧ q.st.cUp = false ∧ q.st.cMin = false ∧ q.st.cPend = false ∧
    q.st.gPend = false ∧ (q.st.gUp = true → q.gs.firstPending = q.gs.rows.length) ∧
    statusLegalB q.st q.dim = true)

theorem Inv_lift_gensOnly (x1 : FPoly) (q : Poly) (S S' : Set Val) (hx : x1.Inv S) (hwf : q.WF)
    (hden : q.Denotes S') (hr : GensOnlyResult x1.p q) :
    (x1.lift q).Inv S' ∧ ((x1.lift q).p.st.empty = false → (x1.lift q).p.st.canPend = false) := by
  cases hem : x1.p.st.empty
  · obtain ⟨he, hc, hcm, hcp, hgp, hfp, hl⟩ := hr.2 hem
    rw [lift_of_nonempty x1 q he]
    refine ⟨Inv_gensOnly _ S' hwf hden hl hc hcm hcp hgp hfp, fun _ => ?_⟩
    show q.st.canPend = false
    simp [Status.canPend, hcm]
  · have hst := hr.1 hem
    rw [lift_of_empty x1 q hem]
    have he : q.st.empty = true := by rw [hst]; exact hem
    refine ⟨Inv_of_empty _ S' he hwf hden ?_, fun h => ?_⟩
    · show statusLegalB q.st q.dim = true
      rw [hst]
      exact legal_empty_any _ hx.legal hem
    · rw [show ({ x1 with p := q } : FPoly).p.st.empty = true from he] at h; cases h

theorem obtainGens_ex (p : Poly) (hg : p.st.gUp = true) (hc : p.st.cPend = false)
    (hfp : p.st.gPend = false → p.gs.firstPending = p.gs.rows.length) :
    ∃ p', p.obtainGeneratorsNoConv = some p' ∧ p'.gs.firstPending = p'.gs.rows.length := by
  unfold Poly.obtainGeneratorsNoConv
  cases hgp : p.st.gPend
  · refine ⟨p, ?_, hfp hgp⟩
    simp [Status.somethingPending, hgp, hc, hg]
  · refine ⟨{ p with gs := { p.gs.unsetPending with sorted := false },
                       st := ({ p.st with gPend := false, gMin := false }).clearCUp }, ?_, rfl⟩
    simp only [Status.somethingPending, hgp, hc, Bool.or_true, if_true]

theorem zeroDimUniv_gensOnly (p p' : Poly) (hem : p.st.empty = false) : GensOnlyResult p p'.setZeroDimUniv :=
  ⟨fun h => (by rw [hem] at h; cases h), fun _ => ⟨rfl, rfl, rfl, rfl, rfl, fun h => (by cases h), rfl⟩⟩

theorem rsd_result (p : Poly) (vars : List Nat) (hv : vars ≠ []) (hp : p.WF) (hem : p.st.empty = false)
    (hlen : vars.length ≤ p.dim)
    (hg : p.st.gUp = true) (hc : p.st.cPend = false)
    (hfp : p.st.gPend = false → p.gs.firstPending = p.gs.rows.length) :
    ∃ q, p.remove_space_dimensions vars = some q ∧ q.nnc = p.nnc ∧ q.dim = p.dim - vars.length ∧
      GensOnlyResult p q := by
  obtain ⟨p', hp', hfp'⟩ := obtainGens_ex p hg hc hfp
  obtain ⟨_, _, hn', hd', _, hem', hgu', _, hgp', _, _⟩ := obtainGens_shape p p' hp hp'
  have hv' : vars.isEmpty = false := by
    cases vars with
    | nil => exact absurd rfl hv
    | cons a t => rfl
  have hq : p.remove_space_dimensions vars = some
      (if (p.dim - vars.length == 0) = true then p'.setZeroDimUniv
        else { p' with gs := gsRemoveDims vars p'.gs,
                       st := { p'.st.clearCUp with gMin := false }, dim := p.dim - vars.length }) := by
    unfold Poly.remove_space_dimensions
    rw [hv']
    simp only [Bool.false_eq_true, if_false, hem, hp', Option.map_some]
  refine ⟨_, hq, ?_, ?_, ?_⟩
  · split <;> exact hn'
  · split
    · rename_i h0
      have : p.dim - vars.length = 0 := by simpa using h0
      rw [this]; rfl
    · rfl
  · split
    · exact zeroDimUniv_gensOnly p p' hem
    · rename_i h0
      have h0' : p.dim - vars.length ≠ 0 := by simpa using h0
      refine ⟨fun h => (by rw [hem] at h; cases h), fun _ => ⟨?_, rfl, rfl, rfl, ?_, fun _ => rfl, ?_⟩⟩
      · show p'.st.clearCUp.empty = false
        rw [← hem, ← hem']; rfl
      · show p'.st.clearCUp.gPend = false
        rw [← hgp']; rfl
      · exact legal_gensOnly h0' (hem'.trans hem) hgu' hgp'

theorem rsd_empty (p : Poly) (vars : List Nat) (hv : vars ≠ []) (hem : p.st.empty = true) :
    p.remove_space_dimensions vars = some { p with cs := Sys.clear, dim := p.dim - vars.length } := by
  have hv' : vars.isEmpty = false := by
    cases vars with
    | nil => exact absurd rfl hv
    | cons a t => rfl
  unfold Poly.remove_space_dimensions
  rw [hv']
  simp [hem]

/-- **`Polyhedron::remove_space_dimensions(vars)`, the whole object** (preparation: pending constraints
    processed / generators computed, the row-level operator, the exact order `remove_row` leaves):
    the receiver denotes `RefPoly.removeDims` and keeps the invariant. -/
theorem removeSpaceDimensions_refines (G : GlueFacts) (x : FPoly) (ref : RefPoly) (vars : List Nat)
    (hn : ref.n = x.p.dim) (hnnc : ref.nnc = x.p.nnc) (hwf : WF ref.n ref.cs) (hnd : vars.Nodup)
    (hlt : ∀ v ∈ vars, v < x.p.dim) (hx : x.Inv (sem ref.cs)) :
    (x.removeSpaceDimensions vars).Inv (sem (ref.removeDims vars).cs) ∧
    (x.removeSpaceDimensions vars).p.nnc = x.p.nnc ∧
    (x.removeSpaceDimensions vars).p.dim = x.p.dim - vars.length := by
  unfold FPoly.removeSpaceDimensions
  by_cases hv : vars = []
  · subst hv
    simp only [List.isEmpty_nil, if_true, List.length_nil, Nat.sub_zero, and_self, and_true]
    exact hx.change (remove_space_dimensions_rows_correct x.p x.p [] ref hn hnnc hwf hx.wf hnd hlt hx.den
      (by simp [Poly.remove_space_dimensions]))
  have hv' : vars.isEmpty = false := by
    cases vars with
    | nil => exact absurd rfl hv
    | cons a t => rfl
  rw [hv']
  simp only [Bool.false_eq_true, if_false]
  have hdpos : 0 < x.p.dim := by
    cases vars with
    | nil => exact absurd rfl hv
    | cons a t => exact Nat.lt_of_le_of_lt (Nat.zero_le _) (hlt a (List.mem_cons_self))
  obtain ⟨hs, hi, hup⟩ := prepGens_facts G x _ hx hdpos
  generalize x.prepGensDropPending (fun y => y.updateGenerators.2) = x1 at hs hi hup ⊢
  have hn1 : ref.n = x1.p.dim := hn.trans hs.2.symm
  have hnnc1 : ref.nnc = x1.p.nnc := hnnc.trans hs.1.symm
  have hlt1 : ∀ v ∈ vars, v < x1.p.dim := by rw [hs.2]; exact hlt
  have hlen : vars.length ≤ x1.p.dim := by
    have h2 := List.Nodup.length_le_of_subset hnd (l₂ := List.range x1.p.dim)
      (fun v hv => List.mem_range.mpr (hlt1 v hv))
    simpa using h2
  have key : ∃ q, x1.p.remove_space_dimensions vars = some q ∧ q.nnc = x1.p.nnc ∧
      q.dim = x1.p.dim - vars.length ∧ GensOnlyResult x1.p q := by
    cases hem : x1.p.st.empty
    · obtain ⟨hgu, hcp⟩ := hup hem
      exact rsd_result x1.p vars hv hi.wf hem hlen hgu hcp (fun h => (hi.fpG hem hgu).2 h)
    · exact ⟨_, rsd_empty x1.p vars hv hem, rfl, rfl, fun _ => rfl, fun h => (by rw [hem] at h; cases h)⟩
  obtain ⟨q, hq, hqn, hqd, hr⟩ := key
  rw [hq]
  have hqwf : q.WF := remove_space_dimensions_rows_wf x1.p q vars hi.wf hnd hlt1
    (legal_empty_flags hi.legal) hq
  have hqden := remove_space_dimensions_rows_correct x1.p q vars ref hn1 hnnc1 hwf hi.wf hnd hlt1 hi.den hq
  obtain ⟨hI, hcp⟩ := Inv_lift_gensOnly x1 q _ _ hi hqwf hqden hr
  obtain ⟨h1, h2, h3⟩ := finish_refineG (x1.liftO (some q)) _
    { (x1.liftO (some q)).p.gs with
      rows := (swapRemove (fun (r : Option Row) => r.isNone) ((x1.p.gs.rows.map (genRowRemoveDims vars)).length + 1)
        (x1.p.gs.rows.map (genRowRemoveDims vars)) 0).filterMap id,
      firstPending := ((swapRemove (fun (r : Option Row) => r.isNone) ((x1.p.gs.rows.map (genRowRemoveDims vars)).length + 1)
        (x1.p.gs.rows.map (genRowRemoveDims vars)) 0).filterMap id).length }
    ((x1.liftO (some q)).st.empty || (x1.liftO (some q)).dim == 0) hI rfl hcp
  refine ⟨h1, ?_, ?_⟩
  · rw [h2]; show (x1.lift q).p.nnc = _; rw [lift_p, hqn, hs.1]
  · rw [h3]; show (x1.lift q).p.dim = _; rw [lift_p, hqd, hs.2]

end PPLV.PolyFull
