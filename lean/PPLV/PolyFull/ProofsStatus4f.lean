import PPLV.PolyFull.ProofsStatus4e

/-!
# Integration stage — `add_generator`, `unconstrain` against `PolyStatus/Ops.lean`
-/
namespace PPLV.PolyFull
open PPLV.PolyOps
open PPLV.PolyStatus (PState Gh)

attribute [local simp] FPoly.st FPoly.nnc FPoly.dim FPoly.withSt FPoly.withCs FPoly.withGs

/-! ## what `needGens` leaves when it answers "not empty" -/

theorem updateGenerators_true (x : FPoly) (h : x.updateGenerators.1 = true) :
    x.updateGenerators.2.p.st.gUp = true ∧ x.updateGenerators.2.p.st.cPend = x.p.st.cPend
    ∧ x.updateGenerators.2.p.st.empty = x.p.st.empty ∧ x.updateGenerators.2.p.dim = x.p.dim
    ∧ x.updateGenerators.2.p.nnc = x.p.nnc := by
  unfold FPoly.updateGenerators at h ⊢
  generalize FPoly.engineMinimize true x.nnc x.dim x.p.cs x.satG = o at *
  rcases (Bool.eq_false_or_eq_true o.empty).symm with b | b <;> simp_all

theorem needGens_ready (x : FPoly) (h : x.needGens.1 = false) :
    x.needGens.2.p.st.gUp = true ∧ x.needGens.2.p.st.cPend = false
    ∧ x.needGens.2.p.st.empty = x.p.st.empty ∧ x.needGens.2.p.dim = x.p.dim ∧ x.needGens.2.p.nnc = x.p.nnc := by
  rcases (Bool.eq_false_or_eq_true x.p.st.cPend).symm with c | c
  · rcases (Bool.eq_false_or_eq_true x.p.st.gUp).symm with d | d
    · have e1 : x.needGens = (!x.updateGenerators.1, x.updateGenerators.2) := by simp [FPoly.needGens, c, d]
      rw [e1] at h ⊢
      obtain ⟨k1, k2, k3, k4, k5⟩ := updateGenerators_true x (by simpa using h)
      exact ⟨k1, k2.trans c, k3, k4, k5⟩
    · have e1 : x.needGens = (false, x) := by simp [FPoly.needGens, c, d]
      rw [e1]; exact ⟨d, c, rfl, rfl, rfl⟩
  · rcases (Bool.eq_false_or_eq_true x.processPendingConstraints.1).symm with r | r
    · have e1 : x.needGens = (true, x.processPendingConstraints.2) := by simp [FPoly.needGens, c, r]
      rw [e1] at h; cases h
    · obtain ⟨j1, j2, j3, j4, j5, j6, j7⟩ := processPendingConstraints_keeps x r
      rcases (Bool.eq_false_or_eq_true x.processPendingConstraints.2.p.st.gUp).symm with d | d
      · have e1 : x.needGens = (!x.processPendingConstraints.2.updateGenerators.1,
            x.processPendingConstraints.2.updateGenerators.2) := by simp [FPoly.needGens, c, r, d]
        rw [e1] at h ⊢
        obtain ⟨k1, k2, k3, k4, k5⟩ := updateGenerators_true _ (by simpa using h)
        exact ⟨k1, k2.trans j5, k3.trans j3, k4.trans j6, k5.trans j7⟩
      · have e1 : x.needGens = (false, x.processPendingConstraints.2) := by simp [FPoly.needGens, c, r, d]
        rw [e1]; exact ⟨d, j5, j3, j6, j7⟩

/-! ## `add_generator(g)` -/

/-- the insertion of `add_generator` (after the preparation); `r1`: the receiver was (found) empty -/
def FPoly.agTail (r1 : Bool) (x : FPoly) (k : FPoly.GKindA) (g : Row) : FPoly :=
  let isPt := k == .point
  let g : Row := if x.nnc && isPt then { g with eps := g.b } else g
  let cp : Row := ({ g with eps := 0 } : Row).normalize
  if r1 then
    let gs0 : Sys := Sys.clear
    let gs := if x.nnc then
        let s1 := gs0.insertRow true true g
        ({ s1 with rows := s1.rows.dropLast ++ [cp] } : Sys).insertRow true true g
      else gs0.insertRow true false g
    { x with p := { x.p with gs := gs, st := { x.p.st with empty := false, gUp := true, gMin := true } } }
  else
    if x.st.canPend then
      let gs := if x.nnc && isPt then (x.p.gs.insertPendingRow cp).insertPendingRow g else x.p.gs.insertPendingRow g
      { x with p := { x.p with gs := gs, st := { x.p.st with gPend := true } } }
    else
      let gs := if x.nnc && isPt then
          let s1 := x.p.gs.insertRow true x.nnc g
          ({ s1 with rows := s1.rows.dropLast ++ [cp] } : Sys).insertRow true x.nnc g
        else x.p.gs.insertRow true x.nnc g
      { x with p := { x.p with gs := gs, st := ({ x.p.st with gMin := false }).clearCUp } }

theorem addGenerator_eq (x : FPoly) (k : FPoly.GKindA) (g : Row) (b : x.p.dim ≠ 0) :
    x.addGenerator k g
      = FPoly.agTail (if x.st.empty then (true, x) else x.needGens).1 (if x.st.empty then (true, x) else x.needGens).2 k g := by
  have : (x.dim == 0) = false := by simpa using b
  unfold FPoly.addGenerator
  simp only [this, Bool.false_eq_true, ↓reduceIte]
  rfl

theorem agTail_facts (r1 : Bool) (y : FPoly) (k : FPoly.GKindA) (g : Row) :
    (FPoly.agTail r1 y k g).p.st =
      (if r1 then { y.p.st with empty := false, gUp := true, gMin := true }
       else if y.p.st.canPend then { y.p.st with gPend := true } else ({ y.p.st with gMin := false }).clearCUp)
    ∧ (FPoly.agTail r1 y k g).p.dim = y.p.dim ∧ (FPoly.agTail r1 y k g).p.nnc = y.p.nnc
    ∧ (FPoly.agTail r1 y k g).p.cs = y.p.cs
    ∧ (r1 = true → y.p.nnc = false → (FPoly.agTail r1 y k g).p.gs.sorted = true)
    ∧ (r1 = false → y.p.st.canPend = true → (FPoly.agTail r1 y k g).p.gs.sorted = y.p.gs.sorted)
    ∧ (r1 = false → y.p.st.canPend = false → (FPoly.agTail r1 y k g).p.gs.sorted = true → y.p.gs.sorted = true) := by
  cases r1
  · rcases (Bool.eq_false_or_eq_true y.p.st.canPend).symm with cp | cp
    · refine ⟨by simp [FPoly.agTail, cp], by simp [FPoly.agTail, cp], by simp [FPoly.agTail, cp],
        by simp [FPoly.agTail, cp], fun hc => (by cases hc), fun _ hc => (by rw [cp] at hc; cases hc), fun _ _ hr => ?_⟩
      simp only [FPoly.agTail, FPoly.st, FPoly.nnc, cp, Bool.false_eq_true, ↓reduceIte] at hr
      rcases (Bool.eq_false_or_eq_true (y.p.nnc && k == FPoly.GKindA.point)).symm with q | q
      · simp only [q, Bool.false_eq_true, ↓reduceIte] at hr
        exact insertRow_sorted_imp _ _ _ _ hr
      · simp only [q, ↓reduceIte] at hr
        have h2 := insertRow_sorted_imp _ _ _ _ hr
        simp only at h2
        exact insertRow_sorted_imp _ _ _ _ h2
    · refine ⟨by simp [FPoly.agTail, cp], by simp [FPoly.agTail, cp], by simp [FPoly.agTail, cp],
        by simp [FPoly.agTail, cp], fun hc => (by cases hc), fun _ _ => ?_, fun _ hc => (by rw [cp] at hc; cases hc)⟩
      simp only [FPoly.agTail, FPoly.st, FPoly.nnc, cp, Bool.false_eq_true, ↓reduceIte]
      rcases (Bool.eq_false_or_eq_true (y.p.nnc && k == FPoly.GKindA.point)).symm with q | q
      · simp only [q, Bool.false_eq_true, ↓reduceIte]; rfl
      · simp only [q, ↓reduceIte]; rfl
  · refine ⟨by simp [FPoly.agTail], by simp [FPoly.agTail], by simp [FPoly.agTail], by simp [FPoly.agTail],
      fun _ hn => ?_, fun hc => (by cases hc), fun hc => (by cases hc)⟩
    simp [FPoly.agTail, hn, Sys.insertRow, Sys.clear]

theorem agTail_sim_first (y : FPoly) (k : FPoly.GKindA) (gr : Row) (t : PState) (g : Gh) (m : Sim y t)
    (hs : y.p.gs.sorted = true) (hk : y.p.nnc = true → g.keep = (FPoly.agTail true y k gr).p.gs.sorted) :
    Sim (FPoly.agTail true y k gr) (PPLV.PolyStatus.firstPoint g t) := by
  obtain ⟨f1, f2, f3, f4, s1, _, _⟩ := agTail_facts true y k gr
  generalize FPoly.agTail true y k gr = z at *
  obtain ⟨⟨zn, zd, zst, zcs, ⟨zr, zf, zsrt⟩⟩, zC, zG⟩ := z
  obtain ⟨⟨nnc, dim, ⟨e, cu, gu, cm, gm, sc, sg, cpd, gp⟩, cs, ⟨gr', gf, gsrt⟩⟩, mC, mG⟩ := y
  simp only at f1 f2 f3 f4 s1 hs hk
  subst f1 f2 f3 f4 hs
  sim_hyps m
  cases zn <;> simp_all [Sim, pst, PPLV.PolyStatus.firstPoint]

/-- the abstract insertion of generators -/
theorem agTail_sim_insert (y : FPoly) (k : FPoly.GKindA) (gr : Row) (t : PState) (g : Gh) (m : Sim y t)
    (hk : g.keep = (FPoly.agTail false y k gr).p.gs.sorted) :
    Sim (FPoly.agTail false y k gr) (PPLV.PolyStatus.insertGens g t) := by
  obtain ⟨f1, f2, f3, f4, _, s2, s3⟩ := agTail_facts false y k gr
  generalize FPoly.agTail false y k gr = z at *
  obtain ⟨⟨zn, zd, zst, zcs, ⟨zr, zf, zsrt⟩⟩, zC, zG⟩ := z
  obtain ⟨⟨nnc, dim, ⟨e, cu, gu, cm, gm, sc, sg, cpd, gp⟩, cs, ⟨gr', gf, gsrt⟩⟩, mC, mG⟩ := y
  simp only at f1 f2 f3 f4 s2 s3 hk
  subst f1 f2 f3 f4
  sim_hyps m
  cases hkk : g.keep <;> cases cm <;> cases gm <;> cases sc <;> cases sg <;>
    simp_all [Sim, pst, PPLV.PolyStatus.insertGens, Status.canPend, Status.clearCUp]

structure AgGhost (x : FPoly) (k : FPoly.GKindA) (gr : Row) (g : Gh) (s : PState) : Prop where
  prep : x.p.dim ≠ 0 → x.p.st.empty = false → NeedGensGhost x g s
  keep : g.keep = (x.addGenerator k gr).p.gs.sorted

theorem addGenerator_sim (x : FPoly) (k : FPoly.GKindA) (gr : Row) (s : PState) (g : Gh) (h : Sim x s)
    (hE : x.p.st.empty = true → x.p.gs.sorted = true)
    (hl : x.p.st.cPend = true → x.p.st.gUp = true) (hg : AgGhost x k gr g s) :
    Sim (x.addGenerator k gr) (PPLV.PolyStatus.addGenerator g s) := by
  have h' := h
  sim_hyps h'
  by_cases b : x.p.dim = 0
  · rcases (Bool.eq_false_or_eq_true x.p.st.empty).symm with a | a
    · simp [FPoly.addGenerator, PPLV.PolyStatus.addGenerator, pst, *]
    · simp [FPoly.addGenerator, PPLV.PolyStatus.addGenerator, pst, FPoly.setZeroDimUniv, Poly.setZeroDimUniv,
        Status.zeroDimUniv, Sys.clear, Sim, *]
  · have hk := hg.keep
    have bd : (s.dim == 0) = false := by rw [h10]; simpa using b
    rw [addGenerator_eq x k gr b] at hk ⊢
    rcases (Bool.eq_false_or_eq_true x.p.st.empty).symm with a | a
    · obtain ⟨m1, m2⟩ := needGens_sim x s g h hl (hg.prep b a)
      simp only [FPoly.st, a, Bool.false_eq_true, ↓reduceIte] at hk ⊢
      rcases (Bool.eq_false_or_eq_true x.needGens.1).symm with r | r
      · have e2 : PPLV.PolyStatus.addGenerator g s = PPLV.PolyStatus.insertGens g (PPLV.PolyStatus.needGens g s).2 := by
          simp only [PPLV.PolyStatus.addGenerator, bd, pst, h1, a]; simp [m1.trans r]
        rw [e2]; rw [r] at hk ⊢
        exact agTail_sim_insert _ k gr _ g m2 hk
      · have e2 : PPLV.PolyStatus.addGenerator g s = PPLV.PolyStatus.firstPoint g (PPLV.PolyStatus.needGens g s).2 := by
          simp only [PPLV.PolyStatus.addGenerator, bd, pst, h1, a]; simp [m1.trans r]
        rw [e2]; rw [r] at hk ⊢
        exact agTail_sim_first _ k gr _ g m2 (by rw [(needGens_found x r).1]; rfl) (fun _ => hk)
    · have e2 : PPLV.PolyStatus.addGenerator g s = PPLV.PolyStatus.firstPoint g s := by
        simp only [PPLV.PolyStatus.addGenerator, bd, pst, h1, a]; simp
      simp only [FPoly.st, a, ↓reduceIte] at hk ⊢
      rw [e2]
      exact agTail_sim_first _ k gr _ g h (hE a) (fun _ => hk)

end PPLV.PolyFull
