import PPLV.PolyFull.ProofsOps6h

/-!
# Integration stage — `concatenate_assign` refines `RefPoly.concat`
-/
namespace PPLV.PolyFull
open PPLV.Lin PPLV.PolyOps
open PPLV.Conv (holdsAll holds)

theorem Inv_lift_empty (x : FPoly) (q : Poly) (S' : Set Val) (hq : q.st.empty = true) (hwf : q.WF)
    (hden : q.Denotes S') (hl : statusLegalB q.st q.dim = true) : (x.lift q).Inv S' := by
  unfold FPoly.lift
  split
  · exact Inv_of_empty _ _ hq hwf hden hl
  · exact Inv_of_empty _ _ hq hwf hden hl

theorem wf_setEmpty' (x : Poly) : x.setEmpty.WF :=
  ⟨fun h => (by cases h), fun h => (by cases h), fun h => (by cases h), fun h => (by cases h),
    fun h => (by cases h), fun h => (by cases h.1), fun h => (by cases h), fun _ => ⟨rfl, rfl⟩⟩

theorem concat_empty_eq (p y : Poly) (h : (p.st.empty || y.st.empty) = true) :
    p.concatenate_assign y = some ({ p with dim := p.dim + y.dim }).setEmpty := by
  unfold Poly.concatenate_assign
  rw [if_pos h]

theorem concat_zero_right_eq (p y : Poly) (hex : p.st.empty = false) (hey : y.st.empty = false)
    (hd : y.dim = 0) : p.concatenate_assign y = some p := by
  simp [Poly.concatenate_assign, hex, hey, hd]

theorem concat_zero_left_eq (p y : Poly) (hex : p.st.empty = false) (hey : y.st.empty = false)
    (hdy : y.dim ≠ 0) (hd : p.dim = 0) : p.concatenate_assign y = some y := by
  simp [Poly.concatenate_assign, hex, hey, hd, hdy]

/-- the proof behind the two theorems below: the engine clause of the result is asked for only in the
    branch where the prepared receiver can have pending rows -/
theorem concatenateAssign_core (G : GlueFacts) (x y : FPoly) (refx refy : RefPoly)
    (hnx : refx.n = x.p.dim) (hny : refy.n = y.p.dim)
    (hnncx : refx.nnc = x.p.nnc) (hnncy : refy.nnc = y.p.nnc)
    (hwfx : WF refx.n refx.cs) (hwfy : WF refy.n refy.cs) (hnncxy : y.p.nnc = x.p.nnc)
    (hx : x.Inv (sem refx.cs)) (hy : y.Inv (sem refy.cs))
    (hEng : x.p.st.empty = false → y.p.st.empty = false → x.p.dim ≠ 0 → y.p.dim ≠ 0 →
      x.needCons.p.st.canPend = true → (x.concatenateAssign y).1.p.st.empty = false → (x.concatenateAssign y).1.p.st.canPend = true →
      EnginePair (x.concatenateAssign y).1.p.nnc (x.concatenateAssign y).1.p.dim
        (x.concatenateAssign y).1.npC (x.concatenateAssign y).1.npG
        (x.concatenateAssign y).1.p.st.satC (x.concatenateAssign y).1.p.st.satG
        (x.concatenateAssign y).1.satC (x.concatenateAssign y).1.satG) :
    (x.concatenateAssign y).1.Inv (sem (refx.concat refy).cs) ∧
    (x.concatenateAssign y).2.Inv (sem refy.cs) ∧
    (x.concatenateAssign y).1.p.dim = x.p.dim + y.p.dim := by
  have hR : ∀ q, x.p.concatenate_assign y.p = some q → q.Denotes (sem (refx.concat refy).cs) := fun q h =>
    concatenate_assign_rows_correct x.p y.p q refx refy hnx hny hnncx hnncy hwfx hwfy hx.wf hy.wf hnncxy
      hx.den hy.den h
  revert hEng
  unfold FPoly.concatenateAssign FPoly.st FPoly.dim
  by_cases hc : (x.p.st.empty || y.p.st.empty || y.p.dim == 0) = true
  · rw [if_pos hc]
    intro _
    by_cases he : (x.p.st.empty || y.p.st.empty) = true
    · have hq := concat_empty_eq x.p y.p he
      rw [hq]
      refine ⟨Inv_lift_empty x _ _ rfl (wf_setEmpty' _) (hR _ hq) (legal_setEmpty _), hy, ?_⟩
      show (x.lift _).p.dim = _
      rw [lift_p]; rfl
    · simp only [Bool.or_eq_true, not_or, Bool.not_eq_true] at he
      have hd : y.p.dim = 0 := by simpa [he.1, he.2] using hc
      have hq := concat_zero_right_eq x.p y.p he.1 he.2 hd
      rw [hq]
      show (x.lift x.p).Inv _ ∧ _ ∧ (x.lift x.p).p.dim = _
      rw [lift_self]
      exact ⟨hx.change (hR _ hq), hy, by rw [hd]; rfl⟩
  · rw [if_neg hc]
    simp only [Bool.or_eq_true, not_or, Bool.not_eq_true, beq_iff_eq] at hc
    obtain ⟨⟨hex, hey⟩, hdy⟩ := hc
    by_cases hdx : x.p.dim = 0
    · have : (x.p.dim == 0) = true := by simpa using hdx
      rw [if_pos this]
      intro _
      have hq := concat_zero_left_eq x.p y.p hex hey hdy hdx
      exact ⟨hy.change (hR _ hq), hy, by show y.p.dim = _; omega⟩
    · have : ¬ (x.p.dim == 0) = true := by simpa using hdx
      rw [if_neg this]
      obtain ⟨hsx, hix, hex1, hcx1, hgx1⟩ := G.needCons x _ hx hex (Nat.pos_of_ne_zero hdx)
      obtain ⟨hsy, hiy, hey1, hcy1, hgy1⟩ := G.needCons y _ hy hey (Nat.pos_of_ne_zero hdy)
      have hR1 : ∀ q, x.needCons.p.concatenate_assign y.needCons.p = some q →
          q.Denotes (sem (refx.concat refy).cs) := fun q h =>
        concatenate_assign_rows_correct _ _ q refx refy (hnx.trans hsx.2.symm) (hny.trans hsy.2.symm)
          (hnncx.trans hsx.1.symm) (hnncy.trans hsy.1.symm) hwfx hwfy hix.wf hiy.wf
          (by rw [hsx.1, hsy.1]; exact hnncxy) hix.den hiy.den h
      have hdx1 : x.needCons.p.dim ≠ 0 := by rw [hsx.2]; exact hdx
      have hdy1 : y.needCons.p.dim ≠ 0 := by rw [hsy.2]; exact hdy
      have hdim : x.needCons.p.dim + y.needCons.p.dim = x.p.dim + y.p.dim := by rw [hsx.2, hsy.2]
      generalize x.needCons = x' at *
      generalize y.needCons = y' at *
      dsimp only
      cases hcp : x'.p.st.canPend
      · simp only [Bool.false_eq_true, if_false]
        have hq := concat_nonpend_eq x'.p y'.p hex1 hey1 hdx1 hdy1 hcx1 hgx1 hcy1 hgy1 hcp
        rw [hq]
        intro _
        have hl : x'.liftO (some (concatNonpendPoly x'.p y'.p)) = { x' with p := concatNonpendPoly x'.p y'.p } :=
          lift_of_nonempty x' _ (by show ({ x'.p.st with cMin := false }).clearGUp.empty = false; exact hex1)
        rw [hl]
        refine ⟨?_, hiy, hdim⟩
        refine concat_nonpend x' y' _ _ _ hix hiy hex1 hey1 hdx1 hdy1 hcx1 hcy1 hcp _ ?_ (hR1 _ hq)
        refine foldl_insertRow_fp _ _ _ _ ?_
        show x'.p.cs.firstPending = (x'.p.cs.rows.map _).length
        rw [List.length_map]
        exact (hix.fpC hex1 hcx1).2 (legal_not_canPend hix.legal hcp).1
      · simp only [if_true]
        have hq := concat_pend_eq x'.p y'.p hex1 hey1 hdx1 hdy1 hcx1 hgx1 hcy1 hgy1 hcp
        rw [hq]
        intro hEng
        have hl : x'.liftO (some (concatPendPoly x'.p y'.p)) = { x' with p := concatPendPoly x'.p y'.p } :=
          lift_of_nonempty x' _ hex1
        rw [hl] at hEng ⊢
        refine ⟨?_, hiy, hdim⟩
        have h0 := concat_pend x' y' _ _ _ hix hiy hex1 hey1 hdx1 hdy1 hcx1 hgx1 hcy1 hcp
          ⟨List.replicate y'.p.dim [] ++ (if (!x'.p.st.satC) = true then x'.satG.transposeOf else x'.satC).rows,
            (if (!x'.p.st.satC) = true then x'.satG.transposeOf else x'.satC).ncols⟩ x'.satG (hR1 _ hq)
        have hgu := (legal_canPend_up hix.legal hcp).2
        have hm : 0 < y'.p.dim := Nat.pos_of_ne_zero hdy1
        refine (InvNoEng_refineG _ _ (FPoly.addUniverseRowsExact true x'.p.nnc x'.p.dim y'.p.dim x'.p.gs) h0 ?_).toInv (hEng hex hey hdx hdy (by first | exact rfl | trivial))
        intro _ _
        rw [(addUniverseRowsExact_fp _ _ _ _ _ hm).1, (addUniverseRowsExact_fp _ _ _ _ _ hm).2]
        have := hix.fpG hex1 hgu
        exact ⟨by omega, fun _ => by have := this.2 hgx1; omega⟩

/-- **`Polyhedron::concatenate_assign(y)`, the whole object** (preparation by `needCons` on both
    operands, the row-level operator, the exact row order): the receiver denotes `RefPoly.concat`,
    the argument (lazily updated) still denotes its set, both keep the invariant.  PARTIAL: `hEng`
    assumes the clause `eng` of `FPoly.Inv` for the receiver's result — used only in the branch where
    the prepared receiver can have pending rows (`C_MINIMIZED`, `G_MINIMIZED`, a saturation matrix up to
    date: its constraint rows get zero columns, the lines of the new variables are put in front of
    its generators, empty rows in front of `sat_c`); with a receiver marked empty, of dimension zero, or
    not able to have pending rows, and for the argument, everything is proved and `hEng` is not used. -/
theorem concatenateAssign_refines_partial (G : GlueFacts) (x y : FPoly) (refx refy : RefPoly)
    (hnx : refx.n = x.p.dim) (hny : refy.n = y.p.dim)
    (hnncx : refx.nnc = x.p.nnc) (hnncy : refy.nnc = y.p.nnc)
    (hwfx : WF refx.n refx.cs) (hwfy : WF refy.n refy.cs) (hnncxy : y.p.nnc = x.p.nnc)
    (hx : x.Inv (sem refx.cs)) (hy : y.Inv (sem refy.cs))
    (hEng : (x.concatenateAssign y).1.p.st.empty = false → (x.concatenateAssign y).1.p.st.canPend = true →
      EnginePair (x.concatenateAssign y).1.p.nnc (x.concatenateAssign y).1.p.dim
        (x.concatenateAssign y).1.npC (x.concatenateAssign y).1.npG
        (x.concatenateAssign y).1.p.st.satC (x.concatenateAssign y).1.p.st.satG
        (x.concatenateAssign y).1.satC (x.concatenateAssign y).1.satG) :
    (x.concatenateAssign y).1.Inv (sem (refx.concat refy).cs) ∧
    (x.concatenateAssign y).2.Inv (sem refy.cs) ∧
    (x.concatenateAssign y).1.p.dim = x.p.dim + y.p.dim :=
  concatenateAssign_core G x y refx refy hnx hny hnncx hnncy hwfx hwfy hnncxy hx hy (fun _ _ _ _ _ => hEng)

/-- the same, FULLY proved (no `hEng`), when an operand is marked empty or zero-dimensional, or the
    prepared receiver cannot have pending rows -/
theorem concatenateAssign_refines_noPend (G : GlueFacts) (x y : FPoly) (refx refy : RefPoly)
    (hnx : refx.n = x.p.dim) (hny : refy.n = y.p.dim)
    (hnncx : refx.nnc = x.p.nnc) (hnncy : refy.nnc = y.p.nnc)
    (hwfx : WF refx.n refx.cs) (hwfy : WF refy.n refy.cs) (hnncxy : y.p.nnc = x.p.nnc)
    (hx : x.Inv (sem refx.cs)) (hy : y.Inv (sem refy.cs))
    (hnp : x.p.st.empty = true ∨ y.p.st.empty = true ∨ x.p.dim = 0 ∨ y.p.dim = 0 ∨
      x.needCons.p.st.canPend = false) :
    (x.concatenateAssign y).1.Inv (sem (refx.concat refy).cs) ∧
    (x.concatenateAssign y).2.Inv (sem refy.cs) ∧
    (x.concatenateAssign y).1.p.dim = x.p.dim + y.p.dim :=
  concatenateAssign_core G x y refx refy hnx hny hnncx hnncy hwfx hwfy hnncxy hx hy
    (fun h1 h2 h3 h4 h5 => by
      rcases hnp with h | h | h | h | h
      · rw [h1] at h; cases h
      · rw [h2] at h; cases h
      · exact absurd h h3
      · exact absurd h h4
      · rw [h5] at h; cases h)

end PPLV.PolyFull
