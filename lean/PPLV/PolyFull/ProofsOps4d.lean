import PPLV.PolyFull.ProofsOps4c

/-!
# Integration stage — `time_elapse_assign` refines `timeElapseGens`
-/
namespace PPLV.PolyFull
open PPLV.Lin PPLV.PolyOps

/-- `time_elapse_main` for the system the model builds -/
theorem time_elapse_main' (x y : FPoly) (S Sy S' : Set Val) (hx : x.Inv S) (hy : y.Inv Sy)
    (hdim : y.p.dim = x.p.dim) (hnnc : y.p.nnc = x.p.nnc)
    (hex : x.p.st.empty = false) (hey : y.p.st.empty = false) (hd : x.p.dim ≠ 0)
    (hgx : x.p.st.gUp = true) (hcx : x.p.st.cPend = false) (hgy : y.p.st.gUp = true)
    (hcy : y.p.st.cPend = false)
    (hden : ∀ q, x.p.time_elapse_assign y.p = some q → q.Denotes S')
    (t : List Row) (alt : Sys) (halt : alt.firstPending = alt.rows.length) :
    (x.liftO (x.p.time_elapse_assign y.p)).Inv S' ∧
    ({ x.liftO (x.p.time_elapse_assign y.p) with
        p := { (x.liftO (x.p.time_elapse_assign y.p)).p with
          gs := (x.liftO (x.p.time_elapse_assign y.p)).p.gs.refineBy
            (if x.st.canPend then x.p.gs.insertPendingSys t else alt) } } : FPoly).Inv S' ∧
    (x.liftO (x.p.time_elapse_assign y.p)).p.nnc = x.p.nnc ∧
    (x.liftO (x.p.time_elapse_assign y.p)).p.dim = x.p.dim := by
  apply time_elapse_main x y S Sy S' _ hx hy hdim hnnc hex hey hd hgx hcx hgy hcy hden
  · intro h
    exact ⟨t, by unfold FPoly.st; rw [h]; rfl⟩
  · intro h
    unfold FPoly.st; rw [h]; exact halt

/-- **`Polyhedron::time_elapse_assign(y)`, the whole object** (preparation by `needGens` on both operands,
    the row-level operator, the loop over the copy of `y`'s generators in its order, the exact row
    order), under the hypotheses of `C02.time_elapse_assign_rows_correct_nnc`; the geometric invariant
    `NNCInvW` is asked of the generator rows of the PREPARED argument `y.needGens.2` (the rows the loop
    reads; in dimension 0 no row is read and the hypothesis is not used). -/
theorem timeElapseAssign_refines (G : GlueFacts) (x y : FPoly) (n : Nat) (gx gy : List Gen)
    (hxn : x.p.dim = n) (hyn : y.p.dim = n) (hnnc : y.p.nnc = x.p.nnc)
    (hwx : gensWF n gx = true) (hwy : gensWF n gy = true)
    (hpx : ∃ g ∈ gx, g.isPt = true) (hpy : ∃ g ∈ gy, g.isPt = true)
    (hinv : x.p.nnc = true → NNCInvW n y.needGens.2.p.gs.rows)
    (hx : x.Inv (GenSem n gx)) (hy : y.Inv (GenSem n gy)) :
    (x.timeElapseAssign y).1.Inv (GenSem n (timeElapseGens gx gy)) ∧
    (x.timeElapseAssign y).2.Inv (GenSem n gy) ∧
    x.SameShape (x.timeElapseAssign y).1 ∧ y.SameShape (x.timeElapseAssign y).2 := by
  have hnex := nonempty_of_pt n gx hpx
  have hney := nonempty_of_pt n gy hpy
  have hex : x.p.st.empty = false := by
    cases he : x.p.st.empty
    · rfl
    · rw [hx.den.1 he] at hnex; exact absurd hnex Set.not_nonempty_empty
  have hey : y.p.st.empty = false := by
    cases he : y.p.st.empty
    · rfl
    · rw [hy.den.1 he] at hney; exact absurd hney Set.not_nonempty_empty
  unfold FPoly.timeElapseAssign
  by_cases hd0 : (x.dim == 0) = true
  · rw [if_pos hd0]
    have hd : x.p.dim = 0 := by simpa [FPoly.dim] using hd0
    simp only [FPoly.st, hey, Bool.false_eq_true, if_false]
    refine ⟨?_, hy, ⟨rfl, rfl⟩, rfl, rfl⟩
    have hn0 : n = 0 := by rw [← hxn]; exact hd
    subst hn0
    have hux := (hx.den.2 hex).2.2 (hx.wf.zero_dim hd).1 (hx.wf.zero_dim hd).2
    have : GenSem 0 (timeElapseGens gx gy) = GenSem 0 gx := by
      rw [hux, timeElapseGens_eq]
      obtain ⟨g, hg, hp⟩ := hpx
      exact GenSem_zero_univ _ ⟨g, List.mem_append_left _ hg, hp⟩
    rw [this]; exact hx
  rw [if_neg hd0, if_neg (by simp [FPoly.st, hex, hey])]
  have hd : x.p.dim ≠ 0 := by simpa [FPoly.dim] using hd0
  have hdp : 0 < x.p.dim := Nat.pos_of_ne_zero hd
  obtain ⟨hsx, hix, hx1, hx0⟩ := G.needGens x _ hx hex hdp
  obtain ⟨hsy, hiy, hy1, hy0⟩ := G.needGens y _ hy hey (by rw [hyn, ← hxn]; exact hdp)
  cases hbx : x.needGens.1
  swap
  · rw [(hx1 hbx).1] at hnex; exact absurd hnex Set.not_nonempty_empty
  cases hby : y.needGens.1
  swap
  · rw [(hy1 hby).1] at hney; exact absurd hney Set.not_nonempty_empty
  obtain ⟨hex1, hgx1, hcx1⟩ := hx0 hbx
  obtain ⟨hey1, hgy1, hcy1⟩ := hy0 hby
  have hxn1 : x.needGens.2.p.dim = n := hsx.2.trans hxn
  have hyn1 : y.needGens.2.p.dim = n := hsy.2.trans hyn
  have hnnc2 : y.needGens.2.p.nnc = x.needGens.2.p.nnc := hsy.1.trans (hnnc.trans hsx.1.symm)
  have M := time_elapse_main' x.needGens.2 y.needGens.2 _ _ (GenSem n (timeElapseGens gx gy)) hix hiy
    (hyn1.trans hxn1.symm) hnnc2 hex1 hey1 (by rw [hxn1, ← hxn]; exact hd) hgx1 hcx1 hgy1 hcy1
    (fun q h => time_elapse_assign_rows_correct_nnc _ _ q n gx gy hxn1 hyn1 hnnc2 hix.wf hiy.wf hwx hwy hpx hpy
      (fun h => hinv (hsx.1 ▸ h)) hix.den hiy.den h)
  simp only [hbx, hby, Bool.false_eq_true, if_false]
  split
  · obtain ⟨a, _, b, c⟩ := M [] (x.needGens.2.p.gs.mergeRowsExact true false []) rfl
    exact ⟨a, hiy, ⟨b.trans hsx.1, c.trans hsx.2⟩, hsy⟩
  · have M2 := fun t alt h => (M t alt h).2
    have M3 := (M2 [] (x.needGens.2.p.gs.mergeRowsExact true false []) rfl).2
    refine ⟨(M2 _ _ ?_).1, hiy, ⟨M3.1.trans hsx.1, M3.2.trans hsx.2⟩, hsy⟩
    rfl

/-- **`Polyhedron::time_elapse_assign(y)` when an operand denotes the empty set** (whether or not it is
    marked empty): the receiver becomes the empty polyhedron. -/
theorem timeElapseAssign_refines_empty (G : GlueFacts) (x y : FPoly) (Sx Sy : Set Val)
    (hdim : y.p.dim = x.p.dim) (hx : x.Inv Sx) (hy : y.Inv Sy) (he : Sx = ∅ ∨ Sy = ∅) :
    (x.timeElapseAssign y).1.Inv ∅ ∧ (x.timeElapseAssign y).2.Inv Sy ∧
    x.SameShape (x.timeElapseAssign y).1 ∧ y.SameShape (x.timeElapseAssign y).2 := by
  have huniv : (Set.univ : Set Val) ≠ ∅ := fun h => by
    have : (fun _ => 0 : Val) ∈ (∅ : Set Val) := by rw [← h]; trivial
    exact this
  have hzero : ∀ (z : FPoly) (S : Set Val), z.Inv S → z.p.dim = 0 → z.p.st.empty = false → S ≠ ∅ := by
    intro z S hz hd hze hS
    have := (hz.den.2 hze).2.2 (hz.wf.zero_dim hd).1 (hz.wf.zero_dim hd).2
    exact huniv (this ▸ hS)
  unfold FPoly.timeElapseAssign
  by_cases hd0 : (x.dim == 0) = true
  · rw [if_pos hd0]
    have hd : x.p.dim = 0 := by simpa [FPoly.dim] using hd0
    cases hey : y.p.st.empty
    · simp only [FPoly.st, hey, Bool.false_eq_true, if_false]
      have hSy := hzero y Sy hy (hdim.trans hd) hey
      have hSx : Sx = ∅ := he.resolve_right hSy
      exact ⟨hSx ▸ hx, hy, ⟨rfl, rfl⟩, rfl, rfl⟩
    · simp only [FPoly.st, hey, if_true]
      exact ⟨Inv_setEmpty x ∅ hx.wf rfl, hy, ⟨rfl, rfl⟩, rfl, rfl⟩
  rw [if_neg hd0]
  by_cases hee : (x.st.empty || y.st.empty) = true
  · rw [if_pos hee]
    exact ⟨Inv_setEmpty x ∅ hx.wf rfl, hy, ⟨rfl, rfl⟩, rfl, rfl⟩
  rw [if_neg hee]
  simp only [FPoly.st, Bool.or_eq_true, not_or, Bool.not_eq_true] at hee
  obtain ⟨hex, hey⟩ := hee
  have hd : x.p.dim ≠ 0 := by simpa [FPoly.dim] using hd0
  have hdp : 0 < x.p.dim := Nat.pos_of_ne_zero hd
  obtain ⟨hsx, hix, hx1, hx0⟩ := G.needGens x _ hx hex hdp
  obtain ⟨hsy, hiy, hy1, hy0⟩ := G.needGens y _ hy hey (by rw [hdim]; exact hdp)
  cases hbx : x.needGens.1
  swap
  · simp only [hbx, if_true]
    exact ⟨Inv_setEmpty _ ∅ hix.wf rfl, hy, hsx, rfl, rfl⟩
  cases hby : y.needGens.1
  swap
  · simp only [hbx, hby, Bool.false_eq_true, if_false, if_true]
    exact ⟨Inv_setEmpty _ ∅ hix.wf rfl, hiy, hsx, hsy⟩
  exfalso
  obtain ⟨hex1, hgx1, hcx1⟩ := hx0 hbx
  obtain ⟨hey1, hgy1, hcy1⟩ := hy0 hby
  have h1 := (denotes_gen_nonempty _ _ hix.wf hex1 hgx1 hcx1 hix.den).2
  have h2 := (denotes_gen_nonempty _ _ hiy.wf hey1 hgy1 hcy1 hiy.den).2
  rcases he with h | h
  · rw [h] at h1; exact Set.not_nonempty_empty h1
  · rw [h] at h2; exact Set.not_nonempty_empty h2

end PPLV.PolyFull

