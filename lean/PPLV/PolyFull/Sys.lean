import PPLV.PolyFull.State

/-!
# Integration stage — `Linear_System` operations with their exact row ORDER and `sorted` flag

`PPLV/PolyOps/Rows.lean` follows the rows as multisets and the `sorted` flag only where the code
derives it without comparing rows; the engine (`conversion`, `simplify`) depends on both.  Here:
`sort_rows`, `sort_and_remove_with_sat`, `sort_pending_and_remove_duplicates`, `insert`,
`merge_rows_assign`, and the `sorted` flags that `conversion` (Polyhedron_conversion_templates.hh:405,
:498, :670, :681, :951, :985-1018), `simplify` (Polyhedron_simplify_templates.hh:111-143, `remove_row`),
`gauss` and `back_substitute` (Linear_System_templates.hh:568-731) leave — which `PPLV/Conv` does not
model.  All comparisons are `PPLV.Conv.compareRow` (Conv/Sort.lean).
-/
namespace PPLV.PolyFull
open PPLV.Lin PPLV.PolyOps
open PPLV.Conv (LRow BRow SRow DRow CState)

/-! ## sorting -/

/-- stable insertion of a row with its saturation row -/
def insertWith (gen nnc : Bool) (r : Row × BRow) : List (Row × BRow) → List (Row × BRow)
  | [] => [r]
  | x :: xs => if cmpRow gen nnc r.1 x.1 < 0 then r :: x :: xs else x :: insertWith gen nnc r xs

/-- `std::unique` with `is_equal_to` -/
def uniqueWith : List (Row × BRow) → List (Row × BRow)
  | [] => []
  | x :: rest => if (rest.head?.map (·.1)) == some x.1 then uniqueWith rest else x :: uniqueWith rest

def sortWith (gen nnc : Bool) (l : List (Row × BRow)) : List (Row × BRow) :=
  uniqueWith (l.foldl (fun acc r => insertWith gen nnc r acc) [])

/-- `sort_rows(first, last)` on a plain list of rows -/
def sortRowList (gen nnc : Bool) (l : List Row) : List Row :=
  (sortWith gen nnc (l.map fun r => (r, []))).map (·.1)

/-- `Linear_System::sort_rows()` (Linear_System_templates.hh:415): the non-pending rows sorted,
    duplicates erased; the pending rows stay behind them -/
def _root_.PPLV.PolyOps.Sys.sortRows (gen nnc : Bool) (s : Sys) : Sys :=
  let np := sortRowList gen nnc (s.rows.take s.firstPending)
  { rows := np ++ s.rows.drop s.firstPending, firstPending := np.length, sorted := true }

/-- `swap(a[i], a[j])` -/
def swapAtR {α : Type} (l : List α) (i j : Nat) : List α := PPLV.Conv.swapAt l i j

/-- `Linear_System::sort_and_remove_with_sat(sat)` (Linear_System_templates.hh:524) -/
def _root_.PPLV.PolyOps.Sys.sortAndRemoveWithSat (gen nnc : Bool) (s : Sys) (sat : BitMat) : Sys × BitMat :=
  if s.firstPending ≤ 1 then ({ s with sorted := true }, sat)
  else
    let np := s.rows.take s.firstPending
    let satRows := (sat.rows ++ List.replicate (np.length - sat.rows.length) []).take np.length
    let sorted := sortWith gen nnc (np.zip satRows)
    let dups := np.length - sorted.length
    let newFp := s.firstPending - dups
    -- rows: sorted, then `dups` slots of garbage, then the pending rows
    let garbage : Row := default
    let rows0 := sorted.map (·.1) ++ List.replicate dups garbage ++ s.rows.drop s.firstPending
    -- "we must put the duplicates after the pending rows" (:548-554)
    let rows1 :=
      if s.rows.length > s.firstPending then
        (List.range dups).foldl (fun rs i => swapAtR rs (newFp + i) (rows0.length - 1 - i)) rows0
      else rows0
    ({ rows := rows1.take (rows1.length - dups), firstPending := newFp, sorted := true },
     { sat with rows := sorted.map (·.2) })

/-- the merge walk of `sort_pending_and_remove_duplicates` (:866-895): pending rows that compare
    equal to a non-pending row are dropped, the others keep their order -/
def dropDupPending (gen nnc : Bool) : Nat → List Row → List Row → List Row
  | 0, _, pend => pend
  | _ + 1, [], pend => pend
  | _ + 1, _, [] => []
  | f + 1, a :: np, b :: pend =>
    let c := cmpRow gen nnc a b
    if c == 0 then dropDupPending gen nnc f np pend
    else if c < 0 then dropDupPending gen nnc f np (b :: pend)
    else b :: dropDupPending gen nnc f (a :: np) pend

/-- `Linear_System::sort_pending_and_remove_duplicates()` (Linear_System_templates.hh:854) -/
def _root_.PPLV.PolyOps.Sys.sortPendingAndRemoveDuplicates (gen nnc : Bool) (s : Sys) : Sys :=
  let np := s.rows.take s.firstPending
  let pend := sortRowList gen nnc (s.rows.drop s.firstPending)
  let pend' := dropDupPending gen nnc (np.length + pend.length + 1) np pend
  { rows := np ++ pend', firstPending := s.firstPending, sorted := true }

/-! ## insertion -/

/-- `Linear_System::insert(r)` (:228): appended, nothing pending; a sorted system stays sorted iff the
    new row is not smaller than the old last one -/
def _root_.PPLV.PolyOps.Sys.insertRow (gen nnc : Bool) (s : Sys) (r : Row) : Sys :=
  let rows := s.rows ++ [r]
  let sorted :=
    if s.sorted then
      (match s.rows.getLast? with
       | some l => decide (cmpRow gen nnc l r ≤ 0)
       | none => true)
    else false
  { rows := rows, firstPending := rows.length, sorted := sorted }

/-- `Linear_System::insert_pending(r)` (:257) -/
def _root_.PPLV.PolyOps.Sys.insertPendingRow (s : Sys) (r : Row) : Sys := { s with rows := s.rows ++ [r] }

/-- `Linear_System::insert(y)` (:330) -/
def _root_.PPLV.PolyOps.Sys.insertSysExact (gen nnc : Bool) (s : Sys) (y : Sys) : Sys :=
  if y.rows.isEmpty then s
  else
    let sorted :=
      if s.sorted then
        if !y.sorted || decide (y.rows.length > y.firstPending) then false
        else (match s.rows.getLast?, y.rows.head? with
              | some l, some h => decide (cmpRow gen nnc l h ≤ 0)
              | _, _ => true)
      else false
    { rows := s.rows ++ y.rows, firstPending := s.rows.length + y.rows.length, sorted := sorted }

/-- `Linear_System::merge_rows_assign(y)` (:55): the merge walk, a row of `y` equal to a row of `x`
    is skipped -/
def mergeWalk (gen nnc : Bool) : Nat → List Row → List Row → List Row
  | 0, xs, ys => xs ++ ys
  | _ + 1, [], ys => ys
  | _ + 1, xs, [] => xs
  | f + 1, a :: xs, b :: ys =>
    let c := cmpRow gen nnc a b
    if c ≤ 0 then a :: mergeWalk gen nnc f xs (if c == 0 then ys else b :: ys)
    else b :: mergeWalk gen nnc f (a :: xs) ys

def _root_.PPLV.PolyOps.Sys.mergeRowsExact (gen nnc : Bool) (s : Sys) (ys : List Row) : Sys :=
  let r := mergeWalk gen nnc (s.rows.length + ys.length + 1) s.rows ys
  { rows := r, firstPending := r.length, sorted := s.sorted }

/-- the replacement of a system computed at multiset level (`PolyOps`) by the exactly ordered one:
    accepted when the two hold the same rows in the non-pending and in the pending part -/
def sameRows (a b : List Row) : Bool := a.all b.contains && b.all a.contains

def _root_.PPLV.PolyOps.Sys.refineBy (coarse exact : Sys) : Sys :=
  if sameRows (coarse.rows.take coarse.firstPending) (exact.rows.take exact.firstPending)
      && sameRows (coarse.rows.drop coarse.firstPending) (exact.rows.drop exact.firstPending)
  then exact else coarse

/-- `remove_row(i, false)` in a loop over a system without pending rows (`remove_invalid_lines_and_rays`,
    Generator_System.cc:815; `Linear_System::remove_space_dimensions`, :365): a removed row is replaced
    by the last one, which is examined next -/
def swapRemove {α : Type} (bad : α → Bool) : Nat → List α → Nat → List α
  | 0, l, _ => l
  | f + 1, l, i =>
    match l[i]? with
    | some a => if bad a then swapRemove bad f ((swapAtR l i (l.length - 1)).dropLast) i else swapRemove bad f l (i + 1)
    | none => l

/-! ## the `sorted` flags the engine leaves -/

/-- does one iteration of the main loop of `conversion` keep `dest_sorted`?  No in the line case
    (:498) and whenever the partition loop meets a generator that is not in Q+ (:670, :681; then
    also :951) -/
def convStepKeepsSorted (srcK : LRow) (st : CState) : Bool :=
  let rows := st.rows.map fun d => { d with sp := PPLV.Conv.scalarProduct srcK.v d.row.v }
  let inz := PPLV.Conv.indexNonZero rows
  if inz < st.nle then false
  else
    let leb0 := PPLV.Conv.skipSaturators (rows.drop st.nle) st.nle
    (rows.drop leb0).all fun d => decide (d.sp > 0)

def convLoopSorted (ncols : Nat) : List LRow → CState → Bool → Bool
  | [], _, b => b
  | s :: rest, st, b =>
    convLoopSorted ncols rest { PPLV.Conv.conversionStep ncols s st with k := st.k + 1 } (b && convStepKeepsSorted s st)

/-- `dest.is_sorted()` after `conversion(source, start, dest, sat, nle)` when it was `sorted0` before
    (the final check :997-1007 of the rows beyond `dest_first_pending_row` is vacuous when the flag
    survived: no row was added) -/
def conversionDestSorted (ncols : Nat) (source : List LRow) (start : Nat) (dest : List LRow)
    (sat : List BRow) (nle : Nat) (sorted0 : Bool) : Bool :=
  if !sorted0 then false
  else convLoopSorted ncols (source.drop start)
         { rows := PPLV.Conv.initRows dest sat, nle := nle, k := start, redundant := [] } true

/-- `source.is_sorted()` after `conversion` (:985-987) -/
def conversionSourceSorted (gen nnc : Bool) (source' : List LRow) (start : Nat) (sorted0 : Bool) : Bool :=
  if 0 < start && start < source'.length then
    decide (PPLV.Conv.compareRow gen nnc (source'.getD (start - 1) default) (source'.getD start default) ≤ 0)
  else sorted0

/-- one `k` of `back_substitute`: the rows to re-check (`check_for_sortedness`, :648-712) -/
def backSubMarks (nle : Nat) (rows : List SRow) (k : Nat) (marks : List Bool) : List Bool :=
  let rowK := (rows.getD k default).row
  let j := PPLV.Conv.lastNonzero rowK.v
  let hit := fun (i : Nat) => (rows.getD i default).row.v.getD j 0 != 0
  marks.mapIdx fun m old =>
    old
    || (m < k && hit m) || (m + 1 < k && hit (m + 1))                       -- the equalities above
    || (nle ≤ m && hit m) || (nle ≤ m + 1 && nle < m + 1 && hit (m + 1))   -- all the other rows

/-- `sorted` after `back_substitute(nle)` on a system whose flag was `sorted0` -/
def backSubstituteSorted (gen nnc : Bool) (nle : Nat) (rows : List SRow) (sorted0 : Bool) : Bool :=
  if !sorted0 then false
  else
    let (rows', marks) := (List.range nle).reverse.foldl
      (fun (acc : List SRow × List Bool) k =>
        (PPLV.Conv.backSubstituteStep nle acc.1 k, backSubMarks nle acc.1 k acc.2))
      (rows, List.replicate rows.length false)
    (List.range (rows'.length - 1)).all fun i =>
      !(marks.getD i false) ||
        decide (PPLV.Conv.compareRow gen nnc (rows'.getD i default).row (rows'.getD (i + 1) default).row ≤ 0)

/-- `sys.is_sorted()` after `simplify(sys, sat)` on a system whose flag was `sorted0`: lost by an
    inequality turned into an equality (:133), by a row exchange or combination of `gauss`, by any
    `remove_row` (default `keep_sorted = false`), re-checked by `back_substitute` -/
def simplifySorted (gen nnc : Bool) (ncols numColsSat : Nat) (sys : List SRow) (sorted0 : Bool) : Bool :=
  let numRows := sys.length
  let nle0 := PPLV.Conv.countLeadingLe sys
  let (rows1, nle1) := PPLV.Conv.eqDetectLoop (numRows - nle0) sys nle0 nle0
  let s1 := sorted0 && nle1 == nle0
  let (rows2, rank) := PPLV.Conv.gauss ncols nle1 rows1
  let s2 := s1 && (rows2.map (·.row) == rows1.map (·.row))
  let (rows3, nle3) :=
    if rank < nle1 then
      let rows := PPLV.Conv.dropRedundantEqLoop (nle1 - rank) rows2 nle1 rank numRows
      (rows.take (numRows - (nle1 - rank)), rank)
    else (rows2, nle1)
  let s3 := s2 && !(rank < nle1 && numRows > nle1)
  let minSaturators := PPLV.Conv.usub (PPLV.Conv.usub ncols nle3) 1
  let rows4 := PPLV.Conv.satRuleLoop rows3.length numColsSat minSaturators rows3 nle3
  let rows5 := PPLV.Conv.indepLoop rows4.length nle3 rows4 nle3
  let s5 := s3 && rows5.length == rows3.length
  backSubstituteSorted gen nnc nle3 rows5 s5

end PPLV.PolyFull
