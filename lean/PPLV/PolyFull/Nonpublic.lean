import PPLV.PolyFull.Sys

/-!
# Integration stage — the private helpers of `Polyhedron` on the real data (Polyhedron_nonpublic.cc)

`update_constraints` (:858), `update_generators` (:877), `update_sat_c/g` (:904, :939),
`obtain_sorted_*` (:974-1101), `process_pending_constraints/generators` (:736, :776),
`remove_pending_to_obtain_*` (:809, :833), `minimize()` (:1104),
`strongly_minimize_constraints/generators` (:1147, :1322) — each calling the engine model
`PPLV.Conv.minimizeUnsorted` / `addAndMinimize` where the C++ calls the static
`minimize(con_to_gen, source, dest, sat)` / `add_and_minimize(…)`.
-/
namespace PPLV.PolyFull
open PPLV.Lin PPLV.PolyOps
open PPLV.Conv (LRow BRow SRow)

namespace FPoly

/-! ## `minimize(con_to_gen, source, dest, sat)` with the flags of the two systems -/

/-- what one call of the static `minimize` leaves: "empty", the source system (simplified), the dest
    system, the saturation matrix (rows = source, columns = dest) -/
structure EngineOut where
  empty : Bool
  source : Sys
  dest : Sys
  sat : BitMat

/-- `minimize(con_to_gen, source, dest, sat)` (Polyhedron_minimize_templates.hh:69): the data by
    `PPLV.Conv.minimizeUnsorted`, the `sorted` flags by `simplifySorted` (source; `dest.set_sorted(false)` :121) -/
def engineMinimize (conToGen nnc : Bool) (n : Nat) (source : Sys) (sat0 : BitMat) : EngineOut :=
  let ncols := numCols nnc n
  let gen := !conToGen
  let src := source.rows.map (toL nnc)
  let m := PPLV.Conv.minimizeUnsorted conToGen nnc source.sorted ncols src sat0.rows
  let srcSorted := if source.sorted then src else PPLV.Conv.sortRows gen nnc src
  let r := PPLV.Conv.conversion ncols srcSorted 0 (PPLV.Conv.identityLines ncols)
             (List.replicate ncols (List.replicate srcSorted.length false)) ncols
  let flag :=
    if m.empty || !PPLV.Conv.hasPoint nnc ncols r.nle r.dest then true
    else simplifySorted gen nnc ncols r.dest.length
           (List.zipWith (fun a s => ({ row := a, sat := s } : SRow)) r.source
             (PPLV.Conv.transpose r.source.length r.sat)) true
  let srcRows := m.source.map (ofL nnc n)
  let dstRows := m.dest.map (ofL nnc n)
  { empty := m.empty,
    source := ⟨srcRows, srcRows.length, flag⟩,
    dest := ⟨dstRows, dstRows.length, false⟩,
    sat := if m.empty then sat0 else ⟨m.sat, m.dest.length⟩ }

/-- `add_and_minimize(con_to_gen, source, dest, sat)` (:370); `sat`: rows = dest, columns = source -/
def engineAddAndMinimize (conToGen nnc : Bool) (n : Nat) (source dest : Sys) (sat : BitMat) : EngineOut :=
  let ncols := numCols nnc n
  let gen := !conToGen
  let src := source.rows.map (toL nnc)
  let dst := dest.rows.map (toL nnc)
  let sat1 := sat.resize dst.length src.length                                     -- :382
  let m := PPLV.Conv.addAndMinimize conToGen nnc ncols src source.firstPending dst sat1.rows
  let nle := (dst.filter (·.le)).length
  let r := PPLV.Conv.conversion ncols src source.firstPending dst sat1.rows nle
  let dstFlag := conversionDestSorted ncols src source.firstPending dst sat1.rows nle dest.sorted
  let srcFlag0 := conversionSourceSorted gen nnc r.source source.firstPending source.sorted
  let srcFlag :=
    if !PPLV.Conv.hasPoint nnc ncols r.nle r.dest then srcFlag0
    else simplifySorted gen nnc ncols r.dest.length
           (List.zipWith (fun a s => ({ row := a, sat := s } : SRow)) r.source
             (PPLV.Conv.transpose r.source.length r.sat)) srcFlag0
  let srcRows := m.source.map (ofL nnc n)
  let dstRows := m.dest.map (ofL nnc n)
  { empty := m.empty,
    source := ⟨srcRows, srcRows.length, srcFlag⟩,
    dest := ⟨dstRows, dstRows.length, dstFlag⟩,
    sat := ⟨m.sat, m.source.length⟩ }

/-! ## saturation matrices -/

/-- `Scalar_Products::sign(c, g)` on whole rows (epsilon column included) -/
def spSign (nnc : Bool) (c g : Row) : Int := PPLV.Conv.scalarProduct (toL nnc c).v (toL nnc g).v

/-- `update_sat_c()` (:904): rows = non-pending generators, columns = non-pending constraints -/
def updateSatC (x : FPoly) : FPoly :=
  let cs := x.p.cs.rows.take x.p.cs.firstPending
  let gs := x.p.gs.rows.take x.p.gs.firstPending
  { x with satC := ⟨gs.map fun g => cs.map fun c => decide (spSign x.nnc c g > 0), cs.length⟩,
           p := { x.p with st := { x.p.st with satC := true } } }

/-- `update_sat_g()` (:939) -/
def updateSatG (x : FPoly) : FPoly :=
  let cs := x.p.cs.rows.take x.p.cs.firstPending
  let gs := x.p.gs.rows.take x.p.gs.firstPending
  { x with satG := ⟨cs.map fun c => gs.map fun g => decide (spSign x.nnc c g > 0), gs.length⟩,
           p := { x.p with st := { x.p.st with satG := true } } }

/-! ## sortedness -/

/-- `obtain_sorted_constraints()` (:974) -/
def obtainSortedConstraints (x : FPoly) : FPoly :=
  if x.p.cs.sorted then x
  else if x.st.satG then
    let (cs, sg) := x.p.cs.sortAndRemoveWithSat false x.nnc x.satG
    { x with p := { x.p with cs := cs, st := { x.p.st with satC := false } }, satG := sg }
  else if x.st.satC then
    let (cs, sg) := x.p.cs.sortAndRemoveWithSat false x.nnc x.satC.transposeOf
    { x with p := { x.p with cs := cs, st := { x.p.st with satG := true, satC := false } }, satG := sg }
  else x.withCs (x.p.cs.sortRows false x.nnc)

/-- `obtain_sorted_generators()` (:1003) -/
def obtainSortedGenerators (x : FPoly) : FPoly :=
  if x.p.gs.sorted then x
  else if x.st.satC then
    let (gs, sc) := x.p.gs.sortAndRemoveWithSat true x.nnc x.satC
    { x with p := { x.p with gs := gs, st := { x.p.st with satG := false } }, satC := sc }
  else if x.st.satG then
    let (gs, sc) := x.p.gs.sortAndRemoveWithSat true x.nnc x.satG.transposeOf
    { x with p := { x.p with gs := gs, st := { x.p.st with satC := true, satG := false } }, satC := sc }
  else x.withGs (x.p.gs.sortRows true x.nnc)

/-- `obtain_sorted_constraints_with_sat_c()` (:1032) -/
def obtainSortedConstraintsWithSatC (x : FPoly) : FPoly :=
  let x := if !x.st.satC && !x.st.satG then x.updateSatC else x
  if x.p.cs.sorted && x.st.satC then x
  else
    let x :=
      if x.p.cs.sorted then x
      else
        let x := if !x.st.satG then
            { x with satG := x.satC.transposeOf, p := { x.p with st := { x.p.st with satG := true } } }
          else x
        let (cs, sg) := x.p.cs.sortAndRemoveWithSat false x.nnc x.satG
        { x with p := { x.p with cs := cs }, satG := sg }
    { x with satC := x.satG.transposeOf,
             p := { x.p with st := { x.p.st with satC := true }, cs := { x.p.cs with sorted := true } } }

/-- `obtain_sorted_generators_with_sat_g()` (:1068) -/
def obtainSortedGeneratorsWithSatG (x : FPoly) : FPoly :=
  let x := if !x.st.satC && !x.st.satG then x.updateSatG else x
  if x.p.gs.sorted && x.st.satG then x
  else
    let x :=
      if x.p.gs.sorted then x
      else
        let x := if !x.st.satC then
            { x with satC := x.satG.transposeOf, p := { x.p with st := { x.p.st with satC := true } } }
          else x
        let (gs, sc) := x.p.gs.sortAndRemoveWithSat true x.nnc x.satC
        { x with p := { x.p with gs := gs }, satC := sc }
    { x with satG := x.satC.transposeOf,
             p := { x.p with st := { x.p.st with satG := true }, gs := { x.p.gs with sorted := true } } }

/-! ## conversions -/

/-- `update_constraints()` (:858) -/
def updateConstraints (x : FPoly) : FPoly :=
  let o := engineMinimize false x.nnc x.dim x.p.gs x.satC
  { x with satC := o.sat,
           p := { x.p with gs := o.source, cs := o.dest,
                           st := { x.p.st with satC := true, satG := false, cUp := true, cMin := true,
                                               gUp := true, gMin := true } } }

/-- `update_generators()` (:877); returns "not empty" -/
def updateGenerators (x : FPoly) : Bool × FPoly :=
  let o := engineMinimize true x.nnc x.dim x.p.cs x.satG
  if o.empty then (false, x.setEmpty)
  else
    (true, { x with satG := o.sat,
                    p := { x.p with cs := o.source, gs := o.dest,
                                    st := { x.p.st with satG := true, satC := false, cUp := true, cMin := true,
                                                        gUp := true, gMin := true } } })

/-- `process_pending_constraints()` (:736); returns "not empty" -/
def processPendingConstraints (x : FPoly) : Bool × FPoly :=
  let x := if !x.st.satC then { x with satC := x.satG.transposeOf } else x                  -- :744
  let x := if !x.p.cs.sorted then x.obtainSortedConstraintsWithSatC else x                   -- :747
  let cs := x.p.cs.sortPendingAndRemoveDuplicates false x.nnc                                -- :752
  let x := x.withCs cs
  if cs.rows.length == cs.firstPending then
    (true, x.withSt { x.st with cPend := false })                                            -- :753-758
  else
    let o := engineAddAndMinimize true x.nnc x.dim cs x.p.gs x.satC                          -- :760
    if o.empty then (false, x.setEmpty)
    else
      (true, { x with satC := o.sat,
                      p := { x.p with cs := o.source, gs := o.dest,
                                      st := { x.p.st with cPend := false, satG := false, satC := true } } })

/-- `process_pending_generators()` (:776) -/
def processPendingGenerators (x : FPoly) : FPoly :=
  let x := if !x.st.satG then { x with satG := x.satC.transposeOf } else x
  let x := if !x.p.gs.sorted then x.obtainSortedGeneratorsWithSatG else x
  let gs := x.p.gs.sortPendingAndRemoveDuplicates true x.nnc
  let x := x.withGs gs
  if gs.rows.length == gs.firstPending then x.withSt { x.st with gPend := false }
  else
    let o := engineAddAndMinimize false x.nnc x.dim gs x.p.cs x.satG
    { x with satG := o.sat,
             p := { x.p with gs := o.source, cs := o.dest,
                             st := { x.p.st with gPend := false, satC := false, satG := true } } }

/-- `remove_pending_to_obtain_constraints()` (:809) -/
def removePendingToObtainConstraints (x : FPoly) : FPoly :=
  if x.st.cPend then
    { x with p := { x.p with cs := { x.p.cs.unsetPending with sorted := false },
                             st := ({ x.p.st with cPend := false, cMin := false }).clearGUp } }
  else x.processPendingGenerators

/-- `remove_pending_to_obtain_generators()` (:833); returns "not empty" -/
def removePendingToObtainGenerators (x : FPoly) : Bool × FPoly :=
  if x.st.gPend then
    (true, { x with p := { x.p with gs := { x.p.gs.unsetPending with sorted := false },
                                    st := ({ x.p.st with gPend := false, gMin := false }).clearCUp } })
  else x.processPendingConstraints

/-- `process_pending()` (Polyhedron_inlines.hh) -/
def processPending (x : FPoly) : Bool × FPoly :=
  if x.st.cPend then x.processPendingConstraints else (true, x.processPendingGenerators)

/-- `Polyhedron::minimize()` (:1104); returns "not empty" -/
def minimize (x : FPoly) : Bool × FPoly :=
  if x.st.empty then (false, x)
  else if x.dim == 0 then (true, x)
  else if x.st.somethingPending then x.processPending
  else if x.st.cMin && x.st.gMin then (true, x)
  else if x.st.cUp then x.updateGenerators
  else (true, x.updateConstraints)

/-- `is_empty()` (Polyhedron_inlines.hh:187) -/
def isEmpty (x : FPoly) : Bool × FPoly :=
  if x.st.empty then (true, x)
  else if x.st.gUp && !x.st.cPend then (false, x)
  else let r := x.minimize; (!r.1, r.2)

/-- "the constraints (possibly with pending rows) are required" (refine_no_check :1446, constraints(),
    relation_with(g), intersection_assign, concatenate_assign, …) -/
def needCons (x : FPoly) : FPoly :=
  if x.st.gPend then x.processPendingGenerators
  else if !x.st.cUp then x.updateConstraints
  else x

/-- "the generators (possibly with pending rows) are required"; returns "found empty"
    (generators(), relation_with(c), bounds, max_min, add_generator, poly_hull_assign, …) -/
def needGens (x : FPoly) : Bool × FPoly :=
  if x.st.cPend then
    let r := x.processPendingConstraints
    if !r.1 then (true, r.2)
    else if !r.2.st.gUp then let q := r.2.updateGenerators; (!q.1, q.2) else (false, r.2)
  else if !x.st.gUp then let q := x.updateGenerators; (!q.1, q.2)
  else (false, x)

/-! ## strong minimization (NNC) -/

def bitUnion (a b : BRow) : BRow := PPLV.Conv.bor a b
def bitEq (a b : BRow) : Bool := PPLV.Conv.subsetOrEqual a b && PPLV.Conv.subsetOrEqual b a
def bitsOf (n : Nat) (f : Nat → Bool) : BRow := (List.range n).map f

def Row.isStrict (r : Row) : Bool := !r.eq && decide (r.eps < 0)
def Row.isPointG (r : Row) : Bool := !r.eq && r.b != 0 && decide (r.eps > 0)
def Row.isClosurePointG (r : Row) : Bool := !r.eq && r.b != 0 && r.eps == 0
def Row.isRayG (r : Row) : Bool := !r.eq && r.b == 0

/-- the loop of `strongly_minimize_constraints` (:1216-1274) over the records (constraint, row of
    `sat_g`); fuel = a bound on the number of iterations -/
def smcLoop (satLinesAndCP satLines satAllButPoints : BRow) :
    Nat → List (Row × BRow) → Nat → Bool → Bool → List (Row × BRow) × Bool × Bool
  | 0, cs, _, changed, found => (cs, changed, found)
  | f + 1, cs, i, changed, found =>
    if i < cs.length then
      let ci := cs.getD i default
      if Row.isStrict ci.1 then
        let satCi := bitUnion ci.2 satLinesAndCP
        if bitEq satCi satLines then
          if !found && ci.1.cf.all (· == 0) && ci.1.b + ci.1.eps == 0 then
            smcLoop satLinesAndCP satLines satAllButPoints f cs (i + 1) changed true
          else
            -- `cs.remove_row(i, false); swap(sat[i], sat[cs.num_rows()])`: the last row takes the place
            smcLoop satLinesAndCP satLines satAllButPoints f ((swapAtR cs i (cs.length - 1)).dropLast) i true found
        else
          let satCi := bitUnion ci.2 satAllButPoints
          let red := (List.range cs.length).any fun j =>
            j != i && Row.isStrict (cs.getD j default).1 && PPLV.Conv.subsetOrEqual (cs.getD j default).2 satCi
          if red then
            smcLoop satLinesAndCP satLines satAllButPoints f ((swapAtR cs i (cs.length - 1)).dropLast) i true found
          else smcLoop satLinesAndCP satLines satAllButPoints f cs (i + 1) changed found
      else smcLoop satLinesAndCP satLines satAllButPoints f cs (i + 1) changed found
    else (cs, changed, found)

/-- is the epsilon dimension unbounded above in the constraint system read as a closed one
    (the `MIP_Problem` of :1288-1313)?  Decided with K1's `supB`. -/
def epsUnbounded (n : Nat) (cs : List Row) : Bool :=
  let cons := cs.flatMap fun r =>
    if r.eq then eqRows (padTo n r.cf ++ [r.eps]) r.b else [geRow (padTo n r.cf ++ [r.eps]) r.b]
  match supB (n + 1) (List.replicate n 0 ++ [1]) 0 cons with
  | .unbounded => true
  | _ => false

/-- `strongly_minimize_constraints()` (:1147); returns "not empty" -/
def stronglyMinimizeConstraints (x : FPoly) : Bool × FPoly :=
  let r := x.minimize
  if !r.1 then (false, r.2)
  else
    let x := r.2
    if x.dim == 0 then (true, x)
    else
      let x := if !x.st.satG then { x with satG := x.satC.transposeOf } else x
      let gs := x.p.gs.rows
      let nLines := (gs.filter (·.eq)).length
      let w := gs.length
      let allButRays := bitsOf w fun i => nLines ≤ i && Row.isRayG (gs.getD i default)
      let allButPoints := bitsOf w fun i => nLines ≤ i && Row.isPointG (gs.getD i default)
      let allButCP := bitsOf w fun i => nLines ≤ i && Row.isClosurePointG (gs.getD i default)
      let satLinesAndRays := bitUnion allButPoints allButCP
      let satLinesAndCP := bitUnion allButRays allButPoints
      let satLines := bitUnion satLinesAndRays satLinesAndCP
      let recs := x.p.cs.rows.zip ((x.satG.rows ++ List.replicate (x.p.cs.rows.length - x.satG.rows.length) []).take x.p.cs.rows.length)
      let (recs', changed, found) := smcLoop satLinesAndCP satLines allButPoints
        (recs.length * (recs.length + 2) + 2) recs 0 false false
      let rows := recs'.map (·.1)
      -- every `remove_row` of a non-pending row clears `sorted`
      let cs1 : Sys := ⟨rows, rows.length, x.p.cs.sorted && !changed⟩
      let x := { x with satG := { x.satG with rows := recs'.map (·.2) }, p := { x.p with cs := cs1 } }
      if changed then
        let x := x.withSt x.st.clearGUp
        if !found && epsUnbounded x.dim rows then
          (true, x.withCs (cs1.insertRow false true ⟨false, 1, List.replicate x.dim 0, -1⟩))
        else (true, x)
      else (true, x)

/-- the loop of `strongly_minimize_generators` (:1368-1409) over the records (generator, row of `sat_c`);
    `gsRows` = the number of live rows -/
def smgLoop (nLines : Nat) (allButStrict : BRow) :
    Nat → List (Row × BRow) → Nat → Nat → Bool → List (Row × BRow) × Nat × Bool
  | 0, gs, _, gsRows, changed => (gs, gsRows, changed)
  | f + 1, gs, i, gsRows, changed =>
    if i < gsRows then
      let g := gs.getD i default
      if Row.isPointG g.1 then
        let satGi := bitUnion g.2 allButStrict
        let red := (List.range' nLines (gsRows - nLines)).any fun j =>
          j != i && Row.isPointG (gs.getD j default).1 && PPLV.Conv.subsetOrEqual (gs.getD j default).2 satGi
        if red then smgLoop nLines allButStrict f (swapAtR gs i (gsRows - 1)) i (gsRows - 1) true
        else if g.1.eps != g.1.b then
          let g' : Row := ({ g.1 with eps := g.1.b } : Row).normalize
          smgLoop nLines allButStrict f (gs.set i (g', g.2)) (i + 1) gsRows true
        else smgLoop nLines allButStrict f gs (i + 1) gsRows changed
      else smgLoop nLines allButStrict f gs (i + 1) gsRows changed
    else (gs, gsRows, changed)

/-- `strongly_minimize_generators()` (:1322); returns "not empty" -/
def stronglyMinimizeGenerators (x : FPoly) : Bool × FPoly :=
  let r := x.minimize
  if !r.1 then (false, r.2)
  else
    let x := r.2
    if x.dim == 0 then (true, x)
    else
      let x := if !x.st.satC then { x with satC := x.satG.transposeOf } else x
      let cs := x.p.cs.rows
      let nEq := (cs.filter (·.eq)).length
      let allButStrict := bitsOf cs.length fun i => nEq ≤ i && Row.isStrict (cs.getD i default)
      let gs := x.p.gs.rows
      let nLines := (gs.filter (·.eq)).length
      let recs := gs.zip ((x.satC.rows ++ List.replicate (gs.length - x.satC.rows.length) []).take gs.length)
      let (recs', gsRows, changed) := smgLoop nLines allButStrict (recs.length * 2 + 2) recs nLines recs.length false
      let rows := (recs'.take gsRows).map (·.1)
      -- `sat_c` keeps its rows (the rows of the erased generators are behind the live ones)
      let x : FPoly := { x with satC := { x.satC with rows := recs'.map (fun (q : Row × BRow) => q.2) } }
      let x : FPoly := if changed then x.withSt x.st.clearCUp else x
      (true, x.withGs ⟨rows, rows.length, x.p.gs.sorted && !changed⟩)

end FPoly
end PPLV.PolyFull
