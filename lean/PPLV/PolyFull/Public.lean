import PPLV.PolyFull.Nonpublic

/-!
# Integration stage — the public methods of `Polyhedron`, end to end on the real data

Observers (Polyhedron_public.cc / Polyhedron_nonpublic.cc): `constraints()` (:79), `generators()` (:139),
`minimized_constraints()` (:126), `minimized_generators()` (:194), `is_empty()`, `contains` (:3977),
`operator==` (:3939) with `quick_equivalence_test` (nonpublic :356) and `is_included_in` (:425),
`relation_with(g)` (:266), `bounds` (:568), `max_min` (:607).

Mutators: `add_constraint` / `refine_with_constraint` (`refine_no_check`, nonpublic :1433),
`add_generator` (:1396), and the operators of C02 stage 2 — each is the PREPARATION the C++ performs
(the conversions `PPLV/PolyOps` answers `none` for), then the row-level model of `PPLV/PolyOps`
itself (imported, not copied), then the exact row order / `sorted` flag / saturation matrices
(`Sys.refineBy`: the `PolyOps` result is kept unless the exactly ordered system holds the same rows).
-/
namespace PPLV.PolyFull
open PPLV.Lin PPLV.PolyOps
open PPLV.Conv (LRow BRow)

namespace FPoly

/-- carry a `PolyOps` result back: a result that became marked empty went through `set_empty()` -/
def lift (x : FPoly) (q : Poly) : FPoly :=
  if q.st.empty && !x.st.empty then ⟨q, BitMat.clear, BitMat.clear⟩ else { x with p := q }

/-- the `PolyOps` operator on a prepared state always has a result (theorem `prepared_isSome`);
    otherwise the state is left alone -/
def liftO (x : FPoly) (r : Option Poly) : FPoly :=
  match r with
  | some q => x.lift q
  | none => x

/-! ## observers -/

/-- `constraints()` (:79) -/
def constraints (x : FPoly) : FPoly :=
  if x.st.empty then
    if x.p.cs.rows.isEmpty then
      x.withCs ⟨[⟨true, -1, List.replicate x.dim 0, 0⟩], 1, true⟩
    else x
  else if x.dim == 0 then x
  else x.needCons

/-- `minimized_constraints()` (:126) -/
def minimizedConstraints (x : FPoly) : FPoly :=
  (if !x.nnc then x.minimize.2 else x.stronglyMinimizeConstraints.2).constraints

/-- `generators()` (:139) -/
def generators (x : FPoly) : FPoly :=
  if x.st.empty then x
  else if x.dim == 0 then x
  else
    let r := x.needGens
    if r.1 then r.2
    else if r.2.nnc && r.2.st.gMin && !r.2.st.gPend then r.2.obtainSortedGenerators
    else r.2

/-- `minimized_generators()` (:194) -/
def minimizedGenerators (x : FPoly) : FPoly :=
  (if !x.nnc then x.minimize.2 else x.stronglyMinimizeGenerators.2).generators

/-- reduced scalar product (`Scalar_Products::reduced_sign`; for closed rows it is the whole product) -/
def rsp (c g : Row) : Int := c.b * g.b + idot c.cf g.cf

/-- the two loops of `is_included_in` (:461-561): do the generators `gs` satisfy the constraints `cs`? -/
def includedLoops (nnc : Bool) (gs cs : List Row) : Bool :=
  cs.all fun c =>
    gs.all fun g =>
      let s := rsp c g
      if c.eq then s == 0
      else if nnc && decide (c.eps < 0) then
        -- STRICT_INEQUALITY
        if g.eq then s == 0
        else if g.b != 0 && decide (g.eps > 0) then decide (s > 0)     -- POINT
        else decide (s ≥ 0)                                            -- RAY, CLOSURE_POINT
      else
        if g.eq then s == 0 else decide (s ≥ 0)

/-- `x.is_included_in(y)` (:425): answer, `x`, `y` -/
def isIncludedIn (x y : FPoly) : Bool × FPoly × FPoly :=
  let rx := if x.st.cPend then x.processPendingConstraints else (true, x)
  if !rx.1 then (true, rx.2, y)
  else
    let x := rx.2
    let y := if y.st.gPend then y.processPendingGenerators else y
    let rx := if !x.st.gUp then x.updateGenerators else (true, x)
    if !rx.1 then (true, rx.2, y)
    else
      let x := rx.2
      let y := if !y.st.cUp then y.updateConstraints else y
      (includedLoops x.nnc x.p.gs.rows y.p.cs.rows, x, y)

/-- row equality of `Linear_System::operator==` on closed rows (`is_equivalent_to`) -/
def rowEquiv (a b : Row) : Bool := a == b

/-- `x.quick_equivalence_test(y)` (:356): `some b` = TVB_TRUE / TVB_FALSE, `none` = TVB_DONT_KNOW -/
def quickEquivalenceTest (x y : FPoly) : Option Bool × FPoly × FPoly :=
  if x.nnc then (none, x, y)
  else if x.st.somethingPending || y.st.somethingPending then (none, x, y)
  else
    let nEq := fun (s : Sys) => (s.rows.filter (·.eq)).length
    -- :367-381
    let r1 : Option Bool × Bool :=
      if x.st.cMin && y.st.cMin then
        if x.p.cs.rows.length != y.p.cs.rows.length then (some false, false)
        else if nEq x.p.cs != nEq y.p.cs then (some false, false)
        else (none, nEq x.p.cs == 0)
      else (none, false)
    match r1.1 with
    | some b => (some b, x, y)
    | none =>
      let cssNormalized := r1.2
      -- :383-406
      let r2 : Option Bool × FPoly × FPoly :=
        if x.st.gMin && y.st.gMin then
          if x.p.gs.rows.length != y.p.gs.rows.length then (some false, x, y)
          else if nEq x.p.gs != nEq y.p.gs then (some false, x, y)
          else if nEq x.p.gs == 0 then
            let x := x.obtainSortedGenerators
            let y := y.obtainSortedGenerators
            (some (x.p.gs.rows.length == y.p.gs.rows.length && x.p.gs.firstPending == y.p.gs.firstPending
                   && (List.zipWith rowEquiv x.p.gs.rows y.p.gs.rows).all id), x, y)
          else (none, x, y)
        else (none, x, y)
      match r2.1 with
      | some b => (some b, r2.2.1, r2.2.2)
      | none =>
        if cssNormalized then
          let x := x.obtainSortedConstraints
          let y := y.obtainSortedConstraints
          (some (x.p.cs.rows.length == y.p.cs.rows.length && x.p.cs.firstPending == y.p.cs.firstPending
                 && (List.zipWith rowEquiv x.p.cs.rows y.p.cs.rows).all id), x, y)
        else (none, x, y)

/-- `x.contains(y)` (:3977) -/
def contains (x y : FPoly) : Bool × FPoly × FPoly :=
  if y.st.empty then (true, x, y)
  else if x.st.empty then let r := y.isEmpty; (r.1, x, r.2)
  else if y.dim == 0 then (true, x, y)
  else
    let q := x.quickEquivalenceTest y
    if q.1 == some true then (true, q.2.1, q.2.2)
    else
      let r := q.2.2.isIncludedIn q.2.1
      (r.1, r.2.2, r.2.1)

/-- `operator==(x, y)` (:3939) -/
def equals (x y : FPoly) : Bool × FPoly × FPoly :=
  if x.st.empty then let r := y.isEmpty; (r.1, x, r.2)
  else if y.st.empty then let r := x.isEmpty; (r.1, r.2, y)
  else if x.dim == 0 then (true, x, y)
  else
    let q := x.quickEquivalenceTest y
    match q.1 with
    | some b => (b, q.2.1, q.2.2)
    | none =>
      let r := q.2.1.isIncludedIn q.2.2
      if r.1 then
        if r.2.1.st.empty then let e := r.2.2.isEmpty; (e.1, r.2.1, e.2)
        else let r2 := r.2.2.isIncludedIn r.2.1; (r2.1, r2.2.2, r2.2.1)
      else (false, r.2.1, r.2.2)

/-- kinds of a generator argument -/
inductive GKindA | line | ray | point | cpoint
deriving Repr, DecidableEq, Inhabited

/-- `con_sys.satisfies_all_constraints(g)` (Constraint_System.cc:220) -/
def satisfiesAll (nnc : Bool) (cs : List Row) (k : GKindA) (g : Row) : Bool :=
  cs.all fun c =>
    let s := rsp c g
    match k with
    | .line => s == 0
    | .point =>
      if c.eq then s == 0
      else if nnc && decide (c.eps < 0) then decide (s > 0) else decide (s ≥ 0)
    | _ => if c.eq then s == 0 else decide (s ≥ 0)

/-- `relation_with(g)` (:266): "subsumes" -/
def relationWithGen (x : FPoly) (k : GKindA) (g : Row) : Bool × FPoly :=
  let e := x.isEmpty
  if e.1 then (false, e.2)
  else
    let x := e.2
    if x.dim == 0 then (true, x)
    else
      let x := x.needCons
      (satisfiesAll x.nnc x.p.cs.rows k g, x)

/-- `Scalar_Products::homogeneous_sign(expr, g)` -/
def hsp (e : LinExpr) (g : Row) : Int := idot e.coeffs g.cf

/-- `bounds(expr, from_above)` (:568) -/
def bounds (x : FPoly) (e : LinExpr) (above : Bool) : Bool × FPoly :=
  if x.dim == 0 || x.st.empty then (true, x)
  else
    let r := x.needGens
    if r.1 then (true, r.2)
    else
      (r.2.p.gs.rows.all fun g =>
        !(g.eq || g.b == 0) ||
          (let s := hsp e g
           !(s != 0 && (g.eq || (above && decide (s > 0)) || (!above && decide (s < 0))))), r.2)

/-- answer of `max_min` -/
structure Ext where
  num : Int
  den : Int
  included : Bool
  gen : Row
deriving Repr, DecidableEq, Inhabited

/-- `a/b` compared with `c/d` (`b, d > 0`) -/
def qcmp (a b c d : Int) : Ordering := compare (a * d) (c * b)

/-- the loop of `max_min` (:657-699), generators from the last to the first -/
def maxMinLoop (e : LinExpr) (maximize : Bool) : List Row → Option (Int × Int × Bool × Row) → Option (Option (Int × Int × Bool × Row))
  | [], acc => some acc
  | g :: rest, acc =>
    let sp := hsp e g
    if g.eq || g.b == 0 then
      if sp != 0 && (g.eq || (maximize && decide (sp > 0)) || (!maximize && decide (sp < 0))) then none
      else maxMinLoop e maximize rest acc
    else
      let isPt := decide (g.eps > 0) || false
      let take : Bool := match acc with
        | none => true
        | some (n, d, inc, _) =>
          let c := qcmp sp g.b n d
          if maximize then c == .gt || (isPt && !inc && c == .eq)
          else c == .lt || (isPt && !inc && c == .eq)
      maxMinLoop e maximize rest (if take then some (sp, g.b, isPt, g) else acc)

/-- `max_min(expr, maximize, …)` (:607) for `space_dim > 0`; `none` = returns `false` -/
def maxMin (x : FPoly) (e : LinExpr) (maximize : Bool) : Option Ext × FPoly :=
  if x.dim == 0 then
    if x.st.empty then (none, x) else (some ⟨e.k, 1, true, ⟨false, 1, [], 0⟩⟩, x)
  else if x.st.empty then (none, x)
  else
    let r := x.needGens
    if r.1 then (none, r.2)
    else
      let x := r.2
      -- closed polyhedra: every non-ray is a point
      let gs := if x.nnc then x.p.gs.rows else x.p.gs.rows.map fun g => { g with eps := if g.b != 0 then 1 else 0 }
      match maxMinLoop e maximize gs.reverse none with
      | some (some (n, d, inc, g)) =>
        -- extremum := n/d canonical, plus the inhomogeneous term
        let g0 : Int := (Int.gcd n d : Nat)
        let n1 := n / g0; let d1 := d / g0
        let nn := n1 + e.k * d1
        (some ⟨nn, d1, inc, if x.nnc then g else { g with eps := 0 }⟩, x)
      | _ => (none, x)

/-! ## adding one constraint / generator -/

/-- `Constraint::is_inconsistent()` (Constraint.cc:148) -/
def rowInconsistent (nnc : Bool) (c : Row) : Bool :=
  if c.cf.all (· == 0) && c.eps == 0 then
    if c.eq then c.b != 0 else decide (c.b < 0)
  else if !nnc then false
  else if c.eps ≥ 0 then false
  else if c.b > 0 then false
  else c.cf.all (· == 0)

/-- `refine_no_check(c)` (nonpublic :1433); `c` already carries the epsilon column of the receiver -/
def refineNoCheck (x : FPoly) (c : Row) : FPoly :=
  if x.dim == 0 then (if rowInconsistent x.nnc c then x.setEmpty else x)
  else
    let x := x.needCons
    let q := x.p.addRecycledConstraints [c]
    let exact := if x.st.canPend then x.p.cs.insertPendingRow c else x.p.cs.insertRow false x.nnc c
    { x with p := { q with cs := q.cs.refineBy exact } }

/-- `add_constraint(c)` (:1328) for a constraint of the receiver's topology (or a closed one) -/
def addConstraint (x : FPoly) (c : Row) : FPoly := if x.st.empty then x else x.refineNoCheck c

/-- `add_generator(g)` (:1396); `g` is a point unless the receiver is non-empty -/
def addGenerator (x : FPoly) (k : GKindA) (g : Row) : FPoly :=
  if x.dim == 0 then (if x.st.empty then x.setZeroDimUniv else x)
  else
    let r := if x.st.empty then (true, x) else x.needGens
    let x := r.2
    let isPt := k == .point
    -- a closed point inserted into an NNC system: `epsilon := divisor` (Generator_System.cc:236)
    let g : Row := if x.nnc && isPt then { g with eps := g.b } else g
    let cp : Row := ({ g with eps := 0 } : Row).normalize
    if r.1 then
      let gs0 : Sys := Sys.clear
      -- NNC: `insert(g)`, the inserted row is turned into the closure point IN PLACE (the `sorted` flag is
      -- not re-examined), `insert(g)` again
      let gs := if x.nnc then
          let s1 := gs0.insertRow true true g
          ({ s1 with rows := s1.rows.dropLast ++ [cp] } : Sys).insertRow true true g
        else gs0.insertRow true false g
      { x with p := { x.p with gs := gs, st := { x.p.st with empty := false, gUp := true, gMin := true } } }
    else
      if x.st.canPend then
        let gs := if x.nnc && isPt then (x.p.gs.insertPendingRow cp).insertPendingRow g else x.p.gs.insertPendingRow g
        { x with p := { x.p with gs := gs, st := { x.p.st with gPend := true } } }
      else
        let gs := if x.nnc && isPt then
            let s1 := x.p.gs.insertRow true x.nnc g
            ({ s1 with rows := s1.rows.dropLast ++ [cp] } : Sys).insertRow true x.nnc g
          else x.p.gs.insertRow true x.nnc g
        { x with p := { x.p with gs := gs, st := ({ x.p.st with gMin := false }).clearCUp } }

/-! ## the operators of C02 stage 2, prepared -/

/-- "generators needed, pending generators useless" (`affine_image` non-invertible :2838,
    `remove_space_dimensions` :318, …): pending CONSTRAINTS are processed (pending generators are
    unset by the `PolyOps` model itself), missing generators are computed by `f` -/
def prepGensDropPending (x : FPoly) (f : FPoly → FPoly) : FPoly :=
  if x.st.empty then x
  else if x.st.somethingPending then (if x.st.gPend then x else x.processPendingConstraints.2)
  else if !x.st.gUp then f x else x

/-- `affine_image(var, expr, den)` (:2780) -/
def affineImage (x : FPoly) (v : Nat) (e : LinExpr) (den : Int) : FPoly :=
  let x1 := if x.st.empty || e.coeffs.getD v 0 != 0 then x else x.prepGensDropPending (fun y => y.minimize.2)
  let q := x1.liftO (x1.p.affine_image v e den)
  if x1.st.empty || e.coeffs.getD v 0 != 0 then q
  else
    -- the order `remove_invalid_lines_and_rays` leaves
    let (e', d') := if den > 0 then (e, den) else (exprNeg e, -den)
    let mapped := x1.p.gs.rows.map (genRowAffineImage v e' d')
    let rows := (swapRemove (fun (r : Row) => r.b == 0 && r.allHomZero) (mapped.length + 1) mapped 0).map Row.strongNormalize
    { q with p := { q.p with gs := q.p.gs.refineBy { q.p.gs with rows := rows, firstPending := rows.length } } }

/-- `affine_preimage(var, expr, den)` (:2868) -/
def affinePreimage (x : FPoly) (v : Nat) (e : LinExpr) (den : Int) : FPoly :=
  let x1 :=
    if x.st.empty || e.coeffs.getD v 0 != 0 then x
    else if x.st.somethingPending then (if x.st.cPend then x else x.processPendingGenerators)
    else if !x.st.cUp then x.minimize.2 else x
  x1.liftO (x1.p.affine_preimage v e den)

/-- exact `add_universe_rows_and_space_dimensions(m)` (Linear_System_templates.hh:780): the order of the
    new rows of an NNC system depends on the `sorted` flag AFTER the comparison of :817-819 -/
def addUniverseRowsExact (gen nnc : Bool) (n m : Nat) (s : Sys) : Sys :=
  let old := s.rows.map (Row.addZeroCols m)
  -- the last new row before the epsilon fix-up: 1 in the first new column
  let pre : LRow := ⟨true, (List.replicate (numCols nnc n) 0 ++ [1]) ++ List.replicate (numCols nnc (n + m) - numCols nnc n - 1) 0⟩
  let sorted1 := s.sorted && (match old.head? with
    | some h => decide (PPLV.Conv.compareRow gen nnc pre (toL nnc h) ≤ 0)
    | none => true)
  let desc := (List.range m).map fun i => unitEqRow (n + m) (n + (m - 1 - i))
  let newRows := if nnc && !sorted1 then
      unitEqRow (n + m) n :: ((List.range (m - 1)).map fun i => unitEqRow (n + m) (n + (m - 1 - i)))
    else desc
  { rows := newRows ++ old, firstPending := s.firstPending + m, sorted := sorted1 }

/-- `Polyhedron::add_space_dimensions(sys1, sys2, sat1, sat2, m)` (Polyhedron_chdims_templates.hh:32) on
    the matrices: `m` empty rows in front of `sat1`, `sat2` its transpose -/
def satAddDims (sat1 : BitMat) (m : Nat) : BitMat × BitMat :=
  let s1 : BitMat := ⟨List.replicate m [] ++ sat1.rows, sat1.ncols⟩
  (s1, s1.transposeOf)

/-- `add_space_dimensions_and_embed(m)` (Polyhedron_chdims.cc:35) -/
def addSpaceDimensionsAndEmbed (x : FPoly) (m : Nat) : FPoly :=
  if m == 0 then x
  else
    let q := x.p.add_space_dimensions_and_embed m
    if x.st.empty || x.dim == 0 then { x with p := q }
    else if x.st.cUp && x.st.gUp then
      let x1 := if !x.st.satC then x.updateSatC else x
      let (sc, sg) := satAddDims x1.satC m
      { p := { q with gs := q.gs.refineBy (addUniverseRowsExact true x.nnc x.dim m x.p.gs) }, satC := sc, satG := sg }
    else if x.st.cUp then { x with p := q }
    else { x with p := { q with gs := q.gs.refineBy (addUniverseRowsExact true x.nnc x.dim m x.p.gs) } }

/-- `add_space_dimensions_and_project(m)` (Polyhedron_chdims.cc:107) -/
def addSpaceDimensionsAndProject (x : FPoly) (m : Nat) : FPoly :=
  if m == 0 then x
  else
    let q := x.p.add_space_dimensions_and_project m
    if x.st.empty || x.dim == 0 then { x with p := q }
    else if x.st.cUp && x.st.gUp then
      let x1 := if !x.st.satG then x.updateSatG else x
      let (sg, sc) := satAddDims x1.satG m
      { p := { q with cs := q.cs.refineBy (addUniverseRowsExact false x.nnc x.dim m x.p.cs) }, satC := sc, satG := sg }
    else if x.st.cUp then { x with p := { q with cs := q.cs.refineBy (addUniverseRowsExact false x.nnc x.dim m x.p.cs) } }
    else { x with p := q }

/-- `remove_space_dimensions(vars)` (Polyhedron_chdims.cc:301) -/
def removeSpaceDimensions (x : FPoly) (vars : List Nat) : FPoly :=
  if vars.isEmpty then x
  else
    let x1 := x.prepGensDropPending (fun y => y.updateGenerators.2)
    let q := x1.liftO (x1.p.remove_space_dimensions vars)
    if q.st.empty || q.dim == 0 then q
    else
      let mapped := x1.p.gs.rows.map (genRowRemoveDims vars)
      let rows := (swapRemove (fun (r : Option Row) => r.isNone) (mapped.length + 1) mapped 0).filterMap id
      { q with p := { q.p with gs := q.p.gs.refineBy { q.p.gs with rows := rows, firstPending := rows.length } } }

/-- `remove_higher_space_dimensions(nd)` (Polyhedron_chdims.cc:353) -/
def removeHigherSpaceDimensions (x : FPoly) (nd : Nat) : FPoly :=
  if nd == x.dim then x
  else
    let x1 := x.prepGensDropPending (fun y => y.updateGenerators.2)
    let q := x1.liftO (x1.p.remove_higher_space_dimensions nd)
    if q.st.empty || q.dim == 0 then q
    else
      let mapped := x1.p.gs.rows.map fun r => ({ r with cf := r.cf.take nd } : Row).strongNormalize
      let rows := swapRemove (fun (r : Row) => r.b == 0 && r.allHomZero) (mapped.length + 1) mapped 0
      { q with p := { q.p with gs := q.p.gs.refineBy { q.p.gs with rows := rows, firstPending := rows.length } } }

/-- `unconstrain(vars)` (:1948, :1979); `vars` ascending -/
def unconstrain (x : FPoly) (vars : List Nat) : FPoly :=
  if vars.isEmpty || x.st.empty then x
  else
    let r := x.needGens
    if r.1 then r.2
    else
      let x := r.2
      let q := x.liftO (x.p.unconstrain vars)
      let lines := vars.map (lineRow x.dim)
      let exact := if x.st.canPend then x.p.gs.insertPendingSys lines
                   else lines.foldl (fun s l => s.insertRow true x.nnc l) x.p.gs
      { q with p := { q.p with gs := q.p.gs.refineBy exact } }

/-- `intersection_assign(y)` (:2024): result, and `y` (lazily updated) -/
def intersectionAssign (x y : FPoly) : FPoly × FPoly :=
  if x.st.empty || y.st.empty || x.dim == 0 then (x.liftO (x.p.intersection_assign y.p), y)
  else
    let x := x.needCons
    let y := y.needCons
    let q := x.liftO (x.p.intersection_assign y.p)
    let exact :=
      if x.st.canPend then x.p.cs.insertPendingSys y.p.cs.rows
      else if x.p.cs.sorted && y.p.cs.sorted && !y.st.cPend then x.p.cs.mergeRowsExact false x.nnc y.p.cs.rows
      else x.p.cs.insertSysExact false x.nnc y.p.cs
    ({ q with p := { q.p with cs := q.p.cs.refineBy exact } }, y)

/-- `poly_hull_assign(y)` (:2613) -/
def polyHullAssign (x y : FPoly) : FPoly × FPoly :=
  if y.st.empty then (x, y)
  else if x.st.empty then (y, y)
  else if x.dim == 0 then (x, y)
  else
    let rx := x.needGens
    if rx.1 then (y, y)
    else
      let x := rx.2
      let ry := y.needGens
      if ry.1 then (x, ry.2)
      else
        let y := ry.2
        let q := x.liftO (x.p.poly_hull_assign y.p)
        let exact :=
          if x.st.canPend then x.p.gs.insertPendingSys y.p.gs.rows
          else if x.p.gs.sorted && y.p.gs.sorted && !y.st.gPend then x.p.gs.mergeRowsExact true x.nnc y.p.gs.rows
          else x.p.gs.insertSysExact true x.nnc y.p.gs
        ({ q with p := { q.p with gs := q.p.gs.refineBy exact } }, y)

/-- the loop of `time_elapse_assign` (:3684-3737) in its order: `i` from the last row down, an erased
    row is exchanged with the last live one -/
def timeElapseLoop (nnc : Bool) : Nat → List Row → Nat → Nat → List Row × Nat
  | 0, rows, _, live => (rows, live)
  | f + 1, rows, i1, live =>
    if i1 == 0 then (rows, live)
    else
      let i := i1 - 1
      let g := rows.getD i default
      let erase := if g.eq || g.b == 0 then false
                   else if nnc then (decide (g.eps > 0) || g.allHomZero) else g.allHomZero
      if erase then timeElapseLoop nnc f (swapAtR rows i (live - 1)) i (live - 1)
      else if g.eq || g.b == 0 then timeElapseLoop nnc f rows i live
      else timeElapseLoop nnc f (rows.set i ({ g with b := 0 } : Row).normalize) i live

/-- `time_elapse_assign(y)` (:3648) -/
def timeElapseAssign (x y : FPoly) : FPoly × FPoly :=
  if x.dim == 0 then (if y.st.empty then x.setEmpty else x, y)
  else if x.st.empty || y.st.empty then (x.setEmpty, y)
  else
    let rx := x.needGens
    if rx.1 then (rx.2.setEmpty, y)
    else
      let x := rx.2
      let ry := y.needGens
      if ry.1 then (x.setEmpty, ry.2)
      else
        let y := ry.2
        let q := x.liftO (x.p.time_elapse_assign y.p)
        let (rows, live) := timeElapseLoop x.nnc (y.p.gs.rows.length + 1) y.p.gs.rows y.p.gs.rows.length y.p.gs.rows.length
        let gs : Sys := ⟨rows.take live, live, if y.p.gs.rows.length > y.p.gs.firstPending then false else y.p.gs.sorted⟩
        if live == 0 then (q, y)
        else
          let exact :=
            if x.st.canPend then x.p.gs.insertPendingSys gs.rows
            else
              let xs := if !x.p.gs.sorted then x.p.gs.sortRows true x.nnc else x.p.gs
              xs.mergeRowsExact true x.nnc (gs.sortRows true x.nnc).rows
          ({ q with p := { q.p with gs := q.p.gs.refineBy exact } }, y)

/-- `topological_closure_assign()` (:3862) -/
def topologicalClosureAssign (x : FPoly) : FPoly :=
  if !x.nnc || x.st.empty || x.dim == 0 then x
  else
    let e := x.isEmpty
    if e.1 then e.2
    else
      let x := e.2
      let r := if x.st.cPend then x.processPendingConstraints else (true, x)
      if !r.1 then r.2
      else
        let x := r.2
        let q := x.liftO x.p.topological_closure_assign
        if !x.st.gPend && x.st.cUp then
          -- `con_sys.insert(epsilon_leq_one); set_sorted(false)`: as PolyOps
          q
        else
          -- `add_corresponding_points()` appends; not pending-capable: `unset_pending_rows(); set_sorted(false)`
          q

/-- `generalized_affine_image(var, relsym, expr, den)` (:3123), every relation symbol -/
def generalizedAffineImage (x : FPoly) (v : Nat) (r : Rel) (e : LinExpr) (den : Int) : FPoly :=
  let x1 := x.affineImage v e den
  match r with
  | .eq => x1
  | _ =>
    let em := x1.isEmpty
    if em.1 then em.2
    else
      let x2 := em.2
      match r with
      | .le | .ge =>
        let ray := rayRow x2.dim v (if r == .le then -1 else 1)
        -- `add_generator(ray)`: generators are up to date and no constraints are pending after is_empty()
        x2.addGenerator .ray ray
      | .lt | .gt =>
        -- :3175-3224 (NNC only): the ray, `minimize()`, every point split into its closure point and the
        -- point displaced by `±var` (appended, from the last row to the first)
        let sgn : Int := if r == .gt then 1 else -1
        let x3 := (x2.addGenerator .ray (rayRow x2.dim v sgn)).minimize.2
        let rows := x3.p.gs.rows
        let step := fun (acc : List Row × List Row) (i : Nat) =>
          let g := acc.1.getD i default
          if Row.isPointG g then
            let old : Row := ({ g with eps := 0 } : Row).normalize
            let nw : Row := ({ g with cf := g.cf.set v (g.cf.getD v 0 + sgn) } : Row).normalize
            (acc.1.set i old, acc.2 ++ [nw])
          else acc
        let (rows', added) := (List.range rows.length).reverse.foldl step (rows, [])
        let all := rows' ++ added
        { x3 with p := { x3.p with gs := ⟨all, all.length, false⟩,
                                   st := { x3.p.st.clearCUp with gMin := false, satC := false, satG := false } } }
      | _ => x2

/-- `concatenate_assign(y)` (Polyhedron_chdims.cc:184) -/
def concatenateAssign (x y : FPoly) : FPoly × FPoly :=
  if x.st.empty || y.st.empty || y.dim == 0 then (x.liftO (x.p.concatenate_assign y.p), y)
  else if x.dim == 0 then (y, y)
  else
    let y := y.needCons
    let x := x.needCons
    let q := x.liftO (x.p.concatenate_assign y.p)
    let added := y.p.cs.rows.map (Row.shiftInto x.dim)
    let cs1 := x.p.cs.addZeroCols y.dim
    if x.st.canPend then
      -- :247-268: lines of the new variables in front of gen_sys, their (empty) rows in front of sat_c
      let sc := if !x.st.satC then x.satG.transposeOf else x.satC
      let sc' : BitMat := ⟨List.replicate y.dim [] ++ sc.rows, sc.ncols⟩
      ({ q with satC := sc',
                p := { q.p with gs := q.p.gs.refineBy (addUniverseRowsExact true x.nnc x.dim y.dim x.p.gs) } }, y)
    else
      let exact := added.foldl (fun s r => s.insertRow false x.nnc r) cs1
      ({ q with p := { q.p with cs := q.p.cs.refineBy exact } }, y)

/-- `add_recycled_constraints(cs)` (:1560) for a system `cs` of the receiver's topology and dimension,
    receiver of positive dimension -/
def addRecycledConstraintsSys (x : FPoly) (cs : Sys) : FPoly :=
  if cs.rows.isEmpty || x.st.empty then x
  else
    let x := x.needCons
    let q := x.p.addRecycledConstraints cs.rows
    let exact := if x.st.canPend then x.p.cs.insertPendingSys cs.rows else x.p.cs.insertSysExact false x.nnc cs
    { x with p := { q with cs := q.cs.refineBy exact } }

/-- `expand_space_dimension(var, m)` (Polyhedron_chdims.cc:401): embed, `constraints()`, the new rows
    collected in a fresh `Constraint_System` (inserted one by one), `add_recycled_constraints` -/
def expandSpaceDimension (x : FPoly) (v m : Nat) : FPoly :=
  if m == 0 then x
  else
    let oldDim := x.dim
    let x2 := (x.addSpaceDimensionsAndEmbed m).constraints
    let rows := if x2.st.empty then [] else x2.p.cs.rows.flatMap (expandRow v oldDim m)
    let ncs := rows.foldl (fun s r => s.insertRow false x.nnc r) Sys.clear
    x2.addRecycledConstraintsSys ncs

/-- `fold_space_dimensions(vars, dest)` (Polyhedron_chdims.cc:455): `generators()`, then for every
    `i ∈ vars` a copy gets `affine_image(dest, Variable(i))` and is joined in, then `vars` is removed -/
def foldSpaceDimensions (x : FPoly) (vars : List Nat) (dest : Nat) : FPoly :=
  if vars.isEmpty then x
  else
    let x1 := x.generators
    let x2 :=
      if x1.st.empty then x1
      else vars.foldl (fun acc i =>
        let copy := acc.affineImage dest ⟨List.replicate i 0 ++ [1] ++ List.replicate (acc.dim - i - 1) 0, 0⟩ 1
        (acc.polyHullAssign copy).1) x1
    x2.removeSpaceDimensions vars

/-- `map_space_dimensions(pfunc)` (Polyhedron_templates.hh:153) for a permutation or a map with empty
    codomain (`f[j] = pfunc(j)`); the general case builds a new polyhedron from a generator system read
    through `Generator_System::const_iterator` and is not part of this model -/
def mapSpaceDimensions (x : FPoly) (f : List (Option Nat)) : FPoly :=
  if x.dim == 0 then x
  else if f.all (· == none) then
    if x.st.empty then x.liftO (x.p.map_space_dimensions f)
    else
      let r := if x.st.cPend then x.removePendingToObtainGenerators else (true, x)
      let r := if r.1 && !r.2.st.gUp then r.2.updateGenerators else r
      if !r.1 then { r.2 with p := { r.2.p with dim := 0, cs := Sys.clear } }
      else r.2.setZeroDimUniv
  else
    -- every cycle, the trivial ones included, ends with `permute_space_dimensions(cycle)` on whatever is up
    -- to date, and that clears `sorted` (Linear_System_inlines.hh:667)
    let q := x.liftO (x.p.map_space_dimensions f)
    if x.st.empty then q
    else { q with p := { q.p with cs := if x.st.cUp then { q.p.cs with sorted := false } else q.p.cs,
                                  gs := if x.st.gUp then { q.p.gs with sorted := false } else q.p.gs } }

/-- the constraint `a ≤ b` / `a == b` of two linear expressions over `n` variables as the operators
    of Constraint_inlines.hh build it: `b - a ≥ 0` (`== 0`), strongly normalised; closed topology (ε = 0) -/
def conOfExprs (n : Nat) (eq : Bool) (a b : LinExpr) : Row :=
  let ca := padTo n a.coeffs
  let cb := padTo n b.coeffs
  (⟨eq, b.k - a.k, List.zipWith (fun x y => y - x) ca cb, 0⟩ : Row).strongNormalize

/-- `den * Variable(v)` over `n` variables -/
def scaledVar (n v : Nat) (den : Int) : LinExpr := ⟨(List.replicate n 0).set v den, 0⟩

/-- `bounded_affine_image(var, lb_expr, ub_expr, den)` (:2955) -/
def boundedAffineImage (x : FPoly) (v : Nat) (lb ub : LinExpr) (den : Int) : FPoly :=
  if x.st.empty then x
  else
    let n := x.dim
    if lb.coeffs.getD v 0 == 0 then
      let x1 := x.generalizedAffineImage v .le ub den
      if x1.st.empty then x1
      else if den > 0 then x1.refineNoCheck (conOfExprs n false lb (scaledVar n v den))
      else x1.refineNoCheck (conOfExprs n false (scaledVar n v den) lb)
    else if ub.coeffs.getD v 0 == 0 then
      let x1 := x.generalizedAffineImage v .ge lb den
      if x1.st.empty then x1
      else if den > 0 then x1.refineNoCheck (conOfExprs n false (scaledVar n v den) ub)
      else x1.refineNoCheck (conOfExprs n false ub (scaledVar n v den))
    else
      let x1 := x.addSpaceDimensionsAndEmbed 1
      let x2 := x1.refineNoCheck (conOfExprs (n + 1) true (scaledVar (n + 1) n den) ⟨padTo (n + 1) ub.coeffs, ub.k⟩)
      let x3 := x2.generalizedAffineImage v .ge ⟨padTo (n + 1) lb.coeffs, lb.k⟩ den
      let x4 := if x3.st.empty then x3
                else x3.refineNoCheck (conOfExprs (n + 1) false (scaledVar (n + 1) v 1) (scaledVar (n + 1) n 1))
      x4.removeHigherSpaceDimensions n

end FPoly
end PPLV.PolyFull
