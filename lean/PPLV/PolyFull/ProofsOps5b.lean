import PPLV.PolyFull.ProofsOps5

/-!
# Integration stage — `affine_image` refines `RefPoly.affineImage`: the theorems
-/
namespace PPLV.PolyFull
open PPLV.Lin PPLV.PolyOps

theorem affineImage_eq_of_trivial (x : FPoly) (v : Nat) (e : LinExpr) (den : Int)
    (hc : (x.st.empty || e.coeffs.getD v 0 != 0) = true) :
    x.affineImage v e den = x.liftO (x.p.affine_image v e den) := by
  unfold FPoly.affineImage
  simp only [hc, if_true]

/-- **`Polyhedron::affine_image(var, expr, den)`, the whole object.**  PARTIAL: in the invertible case
    (`expr[var] ≠ 0`) on a receiver not marked empty the rows of both descriptions are rewritten in
    place with the status word unchanged; the four fields `low`, `denNPc`, `denNPg`, `eng` of the
    invariant of the RESULT are assumed (`hLow`, `hNPc`, `hNPg`, `hEng`; each only under
    `expr[var] ≠ 0` and `x` not marked empty).  Everything else (`wf`, `den`, `legal`, `fpC`, `fpG`; and
    every field in the non-invertible and marked-empty cases) is proved. -/
theorem affineImage_refines_partial (G : GlueFacts) (x : FPoly) (ref : RefPoly) (v : Nat) (e : LinExpr)
    (den : Int) (hn : ref.n = x.p.dim) (hnnc : ref.nnc = x.p.nnc) (hwf : WF ref.n ref.cs)
    (hv : v < x.p.dim) (he : e.coeffs.length = x.p.dim) (hden : den ≠ 0) (hx : x.Inv (sem ref.cs))
    (hLow : e.coeffs.getD v 0 ≠ 0 → x.p.st.empty = false → (x.affineImage v e den).p.st.cUp = true →
      LowLevel (x.affineImage v e den).p.nnc (x.affineImage v e den).p.dim (x.affineImage v e den).p.cs.rows)
    (hNPc : e.coeffs.getD v 0 ≠ 0 → x.p.st.empty = false → (x.affineImage v e den).p.st.cPend = true →
      genSem (x.affineImage v e den).p.nnc (x.affineImage v e den).p.dim (x.affineImage v e den).p.gs.rows =
        conSem (x.affineImage v e den).p.nnc (x.affineImage v e den).npC)
    (hNPg : e.coeffs.getD v 0 ≠ 0 → x.p.st.empty = false → (x.affineImage v e den).p.st.gPend = true →
      conSem (x.affineImage v e den).p.nnc (x.affineImage v e den).p.cs.rows =
        genSem (x.affineImage v e den).p.nnc (x.affineImage v e den).p.dim (x.affineImage v e den).npG)
    (hEng : e.coeffs.getD v 0 ≠ 0 → x.p.st.empty = false → (x.affineImage v e den).p.st.canPend = true →
      EnginePair (x.affineImage v e den).p.nnc (x.affineImage v e den).p.dim (x.affineImage v e den).npC
        (x.affineImage v e den).npG (x.affineImage v e den).p.st.satC (x.affineImage v e den).p.st.satG
        (x.affineImage v e den).satC (x.affineImage v e den).satG) :
    (x.affineImage v e den).Inv (sem (ref.affineImage v e den).cs) ∧ x.SameShape (x.affineImage v e den) := by
  by_cases hc1 : (x.st.empty || e.coeffs.getD v 0 != 0) = true
  · have hR := affineImage_eq_of_trivial x v e den hc1
    rw [hR] at hLow hNPc hNPg hEng ⊢
    cases hex : x.p.st.empty
    · -- invertible
      have hc : e.coeffs.getD v 0 ≠ 0 := by
        have hex' : x.st.empty = false := hex
        rw [hex', Bool.false_or] at hc1
        exact bne_iff_ne.mp hc1
      obtain ⟨q, hq⟩ : ∃ q, x.p.affine_image v e den = some q := by
        unfold Poly.affine_image
        rw [if_neg (by simp [hex]), if_pos (bne_iff_ne.mpr hc)]
        exact ⟨_, rfl⟩
      obtain ⟨hst, hqn, hqd, hgs, hcs⟩ := affine_image_inv_shape x.p q v e den hex hc hq
      have hqe : q.st.empty = false := by rw [hst]; exact hex
      have hlift : x.liftO (some q) = { x with p := q } := lift_of_nonempty x q hqe
      rw [hq] at hLow hNPc hNPg hEng ⊢
      rw [hlift] at hLow hNPc hNPg hEng ⊢
      refine ⟨⟨affine_image_rows_wf x.p q v e den hx.wf hv he hden hq,
        affine_image_rows_correct x.p q v e den ref hn hnnc hwf hx.wf hv he hden hx.den hq, ?_, ?_, ?_,
        fun _ => hLow hc hex, fun _ => hNPc hc hex, fun _ => hNPg hc hex, fun _ => hEng hc hex⟩, hqn, hqd⟩
      · show statusLegalB q.st q.dim = true
        rw [hst, hqd]; exact hx.legal
      · intro _ hcu
        have hcu' : x.p.st.cUp = true := by rw [← hst]; exact hcu
        show q.cs.firstPending ≤ q.cs.rows.length ∧ (q.st.cPend = false → q.cs.firstPending = q.cs.rows.length)
        rw [hcs, if_pos hcu', (csAffinePreimage_fp _ _ _ _).1, (csAffinePreimage_fp _ _ _ _).2, hst]
        exact hx.fpC hex hcu'
      · intro _ hgu
        have hgu' : x.p.st.gUp = true := by rw [← hst]; exact hgu
        show q.gs.firstPending ≤ q.gs.rows.length ∧ (q.st.gPend = false → q.gs.firstPending = q.gs.rows.length)
        rw [hgs, if_pos hgu', (gsSigned_fp_inv _ _ _ _ hc).1, (gsSigned_fp_inv _ _ _ _ hc).2, hst]
        exact hx.fpG hex hgu'
    · have hq : x.p.affine_image v e den = some x.p := by
        unfold Poly.affine_image; rw [if_pos hex]
      rw [hq]
      have hd := affine_image_rows_correct x.p x.p v e den ref hn hnnc hwf hx.wf hv he hden hx.den hq
      exact Inv_lift_same x _ _ hx hd
  · -- not marked empty, not invertible
    simp only [Bool.or_eq_true, not_or, Bool.not_eq_true] at hc1
    obtain ⟨hex, hc0⟩ := hc1
    have hc : e.coeffs.getD v 0 = 0 := by
      by_contra h
      rw [bne_iff_ne.mpr h] at hc0; cases hc0
    have hdpos : 0 < x.p.dim := Nat.lt_of_le_of_lt (Nat.zero_le _) hv
    obtain ⟨hs1, hi1, hcase⟩ := prepGensMin_facts G x _ hx hex hdpos
    have hcond : (x.st.empty || e.coeffs.getD v 0 != 0) = false := by rw [hex, hc0]; rfl
    unfold FPoly.affineImage
    simp only [hcond, Bool.false_eq_true, if_false]
    generalize hx1 : (x.prepGensDropPending fun y => y.minimize.2) = x1 at hs1 hi1 hcase ⊢
    have hn1 : ref.n = x1.p.dim := by rw [hs1.2]; exact hn
    have hnnc1 : ref.nnc = x1.p.nnc := by rw [hs1.1]; exact hnnc
    have hv1 : v < x1.p.dim := by rw [hs1.2]; exact hv
    have he1 : e.coeffs.length = x1.p.dim := by rw [hs1.2]; exact he
    rcases hcase with hem1 | hne1
    · have hem1' : x1.st.empty = true := hem1
      have hq : x1.p.affine_image v e den = some x1.p := by
        unfold Poly.affine_image; rw [if_pos hem1]
      have hd := affine_image_rows_correct x1.p x1.p v e den ref hn1 hnnc1 hwf hi1.wf hv1 he1 hden hi1.den hq
      simp only [hem1', Bool.true_or, if_true]
      rw [hq]
      obtain ⟨h1, h2⟩ := Inv_lift_same x1 _ _ hi1 hd
      exact ⟨h1, h2.1.trans hs1.1, h2.2.trans hs1.2⟩
    · have hem1' : x1.st.empty = false := hne1.1
      simp only [hem1', hc0, Bool.or_false, Bool.false_eq_true, if_false]
      generalize (if den > 0 then (e, den) else (exprNeg e, -den)) = pr
      obtain ⟨e', d'⟩ := pr
      simp only []
      obtain ⟨h1, h2, h3⟩ := affineImage_noninv_main x1 _ (sem (ref.affineImage v e den).cs) v e den
        ((swapRemove (fun (r : Row) => r.b == 0 && r.allHomZero)
          ((x1.p.gs.rows.map (genRowAffineImage v e' d')).length + 1)
          (x1.p.gs.rows.map (genRowAffineImage v e' d')) 0).map Row.strongNormalize)
        hi1 (by rw [hs1.2]; exact hdpos) hc hne1
        (fun q h => affine_image_rows_wf x1.p q v e den hi1.wf hv1 he1 hden h)
        (fun q h => affine_image_rows_correct x1.p q v e den ref hn1 hnnc1 hwf hi1.wf hv1 he1 hden hi1.den h)
      exact ⟨h1, h2.trans hs1.1, h3.trans hs1.2⟩

/-- non-invertible `affine_image`: fully proved -/
theorem affineImage_refines_noninv (G : GlueFacts) (x : FPoly) (ref : RefPoly) (v : Nat) (e : LinExpr)
    (den : Int) (hn : ref.n = x.p.dim) (hnnc : ref.nnc = x.p.nnc) (hwf : WF ref.n ref.cs)
    (hv : v < x.p.dim) (he : e.coeffs.length = x.p.dim) (hden : den ≠ 0) (hx : x.Inv (sem ref.cs))
    (hc : e.coeffs.getD v 0 = 0) :
    (x.affineImage v e den).Inv (sem (ref.affineImage v e den).cs) ∧ x.SameShape (x.affineImage v e den) :=
  affineImage_refines_partial G x ref v e den hn hnnc hwf hv he hden hx
    (fun h => absurd hc h) (fun h => absurd hc h) (fun h => absurd hc h) (fun h => absurd hc h)

/-- `affine_image` of a receiver marked empty: fully proved -/
theorem affineImage_refines_empty (G : GlueFacts) (x : FPoly) (ref : RefPoly) (v : Nat) (e : LinExpr)
    (den : Int) (hn : ref.n = x.p.dim) (hnnc : ref.nnc = x.p.nnc) (hwf : WF ref.n ref.cs)
    (hv : v < x.p.dim) (he : e.coeffs.length = x.p.dim) (hden : den ≠ 0) (hx : x.Inv (sem ref.cs))
    (hem : x.p.st.empty = true) :
    (x.affineImage v e den).Inv (sem (ref.affineImage v e den).cs) ∧ x.SameShape (x.affineImage v e den) :=
  affineImage_refines_partial G x ref v e den hn hnnc hwf hv he hden hx
    (fun _ h => by rw [hem] at h; cases h) (fun _ h => by rw [hem] at h; cases h)
    (fun _ h => by rw [hem] at h; cases h) (fun _ h => by rw [hem] at h; cases h)

end PPLV.PolyFull
