import PPLV.PolyFull.ProofsOps11c

/-!
# Integration stage — the invertible affine map keeps `Sound` and `SatCorrect`

`AffData`: the two linear maps (generators by `A = subVec … Eg dg`, constraints composed with
`B = subVec … Ec dc`), inverse to each other up to the factor `dg · dc > 0`.  `prod_factor`: the scalar
product of a rewritten constraint row with a rewritten generator row is the old one up to a non-zero
factor, positive when neither row is an equality / a line.
-/
namespace PPLV.PolyFull
open PPLV.Lin PPLV.PolyOps
open PPLV.Conv (scalarProduct holds holdsAll Vec sp_eq_sum sp_comm Sound SatCorrect satisfies Generated LRow)

structure AffData (nnc : Bool) (n v : Nat) (Eg : LinExpr) (dg : Int) (Ec : LinExpr) (dc : Int) : Prop where
  hv : v < n
  hEg : Eg.coeffs.length = n
  hEc : Ec.coeffs.length = n
  hdg : 0 < dg
  hdc : 0 < dc
  hAB : InvPair (numCols nnc n) v Eg dg Ec dc
  hBA : InvPair (numCols nnc n) v Ec dc Eg dg

/-- the rewritten constraint / generator row -/
def Fc (v : Nat) (Ec : LinExpr) (dc : Int) (c : Row) : Row := (conRowAffinePreimage v Ec dc c).strongNormalize
def Fg (v : Nat) (Eg : LinExpr) (dg : Int) (g : Row) : Row := (genRowAffineImage v Eg dg g).strongNormalize

theorem AffData.hvN {nnc n v Eg dg Ec dc} (D : AffData nnc n v Eg dg Ec dc) : v + 1 < numCols nnc n := by
  have := D.hv; unfold numCols; omega

theorem prod_factor {nnc n v Eg dg Ec dc} (D : AffData nnc n v Eg dg Ec dc) (c g : Row)
    (hc : c.cf.length = n) (hg : g.cf.length = n) :
    ∃ m : Int, m ≠ 0 ∧ (c.eq = false → g.eq = false → 0 < m) ∧
      m * scalarProduct (Lv nnc (Fc v Ec dc c)) (Lv nnc (Fg v Eg dg g)) =
        dc * dg * scalarProduct (Lv nnc c) (Lv nnc g) := by
  obtain ⟨t, ht, htpos, _, _, hct⟩ := conRow_factor nnc n v Ec dc c hc D.hEc D.hv D.hdc
  obtain ⟨s, hs, hspos, _, hgl, hgs⟩ := genRow_factor nnc n v Eg dg g hg D.hEg D.hv
  have hL' : (Lv nnc (Fg v Eg dg g)).length ≤ numCols nnc n :=
    le_of_eq (Lv_length nnc n _ hgl)
  have hL : (Lv nnc g).length ≤ numCols nnc n := by rw [Lv_length nnc n _ hg]
  have h1 := hct (Lv nnc (Fg v Eg dg g)) hL'
  have h2 := subVec_congr_scale (numCols nnc n) v Ec dc (subVec (numCols nnc n) v Eg dg (Lv nnc g))
    (Lv nnc (Fg v Eg dg g)) s D.hvN (by rw [subVec_length]) hL' hgs (Lv nnc c)
  have h3 := subVec_comp (numCols nnc n) v Ec dc Eg dg D.hvN D.hBA (Lv nnc c) (Lv nnc g) hL
  refine ⟨s * t, mul_ne_zero hs ht, fun h1' h2' => mul_pos (hspos h2') (htpos h1'), ?_⟩
  show s * t * scalarProduct (Lv nnc (conRowAffinePreimage v Ec dc c).strongNormalize)
    (Lv nnc (genRowAffineImage v Eg dg g).strongNormalize) = _
  unfold Fg at h1 h2
  rw [← h3, h2, h1]; ring

theorem Fc_eq {nnc n v Eg dg Ec dc} (D : AffData nnc n v Eg dg Ec dc) (c : Row) (hc : c.cf.length = n) :
    (Fc v Ec dc c).eq = c.eq ∧ (Fc v Ec dc c).cf.length = n := by
  obtain ⟨_, _, _, h1, h2, _⟩ := conRow_factor nnc n v Ec dc c hc D.hEc D.hv D.hdc
  exact ⟨h1, h2⟩

theorem Fg_eq {nnc n v Eg dg Ec dc} (D : AffData nnc n v Eg dg Ec dc) (g : Row) (hg : g.cf.length = n) :
    (Fg v Eg dg g).eq = g.eq ∧ (Fg v Eg dg g).cf.length = n := by
  obtain ⟨_, _, _, h1, h2, _⟩ := genRow_factor nnc n v Eg dg g hg D.hEg D.hv
  exact ⟨h1, h2⟩

theorem sound_affine {nnc n v Eg dg Ec dc} (D : AffData nnc n v Eg dg Ec dc) (cs gs : List Row)
    (hcs : ∀ c ∈ cs, c.cf.length = n) (hgs : ∀ g ∈ gs, g.cf.length = n)
    (h : Sound (cs.map (toL nnc)) (gs.map (toL nnc))) :
    Sound ((cs.map (Fc v Ec dc)).map (toL nnc)) ((gs.map (Fg v Eg dg)).map (toL nnc)) := by
  intro d hd s hs
  obtain ⟨g', hg', rfl⟩ := List.mem_map.mp hd
  obtain ⟨g, hg, rfl⟩ := List.mem_map.mp hg'
  obtain ⟨c', hc', rfl⟩ := List.mem_map.mp hs
  obtain ⟨c, hc, rfl⟩ := List.mem_map.mp hc'
  have hold := h (toL nnc g) (List.mem_map.mpr ⟨g, hg, rfl⟩) (toL nnc c) (List.mem_map.mpr ⟨c, hc, rfl⟩)
  obtain ⟨m, hm, hmpos, hprod⟩ := prod_factor D c g (hcs c hc) (hgs g hg)
  have hκ : 0 < dc * dg := mul_pos D.hdc D.hdg
  unfold satisfies at hold ⊢
  rw [toL_le, toL_le, toL_v, toL_v] at hold ⊢
  rw [(Fc_eq D c (hcs c hc)).1, (Fg_eq D g (hgs g hg)).1]
  split
  · rename_i hflag
    rw [if_pos hflag] at hold
    rw [hold, mul_zero] at hprod
    rcases mul_eq_zero.mp hprod with h0 | h0
    · exact absurd h0 hm
    · exact h0
  · rename_i hflag
    rw [if_neg hflag] at hold
    simp only [Bool.or_eq_true, not_or, Bool.not_eq_true] at hflag
    have hmp := hmpos hflag.1 hflag.2
    have : 0 ≤ m * scalarProduct (Lv nnc (Fc v Ec dc c)) (Lv nnc (Fg v Eg dg g)) := by
      rw [hprod]; exact mul_nonneg (le_of_lt hκ) hold
    exact (mul_nonneg_iff_of_pos_left hmp).mp this

theorem prod_ne_zero_iff {nnc n v Eg dg Ec dc} (D : AffData nnc n v Eg dg Ec dc) (c g : Row)
    (hc : c.cf.length = n) (hg : g.cf.length = n) :
    scalarProduct (Lv nnc (Fc v Ec dc c)) (Lv nnc (Fg v Eg dg g)) ≠ 0 ↔
      scalarProduct (Lv nnc c) (Lv nnc g) ≠ 0 := by
  obtain ⟨m, hm, _, hprod⟩ := prod_factor D c g hc hg
  have hκ : dc * dg ≠ 0 := ne_of_gt (mul_pos D.hdc D.hdg)
  constructor
  · intro h h0
    rw [h0, mul_zero] at hprod
    rcases mul_eq_zero.mp hprod with h1 | h1
    · exact hm h1
    · exact h h1
  · intro h h0
    rw [h0, mul_zero] at hprod
    rcases mul_eq_zero.mp hprod.symm with h1 | h1
    · exact hκ h1
    · exact h h1

/-- `SatCorrect` only looks at which scalar products vanish -/
theorem SatCorrect_congr (cols cols' dest dest' : List LRow) (sat : List PPLV.Conv.BRow)
    (hlc : cols'.length = cols.length) (hld : dest'.length = dest.length)
    (h : ∀ i (_ : i < dest.length) j (_ : j < cols.length),
      (scalarProduct (cols'.getD j default).v (dest'.getD i default).v ≠ 0 ↔
        scalarProduct (cols.getD j default).v (dest.getD i default).v ≠ 0))
    (hs : SatCorrect cols dest sat) : SatCorrect cols' dest' sat := by
  obtain ⟨h1, h2⟩ := hs
  refine ⟨by rw [h1, hld], fun i hi j => ?_⟩
  have hi' : i < dest.length := by rw [← hld]; exact hi
  rw [h2 i hi' j, hlc]
  by_cases hj : j < cols.length
  · have e1 : dest'[i] = dest'.getD i default := by
      rw [List.getD_eq_getElem?_getD, List.getElem?_eq_getElem hi]; rfl
    have e2 : dest[i] = dest.getD i default := by
      rw [List.getD_eq_getElem?_getD, List.getElem?_eq_getElem hi']; rfl
    rw [e1, e2]
    have := h i hi' j hj
    simp only [hj, decide_true, Bool.true_and]
    exact (decide_eq_decide.mpr this).symm
  · simp [hj]

theorem getD_map_map (nnc : Bool) (l : List Row) (f : Row → Row) (i : Nat) (hi : i < l.length) :
    ((l.map f).map (toL nnc)).getD i default = toL nnc (f (l.getD i default)) := by
  simp [List.getD_eq_getElem?_getD, hi]

theorem getD_map_toL (nnc : Bool) (l : List Row) (i : Nat) (hi : i < l.length) :
    (l.map (toL nnc)).getD i default = toL nnc (l.getD i default) := by
  simp [List.getD_eq_getElem?_getD, hi]

theorem getD_mem (l : List Row) (i : Nat) (hi : i < l.length) : l.getD i default ∈ l := by
  rw [List.getD_eq_getElem?_getD, List.getElem?_eq_getElem hi]; exact List.getElem_mem hi

theorem satC_affine {nnc n v Eg dg Ec dc} (D : AffData nnc n v Eg dg Ec dc) (cs gs : List Row)
    (hcs : ∀ c ∈ cs, c.cf.length = n) (hgs : ∀ g ∈ gs, g.cf.length = n) (sat : List PPLV.Conv.BRow)
    (h : SatCorrect (cs.map (toL nnc)) (gs.map (toL nnc)) sat) :
    SatCorrect ((cs.map (Fc v Ec dc)).map (toL nnc)) ((gs.map (Fg v Eg dg)).map (toL nnc)) sat := by
  apply SatCorrect_congr _ _ _ _ sat (by simp) (by simp) _ h
  intro i hi j hj
  have hi' : i < gs.length := by simpa using hi
  have hj' : j < cs.length := by simpa using hj
  rw [getD_map_map nnc cs _ j hj', getD_map_map nnc gs _ i hi', getD_map_toL nnc cs j hj',
    getD_map_toL nnc gs i hi']
  exact prod_ne_zero_iff D _ _ (hcs _ (getD_mem cs j hj')) (hgs _ (getD_mem gs i hi'))

theorem satG_affine {nnc n v Eg dg Ec dc} (D : AffData nnc n v Eg dg Ec dc) (cs gs : List Row)
    (hcs : ∀ c ∈ cs, c.cf.length = n) (hgs : ∀ g ∈ gs, g.cf.length = n) (sat : List PPLV.Conv.BRow)
    (h : SatCorrect (gs.map (toL nnc)) (cs.map (toL nnc)) sat) :
    SatCorrect ((gs.map (Fg v Eg dg)).map (toL nnc)) ((cs.map (Fc v Ec dc)).map (toL nnc)) sat := by
  apply SatCorrect_congr _ _ _ _ sat (by simp) (by simp) _ h
  intro i hi j hj
  have hi' : i < cs.length := by simpa using hi
  have hj' : j < gs.length := by simpa using hj
  rw [getD_map_map nnc gs _ j hj', getD_map_map nnc cs _ i hi', getD_map_toL nnc gs j hj',
    getD_map_toL nnc cs i hi', toL_v, toL_v, toL_v, toL_v, sp_comm (Lv nnc (Fg v Eg dg _)),
    sp_comm (Lv nnc (gs.getD j default))]
  exact prod_ne_zero_iff D _ _ (hcs _ (getD_mem cs i hi')) (hgs _ (getD_mem gs j hj'))

end PPLV.PolyFull
