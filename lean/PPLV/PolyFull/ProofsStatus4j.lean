import PPLV.PolyFull.ProofsStatus4i
import PPLV.PolyStatus.Ops2

/-!
# Integration stage — `intersection_assign(y)` against `PolyStatus/Ops2.lean` (`y` not aliased to `x`)

The abstract model DERIVES the ghost `keep` of the insertion: `keep := y.csS && !y.cpend`.  The full model
(`Linear_System::insert(y)`, `merge_rows_assign`) agrees when `y.con_sys` has rows and "the `CS_PENDING` flag
of `y` ⇒ `y.con_sys` has pending rows" (hypotheses `hrows`, `hpend`); without them the two differ on the
`sorted` flag of `x.con_sys` only (see the final report).
-/
namespace PPLV.PolyFull
open PPLV.PolyOps PPLV.Lin
open PPLV.PolyStatus (PState Gh Two)

attribute [local simp] FPoly.st FPoly.nnc FPoly.dim FPoly.withSt FPoly.withCs FPoly.withGs

theorem needCons_ready (x : FPoly) (hl : x.p.st.gPend = true → x.p.st.cUp = true) :
    x.needCons.p.st.gPend = false ∧ x.needCons.p.st.cUp = true ∧ x.needCons.p.st.cPend = x.p.st.cPend := by
  unfold FPoly.needCons
  split
  · next hg =>
    obtain ⟨_, k2, _, k4, k5, _⟩ := processPendingGenerators_keeps x
    exact ⟨k5, k2.trans (hl hg), k4⟩
  split
  · next hg hc => simp [FPoly.updateConstraints]; simpa using hg
  · next hg hc => exact ⟨by simpa using hg, by simpa using hc, rfl⟩

/-- the generic "rows inserted into `con_sys`, pending if possible" step -/
theorem insertCons_sim_of_facts (y z : FPoly) (t : PState) (g : Gh) (m : Sim y t)
    (f1 : z.p.st = (if y.p.st.canPend then { y.p.st with cPend := true } else ({ y.p.st with cMin := false }).clearGUp))
    (f2 : z.p.dim = y.p.dim) (f3 : z.p.nnc = y.p.nnc) (f4 : z.p.gs = y.p.gs)
    (s2 : y.p.st.canPend = true → z.p.cs.sorted = y.p.cs.sorted)
    (s3 : y.p.st.canPend = false → z.p.cs.sorted = (y.p.cs.sorted && g.keep)) :
    Sim z (PPLV.PolyStatus.insertCons g t) := by
  obtain ⟨⟨zn, zd, zst, ⟨zr, zf, zsrt⟩, zgs⟩, zC, zG⟩ := z
  obtain ⟨⟨nnc, dim, ⟨e, cu, gu, cm, gm, sc, sg, cpd, gp⟩, ⟨cr', cf, csrt⟩, gs⟩, mC, mG⟩ := y
  simp only at f1 f2 f3 f4 s2 s3
  subst f1 f2 f3 f4
  sim_hyps m
  cases hkk : g.keep <;> cases cm <;> cases gm <;> cases sc <;> cases sg <;>
    simp_all [Sim, pst, PPLV.PolyStatus.insertCons, Status.canPend, Status.clearGUp]

/-- `intersection_assign` after the two preparations -/
def FPoly.iaTail (x y : FPoly) : FPoly :=
  let q := x.liftO (x.p.intersection_assign y.p)
  let exact :=
    if x.st.canPend then x.p.cs.insertPendingSys y.p.cs.rows
    else if x.p.cs.sorted && y.p.cs.sorted && !y.st.cPend then x.p.cs.mergeRowsExact false x.nnc y.p.cs.rows
    else x.p.cs.insertSysExact false x.nnc y.p.cs
  { q with p := { q.p with cs := q.p.cs.refineBy exact } }

theorem iaTail_p (x y : FPoly) (hex : x.p.st.empty = false) (hey : y.p.st.empty = false) (hd : x.p.dim ≠ 0)
    (hgx : x.p.st.gPend = false) (hcx : x.p.st.cUp = true) (hgy : y.p.st.gPend = false) (hcy : y.p.st.cUp = true) :
    (x.iaTail y).p =
      (if x.p.st.canPend then
        { x.p with cs := (x.p.cs.insertPendingSys y.p.cs.rows).refineBy (x.p.cs.insertPendingSys y.p.cs.rows),
                   st := { x.p.st with cPend := true } }
       else
        { x.p with
            cs := (if x.p.cs.sorted && y.p.cs.sorted && !y.p.st.cPend then x.p.cs.mergeRowsAssign y.p.cs.rows
                   else x.p.cs.insertSys y.p.cs.rows).refineBy
                  (if x.p.cs.sorted && y.p.cs.sorted && !y.p.st.cPend then x.p.cs.mergeRowsExact false x.p.nnc y.p.cs.rows
                   else x.p.cs.insertSysExact false x.p.nnc y.p.cs),
            st := ({ x.p.st with cMin := false }).clearGUp }) := by
  have hd' : (x.p.dim == 0) = false := by simpa using hd
  have e : x.p.intersection_assign y.p =
      some (if x.p.st.canPend then
              { x.p with cs := x.p.cs.insertPendingSys y.p.cs.rows, st := { x.p.st with cPend := true } }
            else { x.p with
                    cs := (if x.p.cs.sorted && y.p.cs.sorted && !y.p.st.cPend then x.p.cs.mergeRowsAssign y.p.cs.rows
                           else x.p.cs.insertSys y.p.cs.rows),
                    st := ({ x.p.st with cMin := false }).clearGUp }) := by
    unfold Poly.intersection_assign Poly.obtainConstraintsNoConv
    simp only [hex, hey, hd', hgx, hcx, hgy, hcy, Bool.false_eq_true, ↓reduceIte, Bool.not_true]
    split <;> rfl
  unfold FPoly.iaTail
  simp only [e, FPoly.liftO, lift_p, FPoly.st, FPoly.nnc]
  rcases (Bool.eq_false_or_eq_true x.p.st.canPend).symm with cp | cp <;> simp [cp]

theorem insertSysExact_sorted_false (gen nnc : Bool) (s y : Sys) (hr : y.rows.isEmpty = false)
    (h : (s.sorted && y.sorted && decide (y.rows.length ≤ y.firstPending)) = false) :
    (s.insertSysExact gen nnc y).sorted = false := by
  unfold Sys.insertSysExact
  simp only [hr, Bool.false_eq_true, ↓reduceIte]
  cases hs : s.sorted <;> cases hy : y.sorted <;> simp_all

theorem iaTail_sim (x y : FPoly) (s : PState) (ycsS ycpend : Bool) (g : Gh) (m : Sim x s)
    (hex : x.p.st.empty = false) (hey : y.p.st.empty = false) (hd : x.p.dim ≠ 0)
    (hgx : x.p.st.gPend = false) (hcx : x.p.st.cUp = true) (hgy : y.p.st.gPend = false) (hcy : y.p.st.cUp = true)
    (hrows : y.p.cs.rows.isEmpty = false)
    (hpend : y.p.st.cPend = true → y.p.cs.firstPending < y.p.cs.rows.length)
    (h1 : ycsS = y.p.cs.sorted) (h2 : ycpend = y.p.st.cPend) :
    Sim (x.iaTail y) (PPLV.PolyStatus.insertCons { g with keep := ycsS && !ycpend } s) := by
  have e := iaTail_p x y hex hey hd hgx hcx hgy hcy
  subst h1 h2
  rcases (Bool.eq_false_or_eq_true x.p.st.canPend).symm with cp | cp
  · simp only [cp, Bool.false_eq_true, ↓reduceIte] at e
    refine insertCons_sim_of_facts x _ s _ m ?_ ?_ ?_ ?_ (fun hh => (by rw [cp] at hh; cases hh)) (fun _ => ?_)
    · rw [e]; simp [cp]
    · rw [e]
    · rw [e]
    · rw [e]
    · rw [e]
      simp only
      rcases (Bool.eq_false_or_eq_true (x.p.cs.sorted && y.p.cs.sorted && !y.p.st.cPend)).symm with A | A
      · simp only [A, Bool.false_eq_true, ↓reduceIte]
        have hx : (x.p.cs.insertSysExact false x.p.nnc y.p.cs).sorted = false := by
          apply insertSysExact_sorted_false _ _ _ _ hrows
          cases hs : x.p.cs.sorted <;> cases hy : y.p.cs.sorted <;> cases hc : y.p.st.cPend <;> simp_all
        have hA : (x.p.cs.sorted && (y.p.cs.sorted && !y.p.st.cPend)) = false := by
          rw [← Bool.and_assoc]; exact A
        rw [hA]
        rcases refineBy_sorted (x.p.cs.insertSys y.p.cs.rows) (x.p.cs.insertSysExact false x.p.nnc y.p.cs) with q | q
        · rw [q]; rfl
        · rw [q]; exact hx
      · simp only [A, ↓reduceIte]
        have hA : (x.p.cs.sorted && (y.p.cs.sorted && !y.p.st.cPend)) = true := by
          rw [← Bool.and_assoc]; exact A
        have hxs : x.p.cs.sorted = true := by
          cases hs : x.p.cs.sorted <;> simp_all
        rw [hA]
        rcases refineBy_sorted (x.p.cs.mergeRowsAssign y.p.cs.rows)
          (x.p.cs.mergeRowsExact false x.p.nnc y.p.cs.rows) with q | q
        · rw [q]; rfl
        · rw [q]; exact hxs
  · simp only [cp, ↓reduceIte] at e
    refine insertCons_sim_of_facts x _ s _ m ?_ ?_ ?_ ?_ (fun _ => ?_) (fun hh => (by rw [cp] at hh; cases hh))
    · rw [e]; simp [cp]
    · rw [e]
    · rw [e]
    · rw [e]
    · rw [e]
      simp only
      rcases refineBy_sorted (x.p.cs.insertPendingSys y.p.cs.rows) (x.p.cs.insertPendingSys y.p.cs.rows) with q | q <;>
        rw [q] <;> rfl

structure IaGhost (x y : FPoly) (gx gy : Gh) (s t : PState) : Prop where
  px : x.p.st.empty = false → y.p.st.empty = false → x.p.dim ≠ 0 → NeedConsGhost x gx s
  py : x.p.st.empty = false → y.p.st.empty = false → x.p.dim ≠ 0 → NeedConsGhost y gy t

/-- `x.intersection_assign(y)`, `y` another object: both objects afterwards -/
theorem intersectionAssign_sim (x y : FPoly) (s t : PState) (gx gy : Gh) (hx : Sim x s) (hy : Sim y t)
    (hlx : x.p.st.gPend = true → x.p.st.cUp = true) (hly : y.p.st.gPend = true → y.p.st.cUp = true)
    (hrows : y.needCons.p.cs.rows.isEmpty = false)
    (hpend : y.needCons.p.st.cPend = true → y.needCons.p.cs.firstPending < y.needCons.p.cs.rows.length)
    (hg : IaGhost x y gx gy s t) :
    Sim (x.intersectionAssign y).1 (PPLV.PolyStatus.intersectionAssign gx gy { x := s, y := t, al := false }).x
    ∧ Sim (x.intersectionAssign y).2 (PPLV.PolyStatus.intersectionAssign gx gy { x := s, y := t, al := false }).y := by
  have hx' := hx
  sim_hyps hx'
  have hty : t.b .em = y.p.st.empty := hy.em
  rcases (Bool.eq_false_or_eq_true x.p.st.empty).symm with a | a
  swap
  · have e1 : x.intersectionAssign y = (x, y) := by
      simp [FPoly.intersectionAssign, Poly.intersection_assign, a, FPoly.liftO, lift_self]
    have e2 : PPLV.PolyStatus.intersectionAssign gx gy { x := s, y := t, al := false }
        = { x := s, y := t, al := false } := by
      simp [PPLV.PolyStatus.intersectionAssign, pst, h1, a]
    rw [e1, e2]; exact ⟨hx, hy⟩
  rcases (Bool.eq_false_or_eq_true y.p.st.empty).symm with b | b
  swap
  · have e1 : x.intersectionAssign y = (⟨x.p.setEmpty, BitMat.clear, BitMat.clear⟩, y) := by
      simp [FPoly.intersectionAssign, Poly.intersection_assign, a, b, FPoly.liftO, FPoly.lift, Poly.setEmpty,
        Status.setEmpty]
    have e2 : PPLV.PolyStatus.intersectionAssign gx gy { x := s, y := t, al := false }
        = { x := PPLV.PolyStatus.setEmpty (PState.setChanges true s), y := t, al := false } := by
      simp [PPLV.PolyStatus.intersectionAssign, Two.gy, Two.onX, PState.em, h1, a, hty, b]
    rw [e1, e2]
    refine ⟨?_, hy⟩
    simp [Sim, pst, Poly.setEmpty, Status.setEmpty, Sys.clear, *]
  by_cases d : x.p.dim = 0
  · have e1 : x.intersectionAssign y = (x, y) := by
      simp [FPoly.intersectionAssign, Poly.intersection_assign, a, b, d, FPoly.liftO, lift_self]
    have e2 : PPLV.PolyStatus.intersectionAssign gx gy { x := s, y := t, al := false }
        = { x := s, y := t, al := false } := by
      simp [PPLV.PolyStatus.intersectionAssign, Two.gy, PState.em, h1, a, hty, b, h10, d]
    rw [e1, e2]; exact ⟨hx, hy⟩
  · have d' : (x.p.dim == 0) = false := by simpa using d
    have e1 : x.intersectionAssign y = (x.needCons.iaTail y.needCons, y.needCons) := by
      unfold FPoly.intersectionAssign
      simp only [FPoly.st, FPoly.dim, a, b, d', Bool.or_self, Bool.false_eq_true, ↓reduceIte]
      rfl
    have ex : (PPLV.PolyStatus.intersectionAssign gx gy { x := s, y := t, al := false }).x
        = PPLV.PolyStatus.insertCons
            { gx with keep := (PPLV.PolyStatus.needCons gy t).csS && !(PPLV.PolyStatus.needCons gy t).cpend }
            (PPLV.PolyStatus.needCons gx s) := by
      simp [PPLV.PolyStatus.intersectionAssign, Two.gy, Two.onX, Two.onY, PState.em, h1, a, hty, b, h10, d]
    have ey : (PPLV.PolyStatus.intersectionAssign gx gy { x := s, y := t, al := false }).y
        = PPLV.PolyStatus.needCons gy t := by
      simp [PPLV.PolyStatus.intersectionAssign, Two.gy, Two.onX, Two.onY, PState.em, h1, a, hty, b, h10, d]
    rw [e1, ex, ey]
    have mx := needCons_sim x s gx hx (hg.px a b d)
    have my := needCons_sim y t gy hy (hg.py a b d)
    obtain ⟨kx1, kx2, _⟩ := needCons_keeps x
    obtain ⟨ky1, _, _⟩ := needCons_keeps y
    obtain ⟨rx1, rx2, _⟩ := needCons_ready x hlx
    obtain ⟨ry1, ry2, _⟩ := needCons_ready y hly
    exact ⟨iaTail_sim _ _ _ _ _ gx mx (kx1.trans a) (ky1.trans b) (by rw [kx2]; exact d) rx1 rx2 ry1 ry2 hrows hpend
      my.csS my.cpend, my⟩

end PPLV.PolyFull
