import PPLV.PolyFull.ProofsOps2

/-!
# Integration stage — `unconstrain` refines `RefPoly.unconstrain`
-/
namespace PPLV.PolyFull
open PPLV.Lin PPLV.PolyOps

theorem unconstrain_pend (p : Poly) (vars : List Nat) (hv : vars.isEmpty = false)
    (he : p.st.empty = false) (hc : p.st.cPend = false) (hg : p.st.gUp = true)
    (hcp : p.st.canPend = true) :
    p.unconstrain vars =
      some { p with gs := p.gs.insertPendingSys (vars.map (lineRow p.dim)), st := { p.st with gPend := true } } := by
  simp [Poly.unconstrain, hv, he, hc, hg, hcp]

theorem unconstrain_nonpend (p : Poly) (vars : List Nat) (hv : vars.isEmpty = false)
    (he : p.st.empty = false) (hc : p.st.cPend = false) (hg : p.st.gUp = true)
    (hcp : p.st.canPend = false) :
    p.unconstrain vars =
      some { p with gs := p.gs.insertSys (vars.map (lineRow p.dim)),
                    st := ({ p.st with gMin := false }).clearCUp } := by
  simp [Poly.unconstrain, hv, he, hc, hg, hcp]

theorem unconstrain_of_empty (p : Poly) (vars : List Nat) (he : p.st.empty = true) :
    p.unconstrain vars = some p := by
  unfold Poly.unconstrain
  split
  · rfl
  · rfl

theorem foldl_insertRow_fp (gen nnc : Bool) (ls : List Row) (s : Sys)
    (h : s.firstPending = s.rows.length) :
    (ls.foldl (fun s l => s.insertRow gen nnc l) s).firstPending =
      (ls.foldl (fun s l => s.insertRow gen nnc l) s).rows.length := by
  induction ls generalizing s with
  | nil => exact h
  | cons l ls ih => exact ih _ rfl

/-- the main branch of `unconstrain` on a prepared receiver -/
theorem unconstrain_main (x : FPoly) (S S' : Set Val) (vars : List Nat) (hv : vars.isEmpty = false)
    (hx : x.Inv S) (hex : x.p.st.empty = false) (hgx : x.p.st.gUp = true) (hcx : x.p.st.cPend = false)
    (hvars : ∀ v ∈ vars, v < x.p.dim)
    (hden : ∀ q, x.p.unconstrain vars = some q → q.Denotes S') :
    ({ x.liftO (x.p.unconstrain vars) with
        p := { (x.liftO (x.p.unconstrain vars)).p with
          gs := (x.liftO (x.p.unconstrain vars)).p.gs.refineBy
            (if x.st.canPend then x.p.gs.insertPendingSys (vars.map (lineRow x.dim))
             else (vars.map (lineRow x.dim)).foldl (fun s l => s.insertRow true x.nnc l) x.p.gs) } } : FPoly).Inv S' ∧
    (x.liftO (x.p.unconstrain vars)).p.nnc = x.p.nnc ∧
    (x.liftO (x.p.unconstrain vars)).p.dim = x.p.dim := by
  have hwfq : ∀ q, x.p.unconstrain vars = some q → q.WF := fun q h =>
    unconstrain_rows_wf x.p q vars hx.wf hvars
      (fun h => (legal_canPend_up hx.legal h).1) (legal_gPend_canPend hx.legal) h
  cases hcp : x.p.st.canPend
  · have hq := unconstrain_nonpend x.p vars hv hex hcx hgx hcp
    rw [hq]
    have hI := Inv_nonpendG x S S' _ hx hex hgx hcp (insertSys_fp _ _) (hwfq _ hq) (hden _ hq)
    refine ⟨Inv_liftO_refineG x _ S' _ (by simp [Status.clearCUp, hex]) hI ?_ ?_, ?_, ?_⟩
    · intro _ _
      unfold FPoly.st
      rw [hcp]
      simp only [Bool.false_eq_true, if_false]
      have := foldl_insertRow_fp true x.nnc (vars.map (lineRow x.dim)) x.p.gs
        ((hx.fpG hex hgx).2 (legal_not_canPend hx.legal hcp).2)
      exact ⟨le_of_eq this, fun _ => this⟩
    · intro _ h
      simp [Status.canPend, Status.clearCUp] at h
    · show (x.lift _).p.nnc = _
      rw [lift_p]
    · show (x.lift _).p.dim = _
      rw [lift_p]
  · have hq := unconstrain_pend x.p vars hv hex hcx hgx hcp
    rw [hq]
    have hI := Inv_pendG x S S' (vars.map (lineRow x.p.dim)) hx hex hgx hcx hcp (hwfq _ hq) (hden _ hq)
    refine ⟨Inv_liftO_refineG x _ S' _ hex hI ?_ ?_, ?_, ?_⟩
    · intro h1 h2
      unfold FPoly.st
      rw [hcp]
      simp only [if_true]
      exact hI.fpG h1 h2
    · intro _ _
      unfold FPoly.st
      rw [hcp]
      simp only [if_true]
      rfl
    · show (x.lift _).p.nnc = _
      rw [lift_p]
    · show (x.lift _).p.dim = _
      rw [lift_p]

/-- **`Polyhedron::unconstrain(vars)`, the whole object** (preparation by `needGens`, the row-level
    operator, the exact row order): the receiver denotes `RefPoly.unconstrain`, keeps the invariant
    and its shape. -/
theorem unconstrain_refines (G : GlueFacts) (x : FPoly) (ref : RefPoly) (vars : List Nat)
    (hn : ref.n = x.p.dim) (hwf : WF ref.n ref.cs) (hvars : ∀ v ∈ vars, v < x.p.dim)
    (hx : x.Inv (sem ref.cs)) :
    (x.unconstrain vars).Inv (sem (ref.unconstrain vars).cs) ∧ x.SameShape (x.unconstrain vars) := by
  unfold FPoly.unconstrain
  by_cases hc : (vars.isEmpty || x.st.empty) = true
  · rw [if_pos hc]
    have h : x.p.unconstrain vars = some x.p := by
      rcases Bool.or_eq_true _ _ |>.mp hc with h | h
      · unfold Poly.unconstrain; rw [if_pos h]
      · exact unconstrain_of_empty _ _ h
    exact ⟨hx.change (unconstrain_rows_correct x.p x.p vars ref hn hwf hx.wf hvars hx.den h), rfl, rfl⟩
  · rw [if_neg hc]
    simp only [Bool.or_eq_true, not_or, Bool.not_eq_true] at hc
    obtain ⟨hv, hex⟩ := hc
    have hd : 0 < x.p.dim := by
      cases vars with
      | nil => simp at hv
      | cons v vs => exact Nat.lt_of_le_of_lt (Nat.zero_le v) (hvars v (List.mem_cons_self ..))
    obtain ⟨hs, hi, h1, h0⟩ := G.needGens x _ hx hex hd
    have hvars1 : ∀ v ∈ vars, v < x.needGens.2.p.dim := by rw [hs.2]; exact hvars
    have hn1 : ref.n = x.needGens.2.p.dim := by rw [hs.2]; exact hn
    cases hb : x.needGens.1
    · obtain ⟨he1, hg1, hc1⟩ := h0 hb
      simp only [hb, Bool.false_eq_true, if_false]
      obtain ⟨a, b, c⟩ := unconstrain_main x.needGens.2 _ (sem (ref.unconstrain vars).cs) vars hv hi he1 hg1 hc1
        hvars1 (fun q h => unconstrain_rows_correct _ q vars ref hn1 hwf hi.wf hvars1 hi.den h)
      exact ⟨a, b.trans hs.1, c.trans hs.2⟩
    · obtain ⟨hS, he1⟩ := h1 hb
      simp only [hb, if_true]
      have hd := unconstrain_rows_correct _ _ vars ref hn1 hwf hi.wf hvars1 hi.den
        (unconstrain_of_empty x.needGens.2.p vars he1)
      exact ⟨hi.change hd, hs⟩

end PPLV.PolyFull
