import PPLV.PolyFull.ProofsOps6e

/-!
# Integration stage — `add_space_dimensions_and_embed` refines `RefPoly.addDimsEmbed`
-/
namespace PPLV.PolyFull
open PPLV.Lin PPLV.PolyOps
open PPLV.Conv (holdsAll holds)

/-- the engine clause is vacuous for an object that does not hold both descriptions -/
theorem EngClause_of_not_both (X : FPoly) {S : Set Val} (h0 : X.InvNoEng S)
    (h : X.p.st.cUp = false ∨ X.p.st.gUp = false) : X.EngClause := by
  intro _ hcp
  obtain ⟨hc, hg⟩ := legal_canPend_up h0.legal hcp
  rcases h with h | h
  · rw [hc] at h; cases h
  · rw [hg] at h; cases h

/-- the result of the row-level operator on a non-empty polyhedron of positive dimension, in one form -/
def embedPoly (p : Poly) (m : Nat) : Poly :=
  { p with dim := p.dim + m,
           st := { p.st with satC := p.st.satC || (p.st.cUp && p.st.gUp) },
           cs := if p.st.cUp = true then p.cs.addZeroCols m else p.cs,
           gs := if p.st.gUp = true then p.gs.addUniverseRows p.nnc p.dim m else p.gs }

theorem embed_eq (p : Poly) (m : Nat) (hm : m ≠ 0) (hem : p.st.empty = false) (hd : p.dim ≠ 0) (hp : p.WF) :
    p.add_space_dimensions_and_embed m = embedPoly p m := by
  have hup := hp.some_up hem (Nat.pos_of_ne_zero hd)
  obtain ⟨nnc, dim, ⟨e, cu, gu, cm, gm, sc, sg, cp, gp⟩, cs, gs⟩ := p
  simp only at hem hd hup
  subst hem
  unfold Poly.add_space_dimensions_and_embed embedPoly
  cases cu <;> cases gu <;> simp_all

set_option maxRecDepth 4000 in
theorem legalZ_embed : ∀ (e cu gu cm gm sc sg cp gp : Bool),
    legalZ ⟨e, cu, gu, cm, gm, sc, sg, cp, gp⟩ false = true →
    legalZ ⟨e, cu, gu, cm, gm, sc || (cu && gu), sg, cp, gp⟩ false = true := by
  decide

theorem legal_embed {s : Status} {d d' : Nat} (hd : d ≠ 0) (hd' : d' ≠ 0) (h : statusLegalB s d = true) :
    statusLegalB { s with satC := s.satC || (s.cUp && s.gUp) } d' = true := by
  obtain ⟨e, cu, gu, cm, gm, sc, sg, cp, gp⟩ := s
  rw [statusLegalB_eq, show (d == 0) = false by simpa using hd] at h
  rw [statusLegalB_eq, show (d' == 0) = false by simpa using hd']
  exact legalZ_embed _ _ _ _ _ _ _ _ _ h

theorem InvNoEng_embed (x : FPoly) (S S' : Set Val) (hx : x.Inv S) (m : Nat) (hm : 0 < m)
    (hem : x.p.st.empty = false) (hd : x.p.dim ≠ 0) (hden : (embedPoly x.p m).Denotes S') (a b : BitMat) :
    (⟨embedPoly x.p m, a, b⟩ : FPoly).InvNoEng S' := by
  refine ⟨⟨?_, ?_, ?_, hx.wf.pend_c, hx.wf.pend_g, hx.wf.pend_one,
      fun _ _ => hx.wf.some_up hem (Nat.pos_of_ne_zero hd), ?_⟩, hden, ?_, ?_, ?_, ?_, ?_, ?_⟩
  · intro _ hc r hr
    have hc' : x.p.st.cUp = true := hc
    have hr' : r ∈ (if x.p.st.cUp = true then x.p.cs.addZeroCols m else x.p.cs).rows := hr
    rw [if_pos hc'] at hr'
    obtain ⟨r0, hr0, rfl⟩ := List.mem_map.mp hr'
    show (r0.cf ++ List.replicate m 0).length = x.p.dim + m
    rw [List.length_append, List.length_replicate, hx.wf.cs_len hem hc' r0 hr0]
  · intro _ hg r hr
    have hg' : x.p.st.gUp = true := hg
    have hr' : r ∈ (if x.p.st.gUp = true then x.p.gs.addUniverseRows x.p.nnc x.p.dim m else x.p.gs).rows := hr
    rw [if_pos hg'] at hr'
    exact addUniverseRows_genWF _ _ _ _ hm (hx.wf.gs_wf hem hg') r hr'
  · intro _ hg
    have hg' : x.p.st.gUp = true := hg
    show ∃ r ∈ (if x.p.st.gUp = true then x.p.gs.addUniverseRows x.p.nnc x.p.dim m else x.p.gs).rows, r.isPoint x.p.nnc
    rw [if_pos hg']
    exact addUniverseRows_pt _ _ _ _ hm (hx.wf.gs_pt hem hg')
  · intro h
    have : x.p.dim + m = 0 := h
    omega
  · exact legal_embed hd (by show x.p.dim + m ≠ 0; omega) hx.legal
  · intro _ hc
    have hc' : x.p.st.cUp = true := hc
    show (if x.p.st.cUp = true then x.p.cs.addZeroCols m else x.p.cs).firstPending ≤
        (if x.p.st.cUp = true then x.p.cs.addZeroCols m else x.p.cs).rows.length ∧
      (x.p.st.cPend = false → (if x.p.st.cUp = true then x.p.cs.addZeroCols m else x.p.cs).firstPending =
        (if x.p.st.cUp = true then x.p.cs.addZeroCols m else x.p.cs).rows.length)
    rw [if_pos hc']
    show x.p.cs.firstPending ≤ (x.p.cs.rows.map _).length ∧ (_ → x.p.cs.firstPending = (x.p.cs.rows.map _).length)
    rw [List.length_map]
    exact hx.fpC hem hc'
  · intro _ hg
    have hg' : x.p.st.gUp = true := hg
    show (if x.p.st.gUp = true then x.p.gs.addUniverseRows x.p.nnc x.p.dim m else x.p.gs).firstPending ≤
        (if x.p.st.gUp = true then x.p.gs.addUniverseRows x.p.nnc x.p.dim m else x.p.gs).rows.length ∧
      (x.p.st.gPend = false → (if x.p.st.gUp = true then x.p.gs.addUniverseRows x.p.nnc x.p.dim m else x.p.gs).firstPending =
        (if x.p.st.gUp = true then x.p.gs.addUniverseRows x.p.nnc x.p.dim m else x.p.gs).rows.length)
    rw [if_pos hg', (addUniverseRows_fp _ _ _ _ hm).1, (addUniverseRows_fp _ _ _ _ hm).2]
    have := hx.fpG hem hg'
    exact ⟨by omega, fun h => by have := this.2 h; omega⟩
  · intro _ hc
    have hc' : x.p.st.cUp = true := hc
    show LowLevel x.p.nnc (x.p.dim + m) (if x.p.st.cUp = true then x.p.cs.addZeroCols m else x.p.cs).rows
    rw [if_pos hc']
    exact LowLevel_addZeroCols _ _ _ _ (hx.wf.cs_len hem hc') (hx.low hem hc')
  · intro _ hcp
    have hcp' : x.p.st.cPend = true := hcp
    obtain ⟨hc', hg'⟩ := hx.wf.pend_c hcp'
    show genSem x.p.nnc (x.p.dim + m) (if x.p.st.gUp = true then x.p.gs.addUniverseRows x.p.nnc x.p.dim m else x.p.gs).rows =
      conSem x.p.nnc ((if x.p.st.cUp = true then x.p.cs.addZeroCols m else x.p.cs).rows.take
        (if x.p.st.cUp = true then x.p.cs.addZeroCols m else x.p.cs).firstPending)
    rw [if_pos hc', if_pos hg', genSem_addUniverseRows _ _ _ _ hm (hx.wf.gs_wf hem hg')]
    show _ = conSem x.p.nnc ((x.p.cs.rows.map (Row.addZeroCols m)).take x.p.cs.firstPending)
    rw [← List.map_take, conSem_addZeroCols]
    exact hx.denNPc hem hcp'
  · intro _ hgp
    have hgp' : x.p.st.gPend = true := hgp
    obtain ⟨hc', hg'⟩ := hx.wf.pend_g hgp'
    show conSem x.p.nnc (if x.p.st.cUp = true then x.p.cs.addZeroCols m else x.p.cs).rows =
      genSem x.p.nnc (x.p.dim + m) ((if x.p.st.gUp = true then x.p.gs.addUniverseRows x.p.nnc x.p.dim m else x.p.gs).rows.take
        (if x.p.st.gUp = true then x.p.gs.addUniverseRows x.p.nnc x.p.dim m else x.p.gs).firstPending)
    rw [if_pos hc', if_pos hg', addUniverseRows_take _ _ _ _ hm,
      genSem_addUniverseRows _ _ _ _ hm (fun r hr => hx.wf.gs_wf hem hg' r (List.mem_of_mem_take hr))]
    show conSem x.p.nnc (x.p.cs.rows.map (Row.addZeroCols m)) = _
    rw [conSem_addZeroCols]
    exact hx.denNPg hem hgp'

theorem embed_empty_eq (p : Poly) (m : Nat) (hm : m ≠ 0) (hem : p.st.empty = true) :
    p.add_space_dimensions_and_embed m = { p with dim := p.dim + m, cs := Sys.clear } := by
  simp [Poly.add_space_dimensions_and_embed, hm, hem]

/-- the fresh universe polyhedron a zero-dimensional universe is swapped with -/
def embedZeroPoly (p : Poly) (m : Nat) : Poly :=
  { p with dim := m, st := { Status.zeroDimUniv with cUp := true, cMin := true },
           cs := ⟨lowLevelCons p.nnc m, (lowLevelCons p.nnc m).length, true⟩, gs := Sys.clear }

theorem embed_zero_eq (p : Poly) (m : Nat) (hm : m ≠ 0) (hem : p.st.empty = false) (hd : p.dim = 0) :
    p.add_space_dimensions_and_embed m =
      embedZeroPoly p m := by
  simp [Poly.add_space_dimensions_and_embed, embedZeroPoly, hm, hem, hd]

theorem Inv_embed_empty (x : FPoly) (S S' : Set Val) (hx : x.Inv S) (m : Nat) (hm : m ≠ 0)
    (hem : x.p.st.empty = true)
    (hden : ({ x.p with dim := x.p.dim + m, cs := Sys.clear } : Poly).Denotes S') :
    ({ x with p := { x.p with dim := x.p.dim + m, cs := Sys.clear } } : FPoly).Inv S' := by
  refine Inv_of_empty _ _ hem ⟨fun h => ?_, fun h => ?_, fun h => ?_, hx.wf.pend_c, hx.wf.pend_g, hx.wf.pend_one,
    fun h => ?_, fun h => ?_⟩ hden (legal_empty_any _ hx.legal hem)
  · rw [show x.p.st.empty = true from hem] at h; cases h
  · rw [show x.p.st.empty = true from hem] at h; cases h
  · rw [show x.p.st.empty = true from hem] at h; cases h
  · rw [show x.p.st.empty = true from hem] at h; cases h
  · have : x.p.dim + m = 0 := h
    omega

theorem Inv_embed_zero (x : FPoly) (S' : Set Val) (m : Nat) (hm : m ≠ 0)
    (hden : (embedZeroPoly x.p m).Denotes S') :
    ({ x with p := embedZeroPoly x.p m } : FPoly).Inv S' := by
  refine ⟨⟨fun _ _ r hr => ?_, fun _ h => (by cases h), fun _ h => (by cases h), fun h => (by cases h),
      fun h => (by cases h), fun h => (by cases h.1), fun _ _ => Or.inl rfl, fun h => absurd h hm⟩, hden, ?_,
    fun _ _ => ⟨le_of_eq rfl, fun _ => rfl⟩, fun _ h => (by cases h), fun _ _ => LowLevel_lowLevelCons _ _,
    fun _ h => (by cases h), fun _ h => (by cases h), fun _ h => (by cases h)⟩
  · have hr' : r ∈ lowLevelCons x.p.nnc m := hr
    unfold lowLevelCons at hr'
    show r.cf.length = m
    cases hnc : x.p.nnc <;> rw [hnc] at hr'
    · simp only [Bool.false_eq_true, if_false, List.mem_singleton] at hr'
      subst hr'; simp
    · simp only [if_true, List.mem_cons, List.not_mem_nil, or_false] at hr'
      rcases hr' with rfl | rfl <;> simp
  · show statusLegalB _ m = true
    rw [statusLegalB_eq, show (m == 0) = false by simpa using hm]; rfl

/-- the proof behind the two theorems below: the engine clause of the result is asked for only
    when both descriptions of the receiver are up to date -/
theorem addSpaceDimensionsAndEmbed_core (x : FPoly) (ref : RefPoly) (m : Nat)
    (hn : ref.n = x.p.dim) (hnnc : ref.nnc = x.p.nnc) (hwf : WF ref.n ref.cs)
    (hx : x.Inv (sem ref.cs))
    (hEng : x.p.st.cUp = true → x.p.st.gUp = true → (x.addSpaceDimensionsAndEmbed m).p.st.empty = false →
      (x.addSpaceDimensionsAndEmbed m).p.st.canPend = true →
      EnginePair (x.addSpaceDimensionsAndEmbed m).p.nnc (x.addSpaceDimensionsAndEmbed m).p.dim
        (x.addSpaceDimensionsAndEmbed m).npC (x.addSpaceDimensionsAndEmbed m).npG
        (x.addSpaceDimensionsAndEmbed m).p.st.satC (x.addSpaceDimensionsAndEmbed m).p.st.satG
        (x.addSpaceDimensionsAndEmbed m).satC (x.addSpaceDimensionsAndEmbed m).satG) :
    (x.addSpaceDimensionsAndEmbed m).Inv (sem (ref.addDimsEmbed m).cs) ∧
    (x.addSpaceDimensionsAndEmbed m).p.nnc = x.p.nnc ∧
    (x.addSpaceDimensionsAndEmbed m).p.dim = x.p.dim + m := by
  have hD := add_space_dimensions_and_embed_rows_correct x.p m ref hn hnnc hwf hx.wf hx.den
  revert hEng
  unfold FPoly.addSpaceDimensionsAndEmbed FPoly.st FPoly.dim FPoly.nnc
  by_cases hm : m = 0
  · subst hm
    intro _
    exact ⟨hx, rfl, rfl⟩
  have hm0 : (m == 0) = false := by simpa using hm
  have hmpos : 0 < m := Nat.pos_of_ne_zero hm
  rw [hm0]
  simp only [Bool.false_eq_true, if_false]
  cases hem : x.p.st.empty
  · by_cases hd : x.p.dim = 0
    · have hd0 : (x.p.dim == 0) = true := by simpa using hd
      rw [hd0]
      simp only [Bool.or_true, if_true]
      intro _
      rw [embed_zero_eq x.p m hm hem hd] at hD ⊢
      exact ⟨Inv_embed_zero x _ m hm hD, rfl, by show m = x.p.dim + m; omega⟩
    · have hd0 : (x.p.dim == 0) = false := by simpa using hd
      rw [hd0]
      simp only [Bool.or_self, Bool.false_eq_true, if_false]
      rw [embed_eq x.p m hm hem hd hx.wf] at hD ⊢
      have hfpG : ∀ a b, (⟨embedPoly x.p m, a, b⟩ : FPoly).p.st.empty = false →
          (⟨embedPoly x.p m, a, b⟩ : FPoly).p.st.gUp = true →
          (FPoly.addUniverseRowsExact true x.p.nnc x.p.dim m x.p.gs).firstPending ≤
            (FPoly.addUniverseRowsExact true x.p.nnc x.p.dim m x.p.gs).rows.length ∧
          ((⟨embedPoly x.p m, a, b⟩ : FPoly).p.st.gPend = false →
            (FPoly.addUniverseRowsExact true x.p.nnc x.p.dim m x.p.gs).firstPending =
              (FPoly.addUniverseRowsExact true x.p.nnc x.p.dim m x.p.gs).rows.length) := by
        intro a b _ hg
        have hg' : x.p.st.gUp = true := hg
        rw [(addUniverseRowsExact_fp _ _ _ _ _ hmpos).1, (addUniverseRowsExact_fp _ _ _ _ _ hmpos).2]
        have := hx.fpG hem hg'
        exact ⟨by omega, fun h => by have := this.2 h; omega⟩
      cases hcu : x.p.st.cUp
      · simp only [Bool.false_and, Bool.false_eq_true, if_false]
        intro _
        have h0 := InvNoEng_refineG _ _ _ (InvNoEng_embed x _ _ hx m hmpos hem hd hD x.satC x.satG) (hfpG _ _)
        exact ⟨h0.toInv (EngClause_of_not_both _ h0 (Or.inl hcu)), rfl, rfl⟩
      · cases hgu : x.p.st.gUp
        · simp only [Bool.and_false, Bool.false_eq_true, if_false, if_true]
          intro _
          have h0 := InvNoEng_embed x _ _ hx m hmpos hem hd hD x.satC x.satG
          exact ⟨h0.toInv (EngClause_of_not_both _ h0 (Or.inr hgu)), rfl, rfl⟩
        · simp only [Bool.and_self, if_true]
          intro hEng
          have h0 := InvNoEng_embed x _ _ hx m hmpos hem hd hD
            (FPoly.satAddDims (if (!x.p.st.satC) = true then x.updateSatC else x).satC m).1
            (FPoly.satAddDims (if (!x.p.st.satC) = true then x.updateSatC else x).satC m).2
          exact ⟨(InvNoEng_refineG _ _ _ h0 (hfpG _ _)).toInv (hEng trivial trivial), rfl, rfl⟩
  · simp only [Bool.true_or, if_true]
    intro _
    rw [embed_empty_eq x.p m hm hem] at hD ⊢
    exact ⟨Inv_embed_empty x _ _ hx m hm hem hD, rfl, rfl⟩

/-- **`Polyhedron::add_space_dimensions_and_embed(m)`, the whole object**: the receiver denotes
    `RefPoly.addDimsEmbed` and keeps the invariant.  PARTIAL: `hEng` assumes the clause `eng` of
    `FPoly.Inv` for the result — needed only when both descriptions were up to date (the constraint rows
    get `m` zero columns, `m` lines are put in front of the generators, `m` empty rows in front of
    `sat_c`, `sat_g` is its transpose, and `update_sat_c()` may have run, of which `GlueFacts` says
    nothing); in every other case the clause is vacuous and `hEng` is not used.  Every other clause of
    the invariant (well-formedness, denotation, status legality, pending indices, low-level
    constraints, the two pending-row clauses) is proved. -/
theorem addSpaceDimensionsAndEmbed_refines_partial (_G : GlueFacts) (x : FPoly) (ref : RefPoly) (m : Nat)
    (hn : ref.n = x.p.dim) (hnnc : ref.nnc = x.p.nnc) (hwf : WF ref.n ref.cs)
    (hx : x.Inv (sem ref.cs))
    (hEng : (x.addSpaceDimensionsAndEmbed m).p.st.empty = false →
      (x.addSpaceDimensionsAndEmbed m).p.st.canPend = true →
      EnginePair (x.addSpaceDimensionsAndEmbed m).p.nnc (x.addSpaceDimensionsAndEmbed m).p.dim
        (x.addSpaceDimensionsAndEmbed m).npC (x.addSpaceDimensionsAndEmbed m).npG
        (x.addSpaceDimensionsAndEmbed m).p.st.satC (x.addSpaceDimensionsAndEmbed m).p.st.satG
        (x.addSpaceDimensionsAndEmbed m).satC (x.addSpaceDimensionsAndEmbed m).satG) :
    (x.addSpaceDimensionsAndEmbed m).Inv (sem (ref.addDimsEmbed m).cs) ∧
    (x.addSpaceDimensionsAndEmbed m).p.nnc = x.p.nnc ∧
    (x.addSpaceDimensionsAndEmbed m).p.dim = x.p.dim + m :=
  addSpaceDimensionsAndEmbed_core x ref m hn hnnc hwf hx (fun _ _ => hEng)

/-- the same, FULLY proved (no `hEng`), for a receiver that does not hold both descriptions (this
    includes a receiver marked empty and the zero-dimensional universe) -/
theorem addSpaceDimensionsAndEmbed_refines_notBothUp (_G : GlueFacts) (x : FPoly) (ref : RefPoly) (m : Nat)
    (hn : ref.n = x.p.dim) (hnnc : ref.nnc = x.p.nnc) (hwf : WF ref.n ref.cs)
    (hx : x.Inv (sem ref.cs)) (hnb : (x.p.st.cUp && x.p.st.gUp) = false) :
    (x.addSpaceDimensionsAndEmbed m).Inv (sem (ref.addDimsEmbed m).cs) ∧
    (x.addSpaceDimensionsAndEmbed m).p.nnc = x.p.nnc ∧
    (x.addSpaceDimensionsAndEmbed m).p.dim = x.p.dim + m :=
  addSpaceDimensionsAndEmbed_core x ref m hn hnnc hwf hx (fun hc hg => by rw [hc, hg] at hnb; cases hnb)

end PPLV.PolyFull
