import PPLV.PolyFull.ProofsStatus4b

/-!
# Integration stage — the observers of the full model against `PolyStatus/Ops.lean`

`constraints()`, `generators()`, `minimized_constraints()`, `minimized_generators()` (closed topology).
Data facts used (hypotheses on the full state, all established by `set_empty()` and kept by the methods):
a polyhedron marked empty has `sorted` systems (the abstract model re-installs `sorted = true` on the
empty branch of `constraints()` / `generators()`; the full model only when `con_sys` has no rows).
-/
namespace PPLV.PolyFull
open PPLV.PolyOps
open PPLV.PolyStatus (PState Gh)

attribute [local simp] FPoly.st FPoly.nnc FPoly.dim FPoly.withSt FPoly.withCs FPoly.withGs

/-! ## what the helpers leave when they answer "empty" -/

theorem processPendingConstraints_false (x : FPoly) (h : x.processPendingConstraints.1 = false) :
    x.processPendingConstraints.2.p.gs = Sys.clear ∧ x.processPendingConstraints.2.p.cs = Sys.clear
    ∧ x.processPendingConstraints.2.p.st = Status.setEmpty := by
  rw [FPoly.processPendingConstraints_eq] at h ⊢
  unfold FPoly.ppcFin at h ⊢
  generalize x.ppcPrep.ppcNoPend = np at *
  generalize x.ppcPrep.ppcOut = o at *
  cases np <;> rcases (Bool.eq_false_or_eq_true o.empty).symm with b | b <;>
    simp_all [FPoly.setEmpty, Poly.setEmpty]

theorem updateGenerators_false (x : FPoly) (h : x.updateGenerators.1 = false) :
    x.updateGenerators.2.p.gs = Sys.clear ∧ x.updateGenerators.2.p.cs = Sys.clear
    ∧ x.updateGenerators.2.p.st = Status.setEmpty := by
  unfold FPoly.updateGenerators at h ⊢
  generalize FPoly.engineMinimize true x.nnc x.dim x.p.cs x.satG = o at *
  rcases (Bool.eq_false_or_eq_true o.empty).symm with b | b <;> simp_all [FPoly.setEmpty, Poly.setEmpty]

/-- `needGens` found the polyhedron empty: it went through `set_empty()` -/
theorem needGens_found (x : FPoly) (h : x.needGens.1 = true) :
    x.needGens.2.p.gs = Sys.clear ∧ x.needGens.2.p.cs = Sys.clear ∧ x.needGens.2.p.st = Status.setEmpty := by
  rcases (Bool.eq_false_or_eq_true x.p.st.cPend).symm with c | c
  · rcases (Bool.eq_false_or_eq_true x.p.st.gUp).symm with d | d
    · have e1 : x.needGens = (!x.updateGenerators.1, x.updateGenerators.2) := by simp [FPoly.needGens, c, d]
      rw [e1] at h ⊢
      exact updateGenerators_false x (by simpa using h)
    · have e1 : x.needGens = (false, x) := by simp [FPoly.needGens, c, d]
      rw [e1] at h; cases h
  · rcases (Bool.eq_false_or_eq_true x.processPendingConstraints.1).symm with r | r
    · have e1 : x.needGens = (true, x.processPendingConstraints.2) := by simp [FPoly.needGens, c, r]
      rw [e1]; exact processPendingConstraints_false x r
    · rcases (Bool.eq_false_or_eq_true x.processPendingConstraints.2.p.st.gUp).symm with d | d
      · have e1 : x.needGens = (!x.processPendingConstraints.2.updateGenerators.1,
            x.processPendingConstraints.2.updateGenerators.2) := by simp [FPoly.needGens, c, r, d]
        rw [e1] at h ⊢
        exact updateGenerators_false _ (by simpa using h)
      · have e1 : x.needGens = (false, x.processPendingConstraints.2) := by simp [FPoly.needGens, c, r, d]
        rw [e1] at h; cases h

theorem Sim.set_csS {y : FPoly} {t : PState} (h : Sim y t) (hs : y.p.cs.sorted = true) :
    Sim y ((t.set .csS true).set .rC true) := by
  sim_hyps h
  simp [Sim, pst, *]

theorem Sim.set_gsS {y : FPoly} {t : PState} (h : Sim y t) (hs : y.p.gs.sorted = true) :
    Sim y ((t.set .gsS true).set .rG true) := by
  sim_hyps h
  simp [Sim, pst, *]

/-! ## `constraints()` -/

theorem constraints_sim (x : FPoly) (s : PState) (g : Gh) (h : Sim x s)
    (hE : x.p.st.empty = true → x.p.cs.rows.isEmpty = false → x.p.cs.sorted = true)
    (hg : x.p.st.empty = false → x.p.dim ≠ 0 → NeedConsGhost x g s) :
    Sim x.constraints (PPLV.PolyStatus.constraints g s) := by
  have h' := h
  sim_hyps h'
  rcases (Bool.eq_false_or_eq_true x.p.st.empty).symm with a | a
  · by_cases b : x.p.dim = 0
    · simp [FPoly.constraints, PPLV.PolyStatus.constraints, pst, *]
    · have e1 : x.constraints = x.needCons := by simp [FPoly.constraints, a, b]
      have e2 : PPLV.PolyStatus.constraints g s = PPLV.PolyStatus.needCons g s := by
        simp [PPLV.PolyStatus.constraints, pst, *]
      rw [e1, e2]; exact needCons_sim x s g h (hg a b)
  · have e2 : PPLV.PolyStatus.constraints g s = (s.set .csS true).set .rC true := by
      simp [PPLV.PolyStatus.constraints, pst, *]
    rw [e2]
    rcases (Bool.eq_false_or_eq_true x.p.cs.rows.isEmpty).symm with b | b
    · have e1 : x.constraints = x := by simp [FPoly.constraints, a, b]
      rw [e1]; exact h.set_csS (hE a b)
    · have e1 : x.constraints = x.withCs ⟨[⟨true, -1, List.replicate x.dim 0, 0⟩], 1, true⟩ := by
        simp [FPoly.constraints, a, b]
      rw [e1]; simp [Sim, pst, *]

/-! ## `generators()` -/

theorem generators_sim (x : FPoly) (s : PState) (g : Gh) (h : Sim x s)
    (hE : x.p.st.empty = true → x.p.gs.sorted = true)
    (hl : x.p.st.cPend = true → x.p.st.gUp = true)
    (hg : x.p.st.empty = false → x.p.dim ≠ 0 → NeedGensGhost x g s) :
    Sim x.generators (PPLV.PolyStatus.generators g s) := by
  have h' := h
  sim_hyps h'
  rcases (Bool.eq_false_or_eq_true x.p.st.empty).symm with a | a
  · by_cases b : x.p.dim = 0
    · simp [FPoly.generators, PPLV.PolyStatus.generators, pst, *]
    · obtain ⟨m1, m2⟩ := needGens_sim x s g h hl (hg a b)
      rcases (Bool.eq_false_or_eq_true x.needGens.1).symm with r | r
      · rcases (Bool.eq_false_or_eq_true
          (x.needGens.2.p.nnc && x.needGens.2.p.st.gMin && !x.needGens.2.p.st.gPend)).symm with d | d
        · have e1 : x.generators = x.needGens.2 := by
            simp only [FPoly.generators, FPoly.st, FPoly.dim, FPoly.nnc, a, r, d]; simp [b]
          have e2 : PPLV.PolyStatus.generators g s = (PPLV.PolyStatus.needGens g s).2 := by
            simp only [PPLV.PolyStatus.generators, pst, h1, h10, a, m1, r, m2.nnc, m2.gmin, m2.gpend, d]; simp [b]
          rw [e1, e2]; exact m2
        · have e1 : x.generators = x.needGens.2.obtainSortedGenerators := by
            simp only [FPoly.generators, FPoly.st, FPoly.dim, FPoly.nnc, a, r, d]; simp [b]
          have e2 : PPLV.PolyStatus.generators g s
              = PPLV.PolyStatus.obtainSortedGenerators (PPLV.PolyStatus.needGens g s).2 := by
            simp only [PPLV.PolyStatus.generators, pst, h1, h10, a, m1, r, m2.nnc, m2.gmin, m2.gpend, d]; simp [b]
          rw [e1, e2]; exact obtainSortedGenerators_sim _ _ m2
      · have e1 : x.generators = x.needGens.2 := by
          simp only [FPoly.generators, FPoly.st, FPoly.dim, a, r]; simp [b]
        have e2 : PPLV.PolyStatus.generators g s
            = ((PPLV.PolyStatus.needGens g s).2.set .gsS true).set .rG true := by
          simp only [PPLV.PolyStatus.generators, pst, h1, h10, a, m1, r]; simp [b]
        rw [e1, e2]
        exact m2.set_gsS (by rw [(needGens_found x r).1]; rfl)
  · have e1 : x.generators = x := by simp [FPoly.generators, a]
    have e2 : PPLV.PolyStatus.generators g s = (s.set .gsS true).set .rG true := by
      simp [PPLV.PolyStatus.generators, pst, *]
    rw [e1, e2]; exact h.set_gsS (hE a)

end PPLV.PolyFull
