import PPLV.PolyFull.ProofsGlue9

/-!
# Integration stage — `Generated` does not depend on the order of the generators

`Generated` (Conv/Spec.lean) is stated with a coefficient LIST; here the pair form (`Gen2`), the
invariance under permutations, "a row generates itself", and `EnginePair` under a permutation of its
GENERATORS.
-/
namespace PPLV.PolyFull
open PPLV.Lin PPLV.PolyOps
open PPLV.Conv (LRow BRow Vec Sound SatCorrect holds holdsAll Generated scalarProduct)

/-- the index sum of `Generated` as a sum over pairs -/
theorem range_sum_pairs (ps : List (Int × LRow)) (c : Vec) :
    ((List.range ps.length).map fun i =>
        (ps.map Prod.fst).getD i 0 * scalarProduct c ((ps.map Prod.snd).getD i default).v).sum =
      (ps.map fun p => p.1 * scalarProduct c p.2.v).sum := by
  induction ps with
  | nil => simp
  | cons p ps ih =>
    rw [List.length_cons, List.range_succ_eq_map]
    simp only [List.map_cons, List.sum_cons, List.map_map, List.getD_cons_zero, Function.comp_def,
      Nat.succ_eq_add_one, List.getD_cons_succ]
    rw [ih]

/-- `Generated` with the coefficients attached to the rows -/
def Gen2 (gens : List LRow) (x : Vec) : Prop :=
  ∃ (den : Int) (ps : List (Int × LRow)), 0 < den ∧ ps.map Prod.snd = gens ∧
    (∀ p ∈ ps, p.2.le = false → 0 ≤ p.1) ∧
    ∀ c : Vec, den * scalarProduct c x = (ps.map fun p => p.1 * scalarProduct c p.2.v).sum

theorem gen2_of_generated (gens : List LRow) (x : Vec) (h : Generated gens x) : Gen2 gens x := by
  obtain ⟨den, coef, hden, hlen, hpos, heq⟩ := h
  have h1 : (coef.zip gens).map Prod.fst = coef := List.map_fst_zip (by omega)
  have h2 : (coef.zip gens).map Prod.snd = gens := List.map_snd_zip (by omega)
  refine ⟨den, coef.zip gens, hden, h2, ?_, ?_⟩
  · intro p hp hle
    obtain ⟨i, hi, rfl⟩ := List.getElem_of_mem hp
    rw [List.length_zip] at hi
    have hi2 : i < gens.length := by omega
    have hi1 : i < coef.length := by omega
    have := hpos i hi2 (by simpa using hle)
    simpa [List.getD_eq_getElem?_getD, hi1] using this
  · intro c
    rw [heq c, ← range_sum_pairs, h1, h2, List.length_zip, hlen, Nat.min_self]

theorem generated_of_gen2 (gens : List LRow) (x : Vec) (h : Gen2 gens x) : Generated gens x := by
  obtain ⟨den, ps, hden, hg, hpos, heq⟩ := h
  subst hg
  refine ⟨den, ps.map Prod.fst, hden, by simp, ?_, ?_⟩
  · intro i hi hle
    have hi' : i < ps.length := by simpa using hi
    have := hpos ps[i] (List.getElem_mem hi') (by simpa using hle)
    simpa [List.getD_eq_getElem?_getD, hi'] using this
  · intro c
    rw [heq c, ← range_sum_pairs, List.length_map]

/-- a permutation of the images lifts to a permutation of the arguments -/
theorem exists_perm_of_map_perm {α β : Type} (f : α → β) {m₁ m₂ : List β} (hp : m₁.Perm m₂) :
    ∀ l : List α, l.map f = m₁ → ∃ l' : List α, l'.Perm l ∧ l'.map f = m₂ := by
  induction hp with
  | nil => intro l hl; exact ⟨l, .refl _, hl⟩
  | cons a _ ih =>
    intro l hl
    cases l with
    | nil => simp at hl
    | cons b l0 =>
      simp only [List.map_cons, List.cons.injEq] at hl
      obtain ⟨l0', hp0, hm0⟩ := ih l0 hl.2
      exact ⟨b :: l0', hp0.cons b, by simp [hl.1, hm0]⟩
  | swap a b m =>
    intro l hl
    cases l with
    | nil => simp at hl
    | cons b1 l1 =>
      cases l1 with
      | nil => simp at hl
      | cons b2 l0 =>
        simp only [List.map_cons, List.cons.injEq] at hl
        exact ⟨b2 :: b1 :: l0, List.Perm.swap b1 b2 l0, by simp [hl.1, hl.2.1, hl.2.2]⟩
  | trans _ _ ih1 ih2 =>
    intro l hl
    obtain ⟨l1, hp1, hm1⟩ := ih1 l hl
    obtain ⟨l2, hp2, hm2⟩ := ih2 l1 hm1
    exact ⟨l2, hp2.trans hp1, hm2⟩

theorem generated_perm {gens gens' : List LRow} (hp : gens'.Perm gens) (x : Vec)
    (h : Generated gens x) : Generated gens' x := by
  obtain ⟨den, ps, hden, hg, hpos, heq⟩ := gen2_of_generated gens x h
  obtain ⟨ps', hpp, hm⟩ := exists_perm_of_map_perm Prod.snd (hg ▸ hp.symm) ps rfl
  apply generated_of_gen2
  refine ⟨den, ps', hden, hm, fun p hp' => hpos p (hpp.mem_iff.mp hp'), fun c => ?_⟩
  rw [heq c]
  exact ((hpp.map _).sum_eq).symm

theorem generated_of_mem (gens : List LRow) (g : LRow) (hg : g ∈ gens) : Generated gens g.v := by
  obtain ⟨s, t, rfl⟩ := List.append_of_mem hg
  apply generated_perm (List.perm_middle (a := g) (l₁ := s) (l₂ := t))
  apply generated_of_gen2
  refine ⟨1, (1, g) :: (s ++ t).map (fun r => (0, r)), by omega, by simp [Function.comp_def], ?_, ?_⟩
  · intro p hp _
    rcases List.mem_cons.mp hp with h | h
    · rw [h]; simp
    · obtain ⟨r, _, rfl⟩ := List.mem_map.mp h; simp
  · intro c
    simp [Function.comp_def]

/-! ### the generators of a minimal pair -/

theorem EnginePair.nodupG {nnc n cs gs fC fG sC sG} (h : EnginePair nnc n cs gs fC fG sC sG) :
    gs.Nodup := by
  rw [List.nodup_iff_injective_getElem]
  rintro ⟨i, hi⟩ ⟨j, hj⟩ heq
  simp only at heq
  by_contra hne
  have hij : i ≠ j := fun e => hne (by subst e; rfl)
  apply h.minG i hi
  have hgi : gs.getD i default = gs[i] := by
    rw [List.getD_eq_getElem?_getD, List.getElem?_eq_getElem hi]; rfl
  rw [hgi]
  apply generated_of_mem
  apply List.mem_map.mpr
  refine ⟨gs[i], ?_, rfl⟩
  rw [List.mem_eraseIdx_iff_getElem]
  exact ⟨j, hj, fun e => hij e.symm, heq.symm⟩

theorem EnginePair.permG {nnc n cs gs gs' fC fG sC sG} (h : EnginePair nnc n cs gs fC fG sC sG)
    (hp : gs'.Perm gs) (sC' sG' : BitMat)
    (hsC' : fC = true →
      SatCorrect (cs.map (toL nnc)) (gs'.map (toL nnc)) sC'.rows ∧ sC'.ncols = cs.length) :
    EnginePair nnc n cs gs' fC false sC' sG' := by
  have hnd := h.nodupG
  have hnd' : gs'.Nodup := hp.nodup_iff.mpr hnd
  refine ⟨?_, fun x hl hx => generated_perm (hp.map _) x (h.complete x hl hx), h.minC, ?_, ?_, hsC',
    fun h' => (by cases h')⟩
  · intro d hd s hs
    obtain ⟨r, hr, rfl⟩ := List.mem_map.mp hd
    exact h.sound _ (List.mem_map.mpr ⟨r, hp.mem_iff.mp hr, rfl⟩) s hs
  · intro j hj hgen
    obtain ⟨k, hk, hkr⟩ := List.getElem_of_mem (hp.mem_iff.mp (List.getElem_mem hj))
    apply h.minG k hk
    have hgj : gs'.getD j default = gs'[j] := by
      rw [List.getD_eq_getElem?_getD, List.getElem?_eq_getElem hj]; rfl
    have hgk : gs.getD k default = gs[k] := by
      rw [List.getD_eq_getElem?_getD, List.getElem?_eq_getElem hk]; rfl
    rw [hgj] at hgen
    rw [hgk, hkr]
    have hpe : (gs.eraseIdx k).Perm (gs'.eraseIdx j) := by
      rw [← hnd.erase_getElem k hk, ← hnd'.erase_getElem j hj, hkr]
      exact (hp.erase _).symm
    exact generated_perm (hpe.map _) _ hgen
  · intro j hj hline hgen
    obtain ⟨k, hk, hkr⟩ := List.getElem_of_mem (hp.mem_iff.mp (List.getElem_mem hj))
    have hgj : gs'.getD j default = gs'[j] := by
      rw [List.getD_eq_getElem?_getD, List.getElem?_eq_getElem hj]; rfl
    have hgk : gs.getD k default = gs[k] := by
      rw [List.getD_eq_getElem?_getD, List.getElem?_eq_getElem hk]; rfl
    apply h.minL k hk (by rw [hgk, hkr, ← hgj]; exact hline)
    rw [hgj] at hgen
    rw [hgk, hkr]
    have hpe : (gs.eraseIdx k).Perm (gs'.eraseIdx j) := by
      rw [← hnd.erase_getElem k hk, ← hnd'.erase_getElem j hj, hkr]
      exact (hp.erase _).symm
    exact generated_perm (hpe.map _) _ hgen

end PPLV.PolyFull
