import PPLV.PolyFull.ProofsObs2

namespace PPLV.PolyFull
open PPLV.Lin PPLV.PolyOps

/-- the comparison `x.gen_sys == y.gen_sys` / `x.con_sys == y.con_sys` of two sorted systems -/
def sysEqB (a b : Sys) : Bool :=
  a.rows.length == b.rows.length && a.firstPending == b.firstPending
    && (List.zipWith FPoly.rowEquiv a.rows b.rows).all id

/-- :383-406, the branch that sorts and compares the generators -/
def qetGens (x y : FPoly) : Option Bool × FPoly × FPoly :=
  (some (sysEqB x.obtainSortedGenerators.p.gs y.obtainSortedGenerators.p.gs),
    x.obtainSortedGenerators, y.obtainSortedGenerators)
/-- :408-417, the branch that sorts and compares the constraints -/
def qetCons (x y : FPoly) : Option Bool × FPoly × FPoly :=
  (some (sysEqB x.obtainSortedConstraints.p.cs y.obtainSortedConstraints.p.cs),
    x.obtainSortedConstraints, y.obtainSortedConstraints)

theorem qet_cases (x y : FPoly) :
    (∃ b, b ≠ some true ∧ x.quickEquivalenceTest y = (b, x, y)) ∨
    (x.p.nnc = false ∧ x.p.st.somethingPending = false ∧ y.p.st.somethingPending = false ∧
      ((x.p.st.gMin = true ∧ y.p.st.gMin = true ∧ x.quickEquivalenceTest y = qetGens x y) ∨
       (x.p.st.cMin = true ∧ y.p.st.cMin = true ∧ x.quickEquivalenceTest y = qetCons x y))) := by
  unfold FPoly.quickEquivalenceTest qetGens qetCons sysEqB
  simp only [FPoly.nnc, FPoly.st]
  split_ifs <;> simp_all

theorem zipWith_rowEquiv_eq : ∀ (a b : List Row), a.length = b.length →
    (List.zipWith FPoly.rowEquiv a b).all id = true → a = b
  | [], [], _, _ => rfl
  | [], _ :: _, h, _ => by cases h
  | _ :: _, [], h, _ => by cases h
  | r :: a, s :: b, h, hall => by
    simp only [List.zipWith_cons_cons, List.all_cons, Bool.and_eq_true, id] at hall
    have h1 : r = s := by
      have := hall.1; unfold FPoly.rowEquiv at this; exact beq_iff_eq.mp this
    rw [h1, zipWith_rowEquiv_eq a b (by simpa using h) hall.2]

theorem sysEqB_rows (a b : Sys) (h : sysEqB a b = true) : a.rows = b.rows := by
  unfold sysEqB at h
  simp only [Bool.and_eq_true, beq_iff_eq] at h
  exact zipWith_rowEquiv_eq _ _ h.1.1 h.2

/-- what `obtain_sorted_generators()` / `obtain_sorted_constraints()` keep on an object with nothing
    pending (see `ProofsObs5.lean`) -/
structure SortedObsKeep : Prop where
  gens : ∀ (x : FPoly) (S : Set Val), x.Inv S → x.p.st.empty = false → x.p.st.gMin = true →
    x.p.st.somethingPending = false →
    x.obtainSortedGenerators.Inv S ∧ x.SameShape x.obtainSortedGenerators ∧
    x.obtainSortedGenerators.p.st.empty = false ∧ x.obtainSortedGenerators.p.st.gUp = true ∧
    x.obtainSortedGenerators.p.st.cPend = false
  cons : ∀ (x : FPoly) (S : Set Val), x.Inv S → x.p.st.empty = false → x.p.st.cMin = true →
    x.p.st.somethingPending = false →
    x.obtainSortedConstraints.Inv S ∧ x.SameShape x.obtainSortedConstraints ∧
    x.obtainSortedConstraints.p.st.empty = false ∧ x.obtainSortedConstraints.p.st.cUp = true ∧
    x.obtainSortedConstraints.p.st.gPend = false

/-- **`quick_equivalence_test`**: both objects keep denoting their sets, and the answer `TVB_TRUE`
    is only given of equal sets -/
theorem quickEquivalenceTest_true_sound_of (K : SortedObsKeep) (x y : FPoly) (S T : Set Val)
    (hx : x.Inv S) (hy : y.Inv T) (hdim : y.p.dim = x.p.dim) (hnnc : y.p.nnc = x.p.nnc)
    (hex : x.p.st.empty = false) (hey : y.p.st.empty = false) :
    (x.quickEquivalenceTest y).2.1.Inv S ∧ (x.quickEquivalenceTest y).2.2.Inv T ∧
    x.SameShape (x.quickEquivalenceTest y).2.1 ∧ y.SameShape (x.quickEquivalenceTest y).2.2 ∧
    (x.quickEquivalenceTest y).2.1.p.st.empty = false ∧ (x.quickEquivalenceTest y).2.2.p.st.empty = false ∧
    ((x.quickEquivalenceTest y).1 = some true → S = T) := by
  rcases qet_cases x y with ⟨b, hb, e⟩ | ⟨_, hpx, hpy, ⟨hgx, hgy, e⟩ | ⟨hcx, hcy, e⟩⟩
  · rw [e]
    exact ⟨hx, hy, SameShape.refl x, SameShape.refl y, hex, hey, fun h => absurd h hb⟩
  · rw [e]
    obtain ⟨i1, s1, n1, u1, p1⟩ := K.gens x S hx hex hgx hpx
    obtain ⟨i2, s2, n2, u2, p2⟩ := K.gens y T hy hey hgy hpy
    refine ⟨i1, i2, s1, s2, n1, n2, fun h => ?_⟩
    have hrows := sysEqB_rows _ _ (by simpa [qetGens] using h)
    have hS := (i1.den.2 n1).2.1 u1 p1
    have hT := (i2.den.2 n2).2.1 u2 p2
    rw [← hS, ← hT, hrows, s1.1, s1.2, s2.1, s2.2, hnnc, hdim]
  · rw [e]
    obtain ⟨i1, s1, n1, u1, p1⟩ := K.cons x S hx hex hcx hpx
    obtain ⟨i2, s2, n2, u2, p2⟩ := K.cons y T hy hey hcy hpy
    refine ⟨i1, i2, s1, s2, n1, n2, fun h => ?_⟩
    have hrows := sysEqB_rows _ _ (by simpa [qetCons] using h)
    have hS := (i1.den.2 n1).1 u1 p1
    have hT := (i2.den.2 n2).1 u2 p2
    rw [← hS, ← hT, hrows, s1.1, s2.1, hnnc]

end PPLV.PolyFull
