import PPLV.PolyFull.ProofsOps2
import PPLV.PolyOps.ProofsDims6

/-!
# Integration stage — `add_constraint` / `refine_no_check` refine `RefPoly.addCons`
-/
namespace PPLV.PolyFull
open PPLV.Lin PPLV.PolyOps

theorem sem_addCons (ref : RefPoly) (nnc : Bool) (c : Row) :
    sem (ref.addCons (Row.toCons nnc c)).cs = sem ref.cs ∩ conSem nnc [c] := by
  show sem (ref.cs ++ Row.toCons nnc c) = _
  rw [sem_append]
  unfold conSem consOf
  simp

/-- a zero-dimensional legal constraint row: `is_inconsistent()` decides its reading -/
theorem rowInconsistent_zero_dim (nnc : Bool) (c : Row) (hc : c.cf = [])
    (hceps : nnc = false → c.eps = 0) (hcle : c.eps ≤ 0) (hceq : c.eq = true → c.eps = 0) :
    (FPoly.rowInconsistent nnc c = true → conSem nnc [c] = ∅) ∧
    (FPoly.rowInconsistent nnc c = false → conSem nnc [c] = Set.univ) := by
  have hev : ∀ w, c.ev w = (c.b : Rat) := by
    intro w; unfold Row.ev; rw [hc]; simp [dot]
  have hmem : ∀ w, w ∈ conSem nnc [c] ↔ c.Holds nnc w := by
    intro w; rw [mem_conSem]; simp
  unfold FPoly.rowInconsistent
  rw [hc]
  simp only [List.all_nil, Bool.true_and]
  by_cases h0 : c.eps = 0
  · have hn : ¬ (nnc = true ∧ c.eps < 0) := by rw [h0]; simp
    simp only [h0, beq_self_eq_true, if_true]
    cases heq : c.eq
    · simp only [Bool.false_eq_true, if_false, decide_eq_true_eq, decide_eq_false_iff_not]
      constructor
      · intro hb
        ext w; rw [hmem]; unfold Row.Holds; rw [heq, hev]
        simp only [Bool.false_eq_true, if_false, if_neg hn, Set.mem_empty_iff_false, iff_false, not_le]
        exact_mod_cast hb
      · intro hb
        ext w; rw [hmem]; unfold Row.Holds; rw [heq, hev]
        simp only [Bool.false_eq_true, if_false, if_neg hn, Set.mem_univ, iff_true]
        exact_mod_cast (not_lt.mp hb)
    · simp only [if_true, bne_iff_ne, ne_eq, bne_eq_false_iff_eq]
      constructor
      · intro hb
        ext w; rw [hmem]; unfold Row.Holds; rw [heq, hev]
        simp only [if_true, Set.mem_empty_iff_false, iff_false]
        exact_mod_cast hb
      · intro hb
        ext w; rw [hmem]; unfold Row.Holds; rw [heq, hev]
        simp only [if_true, Set.mem_univ, iff_true]
        exact_mod_cast hb
  · have hlt : c.eps < 0 := lt_of_le_of_ne hcle h0
    have hnnc : nnc = true := by
      cases nnc
      · exact absurd (hceps rfl) h0
      · rfl
    subst hnnc
    have heq : c.eq = false := by
      cases h : c.eq
      · rfl
      · exact absurd (hceq h) h0
    have h1 : ¬ ((c.eps == 0) = true) := by simpa using h0
    have h2 : ¬ (c.eps ≥ 0) := not_le.mpr hlt
    simp only [h1, if_false, Bool.not_true, Bool.false_eq_true, h2]
    constructor
    · intro hb
      have hb' : ¬ c.b > 0 := by
        intro h; rw [if_pos h] at hb; cases hb
      ext w; rw [hmem]; unfold Row.Holds; rw [heq, hev]
      simp only [Bool.false_eq_true, if_false, hlt, and_self, if_true, Set.mem_empty_iff_false, iff_false,
        not_lt]
      exact_mod_cast (not_lt.mp hb')
    · intro hb
      have hb' : c.b > 0 := by
        by_contra h; rw [if_neg h] at hb; cases hb
      ext w; rw [hmem]; unfold Row.Holds; rw [heq, hev]
      simp only [Bool.false_eq_true, if_false, hlt, and_self, if_true, Set.mem_univ, iff_true]
      exact_mod_cast hb'

theorem wf_addPendC (p : Poly) (c : Row) (hp : p.WF) (hc : c.cf.length = p.dim)
    (hcu : p.st.cUp = true) (hgu : p.st.gUp = true) (hgp : p.st.gPend = false) :
    ({ p with cs := p.cs.insertPendingSys [c], st := { p.st with cPend := true } } : Poly).WF := by
  refine ⟨fun _ _ r hr => ?_, hp.gs_wf, hp.gs_pt, fun _ => ⟨hcu, hgu⟩, fun h => ?_, fun h => ?_,
    fun _ _ => Or.inl hcu, hp.zero_dim⟩
  · rcases List.mem_append.mp hr with hr | hr
    · exact hp.cs_len ‹_› hcu r hr
    · rw [List.mem_singleton.mp hr]; exact hc
  · rw [show p.st.gPend = true from h] at hgp; cases hgp
  · rw [show p.st.gPend = true from h.2] at hgp; cases hgp

theorem wf_addNonpendC (p : Poly) (c : Row) (hp : p.WF) (hc : c.cf.length = p.dim)
    (hcu : p.st.cUp = true) (hcp : p.st.cPend = false) :
    ({ p with cs := p.cs.insertSys [c], st := ({ p.st with cMin := false }).clearGUp } : Poly).WF := by
  refine ⟨fun he _ r hr => ?_, fun _ h => ?_, fun _ h => ?_, fun h => ?_, fun h => ?_, fun h => ?_,
    fun _ _ => Or.inl hcu, fun hd => ⟨(hp.zero_dim hd).1, rfl⟩⟩
  · rcases List.mem_append.mp hr with hr | hr
    · exact hp.cs_len he hcu r hr
    · rw [List.mem_singleton.mp hr]; exact hc
  · simp [Status.clearGUp] at h
  · simp [Status.clearGUp] at h
  · rw [show p.st.cPend = true from h] at hcp; cases hcp
  · simp [Status.clearGUp] at h
  · simp [Status.clearGUp] at h

theorem insertRow_fp (gen nnc : Bool) (s : Sys) (r : Row) :
    (s.insertRow gen nnc r).firstPending = (s.insertRow gen nnc r).rows.length := rfl

/-- the main branch of `refine_no_check` on a prepared receiver -/
theorem refineNoCheck_main (x : FPoly) (S S' : Set Val) (c : Row) (hx : x.Inv S)
    (hex : x.p.st.empty = false) (hcx : x.p.st.cUp = true) (hgx : x.p.st.gPend = false)
    (hc : c.cf.length = x.p.dim) (hS' : conSem x.p.nnc (x.p.cs.rows ++ [c]) = S') :
    ({ x with p := { x.p.addRecycledConstraints [c] with
        cs := (x.p.addRecycledConstraints [c]).cs.refineBy
          (if x.st.canPend then x.p.cs.insertPendingRow c else x.p.cs.insertRow false x.nnc c) } } : FPoly).Inv S' ∧
    (x.p.addRecycledConstraints [c]).nnc = x.p.nnc ∧ (x.p.addRecycledConstraints [c]).dim = x.p.dim := by
  have hden := addRecycledConstraints_denotes x.p [c] S S' hex hcx hgx hx.den hS'
  cases hcp : x.p.st.canPend
  · have hq : x.p.addRecycledConstraints [c] =
        { x.p with cs := x.p.cs.insertSys [c], st := ({ x.p.st with cMin := false }).clearGUp } := by
      simp [Poly.addRecycledConstraints, hex, hcp]
    rw [hq] at hden ⊢
    have hI := Inv_nonpendC x S S' _ hx hex hcx hcp (insertSys_fp _ _)
      (fun r hr => List.mem_append_left _ hr)
      (wf_addNonpendC x.p c hx.wf hc hcx (legal_not_canPend hx.legal hcp).1) hden
    refine ⟨Inv_refineC _ _ _ hI ?_ ?_, rfl, rfl⟩
    · intro _ _
      unfold FPoly.st
      rw [hcp]
      simp only [Bool.false_eq_true, if_false]
      exact ⟨le_of_eq (insertRow_fp _ _ _ _), fun _ => insertRow_fp _ _ _ _⟩
    · intro _ h
      simp [Status.canPend, Status.clearGUp] at h
  · have hq : x.p.addRecycledConstraints [c] =
        { x.p with cs := x.p.cs.insertPendingSys [c], st := { x.p.st with cPend := true } } := by
      simp [Poly.addRecycledConstraints, hex, hcp]
    rw [hq] at hden ⊢
    have hI := Inv_pendC x S S' [c] hx hex hcx hgx hcp
      (wf_addPendC x.p c hx.wf hc hcx (legal_canPend_up hx.legal hcp).2 hgx) hden
    refine ⟨Inv_refineC _ _ _ hI ?_ ?_, rfl, rfl⟩
    · intro h1 h2
      unfold FPoly.st
      rw [hcp]
      simp only [if_true]
      exact hI.fpC h1 h2
    · intro _ _
      unfold FPoly.st
      rw [hcp]
      simp only [if_true]
      rfl

/-- **`Polyhedron::add_constraint(c)` / `refine_no_check(c)`, the whole object.**  `c` is a legal
    constraint row of the receiver's dimension and topology: its epsilon coefficient is `≤ 0`
    (`= 0` for the closed topology and on equalities) — `Constraint::OK()`; without `hcle`/`hceq` the
    statement is false in dimension 0 (`is_inconsistent()` reads such rows differently from
    `Constraint::type()`). -/
theorem addConstraint_refines (G : GlueFacts) (x : FPoly) (ref : RefPoly) (c : Row)
    (hc : c.cf.length = x.p.dim) (hceps : x.p.nnc = false → c.eps = 0)
    (hcle : c.eps ≤ 0) (hceq : c.eq = true → c.eps = 0) (hx : x.Inv (sem ref.cs)) :
    (x.addConstraint c).Inv (sem (ref.addCons (Row.toCons x.p.nnc c)).cs) ∧ x.SameShape (x.addConstraint c) := by
  rw [sem_addCons]
  unfold FPoly.addConstraint
  cases hex : x.p.st.empty
  · have hex' : x.st.empty = false := hex
    rw [hex']
    simp only [Bool.false_eq_true, if_false]
    unfold FPoly.refineNoCheck
    by_cases hd : x.p.dim = 0
    · have hd' : (x.dim == 0) = true := by simp [FPoly.dim, hd]
      rw [if_pos hd']
      have hc0 : c.cf = [] := List.eq_nil_of_length_eq_zero (by rw [hc, hd])
      obtain ⟨h1, h2⟩ := rowInconsistent_zero_dim x.p.nnc c hc0 hceps hcle hceq
      cases hri : FPoly.rowInconsistent x.nnc c
      · simp only [Bool.false_eq_true, if_false]
        rw [h2 hri, Set.inter_univ]
        exact ⟨hx, rfl, rfl⟩
      · simp only [if_true]
        rw [h1 hri, Set.inter_empty]
        exact ⟨Inv_setEmpty x _ hx.wf rfl, rfl, rfl⟩
    · have hd' : ¬ (x.dim == 0) = true := by simpa [FPoly.dim] using hd
      rw [if_neg hd']
      obtain ⟨hsx, hix, hex1, hcx1, hgx1⟩ := G.needCons x _ hx hex (Nat.pos_of_ne_zero hd)
      have hS' : conSem x.needCons.p.nnc (x.needCons.p.cs.rows ++ [c]) = sem ref.cs ∩ conSem x.p.nnc [c] := by
        rw [conSem_append, (hix.den.2 hex1).1 hcx1 hgx1, hsx.1]
      obtain ⟨h1, h2, h3⟩ := refineNoCheck_main x.needCons _ _ c hix hex1 hcx1 hgx1 (by rw [hsx.2]; exact hc) hS'
      exact ⟨h1, h2.trans hsx.1, h3.trans hsx.2⟩
  · have hex' : x.st.empty = true := hex
    rw [hex']
    simp only [if_true]
    refine ⟨hx.change ?_, rfl, rfl⟩
    rw [hx.den.1 hex, Set.empty_inter]
    exact denotes_of_empty _ _ hex rfl

end PPLV.PolyFull
