import PPLV.PolyFull.ProofsStatus4d

/-!
# Integration stage — `refine_no_check` / `add_constraint`, `add_generator` against `PolyStatus/Ops.lean`

Ghost inputs: those of the preparation (`needCons` / `needGens`), and `g.keep` := the `sorted` flag the
full model's insertion leaves (`Linear_System::insert` keeps the flag only if it was set, so the abstract
`csS && keep` is that flag).
-/
namespace PPLV.PolyFull
open PPLV.PolyOps
open PPLV.PolyStatus (PState Gh)

attribute [local simp] FPoly.st FPoly.nnc FPoly.dim FPoly.withSt FPoly.withCs FPoly.withGs

/-! ## `Linear_System::insert` never sets the flag -/

theorem insertRow_sorted_imp (gen nnc : Bool) (s : Sys) (r : Row) (h : (s.insertRow gen nnc r).sorted = true) :
    s.sorted = true := by
  unfold Sys.insertRow at h
  cases hs : s.sorted <;> simp_all

theorem refineBy_sorted (coarse exact : Sys) :
    (coarse.refineBy exact).sorted = coarse.sorted ∨ (coarse.refineBy exact).sorted = exact.sorted := by
  unfold Sys.refineBy; split
  · exact Or.inr rfl
  · exact Or.inl rfl

/-! ## `needCons` keeps what it does not own -/

theorem updateConstraints_keeps (x : FPoly) :
    x.updateConstraints.p.st.empty = x.p.st.empty ∧ x.updateConstraints.p.dim = x.p.dim
    ∧ x.updateConstraints.p.nnc = x.p.nnc := by
  simp [FPoly.updateConstraints]

theorem needCons_keeps (x : FPoly) :
    x.needCons.p.st.empty = x.p.st.empty ∧ x.needCons.p.dim = x.p.dim ∧ x.needCons.p.nnc = x.p.nnc := by
  unfold FPoly.needCons
  split
  · obtain ⟨_, _, k3, _, _, _, _, k8, k9⟩ := processPendingGenerators_keeps x
    exact ⟨k3, k8, k9⟩
  split
  · exact updateConstraints_keeps x
  · exact ⟨rfl, rfl, rfl⟩

/-! ## `refine_no_check(c)` -/

/-- the insertion of `refine_no_check` (after the preparation) -/
def FPoly.rncTail (y : FPoly) (c : Row) : FPoly :=
  { y with p := { (y.p.addRecycledConstraints [c]) with
      cs := (y.p.addRecycledConstraints [c]).cs.refineBy
        (if y.st.canPend then y.p.cs.insertPendingRow c else y.p.cs.insertRow false y.nnc c) } }

theorem refineNoCheck_eq (x : FPoly) (c : Row) (b : x.p.dim ≠ 0) :
    x.refineNoCheck c = x.needCons.rncTail c := by
  have : (x.dim == 0) = false := by simpa using b
  unfold FPoly.refineNoCheck
  simp only [this, Bool.false_eq_true, ↓reduceIte]
  rfl

/-- the abstract insertion -/
def absInsertCons (g : Gh) (t : PState) : PState :=
  let s := PState.setChanges g.be t
  if s.canHaveSomethingPending then PState.setConstraintsPending (PState.conInsertPending s)
  else PState.clearGeneratorsUpToDate (PState.clearConstraintsMinimized (PState.conInsert g.keep s))

theorem abs_refineNoCheck_eq (g : Gh) (i : Bool) (s : PState) (b : (s.dim == 0) = false) :
    PPLV.PolyStatus.refineNoCheck g i s = absInsertCons g (PPLV.PolyStatus.needCons g s) := by
  unfold PPLV.PolyStatus.refineNoCheck
  simp only [b, Bool.false_eq_true, ↓reduceIte]
  rfl

theorem rncTail_facts (y : FPoly) (c : Row) (he : y.p.st.empty = false) :
    (y.rncTail c).p.st = (if y.p.st.canPend then { y.p.st with cPend := true }
                          else ({ y.p.st with cMin := false }).clearGUp)
    ∧ (y.rncTail c).p.dim = y.p.dim ∧ (y.rncTail c).p.nnc = y.p.nnc ∧ (y.rncTail c).p.gs = y.p.gs
    ∧ (y.p.st.canPend = true → (y.rncTail c).p.cs.sorted = y.p.cs.sorted)
    ∧ (y.p.st.canPend = false → (y.rncTail c).p.cs.sorted = true → y.p.cs.sorted = true) := by
  rcases (Bool.eq_false_or_eq_true y.p.st.canPend).symm with cp | cp
  · refine ⟨?_, ?_, ?_, ?_, fun hc => (by rw [cp] at hc; cases hc), fun _ hr => ?_⟩
    · simp [FPoly.rncTail, Poly.addRecycledConstraints, he, cp]
    · simp [FPoly.rncTail, Poly.addRecycledConstraints, he, cp]
    · simp [FPoly.rncTail, Poly.addRecycledConstraints, he, cp]
    · simp [FPoly.rncTail, Poly.addRecycledConstraints, he, cp]
    · have e : (y.rncTail c).p.cs = (y.p.cs.insertSys [c]).refineBy (y.p.cs.insertRow false y.p.nnc c) := by
        simp [FPoly.rncTail, Poly.addRecycledConstraints, he, cp]
      rw [e] at hr
      rcases refineBy_sorted (y.p.cs.insertSys [c]) (y.p.cs.insertRow false y.p.nnc c) with q | q
      · rw [q] at hr; simp [Sys.insertSys] at hr
      · rw [q] at hr; exact insertRow_sorted_imp _ _ _ _ hr
  · refine ⟨?_, ?_, ?_, ?_, fun _ => ?_, fun hc => (by rw [cp] at hc; cases hc)⟩
    · simp [FPoly.rncTail, Poly.addRecycledConstraints, he, cp]
    · simp [FPoly.rncTail, Poly.addRecycledConstraints, he, cp]
    · simp [FPoly.rncTail, Poly.addRecycledConstraints, he, cp]
    · simp [FPoly.rncTail, Poly.addRecycledConstraints, he, cp]
    · have e : (y.rncTail c).p.cs = (y.p.cs.insertPendingSys [c]).refineBy (y.p.cs.insertPendingRow c) := by
        simp [FPoly.rncTail, Poly.addRecycledConstraints, he, cp]
      rw [e]
      rcases refineBy_sorted (y.p.cs.insertPendingSys [c]) (y.p.cs.insertPendingRow c) with q | q <;>
        rw [q] <;> rfl

theorem rncTail_sim (y : FPoly) (c : Row) (t : PState) (g : Gh) (m : Sim y t) (he : y.p.st.empty = false)
    (hk : g.keep = (y.rncTail c).p.cs.sorted) :
    Sim (y.rncTail c) (absInsertCons g t) := by
  obtain ⟨f1, f2, f3, f4, s1, s2⟩ := rncTail_facts y c he
  generalize y.rncTail c = z at *
  obtain ⟨⟨zn, zd, zst, ⟨zr, zf, zsrt⟩, zgs⟩, zC, zG⟩ := z
  obtain ⟨⟨nnc, dim, ⟨e, cu, gu, cm, gm, sc, sg, cpd, gp⟩, ⟨cr, cf, csrt⟩, gs⟩, mC, mG⟩ := y
  simp only at f1 f2 f3 f4 s1 s2 he hk
  subst f1 f2 f3 f4 he
  sim_hyps m
  cases hkk : g.keep <;> cases cm <;> cases gm <;> cases sc <;> cases sg <;>
    simp_all [Sim, pst, absInsertCons, Status.canPend, Status.clearGUp]

structure RncGhost (x : FPoly) (c : Row) (g : Gh) (s : PState) : Prop where
  prep : x.p.dim ≠ 0 → NeedConsGhost x g s
  keep : g.keep = (x.refineNoCheck c).p.cs.sorted

theorem refineNoCheck_sim (x : FPoly) (c : Row) (s : PState) (g : Gh) (h : Sim x s)
    (he : x.p.st.empty = false) (hg : RncGhost x c g s) :
    Sim (x.refineNoCheck c) (PPLV.PolyStatus.refineNoCheck g (FPoly.rowInconsistent x.p.nnc c) s) := by
  have h' := h
  sim_hyps h'
  by_cases b : x.p.dim = 0
  · rcases (Bool.eq_false_or_eq_true (FPoly.rowInconsistent x.p.nnc c)).symm with i | i
    · simp [FPoly.refineNoCheck, PPLV.PolyStatus.refineNoCheck, pst, *]
    · simp [FPoly.refineNoCheck, PPLV.PolyStatus.refineNoCheck, pst, FPoly.setEmpty, Poly.setEmpty,
        Status.setEmpty, Sys.clear, Sim, *]
  · have m := needCons_sim x s g h (hg.prep b)
    have hk := hg.keep
    rw [refineNoCheck_eq x c b] at hk ⊢
    rw [abs_refineNoCheck_eq g _ s (by rw [h10]; simpa using b)]
    exact rncTail_sim _ c _ g m ((needCons_keeps x).1.trans he) hk

/-- `add_constraint(c)` for a constraint that is not a strict inequality added to a closed polyhedron -/
theorem addConstraint_sim (x : FPoly) (c : Row) (s : PState) (g : Gh) (f : PPLV.PolyStatus.Facts) (h : Sim x s)
    (hf : (f.strict && !x.p.nnc) = false) (hi : f.incons = FPoly.rowInconsistent x.p.nnc c)
    (hg : x.p.st.empty = false → RncGhost x c g s) :
    Sim (x.addConstraint c) (PPLV.PolyStatus.addConstraint g f s) := by
  have h' := h
  sim_hyps h'
  rcases (Bool.eq_false_or_eq_true x.p.st.empty).symm with a | a
  · have e1 : x.addConstraint c = x.refineNoCheck c := by simp [FPoly.addConstraint, a]
    have e2 : PPLV.PolyStatus.addConstraint g f s
        = PPLV.PolyStatus.refineNoCheck g (FPoly.rowInconsistent x.p.nnc c) s := by
      simp only [PPLV.PolyStatus.addConstraint, h11, hf, pst, h1, a, hi]; simp
    rw [e1, e2]; exact refineNoCheck_sim x c s g h a (hg a)
  · have e1 : x.addConstraint c = x := by simp [FPoly.addConstraint, a]
    have e2 : PPLV.PolyStatus.addConstraint g f s = s := by
      simp only [PPLV.PolyStatus.addConstraint, h11, hf, pst, h1, a]; simp
    rw [e1, e2]; exact h

end PPLV.PolyFull
