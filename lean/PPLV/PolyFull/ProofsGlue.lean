import PPLV.PolyFull.ProofsGlue7
import PPLV.PolyFull.ProofsGlue8
import PPLV.PolyFull.ProofsGlue12

/-!
# Integration stage — `GlueFacts` from `ConvContract`

`glueFacts_of_contract`: every field of `GlueFacts` from the conversion contract:
`update_generators`, `update_constraints`, `minimize`, `is_empty`, the two "description required"
helpers, and of `process_pending_constraints/generators` everything from
`sort_pending_and_remove_duplicates` on (`ppcTail_facts`, `ppgTail_facts`), plus the fact that the
preparation steps keep topology, dimension, the other system and all status flags but `sat_c`/`sat_g`
(`ppcPrepared_same`, `ppgPrepared_same`).

`compare` is exact on the rows that matter (`cmpExactC`, `cmpExactG`, part 8), so
`sort_pending_and_remove_duplicates` drops only rows whose engine reading is among the non-pending ones.

The preparation steps of `process_pending_constraints/generators` (`sat_c := transpose(sat_g)`,
`obtain_sorted_constraints_with_sat_c()`: transposition, `sort_and_remove_with_sat`, transposition back)
keep the pending index, the row sets and the minimal double description pair with both matrices exact
(`sortKeepsPairC`, part 10; `sortKeepsPairG`, part 12): the non-pending rows of a minimal pair are
duplicate free (`EnginePair.nodupC/G`), so the sort is a permutation of the pairs (row, saturation row) and
leaves no garbage slot (`sortAndRemoveWithSat_nodup`); `SatCorrect` is a property of the pairs
(`satCorrect_iff_pairs`); `Generated` does not depend on the order (`generated_perm`, part 11);
`EnginePair.permC/permG`; the transpositions by `PPLV.Conv.satCorrect_transpose`, with the widths of the
matrices that `EnginePair.satC/satG` record (`Bit_Matrix::transpose_assign` turns the width into the height).

Nothing is `_partial`: `glueFacts_of_contract (C : ConvContract) : GlueFacts`.
`glueFacts_of_contract_partial` (the two intermediate statements `SortKeepsPairC/G` of part 7 as
hypotheses) is kept as the lemma the final theorem instantiates.
-/
namespace PPLV.PolyFull
open PPLV.Lin PPLV.PolyOps
open PPLV.Conv (LRow BRow Vec Sound SatCorrect holds holdsAll Generated)

theorem processPendingConstraints_facts (C : ConvContract) (hSort : SortKeepsPairC) : PpcFact := by
  intro x S hx he hcp
  rw [ppc_eq]
  obtain ⟨h1, h2, h3, h4⟩ := hSort x S hx he hcp
  obtain ⟨s1, s2, s3, s4⟩ := ppcPrepared_same x
  exact ppcTail_facts C cmpExactC x x.ppcPrepared S hx he hcp ⟨s1, s2, s3, s4.exists, h1, h2, h3, h4⟩

theorem processPendingGenerators_facts (C : ConvContract) (hSort : SortKeepsPairG) : PpgFact := by
  intro x S hx he hgp
  rw [ppg_eq]
  obtain ⟨h1, h2, h3, h4⟩ := hSort x S hx he hgp
  obtain ⟨s1, s2, s3, s4⟩ := ppgPrepared_same x
  exact ppgTail_facts C cmpExactG x x.ppgPrepared S hx he hgp ⟨s1, s2, s3, s4.exists, h1, h2, h3, h4⟩

/-- **`GlueFacts` from the conversion contract**, modulo the invariance of the double description pair
    under the sort-with-saturation-matrix / transposition steps (see the header for what exactly is
    missing). -/
theorem glueFacts_of_contract_partial (C : ConvContract) (hSortC : SortKeepsPairC)
    (hSortG : SortKeepsPairG) : GlueFacts :=
  have hG : UpdGFact := updateGenerators_facts C
  have hC : UpdCFact := updateConstraints_facts C
  have hPc : PpcFact := processPendingConstraints_facts C hSortC
  have hPg : PpgFact := processPendingGenerators_facts C hSortG
  have hM : MinFact := minimize_facts hG hC hPc hPg
  { updG := hG
    updC := hC
    ppc := hPc
    ppg := hPg
    minimize := hM
    isEmpty := isEmpty_facts hM
    needCons := needCons_facts hC hPg
    needGens := needGens_facts hG hPc }

/-- **`GlueFacts` from the conversion contract** -/
theorem glueFacts_of_contract (C : ConvContract) : GlueFacts :=
  glueFacts_of_contract_partial C sortKeepsPairC sortKeepsPairG

end PPLV.PolyFull
