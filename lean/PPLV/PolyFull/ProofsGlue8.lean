import PPLV.PolyFull.ProofsGlue6

/-!
# Integration stage — `compare` is exact on rows of equal length (`CmpExactC`, `CmpExactG`)
-/
namespace PPLV.PolyFull
open PPLV.Lin PPLV.PolyOps
open PPLV.Conv (LRow BRow Vec compareRow compareExpr compareCoeffs cmpInt firstSign2)

theorem compareCoeffs_eq_zero : ∀ (xs ys : Vec), xs.length = ys.length → compareCoeffs xs ys = 0 → xs = ys
  | [], [], _, _ => rfl
  | [], _ :: _, h, _ => by simp at h
  | _ :: _, [], h, _ => by simp at h
  | x :: xs, y :: ys, h, hc => by
    simp only [compareCoeffs] at hc
    split at hc
    · omega
    · split at hc
      · omega
      · have : x = y := by omega
        rw [this, compareCoeffs_eq_zero xs ys (by simpa using h) hc]

theorem cmpInt_eq_zero (a b : Int) (h : cmpInt a b = 0) : a = b := by
  unfold cmpInt at h
  split at h
  · omega
  · split at h
    · omega
    · omega

theorem compareExpr_eq_zero (x y : Vec) (hl : x.length = y.length) (h : compareExpr x y = 0) :
    x.drop 1 = y.drop 1 ∧ x.getD 0 0 = y.getD 0 0 := by
  unfold compareExpr at h
  simp only at h
  split at h
  · rename_i hc
    rw [h] at hc; simp at hc
  · rename_i hc
    have hc0 : compareCoeffs (x.drop 1) (y.drop 1) = 0 := by simpa using hc
    exact ⟨compareCoeffs_eq_zero _ _ (by simp [hl]) hc0, cmpInt_eq_zero _ _ h⟩

theorem toL_v_length (nnc : Bool) (a : Row) :
    (toL nnc a).v.length = a.cf.length + 1 + (if nnc then 1 else 0) := by
  cases nnc <;> simp [toL]

theorem lrow_eq_of (x y : LRow) (h1 : x.le = y.le) (h2 : x.v = y.v) : x = y := by
  cases x; cases y; simp_all

theorem vec_eq_of (x y : Vec) (hx : x ≠ []) (hy : y ≠ []) (h1 : x.drop 1 = y.drop 1)
    (h2 : x.getD 0 0 = y.getD 0 0) : x = y := by
  cases x with
  | nil => exact absurd rfl hx
  | cons a xs =>
    cases y with
    | nil => exact absurd rfl hy
    | cons b ys => simp at h1 h2; rw [h1, h2]

theorem cmpExactC : CmpExactC := by
  intro nnc a b hlen h
  unfold cmpRow compareRow at h
  split at h
  · split at h <;> omega
  · rename_i hle
    have hle' : (toL nnc a).le = (toL nnc b).le := by simpa using hle
    simp only [Bool.false_and, Bool.not_false] at h
    have hl : (toL nnc a).v.length = (toL nnc b).v.length := by
      rw [toL_v_length, toL_v_length, hlen]
    obtain ⟨h1, h2⟩ := compareExpr_eq_zero _ _ hl h
    exact lrow_eq_of _ _ hle' (vec_eq_of _ _ (by simp [toL]) (by simp [toL]) h1 h2)

theorem row_eq_of (a b : Row) (h1 : a.eq = b.eq) (h2 : a.b = b.b) (h3 : a.cf = b.cf) (h4 : a.eps = b.eps) :
    a = b := by
  cases a; cases b; simp_all

theorem cmpExactG : CmpExactG := by
  intro nnc n a b ha hb h
  have hlen : a.cf.length = b.cf.length := ha.1.trans hb.1.symm
  cases nnc
  · unfold cmpRow compareRow at h
    split at h
    · split at h <;> omega
    · rename_i hle
      have hle' : (toL false a).le = (toL false b).le := by simpa using hle
      simp only [Bool.and_false, Bool.not_false] at h
      have hl : (toL false a).v.length = (toL false b).v.length := by
        rw [toL_v_length, toL_v_length, hlen]
      obtain ⟨h1, h2⟩ := compareExpr_eq_zero _ _ hl h
      exact lrow_eq_of _ _ hle' (vec_eq_of _ _ (by simp [toL]) (by simp [toL]) h1 h2)
  · unfold cmpRow compareRow at h
    split at h
    · split at h <;> omega
    · rename_i hle
      have hle' : a.eq = b.eq := by simpa [toL] using hle
      have hv : ∀ r : Row, ((toL true r).v.drop 1).dropLast = r.cf := by intro r; simp [toL]
      have h0 : ∀ r : Row, (toL true r).v.getD 0 0 = r.b := by intro r; simp [toL]
      have hl : ∀ r : Row, (toL true r).v.getLast?.getD 0 = r.eps := by
        intro r
        have : (toL true r).v = (r.b :: r.cf) ++ [r.eps] := by simp [toL]
        rw [this, List.getLast?_append]
        simp
      have hle0 : ∀ r : Row, (toL true r).le = r.eq := fun _ => rfl
      simp only [Bool.and_self, Bool.not_true, Bool.false_eq_true, if_false, hv, h0, hl, hle0] at h
      obtain ⟨_, _, _, ha4, ha5, _⟩ := ha
      obtain ⟨_, _, _, hb4, hb5, _⟩ := hb
      suffices a = b by rw [this]
      split at h
      · rename_i hc
        rw [h] at hc; simp at hc
      · rename_i hc
        have hcf : a.cf = b.cf := compareCoeffs_eq_zero _ _ hlen (by simpa using hc)
        split at h
        · rename_i hq
          have hqb : b.eq = true := by rw [← hle']; exact hq
          have ab := ha4 hq
          have bb := hb4 hqb
          exact row_eq_of a b hle' (by rw [ab, bb]) hcf (by rw [ha5 ab, hb5 bb])
        · split at h
          · rename_i hab
            have ab : a.b = 0 := by simpa using hab
            split at h
            · rename_i hbb
              have bb : b.b = 0 := by simpa using hbb
              exact row_eq_of a b hle' (by rw [ab, bb]) hcf (by rw [ha5 ab, hb5 bb])
            · omega
          · split at h
            · omega
            · split at h
              · rename_i hc2
                rw [h] at hc2; simp at hc2
              · rename_i hc2
                have hbeq : a.b = b.b := cmpInt_eq_zero _ _ (by simpa using hc2)
                exact row_eq_of a b hle' hbeq hcf (cmpInt_eq_zero _ _ h)

end PPLV.PolyFull
