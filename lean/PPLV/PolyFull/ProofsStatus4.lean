import PPLV.PolyFull.ProofsStatus3
import PPLV.PolyStatus.ProofsB

/-!
# Integration stage — the full model against the status-protocol model, part 4

* the ghost conditions are satisfiable by a change of ghost Booleans only (`…Ghost_ex`);
* `needGens`: the full `process_pending_constraints()` keeps `G_UP_TO_DATE` when it answers "not empty";
  the abstract idiom uses ONE ghost input for its (at most) two engine calls, so the simulation is stated
  for status words with `CS_PENDING → G_UP_TO_DATE` (a clause of `Status::OK()`), where only one runs;
* accessors of `Sim`.
-/
namespace PPLV.PolyFull
open PPLV.PolyOps
open PPLV.PolyStatus (PState Gh)

attribute [local simp] FPoly.st FPoly.nnc FPoly.dim FPoly.withSt FPoly.withCs FPoly.withGs

/-! ## accessors -/
theorem Sim.em {x : FPoly} {s : PState} (h : Sim x s) : s.b .em = x.p.st.empty := h.1
theorem Sim.cup {x : FPoly} {s : PState} (h : Sim x s) : s.b .cup = x.p.st.cUp := h.2.1
theorem Sim.gup {x : FPoly} {s : PState} (h : Sim x s) : s.b .gup = x.p.st.gUp := h.2.2.1
theorem Sim.cmin {x : FPoly} {s : PState} (h : Sim x s) : s.b .cmin = x.p.st.cMin := h.2.2.2.1
theorem Sim.gmin {x : FPoly} {s : PState} (h : Sim x s) : s.b .gmin = x.p.st.gMin := h.2.2.2.2.1
theorem Sim.satc {x : FPoly} {s : PState} (h : Sim x s) : s.b .satc = x.p.st.satC := h.2.2.2.2.2.1
theorem Sim.satg {x : FPoly} {s : PState} (h : Sim x s) : s.b .satg = x.p.st.satG := h.2.2.2.2.2.2.1
theorem Sim.cpend {x : FPoly} {s : PState} (h : Sim x s) : s.b .cpend = x.p.st.cPend := h.2.2.2.2.2.2.2.1
theorem Sim.gpend {x : FPoly} {s : PState} (h : Sim x s) : s.b .gpend = x.p.st.gPend := h.2.2.2.2.2.2.2.2.1
theorem Sim.dim {x : FPoly} {s : PState} (h : Sim x s) : s.dim = x.p.dim := h.2.2.2.2.2.2.2.2.2.1
theorem Sim.nnc {x : FPoly} {s : PState} (h : Sim x s) : s.nnc = x.p.nnc := h.2.2.2.2.2.2.2.2.2.2.1
theorem Sim.csS {x : FPoly} {s : PState} (h : Sim x s) : s.b .csS = x.p.cs.sorted := h.2.2.2.2.2.2.2.2.2.2.2.1
theorem Sim.gsS {x : FPoly} {s : PState} (h : Sim x s) : s.b .gsS = x.p.gs.sorted := h.2.2.2.2.2.2.2.2.2.2.2.2

/-! ## the ghost conditions are satisfiable by a change of ghost Booleans only -/

theorem ugGhost_ex (x : FPoly) (s : PState) : ∃ (g : Gh) (s' : PState), SameStored s s' ∧ UgGhost x g s' :=
  ⟨{ srcS := x.ugOut.source.sorted }, s.set .emp x.ugOut.empty, SameStored.set_ghost s .emp _ rfl,
    ⟨by simp, fun _ => rfl⟩⟩

theorem ppcGhost_ex (x : FPoly) (s : PState) : ∃ (g : Gh) (s' : PState), SameStored s s' ∧ PpcGhost x.ppcPrep g s' :=
  ⟨x.ppcGh, x.ppcSt s, ppcSt_sameStored x s, ppcGhost_canon x s⟩

theorem ppgGhost_ex (x : FPoly) (s : PState) : ∃ (g : Gh) (s' : PState), SameStored s s' ∧ PpgGhost x.ppgPrep g s' :=
  ⟨x.ppgGh, x.ppgSt s, ppgSt_sameStored x s, ppgGhost_canon x s⟩

theorem ppGhost_ex (x : FPoly) (s : PState) : ∃ (g : Gh) (s' : PState), SameStored s s' ∧ PpGhost x g s' := by
  rcases (Bool.eq_false_or_eq_true x.p.st.cPend).symm with c | c
  · obtain ⟨g, s', h1, h2⟩ := ppgGhost_ex x s
    exact ⟨g, s', h1, ⟨fun hc => (by rw [c] at hc; cases hc), fun _ => h2⟩⟩
  · obtain ⟨g, s', h1, h2⟩ := ppcGhost_ex x s
    exact ⟨g, s', h1, ⟨fun _ => h2, fun hc => (by rw [c] at hc; cases hc)⟩⟩

theorem minGhost_ex (x : FPoly) (s : PState) : ∃ (g : Gh) (s' : PState), SameStored s s' ∧ MinGhost x g s' := by
  rcases (Bool.eq_false_or_eq_true x.p.st.somethingPending).symm with c | c
  · rcases (Bool.eq_false_or_eq_true x.p.st.cUp).symm with e | e
    · exact ⟨{ srcS := x.ucOut.source.sorted }, s, SameStored.refl s,
        ⟨fun _ _ hc => (by rw [c] at hc; cases hc), fun _ _ _ _ he => (by rw [e] at he; cases he), fun _ _ _ _ _ => rfl⟩⟩
    · obtain ⟨g, s', h1, h2⟩ := ugGhost_ex x s
      exact ⟨g, s', h1,
        ⟨fun _ _ hc => (by rw [c] at hc; cases hc), fun _ _ _ _ _ => h2, fun _ _ _ _ he => (by rw [e] at he; cases he)⟩⟩
  · obtain ⟨g, s', h1, h2⟩ := ppGhost_ex x s
    exact ⟨g, s', h1,
      ⟨fun _ _ _ => h2, fun _ _ hc => (by rw [c] at hc; cases hc), fun _ _ hc => (by rw [c] at hc; cases hc)⟩⟩

theorem needConsGhost_ex (x : FPoly) (s : PState) :
    ∃ (g : Gh) (s' : PState), SameStored s s' ∧ NeedConsGhost x g s' := by
  rcases (Bool.eq_false_or_eq_true x.p.st.gPend).symm with c | c
  · exact ⟨{ srcS := x.ucOut.source.sorted }, s, SameStored.refl s,
      ⟨fun hc => (by rw [c] at hc; cases hc), fun _ _ => rfl⟩⟩
  · obtain ⟨g, s', h1, h2⟩ := ppgGhost_ex x s
    exact ⟨g, s', h1, ⟨fun _ => h2, fun hc => (by rw [c] at hc; cases hc)⟩⟩

/-! ## `process_pending_constraints()` keeps `G_UP_TO_DATE` (and the other bits it does not own) -/

theorem ppcPrep_keeps (x : FPoly) :
    x.ppcPrep.p.st.gUp = x.p.st.gUp ∧ x.ppcPrep.p.st.cUp = x.p.st.cUp ∧ x.ppcPrep.p.st.empty = x.p.st.empty
    ∧ x.ppcPrep.p.st.gPend = x.p.st.gPend ∧ x.ppcPrep.p.st.cMin = x.p.st.cMin ∧ x.ppcPrep.p.st.gMin = x.p.st.gMin
    ∧ x.ppcPrep.p.dim = x.p.dim ∧ x.ppcPrep.p.nnc = x.p.nnc := by
  obtain ⟨⟨nnc, dim, ⟨e, cu, gu, cm, gm, sc, sg, cp, gp⟩, ⟨cr, cf, csrt⟩, ⟨gr, gf, gsrt⟩⟩, mC, mG⟩ := x
  cases csrt <;> cases sc <;> cases sg <;>
    simp [FPoly.ppcPrep, FPoly.obtainSortedConstraintsWithSatC, FPoly.updateSatC]

theorem processPendingConstraints_keeps (x : FPoly) (h : x.processPendingConstraints.1 = true) :
    x.processPendingConstraints.2.p.st.gUp = x.p.st.gUp
    ∧ x.processPendingConstraints.2.p.st.cUp = x.p.st.cUp
    ∧ x.processPendingConstraints.2.p.st.empty = x.p.st.empty
    ∧ x.processPendingConstraints.2.p.st.gPend = x.p.st.gPend
    ∧ x.processPendingConstraints.2.p.st.cPend = false
    ∧ x.processPendingConstraints.2.p.dim = x.p.dim ∧ x.processPendingConstraints.2.p.nnc = x.p.nnc := by
  obtain ⟨k1, k2, k3, k4, _, _, k7, k8⟩ := ppcPrep_keeps x
  rw [FPoly.processPendingConstraints_eq] at h ⊢
  unfold FPoly.ppcFin at h ⊢
  generalize x.ppcPrep.ppcNoPend = np at *
  generalize x.ppcPrep.ppcOut = o at *
  cases np <;> rcases (Bool.eq_false_or_eq_true o.empty).symm with b | b <;> simp_all

/-! ## `needGens` -/

structure NeedGensGhost (x : FPoly) (g : Gh) (s : PState) : Prop where
  ppc : x.p.st.cPend = true → PpcGhost x.ppcPrep g s
  ug : x.p.st.cPend = false → x.p.st.gUp = false → UgGhost x g s

/-- the idiom "the generators are required" on a status word with `CS_PENDING → G_UP_TO_DATE` -/
theorem needGens_sim (x : FPoly) (s : PState) (g : Gh) (h : Sim x s)
    (hl : x.p.st.cPend = true → x.p.st.gUp = true) (hg : NeedGensGhost x g s) :
    (PPLV.PolyStatus.needGens g s).1 = x.needGens.1 ∧ Sim x.needGens.2 (PPLV.PolyStatus.needGens g s).2 := by
  have h' := h
  sim_hyps h'
  rcases (Bool.eq_false_or_eq_true x.p.st.cPend).symm with c | c
  · rcases (Bool.eq_false_or_eq_true x.p.st.gUp).symm with d | d
    · have e1 : x.needGens = (!x.updateGenerators.1, x.updateGenerators.2) := by simp [FPoly.needGens, c, d]
      have e2 : PPLV.PolyStatus.needGens g s
          = (!(PPLV.PolyStatus.updateGenerators g s).1, (PPLV.PolyStatus.updateGenerators g s).2) := by
        simp [PPLV.PolyStatus.needGens, pst, *]
      obtain ⟨m1, m2⟩ := updateGenerators_sim' x s g h (hg.ug c d)
      rw [e1, e2]; exact ⟨by simp [m1], m2⟩
    · have e1 : x.needGens = (false, x) := by simp [FPoly.needGens, c, d]
      have e2 : PPLV.PolyStatus.needGens g s = (false, s) := by simp [PPLV.PolyStatus.needGens, pst, *]
      rw [e1, e2]; exact ⟨rfl, h⟩
  · obtain ⟨m1, m2⟩ := processPendingConstraints_sim x s g h (hg.ppc c)
    have gu := m2.gup
    rcases (Bool.eq_false_or_eq_true x.processPendingConstraints.1).symm with r | r
    · have e1 : x.needGens = (true, x.processPendingConstraints.2) := by simp [FPoly.needGens, c, r]
      have e2 : PPLV.PolyStatus.needGens g s = (true, (PPLV.PolyStatus.processPendingConstraints g s).2) := by
        simp [PPLV.PolyStatus.needGens, pst, h8, c, m1, r]
      rw [e1, e2]; exact ⟨rfl, m2⟩
    · have k := (processPendingConstraints_keeps x r).1
      rw [hl c] at k
      have e1 : x.needGens = (false, x.processPendingConstraints.2) := by simp [FPoly.needGens, c, r, k]
      have e2 : PPLV.PolyStatus.needGens g s = (false, (PPLV.PolyStatus.processPendingConstraints g s).2) := by
        rw [k] at gu
        simp [PPLV.PolyStatus.needGens, pst, h8, c, m1, r, gu]
      rw [e1, e2]; exact ⟨rfl, m2⟩

theorem needGensGhost_ex (x : FPoly) (s : PState) :
    ∃ (g : Gh) (s' : PState), SameStored s s' ∧ NeedGensGhost x g s' := by
  rcases (Bool.eq_false_or_eq_true x.p.st.cPend).symm with c | c
  · obtain ⟨g, s', h1, h2⟩ := ugGhost_ex x s
    exact ⟨g, s', h1, ⟨fun hc => (by rw [c] at hc; cases hc), fun _ _ => h2⟩⟩
  · obtain ⟨g, s', h1, h2⟩ := ppcGhost_ex x s
    exact ⟨g, s', h1, ⟨fun _ => h2, fun hc => (by rw [c] at hc; cases hc)⟩⟩

theorem needGens_matches (x : FPoly) (s : PState) (h : Sim x s) (hl : x.p.st.cPend = true → x.p.st.gUp = true) :
    ∃ (g : Gh) (s' : PState), SameStored s s' ∧ Sim x s' ∧
      (PPLV.PolyStatus.needGens g s').1 = x.needGens.1 ∧ Sim x.needGens.2 (PPLV.PolyStatus.needGens g s').2 := by
  obtain ⟨g, s', k1, k2⟩ := needGensGhost_ex x s
  exact ⟨g, s', k1, h.of_sameStored k1, needGens_sim x s' g (h.of_sameStored k1) hl k2⟩

end PPLV.PolyFull
