import PPLV.PolyFull.ProofsObs5

/-!
# Integration stage — the binary observers, part 6: `obtain_sorted_generators()` keeps the invariant

On an object with minimized generators and nothing pending, each of the four branches of
`obtain_sorted_generators()` (Polyhedron_nonpublic.cc:1003) re-orders the generator system, keeps the
row set, and — when the object is a minimal pair with an exact saturation matrix — permutes the rows of
that matrix along (`sortSat_vgl`), so that `FPoly.Inv` is kept (`osg_obs_keeps`).
-/
namespace PPLV.PolyFull
open PPLV.Lin PPLV.PolyOps
open PPLV.Conv (LRow BRow Vec Sound SatCorrect holds holdsAll Generated)

/-- sorting duplicate-free rows (nothing pending) together with their exact saturation rows -/
theorem sortSat_vgl (gen nnc0 nnc : Bool) (cols : List Row) (s : Sys) (m : BitMat)
    (hfp : s.firstPending = s.rows.length) (hnd : s.rows.Nodup) (hV : VGl nnc cols s.rows m) :
    (s.sortAndRemoveWithSat gen nnc0 m).1.rows.Perm s.rows ∧
    VGl nnc cols (s.sortAndRemoveWithSat gen nnc0 m).1.rows (s.sortAndRemoveWithSat gen nnc0 m).2 := by
  have hsl : m.rows.length = s.rows.length := by rw [hV.1.1, List.length_map]
  obtain ⟨ps, hperm, h1, h2, h3⟩ := sortSat_perm gen nnc0 s m hfp hnd hsl
  have hz1 : (s.rows.zip m.rows).map (·.1) = s.rows := List.map_fst_zip (by omega)
  have hz2 : (s.rows.zip m.rows).map (·.2) = m.rows := List.map_snd_zip (by omega)
  refine ⟨by rw [h1, ← hz1]; exact hperm.map _, ?_, by rw [h3]; exact hV.2⟩
  rw [h1, h2]
  apply satCorrect_perm nnc _ _ _ hperm
  rw [hz1, hz2]
  exact hV.1

/-! ## the branches of `obtain_sorted_generators()` -/

/-- :1011 `gen_sys.sort_and_remove_with_sat(sat_c)` -/
def osgB (x : FPoly) : FPoly :=
  ⟨{ x.p with gs := (x.p.gs.sortAndRemoveWithSat true x.p.nnc x.satC).1,
              st := { x.p.st with satG := false } },
   (x.p.gs.sortAndRemoveWithSat true x.p.nnc x.satC).2, x.satG⟩
/-- :1016 `sat_c.transpose_assign(sat_g); gen_sys.sort_and_remove_with_sat(sat_c)` -/
def osgC (x : FPoly) : FPoly :=
  ⟨{ x.p with gs := (x.p.gs.sortAndRemoveWithSat true x.p.nnc x.satG.transposeOf).1,
              st := { x.p.st with satC := true, satG := false } },
   (x.p.gs.sortAndRemoveWithSat true x.p.nnc x.satG.transposeOf).2, x.satG⟩
/-- :1024 `gen_sys.sort_rows()` -/
def osgD (x : FPoly) : FPoly := x.withGs (x.p.gs.sortRows true x.p.nnc)

theorem osg_obs_eq (x : FPoly) : x.obtainSortedGenerators =
    if x.p.gs.sorted then x else if x.p.st.satC then osgB x else if x.p.st.satG then osgC x
    else osgD x := rfl

/-- the conclusions `SortedObsKeep.gens` asks for -/
def KeepG (x y : FPoly) (S : Set Val) : Prop :=
  y.Inv S ∧ x.SameShape y ∧ y.p.st.empty = false ∧ y.p.st.gUp = true ∧ y.p.st.cPend = false

theorem osg_obs_keeps (x : FPoly) (S : Set Val) (hx : x.Inv S) (hne : x.p.st.empty = false)
    (hgm : x.p.st.gMin = true) (hsp : x.p.st.somethingPending = false) :
    KeepG x x.obtainSortedGenerators S := by
  have hgu := legal_gMin hx.legal hgm
  have hcp : x.p.st.cPend = false := by
    unfold Status.somethingPending at hsp; cases h : x.p.st.cPend <;> simp_all
  have hgp : x.p.st.gPend = false := by
    unfold Status.somethingPending at hsp; cases h : x.p.st.gPend <;> simp_all
  have hfp : x.p.gs.firstPending = x.p.gs.rows.length := (hx.fpG hne hgu).2 hgp
  have hnpG : x.npG = x.p.gs.rows := by unfold FPoly.npG; rw [hfp, List.take_length]
  rw [osg_obs_eq]
  by_cases hs : x.p.gs.sorted = true
  · rw [if_pos hs]; exact ⟨hx, ⟨rfl, rfl⟩, hne, hgu, hcp⟩
  rw [if_neg hs]
  by_cases hC : x.p.st.satC = true
  · rw [if_pos hC]
    obtain ⟨m1, m2⟩ := sortSat_mem true x.p.nnc x.p.gs x.satC hfp
    refine ⟨?_, ⟨rfl, rfl⟩, hne, hgu, hcp⟩
    refine Inv_resortG x S hx hne hgu hcp hgp _ { x.p.st with satG := false } _ _
      ⟨rfl, rfl, rfl, rfl, rfl, rfl, rfl⟩ (by simp [hC]) m2 m1 (fun hcan => ?_)
    have E := hx.eng hne hcan
    rw [hnpG] at E
    obtain ⟨hp, hV⟩ := sortSat_vgl true x.p.nnc x.p.nnc x.npC x.p.gs x.satC hfp E.nodupG (E.satC hC)
    have P := E.permG hp (x.p.gs.sortAndRemoveWithSat true x.p.nnc x.satC).2 x.satG (fun _ => hV)
    exact ⟨P.sound, P.complete, P.minC, P.minG, P.minL, fun _ => hV, fun h => (by cases h)⟩
  rw [if_neg hC]
  have hC' : x.p.st.satC = false := by simpa using hC
  by_cases hG : x.p.st.satG = true
  · rw [if_pos hG]
    obtain ⟨m1, m2⟩ := sortSat_mem true x.p.nnc x.p.gs x.satG.transposeOf hfp
    refine ⟨?_, ⟨rfl, rfl⟩, hne, hgu, hcp⟩
    refine Inv_resortG x S hx hne hgu hcp hgp _ { x.p.st with satC := true, satG := false } _ _
      ⟨rfl, rfl, rfl, rfl, rfl, rfl, rfl⟩ (by simp [hG]) m2 m1 (fun hcan => ?_)
    have E := hx.eng hne hcan
    rw [hnpG] at E
    have hV0 : VCl x.p.nnc x.npC x.p.gs.rows x.satG := E.satG hG
    obtain ⟨hp, hV⟩ := sortSat_vgl true x.p.nnc x.p.nnc x.npC x.p.gs x.satG.transposeOf hfp E.nodupG
      hV0.transpose
    have P := E.permG hp (x.p.gs.sortAndRemoveWithSat true x.p.nnc x.satG.transposeOf).2 x.satG
      (fun _ => hV)
    exact ⟨P.sound, P.complete, P.minC, P.minG, P.minL, fun _ => hV, fun h => (by cases h)⟩
  rw [if_neg hG]
  have hG' : x.p.st.satG = false := by simpa using hG
  refine ⟨?_, ⟨rfl, rfl⟩, hne, hgu, hcp⟩
  have hcan : x.p.st.canPend = false := by unfold Status.canPend; rw [hC', hG']; simp
  have hI := Inv_resortG x S hx hne hgu hcp hgp (x.p.gs.sortRows true x.p.nnc) x.p.st x.satC x.satG
    (.refl _) rfl
    (fun r => by
      show r ∈ sortRowList true x.p.nnc (x.p.gs.rows.take x.p.gs.firstPending)
        ++ x.p.gs.rows.drop x.p.gs.firstPending ↔ _
      rw [hfp, List.take_length, List.drop_length, List.append_nil, mem_sortRowList])
    (by
      show (sortRowList true x.p.nnc (x.p.gs.rows.take x.p.gs.firstPending)).length
        = (sortRowList true x.p.nnc (x.p.gs.rows.take x.p.gs.firstPending)
            ++ x.p.gs.rows.drop x.p.gs.firstPending).length
      rw [hfp, List.drop_length, List.append_nil])
    (fun h => by rw [hcan] at h; cases h)
  exact hI

end PPLV.PolyFull
