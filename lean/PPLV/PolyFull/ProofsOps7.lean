import PPLV.PolyFull.ProofsOps2
import PPLV.PolyOps.ProofsLattice12

/-!
# Integration stage — `topological_closure_assign` refines `RefPoly.closure`

PARTIAL: on the constraint path (`con_sys` up to date, no pending generators, some strict row
relaxed) the constraint system is REPLACED by the relaxed rows plus `ε ≤ 1`; `LowLevel` of that system
is the explicit hypothesis `hLow`.  The generator paths (`add_corresponding_points`, pending or not),
the unchanged path and the trivial / empty paths are fully proved.
-/
namespace PPLV.PolyFull
open PPLV.Lin PPLV.PolyOps

set_option maxRecDepth 4000 in
theorem legalZ_replaceC : ∀ (e cu gu cm gm sc sg cp gp z : Bool),
    legalZ ⟨e, cu, gu, cm, gm, sc, sg, cp, gp⟩ z = true → e = false → cu = true → cp = false →
    legalZ (({ (⟨e, cu, gu, cm, gm, sc, sg, cp, gp⟩ : Status) with cMin := false }).clearGUp) z = true := by
  decide

theorem legal_replaceC {s : Status} {d : Nat} (h : statusLegalB s d = true) (he : s.empty = false)
    (hc : s.cUp = true) (hcp : s.cPend = false) :
    statusLegalB (({ s with cMin := false }).clearGUp) d = true := by
  obtain ⟨e, cu, gu, cm, gm, sc, sg, cp, gp⟩ := s
  exact legalZ_replaceC _ _ _ _ _ _ _ _ _ _ h he hc hcp

/-- the constraint system replaced wholesale (`LowLevel` of the new one given) -/
theorem Inv_replaceC (X : FPoly) (S S' : Set Val) (cs' : Sys) (hX : X.Inv S)
    (he : X.p.st.empty = false) (hc : X.p.st.cUp = true) (hcp : X.p.st.cPend = false)
    (hfp : cs'.firstPending = cs'.rows.length) (hlow : LowLevel X.p.nnc X.p.dim cs'.rows)
    (hwf : ({ X.p with cs := cs', st := ({ X.p.st with cMin := false }).clearGUp } : Poly).WF)
    (hden : ({ X.p with cs := cs', st := ({ X.p.st with cMin := false }).clearGUp } : Poly).Denotes S') :
    ({ X with p := { X.p with cs := cs', st := ({ X.p.st with cMin := false }).clearGUp } } : FPoly).Inv S' := by
  refine ⟨hwf, hden, legal_replaceC hX.legal he hc hcp, fun _ _ => ⟨le_of_eq hfp, fun _ => hfp⟩,
    fun _ h => (by cases h), fun _ _ => hlow, ?_,
    fun _ h => (by cases h), fun _ h => (by simp [Status.canPend, Status.clearGUp] at h)⟩
  intro _ h
  rw [show X.p.st.cPend = true from h] at hcp; cases hcp

theorem tca_trivial (p : Poly) (h : (!p.nnc || p.st.empty || p.dim == 0) = true) :
    p.topological_closure_assign = some p := by
  unfold Poly.topological_closure_assign
  cases hn : p.nnc
  · simp
  · rw [hn] at h
    simp only [Bool.not_true, Bool.false_or] at h
    simp [h]

/-- the constraint system the constraint path installs -/
def tcaCs (p : Poly) : Sys :=
  { rows := (p.cs.rows.map fun c =>
              if decide (c.eps < 0) && !c.isTautological then ({ c with eps := 0 } : Row).normalize else c)
              ++ [⟨false, 1, List.replicate p.dim 0, -1⟩],
    firstPending := (p.cs.rows.map fun c =>
              if decide (c.eps < 0) && !c.isTautological then ({ c with eps := 0 } : Row).normalize else c).length + 1,
    sorted := false }

/-- the generator system the non-pending generator path installs -/
def tcaGs (p : Poly) : Sys :=
  { rows := addCorrespondingPoints p.gs.rows, firstPending := (addCorrespondingPoints p.gs.rows).length,
    sorted := false }

/-- the row-level operator on the prepared receiver -/
theorem tca_core (x : FPoly) (S S' : Set Val) (hi : x.Inv S) (hnn : x.p.nnc = true)
    (he : x.p.st.empty = false) (hd : x.p.dim ≠ 0) (hgu : x.p.st.gUp = true) (hcp : x.p.st.cPend = false)
    (hden : ∀ q, x.p.topological_closure_assign = some q → q.Denotes S')
    (hLow : ∀ q, x.p.topological_closure_assign = some q → q.st.empty = false → q.st.cUp = true →
      q.st.gUp = false → LowLevel q.nnc q.dim q.cs.rows) :
    (x.liftO x.p.topological_closure_assign).Inv S' ∧
    (x.liftO x.p.topological_closure_assign).p.nnc = x.p.nnc ∧
    (x.liftO x.p.topological_closure_assign).p.dim = x.p.dim := by
  have hwfq : ∀ q, x.p.topological_closure_assign = some q → q.WF := fun q h =>
    topological_closure_assign_rows_wf x.p q hi.wf (fun h => (legal_canPend_up hi.legal h).1)
      (legal_gPend_canPend hi.legal) h
  have hd' : ¬ ((x.p.dim == 0) = true) := by simpa using hd
  have hform : x.p.topological_closure_assign =
      (if (!x.p.st.gPend && x.p.st.cUp) = true then
        (if (x.p.cs.rows.any fun c => decide (c.eps < 0) && !c.isTautological) = true then
          some { x.p with cs := tcaCs x.p, st := ({ x.p.st with cMin := false }).clearGUp }
         else some x.p)
       else if x.p.st.canPend = true then
         some { x.p with gs := x.p.gs.insertPendingSys (corrPoints x.p.gs.rows), st := { x.p.st with gPend := true } }
       else
         some { x.p with gs := tcaGs x.p, st := ({ x.p.st with gMin := false }).clearCUp }) := by
    unfold Poly.topological_closure_assign
    rw [if_neg (by simp [hnn]), if_neg (by simp [he, hd']), if_neg (by simp [hcp, hgu])]
    rfl
  rw [hform] at hden hLow hwfq ⊢
  by_cases hc2 : (!x.p.st.gPend && x.p.st.cUp) = true
  · rw [if_pos hc2] at hden hLow hwfq ⊢
    have hcu : x.p.st.cUp = true := by
      cases hh : x.p.st.cUp
      · simp [hh] at hc2
      · rfl
    by_cases hch : (x.p.cs.rows.any fun c => decide (c.eps < 0) && !c.isTautological) = true
    · rw [if_pos hch] at hden hLow hwfq ⊢
      have hI := Inv_replaceC x S S' (tcaCs x.p) hi he hcu hcp (by simp [tcaCs])
        (hLow _ rfl (by simp [Status.clearGUp, he]) (by simp [Status.clearGUp, hcu]) (by simp [Status.clearGUp]))
        (hwfq _ rfl) (hden _ rfl)
      have hlift := lift_of_nonempty x
        ({ x.p with cs := tcaCs x.p, st := ({ x.p.st with cMin := false }).clearGUp })
        (by simp [Status.clearGUp, he])
      show (x.lift _).Inv S' ∧ (x.lift _).p.nnc = _ ∧ (x.lift _).p.dim = _
      rw [hlift]
      exact ⟨hI, rfl, rfl⟩
    · rw [if_neg hch] at hden hLow hwfq ⊢
      obtain ⟨h1, h2⟩ := Inv_lift_same x S S' hi (hden _ rfl)
      exact ⟨h1, h2.1, h2.2⟩
  · rw [if_neg hc2] at hden hLow hwfq ⊢
    by_cases hcan : x.p.st.canPend = true
    · rw [if_pos hcan] at hden hLow hwfq ⊢
      have hI := Inv_pendG x S S' (corrPoints x.p.gs.rows) hi he hgu hcp hcan (hwfq _ rfl) (hden _ rfl)
      have hlift := lift_of_nonempty x
        ({ x.p with gs := x.p.gs.insertPendingSys (corrPoints x.p.gs.rows), st := { x.p.st with gPend := true } })
        he
      show (x.lift _).Inv S' ∧ (x.lift _).p.nnc = _ ∧ (x.lift _).p.dim = _
      rw [hlift]
      exact ⟨hI, rfl, rfl⟩
    · rw [if_neg hcan] at hden hLow hwfq ⊢
      have hcan' : x.p.st.canPend = false := by simpa using hcan
      have hI := Inv_nonpendG x S S' (tcaGs x.p) hi he hgu hcan' rfl (hwfq _ rfl) (hden _ rfl)
      have hlift := lift_of_nonempty x
        ({ x.p with gs := tcaGs x.p, st := ({ x.p.st with gMin := false }).clearCUp })
        (by simp [Status.clearCUp, he])
      show (x.lift _).Inv S' ∧ (x.lift _).p.nnc = _ ∧ (x.lift _).p.dim = _
      rw [hlift]
      exact ⟨hI, rfl, rfl⟩

/-- **`Polyhedron::topological_closure_assign()`, the whole object.**  PARTIAL: `hLow` assumes the
    field `low` of the RESULT on the constraint path only (result not marked empty, constraints up to
    date, generators NOT up to date: the relaxed constraint system with `ε ≤ 1` has replaced `con_sys`).
    Every other path and field is proved. -/
theorem topologicalClosureAssign_refines_partial (G : GlueFacts) (x : FPoly) (ref : RefPoly)
    (hn : ref.n = x.p.dim) (hwf : WF ref.n ref.cs) (hx : x.Inv (sem ref.cs))
    (hLow : x.topologicalClosureAssign.p.st.empty = false → x.topologicalClosureAssign.p.st.cUp = true →
      x.topologicalClosureAssign.p.st.gUp = false →
      LowLevel x.topologicalClosureAssign.p.nnc x.topologicalClosureAssign.p.dim
        x.topologicalClosureAssign.p.cs.rows) :
    x.topologicalClosureAssign.Inv (sem ref.closure.cs) ∧ x.SameShape x.topologicalClosureAssign := by
  by_cases htriv : (!x.nnc || x.st.empty || x.dim == 0) = true
  · have hR : x.topologicalClosureAssign = x := by
      unfold FPoly.topologicalClosureAssign; rw [if_pos htriv]
    rw [hR]
    have hq := tca_trivial x.p htriv
    exact ⟨hx.change (topological_closure_assign_rows_correct_full x.p x.p ref hn hwf hx.wf hx.den hq), rfl, rfl⟩
  · have htriv' := htriv
    simp only [Bool.or_eq_true, not_or, Bool.not_eq_true, Bool.not_eq_true', Bool.not_eq_false] at htriv'
    obtain ⟨⟨hnn, hex⟩, hd0⟩ := htriv'
    have hd : x.p.dim ≠ 0 := by simpa [FPoly.dim] using hd0
    obtain ⟨hs, hi, hiff, hemp, hne⟩ := G.isEmpty x _ hx
    have hn' : ref.n = x.isEmpty.2.p.dim := by rw [hs.2]; exact hn
    cases he1 : x.isEmpty.1
    · obtain ⟨hne2, hgc⟩ := hne he1
      obtain ⟨hgu, hcp⟩ := hgc (Nat.pos_of_ne_zero hd)
      have hR : x.topologicalClosureAssign = x.isEmpty.2.liftO x.isEmpty.2.p.topological_closure_assign := by
        unfold FPoly.topologicalClosureAssign
        rw [if_neg htriv]
        have hcp' : x.isEmpty.2.st.cPend = false := hcp
        simp only [he1, Bool.false_eq_true, if_false, hcp', Bool.not_true, ite_self]
      rw [hR] at hLow ⊢
      obtain ⟨h1, h2, h3⟩ := tca_core x.isEmpty.2 _ (sem ref.closure.cs) hi (by rw [hs.1]; exact hnn) hne2
        (by rw [hs.2]; exact hd) hgu hcp
        (fun q h => topological_closure_assign_rows_correct_full _ q ref hn' hwf hi.wf hi.den h)
        (fun q h a b c => by
          rw [h] at hLow
          have hp : (x.isEmpty.2.liftO (some q)).p = q := lift_p _ _
          rw [hp] at hLow
          exact hLow a b c)
      exact ⟨h1, h2.trans hs.1, h3.trans hs.2⟩
    · have hR : x.topologicalClosureAssign = x.isEmpty.2 := by
        unfold FPoly.topologicalClosureAssign
        rw [if_neg htriv]
        simp only [he1, if_true]
      rw [hR]
      have hq := tca_trivial x.isEmpty.2.p (by rw [hemp he1]; simp)
      exact ⟨hi.change (topological_closure_assign_rows_correct_full _ _ ref hn' hwf hi.wf hi.den hq), hs⟩

end PPLV.PolyFull
