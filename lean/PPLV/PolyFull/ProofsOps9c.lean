import PPLV.PolyFull.ProofsOps9

/-!
# Integration stage — invertible `affine_image` / `affine_preimage` on a receiver that holds only its
generators: fully proved (no constraint rows to rewrite, nothing pending, `canPend = false`)
-/
namespace PPLV.PolyFull
open PPLV.Lin PPLV.PolyOps

set_option maxRecDepth 4000 in
theorem legalZ_noC : ∀ (e cu gu cm gm sc sg cp gp z : Bool),
    legalZ ⟨e, cu, gu, cm, gm, sc, sg, cp, gp⟩ z = true → cu = false →
    (cm && gm && (sc || sg)) = false ∧ cp = false ∧ gp = false := by
  decide

theorem legal_noC {s : Status} {d : Nat} (h : statusLegalB s d = true) (hc : s.cUp = false) :
    s.canPend = false ∧ s.cPend = false ∧ s.gPend = false := by
  obtain ⟨e, cu, gu, cm, gm, sc, sg, cp, gp⟩ := s
  exact legalZ_noC _ _ _ _ _ _ _ _ _ _ h hc

/-- `affine_image` on a receiver whose constraints are not up to date: fully proved -/
theorem affineImage_refines_gensOnly (G : GlueFacts) (x : FPoly) (ref : RefPoly) (v : Nat) (e : LinExpr)
    (den : Int) (hn : ref.n = x.p.dim) (hnnc : ref.nnc = x.p.nnc) (hwf : WF ref.n ref.cs)
    (hv : v < x.p.dim) (he : e.coeffs.length = x.p.dim) (hden : den ≠ 0) (hx : x.Inv (sem ref.cs))
    (hcu : x.p.st.cUp = false) :
    (x.affineImage v e den).Inv (sem (ref.affineImage v e den).cs) ∧ x.SameShape (x.affineImage v e den) := by
  obtain ⟨h1, h2, h3⟩ := legal_noC hx.legal hcu
  have hst : e.coeffs.getD v 0 ≠ 0 → x.p.st.empty = false → (x.affineImage v e den).p.st = x.p.st := by
    intro hc hex
    obtain ⟨q, hq, hp⟩ := affineImage_inv_p x v e den hex hc
    rw [hp]
    exact (affine_image_inv_shape x.p q v e den hex hc hq).1
  refine affineImage_refines_partial' G x ref v e den hn hnnc hwf hv he hden hx ?_ ?_ ?_
  · intro hc hex h; rw [hst hc hex, hcu] at h; cases h
  · intro hc hex h; rw [hst hc hex, h3] at h; cases h
  · intro hc hex h; rw [hst hc hex, h1] at h; cases h

/-- invertible `affine_preimage` on a receiver whose constraints are not up to date: fully proved -/
theorem affinePreimage_refines_gensOnly (G : GlueFacts) (x : FPoly) (ref : RefPoly) (v : Nat) (e : LinExpr)
    (den : Int) (hn : ref.n = x.p.dim) (hnnc : ref.nnc = x.p.nnc) (hwf : WF ref.n ref.cs)
    (hv : v < x.p.dim) (he : e.coeffs.length = x.p.dim) (hden : den ≠ 0) (hx : x.Inv (sem ref.cs))
    (hex : x.p.st.empty = false) (hc : e.coeffs.getD v 0 ≠ 0) (hcu : x.p.st.cUp = false) :
    (x.affinePreimage v e den).Inv (sem (ref.affinePreimage v e den).cs) ∧
      x.SameShape (x.affinePreimage v e den) := by
  obtain ⟨h1, h2, h3⟩ := legal_noC hx.legal hcu
  have hst : (x.affinePreimage v e den).p.st = x.p.st := by
    obtain ⟨q, hq, hp⟩ := affinePreimage_inv_p x v e den hex hc
    rw [hp]
    exact (affine_preimage_inv_shape x.p q v e den hex hc hq).1
  refine affinePreimage_refines_partial' G x ref v e den hn hnnc hwf hv he hden hx ?_ ?_ ?_
  · intro _ _ h; rw [hst, hcu] at h; cases h
  · intro _ _ h; rw [hst, h3] at h; cases h
  · intro _ _ h; rw [hst, h1] at h; cases h

end PPLV.PolyFull
