import PPLV.PolyFull.Public

/-!
# Integration stage — operations as data: `FPoly → Op → FPoly × Obs` on a pool of polyhedra

`Op` names the public methods of `PPLV/PolyFull/Public.lean`; `World.step` applies one to a pool of
objects (`slot` = receiver, `arg` = the `const` argument, which the lazy protocol updates too) and
returns what the caller observes (`Obs`).  Binary calls whose operands disagree in topology or
dimension (they throw) and aliased binary calls are no-ops here (`Op.admissible`).
-/
namespace PPLV.PolyFull
open PPLV.Lin PPLV.PolyOps

/-- what a call returns to its caller -/
inductive Obs
  | none
  | bool (b : Bool)
  | ext (e : Option FPoly.Ext)
deriving Repr, DecidableEq, Inhabited

inductive Op
  -- observers
  | isEmpty (s : Nat) | constraints (s : Nat) | generators (s : Nat)
  | minimizedConstraints (s : Nat) | minimizedGenerators (s : Nat)
  | contains (s t : Nat) | equals (s t : Nat)
  | relationWithGen (s : Nat) (k : FPoly.GKindA) (g : Row)
  | bounds (s : Nat) (e : LinExpr) (above : Bool)
  | maxMin (s : Nat) (e : LinExpr) (maximize : Bool)
  -- mutators
  | copy (d s : Nat)
  | addConstraint (s : Nat) (c : Row) | refineWithConstraint (s : Nat) (c : Row)
  | addGenerator (s : Nat) (k : FPoly.GKindA) (g : Row)
  | affineImage (s v : Nat) (e : LinExpr) (den : Int)
  | affinePreimage (s v : Nat) (e : LinExpr) (den : Int)
  | generalizedAffineImage (s v : Nat) (r : Rel) (e : LinExpr) (den : Int)
  | embed (s m : Nat) | project (s m : Nat)
  | removeDims (s : Nat) (vars : List Nat) | removeHigher (s nd : Nat)
  | unconstrain (s : Nat) (vars : List Nat)
  | closure (s : Nat)
  | boundedAffineImage (s v : Nat) (lb ub : LinExpr) (den : Int)
  | expand (s v m : Nat) | fold (s : Nat) (vars : List Nat) (dest : Nat) | mapDims (s : Nat) (f : List (Option Nat))
  | intersection (s t : Nat) | hull (s t : Nat) | timeElapse (s t : Nat) | concat (s t : Nat)
deriving Repr, Inhabited

def Op.isObserver : Op → Bool
  | .isEmpty _ | .constraints _ | .generators _ | .minimizedConstraints _ | .minimizedGenerators _
  | .contains _ _ | .equals _ _ | .relationWithGen _ _ _ | .bounds _ _ _ | .maxMin _ _ _ => true
  | _ => false

abbrev World := Nat → FPoly

def World.set (w : World) (i : Nat) (x : FPoly) : World := fun j => if j = i then x else w j

/-- the arguments are legal for the C++ (no exception) and the two operands are distinct objects -/
def Op.admissible (w : World) : Op → Bool
  | .contains s t | .equals s t | .intersection s t | .hull s t | .timeElapse s t =>
    s != t && (w s).nnc == (w t).nnc && (w s).dim == (w t).dim
  | .concat s t => s != t && (w s).nnc == (w t).nnc
  | .copy d s => d != s
  | .relationWithGen s _ g => g.cf.length == (w s).dim
  | .bounds s e _ | .maxMin s e _ => e.coeffs.length == (w s).dim
  | .addConstraint s c | .refineWithConstraint s c =>
    c.cf.length == (w s).dim && ((w s).nnc || c.eps == 0)
  | .addGenerator s k g =>
    g.cf.length == (w s).dim && ((w s).nnc || k != .cpoint) && (!(w s).st.empty || k == .point)
  | .affineImage s v e den | .affinePreimage s v e den =>
    v < (w s).dim && e.coeffs.length == (w s).dim && den != 0
  | .generalizedAffineImage s v r e den =>
    -- strict relation symbols only on NNC polyhedra
    v < (w s).dim && e.coeffs.length == (w s).dim && den != 0 && ((w s).nnc || r == .le || r == .eq || r == .ge)
  | .boundedAffineImage s v lb ub den =>
    v < (w s).dim && lb.coeffs.length == (w s).dim && ub.coeffs.length == (w s).dim && den != 0
  | .removeDims s vars => vars.all (· < (w s).dim) && vars.Pairwise (· < ·)
  | .removeHigher s nd => nd ≤ (w s).dim
  | .unconstrain s vars => vars.all (· < (w s).dim) && vars.Pairwise (· < ·)
  | .expand s v _ => v < (w s).dim
  | .fold s vars dest => vars.all (· < (w s).dim) && vars.Pairwise (· < ·) && dest < (w s).dim && !vars.contains dest
  | .mapDims s f =>
    -- a permutation of the dimensions, or nothing mapped
    f.length == (w s).dim &&
      (f.all (· == none) || (List.range (w s).dim).all fun k => (f.filter (· == some k)).length == 1)
  | _ => true

/-- one public call -/
def World.step (w : World) (op : Op) : World × Obs :=
  if !op.admissible w then (w, .none) else
  match op with
  | .isEmpty s => let r := (w s).isEmpty; (w.set s r.2, .bool r.1)
  | .constraints s => (w.set s (w s).constraints, .none)
  | .generators s => (w.set s (w s).generators, .none)
  | .minimizedConstraints s => (w.set s (w s).minimizedConstraints, .none)
  | .minimizedGenerators s => (w.set s (w s).minimizedGenerators, .none)
  | .contains s t => let r := (w s).contains (w t); ((w.set s r.2.1).set t r.2.2, .bool r.1)
  | .equals s t => let r := (w s).equals (w t); ((w.set s r.2.1).set t r.2.2, .bool r.1)
  | .relationWithGen s k g => let r := (w s).relationWithGen k g; (w.set s r.2, .bool r.1)
  | .bounds s e a => let r := (w s).bounds e a; (w.set s r.2, .bool r.1)
  | .maxMin s e m => let r := (w s).maxMin e m; (w.set s r.2, .ext r.1)
  | .copy d s => (w.set d (w s), .none)
  | .addConstraint s c => (w.set s ((w s).addConstraint c), .none)
  | .refineWithConstraint s c => (w.set s ((w s).addConstraint c), .none)
  | .addGenerator s k g => (w.set s ((w s).addGenerator k g), .none)
  | .affineImage s v e den => (w.set s ((w s).affineImage v e den), .none)
  | .affinePreimage s v e den => (w.set s ((w s).affinePreimage v e den), .none)
  | .generalizedAffineImage s v r e den => (w.set s ((w s).generalizedAffineImage v r e den), .none)
  | .embed s m => (w.set s ((w s).addSpaceDimensionsAndEmbed m), .none)
  | .project s m => (w.set s ((w s).addSpaceDimensionsAndProject m), .none)
  | .removeDims s vars => (w.set s ((w s).removeSpaceDimensions vars), .none)
  | .removeHigher s nd => (w.set s ((w s).removeHigherSpaceDimensions nd), .none)
  | .unconstrain s vars => (w.set s ((w s).unconstrain vars), .none)
  | .closure s => (w.set s (w s).topologicalClosureAssign, .none)
  | .boundedAffineImage s v lb ub den => (w.set s ((w s).boundedAffineImage v lb ub den), .none)
  | .expand s v m => (w.set s ((w s).expandSpaceDimension v m), .none)
  | .fold s vars dest => (w.set s ((w s).foldSpaceDimensions vars dest), .none)
  | .mapDims s f => (w.set s ((w s).mapSpaceDimensions f), .none)
  | .intersection s t => let r := (w s).intersectionAssign (w t); ((w.set s r.1).set t r.2, .none)
  | .hull s t => let r := (w s).polyHullAssign (w t); ((w.set s r.1).set t r.2, .none)
  | .timeElapse s t => let r := (w s).timeElapseAssign (w t); ((w.set s r.1).set t r.2, .none)
  | .concat s t => let r := (w s).concatenateAssign (w t); ((w.set s r.1).set t r.2, .none)

/-- a history: the world after the calls and the answers, in order -/
def World.run : World → List Op → World × List Obs
  | w, [] => (w, [])
  | w, op :: rest =>
    let r := w.step op
    let q := World.run r.1 rest
    (q.1, r.2 :: q.2)

/-- the slots a call may touch -/
def Op.slots : Op → List Nat
  | .isEmpty s | .constraints s | .generators s | .minimizedConstraints s | .minimizedGenerators s
  | .relationWithGen s _ _ | .bounds s _ _ | .maxMin s _ _ | .addConstraint s _ | .refineWithConstraint s _
  | .addGenerator s _ _ | .affineImage s _ _ _ | .affinePreimage s _ _ _ | .generalizedAffineImage s _ _ _ _
  | .embed s _ | .project s _ | .removeDims s _ | .removeHigher s _ | .unconstrain s _ | .closure s
  | .expand s _ _ | .fold s _ _ | .mapDims s _ | .boundedAffineImage s _ _ _ _ => [s]
  | .contains s t | .equals s t | .intersection s t | .hull s t | .timeElapse s t | .concat s t | .copy s t => [s, t]

end PPLV.PolyFull
