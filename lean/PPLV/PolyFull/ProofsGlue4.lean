import PPLV.PolyFull.ProofsGlue1

/-!
# Integration stage — `GlueFacts` from `ConvContract`, part 4: the sorting helpers keep the row sets

`sort_rows`, `sort_pending_and_remove_duplicates` on the exact row lists of `Sys.lean`; "the same rows
up to `toL`" (`ToLSub`) is what `conSem` and `LowLevel` see.
-/
namespace PPLV.PolyFull
open PPLV.Lin PPLV.PolyOps
open PPLV.Conv (LRow BRow Vec Sound SatCorrect holds holdsAll Generated)

/-! ### insertion sort with saturation rows -/

theorem mem_insertWith (gen nnc : Bool) (r x : Row × BRow) (l : List (Row × BRow)) :
    x ∈ insertWith gen nnc r l ↔ x = r ∨ x ∈ l := by
  induction l with
  | nil => simp [insertWith]
  | cons y ys ih =>
    simp only [insertWith]
    split
    · simp
    · simp only [List.mem_cons, ih]
      constructor
      · rintro (h | h | h)
        · exact Or.inr (Or.inl h)
        · exact Or.inl h
        · exact Or.inr (Or.inr h)
      · rintro (h | h | h)
        · exact Or.inr (Or.inl h)
        · exact Or.inl h
        · exact Or.inr (Or.inr h)

theorem mem_foldl_insertWith (gen nnc : Bool) (l acc : List (Row × BRow)) (x : Row × BRow) :
    x ∈ l.foldl (fun acc r => insertWith gen nnc r acc) acc ↔ x ∈ l ∨ x ∈ acc := by
  induction l generalizing acc with
  | nil => simp
  | cons y ys ih =>
    simp only [List.foldl_cons, ih, mem_insertWith, List.mem_cons]
    constructor
    · rintro (h | h | h)
      · exact Or.inl (Or.inr h)
      · exact Or.inl (Or.inl h)
      · exact Or.inr h
    · rintro ((h | h) | h)
      · exact Or.inr (Or.inl h)
      · exact Or.inl h
      · exact Or.inr (Or.inr h)

/-- `std::unique`: the rows (first components) are kept as a set -/
theorem mem_uniqueWith_fst (l : List (Row × BRow)) (r : Row) :
    r ∈ (uniqueWith l).map (·.1) ↔ r ∈ l.map (·.1) := by
  induction l with
  | nil => simp [uniqueWith]
  | cons a rest ih =>
    simp only [uniqueWith]
    split
    · rename_i h
      have hh : rest.head?.map (·.1) = some a.1 := by simpa using h
      have ha : a.1 ∈ rest.map (·.1) := by
        cases rest with
        | nil => simp at hh
        | cons b bs =>
          simp only [List.head?_cons, Option.map_some, Option.some.injEq] at hh
          rw [← hh]; simp
      rw [ih, List.map_cons, List.mem_cons]
      constructor
      · intro h1; exact Or.inr h1
      · rintro (h2 | h2)
        · rw [h2]; exact ha
        · exact h2
    · simp only [List.map_cons, List.mem_cons, ih]

/-- a pair of the result of `unique` is a pair of the argument -/
theorem uniqueWith_sub (l : List (Row × BRow)) (p : Row × BRow) (h : p ∈ uniqueWith l) : p ∈ l := by
  induction l with
  | nil => simp [uniqueWith] at h
  | cons a rest ih =>
    simp only [uniqueWith] at h
    split at h
    · exact List.mem_cons_of_mem _ (ih h)
    · rcases List.mem_cons.mp h with h | h
      · rw [h]; exact List.mem_cons_self ..
      · exact List.mem_cons_of_mem _ (ih h)

theorem mem_sortWith_fst (gen nnc : Bool) (l : List (Row × BRow)) (r : Row) :
    r ∈ (sortWith gen nnc l).map (·.1) ↔ r ∈ l.map (·.1) := by
  unfold sortWith
  rw [mem_uniqueWith_fst]
  simp only [List.mem_map, mem_foldl_insertWith, List.not_mem_nil, or_false]

theorem sortWith_sub (gen nnc : Bool) (l : List (Row × BRow)) (p : Row × BRow)
    (h : p ∈ sortWith gen nnc l) : p ∈ l := by
  have := uniqueWith_sub _ p h
  rw [mem_foldl_insertWith] at this
  simpa using this

/-- `sort_rows()` neither invents nor loses a row -/
theorem mem_sortRowList (gen nnc : Bool) (l : List Row) (r : Row) :
    r ∈ sortRowList gen nnc l ↔ r ∈ l := by
  unfold sortRowList
  rw [mem_sortWith_fst]
  simp

/-! ### the merge walk of `sort_pending_and_remove_duplicates` -/

theorem dropDupPending_sub (gen nnc : Bool) (f : Nat) (np pend : List Row) (r : Row)
    (h : r ∈ dropDupPending gen nnc f np pend) : r ∈ pend := by
  induction f generalizing np pend with
  | zero => simpa [dropDupPending] using h
  | succ f ih =>
    cases np with
    | nil => simpa [dropDupPending] using h
    | cons a np =>
      cases pend with
      | nil => simp [dropDupPending] at h
      | cons b pend =>
        simp only [dropDupPending] at h
        split at h
        · exact List.mem_cons_of_mem _ (ih _ _ h)
        · split at h
          · exact ih _ _ h
          · rcases List.mem_cons.mp h with h | h
            · rw [h]; exact List.mem_cons_self ..
            · exact List.mem_cons_of_mem _ (ih _ _ h)

/-- a dropped pending row compares equal to a non-pending one (whatever the fuel) -/
theorem dropDupPending_sup (gen nnc : Bool) (f : Nat) (np pend : List Row) (r : Row) (h : r ∈ pend) :
    r ∈ dropDupPending gen nnc f np pend ∨ ∃ a ∈ np, cmpRow gen nnc a r = 0 := by
  induction f generalizing np pend with
  | zero => left; simpa [dropDupPending] using h
  | succ f ih =>
    cases np with
    | nil => left; simpa [dropDupPending] using h
    | cons a np =>
      cases pend with
      | nil => cases h
      | cons b pend =>
        simp only [dropDupPending]
        split
        · rename_i hc
          have hc0 : cmpRow gen nnc a b = 0 := by simpa using hc
          rcases List.mem_cons.mp h with h | h
          · right; exact ⟨a, List.mem_cons_self .., by rw [h]; exact hc0⟩
          · rcases ih np pend h with h' | ⟨a', ha', hc'⟩
            · exact Or.inl h'
            · exact Or.inr ⟨a', List.mem_cons_of_mem _ ha', hc'⟩
        · split
          · rcases ih np (b :: pend) h with h' | ⟨a', ha', hc'⟩
            · exact Or.inl h'
            · exact Or.inr ⟨a', List.mem_cons_of_mem _ ha', hc'⟩
          · rcases List.mem_cons.mp h with h | h
            · left; rw [h]; exact List.mem_cons_self ..
            · rcases ih (a :: np) pend h with h' | h'
              · exact Or.inl (List.mem_cons_of_mem _ h')
              · exact Or.inr h'

/-! ### the same rows up to `toL` -/

/-- every row of `A` has its engine reading among those of `B` -/
def ToLSub (nnc : Bool) (A B : List Row) : Prop := ∀ r ∈ A, ∃ r' ∈ B, toL nnc r' = toL nnc r

theorem ToLSub.of_subset {nnc : Bool} {A B : List Row} (h : ∀ r ∈ A, r ∈ B) : ToLSub nnc A B :=
  fun r hr => ⟨r, h r hr, rfl⟩

theorem ToLSub.trans {nnc : Bool} {A B D : List Row} (h1 : ToLSub nnc A B) (h2 : ToLSub nnc B D) :
    ToLSub nnc A D := fun r hr => by
  obtain ⟨r1, hr1, e1⟩ := h1 r hr
  obtain ⟨r2, hr2, e2⟩ := h2 r1 hr1
  exact ⟨r2, hr2, e2.trans e1⟩

theorem holds_congr_toL (nnc : Bool) (a b : Row) (w : Val) (h : toL nnc a = toL nnc b) :
    a.Holds nnc w ↔ b.Holds nnc w := by
  obtain ⟨ae, ab, ac, aeps⟩ := a
  obtain ⟨be, bb, bc, beps⟩ := b
  simp only [toL, LRow.mk.injEq, List.cons.injEq] at h
  obtain ⟨h1, h2, h3⟩ := h
  subst h1 h2
  cases nnc
  · simp only [Bool.false_eq_true, if_false, List.append_nil] at h3
    subst h3
    simp [Row.Holds, Row.ev]
  · simp only [if_true] at h3
    have := List.append_inj' h3 rfl
    obtain ⟨h4, h5⟩ := this
    simp only [List.cons.injEq, and_true] at h5
    subst h4 h5
    rfl

theorem conSem_of_toLSub (nnc : Bool) (A B : List Row) (h : ToLSub nnc A B) :
    conSem nnc B ⊆ conSem nnc A := by
  intro w hw
  rw [mem_conSem] at hw ⊢
  intro r hr
  obtain ⟨r', hr', e⟩ := h r hr
  exact (holds_congr_toL nnc r' r w e).mp (hw r' hr')

theorem conSem_congr_toL (nnc : Bool) (A B : List Row) (h1 : ToLSub nnc A B) (h2 : ToLSub nnc B A) :
    conSem nnc A = conSem nnc B :=
  Set.Subset.antisymm (conSem_of_toLSub nnc B A h2) (conSem_of_toLSub nnc A B h1)

theorem holdsAll_of_toLSub (nnc : Bool) (A B : List Row) (h : ToLSub nnc A B) (x : Vec)
    (hx : holdsAll (B.map (toL nnc)) x) : holdsAll (A.map (toL nnc)) x := by
  intro l hl
  obtain ⟨r, hr, rfl⟩ := List.mem_map.mp hl
  obtain ⟨r', hr', e⟩ := h r hr
  rw [← e]
  exact hx _ (List.mem_map.mpr ⟨r', hr', rfl⟩)

theorem LowLevel.of_toLSub {nnc : Bool} {n : Nat} {A B : List Row} (h : ToLSub nnc A B)
    (hA : LowLevel nnc n A) : LowLevel nnc n B :=
  fun x hl hx => hA x hl (holdsAll_of_toLSub nnc A B h x hx)

end PPLV.PolyFull
