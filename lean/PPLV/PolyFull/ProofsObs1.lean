import PPLV.PolyFull.GlueFacts
import PPLV.PolyOps.ProofsGenKit3
import PPLV.PolyOps.ProofsCon

/-!
# Integration stage — the binary observers, part 1: the two loops of `is_included_in`

`includedLoops_iff`: for a well-formed generator system with a point, the sign tests of
`Polyhedron::is_included_in` (:461-561) on the reduced scalar products succeed for every pair
(constraint row, generator row) exactly when the generated set is included in the constraint set.
Both directions: `→` is "every combination satisfies the row" (`genSem_row_of_admits`), `←` is the
ray / segment argument of K1 (`genSem_subset_row_iff`).  No legality hypothesis on the constraint
rows is needed: the tests and `Row.toCons` classify a row by the same bits (kind bit, sign of the
epsilon coefficient).
-/
namespace PPLV.PolyFull
open PPLV.Lin PPLV.PolyOps

/-- the test `is_included_in` performs on one (constraint, generator) pair -/
def pairTest (nnc : Bool) (c g : Row) : Bool :=
  let s := FPoly.rsp c g
  if c.eq then s == 0
  else if nnc && decide (c.eps < 0) then
    if g.eq then s == 0
    else if g.b != 0 && decide (g.eps > 0) then decide (s > 0)
    else decide (s ≥ 0)
  else
    if g.eq then s == 0 else decide (s ≥ 0)

theorem includedLoops_eq (nnc : Bool) (gs cs : List Row) :
    FPoly.includedLoops nnc gs cs = cs.all fun c => gs.all fun g => pairTest nnc c g := rfl

theorem qdiv_nonneg_iff (a b : Rat) (hb : 0 < b) : 0 ≤ a / b ↔ 0 ≤ a := by
  rw [le_div_iff₀ hb, zero_mul]
theorem qdiv_pos_iff (a b : Rat) (hb : 0 < b) : 0 < a / b ↔ 0 < a := by
  rw [lt_div_iff₀ hb, zero_mul]

theorem idot_map_neg (as cf : List Int) : idot (as.map (- ·)) cf = - idot as cf := by
  induction as generalizing cf with
  | nil => simp [idot]
  | cons a as ih =>
    cases cf with
    | nil => simp [idot]
    | cons c cs => simp only [List.map_cons, idot, ih]; ring

/-- the vector of a raw generator row against the coefficients of a row: the integer scalar
    product over the divisor -/
theorem dot_toGen_vec (nnc : Bool) (cf : List Int) (g : Row) :
    dot cf (g.toGen nnc).vec = ((idot cf g.cf : Int) : Rat) / (((g.toGen nnc).d : Int) : Rat) := by
  rcases rowShape nnc g with ⟨_, hs⟩ | ⟨_, _, hs⟩ | ⟨_, _, _, _, hs⟩ | ⟨_, _, _, hs⟩ <;> rw [hs]
  · have : Gen.vec ⟨.line, g.cf, 1⟩ = fun i => ((g.cf.getD i 0 : Int) : Rat) := by
      funext i; exact vec_line _ _ i
    rw [this, ← idot_cast]; simp [Gen.d, Gen.isPtOrCp]
  · have : Gen.vec ⟨.ray, g.cf, 1⟩ = fun i => ((g.cf.getD i 0 : Int) : Rat) := by
      funext i; exact vec_ray _ _ i
    rw [this, ← idot_cast]; simp [Gen.d, Gen.isPtOrCp]
  · have : Gen.vec ⟨.cpoint, g.cf, g.b⟩ = fun i => ((g.cf.getD i 0 : Int) : Rat) / (g.b : Rat) := by
      funext i; exact vec_cp _ _ i
    rw [this, dot_div, ← idot_cast]; simp [Gen.d, Gen.isPtOrCp]
  · have : Gen.vec ⟨.point, g.cf, g.b⟩ = fun i => ((g.cf.getD i 0 : Int) : Rat) / (g.b : Rat) := by
      funext i; exact vec_pt _ _ i
    rw [this, dot_div, ← idot_cast]; simp [Gen.d, Gen.isPtOrCp]

/-- what "generator row `g` is compatible with the K1 row `(cf, k, st)`" says on the integers -/
def genPassesI (nnc : Bool) (cf : List Int) (k : Int) (st : Bool) (g : Row) : Prop :=
  if g.eq = true then k * g.b + idot cf g.cf = 0
  else if g.b = 0 then 0 ≤ k * g.b + idot cf g.cf
  else if nnc = true ∧ g.eps = 0 then 0 ≤ k * g.b + idot cf g.cf
  else if st = true then 0 < k * g.b + idot cf g.cf else 0 ≤ k * g.b + idot cf g.cf

theorem rowAdmits_iff (nnc : Bool) (n : Nat) (cf : List Int) (k : Int) (st : Bool) (g : Row)
    (hg : g.genWF nnc n) :
    rowAdmits ⟨cf, k, st⟩ (g.toGen nnc) ↔ genPassesI nnc cf k st g := by
  have hdot := dot_toGen_vec nnc cf g
  obtain ⟨_, hb0, _, heqb, _, _⟩ := hg
  unfold genPassesI
  rcases rowShape nnc g with ⟨he, hs⟩ | ⟨he, hb, hs⟩ | ⟨he, hb, hn, hz, hs⟩ | ⟨he, hb, hn, hs⟩
  · rw [if_pos he]
    have hb : g.b = 0 := heqb he
    rw [hs] at hdot ⊢
    unfold rowAdmits
    simp only [hdot, Gen.d, Gen.isPtOrCp, hb]
    simp
  · have he' : ¬ g.eq = true := by simp [he]
    rw [if_neg he', if_pos hb]
    rw [hs] at hdot ⊢
    unfold rowAdmits
    simp only [hdot, Gen.d, Gen.isPtOrCp, hb]
    simp
  · have he' : ¬ g.eq = true := by simp [he]
    rw [if_neg he', if_neg hb, if_pos ⟨hn, hz⟩]
    rw [hs] at hdot ⊢
    have hbp : (0 : Rat) < (g.b : Rat) := by
      have : 0 < g.b := by omega
      exact_mod_cast this
    unfold rowAdmits Con.eval
    simp only [hdot, Gen.d, Gen.isPtOrCp]
    simp only [show (GKind.cpoint == GKind.point || GKind.cpoint == GKind.cpoint) = true by decide,
      if_true]
    have : ((idot cf g.cf : Int) : Rat) / (g.b : Rat) + (k : Rat)
        = (((k * g.b + idot cf g.cf : Int)) : Rat) / (g.b : Rat) := by
      push_cast; field_simp; ring
    rw [this, qdiv_nonneg_iff _ _ hbp]
    exact_mod_cast Iff.rfl
  · have he' : ¬ g.eq = true := by simp [he]
    rw [if_neg he', if_neg hb, if_neg hn]
    rw [hs] at hdot ⊢
    have hbp : (0 : Rat) < (g.b : Rat) := by
      have : 0 < g.b := by omega
      exact_mod_cast this
    unfold rowAdmits Con.sat Con.eval
    simp only [hdot, Gen.d, Gen.isPtOrCp]
    simp only [show (GKind.point == GKind.point || GKind.point == GKind.cpoint) = true by decide,
      if_true]
    have : ((idot cf g.cf : Int) : Rat) / (g.b : Rat) + (k : Rat)
        = (((k * g.b + idot cf g.cf : Int)) : Rat) / (g.b : Rat) := by
      push_cast; field_simp; ring
    rw [this]
    by_cases hst : st = true
    · rw [if_pos hst, if_pos hst, qdiv_pos_iff _ _ hbp]
      exact_mod_cast Iff.rfl
    · rw [if_neg hst, if_neg hst, qdiv_nonneg_iff _ _ hbp]
      exact_mod_cast Iff.rfl


/-- one (constraint row, generator row) pair: the K1 rows of the constraint are all compatible with the
    K1 generator iff the sign test of `is_included_in` succeeds -/
theorem pairTest_iff (nnc : Bool) (n : Nat) (c g : Row) (hg : g.genWF nnc n) :
    (∀ c' ∈ c.toCons nnc, rowAdmits c' (g.toGen nnc)) ↔ pairTest nnc c g = true := by
  have hg' := hg
  obtain ⟨_, hb0, he0, heqb, hbe, hcl⟩ := hg'
  unfold Row.toCons pairTest FPoly.rsp
  by_cases hce : c.eq = true
  · rw [if_pos hce]
    simp only [hce, if_true, eqRows, List.mem_cons, List.not_mem_nil, or_false, forall_eq_or_imp,
      forall_eq, rowAdmits_iff nnc n _ _ _ g hg, genPassesI, idot_map_neg, beq_iff_eq]
    by_cases hge : g.eq = true
    · simp only [hge, if_true]; constructor
      · intro h; exact h.1
      · intro h; exact ⟨h, by linarith⟩
    · simp only [hge, if_false, Bool.false_eq_true, if_false]
      split_ifs <;> constructor <;> intro h <;> first | exact ⟨by linarith, by linarith⟩ | (obtain ⟨h1, h2⟩ := h; linarith)
  · have hce' : c.eq = false := by simpa using hce
    simp only [hce', Bool.false_eq_true, if_false]
    by_cases hs : (nnc && decide (c.eps < 0)) = true
    · simp only [hs, if_true, List.mem_singleton, forall_eq, gtRow, rowAdmits_iff nnc n _ _ _ g hg, genPassesI]
      have hn : nnc = true := by simp only [Bool.and_eq_true] at hs; exact hs.1
      by_cases hge : g.eq = true
      · simp [hge]
      · simp only [hge, Bool.false_eq_true, if_false]
        by_cases hb : g.b = 0
        · simp [hb]
        · by_cases hz : g.eps = 0
          · simp [hb, hz, hn]
          · have hp : 0 < g.eps := by omega
            simp [hb, hz, hn, hp]
    · simp only [hs, Bool.false_eq_true, if_false, List.mem_singleton, forall_eq, geRow,
        rowAdmits_iff nnc n _ _ _ g hg, genPassesI]
      by_cases hge : g.eq = true
      · simp [hge]
      · simp only [hge, Bool.false_eq_true, if_false]
        split_ifs <;> simp

/-- **the two loops of `is_included_in` decide inclusion**: the generators `gs` (well formed, with a
    point) pass every sign test against the constraint rows `cs` iff the generated set is included in
    the constraint set -/
theorem includedLoops_iff (nnc : Bool) (n : Nat) (gs cs : List Row)
    (hgs : ∀ r ∈ gs, r.genWF nnc n) (hpt : ∃ r ∈ gs, r.isPoint nnc)
    (hcs : ∀ r ∈ cs, r.cf.length = n) :
    FPoly.includedLoops nnc gs cs = true ↔ genSem nnc n gs ⊆ conSem nnc cs := by
  have hpt' : ∃ g ∈ gensOf nnc gs, g.isPt = true := (gensOf_pt nnc n gs hgs).mpr hpt
  unfold genSem conSem
  rw [subset_sem_iff, includedLoops_eq]
  simp only [List.all_eq_true]
  constructor
  · intro h c' hc'
    obtain ⟨c, hc, hcc⟩ := List.mem_flatMap.mp hc'
    have hlen : c'.coeffs.length ≤ n := by rw [toCons_len nnc c c' hcc, hcs c hc]
    rw [genSem_subset_row_iff n _ hpt' c' hlen]
    intro g' hg'
    obtain ⟨g, hg, rfl⟩ := List.mem_map.mp hg'
    exact (pairTest_iff nnc n c g (hgs g hg)).mpr (h c hc g hg) c' hcc
  · intro h c hc g hg
    rw [← pairTest_iff nnc n c g (hgs g hg)]
    intro c' hcc
    have hc' : c' ∈ consOf nnc cs := List.mem_flatMap.mpr ⟨c, hc, hcc⟩
    have hlen : c'.coeffs.length ≤ n := by rw [toCons_len nnc c c' hcc, hcs c hc]
    exact (genSem_subset_row_iff n _ hpt' c' hlen).mp (h c' hc') _ (List.mem_map.mpr ⟨g, hg, rfl⟩)

end PPLV.PolyFull
