import PPLV.PolyFull.ProofsObs6
import PPLV.PolyFull.ProofsObs4

/-!
# Integration stage — the binary observers, part 7: `obtain_sorted_constraints()` keeps the invariant;
# `SortedObsKeep` discharged

The dual of part 6 for `obtain_sorted_constraints()` (Polyhedron_nonpublic.cc:974), then
`sortedObsKeep : SortedObsKeep` and the hypothesis-free forms of `quickEquivalenceTest_true_sound`,
`contains_facts`, `contains_refines`.
-/
namespace PPLV.PolyFull
open PPLV.Lin PPLV.PolyOps
open PPLV.Conv (LRow BRow Vec Sound SatCorrect holds holdsAll Generated)

/-- :982 `con_sys.sort_and_remove_with_sat(sat_g)` -/
def oscB (x : FPoly) : FPoly :=
  ⟨{ x.p with cs := (x.p.cs.sortAndRemoveWithSat false x.p.nnc x.satG).1,
              st := { x.p.st with satC := false } },
   x.satC, (x.p.cs.sortAndRemoveWithSat false x.p.nnc x.satG).2⟩
/-- :987 `sat_g.transpose_assign(sat_c); con_sys.sort_and_remove_with_sat(sat_g)` -/
def oscC (x : FPoly) : FPoly :=
  ⟨{ x.p with cs := (x.p.cs.sortAndRemoveWithSat false x.p.nnc x.satC.transposeOf).1,
              st := { x.p.st with satG := true, satC := false } },
   x.satC, (x.p.cs.sortAndRemoveWithSat false x.p.nnc x.satC.transposeOf).2⟩
/-- :995 `con_sys.sort_rows()` -/
def oscD (x : FPoly) : FPoly := x.withCs (x.p.cs.sortRows false x.p.nnc)

theorem osc_obs_eq (x : FPoly) : x.obtainSortedConstraints =
    if x.p.cs.sorted then x else if x.p.st.satG then oscB x else if x.p.st.satC then oscC x
    else oscD x := rfl

theorem osc_obs_keeps (x : FPoly) (S : Set Val) (hx : x.Inv S) (hne : x.p.st.empty = false)
    (hcm : x.p.st.cMin = true) (hsp : x.p.st.somethingPending = false) :
    x.obtainSortedConstraints.Inv S ∧ x.SameShape x.obtainSortedConstraints ∧
    x.obtainSortedConstraints.p.st.empty = false ∧ x.obtainSortedConstraints.p.st.cUp = true ∧
    x.obtainSortedConstraints.p.st.gPend = false := by
  have hcu := legal_cMin hx.legal hcm
  have hcp : x.p.st.cPend = false := by
    unfold Status.somethingPending at hsp; cases h : x.p.st.cPend <;> simp_all
  have hgp : x.p.st.gPend = false := by
    unfold Status.somethingPending at hsp; cases h : x.p.st.gPend <;> simp_all
  have hfp : x.p.cs.firstPending = x.p.cs.rows.length := (hx.fpC hne hcu).2 hcp
  have hnpC : x.npC = x.p.cs.rows := by unfold FPoly.npC; rw [hfp, List.take_length]
  rw [osc_obs_eq]
  by_cases hs : x.p.cs.sorted = true
  · rw [if_pos hs]; exact ⟨hx, ⟨rfl, rfl⟩, hne, hcu, hgp⟩
  rw [if_neg hs]
  by_cases hG : x.p.st.satG = true
  · rw [if_pos hG]
    obtain ⟨m1, m2⟩ := sortSat_mem false x.p.nnc x.p.cs x.satG hfp
    refine ⟨?_, ⟨rfl, rfl⟩, hne, hcu, hgp⟩
    refine Inv_resortC x S hx hne hcu hcp hgp _ { x.p.st with satC := false } _ _
      ⟨rfl, rfl, rfl, rfl, rfl, rfl, rfl⟩ (by simp [hG]) m2 m1 (fun hcan => ?_)
    have E := hx.eng hne hcan
    rw [hnpC] at E
    obtain ⟨hp, hV⟩ := sortSat_vgl false x.p.nnc x.p.nnc x.npG x.p.cs x.satG hfp E.nodupC (E.satG hG)
    have P := E.permC hp x.satC (x.p.cs.sortAndRemoveWithSat false x.p.nnc x.satG).2 (fun _ => hV)
    exact ⟨P.sound, P.complete, P.minC, P.minG, P.minL, fun h => (by cases h), fun _ => hV⟩
  rw [if_neg hG]
  have hG' : x.p.st.satG = false := by simpa using hG
  by_cases hC : x.p.st.satC = true
  · rw [if_pos hC]
    obtain ⟨m1, m2⟩ := sortSat_mem false x.p.nnc x.p.cs x.satC.transposeOf hfp
    refine ⟨?_, ⟨rfl, rfl⟩, hne, hcu, hgp⟩
    refine Inv_resortC x S hx hne hcu hcp hgp _ { x.p.st with satG := true, satC := false } _ _
      ⟨rfl, rfl, rfl, rfl, rfl, rfl, rfl⟩ (by simp [hC]) m2 m1 (fun hcan => ?_)
    have E := hx.eng hne hcan
    rw [hnpC] at E
    have hV0 : VCl x.p.nnc x.npG x.p.cs.rows x.satC := E.satC hC
    obtain ⟨hp, hV⟩ := sortSat_vgl false x.p.nnc x.p.nnc x.npG x.p.cs x.satC.transposeOf hfp E.nodupC
      hV0.transpose
    have P := E.permC hp x.satC (x.p.cs.sortAndRemoveWithSat false x.p.nnc x.satC.transposeOf).2
      (fun _ => hV)
    exact ⟨P.sound, P.complete, P.minC, P.minG, P.minL, fun h => (by cases h), fun _ => hV⟩
  rw [if_neg hC]
  have hC' : x.p.st.satC = false := by simpa using hC
  refine ⟨?_, ⟨rfl, rfl⟩, hne, hcu, hgp⟩
  have hcan : x.p.st.canPend = false := by unfold Status.canPend; rw [hC', hG']; simp
  have hI := Inv_resortC x S hx hne hcu hcp hgp (x.p.cs.sortRows false x.p.nnc) x.p.st x.satC x.satG
    (.refl _) rfl
    (fun r => by
      show r ∈ sortRowList false x.p.nnc (x.p.cs.rows.take x.p.cs.firstPending)
        ++ x.p.cs.rows.drop x.p.cs.firstPending ↔ _
      rw [hfp, List.take_length, List.drop_length, List.append_nil, mem_sortRowList])
    (by
      show (sortRowList false x.p.nnc (x.p.cs.rows.take x.p.cs.firstPending)).length
        = (sortRowList false x.p.nnc (x.p.cs.rows.take x.p.cs.firstPending)
            ++ x.p.cs.rows.drop x.p.cs.firstPending).length
      rw [hfp, List.drop_length, List.append_nil])
    (fun h => by rw [hcan] at h; cases h)
  exact hI

/-- **`obtain_sorted_generators()` and `obtain_sorted_constraints()` keep the invariant** on an object
    with the respective system minimized and nothing pending -/
theorem sortedObsKeep : SortedObsKeep :=
  ⟨osg_obs_keeps, osc_obs_keeps⟩


/-! ## the final forms -/

/-- **`quick_equivalence_test`** (Polyhedron_nonpublic.cc:356): both objects keep denoting their sets,
    and the answer `TVB_TRUE` is only given of equal sets -/
theorem quickEquivalenceTest_true_sound (x y : FPoly) (S T : Set Val)
    (hx : x.Inv S) (hy : y.Inv T) (hdim : y.p.dim = x.p.dim) (hnnc : y.p.nnc = x.p.nnc)
    (hex : x.p.st.empty = false) (hey : y.p.st.empty = false) :
    (x.quickEquivalenceTest y).2.1.Inv S ∧ (x.quickEquivalenceTest y).2.2.Inv T ∧
    x.SameShape (x.quickEquivalenceTest y).2.1 ∧ y.SameShape (x.quickEquivalenceTest y).2.2 ∧
    (x.quickEquivalenceTest y).2.1.p.st.empty = false ∧ (x.quickEquivalenceTest y).2.2.p.st.empty = false ∧
    ((x.quickEquivalenceTest y).1 = some true → S = T) :=
  quickEquivalenceTest_true_sound_of sortedObsKeep x y S T hx hy hdim hnnc hex hey

/-- **`x.contains(y)`** (Polyhedron_public.cc:3977): both objects keep denoting their sets and the
    answer is `true` exactly when `T ⊆ S` -/
theorem contains_facts (G : GlueFacts) (x y : FPoly) (S T : Set Val)
    (hx : x.Inv S) (hy : y.Inv T) (hdim : y.p.dim = x.p.dim) (hnnc : y.p.nnc = x.p.nnc) :
    (x.contains y).2.1.Inv S ∧ (x.contains y).2.2.Inv T ∧
    x.SameShape (x.contains y).2.1 ∧ y.SameShape (x.contains y).2.2 ∧
    ((x.contains y).1 = true ↔ T ⊆ S) :=
  contains_facts_of G sortedObsKeep x y S T hx hy hdim hnnc

/-- **`contains` refines `RefPoly.contains`** -/
theorem contains_refines (G : GlueFacts) (x y : FPoly) (refx refy : RefPoly)
    (hdim : y.p.dim = x.p.dim) (hnnc : y.p.nnc = x.p.nnc)
    (hx : x.Inv (sem refx.cs)) (hy : y.Inv (sem refy.cs))
    (hwx : WF refx.n refx.cs) (hwy : WF refx.n refy.cs) :
    (x.contains y).2.1.Inv (sem refx.cs) ∧ (x.contains y).2.2.Inv (sem refy.cs) ∧
    x.SameShape (x.contains y).2.1 ∧ y.SameShape (x.contains y).2.2 ∧
    (x.contains y).1 = refx.contains refy :=
  contains_refines_of G sortedObsKeep x y refx refy hdim hnnc hx hy hwx hwy

end PPLV.PolyFull
