import PPLV.PolyFull.ProofsGlue2

/-!
# Integration stage — `GlueFacts` from `ConvContract`, part 3: `minimize()`, `is_empty()`, and the two
"description required" helpers, from the facts about the four conversions
-/
namespace PPLV.PolyFull
open PPLV.Lin PPLV.PolyOps

/-- the statement of `GlueFacts.updG` -/
def UpdGFact : Prop := ∀ (x : FPoly) (S : Set Val), x.Inv S → x.p.st.empty = false → 0 < x.p.dim →
    x.p.st.cUp = true → x.p.st.somethingPending = false →
    x.SameShape x.updateGenerators.2 ∧ x.updateGenerators.2.Inv S ∧
    (x.updateGenerators.1 = false → S = ∅ ∧ x.updateGenerators.2.p.st.empty = true) ∧
    (x.updateGenerators.1 = true → x.updateGenerators.2.FullyMin)
/-- the statement of `GlueFacts.updC` -/
def UpdCFact : Prop := ∀ (x : FPoly) (S : Set Val), x.Inv S → x.p.st.empty = false → 0 < x.p.dim →
    x.p.st.gUp = true → x.p.st.somethingPending = false →
    x.SameShape x.updateConstraints ∧ x.updateConstraints.Inv S ∧ x.updateConstraints.FullyMin
/-- the statement of `GlueFacts.ppc` -/
def PpcFact : Prop := ∀ (x : FPoly) (S : Set Val), x.Inv S → x.p.st.empty = false → x.p.st.cPend = true →
    x.SameShape x.processPendingConstraints.2 ∧ x.processPendingConstraints.2.Inv S ∧
    (x.processPendingConstraints.1 = false → S = ∅ ∧ x.processPendingConstraints.2.p.st.empty = true) ∧
    (x.processPendingConstraints.1 = true → x.processPendingConstraints.2.FullyMin)
/-- the statement of `GlueFacts.ppg` -/
def PpgFact : Prop := ∀ (x : FPoly) (S : Set Val), x.Inv S → x.p.st.empty = false → x.p.st.gPend = true →
    x.SameShape x.processPendingGenerators ∧ x.processPendingGenerators.Inv S ∧
    x.processPendingGenerators.FullyMin

/-- the common shape of the answers of a conversion that may find the polyhedron empty -/
theorem emptyReport {y : FPoly} {S : Set Val} {b : Bool} (hy : y.Inv S)
    (h3 : b = false → S = ∅ ∧ y.p.st.empty = true) (h4 : b = true → y.FullyMin) :
    (b = false ↔ S = ∅) := by
  refine ⟨fun h => (h3 h).1, fun hS => ?_⟩
  cases hb : b
  · rfl
  · exact absurd hS (hy.ne_empty_of_fullyMin (h4 hb))

theorem minimize_facts (hG : UpdGFact) (hC : UpdCFact) (hPc : PpcFact) (hPg : PpgFact) :
    ∀ (x : FPoly) (S : Set Val), x.Inv S →
    x.SameShape x.minimize.2 ∧ x.minimize.2.Inv S ∧ (x.minimize.1 = false ↔ S = ∅) ∧
    (x.minimize.1 = false → x.minimize.2.p.st.empty = true) ∧
    (x.minimize.1 = true → 0 < x.p.dim → x.minimize.2.FullyMin) := by
  intro x S hx
  cases he : x.p.st.empty
  swap
  · have e : x.minimize = (false, x) := by simp [FPoly.minimize, FPoly.st, he]
    rw [e]
    exact ⟨.refl x, hx, ⟨fun _ => hx.den.1 he, fun _ => rfl⟩, fun _ => he, fun h => (by cases h)⟩
  by_cases hd : x.p.dim = 0
  · have e : x.minimize = (true, x) := by simp [FPoly.minimize, FPoly.st, FPoly.dim, he, hd]
    rw [e]
    exact ⟨.refl x, hx, ⟨fun h => (by cases h), fun h => absurd h (hx.ne_empty_of_zeroDim he hd)⟩,
      fun h => (by cases h), fun _ h => (by omega)⟩
  have hd' : 0 < x.p.dim := by omega
  cases hsp : x.p.st.somethingPending
  swap
  · have e : x.minimize = x.processPending := by
      simp [FPoly.minimize, FPoly.st, FPoly.dim, he, hd, hsp]
    rw [e]
    cases hcp : x.p.st.cPend
    · have hgp : x.p.st.gPend = true := by simpa [Status.somethingPending, hcp] using hsp
      have e2 : x.processPending = (true, x.processPendingGenerators) := by
        simp [FPoly.processPending, FPoly.st, hcp]
      rw [e2]
      obtain ⟨h1, h2, h3⟩ := hPg x S hx he hgp
      exact ⟨h1, h2, ⟨fun h => (by cases h), fun h => absurd h (h2.ne_empty_of_fullyMin h3)⟩,
        fun h => (by cases h), fun _ _ => h3⟩
    · have e2 : x.processPending = x.processPendingConstraints := by
        simp [FPoly.processPending, FPoly.st, hcp]
      rw [e2]
      obtain ⟨h1, h2, h3, h4⟩ := hPc x S hx he hcp
      exact ⟨h1, h2, emptyReport h2 h3 h4, fun h => (h3 h).2, fun h _ => h4 h⟩
  obtain ⟨hcp, hgp⟩ := somethingPending_false hsp
  by_cases hmm : x.p.st.cMin = true ∧ x.p.st.gMin = true
  · have e : x.minimize = (true, x) := by
      simp [FPoly.minimize, FPoly.st, FPoly.dim, he, hd, hsp, hmm.1, hmm.2]
    rw [e]
    have hf : x.FullyMin :=
      ⟨he, legal_cMin hx.legal hmm.1, legal_gMin hx.legal hmm.2, hmm.1, hmm.2, hcp, hgp⟩
    exact ⟨.refl x, hx, ⟨fun h => (by cases h), fun h => absurd h (hx.ne_empty_of_fullyMin hf)⟩,
      fun h => (by cases h), fun _ _ => hf⟩
  have hmm' : (x.p.st.cMin && x.p.st.gMin) = false := by
    cases h1 : x.p.st.cMin <;> cases h2 : x.p.st.gMin <;> simp_all
  cases hcu : x.p.st.cUp
  · have e : x.minimize = (true, x.updateConstraints) := by
      simp [FPoly.minimize, FPoly.st, FPoly.dim, he, hd, hsp, hmm', hcu]
    rw [e]
    have hgu : x.p.st.gUp = true := by
      rcases hx.wf.some_up he hd' with h | h
      · rw [hcu] at h; cases h
      · exact h
    obtain ⟨h1, h2, h3⟩ := hC x S hx he hd' hgu hsp
    exact ⟨h1, h2, ⟨fun h => (by cases h), fun h => absurd h (h2.ne_empty_of_fullyMin h3)⟩,
      fun h => (by cases h), fun _ _ => h3⟩
  · have e : x.minimize = x.updateGenerators := by
      simp [FPoly.minimize, FPoly.st, FPoly.dim, he, hd, hsp, hmm', hcu]
    rw [e]
    obtain ⟨h1, h2, h3, h4⟩ := hG x S hx he hd' hcu hsp
    exact ⟨h1, h2, emptyReport h2 h3 h4, fun h => (h3 h).2, fun h _ => h4 h⟩

/-- the statement of `GlueFacts.minimize` -/
def MinFact : Prop := ∀ (x : FPoly) (S : Set Val), x.Inv S →
    x.SameShape x.minimize.2 ∧ x.minimize.2.Inv S ∧ (x.minimize.1 = false ↔ S = ∅) ∧
    (x.minimize.1 = false → x.minimize.2.p.st.empty = true) ∧
    (x.minimize.1 = true → 0 < x.p.dim → x.minimize.2.FullyMin)

theorem isEmpty_facts (hM : MinFact) :
    ∀ (x : FPoly) (S : Set Val), x.Inv S →
    x.SameShape x.isEmpty.2 ∧ x.isEmpty.2.Inv S ∧ (x.isEmpty.1 = true ↔ S = ∅) ∧
    (x.isEmpty.1 = true → x.isEmpty.2.p.st.empty = true) ∧
    (x.isEmpty.1 = false → x.isEmpty.2.p.st.empty = false ∧
      (0 < x.p.dim → x.isEmpty.2.p.st.gUp = true ∧ x.isEmpty.2.p.st.cPend = false)) := by
  intro x S hx
  cases he : x.p.st.empty
  swap
  · have e : x.isEmpty = (true, x) := by simp [FPoly.isEmpty, FPoly.st, he]
    rw [e]
    exact ⟨.refl x, hx, ⟨fun _ => hx.den.1 he, fun _ => rfl⟩, fun _ => he, fun h => (by cases h)⟩
  by_cases hq : x.p.st.gUp = true ∧ x.p.st.cPend = false
  · have e : x.isEmpty = (false, x) := by simp [FPoly.isEmpty, FPoly.st, he, hq.1, hq.2]
    rw [e]
    exact ⟨.refl x, hx, ⟨fun h => (by cases h), fun h => absurd h (hx.ne_empty_of_gUp he hq.1 hq.2)⟩,
      fun h => (by cases h), fun _ => ⟨he, fun _ => hq⟩⟩
  have hq' : (x.p.st.gUp && !x.p.st.cPend) = false := by
    cases h1 : x.p.st.gUp <;> cases h2 : x.p.st.cPend <;> simp_all
  have e : x.isEmpty = (!x.minimize.1, x.minimize.2) := by
    simp [FPoly.isEmpty, FPoly.st, he, hq']
  rw [e]
  obtain ⟨h1, h2, h3, h4, h5⟩ := hM x S hx
  refine ⟨h1, h2, ?_, ?_, ?_⟩
  · simpa using h3
  · intro h; exact h4 (by simpa using h)
  · intro h
    have hr : x.minimize.1 = true := by simpa using h
    have hS : S ≠ ∅ := fun hS => by rw [h3.mpr hS] at hr; cases hr
    refine ⟨h2.not_marked hS, fun hd => ?_⟩
    have hf := h5 hr hd
    exact ⟨hf.2.2.1, hf.2.2.2.2.2.1⟩

theorem needCons_facts (hC : UpdCFact) (hPg : PpgFact) :
    ∀ (x : FPoly) (S : Set Val), x.Inv S → x.p.st.empty = false → 0 < x.p.dim →
    x.SameShape x.needCons ∧ x.needCons.Inv S ∧ x.needCons.p.st.empty = false ∧
    x.needCons.p.st.cUp = true ∧ x.needCons.p.st.gPend = false := by
  intro x S hx he hd
  cases hgp : x.p.st.gPend
  swap
  · have e : x.needCons = x.processPendingGenerators := by simp [FPoly.needCons, FPoly.st, hgp]
    rw [e]
    obtain ⟨h1, h2, h3⟩ := hPg x S hx he hgp
    exact ⟨h1, h2, h3.1, h3.2.1, h3.2.2.2.2.2.2⟩
  cases hcu : x.p.st.cUp
  · have e : x.needCons = x.updateConstraints := by simp [FPoly.needCons, FPoly.st, hgp, hcu]
    rw [e]
    have hgu : x.p.st.gUp = true := by
      rcases hx.wf.some_up he hd with h | h
      · rw [hcu] at h; cases h
      · exact h
    have hcp : x.p.st.cPend = false := by
      cases h : x.p.st.cPend
      · rfl
      · have := (hx.wf.pend_c h).1; rw [hcu] at this; cases this
    obtain ⟨h1, h2, h3⟩ := hC x S hx he hd hgu (by simp [Status.somethingPending, hcp, hgp])
    exact ⟨h1, h2, h3.1, h3.2.1, h3.2.2.2.2.2.2⟩
  · have e : x.needCons = x := by simp [FPoly.needCons, FPoly.st, hgp, hcu]
    rw [e]
    exact ⟨.refl x, hx, he, hcu, hgp⟩

theorem needGens_facts (hG : UpdGFact) (hPc : PpcFact) :
    ∀ (x : FPoly) (S : Set Val), x.Inv S → x.p.st.empty = false → 0 < x.p.dim →
    x.SameShape x.needGens.2 ∧ x.needGens.2.Inv S ∧
    (x.needGens.1 = true → S = ∅ ∧ x.needGens.2.p.st.empty = true) ∧
    (x.needGens.1 = false → x.needGens.2.p.st.empty = false ∧ x.needGens.2.p.st.gUp = true ∧
      x.needGens.2.p.st.cPend = false) := by
  intro x S hx he hd
  cases hcp : x.p.st.cPend
  swap
  · obtain ⟨h1, h2, h3, h4⟩ := hPc x S hx he hcp
    cases hr : x.processPendingConstraints.1
    · have e : x.needGens = (true, x.processPendingConstraints.2) := by
        simp [FPoly.needGens, FPoly.st, hcp, hr]
      rw [e]
      exact ⟨h1, h2, fun _ => h3 hr, fun h => (by cases h)⟩
    · have hf := h4 hr
      have e : x.needGens = (false, x.processPendingConstraints.2) := by
        simp [FPoly.needGens, FPoly.st, hcp, hr, hf.2.2.1]
      rw [e]
      exact ⟨h1, h2, fun h => (by cases h), fun _ => ⟨hf.1, hf.2.2.1, hf.2.2.2.2.2.1⟩⟩
  cases hgu : x.p.st.gUp
  · have e : x.needGens = (!x.updateGenerators.1, x.updateGenerators.2) := by
      simp [FPoly.needGens, FPoly.st, hcp, hgu]
    rw [e]
    have hcu : x.p.st.cUp = true := by
      rcases hx.wf.some_up he hd with h | h
      · exact h
      · rw [hgu] at h; cases h
    have hgp : x.p.st.gPend = false := by
      cases h : x.p.st.gPend
      · rfl
      · have := (hx.wf.pend_g h).2; rw [hgu] at this; cases this
    obtain ⟨h1, h2, h3, h4⟩ := hG x S hx he hd hcu (by simp [Status.somethingPending, hcp, hgp])
    refine ⟨h1, h2, fun h => h3 (by simpa using h), fun h => ?_⟩
    have hf := h4 (by simpa using h)
    exact ⟨hf.1, hf.2.2.1, hf.2.2.2.2.2.1⟩
  · have e : x.needGens = (false, x) := by simp [FPoly.needGens, FPoly.st, hcp, hgu]
    rw [e]
    exact ⟨.refl x, hx, fun h => (by cases h), fun _ => ⟨he, hgu, hcp⟩⟩

end PPLV.PolyFull
