import PPLV.PolyFull.Public
import PPLV.PolyStatus.ProofsBase

/-!
# Integration stage — the full model against the status-protocol model, part 1

`Sim x s`: the STORED part of the abstract state `s` (the nine status bits, dimension, topology, the two
`sorted` flags) is the one of the full state `x`; the ghost Booleans of `s` are free.
For every private helper `f` of `PolyFull/Nonpublic.lean` and its counterpart `F` of
`PolyStatus/Helpers.lean`: `Sim x s → Sim (f x) (F g s)` where the ghost inputs `g` (and, where `F`
reads them, the ghost Booleans `emp`, `pC`, `pG` of `s`) are what the full model computes.

This file: the definition, the `sorted` flags the `Linear_System` operations leave, the helpers
without ghost input (`update_sat_*`, `obtain_sorted_*`), `update_constraints`, `update_generators`.
-/
namespace PPLV.PolyFull
open PPLV.PolyOps
open PPLV.PolyStatus (PState Gh)

/-- the stored part of the abstract state agrees with the full state -/
def Sim (x : FPoly) (s : PState) : Prop :=
  s.em = x.p.st.empty ∧ s.cup = x.p.st.cUp ∧ s.gup = x.p.st.gUp ∧ s.cmin = x.p.st.cMin ∧ s.gmin = x.p.st.gMin ∧
  s.satc = x.p.st.satC ∧ s.satg = x.p.st.satG ∧ s.cpend = x.p.st.cPend ∧ s.gpend = x.p.st.gPend ∧
  s.dim = x.p.dim ∧ s.nnc = x.p.nnc ∧ s.csS = x.p.cs.sorted ∧ s.gsS = x.p.gs.sorted

/-- `Sim` with the accessors unfolded (the form the proofs use) -/
theorem Sim.iff (x : FPoly) (s : PState) :
    Sim x s ↔ (s.b .em = x.p.st.empty ∧ s.b .cup = x.p.st.cUp ∧ s.b .gup = x.p.st.gUp ∧ s.b .cmin = x.p.st.cMin ∧
      s.b .gmin = x.p.st.gMin ∧ s.b .satc = x.p.st.satC ∧ s.b .satg = x.p.st.satG ∧ s.b .cpend = x.p.st.cPend ∧
      s.b .gpend = x.p.st.gPend ∧ s.dim = x.p.dim ∧ s.nnc = x.p.nnc ∧ s.b .csS = x.p.cs.sorted ∧
      s.b .gsS = x.p.gs.sorted) := Iff.rfl

/-- the ghost Booleans are free: `Sim` does not see them -/
def ghostFld : PPLV.PolyStatus.Fld → Bool
  | .emp | .vC | .vG | .dd | .mC | .mG | .vSC | .vSG | .rC | .rG | .pC | .pG => true
  | _ => false

theorem Sim.set_ghost {x : FPoly} {s : PState} (h : Sim x s) (f : PPLV.PolyStatus.Fld) (v : Bool)
    (hf : ghostFld f = true) : Sim x (s.set f v) := by
  simp only [Sim, pst] at h ⊢
  cases f <;> simp_all [ghostFld]

/-- two abstract states with the same stored part -/
def SameStored (s t : PState) : Prop :=
  (∀ f, ghostFld f = false → t.b f = s.b f) ∧ t.dim = s.dim ∧ t.nnc = s.nnc

theorem SameStored.set_ghost (s : PState) (f : PPLV.PolyStatus.Fld) (v : Bool) (hf : ghostFld f = true) :
    SameStored s (s.set f v) := by
  refine ⟨fun f' hf' => ?_, rfl, rfl⟩
  have : f' ≠ f := fun e => by rw [e, hf] at hf'; cases hf'
  simp [this]

theorem SameStored.trans {s t u : PState} (h1 : SameStored s t) (h2 : SameStored t u) : SameStored s u :=
  ⟨fun f hf => (h2.1 f hf).trans (h1.1 f hf), h2.2.1.trans h1.2.1, h2.2.2.trans h1.2.2⟩

theorem SameStored.refl (s : PState) : SameStored s s := ⟨fun _ _ => rfl, rfl, rfl⟩

theorem Sim.of_sameStored {x : FPoly} {s t : PState} (h : Sim x s) (hs : SameStored s t) : Sim x t := by
  obtain ⟨hb, hd, hn⟩ := hs
  simp only [Sim, pst] at h ⊢
  rw [hb _ rfl, hb _ rfl, hb _ rfl, hb _ rfl, hb _ rfl, hb _ rfl, hb _ rfl, hb _ rfl, hb _ rfl, hb _ rfl, hb _ rfl,
    hd, hn]
  exact h

set_option hygiene false in
/-- split `Sim x s` into its thirteen equations (oriented abstract → full, for `simp [*]`) -/
macro "sim_hyps " h:ident : tactic =>
  `(tactic| (simp only [Sim, pst] at $h:ident
             obtain ⟨h1, h2, h3, h4, h5, h6, h7, h8, h9, h10, h11, h12, h13⟩ := $h:ident))

/-! ## the `sorted` flag the `Linear_System` operations leave -/

@[simp] theorem sortAndRemoveWithSat_sorted (gen nnc : Bool) (s : Sys) (m : BitMat) :
    (s.sortAndRemoveWithSat gen nnc m).1.sorted = true := by
  unfold Sys.sortAndRemoveWithSat; split <;> rfl
@[simp] theorem sortRows_sorted (gen nnc : Bool) (s : Sys) : (s.sortRows gen nnc).sorted = true := rfl
@[simp] theorem sortPending_sorted (gen nnc : Bool) (s : Sys) :
    (s.sortPendingAndRemoveDuplicates gen nnc).sorted = true := rfl

/-- `conversion` never sets the `sorted` flag of the destination system -/
theorem conversionDestSorted_imp (ncols : Nat) (src : List PPLV.Conv.LRow) (st : Nat) (dst : List PPLV.Conv.LRow)
    (sat : List PPLV.Conv.BRow) (nle : Nat) (b : Bool)
    (h : conversionDestSorted ncols src st dst sat nle b = true) : b = true := by
  unfold conversionDestSorted at h
  cases b <;> simp_all

attribute [local simp] FPoly.st FPoly.nnc FPoly.dim FPoly.withSt FPoly.withCs FPoly.withGs

/-! ## helpers without ghost input -/

theorem updateSatC_sim (x : FPoly) (s : PState) (h : Sim x s) :
    Sim x.updateSatC (PPLV.PolyStatus.updateSatC s) := by
  sim_hyps h
  simp [Sim, pst, FPoly.updateSatC, *]

theorem updateSatG_sim (x : FPoly) (s : PState) (h : Sim x s) :
    Sim x.updateSatG (PPLV.PolyStatus.updateSatG s) := by
  sim_hyps h
  simp [Sim, pst, FPoly.updateSatG, *]

theorem obtainSortedConstraints_sim (x : FPoly) (s : PState) (h : Sim x s) :
    Sim x.obtainSortedConstraints (PPLV.PolyStatus.obtainSortedConstraints s) := by
  sim_hyps h
  unfold FPoly.obtainSortedConstraints PPLV.PolyStatus.obtainSortedConstraints
  simp only [Sim, pst, FPoly.st, FPoly.nnc, h12, h7, h6]
  rcases Bool.eq_false_or_eq_true x.p.cs.sorted with a | a <;>
    rcases Bool.eq_false_or_eq_true x.p.st.satG with b | b <;>
    rcases Bool.eq_false_or_eq_true x.p.st.satC with c | c <;> simp [*]

theorem obtainSortedGenerators_sim (x : FPoly) (s : PState) (h : Sim x s) :
    Sim x.obtainSortedGenerators (PPLV.PolyStatus.obtainSortedGenerators s) := by
  sim_hyps h
  unfold FPoly.obtainSortedGenerators PPLV.PolyStatus.obtainSortedGenerators
  simp only [Sim, pst, FPoly.st, FPoly.nnc, h13, h7, h6]
  rcases Bool.eq_false_or_eq_true x.p.gs.sorted with a | a <;>
    rcases Bool.eq_false_or_eq_true x.p.st.satG with b | b <;>
    rcases Bool.eq_false_or_eq_true x.p.st.satC with c | c <;> simp [*]

theorem obtainSortedConstraintsWithSatC_sim (x : FPoly) (s : PState) (h : Sim x s) :
    Sim x.obtainSortedConstraintsWithSatC (PPLV.PolyStatus.obtainSortedConstraintsWithSatC s) := by
  obtain ⟨⟨nnc, dim, ⟨e, cu, gu, cm, gm, sc, sg, cp, gp⟩, ⟨cr, cf, csrt⟩, ⟨gr, gf, gsrt⟩⟩, mC, mG⟩ := x
  sim_hyps h
  cases csrt <;> cases sc <;> cases sg <;>
    simp [Sim, pst, FPoly.obtainSortedConstraintsWithSatC, PPLV.PolyStatus.obtainSortedConstraintsWithSatC,
      FPoly.updateSatC, *]

theorem obtainSortedGeneratorsWithSatG_sim (x : FPoly) (s : PState) (h : Sim x s) :
    Sim x.obtainSortedGeneratorsWithSatG (PPLV.PolyStatus.obtainSortedGeneratorsWithSatG s) := by
  obtain ⟨⟨nnc, dim, ⟨e, cu, gu, cm, gm, sc, sg, cp, gp⟩, ⟨cr, cf, csrt⟩, ⟨gr, gf, gsrt⟩⟩, mC, mG⟩ := x
  sim_hyps h
  cases gsrt <;> cases sc <;> cases sg <;>
    simp [Sim, pst, FPoly.obtainSortedGeneratorsWithSatG, PPLV.PolyStatus.obtainSortedGeneratorsWithSatG,
      FPoly.updateSatG, *]

/-- the ghost Booleans `emp`, `pC`, `pG`, and the other system's flag, are not touched -/
theorem obtainSortedConstraintsWithSatC_ghost (s : PState) :
    (PPLV.PolyStatus.obtainSortedConstraintsWithSatC s).b .emp = s.b .emp
    ∧ (PPLV.PolyStatus.obtainSortedConstraintsWithSatC s).b .pC = s.b .pC
    ∧ (PPLV.PolyStatus.obtainSortedConstraintsWithSatC s).b .csS = true := by
  unfold PPLV.PolyStatus.obtainSortedConstraintsWithSatC
  simp only [pst]
  rcases Bool.eq_false_or_eq_true (s.b .csS) with a | a <;>
    rcases Bool.eq_false_or_eq_true (s.b .satg) with b | b <;>
    rcases Bool.eq_false_or_eq_true (s.b .satc) with c | c <;> simp [*]

theorem obtainSortedGeneratorsWithSatG_ghost (s : PState) :
    (PPLV.PolyStatus.obtainSortedGeneratorsWithSatG s).b .emp = s.b .emp
    ∧ (PPLV.PolyStatus.obtainSortedGeneratorsWithSatG s).b .pG = s.b .pG
    ∧ (PPLV.PolyStatus.obtainSortedGeneratorsWithSatG s).b .gsS = true := by
  unfold PPLV.PolyStatus.obtainSortedGeneratorsWithSatG
  simp only [pst]
  rcases Bool.eq_false_or_eq_true (s.b .gsS) with a | a <;>
    rcases Bool.eq_false_or_eq_true (s.b .satg) with b | b <;>
    rcases Bool.eq_false_or_eq_true (s.b .satc) with c | c <;> simp [*]

/-! ## `update_constraints`, `update_generators` -/

/-- the engine call of `update_constraints()` -/
def FPoly.ucOut (x : FPoly) : FPoly.EngineOut := FPoly.engineMinimize false x.nnc x.dim x.p.gs x.satC
/-- the engine call of `update_generators()` -/
def FPoly.ugOut (x : FPoly) : FPoly.EngineOut := FPoly.engineMinimize true x.nnc x.dim x.p.cs x.satG

@[simp] theorem engineMinimize_dest_sorted (c nnc : Bool) (n : Nat) (src : Sys) (m : BitMat) :
    (FPoly.engineMinimize c nnc n src m).dest.sorted = false := rfl

/-- `update_constraints()`: `g.srcS` = the `sorted` flag `simplify` leaves on `gen_sys` -/
theorem updateConstraints_sim (x : FPoly) (s : PState) (g : Gh) (h : Sim x s)
    (hg : g.srcS = x.ucOut.source.sorted) :
    Sim x.updateConstraints (PPLV.PolyStatus.updateConstraints g s) := by
  sim_hyps h
  unfold FPoly.updateConstraints PPLV.PolyStatus.updateConstraints PPLV.PolyStatus.convGC
  simp only [FPoly.ucOut] at hg
  rcases Bool.eq_false_or_eq_true x.p.gs.sorted with a | a <;> simp [Sim, pst, *]

/-- `update_generators()`: `s.emp` = the engine's answer, `g.srcS` = the flag `simplify` leaves on `con_sys` -/
theorem updateGenerators_sim (x : FPoly) (s : PState) (g : Gh) (h : Sim x s)
    (he : s.b .emp = x.ugOut.empty) (hg : x.ugOut.empty = false → g.srcS = x.ugOut.source.sorted) :
    (PPLV.PolyStatus.updateGenerators g s).1 = x.updateGenerators.1
    ∧ Sim x.updateGenerators.2 (PPLV.PolyStatus.updateGenerators g s).2 := by
  sim_hyps h
  unfold FPoly.updateGenerators PPLV.PolyStatus.updateGenerators PPLV.PolyStatus.convCG
  simp only [FPoly.ugOut] at hg he
  rcases Bool.eq_false_or_eq_true (FPoly.engineMinimize true x.nnc x.dim x.p.cs x.satG).empty with e | e <;>
    rcases Bool.eq_false_or_eq_true x.p.cs.sorted with a | a <;>
    simp_all [Sim, pst, FPoly.setEmpty, Poly.setEmpty, Status.setEmpty, Sys.clear]

end PPLV.PolyFull
