import PPLV.PolyFull.ProofsGlue10
import PPLV.PolyFull.ProofsGlue11

/-!
# Integration stage — the preparation of `process_pending_generators` keeps the double description pair

The dual of part 10: `sortKeepsPairG`.
-/
namespace PPLV.PolyFull
open PPLV.Lin PPLV.PolyOps
open PPLV.Conv (LRow BRow Vec Sound SatCorrect holds holdsAll Generated scalarProduct)

/-- `obtain_sorted_generators_with_sat_g()` on an unsorted system of a minimal pair -/
theorem osg_keeps (nnc : Bool) (n : Nat) (cs : List Row) (y : FPoly) (hn : y.p.nnc = nnc)
    (hs : y.p.gs.sorted = false) (hf : y.p.st.satC = true ∨ y.p.st.satG = true)
    (hfp : y.p.gs.firstPending ≤ y.p.gs.rows.length)
    (hcore : EnginePair nnc n cs y.npG false false BitMat.clear BitMat.clear)
    (hVG : VCl nnc cs y.npG y.satG) (hVC : y.p.st.satC = true → VGl nnc cs y.npG y.satC) :
    y.obtainSortedGeneratorsWithSatG.p.gs.firstPending ≤ y.obtainSortedGeneratorsWithSatG.p.gs.rows.length ∧
    (∀ r, r ∈ y.obtainSortedGeneratorsWithSatG.p.gs.rows ↔ r ∈ y.p.gs.rows) ∧
    (∀ r, r ∈ y.obtainSortedGeneratorsWithSatG.npG ↔ r ∈ y.npG) ∧
    EnginePair nnc n cs y.obtainSortedGeneratorsWithSatG.npG true true
      y.obtainSortedGeneratorsWithSatG.satC y.obtainSortedGeneratorsWithSatG.satG ∧
    y.obtainSortedGeneratorsWithSatG.p.st.satC = true := by
  have e1 : osgStep1 y = y := by
    unfold osgStep1
    rcases hf with h | h <;> simp [FPoly.st, h]
  have e : y.obtainSortedGeneratorsWithSatG = osgStep3 (osgSort (osgTransC y)) := by
    rw [osg_eq, e1]
    simp [hs, osgStep2]
  have hgs1 : (osgTransC y).p.gs = y.p.gs := by unfold osgTransC; split <;> rfl
  have hn1 : (osgTransC y).nnc = nnc := by unfold osgTransC; split <;> exact hn
  have hc1 : (osgTransC y).p.st.satC = true := by
    unfold osgTransC
    split
    · rfl
    · rename_i h; simpa [FPoly.st] using h
  have hVC1 : VGl nnc cs y.npG (osgTransC y).satC := by
    unfold osgTransC
    split
    · exact hVG.transpose
    · rename_i h; exact hVC (by simpa [FPoly.st] using h)
  have hnpl : y.npG.length = y.p.gs.firstPending := by
    unfold FPoly.npG; rw [List.length_take]; omega
  have hsl : (osgTransC y).satC.rows.length = y.p.gs.firstPending := by
    rw [hVC1.1.1, List.length_map, hnpl]
  obtain ⟨ps, hperm, hrows, hfp', hsat, hnc⟩ := sortAndRemoveWithSat_nodup true nnc y.p.gs (osgTransC y).satC
    hfp hcore.nodupG hsl
  have hz1 : ((y.p.gs.rows.take y.p.gs.firstPending).zip (osgTransC y).satC.rows).map (·.1) = y.npG :=
    List.map_fst_zip (by rw [hsl, List.length_take]; omega)
  have hz2 : ((y.p.gs.rows.take y.p.gs.firstPending).zip (osgTransC y).satC.rows).map (·.2) =
      (osgTransC y).satC.rows :=
    List.map_snd_zip (by rw [hsl, List.length_take]; omega)
  have hp1 : (ps.map (·.1)).Perm y.npG := by rw [← hz1]; exact hperm.map _
  have hgsE : y.obtainSortedGeneratorsWithSatG.p.gs.rows =
      ((osgTransC y).p.gs.sortAndRemoveWithSat true (osgTransC y).nnc (osgTransC y).satC).1.rows := by
    rw [e]; rfl
  have hfpE : y.obtainSortedGeneratorsWithSatG.p.gs.firstPending =
      ((osgTransC y).p.gs.sortAndRemoveWithSat true (osgTransC y).nnc (osgTransC y).satC).1.firstPending := by
    rw [e]; rfl
  have hscE : y.obtainSortedGeneratorsWithSatG.satC =
      ((osgTransC y).p.gs.sortAndRemoveWithSat true (osgTransC y).nnc (osgTransC y).satC).2 := by
    rw [e]; rfl
  have hsgE : y.obtainSortedGeneratorsWithSatG.satG =
      ((osgTransC y).p.gs.sortAndRemoveWithSat true (osgTransC y).nnc (osgTransC y).satC).2.transposeOf := by
    rw [e]; rfl
  have hstE : y.obtainSortedGeneratorsWithSatG.p.st.satC = (osgTransC y).p.st.satC := by
    rw [e]; rfl
  rw [hgs1, hn1] at hgsE hfpE hscE hsgE
  rw [hrows] at hgsE
  rw [hfp'] at hfpE
  have hpsl : (ps.map (·.1)).length = y.p.gs.firstPending := by rw [hp1.length_eq, hnpl]
  have hnpE : y.obtainSortedGeneratorsWithSatG.npG = ps.map (·.1) := by
    unfold FPoly.npG
    rw [hgsE, hfpE]
    exact List.take_left' hpsl
  have hVC2 : VGl nnc cs (ps.map (·.1)) y.obtainSortedGeneratorsWithSatG.satC := by
    rw [hscE]
    refine ⟨?_, by rw [hnc]; exact hVC1.2⟩
    rw [hsat]
    apply satCorrect_perm nnc _ _ _ hperm
    rw [hz1, hz2]
    exact hVC1.1
  have hVG2 : VCl nnc cs (ps.map (·.1)) y.obtainSortedGeneratorsWithSatG.satG := by
    rw [hsgE, ← hscE]
    exact hVC2.transpose
  refine ⟨?_, ?_, ?_, ?_, by rw [hstE]; exact hc1⟩
  · rw [hgsE, hfpE, List.length_append]; omega
  · intro r
    rw [hgsE, ← List.take_append_drop y.p.gs.firstPending y.p.gs.rows, List.mem_append, List.mem_append,
      List.take_append_drop]
    exact or_congr (hp1.mem_iff) Iff.rfl
  · intro r
    rw [hnpE]; exact hp1.mem_iff
  · rw [hnpE]
    have := hcore.permG hp1 y.obtainSortedGeneratorsWithSatG.satC y.obtainSortedGeneratorsWithSatG.satG
      (fun h' => (by cases h'))
    exact ⟨this.sound, this.complete, this.minC, this.minG, this.minL, fun _ => hVC2, fun _ => hVG2⟩

/-- **the preparation of `process_pending_generators` keeps the pair** -/
theorem sortKeepsPairG : SortKeepsPairG := by
  intro x S hx he hgp
  have hcan := legal_gPend hx.legal hgp
  obtain ⟨hcm, hgm, hsat⟩ := (canPend_iff _).mp hcan
  have hcu := legal_cMin hx.legal hcm
  have hgu := legal_gMin hx.legal hgm
  have hcp : x.p.st.cPend = false := by
    cases h : x.p.st.cPend
    · rfl
    · exact absurd ⟨h, hgp⟩ (legal_not_both hx.legal)
  have hfpC := (hx.fpC he hcu).2 hcp
  have hfpG := (hx.fpG he hgu).1
  have hnpC : x.npC = x.p.cs.rows := by unfold FPoly.npC; rw [hfpC, List.take_length]
  have E := hx.eng he hcan
  rw [hnpC] at E
  have hcore : EnginePair x.p.nnc x.p.dim x.p.cs.rows x.npG false false BitMat.clear BitMat.clear :=
    (E.dropC _).dropG _
  have hyp : (ppgStep0 x).p = x.p := by unfold ppgStep0; split <;> rfl
  have hyC : (ppgStep0 x).satC = x.satC := by unfold ppgStep0; split <;> rfl
  have hynp : (ppgStep0 x).npG = x.npG := by unfold FPoly.npG; rw [hyp]
  have hVC : x.p.st.satC = true → VGl x.p.nnc x.p.cs.rows x.npG x.satC := fun h => E.satC h
  have hVG : VCl x.p.nnc x.p.cs.rows x.npG (ppgStep0 x).satG := by
    unfold ppgStep0
    split
    · rename_i h
      have hG : x.p.st.satG = false := by simpa [FPoly.st] using h
      have hC : x.p.st.satC = true := by
        rcases hsat with h' | h'
        · exact h'
        · rw [hG] at h'; cases h'
      exact (hVC hC).transpose
    · rename_i h
      have hG : x.p.st.satG = true := by simpa [FPoly.st] using h
      exact E.satG hG
  rw [ppgPrepared_eq]
  cases hs : x.p.gs.sorted
  · have e : (if !(ppgStep0 x).p.gs.sorted then (ppgStep0 x).obtainSortedGeneratorsWithSatG
        else ppgStep0 x) = (ppgStep0 x).obtainSortedGeneratorsWithSatG := by simp [hyp, hs]
    rw [e]
    obtain ⟨k1, k2, k3, k4, k5⟩ := osg_keeps x.p.nnc x.p.dim x.p.cs.rows (ppgStep0 x) (by rw [hyp])
      (by rw [hyp]; exact hs) (by rw [hyp]; exact hsat) (by rw [hyp]; exact hfpG)
      (by rw [hynp]; exact hcore) (by rw [hynp]; exact hVG)
      (fun h => by rw [hynp, hyC]; exact hVC (by rw [hyp] at h; exact h))
    refine ⟨k1, fun r => ?_, fun r => ?_, ?_⟩
    · rw [k2 r, hyp]
    · rw [k3 r, hynp]
    · rw [k5]; exact k4
  · have e : (if !(ppgStep0 x).p.gs.sorted then (ppgStep0 x).obtainSortedGeneratorsWithSatG
        else ppgStep0 x) = ppgStep0 x := by simp [hyp, hs]
    rw [e]
    refine ⟨by rw [hyp]; exact hfpG, fun r => by rw [hyp], fun r => by rw [hynp], ?_⟩
    rw [hynp, hyC, hyp]
    exact ⟨E.sound, E.complete, E.minC, E.minG, E.minL, E.satC, fun _ => hVG⟩

end PPLV.PolyFull
