import PPLV.PolyFull.ProofsStatus4l
/-!
# Integration stage — `quick_equivalence_test`, `contains` against `PolyStatus/Ops2.lean` (`y` another object)

`qet_cases_st`: the full `quick_equivalence_test` either leaves both objects alone (and does not answer `TVB_TRUE`),
or sorts both generator systems, or sorts both constraint systems (and answers).  `qet_sim`: ghost inputs `GhQ`
exist with which the abstract test takes the same branch and gives the same answer.
-/
namespace PPLV.PolyFull
open PPLV.PolyOps PPLV.Lin
open PPLV.PolyStatus (PState Gh Two)
attribute [local simp] FPoly.st FPoly.nnc FPoly.dim FPoly.withSt FPoly.withCs FPoly.withGs

macro "qleaf" : tactic =>
  `(tactic| ((repeat (first | simp only [*, ↓reduceIte, Bool.false_eq_true] | dsimp only));
             first
              | (left; simp; done)
              | (right; left; simp_all [Status.somethingPending]; done)
              | (right; right; simp_all [Status.somethingPending]; done)))

theorem qet_cases_st (x y : FPoly) :
    ((x.quickEquivalenceTest y).2 = (x, y) ∧ (x.quickEquivalenceTest y).1 ≠ some true)
    ∨ (x.p.nnc = false ∧ x.p.st.somethingPending = false ∧ y.p.st.somethingPending = false
        ∧ x.p.st.gMin = true ∧ y.p.st.gMin = true
        ∧ (x.quickEquivalenceTest y).2 = (x.obtainSortedGenerators, y.obtainSortedGenerators)
        ∧ (x.quickEquivalenceTest y).1.isSome = true)
    ∨ (x.p.nnc = false ∧ x.p.st.somethingPending = false ∧ y.p.st.somethingPending = false
        ∧ x.p.st.cMin = true ∧ y.p.st.cMin = true
        ∧ (x.quickEquivalenceTest y).2 = (x.obtainSortedConstraints, y.obtainSortedConstraints)
        ∧ (x.quickEquivalenceTest y).1.isSome = true) := by
  unfold FPoly.quickEquivalenceTest
  dsimp only [FPoly.nnc, FPoly.st]
  rcases (Bool.eq_false_or_eq_true x.p.nnc).symm with hA | hA
  swap
  · qleaf
  rcases (Bool.eq_false_or_eq_true (x.p.st.somethingPending || y.p.st.somethingPending)).symm with hP | hP
  swap
  · qleaf
  rcases (Bool.eq_false_or_eq_true (x.p.st.cMin && y.p.st.cMin)).symm with hC | hC
  · -- constraints not both minimized
    rcases (Bool.eq_false_or_eq_true (x.p.st.gMin && y.p.st.gMin)).symm with hG | hG
    · qleaf
    rcases (Bool.eq_false_or_eq_true (x.p.gs.rows.length != y.p.gs.rows.length)).symm with g1 | g1
    swap
    · qleaf
    rcases (Bool.eq_false_or_eq_true ((List.filter (fun x => x.eq) x.p.gs.rows).length != (List.filter (fun x => x.eq) y.p.gs.rows).length)).symm with g2 | g2
    swap
    · qleaf
    rcases (Bool.eq_false_or_eq_true ((List.filter (fun x => x.eq) x.p.gs.rows).length == 0)).symm with g3 | g3
    · qleaf
    · qleaf
  · rcases (Bool.eq_false_or_eq_true (x.p.cs.rows.length != y.p.cs.rows.length)).symm with c1 | c1
    swap
    · qleaf
    rcases (Bool.eq_false_or_eq_true ((List.filter (fun x => x.eq) x.p.cs.rows).length != (List.filter (fun x => x.eq) y.p.cs.rows).length)).symm with c2 | c2
    swap
    · qleaf
    rcases (Bool.eq_false_or_eq_true ((List.filter (fun x => x.eq) x.p.cs.rows).length == 0)).symm with c3 | c3 <;>
    · rcases (Bool.eq_false_or_eq_true (x.p.st.gMin && y.p.st.gMin)).symm with hG | hG
      · qleaf
      rcases (Bool.eq_false_or_eq_true (x.p.gs.rows.length != y.p.gs.rows.length)).symm with g1 | g1
      swap
      · qleaf
      rcases (Bool.eq_false_or_eq_true ((List.filter (fun x => x.eq) x.p.gs.rows).length != (List.filter (fun x => x.eq) y.p.gs.rows).length)).symm with g2 | g2
      swap
      · qleaf
      rcases (Bool.eq_false_or_eq_true ((List.filter (fun x => x.eq) x.p.gs.rows).length == 0)).symm with g3 | g3
      · qleaf
      · qleaf

/-- what the ghost inputs of the abstract test must achieve -/
def QOk (x y : FPoly) (q : PPLV.PolyStatus.GhQ) (s t : PState) : Prop :=
  ∀ go : Bool,
    (PPLV.PolyStatus.quickEquivalenceTest q { x := s, y := t, al := false, go := go }).1.1
        = ((x.quickEquivalenceTest y).1 == some true)
    ∧ (PPLV.PolyStatus.quickEquivalenceTest q { x := s, y := t, al := false, go := go }).1.2
        = ((x.quickEquivalenceTest y).1 == some false)
    ∧ ∃ s' t', (PPLV.PolyStatus.quickEquivalenceTest q { x := s, y := t, al := false, go := go }).2
          = { x := s', y := t', al := false, go := go }
        ∧ Sim (x.quickEquivalenceTest y).2.1 s' ∧ Sim (x.quickEquivalenceTest y).2.2 t'

theorem qet_sim (x y : FPoly) (s t : PState) (hx : Sim x s) (hy : Sim y t) :
    ∃ q : PPLV.PolyStatus.GhQ, QOk x y q s t := by
  have hx' := hx
  have hy' := hy
  simp only [Sim, pst] at hx' hy'
  obtain ⟨h1, h2, h3, h4, h5, h6, h7, h8, h9, h10, h11, h12, h13⟩ := hx'
  obtain ⟨k1, k2, k3, k4, k5, k6, k7, k8, k9, k10, k11, k12, k13⟩ := hy'
  rcases qet_cases_st x y with ⟨c1, c2⟩ | ⟨a1, a2, a3, a4, a5, a6, a7⟩ | ⟨a1, a2, a3, a4, a5, a6, a7⟩
  · refine ⟨{ qg := false, qc := false, qt := false, qf := (x.quickEquivalenceTest y).1 == some false }, fun go => ?_⟩
    have e1 : ((x.quickEquivalenceTest y).1 == some true) = false := by
      cases h : (x.quickEquivalenceTest y).1 with
      | none => rfl
      | some b => cases b <;> simp_all
    rw [e1, c1]
    by_cases hc : (!s.nnc && !s.hasSomethingPending && !t.hasSomethingPending) = true
    · simp only [PPLV.PolyStatus.quickEquivalenceTest, Two.gy, hc, Bool.false_eq_true, ↓reduceIte, Bool.false_and]
      exact ⟨by first | rfl | trivial, by first | rfl | trivial, s, t, rfl, hx, hy⟩
    · have hc' : (!s.nnc && !s.hasSomethingPending && !t.hasSomethingPending) = false := by simpa using hc
      simp only [PPLV.PolyStatus.quickEquivalenceTest, Two.gy, hc', Bool.false_eq_true, ↓reduceIte]
      refine ⟨by first | rfl | trivial, ?_, s, t, rfl, hx, hy⟩
      -- the full test answered `none`: topology or pending rows
      have : (x.quickEquivalenceTest y).1 = none := by
        unfold FPoly.quickEquivalenceTest
        dsimp only [FPoly.nnc, FPoly.st]
        simp only [PState.hasSomethingPending, pst, h11, h8, h9, k8, k9] at hc'
        rcases (Bool.eq_false_or_eq_true x.p.nnc).symm with hA | hA
        · have hh : (x.p.st.somethingPending || y.p.st.somethingPending) = true := by
            simp only [Status.somethingPending]
            cases hh1 : x.p.st.cPend <;> cases hh2 : x.p.st.gPend <;> cases hh3 : y.p.st.cPend <;>
              cases hh4 : y.p.st.gPend <;> simp_all
          simp only [hA, hh, Bool.false_eq_true, ↓reduceIte]
        · simp only [hA, ↓reduceIte]
      rw [this]; rfl
  · refine ⟨{ qg := true, qc := false, qt := (x.quickEquivalenceTest y).1 == some true, qf := false }, fun go => ?_⟩
    have hc : (!s.nnc && !s.hasSomethingPending && !t.hasSomethingPending) = true := by
      simp only [Status.somethingPending] at a2 a3
      simp only [PState.hasSomethingPending, pst, h11, h8, h9, k8, k9, a1]
      cases hh1 : x.p.st.cPend <;> cases hh2 : x.p.st.gPend <;> cases hh3 : y.p.st.cPend <;>
        cases hh4 : y.p.st.gPend <;> simp_all
    have hg : (true && s.gmin && t.gmin) = true := by simp [PState.gmin, h5, k5, a4, a5]
    simp only [PPLV.PolyStatus.quickEquivalenceTest, Two.gy, hc, hg, Bool.false_eq_true, ↓reduceIte, Two.onX, Two.onY]
    rw [a6]
    refine ⟨by first | rfl | trivial, ?_, _, _, rfl, obtainSortedGenerators_sim x s hx, obtainSortedGenerators_sim y t hy⟩
    cases h : (x.quickEquivalenceTest y).1 with
    | none => rw [h] at a7; cases a7
    | some b => cases b <;> rfl
  · refine ⟨{ qg := false, qc := true, qt := (x.quickEquivalenceTest y).1 == some true, qf := false }, fun go => ?_⟩
    have hc : (!s.nnc && !s.hasSomethingPending && !t.hasSomethingPending) = true := by
      simp only [Status.somethingPending] at a2 a3
      simp only [PState.hasSomethingPending, pst, h11, h8, h9, k8, k9, a1]
      cases hh1 : x.p.st.cPend <;> cases hh2 : x.p.st.gPend <;> cases hh3 : y.p.st.cPend <;>
        cases hh4 : y.p.st.gPend <;> simp_all
    have hg : (true && s.cmin && t.cmin) = true := by simp [PState.cmin, h4, k4, a4, a5]
    simp only [PPLV.PolyStatus.quickEquivalenceTest, Two.gy, hc, hg, Bool.false_eq_true, ↓reduceIte, Two.onX, Two.onY,
      Bool.false_and]
    rw [a6]
    refine ⟨by first | rfl | trivial, ?_, _, _, rfl, obtainSortedConstraints_sim x s hx, obtainSortedConstraints_sim y t hy⟩
    cases h : (x.quickEquivalenceTest y).1 with
    | none => rw [h] at a7; cases a7
    | some b => cases b <;> rfl

end PPLV.PolyFull
