import PPLV.PolyFull.GlueFacts
import PPLV.PolyOps.ProofsLattice13

/-!
# Integration stage — the public operators refine the reference operators: the toolkit

* `Denotes` / `WF` / `LowLevel` depend only on the SET of rows (`Inv_refineC`, `Inv_refineG`: the
  `Sys.refineBy` fix-ups keep the invariant);
* the status legality table under the record updates the operators perform (`legalZ_*`, by `decide`);
* the four ways an operator adds rows: constraints / generators, pending / non-pending
  (`Inv_pendC`, `Inv_nonpendC`, `Inv_pendG`, `Inv_nonpendG`).
-/
namespace PPLV.PolyFull
open PPLV.Lin PPLV.PolyOps
open PPLV.Conv (holdsAll holds)

/-! ## rows as sets -/

theorem sameRows_mem {a b : List Row} (h : sameRows a b = true) (r : Row) : r ∈ a ↔ r ∈ b := by
  unfold sameRows at h
  rw [Bool.and_eq_true, List.all_eq_true, List.all_eq_true] at h
  constructor
  · intro hr; have := h.1 r hr; simpa using this
  · intro hr; have := h.2 r hr; simpa using this

theorem refineBy_cases (c e : Sys) :
    c.refineBy e = c ∨ (c.refineBy e = e ∧
      (∀ r, r ∈ c.rows.take c.firstPending ↔ r ∈ e.rows.take e.firstPending) ∧
      (∀ r, r ∈ c.rows.drop c.firstPending ↔ r ∈ e.rows.drop e.firstPending)) := by
  unfold Sys.refineBy
  split
  · rename_i h
    rw [Bool.and_eq_true] at h
    exact Or.inr ⟨rfl, sameRows_mem h.1, sameRows_mem h.2⟩
  · exact Or.inl rfl

theorem mem_of_take_drop {a b : List Row} {i j : Nat}
    (h1 : ∀ r, r ∈ a.take i ↔ r ∈ b.take j) (h2 : ∀ r, r ∈ a.drop i ↔ r ∈ b.drop j) (r : Row) :
    r ∈ a ↔ r ∈ b := by
  rw [← List.take_append_drop i a, ← List.take_append_drop j b, List.mem_append, List.mem_append, h1, h2]

theorem LowLevel.mono {nnc : Bool} {n : Nat} {A B : List Row} (h : ∀ r ∈ A, r ∈ B)
    (hA : LowLevel nnc n A) : LowLevel nnc n B := by
  intro x hx hB
  apply hA x hx
  intro l hl
  obtain ⟨r, hr, rfl⟩ := List.mem_map.mp hl
  exact hB _ (List.mem_map.mpr ⟨r, h r hr, rfl⟩)

/-! ## the status word -/

/-- `statusLegalB` with the test `dim == 0` as a Boolean -/
def legalZ (s : Status) (z : Bool) : Bool :=
  (!s.empty || (!s.cUp && !s.gUp && !s.cMin && !s.gMin && !s.satC && !s.satG && !s.cPend && !s.gPend)) &&
  (!(s.satC || s.satG) || (s.cUp && s.gUp)) && (!s.cMin || s.cUp) && (!s.gMin || s.gUp) &&
  !(s.cPend && s.gPend) && (!(s.cPend || s.gPend) || s.canPend) &&
  (!z || (!s.cUp && !s.gUp)) && (s.empty || z || s.cUp || s.gUp)

theorem statusLegalB_eq (s : Status) (d : Nat) : statusLegalB s d = legalZ s (d == 0) := rfl

set_option maxRecDepth 4000 in
theorem legalZ_facts : ∀ (e cu gu cm gm sc sg cp gp z : Bool),
    legalZ ⟨e, cu, gu, cm, gm, sc, sg, cp, gp⟩ z = true →
    ((cm && gm && (sc || sg)) = true → cu = true ∧ gu = true) ∧
    ((cm && gm && (sc || sg)) = false → cp = false ∧ gp = false) ∧
    (cp = true → gp = false) ∧ (cu = true → z = false) ∧ (gu = true → z = false) := by
  decide

theorem legal_canPend_up {s : Status} {d : Nat} (h : statusLegalB s d = true) (hc : s.canPend = true) :
    s.cUp = true ∧ s.gUp = true := by
  obtain ⟨e, cu, gu, cm, gm, sc, sg, cp, gp⟩ := s
  exact (legalZ_facts _ _ _ _ _ _ _ _ _ _ h).1 hc

theorem legal_not_canPend {s : Status} {d : Nat} (h : statusLegalB s d = true) (hc : s.canPend = false) :
    s.cPend = false ∧ s.gPend = false := by
  obtain ⟨e, cu, gu, cm, gm, sc, sg, cp, gp⟩ := s
  exact (legalZ_facts _ _ _ _ _ _ _ _ _ _ h).2.1 hc

theorem legal_dim_pos_c {s : Status} {d : Nat} (h : statusLegalB s d = true) (hc : s.cUp = true) : 0 < d := by
  obtain ⟨e, cu, gu, cm, gm, sc, sg, cp, gp⟩ := s
  have := (legalZ_facts _ _ _ _ _ _ _ _ _ _ h).2.2.2.1 hc
  exact Nat.pos_of_ne_zero (by simpa using this)

theorem legal_dim_pos_g {s : Status} {d : Nat} (h : statusLegalB s d = true) (hc : s.gUp = true) : 0 < d := by
  obtain ⟨e, cu, gu, cm, gm, sc, sg, cp, gp⟩ := s
  have := (legalZ_facts _ _ _ _ _ _ _ _ _ _ h).2.2.2.2 hc
  exact Nat.pos_of_ne_zero (by simpa using this)

set_option maxRecDepth 4000 in
theorem legalZ_pendC : ∀ (e cu gu cm gm sc sg cp gp z : Bool),
    legalZ ⟨e, cu, gu, cm, gm, sc, sg, cp, gp⟩ z = true → e = false → cu = true → gp = false →
    (cm && gm && (sc || sg)) = true → legalZ ⟨e, cu, gu, cm, gm, sc, sg, true, gp⟩ z = true := by
  decide

set_option maxRecDepth 4000 in
theorem legalZ_pendG : ∀ (e cu gu cm gm sc sg cp gp z : Bool),
    legalZ ⟨e, cu, gu, cm, gm, sc, sg, cp, gp⟩ z = true → e = false → gu = true → cp = false →
    (cm && gm && (sc || sg)) = true → legalZ ⟨e, cu, gu, cm, gm, sc, sg, cp, true⟩ z = true := by
  decide

set_option maxRecDepth 4000 in
theorem legalZ_nonpendC : ∀ (e cu gu cm gm sc sg cp gp z : Bool),
    legalZ ⟨e, cu, gu, cm, gm, sc, sg, cp, gp⟩ z = true → e = false → cu = true →
    (cm && gm && (sc || sg)) = false →
    legalZ (({ (⟨e, cu, gu, cm, gm, sc, sg, cp, gp⟩ : Status) with cMin := false }).clearGUp) z = true := by
  decide

set_option maxRecDepth 4000 in
theorem legalZ_nonpendG : ∀ (e cu gu cm gm sc sg cp gp z : Bool),
    legalZ ⟨e, cu, gu, cm, gm, sc, sg, cp, gp⟩ z = true → e = false → gu = true →
    (cm && gm && (sc || sg)) = false →
    legalZ (({ (⟨e, cu, gu, cm, gm, sc, sg, cp, gp⟩ : Status) with gMin := false }).clearCUp) z = true := by
  decide

theorem legal_pendC {s : Status} {d : Nat} (h : statusLegalB s d = true) (he : s.empty = false)
    (hc : s.cUp = true) (hg : s.gPend = false) (hcp : s.canPend = true) :
    statusLegalB { s with cPend := true } d = true := by
  obtain ⟨e, cu, gu, cm, gm, sc, sg, cp, gp⟩ := s
  exact legalZ_pendC _ _ _ _ _ _ _ _ _ _ h he hc hg hcp

theorem legal_pendG {s : Status} {d : Nat} (h : statusLegalB s d = true) (he : s.empty = false)
    (hg : s.gUp = true) (hc : s.cPend = false) (hcp : s.canPend = true) :
    statusLegalB { s with gPend := true } d = true := by
  obtain ⟨e, cu, gu, cm, gm, sc, sg, cp, gp⟩ := s
  exact legalZ_pendG _ _ _ _ _ _ _ _ _ _ h he hg hc hcp

theorem legal_nonpendC {s : Status} {d : Nat} (h : statusLegalB s d = true) (he : s.empty = false)
    (hc : s.cUp = true) (hcp : s.canPend = false) :
    statusLegalB (({ s with cMin := false }).clearGUp) d = true := by
  obtain ⟨e, cu, gu, cm, gm, sc, sg, cp, gp⟩ := s
  exact legalZ_nonpendC _ _ _ _ _ _ _ _ _ _ h he hc hcp

theorem legal_nonpendG {s : Status} {d : Nat} (h : statusLegalB s d = true) (he : s.empty = false)
    (hg : s.gUp = true) (hcp : s.canPend = false) :
    statusLegalB (({ s with gMin := false }).clearCUp) d = true := by
  obtain ⟨e, cu, gu, cm, gm, sc, sg, cp, gp⟩ := s
  exact legalZ_nonpendG _ _ _ _ _ _ _ _ _ _ h he hg hcp

/-! ## generic facts about `Inv` -/

theorem FPoly.Inv.change {x : FPoly} {S S' : Set Val} (h : x.Inv S) (hd : x.p.Denotes S') : x.Inv S' :=
  ⟨h.wf, hd, h.legal, h.fpC, h.fpG, h.low, h.denNPc, h.denNPg, h.eng⟩

theorem legal_setEmpty (d : Nat) : statusLegalB Status.setEmpty d = true := by
  rw [statusLegalB_eq]; cases (d == 0) <;> rfl

/-- an object marked empty -/
theorem Inv_of_empty (X : FPoly) (S : Set Val) (he : X.p.st.empty = true) (hwf : X.p.WF)
    (hden : X.p.Denotes S) (hl : statusLegalB X.p.st X.p.dim = true) : X.Inv S :=
  ⟨hwf, hden, hl, fun h => (by rw [he] at h; cases h), fun h => (by rw [he] at h; cases h),
   fun h => (by rw [he] at h; cases h), fun h => (by rw [he] at h; cases h), fun h => (by rw [he] at h; cases h),
   fun h => (by rw [he] at h; cases h)⟩

theorem Inv_setEmpty (x : FPoly) (S : Set Val) (hwf : x.p.WF) (hS : S = ∅) : x.setEmpty.Inv S :=
  Inv_of_empty _ _ rfl (wf_setEmpty x.p hwf) (denotes_setEmpty x.p S hS) (legal_setEmpty _)

theorem lift_of_nonempty (x : FPoly) (q : Poly) (h : q.st.empty = false) : x.lift q = { x with p := q } := by
  unfold FPoly.lift; rw [h]; rfl

theorem lift_of_empty (x : FPoly) (q : Poly) (h : x.p.st.empty = true) : x.lift q = { x with p := q } := by
  unfold FPoly.lift FPoly.st; rw [h]; simp

theorem lift_self (x : FPoly) : x.lift x.p = x := by
  unfold FPoly.lift FPoly.st
  cases x.p.st.empty <;> rfl

/-! ## `refineBy` keeps the invariant -/

theorem Inv_refineC (X : FPoly) (S : Set Val) (exact : Sys) (hX : X.Inv S)
    (hfp : X.p.st.empty = false → X.p.st.cUp = true →
      exact.firstPending ≤ exact.rows.length ∧ (X.p.st.cPend = false → exact.firstPending = exact.rows.length))
    (heng : X.p.st.empty = false → X.p.st.canPend = true →
      exact.rows.take exact.firstPending = X.p.cs.rows.take X.p.cs.firstPending) :
    ({ X with p := { X.p with cs := X.p.cs.refineBy exact } } : FPoly).Inv S := by
  rcases refineBy_cases X.p.cs exact with h | ⟨h, hnp, hpd⟩
  · rw [h]; exact hX
  · rw [h]
    have hall := mem_of_take_drop hnp hpd
    have hcon : conSem X.p.nnc exact.rows = conSem X.p.nnc X.p.cs.rows :=
      conSem_congr_mem _ _ _ (fun r => (hall r).symm)
    refine ⟨⟨fun he hc r hr => hX.wf.cs_len he hc r ((hall r).mpr hr), hX.wf.gs_wf, hX.wf.gs_pt,
        hX.wf.pend_c, hX.wf.pend_g, hX.wf.pend_one, hX.wf.some_up, hX.wf.zero_dim⟩,
      ⟨hX.den.1, fun he => ⟨fun hc hg => hcon.trans ((hX.den.2 he).1 hc hg), (hX.den.2 he).2.1,
        (hX.den.2 he).2.2⟩⟩, hX.legal, hfp, hX.fpG,
      fun he hc => LowLevel.mono (fun r hr => (hall r).mp hr) (hX.low he hc), ?_, ?_, ?_⟩
    · intro he hcp
      exact (hX.denNPc he hcp).trans (conSem_congr_mem _ _ _ hnp)
    · intro he hgp
      exact hcon.trans (hX.denNPg he hgp)
    · intro he hcp
      show EnginePair _ _ (exact.rows.take exact.firstPending) X.npG _ _ _ _
      rw [heng he hcp]
      exact hX.eng he hcp

theorem Inv_refineG (X : FPoly) (S : Set Val) (exact : Sys) (hX : X.Inv S)
    (hfp : X.p.st.empty = false → X.p.st.gUp = true →
      exact.firstPending ≤ exact.rows.length ∧ (X.p.st.gPend = false → exact.firstPending = exact.rows.length))
    (heng : X.p.st.empty = false → X.p.st.canPend = true →
      exact.rows.take exact.firstPending = X.p.gs.rows.take X.p.gs.firstPending) :
    ({ X with p := { X.p with gs := X.p.gs.refineBy exact } } : FPoly).Inv S := by
  rcases refineBy_cases X.p.gs exact with h | ⟨h, hnp, hpd⟩
  · rw [h]; exact hX
  · rw [h]
    have hall := mem_of_take_drop hnp hpd
    have hgen : X.p.st.empty = false → X.p.st.gUp = true →
        genSem X.p.nnc X.p.dim exact.rows = genSem X.p.nnc X.p.dim X.p.gs.rows := fun he hg =>
      (genSem_congr_mem _ _ _ _ (hX.wf.gs_wf he hg) hall).symm
    refine ⟨⟨hX.wf.cs_len, fun he hg r hr => hX.wf.gs_wf he hg r ((hall r).mpr hr), ?_,
        hX.wf.pend_c, hX.wf.pend_g, hX.wf.pend_one, hX.wf.some_up, hX.wf.zero_dim⟩,
      ⟨hX.den.1, fun he => ⟨(hX.den.2 he).1, fun hg hc => (hgen he hg).trans ((hX.den.2 he).2.1 hg hc),
        (hX.den.2 he).2.2⟩⟩, hX.legal, hX.fpC, hfp, hX.low, ?_, ?_, ?_⟩
    · intro he hg
      obtain ⟨r, hr, hp⟩ := hX.wf.gs_pt he hg
      exact ⟨r, (hall r).mp hr, hp⟩
    · intro he hcp
      exact (hgen he (hX.wf.pend_c hcp).2).trans (hX.denNPc he hcp)
    · intro he hgp
      have hg := (hX.wf.pend_g hgp).2
      refine (hX.denNPg he hgp).trans ?_
      exact genSem_congr_mem _ _ _ _ (fun r hr => hX.wf.gs_wf he hg r (List.mem_of_mem_take hr)) hnp
    · intro he hcp
      show EnginePair _ _ X.npC (exact.rows.take exact.firstPending) _ _ _ _
      rw [heng he hcp]
      exact hX.eng he hcp

/-! ## the four ways rows are added -/

theorem Inv_pendC (X : FPoly) (S S' : Set Val) (ys : List Row) (hX : X.Inv S)
    (he : X.p.st.empty = false) (hc : X.p.st.cUp = true) (hg : X.p.st.gPend = false)
    (hcp : X.p.st.canPend = true)
    (hwf : ({ X.p with cs := X.p.cs.insertPendingSys ys, st := { X.p.st with cPend := true } } : Poly).WF)
    (hden : ({ X.p with cs := X.p.cs.insertPendingSys ys, st := { X.p.st with cPend := true } } : Poly).Denotes S') :
    ({ X with p := { X.p with cs := X.p.cs.insertPendingSys ys, st := { X.p.st with cPend := true } } } : FPoly).Inv S' := by
  have hfp := (hX.fpC he hc).1
  have hgu := (legal_canPend_up hX.legal hcp).2
  have htake : (X.p.cs.rows ++ ys).take X.p.cs.firstPending = X.p.cs.rows.take X.p.cs.firstPending :=
    List.take_append_of_le_length hfp
  refine ⟨hwf, hden, ?_, ?_, fun _ => hX.fpG he, ?_, ?_, ?_, ?_⟩
  · exact legal_pendC hX.legal he hc hg hcp
  · intro _ _
    refine ⟨?_, fun h => by cases h⟩
    show X.p.cs.firstPending ≤ (X.p.cs.rows ++ ys).length
    rw [List.length_append]; omega
  · intro _ _
    exact LowLevel.mono (fun r hr => List.mem_append_left _ hr) (hX.low he hc)
  · intro _ _
    show genSem X.p.nnc X.p.dim X.p.gs.rows = conSem X.p.nnc ((X.p.cs.rows ++ ys).take X.p.cs.firstPending)
    rw [htake]
    cases hcpd : X.p.st.cPend
    · rw [(hX.den.2 he).2.1 hgu hcpd, ← (hX.den.2 he).1 hc hg, (hX.fpC he hc).2 hcpd, List.take_length]
    · exact hX.denNPc he hcpd
  · intro _ h
    rw [show X.p.st.gPend = true from h] at hg; cases hg
  · intro _ _
    show EnginePair _ _ ((X.p.cs.rows ++ ys).take X.p.cs.firstPending) X.npG _ _ _ _
    rw [htake]
    exact hX.eng he hcp

theorem Inv_pendG (X : FPoly) (S S' : Set Val) (ys : List Row) (hX : X.Inv S)
    (he : X.p.st.empty = false) (hg : X.p.st.gUp = true) (hc : X.p.st.cPend = false)
    (hcp : X.p.st.canPend = true)
    (hwf : ({ X.p with gs := X.p.gs.insertPendingSys ys, st := { X.p.st with gPend := true } } : Poly).WF)
    (hden : ({ X.p with gs := X.p.gs.insertPendingSys ys, st := { X.p.st with gPend := true } } : Poly).Denotes S') :
    ({ X with p := { X.p with gs := X.p.gs.insertPendingSys ys, st := { X.p.st with gPend := true } } } : FPoly).Inv S' := by
  have hfp := (hX.fpG he hg).1
  have hcu := (legal_canPend_up hX.legal hcp).1
  have htake : (X.p.gs.rows ++ ys).take X.p.gs.firstPending = X.p.gs.rows.take X.p.gs.firstPending :=
    List.take_append_of_le_length hfp
  refine ⟨hwf, hden, ?_, fun _ => hX.fpC he, ?_, fun _ => hX.low he, ?_, ?_, ?_⟩
  · exact legal_pendG hX.legal he hg hc hcp
  · intro _ _
    refine ⟨?_, fun h => by cases h⟩
    show X.p.gs.firstPending ≤ (X.p.gs.rows ++ ys).length
    rw [List.length_append]; omega
  · intro _ h
    rw [show X.p.st.cPend = true from h] at hc; cases hc
  · intro _ _
    show conSem X.p.nnc X.p.cs.rows = genSem X.p.nnc X.p.dim ((X.p.gs.rows ++ ys).take X.p.gs.firstPending)
    rw [htake]
    cases hgpd : X.p.st.gPend
    · rw [(hX.den.2 he).1 hcu hgpd, ← (hX.den.2 he).2.1 hg hc, (hX.fpG he hg).2 hgpd, List.take_length]
    · exact hX.denNPg he hgpd
  · intro _ _
    show EnginePair _ _ X.npC ((X.p.gs.rows ++ ys).take X.p.gs.firstPending) _ _ _ _
    rw [htake]
    exact hX.eng he hcp

theorem Inv_nonpendC (X : FPoly) (S S' : Set Val) (cs' : Sys) (hX : X.Inv S)
    (he : X.p.st.empty = false) (hc : X.p.st.cUp = true) (hcp : X.p.st.canPend = false)
    (hfp : cs'.firstPending = cs'.rows.length) (hsub : ∀ r ∈ X.p.cs.rows, r ∈ cs'.rows)
    (hwf : ({ X.p with cs := cs', st := ({ X.p.st with cMin := false }).clearGUp } : Poly).WF)
    (hden : ({ X.p with cs := cs', st := ({ X.p.st with cMin := false }).clearGUp } : Poly).Denotes S') :
    ({ X with p := { X.p with cs := cs', st := ({ X.p.st with cMin := false }).clearGUp } } : FPoly).Inv S' := by
  have hnp := legal_not_canPend hX.legal hcp
  refine ⟨hwf, hden, ?_, fun _ _ => ⟨le_of_eq hfp, fun _ => hfp⟩, fun _ h => (by cases h), ?_, ?_,
    fun _ h => (by cases h), fun _ h => (by simp [Status.canPend, Status.clearGUp] at h)⟩
  · exact legal_nonpendC hX.legal he hc hcp
  · intro _ _
    exact LowLevel.mono hsub (hX.low he hc)
  · intro _ h
    rw [show X.p.st.cPend = true from h] at hnp; cases hnp.1

theorem Inv_nonpendG (X : FPoly) (S S' : Set Val) (gs' : Sys) (hX : X.Inv S)
    (he : X.p.st.empty = false) (hg : X.p.st.gUp = true) (hcp : X.p.st.canPend = false)
    (hfp : gs'.firstPending = gs'.rows.length)
    (hwf : ({ X.p with gs := gs', st := ({ X.p.st with gMin := false }).clearCUp } : Poly).WF)
    (hden : ({ X.p with gs := gs', st := ({ X.p.st with gMin := false }).clearCUp } : Poly).Denotes S') :
    ({ X with p := { X.p with gs := gs', st := ({ X.p.st with gMin := false }).clearCUp } } : FPoly).Inv S' := by
  have hnp := legal_not_canPend hX.legal hcp
  refine ⟨hwf, hden, ?_, fun _ h => (by cases h), fun _ _ => ⟨le_of_eq hfp, fun _ => hfp⟩, fun _ h => (by cases h),
    fun _ h => (by cases h), ?_, fun _ h => (by simp [Status.canPend, Status.clearCUp] at h)⟩
  · exact legal_nonpendG hX.legal he hg hcp
  · intro _ h
    rw [show X.p.st.gPend = true from h] at hnp; cases hnp.2

end PPLV.PolyFull
