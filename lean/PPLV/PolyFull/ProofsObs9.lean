import PPLV.PolyFull.ProofsObs2
import PPLV.Lin.QuerySpecs

/-!
# Integration stage — the binary observers, part 9: `relation_with(g)` answers "subsumes"

`relationWithGen_facts`: for a well-formed generator row `g` whose kind is the one passed along,
`relation_with(g)` (Polyhedron_public.cc:266) keeps `Inv S` and answers `true` exactly when `S` is
non-empty and subsumes the generator (`Subsumes`, the right-hand side of K1's `subsumes_spec`): a point
belongs to `S`, a closure point is the end of half-open segments inside `S`, a ray / line translates
`S` into itself.
-/
namespace PPLV.PolyFull
open PPLV.Lin PPLV.PolyOps

/-- the kind passed to `satisfies_all_constraints` is the kind of the row -/
def KindOK (nnc : Bool) : FPoly.GKindA → Row → Prop
  | .line, g => g.eq = true
  | .ray, g => g.eq = false ∧ g.b = 0
  | .point, g => g.isPoint nnc
  | .cpoint, g => nnc = true ∧ g.eq = false ∧ g.b ≠ 0 ∧ g.eps = 0

theorem satisfiesAll_eq (nnc : Bool) (cs : List Row) (k : FPoly.GKindA) (g : Row) (hk : KindOK nnc k g) :
    FPoly.satisfiesAll nnc cs k g = cs.all fun c => pairTest nnc c g := by
  unfold FPoly.satisfiesAll
  congr 1
  funext c
  unfold pairTest
  cases k
  · have : g.eq = true := hk
    simp [this]
  · obtain ⟨h1, h2⟩ : g.eq = false ∧ g.b = 0 := hk
    simp [h1, h2]
  · obtain ⟨h1, h2, h3⟩ : g.eq = false ∧ 0 < g.b ∧ (nnc = true → 0 < g.eps) := hk
    have hb : g.b ≠ 0 := by omega
    by_cases hs : (nnc && decide (c.eps < 0)) = true
    · have hn : nnc = true := by simp only [Bool.and_eq_true] at hs; exact hs.1
      simp [h1, hb, hs, h3 hn]
    · simp [h1, hs]
  · obtain ⟨h0, h1, h2, h3⟩ : nnc = true ∧ g.eq = false ∧ g.b ≠ 0 ∧ g.eps = 0 := hk
    simp [h1, h3]

/-- `S` is non-empty and subsumes the generator (cf. `PPLV.Lin.subsumes_spec`) -/
def Subsumes (S : Set Val) (g : Gen) : Prop :=
  (∃ x, x ∈ S) ∧
    match g.kind with
    | .point => g.vec ∈ S
    | .cpoint => ∀ x ∈ S, ∀ s : Rat, 0 < s → s ≤ 1 → Val.seg s x g.vec ∈ S
    | .ray => ∀ x ∈ S, ∀ t : Rat, 0 ≤ t → x.move t g.coords ∈ S
    | .line => ∀ x ∈ S, ∀ t : Rat, x.move t g.coords ∈ S

theorem vec_dir (g : Gen) (h : g.isPtOrCp = false) : g.vec = dirVec g.coords := by
  funext i
  simp [Gen.vec, Gen.coord, Gen.d, h, dirVec]

/-- every row is compatible with the generator iff the (non-empty) set subsumes it -/
theorem rowAdmitsAll_iff (cs : List Con) (g : Gen) (hne : ∃ x, x ∈ sem cs) :
    (∀ c ∈ cs, rowAdmits c g) ↔ Subsumes (sem cs) g := by
  unfold Subsumes rowAdmits
  rw [and_iff_right hne]
  rcases hk : g.kind <;> simp only
  · -- line
    have hv := vec_dir g (by unfold Gen.isPtOrCp; rw [hk]; decide)
    rw [← hasLine_iff ⟨false, 0, cs⟩ g.coords hne, Bool.and_eq_true, hasRay_iff_dots, hasRay_iff_dots, hv]
    constructor
    · intro h
      refine ⟨fun c hc => by rw [h c hc], fun c hc => ?_⟩
      have : dirVec (g.coords.map (- ·)) = fun i => 0 * dirVec g.coords i + (-1) * dirVec g.coords i := by
        funext i; rw [dirVec_neg]; ring
      rw [this, dot_lin c.coeffs 0 (-1) (dirVec g.coords) (dirVec g.coords) _ (fun i _ => rfl), h c hc]
      simp
    · rintro ⟨h1, h2⟩ c hc
      have : dirVec (g.coords.map (- ·)) = fun i => 0 * dirVec g.coords i + (-1) * dirVec g.coords i := by
        funext i; rw [dirVec_neg]; ring
      have h2' := h2 c hc
      rw [this, dot_lin c.coeffs 0 (-1) (dirVec g.coords) (dirVec g.coords) _ (fun i _ => rfl)] at h2'
      have h1' := h1 c hc
      linarith
  · -- ray
    have hv := vec_dir g (by unfold Gen.isPtOrCp; rw [hk]; decide)
    rw [← hasRay_iff ⟨false, 0, cs⟩ g.coords hne, hasRay_iff_dots, hv]
  · -- point
    exact Iff.rfl
  · -- closure point
    rw [← mem_relax_iff_segment cs g.vec hne, mem_relax_iff]

/-- **`relation_with(g)`** keeps the invariant and answers "subsumes" -/
theorem relationWithGen_facts (G : GlueFacts) (x : FPoly) (S : Set Val) (hx : x.Inv S)
    (k : FPoly.GKindA) (g : Row) (hg : g.genWF x.p.nnc x.p.dim) (hk : KindOK x.p.nnc k g) :
    (x.relationWithGen k g).2.Inv S ∧ x.SameShape (x.relationWithGen k g).2 ∧
    ((x.relationWithGen k g).1 = true ↔ Subsumes S (g.toGen x.p.nnc)) := by
  obtain ⟨s1, i1, a1, _, a3⟩ := G.isEmpty x S hx
  unfold FPoly.relationWithGen
  simp only []
  cases he : x.isEmpty.1
  · have hne1 := (a3 he).1
    have hSne : ¬ S = ∅ := fun h => by have := a1.mpr h; rw [he] at this; cases this
    have hSne' : ∃ w, w ∈ S := Set.nonempty_iff_ne_empty.mpr hSne
    simp only [Bool.false_eq_true, if_false]
    by_cases hz : x.isEmpty.2.p.dim = 0
    · have : (x.isEmpty.2.dim == 0) = true := by show (x.isEmpty.2.p.dim == 0) = true; rw [hz]; rfl
      rw [if_pos this]
      have hS : S = Set.univ :=
        (i1.den.2 hne1).2.2 (i1.wf.zero_dim hz).1 (i1.wf.zero_dim hz).2
      refine ⟨i1, s1, ?_⟩
      subst hS
      unfold Subsumes
      simp only [true_iff]
      refine ⟨⟨Val.zero, trivial⟩, ?_⟩
      rcases (g.toGen x.p.nnc).kind <;> simp
    · have : ¬ (x.isEmpty.2.dim == 0) = true := by
        show ¬ (x.isEmpty.2.p.dim == 0) = true
        simpa using hz
      rw [if_neg this]
      obtain ⟨s2, i2, hne2, hcu2, hgp2⟩ := G.needCons _ S i1 hne1 (by omega)
      refine ⟨i2, SameShape.trans s1 s2, ?_⟩
      have hnn : x.isEmpty.2.needCons.p.nnc = x.p.nnc := by rw [s2.1, s1.1]
      have hC := (i2.den.2 hne2).1 hcu2 hgp2
      show FPoly.satisfiesAll x.isEmpty.2.needCons.p.nnc _ k g = true ↔ _
      rw [hnn, satisfiesAll_eq _ _ _ _ hk, List.all_eq_true]
      rw [hnn] at hC
      have hne' : ∃ w, w ∈ sem (consOf x.p.nnc x.isEmpty.2.needCons.p.cs.rows) := by
        show ∃ w, w ∈ conSem _ _
        rw [hC]; exact hSne'
      rw [← hC]
      show _ ↔ Subsumes (sem (consOf _ _)) _
      rw [← rowAdmitsAll_iff _ _ hne']
      constructor
      · intro h c' hc'
        obtain ⟨c, hc, hcc⟩ := List.mem_flatMap.mp hc'
        exact (pairTest_iff _ _ c g hg).mpr (h c hc) c' hcc
      · intro h c hc
        rw [← pairTest_iff _ _ c g hg]
        intro c' hcc
        exact h c' (List.mem_flatMap.mpr ⟨c, hc, hcc⟩)
  · have hS := a1.mp he
    simp only [if_true]
    refine ⟨i1, s1, ?_⟩
    subst hS
    constructor
    · intro h; cases h
    · rintro ⟨⟨w, hw⟩, -⟩; exact absurd hw (Set.notMem_empty w)

end PPLV.PolyFull
