import PPLV.PolyFull.ProofsObs1
import PPLV.PolyFull.ProofsObs2
import PPLV.PolyFull.ProofsObs3
import PPLV.PolyFull.ProofsObs4
import PPLV.PolyFull.ProofsObs5
import PPLV.PolyFull.ProofsObs6
import PPLV.PolyFull.ProofsObs7
import PPLV.PolyFull.ProofsObs8
import PPLV.PolyFull.ProofsObs9
import PPLV.PolyFull.ProofsGlueEx

/-!
# Integration stage — the answers of the binary observers are the reference's answers

All of `ProofsObs*.lean`, everything fully proved (no `_partial`):

* `includedLoops_iff` (part 1): the sign tests of the two loops of `is_included_in` succeed iff
  `genSem ⊆ conSem` — both directions, NNC included, no legality hypothesis on the constraint rows;
* `isIncludedIn_facts` (part 2, from `GlueFacts`): `x.is_included_in(y)` keeps `Inv S` / `Inv T` and
  answers `true ↔ S ⊆ T`;
* `sortedObsKeep` (parts 5–7): `obtain_sorted_generators()` / `obtain_sorted_constraints()` keep `Inv`
  on an object with the system minimized and nothing pending;
* `quickEquivalenceTest_true_sound` (parts 3, 7): states keep `Inv`, `TVB_TRUE` only of equal sets;
* `contains_facts`, `contains_refines` (parts 4, 7): `x.contains(y)` keeps `Inv`, answers
  `true ↔ T ⊆ S`, i.e. `RefPoly.contains`;
* `equals_facts` (part 8): `operator==` keeps `Inv`, answers `true` only of equal sets, and of all equal
  sets unless `quick_equivalence_test` answered `TVB_FALSE` (hypothesis `QetFalseSound`: the soundness
  of that answer needs the uniqueness of sorted minimal forms, which `FPoly.Inv` does not carry);
* `relationWithGen_facts` (part 9): `relation_with(g)` keeps `Inv` and answers `true` iff `S` is
  non-empty and subsumes the generator (`Subsumes`, the right-hand side of K1's `subsumes_spec`).

Below: the hypotheses are satisfiable on non-trivial instances.
-/
namespace PPLV.PolyFull
open PPLV.Lin PPLV.PolyOps

/-! ### `includedLoops_iff` on an NNC instance: point `(1,1)`, closure point `(0,0)`, ray `(1,0)` against
    `x ≥ 0`, `y > -1`, and the equality-free strict row `x + y > 0` that the closure point only meets
    non-strictly -/

def exGs : List Row := [⟨false, 1, [1, 1], 1⟩, ⟨false, 1, [0, 0], 0⟩, ⟨false, 0, [1, 0], 0⟩]
def exCs : List Row := [⟨false, 0, [1, 0], 0⟩, ⟨false, 1, [0, 1], -1⟩, ⟨false, 0, [1, 1], -1⟩]

theorem exGs_wf : ∀ r ∈ exGs, r.genWF true 2 := by
  intro r hr
  simp only [exGs, List.mem_cons, List.not_mem_nil, or_false] at hr
  rcases hr with rfl | rfl | rfl <;> (unfold Row.genWF; simp)

theorem exGs_pt : ∃ r ∈ exGs, r.isPoint true :=
  ⟨⟨false, 1, [1, 1], 1⟩, by simp [exGs], by unfold Row.isPoint; simp⟩

theorem exCs_len : ∀ r ∈ exCs, r.cf.length = 2 := by
  intro r hr
  simp only [exCs, List.mem_cons, List.not_mem_nil, or_false] at hr
  rcases hr with rfl | rfl | rfl <;> rfl

example : genSem true 2 exGs ⊆ conSem true exCs :=
  (includedLoops_iff true 2 exGs exCs exGs_wf exGs_pt exCs_len).mp (by decide)

/-- with the strict row `x > 0` the closure point `(0,0)` still passes (`≥`), the POINT test is `>` -/
example : ¬ genSem true 2 (⟨false, 1, [0, 1], 1⟩ :: exGs) ⊆ conSem true [⟨false, 0, [1, 0], -1⟩] := by
  rw [← includedLoops_iff true 2 _ _ (by
      intro r hr
      rcases List.mem_cons.mp hr with rfl | h
      · unfold Row.genWF; simp
      · exact exGs_wf r h)
    (by obtain ⟨r, hr, hp⟩ := exGs_pt; exact ⟨r, List.mem_cons_of_mem _ hr, hp⟩)
    (by intro r hr; simp only [List.mem_singleton] at hr; subst hr; rfl)]
  decide

/-! ### `isIncludedIn_facts`, `contains_facts` on two closed half-lines held by their generators only -/

/-- generators up to date only: point `p`, ray `+1` in dimension 1 -/
def exHalfLine (p : Int) : FPoly :=
  ⟨⟨false, 1, ⟨false, false, true, false, false, false, false, false, false⟩, Sys.clear,
    ⟨[⟨false, 1, [p], 0⟩, ⟨false, 0, [1], 0⟩], 2, false⟩⟩, BitMat.clear, BitMat.clear⟩

theorem exHalfLine_inv (p : Int) :
    (exHalfLine p).Inv (genSem false 1 [⟨false, 1, [p], 0⟩, ⟨false, 0, [1], 0⟩]) where
  wf := {
    cs_len := fun _ h => (by cases h)
    gs_wf := fun _ _ r hr => by
      simp only [exHalfLine, List.mem_cons, List.not_mem_nil, or_false] at hr
      rcases hr with rfl | rfl <;> (unfold Row.genWF; simp [exHalfLine])
    gs_pt := fun _ _ => ⟨⟨false, 1, [p], 0⟩, by simp [exHalfLine], by unfold Row.isPoint; simp [exHalfLine]⟩
    pend_c := fun h => (by cases h)
    pend_g := fun h => (by cases h)
    pend_one := fun h => (by cases h.1)
    some_up := fun _ _ => Or.inr rfl
    zero_dim := fun h => (by cases h) }
  den := ⟨fun h => (by cases h), fun _ => ⟨fun h => (by cases h), fun _ _ => rfl, fun _ h => (by cases h)⟩⟩
  legal := rfl
  fpC := fun _ h => (by cases h)
  fpG := fun _ _ => ⟨Nat.le_refl _, fun _ => rfl⟩
  low := fun _ h => (by cases h)
  denNPc := fun _ h => (by cases h)
  denNPg := fun _ h => (by cases h)
  eng := fun _ h => (by cases h)

example (G : GlueFacts) :
    (((exHalfLine 3).isIncludedIn (exHalfLine 0)).1 = true ↔
      genSem false 1 [⟨false, 1, [3], 0⟩, ⟨false, 0, [1], 0⟩] ⊆
        genSem false 1 [⟨false, 1, [0], 0⟩, ⟨false, 0, [1], 0⟩]) :=
  (isIncludedIn_facts G _ _ _ _ (exHalfLine_inv 3) (exHalfLine_inv 0) rfl rfl rfl rfl (by decide)).2.2.2.2

example :
    ((exHalfLine 3).quickEquivalenceTest (exHalfLine 0)).1 = some true →
      genSem false 1 [⟨false, 1, [3], 0⟩, ⟨false, 0, [1], 0⟩] =
        genSem false 1 [⟨false, 1, [0], 0⟩, ⟨false, 0, [1], 0⟩] :=
  (quickEquivalenceTest_true_sound _ _ _ _ (exHalfLine_inv 3) (exHalfLine_inv 0) rfl rfl rfl rfl).2.2.2.2.2.2

example (G : GlueFacts) :
    (((exHalfLine 0).contains (exHalfLine 3)).1 = true ↔
      genSem false 1 [⟨false, 1, [3], 0⟩, ⟨false, 0, [1], 0⟩] ⊆
        genSem false 1 [⟨false, 1, [0], 0⟩, ⟨false, 0, [1], 0⟩]) :=
  (contains_facts G _ _ _ _ (exHalfLine_inv 0) (exHalfLine_inv 3) rfl rfl).2.2.2.2

example (G : GlueFacts) :
    ((exHalfLine 0).equals (exHalfLine 3)).1 = true →
      genSem false 1 [⟨false, 1, [0], 0⟩, ⟨false, 0, [1], 0⟩] =
        genSem false 1 [⟨false, 1, [3], 0⟩, ⟨false, 0, [1], 0⟩] :=
  (equals_facts G _ _ _ _ (exHalfLine_inv 0) (exHalfLine_inv 3) rfl rfl).2.2.2.2.1

/-- `relation_with(point(5))` on the half-line `[3, +∞)`: the answer is membership of the point -/
example (G : GlueFacts) :
    ((exHalfLine 3).relationWithGen .point ⟨false, 1, [5], 0⟩).1 = true ↔
      Subsumes (genSem false 1 [⟨false, 1, [3], 0⟩, ⟨false, 0, [1], 0⟩]) ⟨.point, [5], 1⟩ :=
  (relationWithGen_facts G _ _ (exHalfLine_inv 3) .point ⟨false, 1, [5], 0⟩
    (by unfold Row.genWF; simp [exHalfLine]) (by unfold KindOK Row.isPoint; simp [exHalfLine])).2.2

/-- … and of the ray `-1`: the answer is invariance under the translations along it -/
example (G : GlueFacts) :
    ((exHalfLine 3).relationWithGen .ray ⟨false, 0, [-1], 0⟩).1 = true ↔
      Subsumes (genSem false 1 [⟨false, 1, [3], 0⟩, ⟨false, 0, [1], 0⟩]) ⟨.ray, [-1], 1⟩ :=
  (relationWithGen_facts G _ _ (exHalfLine_inv 3) .ray ⟨false, 0, [-1], 0⟩
    (by unfold Row.genWF; simp [exHalfLine]) (by unfold KindOK; simp)).2.2

/-! ### `contains_refines`: the hypotheses on the zero-dimensional universe -/

theorem sem_nil : sem ([] : List Con) = Set.univ := by
  ext w; simp [sem, Sat]

example (G : GlueFacts) (h : exZeroDimUniv.Inv Set.univ) :
    (exZeroDimUniv.contains exZeroDimUniv).1 = (⟨false, 0, []⟩ : RefPoly).contains ⟨false, 0, []⟩ :=
  (contains_refines G exZeroDimUniv exZeroDimUniv ⟨false, 0, []⟩ ⟨false, 0, []⟩ rfl rfl
    (by rw [sem_nil]; exact h) (by rw [sem_nil]; exact h)
    (fun _ h => (by cases h)) (fun _ h => (by cases h))).2.2.2.2

end PPLV.PolyFull
