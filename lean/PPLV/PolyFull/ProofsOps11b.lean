import PPLV.PolyFull.ProofsOps11a
import PPLV.Conv.ProofsCompleteMin
import Mathlib.Tactic.LinearCombination

/-!
# Integration stage — cone-level algebra of the invertible affine map

`subVec N v E d` is the linear map on homogeneous vectors induced by `x_v := E(x)/d` (column `v+1`
replaced by `E · X`, the others scaled by `d`).  `sp_subVec_gen`: its action under any functional;
`InvPair`: the condition under which two such maps compose to a positive multiple of the identity;
`invPair_fwd` / `invPair_bwd`: the pair (signed expression, `inverseMap`) satisfies it in both orders.
-/
namespace PPLV.PolyFull
open PPLV.Lin PPLV.PolyOps
open PPLV.Conv (scalarProduct holds holdsAll Vec sp_eq_sum sp_comm colVec sp_colVec)

/-- the functional of a linear expression on homogeneous vectors -/
def Ev (E : LinExpr) : Vec := E.k :: E.coeffs

theorem sp_subVec_gen (N v : Nat) (E : LinExpr) (d : Int) (c X : Vec) (hvN : v + 1 < N) :
    scalarProduct c (subVec N v E d X) =
      d * (∑ i ∈ Finset.range N, c.getD i 0 * X.getD i 0) +
        c.getD (v + 1) 0 * (scalarProduct (Ev E) X - d * X.getD (v + 1) 0) := by
  rw [sp_eq_sum N _ (subVec _ v E d X) (by rw [subVec_length])]
  have h2 : ∀ i ∈ Finset.range N,
      c.getD i 0 * (subVec N v E d X).getD i 0 =
        d * (c.getD i 0 * X.getD i 0)
          + (if i = v + 1 then c.getD i 0 * (scalarProduct (Ev E) X - d * X.getD i 0) else 0) := by
    intro i hi
    rw [subVec_getD _ _ _ _ _ _ (Finset.mem_range.mp hi)]
    unfold Ev
    split_ifs <;> ring
  rw [Finset.sum_congr rfl h2, Finset.sum_add_distrib, Finset.sum_ite_eq', ← Finset.mul_sum]
  have hmem : v + 1 ∈ Finset.range N := Finset.mem_range.mpr hvN
  simp only [hmem, if_true]

theorem sp_subVec' (N v : Nat) (E : LinExpr) (d : Int) (c X : Vec) (hvN : v + 1 < N) (hX : X.length ≤ N) :
    scalarProduct c (subVec N v E d X) =
      d * scalarProduct c X + c.getD (v + 1) 0 * (scalarProduct (Ev E) X - d * X.getD (v + 1) 0) := by
  rw [sp_subVec_gen N v E d c X hvN, ← sp_eq_sum N c X hX]

theorem subVec_getD_var (N v : Nat) (E : LinExpr) (d : Int) (X : Vec) (hvN : v + 1 < N) :
    (subVec N v E d X).getD (v + 1) 0 = scalarProduct (Ev E) X := by
  rw [subVec_getD _ _ _ _ _ _ hvN, if_pos rfl]; rfl

/-- `Y` and `s · Y'` are the same vector (as functionals): so are their images -/
theorem subVec_congr_scale (N v : Nat) (E : LinExpr) (d : Int) (Y Y' : Vec) (s : Int) (hvN : v + 1 < N)
    (hY : Y.length ≤ N) (hY' : Y'.length ≤ N) (h : ∀ a : Vec, scalarProduct a Y = s * scalarProduct a Y')
    (c : Vec) : scalarProduct c (subVec N v E d Y) = s * scalarProduct c (subVec N v E d Y') := by
  rw [sp_subVec' N v E d c Y hvN hY, sp_subVec' N v E d c Y' hvN hY', h c, h (Ev E),
    ← sp_colVec (v + 1) Y, ← sp_colVec (v + 1) Y', h (colVec (v + 1))]
  ring

/-- the two maps compose to `d1 · d2` times the identity -/
def InvPair (N v : Nat) (E1 : LinExpr) (d1 : Int) (E2 : LinExpr) (d2 : Int) : Prop :=
  ∀ X : Vec, X.length ≤ N →
    d2 * scalarProduct (Ev E1) X + E1.coeffs.getD v 0 * scalarProduct (Ev E2) X =
      (d1 * d2 + E1.coeffs.getD v 0 * d2) * X.getD (v + 1) 0

theorem subVec_comp (N v : Nat) (E1 : LinExpr) (d1 : Int) (E2 : LinExpr) (d2 : Int) (hvN : v + 1 < N)
    (hP : InvPair N v E1 d1 E2 d2) (c X : Vec) (hX : X.length ≤ N) :
    scalarProduct c (subVec N v E1 d1 (subVec N v E2 d2 X)) = d1 * d2 * scalarProduct c X := by
  have hl : (subVec N v E2 d2 X).length ≤ N := by rw [subVec_length]
  rw [sp_subVec' N v E1 d1 c _ hvN hl, sp_subVec' N v E2 d2 c X hvN hX,
    sp_subVec' N v E2 d2 (Ev E1) X hvN hX, subVec_getD_var N v E2 d2 X hvN]
  have hg : (Ev E1).getD (v + 1) 0 = E1.coeffs.getD v 0 := rfl
  rw [hg]
  linear_combination c.getD (v + 1) 0 * hP X hX

/-! ## the concrete pair -/

theorem sp_set : ∀ (l : Vec) (v : Nat) (a : Int) (X : Vec), v < l.length →
    scalarProduct (l.set v a) X = scalarProduct l X + (a - l.getD v 0) * X.getD v 0
  | [], v, a, X, h => by simp at h
  | b :: l, 0, a, [], _ => by simp [scalarProduct]
  | b :: l, 0, a, x :: X, _ => by simp [scalarProduct]; ring
  | b :: l, v + 1, a, [], _ => by simp [scalarProduct]
  | b :: l, v + 1, a, x :: X, h => by
    simp only [List.set_cons_succ, scalarProduct, List.getD_cons_succ]
    rw [sp_set l v a X (by simpa using h)]; ring

theorem sp_map_neg_left (l X : Vec) : scalarProduct (l.map (- ·)) X = - scalarProduct l X := by
  rw [sp_comm, PPLV.Conv.sp_neg, sp_comm]

theorem padTo_self (n : Nat) (l : List Int) (h : l.length = n) : padTo n l = l := by
  unfold padTo; rw [← h]; simp

theorem sp_Ev_exprNeg (e : LinExpr) (X : Vec) : scalarProduct (Ev (exprNeg e)) X = - scalarProduct (Ev e) X := by
  have : Ev (exprNeg e) = (Ev e).map (- ·) := by simp [Ev, exprNeg]
  rw [this, sp_map_neg_left]

theorem sp_Ev_exprSet (n v : Nat) (e : LinExpr) (a : Int) (X : Vec) (he : e.coeffs.length = n) (hv : v < n) :
    scalarProduct (Ev (exprSet n e v a)) X =
      scalarProduct (Ev e) X + (a - e.coeffs.getD v 0) * X.getD (v + 1) 0 := by
  have : Ev (exprSet n e v a) = (Ev e).set (v + 1) a := by
    simp [Ev, exprSet, padTo_self n _ he]
  rw [this, sp_set _ _ _ _ (by simp [Ev, he]; omega)]
  rfl

/-- the expression / denominator the code passes to the system-level loops -/
def sgnE (e : LinExpr) (den : Int) : LinExpr := if den > 0 then e else exprNeg e
def sgnD (den : Int) : Int := if den > 0 then den else -den

theorem sgnD_pos (den : Int) (h : den ≠ 0) : 0 < sgnD den := by unfold sgnD; split <;> omega

theorem gsSigned_eq (v : Nat) (e : LinExpr) (den : Int) (s : Sys) :
    gsSigned v e den s = gsAffineImage v (sgnE e den) (sgnD den) s := by
  unfold gsSigned sgnE sgnD; split <;> rfl

theorem csSigned_eq (v : Nat) (e : LinExpr) (den : Int) (s : Sys) :
    csSigned v e den s = csAffinePreimage v (sgnE e den) (sgnD den) s := by
  unfold csSigned sgnE sgnD; split <;> rfl

theorem sgnE_length (e : LinExpr) (den : Int) : (sgnE e den).coeffs.length = e.coeffs.length := by
  unfold sgnE; split
  · rfl
  · exact PPLV.PolyFull.exprNeg_length e

theorem invPair_fwd (N n v : Nat) (e : LinExpr) (den : Int) (he : e.coeffs.length = n) (hv : v < n) :
    InvPair N v (sgnE e den) (sgnD den) (inverseMap n v e den).1 (inverseMap n v e den).2 := by
  intro X _
  unfold sgnE sgnD inverseMap
  by_cases hd : den > 0 <;> by_cases hc : e.coeffs.getD v 0 > 0
  all_goals
    simp only [hd, hc, if_true, if_false]
    first
      | rw [sp_Ev_exprSet n v _ _ X (by rw [PPLV.PolyFull.exprNeg_length, he]) hv]
      | rw [sp_Ev_exprSet n v _ _ X he hv]
    try simp only [sp_Ev_exprNeg, PPLV.PolyFull.exprNeg_getD]
    ring

theorem invPair_bwd (N n v : Nat) (e : LinExpr) (den : Int) (he : e.coeffs.length = n) (hv : v < n) :
    InvPair N v (inverseMap n v e den).1 (inverseMap n v e den).2 (sgnE e den) (sgnD den) := by
  intro X _
  unfold sgnE sgnD inverseMap
  by_cases hd : den > 0 <;> by_cases hc : e.coeffs.getD v 0 > 0
  all_goals
    simp only [hd, hc, if_true, if_false]
    first
      | rw [sp_Ev_exprSet n v _ _ X (by rw [PPLV.PolyFull.exprNeg_length, he]) hv]
      | rw [sp_Ev_exprSet n v _ _ X he hv]
    try simp only [sp_Ev_exprNeg, PPLV.PolyFull.exprNeg_getD, exprSet_getD _ _ _ _ hv]
    ring

end PPLV.PolyFull
