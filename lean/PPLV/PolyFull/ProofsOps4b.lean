import PPLV.PolyFull.ProofsOps2

/-!
# Integration stage — `poly_hull_assign` refines `hullGens`
-/
namespace PPLV.PolyFull
open PPLV.Lin PPLV.PolyOps

theorem poly_hull_y_empty (x y : Poly) (h : y.st.empty = true) : x.poly_hull_assign y = some x := by
  simp [Poly.poly_hull_assign, h]

theorem poly_hull_x_empty (x y : Poly) (hy : y.st.empty = false) (h : x.st.empty = true) :
    x.poly_hull_assign y = some y := by
  simp [Poly.poly_hull_assign, h, hy]

theorem poly_hull_dim0 (x y : Poly) (hy : y.st.empty = false) (hx : x.st.empty = false) (hd : x.dim = 0) :
    x.poly_hull_assign y = some x := by
  simp [Poly.poly_hull_assign, hx, hy, hd]

theorem poly_hull_pend (x y : Poly) (hex : x.st.empty = false) (hey : y.st.empty = false)
    (hd : x.dim ≠ 0) (hgx : x.st.gUp = true) (hcx : x.st.cPend = false) (hgy : y.st.gUp = true)
    (hcy : y.st.cPend = false) (hcp : x.st.canPend = true) :
    x.poly_hull_assign y =
      some { x with gs := x.gs.insertPendingSys y.gs.rows, st := { x.st with gPend := true } } := by
  simp [Poly.poly_hull_assign, Poly.obtainGeneratorsPendingNoConv, hex, hey, hd, hcx, hgx, hcy, hgy, hcp]

theorem poly_hull_nonpend (x y : Poly) (hex : x.st.empty = false) (hey : y.st.empty = false)
    (hd : x.dim ≠ 0) (hgx : x.st.gUp = true) (hcx : x.st.cPend = false) (hgy : y.st.gUp = true)
    (hcy : y.st.cPend = false) (hcp : x.st.canPend = false) :
    x.poly_hull_assign y =
      some { x with gs := (if (x.gs.sorted && y.gs.sorted && !y.st.gPend) = true then x.gs.mergeRowsAssign y.gs.rows
                            else x.gs.insertSys y.gs.rows),
                    st := ({ x.st with gMin := false }).clearCUp } := by
  simp [Poly.poly_hull_assign, Poly.obtainGeneratorsPendingNoConv, hex, hey, hd, hcx, hgx, hcy, hgy, hcp]

/-- the main branch of `poly_hull_assign` on prepared operands -/
theorem poly_hull_main (x y : FPoly) (S Sy S' : Set Val) (hx : x.Inv S) (hy : y.Inv Sy)
    (hdim : y.p.dim = x.p.dim) (hnnc : y.p.nnc = x.p.nnc)
    (hex : x.p.st.empty = false) (hey : y.p.st.empty = false) (hd : x.p.dim ≠ 0)
    (hgx : x.p.st.gUp = true) (hcx : x.p.st.cPend = false) (hgy : y.p.st.gUp = true)
    (hcy : y.p.st.cPend = false)
    (hden : ∀ q, x.p.poly_hull_assign y.p = some q → q.Denotes S') :
    ({ x.liftO (x.p.poly_hull_assign y.p) with
        p := { (x.liftO (x.p.poly_hull_assign y.p)).p with
          gs := (x.liftO (x.p.poly_hull_assign y.p)).p.gs.refineBy
            (if x.st.canPend then x.p.gs.insertPendingSys y.p.gs.rows
             else if x.p.gs.sorted && y.p.gs.sorted && !y.st.gPend then x.p.gs.mergeRowsExact true x.nnc y.p.gs.rows
             else x.p.gs.insertSysExact true x.nnc y.p.gs) } } : FPoly).Inv S' ∧
    (x.liftO (x.p.poly_hull_assign y.p)).p.nnc = x.p.nnc ∧
    (x.liftO (x.p.poly_hull_assign y.p)).p.dim = x.p.dim := by
  have hwfq : ∀ q, x.p.poly_hull_assign y.p = some q → q.WF := fun q h =>
    poly_hull_assign_rows_wf x.p y.p q hdim hnnc hx.wf hy.wf
      (fun h => (legal_canPend_up hx.legal h).1) (legal_gPend_canPend hx.legal) h
  cases hcp : x.p.st.canPend
  · have hq := poly_hull_nonpend x.p y.p hex hey hd hgx hcx hgy hcy hcp
    rw [hq]
    have hI := Inv_nonpendG x S S' _ hx hex hgx hcp
      (by split; exact mergeRowsAssign_fp _ _; exact insertSys_fp _ _)
      (hwfq _ hq) (hden _ hq)
    refine ⟨Inv_liftO_refineG x _ S' _ (by simp [Status.clearCUp, hex]) hI ?_ ?_, ?_, ?_⟩
    · intro _ _
      unfold FPoly.st
      rw [hcp]
      simp only [Bool.false_eq_true, if_false]
      split
      · exact ⟨le_of_eq rfl, fun _ => rfl⟩
      · unfold Sys.insertSysExact
        split
        · have := hx.fpG hex hgx
          exact ⟨this.1, fun _ => this.2 (legal_not_canPend hx.legal hcp).2⟩
        · refine ⟨le_of_eq ?_, fun _ => ?_⟩ <;> simp [List.length_append]
    · intro _ h
      simp [Status.canPend, Status.clearCUp] at h
    · show (x.lift _).p.nnc = _
      rw [lift_p]
    · show (x.lift _).p.dim = _
      rw [lift_p]
  · have hq := poly_hull_pend x.p y.p hex hey hd hgx hcx hgy hcy hcp
    rw [hq]
    have hI := Inv_pendG x S S' y.p.gs.rows hx hex hgx hcx hcp (hwfq _ hq) (hden _ hq)
    refine ⟨Inv_liftO_refineG x _ S' _ hex hI ?_ ?_, ?_, ?_⟩
    · intro h1 h2
      unfold FPoly.st
      rw [hcp]
      simp only [if_true]
      exact hI.fpG h1 h2
    · intro _ _
      unfold FPoly.st
      rw [hcp]
      simp only [if_true]
    · show (x.lift _).p.nnc = _
      rw [lift_p]
    · show (x.lift _).p.dim = _
      rw [lift_p]

/-- **`Polyhedron::poly_hull_assign(y)`, the whole object** (preparation by `needGens` on both
    operands, the row-level operator, the exact row order): the receiver denotes the hull of the two
    generator lists, the argument (lazily updated) still denotes its set, both keep the invariant
    and their shape. -/
theorem polyHullAssign_refines (G : GlueFacts) (x y : FPoly) (n : Nat) (gx gy : List Gen)
    (hxn : x.p.dim = n) (hyn : y.p.dim = n) (hnnc : y.p.nnc = x.p.nnc)
    (hwx : gensWF n gx = true) (hwy : gensWF n gy = true)
    (hpx : gx = [] ∨ ∃ g ∈ gx, g.isPt = true) (hpy : gy = [] ∨ ∃ g ∈ gy, g.isPt = true)
    (hx : x.Inv (GenSem n gx)) (hy : y.Inv (GenSem n gy)) :
    (x.polyHullAssign y).1.Inv (GenSem n (hullGens [gx, gy])) ∧ (x.polyHullAssign y).2.Inv (GenSem n gy) ∧
    x.SameShape (x.polyHullAssign y).1 ∧ y.SameShape (x.polyHullAssign y).2 := by
  have hyx : x.SameShape y := ⟨hnnc, hyn.trans hxn.symm⟩
  have key : ∀ (x' y' : FPoly), x'.p.dim = n → y'.p.dim = n → y'.p.nnc = x'.p.nnc →
      x'.Inv (GenSem n gx) → y'.Inv (GenSem n gy) → ∀ q, x'.p.poly_hull_assign y'.p = some q →
      q.Denotes (GenSem n (hullGens [gx, gy])) := fun x' y' h1 h2 h3 h4 h5 q h =>
    poly_hull_assign_rows_correct x'.p y'.p q n gx gy h1 h2 h3 h4.wf h5.wf hwx hwy hpx hpy h4.den h5.den h
  unfold FPoly.polyHullAssign
  by_cases hey : y.st.empty = true
  · rw [if_pos hey]
    exact ⟨hx.change (key x y hxn hyn hnnc hx hy _ (poly_hull_y_empty x.p y.p hey)), hy, ⟨rfl, rfl⟩, rfl, rfl⟩
  rw [if_neg hey]
  have hey' : y.p.st.empty = false := by simpa [FPoly.st] using hey
  by_cases hex : x.st.empty = true
  · rw [if_pos hex]
    exact ⟨hy.change (key x y hxn hyn hnnc hx hy _ (poly_hull_x_empty x.p y.p hey' hex)), hy, hyx, rfl, rfl⟩
  rw [if_neg hex]
  have hex' : x.p.st.empty = false := by simpa [FPoly.st] using hex
  by_cases hd0 : (x.dim == 0) = true
  · rw [if_pos hd0]
    have hd : x.p.dim = 0 := by simpa [FPoly.dim] using hd0
    exact ⟨hx.change (key x y hxn hyn hnnc hx hy _ (poly_hull_dim0 x.p y.p hey' hex' hd)), hy, ⟨rfl, rfl⟩, rfl, rfl⟩
  rw [if_neg hd0]
  have hd : x.p.dim ≠ 0 := by simpa [FPoly.dim] using hd0
  have hdp : 0 < x.p.dim := Nat.pos_of_ne_zero hd
  obtain ⟨hsx, hix, hx1, hx0⟩ := G.needGens x _ hx hex' hdp
  have hxn1 : x.needGens.2.p.dim = n := hsx.2.trans hxn
  have hnnc1 : y.p.nnc = x.needGens.2.p.nnc := hnnc.trans hsx.1.symm
  cases hbx : x.needGens.1
  · obtain ⟨hex1, hgx1, hcx1⟩ := hx0 hbx
    obtain ⟨hsy, hiy, hy1, hy0⟩ := G.needGens y _ hy hey' (by rw [hyn, ← hxn]; exact hdp)
    have hyn1 : y.needGens.2.p.dim = n := hsy.2.trans hyn
    have hnnc2 : y.needGens.2.p.nnc = x.needGens.2.p.nnc := hsy.1.trans hnnc1
    cases hby : y.needGens.1
    · obtain ⟨hey1, hgy1, hcy1⟩ := hy0 hby
      simp only [hbx, hby, Bool.false_eq_true, if_false]
      obtain ⟨a, b, c⟩ := poly_hull_main x.needGens.2 y.needGens.2 _ _ (GenSem n (hullGens [gx, gy])) hix hiy
        (hyn1.trans hxn1.symm) hnnc2 hex1 hey1 (by rw [hxn1, ← hxn]; exact hd) hgx1 hcx1 hgy1 hcy1
        (key _ _ hxn1 hyn1 hnnc2 hix hiy)
      exact ⟨a, hiy, ⟨b.trans hsx.1, c.trans hsx.2⟩, hsy⟩
    · obtain ⟨_, hey1⟩ := hy1 hby
      simp only [hbx, hby, Bool.false_eq_true, if_false, if_true]
      exact ⟨hix.change (key _ _ hxn1 hyn1 hnnc2 hix hiy _ (poly_hull_y_empty _ _ hey1)), hiy, hsx, hsy⟩
  · obtain ⟨_, hex1⟩ := hx1 hbx
    simp only [hbx, if_true]
    exact ⟨hy.change (key _ _ hxn1 hyn hnnc1 hix hy _ (poly_hull_x_empty _ _ hey' hex1)), hy, hyx, rfl, rfl⟩

end PPLV.PolyFull
