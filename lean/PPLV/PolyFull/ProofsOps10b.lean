import PPLV.PolyFull.ProofsOps10
import PPLV.PolyFull.ProofsOps9b

/-!
# Integration stage — `affine_image` / `affine_preimage` / `generalized_affine_image` with the field
`low` of the result PROVED (`LowLevel_csAffinePreimage`)

* `affinePreimage_refines_noninv`: the non-invertible `affine_preimage`, fully proved;
* `affineImage_refines_partial2`, `affinePreimage_refines_partial2`, `generalizedAffineImage_refines_partial2`:
  only `hNPg` (field `denNPg`) and `hEng` (field `eng`) of the result of the INVERTIBLE map remain assumed.
-/
namespace PPLV.PolyFull
open PPLV.Lin PPLV.PolyOps

theorem exprNeg_length (e : LinExpr) : (exprNeg e).coeffs.length = e.coeffs.length := by
  simp [exprNeg]

theorem LowLevel_csSigned (nnc : Bool) (n v : Nat) (e : LinExpr) (den : Int) (s : Sys)
    (hlen : ∀ r ∈ s.rows, r.cf.length = n) (he : e.coeffs.length = n) (hv : v < n) (hden : den ≠ 0)
    (h : LowLevel nnc n s.rows) : LowLevel nnc n (csSigned v e den s).rows := by
  unfold csSigned
  split
  · rename_i hd
    rw [csAffinePreimage_rows]
    exact LowLevel_csAffinePreimage nnc n v e den s.rows hlen he hv hd h
  · rename_i hd
    rw [csAffinePreimage_rows]
    exact LowLevel_csAffinePreimage nnc n v _ (-den) s.rows hlen (by rw [exprNeg_length, he]) hv (by omega) h

/-- the field `low` of the result of `affine_image` in the invertible case -/
theorem affineImage_low (x : FPoly) (S : Set Val) (v : Nat) (e : LinExpr) (den : Int) (hx : x.Inv S)
    (hv : v < x.p.dim) (hc : e.coeffs.getD v 0 ≠ 0) (hex : x.p.st.empty = false)
    (hRc : (x.affineImage v e den).p.st.cUp = true) :
    LowLevel (x.affineImage v e den).p.nnc (x.affineImage v e den).p.dim (x.affineImage v e den).p.cs.rows := by
  obtain ⟨q, hq, hp⟩ := affineImage_inv_p x v e den hex hc
  obtain ⟨hst, hqn, hqd, _, hcs⟩ := affine_image_inv_shape x.p q v e den hex hc hq
  rw [hp] at hRc ⊢
  have hcu : x.p.st.cUp = true := by rw [← hst]; exact hRc
  rw [hqn, hqd, hcs, if_pos hcu, csAffinePreimage_rows]
  exact LowLevel_csAffinePreimage _ _ v _ _ _ (hx.wf.cs_len hex hcu) (inverseMap_length _ _ _ _) hv
    (inverseMap_den_pos _ _ _ _ hc) (hx.low hex hcu)

/-- the field `low` of the result of `affine_preimage` -/
theorem affinePreimage_low (G : GlueFacts) (x : FPoly) (S : Set Val) (v : Nat) (e : LinExpr) (den : Int)
    (hx : x.Inv S) (hv : v < x.p.dim) (he : e.coeffs.length = x.p.dim) (hden : den ≠ 0)
    (hex : x.p.st.empty = false) (hRe : (x.affinePreimage v e den).p.st.empty = false)
    (hRc : (x.affinePreimage v e den).p.st.cUp = true) :
    LowLevel (x.affinePreimage v e den).p.nnc (x.affinePreimage v e den).p.dim
      (x.affinePreimage v e den).p.cs.rows := by
  by_cases hc : e.coeffs.getD v 0 = 0
  · have hcond : (x.st.empty || e.coeffs.getD v 0 != 0) = false := by
      have hex' : x.st.empty = false := hex
      rw [hex', hc]; rfl
    rw [affinePreimage_eq] at hRe hRc ⊢
    simp only [hcond, Bool.false_eq_true, if_false] at hRe hRc ⊢
    have hdpos : 0 < x.p.dim := Nat.lt_of_le_of_lt (Nat.zero_le _) hv
    obtain ⟨hs1, hi1, hcase⟩ := prepConsMin_facts G x _ hx hex hdpos
    generalize x.prepConsMin = x1 at hs1 hi1 hcase hRe hRc ⊢
    rcases hcase with hem1 | ⟨hne1, hcu1, hpc1⟩
    · have hq : x1.p.affine_preimage v e den = some x1.p := by
        unfold Poly.affine_preimage; rw [if_pos hem1]
      rw [hq] at hRe
      have hp : (x1.liftO (some x1.p)).p = x1.p := lift_p _ _
      rw [hp, hem1] at hRe; cases hRe
    · have hcase' : x1.p.st.cPend = true ∨
          (x1.p.st.somethingPending = false ∧ x1.p.cs.firstPending = x1.p.cs.rows.length) := by
        rcases hpc1 with h | h
        · exact Or.inl h
        · refine Or.inr ⟨h, (hi1.fpC hne1 hcu1).2 ?_⟩
          simp only [Status.somethingPending, Bool.or_eq_false_iff] at h
          exact h.1
      obtain ⟨q, hq, _⟩ := affine_preimage_noninv_form x1.p v e den hne1 hc hcu1 hcase'
      obtain ⟨_, _, hqn, hqd, ⟨cs0, hcs0, hqcs⟩, _⟩ :=
        affine_preimage_noninv_shape x1.p q v e den hi1.wf hne1 hc hq
      rw [hq]
      have hp : (x1.liftO (some q)).p = q := lift_p _ _
      rw [hp, hqn, hqd, hqcs]
      apply LowLevel_csSigned _ _ v e den cs0 (by rw [hcs0]; exact hi1.wf.cs_len hne1 hcu1)
        (by rw [hs1.2]; exact he) (by rw [hs1.2]; exact hv) hden
      rw [hcs0]; exact hi1.low hne1 hcu1
  · obtain ⟨q, hq, hp⟩ := affinePreimage_inv_p x v e den hex hc
    obtain ⟨hst, hqn, hqd, hcs, _⟩ := affine_preimage_inv_shape x.p q v e den hex hc hq
    rw [hp] at hRc ⊢
    have hcu : x.p.st.cUp = true := by rw [← hst]; exact hRc
    rw [hqn, hqd, hcs, if_pos hcu]
    exact LowLevel_csSigned _ _ v e den _ (hx.wf.cs_len hex hcu) he hv hden (hx.low hex hcu)

/-- **`affine_image`, the whole object.**  PARTIAL: assumed of the RESULT, only in the invertible case
    (`expr[var] ≠ 0`) on a receiver not marked empty: `hNPg` (field `denNPg`: with pending generators the
    constraints describe the non-pending generators) and `hEng` (field `eng`: the non-pending parts are
    a minimal DD pair with exact saturation matrices, when `canPend`). -/
theorem affineImage_refines_partial2 (G : GlueFacts) (x : FPoly) (ref : RefPoly) (v : Nat) (e : LinExpr)
    (den : Int) (hn : ref.n = x.p.dim) (hnnc : ref.nnc = x.p.nnc) (hwf : WF ref.n ref.cs)
    (hv : v < x.p.dim) (he : e.coeffs.length = x.p.dim) (hden : den ≠ 0) (hx : x.Inv (sem ref.cs))
    (hNPg : e.coeffs.getD v 0 ≠ 0 → x.p.st.empty = false → (x.affineImage v e den).p.st.gPend = true →
      conSem (x.affineImage v e den).p.nnc (x.affineImage v e den).p.cs.rows =
        genSem (x.affineImage v e den).p.nnc (x.affineImage v e den).p.dim (x.affineImage v e den).npG)
    (hEng : e.coeffs.getD v 0 ≠ 0 → x.p.st.empty = false → (x.affineImage v e den).p.st.canPend = true →
      EnginePair (x.affineImage v e den).p.nnc (x.affineImage v e den).p.dim (x.affineImage v e den).npC
        (x.affineImage v e den).npG (x.affineImage v e den).p.st.satC (x.affineImage v e den).p.st.satG
        (x.affineImage v e den).satC (x.affineImage v e den).satG) :
    (x.affineImage v e den).Inv (sem (ref.affineImage v e den).cs) ∧ x.SameShape (x.affineImage v e den) :=
  affineImage_refines_partial' G x ref v e den hn hnnc hwf hv he hden hx
    (fun hc hex hRc => affineImage_low x _ v e den hx hv hc hex hRc) hNPg hEng

/-- **`affine_preimage`, the whole object.**  PARTIAL exactly as `affineImage_refines_partial2`
    (`hNPg`, `hEng`; invertible case only). -/
theorem affinePreimage_refines_partial2 (G : GlueFacts) (x : FPoly) (ref : RefPoly) (v : Nat) (e : LinExpr)
    (den : Int) (hn : ref.n = x.p.dim) (hnnc : ref.nnc = x.p.nnc) (hwf : WF ref.n ref.cs)
    (hv : v < x.p.dim) (he : e.coeffs.length = x.p.dim) (hden : den ≠ 0) (hx : x.Inv (sem ref.cs))
    (hNPg : e.coeffs.getD v 0 ≠ 0 → x.p.st.empty = false → (x.affinePreimage v e den).p.st.gPend = true →
      conSem (x.affinePreimage v e den).p.nnc (x.affinePreimage v e den).p.cs.rows =
        genSem (x.affinePreimage v e den).p.nnc (x.affinePreimage v e den).p.dim (x.affinePreimage v e den).npG)
    (hEng : e.coeffs.getD v 0 ≠ 0 → x.p.st.empty = false → (x.affinePreimage v e den).p.st.canPend = true →
      EnginePair (x.affinePreimage v e den).p.nnc (x.affinePreimage v e den).p.dim
        (x.affinePreimage v e den).npC (x.affinePreimage v e den).npG (x.affinePreimage v e den).p.st.satC
        (x.affinePreimage v e den).p.st.satG (x.affinePreimage v e den).satC (x.affinePreimage v e den).satG) :
    (x.affinePreimage v e den).Inv (sem (ref.affinePreimage v e den).cs) ∧
      x.SameShape (x.affinePreimage v e den) :=
  affinePreimage_refines_partial' G x ref v e den hn hnnc hwf hv he hden hx
    (fun hex hRe hRc => affinePreimage_low G x _ v e den hx hv he hden hex hRe hRc) hNPg hEng

/-- non-invertible `affine_preimage`: fully proved -/
theorem affinePreimage_refines_noninv (G : GlueFacts) (x : FPoly) (ref : RefPoly) (v : Nat) (e : LinExpr)
    (den : Int) (hn : ref.n = x.p.dim) (hnnc : ref.nnc = x.p.nnc) (hwf : WF ref.n ref.cs)
    (hv : v < x.p.dim) (he : e.coeffs.length = x.p.dim) (hden : den ≠ 0) (hx : x.Inv (sem ref.cs))
    (hc : e.coeffs.getD v 0 = 0) :
    (x.affinePreimage v e den).Inv (sem (ref.affinePreimage v e den).cs) ∧
      x.SameShape (x.affinePreimage v e den) :=
  affinePreimage_refines_partial2 G x ref v e den hn hnnc hwf hv he hden hx
    (fun h => absurd hc h) (fun h => absurd hc h)

/-- **`generalized_affine_image`, `relsym ∈ {≤, =, ≥}`.**  PARTIAL exactly as
    `affineImage_refines_partial2` (`hNPg`, `hEng` of the intermediate `x.affineImage v e den`). -/
theorem generalizedAffineImage_refines_partial2 (G : GlueFacts) (x : FPoly) (ref : RefPoly) (v : Nat) (r : Rel)
    (e : LinExpr) (den : Int) (hn : ref.n = x.p.dim) (hnnc : ref.nnc = x.p.nnc) (hwf : WF ref.n ref.cs)
    (hv : v < x.p.dim) (he : e.coeffs.length = x.p.dim) (hden : den ≠ 0) (hx : x.Inv (sem ref.cs))
    (hr : r = .le ∨ r = .eq ∨ r = .ge)
    (hNPg : e.coeffs.getD v 0 ≠ 0 → x.p.st.empty = false → (x.affineImage v e den).p.st.gPend = true →
      conSem (x.affineImage v e den).p.nnc (x.affineImage v e den).p.cs.rows =
        genSem (x.affineImage v e den).p.nnc (x.affineImage v e den).p.dim (x.affineImage v e den).npG)
    (hEng : e.coeffs.getD v 0 ≠ 0 → x.p.st.empty = false → (x.affineImage v e den).p.st.canPend = true →
      EnginePair (x.affineImage v e den).p.nnc (x.affineImage v e den).p.dim (x.affineImage v e den).npC
        (x.affineImage v e den).npG (x.affineImage v e den).p.st.satC (x.affineImage v e den).p.st.satG
        (x.affineImage v e den).satC (x.affineImage v e den).satG) :
    (x.generalizedAffineImage v r e den).Inv (sem (ref.genAffineImage v r e den).cs) ∧
      x.SameShape (x.generalizedAffineImage v r e den) :=
  generalizedAffineImage_of_affineImage G x ref v r e den hn hwf hv he hden hr
    (affineImage_refines_partial2 G x ref v e den hn hnnc hwf hv he hden hx hNPg hEng)

end PPLV.PolyFull
