import PPLV.PolyFull.ProofsStatus4o

/-!
# Integration stage — `full_matches_status_model`

The existential form: for every private helper `f` of the full model and its counterpart `F` of the
status-protocol model, every full state `x` and abstract state `s` with `Sim x s`, there are ghost inputs
`g` and an abstract state `s'` that differs from `s` in ghost Booleans only (`SameStored s s'`, hence
`Sim x s'`) with `Sim (f x) (F g s')` and equal Boolean answers.  The ghost data are what the full model
computes.  `…_status_legal`: when `s` itself satisfies the invariant of the status protocol and its ghost
Booleans are the ones the full model computes, the status word the full model leaves is legal
(`statusOK`, `polyOK` — by `C01.status_inv`'s per-function lemmas).

Files: `ProofsStatus1-3` (helpers, `_sim` form), `4` (`needGens`, ghost conditions satisfiable), `4b` (`Sim.legalB`:
the legality table of the status-protocol model IS `statusLegalB`; `f_status_legal` for every helper), `4c`-`4i`
(observers, `refine_no_check`/`add_constraint`, `add_generator`, `unconstrain`, `affine_image`,
`affine_preimage`), `4j`-`4k` (`intersection_assign`, `poly_hull_assign`), `4l`-`4o` (`is_included_in`,
`quick_equivalence_test`, `contains`, `operator==` — in `_sim` form: `isIncludedIn_sim`, `qet_sim`,
`contains_sim`, `equals_decided`, `equals_undecided`).  Summary theorems here: `full_matches_status_model`
(helpers), `full_matches_status_model_public` (unary public methods), `full_matches_status_model_binary`.
-/
namespace PPLV.PolyFull
open PPLV.PolyOps
open PPLV.PolyStatus (PState Gh)

/-! ## `f_matches` -/

theorem updateSatC_matches (x : FPoly) (s : PState) (h : Sim x s) :
    ∃ s', SameStored s s' ∧ Sim x s' ∧ Sim x.updateSatC (PPLV.PolyStatus.updateSatC s') :=
  ⟨s, .refl s, h, updateSatC_sim x s h⟩
theorem updateSatG_matches (x : FPoly) (s : PState) (h : Sim x s) :
    ∃ s', SameStored s s' ∧ Sim x s' ∧ Sim x.updateSatG (PPLV.PolyStatus.updateSatG s') :=
  ⟨s, .refl s, h, updateSatG_sim x s h⟩
theorem obtainSortedConstraints_matches (x : FPoly) (s : PState) (h : Sim x s) :
    ∃ s', SameStored s s' ∧ Sim x s' ∧ Sim x.obtainSortedConstraints (PPLV.PolyStatus.obtainSortedConstraints s') :=
  ⟨s, .refl s, h, obtainSortedConstraints_sim x s h⟩
theorem obtainSortedGenerators_matches (x : FPoly) (s : PState) (h : Sim x s) :
    ∃ s', SameStored s s' ∧ Sim x s' ∧ Sim x.obtainSortedGenerators (PPLV.PolyStatus.obtainSortedGenerators s') :=
  ⟨s, .refl s, h, obtainSortedGenerators_sim x s h⟩
theorem obtainSortedConstraintsWithSatC_matches (x : FPoly) (s : PState) (h : Sim x s) :
    ∃ s', SameStored s s' ∧ Sim x s' ∧
      Sim x.obtainSortedConstraintsWithSatC (PPLV.PolyStatus.obtainSortedConstraintsWithSatC s') :=
  ⟨s, .refl s, h, obtainSortedConstraintsWithSatC_sim x s h⟩
theorem obtainSortedGeneratorsWithSatG_matches (x : FPoly) (s : PState) (h : Sim x s) :
    ∃ s', SameStored s s' ∧ Sim x s' ∧
      Sim x.obtainSortedGeneratorsWithSatG (PPLV.PolyStatus.obtainSortedGeneratorsWithSatG s') :=
  ⟨s, .refl s, h, obtainSortedGeneratorsWithSatG_sim x s h⟩

theorem updateConstraints_matches (x : FPoly) (s : PState) (h : Sim x s) :
    ∃ (g : Gh) (s' : PState), SameStored s s' ∧ Sim x s' ∧
      Sim x.updateConstraints (PPLV.PolyStatus.updateConstraints g s') :=
  ⟨{ srcS := x.ucOut.source.sorted }, s, .refl s, h, updateConstraints_sim x s _ h rfl⟩

theorem updateGenerators_matches (x : FPoly) (s : PState) (h : Sim x s) :
    ∃ (g : Gh) (s' : PState), SameStored s s' ∧ Sim x s' ∧
      (PPLV.PolyStatus.updateGenerators g s').1 = x.updateGenerators.1 ∧
      Sim x.updateGenerators.2 (PPLV.PolyStatus.updateGenerators g s').2 := by
  obtain ⟨g, s', k1, k2⟩ := ugGhost_ex x s
  exact ⟨g, s', k1, h.of_sameStored k1, updateGenerators_sim' x s' g (h.of_sameStored k1) k2⟩

theorem processPendingConstraints_matches (x : FPoly) (s : PState) (h : Sim x s) :
    ∃ (g : Gh) (s' : PState), SameStored s s' ∧ Sim x s' ∧
      (PPLV.PolyStatus.processPendingConstraints g s').1 = x.processPendingConstraints.1 ∧
      Sim x.processPendingConstraints.2 (PPLV.PolyStatus.processPendingConstraints g s').2 := by
  obtain ⟨g, s', k1, k2⟩ := ppcGhost_ex x s
  exact ⟨g, s', k1, h.of_sameStored k1, processPendingConstraints_sim x s' g (h.of_sameStored k1) k2⟩

theorem processPendingGenerators_matches (x : FPoly) (s : PState) (h : Sim x s) :
    ∃ (g : Gh) (s' : PState), SameStored s s' ∧ Sim x s' ∧
      Sim x.processPendingGenerators (PPLV.PolyStatus.processPendingGenerators g s') := by
  obtain ⟨g, s', k1, k2⟩ := ppgGhost_ex x s
  exact ⟨g, s', k1, h.of_sameStored k1, processPendingGenerators_sim x s' g (h.of_sameStored k1) k2⟩

theorem removePendingToObtainConstraints_matches (x : FPoly) (s : PState) (h : Sim x s) :
    ∃ (g : Gh) (s' : PState), SameStored s s' ∧ Sim x s' ∧
      Sim x.removePendingToObtainConstraints (PPLV.PolyStatus.removePendingToObtainConstraints g s') := by
  obtain ⟨g, s', k1, k2⟩ := ppgGhost_ex x s
  exact ⟨g, s', k1, h.of_sameStored k1,
    removePendingToObtainConstraints_sim x s' g (h.of_sameStored k1) (fun _ => k2)⟩

theorem removePendingToObtainGenerators_matches (x : FPoly) (s : PState) (h : Sim x s) :
    ∃ (g : Gh) (s' : PState), SameStored s s' ∧ Sim x s' ∧
      (PPLV.PolyStatus.removePendingToObtainGenerators g s').1 = x.removePendingToObtainGenerators.1 ∧
      Sim x.removePendingToObtainGenerators.2 (PPLV.PolyStatus.removePendingToObtainGenerators g s').2 := by
  obtain ⟨g, s', k1, k2⟩ := ppcGhost_ex x s
  exact ⟨g, s', k1, h.of_sameStored k1,
    removePendingToObtainGenerators_sim x s' g (h.of_sameStored k1) (fun _ => k2)⟩

theorem processPending_matches (x : FPoly) (s : PState) (h : Sim x s) :
    ∃ (g : Gh) (s' : PState), SameStored s s' ∧ Sim x s' ∧
      (PPLV.PolyStatus.processPending g s').1 = x.processPending.1 ∧
      Sim x.processPending.2 (PPLV.PolyStatus.processPending g s').2 := by
  obtain ⟨g, s', k1, k2⟩ := ppGhost_ex x s
  exact ⟨g, s', k1, h.of_sameStored k1, processPending_sim x s' g (h.of_sameStored k1) k2⟩

theorem minimize_matches (x : FPoly) (s : PState) (h : Sim x s) :
    ∃ (g : Gh) (s' : PState), SameStored s s' ∧ Sim x s' ∧
      (PPLV.PolyStatus.minimize g s').1 = x.minimize.1 ∧ Sim x.minimize.2 (PPLV.PolyStatus.minimize g s').2 := by
  obtain ⟨g, s', k1, k2⟩ := minGhost_ex x s
  exact ⟨g, s', k1, h.of_sameStored k1, minimize_sim x s' g (h.of_sameStored k1) k2⟩

theorem isEmpty_matches (x : FPoly) (s : PState) (h : Sim x s) :
    ∃ (g : Gh) (s' : PState), SameStored s s' ∧ Sim x s' ∧
      (PPLV.PolyStatus.isEmpty g s').1 = x.isEmpty.1 ∧ Sim x.isEmpty.2 (PPLV.PolyStatus.isEmpty g s').2 := by
  obtain ⟨g, s', k1, k2⟩ := minGhost_ex x s
  exact ⟨g, s', k1, h.of_sameStored k1, isEmpty_sim x s' g (h.of_sameStored k1) (fun _ _ => k2)⟩

theorem needCons_matches (x : FPoly) (s : PState) (h : Sim x s) :
    ∃ (g : Gh) (s' : PState), SameStored s s' ∧ Sim x s' ∧ Sim x.needCons (PPLV.PolyStatus.needCons g s') := by
  obtain ⟨g, s', k1, k2⟩ := needConsGhost_ex x s
  exact ⟨g, s', k1, h.of_sameStored k1, needCons_sim x s' g (h.of_sameStored k1) k2⟩

/-! ## legality of the status word the full model leaves

`ProofsStatus4b.lean`: `Sim.legalB` (the two legality tables coincide), `LegalOut`, and `f_status_legal`
for every helper.  The first three theorems of stage 1 in their original form: -/

theorem minimize_status_legal (x : FPoly) (s : PState) (g : Gh) (h : Sim x s) (hi : PPLV.PolyStatus.Inv s)
    (hg : MinGhost x g s) :
    (PPLV.PolyStatus.minimize g s).2.statusOK = true ∧ (PPLV.PolyStatus.minimize g s).2.polyOK = true
    ∧ (PPLV.PolyStatus.minimize g s).1 = x.minimize.1 ∧ Sim x.minimize.2 (PPLV.PolyStatus.minimize g s).2 := by
  obtain ⟨l, m1⟩ := minimize_status_legal' x s g h hi hg
  exact ⟨(Inv.legal l.inv).1, (Inv.legal l.inv).2, m1, l.sim⟩

theorem isEmpty_status_legal (x : FPoly) (s : PState) (g : Gh) (h : Sim x s) (hi : PPLV.PolyStatus.Inv s)
    (hg : IsEmptyGhost x g s) :
    (PPLV.PolyStatus.isEmpty g s).2.statusOK = true ∧ (PPLV.PolyStatus.isEmpty g s).2.polyOK = true
    ∧ (PPLV.PolyStatus.isEmpty g s).1 = x.isEmpty.1 ∧ Sim x.isEmpty.2 (PPLV.PolyStatus.isEmpty g s).2 := by
  obtain ⟨l, m1⟩ := isEmpty_status_legal' x s g h hi hg
  exact ⟨(Inv.legal l.inv).1, (Inv.legal l.inv).2, m1, l.sim⟩

theorem needCons_status_legal (x : FPoly) (s : PState) (g : Gh) (h : Sim x s) (hi : PPLV.PolyStatus.Inv s)
    (he : x.p.st.empty = false) (hd : x.p.dim ≠ 0) (hg : NeedConsGhost x g s) :
    (PPLV.PolyStatus.needCons g s).statusOK = true ∧ (PPLV.PolyStatus.needCons g s).polyOK = true
    ∧ Sim x.needCons (PPLV.PolyStatus.needCons g s) := by
  have l := needCons_status_legal' x s g h hi he hd hg
  exact ⟨(Inv.legal l.inv).1, (Inv.legal l.inv).2, l.sim⟩

/-! ## summary -/

/-- the helpers covered -/
inductive Helper
  | updateSatC | updateSatG | obtainSortedConstraints | obtainSortedGenerators
  | obtainSortedConstraintsWithSatC | obtainSortedGeneratorsWithSatG
  | updateConstraints | updateGenerators | processPendingConstraints | processPendingGenerators
  | removePendingToObtainConstraints | removePendingToObtainGenerators | processPending | minimize | isEmpty
  | needCons | needGens
deriving DecidableEq, Repr

/-- the full-model helper: "Boolean answer" (`true` where there is none) and the new state -/
def Helper.full : Helper → FPoly → Bool × FPoly
  | .updateSatC, x => (true, x.updateSatC) | .updateSatG, x => (true, x.updateSatG)
  | .obtainSortedConstraints, x => (true, x.obtainSortedConstraints)
  | .obtainSortedGenerators, x => (true, x.obtainSortedGenerators)
  | .obtainSortedConstraintsWithSatC, x => (true, x.obtainSortedConstraintsWithSatC)
  | .obtainSortedGeneratorsWithSatG, x => (true, x.obtainSortedGeneratorsWithSatG)
  | .updateConstraints, x => (true, x.updateConstraints) | .updateGenerators, x => x.updateGenerators
  | .processPendingConstraints, x => x.processPendingConstraints
  | .processPendingGenerators, x => (true, x.processPendingGenerators)
  | .removePendingToObtainConstraints, x => (true, x.removePendingToObtainConstraints)
  | .removePendingToObtainGenerators, x => x.removePendingToObtainGenerators
  | .processPending, x => x.processPending | .minimize, x => x.minimize | .isEmpty, x => x.isEmpty
  | .needCons, x => (true, x.needCons)
  | .needGens, x => x.needGens

/-- the status-protocol helper -/
def Helper.abs : Helper → Gh → PState → Bool × PState
  | .updateSatC, _, s => (true, PPLV.PolyStatus.updateSatC s) | .updateSatG, _, s => (true, PPLV.PolyStatus.updateSatG s)
  | .obtainSortedConstraints, _, s => (true, PPLV.PolyStatus.obtainSortedConstraints s)
  | .obtainSortedGenerators, _, s => (true, PPLV.PolyStatus.obtainSortedGenerators s)
  | .obtainSortedConstraintsWithSatC, _, s => (true, PPLV.PolyStatus.obtainSortedConstraintsWithSatC s)
  | .obtainSortedGeneratorsWithSatG, _, s => (true, PPLV.PolyStatus.obtainSortedGeneratorsWithSatG s)
  | .updateConstraints, g, s => (true, PPLV.PolyStatus.updateConstraints g s)
  | .updateGenerators, g, s => PPLV.PolyStatus.updateGenerators g s
  | .processPendingConstraints, g, s => PPLV.PolyStatus.processPendingConstraints g s
  | .processPendingGenerators, g, s => (true, PPLV.PolyStatus.processPendingGenerators g s)
  | .removePendingToObtainConstraints, g, s => (true, PPLV.PolyStatus.removePendingToObtainConstraints g s)
  | .removePendingToObtainGenerators, g, s => PPLV.PolyStatus.removePendingToObtainGenerators g s
  | .processPending, g, s => PPLV.PolyStatus.processPending g s
  | .minimize, g, s => PPLV.PolyStatus.minimize g s | .isEmpty, g, s => PPLV.PolyStatus.isEmpty g s
  | .needCons, g, s => (true, PPLV.PolyStatus.needCons g s)
  | .needGens, g, s => PPLV.PolyStatus.needGens g s

/-- **the status word (and `sorted` flags, dimension, topology) the full model leaves is one of the outcomes
    the status-protocol model allows**, for every private helper of the list, from every pair of states
    whose stored parts agree; the ghost data are chosen from what the full model computes and `s'` differs
    from `s` in ghost Booleans only. -/
theorem full_matches_status_model (f : Helper) (x : FPoly) (s : PState) (h : Sim x s)
    (hl : f = .needGens → x.p.st.cPend = true → x.p.st.gUp = true) :
    ∃ (g : Gh) (s' : PState), SameStored s s' ∧ Sim x s' ∧
      (f.abs g s').1 = (f.full x).1 ∧ Sim (f.full x).2 (f.abs g s').2 := by
  cases f
  case updateSatC => exact ⟨{}, s, .refl s, h, rfl, updateSatC_sim x s h⟩
  case updateSatG => exact ⟨{}, s, .refl s, h, rfl, updateSatG_sim x s h⟩
  case obtainSortedConstraints => exact ⟨{}, s, .refl s, h, rfl, obtainSortedConstraints_sim x s h⟩
  case obtainSortedGenerators => exact ⟨{}, s, .refl s, h, rfl, obtainSortedGenerators_sim x s h⟩
  case obtainSortedConstraintsWithSatC => exact ⟨{}, s, .refl s, h, rfl, obtainSortedConstraintsWithSatC_sim x s h⟩
  case obtainSortedGeneratorsWithSatG => exact ⟨{}, s, .refl s, h, rfl, obtainSortedGeneratorsWithSatG_sim x s h⟩
  case updateConstraints =>
    obtain ⟨g, s', a, b, c⟩ := updateConstraints_matches x s h; exact ⟨g, s', a, b, rfl, c⟩
  case updateGenerators => exact updateGenerators_matches x s h
  case processPendingConstraints => exact processPendingConstraints_matches x s h
  case processPendingGenerators =>
    obtain ⟨g, s', a, b, c⟩ := processPendingGenerators_matches x s h; exact ⟨g, s', a, b, rfl, c⟩
  case removePendingToObtainConstraints =>
    obtain ⟨g, s', a, b, c⟩ := removePendingToObtainConstraints_matches x s h; exact ⟨g, s', a, b, rfl, c⟩
  case removePendingToObtainGenerators => exact removePendingToObtainGenerators_matches x s h
  case processPending => exact processPending_matches x s h
  case minimize => exact minimize_matches x s h
  case isEmpty => exact isEmpty_matches x s h
  case needCons =>
    obtain ⟨g, s', a, b, c⟩ := needCons_matches x s h; exact ⟨g, s', a, b, rfl, c⟩
  case needGens => exact needGens_matches x s h (hl rfl)

/-! ## public methods -/

/-- two ghost inputs that agree on what the engine calls read -/
def GhSame (g g' : Gh) : Prop := g'.dup = g.dup ∧ g'.srcS = g.srcS ∧ g'.dstS = g.dstS

theorem PpcGhost.congr {x : FPoly} {g g' : Gh} {s : PState} (h : PpcGhost x g s) (e : GhSame g g') :
    PpcGhost x g' s :=
  ⟨by rw [e.1]; exact h.pend, h.emp, by rw [e.2.1]; exact h.srcS, by rw [e.2.2]; exact h.dstS⟩
theorem PpgGhost.congr {x : FPoly} {g g' : Gh} {s : PState} (h : PpgGhost x g s) (e : GhSame g g') :
    PpgGhost x g' s :=
  ⟨by rw [e.1]; exact h.pend, by rw [e.2.1]; exact h.srcS, by rw [e.2.2]; exact h.dstS⟩
theorem UgGhost.congr {x : FPoly} {g g' : Gh} {s : PState} (h : UgGhost x g s) (e : GhSame g g') :
    UgGhost x g' s := ⟨h.emp, by rw [e.2.1]; exact h.srcS⟩
theorem UcGhost.congr {x : FPoly} {g g' : Gh} (h : UcGhost x g) (e : GhSame g g') : UcGhost x g' := by
  unfold UcGhost at h ⊢; rw [e.2.1]; exact h
theorem PpGhost.congr {x : FPoly} {g g' : Gh} {s : PState} (h : PpGhost x g s) (e : GhSame g g') :
    PpGhost x g' s := ⟨fun hc => (h.ppc hc).congr e, fun hc => (h.ppg hc).congr e⟩
theorem MinGhost.congr {x : FPoly} {g g' : Gh} {s : PState} (h : MinGhost x g s) (e : GhSame g g') :
    MinGhost x g' s :=
  ⟨fun a b c => (h.pend a b c).congr e, fun a b c d f => (h.ug a b c d f).congr e,
   fun a b c d f => (h.uc a b c d f).congr e⟩
theorem NeedConsGhost.congr {x : FPoly} {g g' : Gh} {s : PState} (h : NeedConsGhost x g s) (e : GhSame g g') :
    NeedConsGhost x g' s := ⟨fun hp => (h.ppg hp).congr e, fun a b => (h.uc a b).congr e⟩
theorem NeedGensGhost.congr {x : FPoly} {g g' : Gh} {s : PState} (h : NeedGensGhost x g s) (e : GhSame g g') :
    NeedGensGhost x g' s := ⟨fun hp => (h.ppc hp).congr e, fun a b => (h.ug a b).congr e⟩

theorem NeedConsGhost.with_keep {x : FPoly} {g : Gh} {s : PState} (h : NeedConsGhost x g s) (v : Bool) :
    NeedConsGhost x { g with keep := v } s := h.congr ⟨rfl, rfl, rfl⟩
theorem NeedGensGhost.with_keep {x : FPoly} {g : Gh} {s : PState} (h : NeedGensGhost x g s) (v : Bool) :
    NeedGensGhost x { g with keep := v } s := h.congr ⟨rfl, rfl, rfl⟩

/-- ghost data for the preparation of `affine_image`: pending constraints processed, or `minimize()` -/
theorem aiPrep_ex (x : FPoly) (s : PState) :
    ∃ (g : Gh) (s' : PState), SameStored s s' ∧ (x.p.st.cPend = true → PpcGhost x.ppcPrep g s')
      ∧ (x.p.st.somethingPending = false → MinGhost x g s') := by
  rcases (Bool.eq_false_or_eq_true x.p.st.cPend).symm with c | c
  · obtain ⟨g, s', k1, k2⟩ := minGhost_ex x s
    exact ⟨g, s', k1, fun hc => (by rw [c] at hc; cases hc), fun _ => k2⟩
  · obtain ⟨g, s', k1, k2⟩ := ppcGhost_ex x s
    exact ⟨g, s', k1, fun _ => k2, fun hs => (by simp [Status.somethingPending, c] at hs)⟩

theorem apPrep_ex (x : FPoly) (s : PState) :
    ∃ (g : Gh) (s' : PState), SameStored s s' ∧ (x.p.st.gPend = true → PpgGhost x.ppgPrep g s')
      ∧ (x.p.st.somethingPending = false → MinGhost x g s') := by
  rcases (Bool.eq_false_or_eq_true x.p.st.gPend).symm with c | c
  · obtain ⟨g, s', k1, k2⟩ := minGhost_ex x s
    exact ⟨g, s', k1, fun hc => (by rw [c] at hc; cases hc), fun _ => k2⟩
  · obtain ⟨g, s', k1, k2⟩ := ppgGhost_ex x s
    exact ⟨g, s', k1, fun _ => k2, fun hs => (by simp [Status.somethingPending, c] at hs)⟩

/-- the public methods covered, with their arguments -/
inductive PubCall
  | constraints | generators | minimizedConstraints | minimizedGenerators
  | refineNoCheck (c : Row) | addConstraint (c : Row) | addGenerator (k : FPoly.GKindA) (g : Row)
  | unconstrain (vars : List Nat)
  | affineImage (v : Nat) (e : PPLV.Lin.LinExpr) (den : Int) | affinePreimage (v : Nat) (e : PPLV.Lin.LinExpr) (den : Int)

/-- the full-model method -/
def PubCall.full : PubCall → FPoly → FPoly
  | .constraints, x => x.constraints | .generators, x => x.generators
  | .minimizedConstraints, x => x.minimizedConstraints | .minimizedGenerators, x => x.minimizedGenerators
  | .refineNoCheck c, x => x.refineNoCheck c | .addConstraint c, x => x.addConstraint c
  | .addGenerator k g, x => x.addGenerator k g
  | .unconstrain vars, x => x.unconstrain vars
  | .affineImage v e den, x => x.affineImage v e den | .affinePreimage v e den, x => x.affinePreimage v e den

/-- the status-protocol method as a list of steps (`Facts` of the argument computed from the call) -/
def PubCall.steps : PubCall → FPoly → List PPLV.PolyStatus.Step
  | .constraints, _ => [PPLV.PolyStatus.constraints] | .generators, _ => [PPLV.PolyStatus.generators]
  | .minimizedConstraints, _ => PPLV.PolyStatus.minimizedConstraintsSteps
  | .minimizedGenerators, _ => PPLV.PolyStatus.minimizedGeneratorsSteps
  | .refineNoCheck c, x => [fun g s => PPLV.PolyStatus.refineNoCheck g (FPoly.rowInconsistent x.p.nnc c) s]
  | .addConstraint c, x =>
      [fun g s => PPLV.PolyStatus.addConstraint g { incons := FPoly.rowInconsistent x.p.nnc c } s]
  | .addGenerator _ _, _ => [PPLV.PolyStatus.addGenerator]
  | .unconstrain _, _ => [PPLV.PolyStatus.unconstrain]
  | .affineImage v e _, _ => [fun g s => PPLV.PolyStatus.affineImage g { inv := e.coeffs.getD v 0 != 0 } s]
  | .affinePreimage v e _, _ => [fun g s => PPLV.PolyStatus.affinePreimage g { inv := e.coeffs.getD v 0 != 0 } s]

/-- the data facts about the full state each comparison needs -/
def PubCall.pre : PubCall → FPoly → Prop
  | .constraints, x => x.p.st.empty = true → x.p.cs.rows.isEmpty = false → x.p.cs.sorted = true
  | .generators, x => (x.p.st.empty = true → x.p.gs.sorted = true) ∧ (x.p.st.cPend = true → x.p.st.gUp = true)
  | .minimizedConstraints, x => x.p.nnc = false ∧ statusLegalB x.p.st x.p.dim = true
      ∧ (x.p.st.empty = true → x.p.cs.rows.isEmpty = false → x.p.cs.sorted = true)
  | .minimizedGenerators, x => x.p.nnc = false ∧ statusLegalB x.p.st x.p.dim = true
      ∧ (x.p.st.empty = true → x.p.gs.sorted = true)
  | .refineNoCheck _, x => x.p.st.empty = false
  | .addConstraint _, _ => True
  | .addGenerator _ _, x => (x.p.st.empty = true → x.p.gs.sorted = true) ∧ (x.p.st.cPend = true → x.p.st.gUp = true)
  | .unconstrain vars, x => vars.isEmpty = false ∧ x.p.dim ≠ 0 ∧ (x.p.st.cPend = true → x.p.st.gUp = true)
  | .affineImage _ _ _, x => x.p.dim ≠ 0 ∧ statusLegalB x.p.st x.p.dim = true
  | .affinePreimage _ _ _, x => x.p.dim ≠ 0 ∧ statusLegalB x.p.st x.p.dim = true

theorem refineNoCheck_matches (x : FPoly) (c : Row) (s : PState) (h : Sim x s) (he : x.p.st.empty = false) :
    ∃ (g : Gh) (s' : PState), SameStored s s' ∧ Sim x s' ∧
      Sim (x.refineNoCheck c) (PPLV.PolyStatus.refineNoCheck g (FPoly.rowInconsistent x.p.nnc c) s') := by
  obtain ⟨g, s', k1, k2⟩ := needConsGhost_ex x s
  exact ⟨{ g with keep := (x.refineNoCheck c).p.cs.sorted }, s', k1, h.of_sameStored k1,
    refineNoCheck_sim x c s' _ (h.of_sameStored k1) he ⟨fun _ => k2.with_keep _, rfl⟩⟩

/-- **public methods**: the stored state the full-model method leaves is an outcome of the status-protocol
    method, run with ghost inputs computed by the full model, from an abstract state differing from `s`
    in ghost Booleans only. -/
theorem full_matches_status_model_public (c : PubCall) (x : FPoly) (s : PState) (h : Sim x s) (hp : c.pre x) :
    ∃ (gs : List Gh) (s' : PState), SameStored s s' ∧ Sim x s' ∧
      Sim (c.full x) (PPLV.PolyStatus.runSteps (c.steps x) gs s') := by
  cases c
  case constraints =>
    obtain ⟨g, s', k1, k2⟩ := needConsGhost_ex x s
    exact ⟨[g], s', k1, h.of_sameStored k1, constraints_sim x s' g (h.of_sameStored k1) hp (fun _ _ => k2)⟩
  case generators =>
    obtain ⟨g, s', k1, k2⟩ := needGensGhost_ex x s
    exact ⟨[g], s', k1, h.of_sameStored k1,
      generators_sim x s' g (h.of_sameStored k1) hp.1 hp.2 (fun _ _ => k2)⟩
  case minimizedConstraints =>
    obtain ⟨g, s', k1, k2⟩ := minGhost_ex x s
    exact ⟨[g, {}], s', k1, h.of_sameStored k1,
      minimizedConstraints_sim x s' g {} (h.of_sameStored k1) hp.1 hp.2.1 hp.2.2 k2⟩
  case minimizedGenerators =>
    obtain ⟨g, s', k1, k2⟩ := minGhost_ex x s
    exact ⟨[g, {}], s', k1, h.of_sameStored k1,
      minimizedGenerators_sim x s' g {} (h.of_sameStored k1) hp.1 hp.2.1 hp.2.2 k2⟩
  case refineNoCheck c =>
    obtain ⟨g, s', k1, k2, k3⟩ := refineNoCheck_matches x c s h hp
    exact ⟨[g], s', k1, k2, k3⟩
  case addConstraint c =>
    obtain ⟨g, s', k1, k2⟩ := needConsGhost_ex x s
    refine ⟨[{ g with keep := (x.refineNoCheck c).p.cs.sorted }], s', k1, h.of_sameStored k1, ?_⟩
    exact addConstraint_sim x c s' _ { incons := FPoly.rowInconsistent x.p.nnc c } (h.of_sameStored k1) rfl rfl
      (fun _ => ⟨fun _ => k2.with_keep _, rfl⟩)
  case addGenerator k gr =>
    obtain ⟨g, s', k1, k2⟩ := needGensGhost_ex x s
    exact ⟨[{ g with keep := (x.addGenerator k gr).p.gs.sorted }], s', k1, h.of_sameStored k1,
      addGenerator_sim x k gr s' _ (h.of_sameStored k1) hp.1 hp.2 ⟨fun _ _ => k2.with_keep _, rfl⟩⟩
  case unconstrain vars =>
    obtain ⟨g, s', k1, k2⟩ := needGensGhost_ex x s
    exact ⟨[{ g with keep := (x.unconstrain vars).p.gs.sorted }], s', k1, h.of_sameStored k1,
      unconstrain_sim x vars s' _ (h.of_sameStored k1) hp.1 hp.2.1 hp.2.2 ⟨fun _ => k2.with_keep _, rfl⟩⟩
  case affineImage v e den =>
    obtain ⟨g, s', k1, k2, k3⟩ := aiPrep_ex x s
    refine ⟨[{ g with keep := (x.affineImage v e den).p.gs.sorted, aux := (x.affineImage v e den).p.cs.sorted }],
      s', k1, h.of_sameStored k1, ?_⟩
    exact affineImage_sim x v e den s' _ { inv := e.coeffs.getD v 0 != 0 } (h.of_sameStored k1) hp.1 rfl hp.2
      ⟨fun _ _ hc => (k2 hc).congr ⟨rfl, rfl, rfl⟩, fun _ hs _ => (k3 hs).congr ⟨rfl, rfl, rfl⟩, rfl, rfl⟩
  case affinePreimage v e den =>
    obtain ⟨g, s', k1, k2, k3⟩ := apPrep_ex x s
    rcases (Bool.eq_false_or_eq_true (e.coeffs.getD v 0 != 0)).symm with i | i
    · refine ⟨[{ g with keep := (x.affinePreimage v e den).p.cs.sorted }], s', k1, h.of_sameStored k1, ?_⟩
      exact affinePreimage_sim x v e den s' _ { inv := e.coeffs.getD v 0 != 0 } (h.of_sameStored k1) hp.1 rfl hp.2
        ⟨fun _ _ hc => (k2 hc).congr ⟨rfl, rfl, rfl⟩, fun _ hs _ => (k3 hs).congr ⟨rfl, rfl, rfl⟩,
         fun hi => (by rw [i] at hi; cases hi), fun hi => (by rw [i] at hi; cases hi), fun _ => rfl⟩
    · refine ⟨[{ g with keep := (x.affinePreimage v e den).p.gs.sorted, aux := (x.affinePreimage v e den).p.cs.sorted }],
        s', k1, h.of_sameStored k1, ?_⟩
      exact affinePreimage_sim x v e den s' _ { inv := e.coeffs.getD v 0 != 0 } (h.of_sameStored k1) hp.1 rfl hp.2
        ⟨fun _ _ hc => (k2 hc).congr ⟨rfl, rfl, rfl⟩, fun _ hs _ => (k3 hs).congr ⟨rfl, rfl, rfl⟩, fun _ => rfl,
         fun _ => rfl, fun hi => (by rw [i] at hi; cases hi)⟩

/-! ## binary methods (`y` another object) -/

inductive BinCall | intersectionAssign | polyHullAssign
deriving DecidableEq, Repr

def BinCall.full : BinCall → FPoly → FPoly → FPoly × FPoly
  | .intersectionAssign, x, y => x.intersectionAssign y
  | .polyHullAssign, x, y => x.polyHullAssign y

def BinCall.abs : BinCall → Gh → Gh → PPLV.PolyStatus.Two → PPLV.PolyStatus.Two
  | .intersectionAssign, gx, gy, c => PPLV.PolyStatus.intersectionAssign gx gy c
  | .polyHullAssign, gx, gy, c => PPLV.PolyStatus.polyHullAssign gx gy c

/-- the data facts each comparison needs (see `ProofsStatus4j.lean`, `ProofsStatus4k.lean`) -/
def BinCall.pre : BinCall → FPoly → FPoly → Prop
  | .intersectionAssign, x, y =>
      (x.p.st.gPend = true → x.p.st.cUp = true) ∧ (y.p.st.gPend = true → y.p.st.cUp = true)
      ∧ y.needCons.p.cs.rows.isEmpty = false
      ∧ (y.needCons.p.st.cPend = true → y.needCons.p.cs.firstPending < y.needCons.p.cs.rows.length)
  | .polyHullAssign, x, y =>
      x.p.dim ≠ 0 ∧ y.p.dim = x.p.dim ∧ y.p.nnc = x.p.nnc
      ∧ (x.p.st.cPend = true → x.p.st.gUp = true) ∧ (y.p.st.cPend = true → y.p.st.gUp = true)
      ∧ (x.p.st.empty = true → x.p.cs.sorted = true ∧ x.p.gs.sorted = true)
      ∧ (y.p.st.cUp = false → y.p.cs.sorted = true) ∧ (y.p.st.gUp = false → y.p.gs.sorted = true)
      ∧ y.needGens.2.p.gs.rows.isEmpty = false
      ∧ (y.needGens.2.p.st.gPend = true → y.needGens.2.p.gs.firstPending < y.needGens.2.p.gs.rows.length)

/-- **binary methods**: both objects afterwards are outcomes of the status-protocol method -/
theorem full_matches_status_model_binary (c : BinCall) (x y : FPoly) (s t : PState) (hx : Sim x s) (hy : Sim y t)
    (hp : c.pre x y) :
    ∃ (gx gy : Gh) (s' t' : PState), SameStored s s' ∧ SameStored t t' ∧ Sim x s' ∧ Sim y t' ∧
      Sim (c.full x y).1 (c.abs gx gy { x := s', y := t', al := false }).x ∧
      Sim (c.full x y).2 (c.abs gx gy { x := s', y := t', al := false }).y := by
  cases c
  case intersectionAssign =>
    obtain ⟨gx, s', k1, k2⟩ := needConsGhost_ex x s
    obtain ⟨gy, t', j1, j2⟩ := needConsGhost_ex y t
    obtain ⟨p1, p2, p3, p4⟩ := hp
    exact ⟨gx, gy, s', t', k1, j1, hx.of_sameStored k1, hy.of_sameStored j1,
      intersectionAssign_sim x y s' t' gx gy (hx.of_sameStored k1) (hy.of_sameStored j1) p1 p2 p3 p4
        ⟨fun _ _ _ => k2, fun _ _ _ => j2⟩⟩
  case polyHullAssign =>
    obtain ⟨gx, s', k1, k2⟩ := needGensGhost_ex x s
    obtain ⟨gy, t', j1, j2⟩ := needGensGhost_ex y t
    obtain ⟨p1, p2, p3, p4, p5, p6, p7, p8, p9, p10⟩ := hp
    exact ⟨gx, gy, s', t', k1, j1, hx.of_sameStored k1, hy.of_sameStored j1,
      polyHullAssign_sim x y s' t' gx gy (hx.of_sameStored k1) (hy.of_sameStored j1) p1 p2 p3 p4 p5 p6 p7 p8 p9 p10
        ⟨fun _ _ => k2, fun _ _ => j2⟩⟩

end PPLV.PolyFull
