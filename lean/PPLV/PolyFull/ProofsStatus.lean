import PPLV.PolyFull.ProofsStatus3
import PPLV.PolyStatus.ProofsB

/-!
# Integration stage — `full_matches_status_model`

The existential form: for every private helper `f` of the full model and its counterpart `F` of the
status-protocol model, every full state `x` and abstract state `s` with `Sim x s`, there are ghost inputs
`g` and an abstract state `s'` that differs from `s` in ghost Booleans only (`SameStored s s'`, hence
`Sim x s'`) with `Sim (f x) (F g s')` and equal Boolean answers.  The ghost data are what the full model
computes.  `…_status_legal`: when `s` itself satisfies the invariant of the status protocol and its ghost
Booleans are the ones the full model computes, the status word the full model leaves is legal
(`statusOK`, `polyOK` — by `C01.status_inv`'s per-function lemmas).
-/
namespace PPLV.PolyFull
open PPLV.PolyOps
open PPLV.PolyStatus (PState Gh)

/-! ## the ghost conditions are satisfiable by a change of ghost Booleans only -/

theorem ugGhost_ex (x : FPoly) (s : PState) : ∃ (g : Gh) (s' : PState), SameStored s s' ∧ UgGhost x g s' :=
  ⟨{ srcS := x.ugOut.source.sorted }, s.set .emp x.ugOut.empty, SameStored.set_ghost s .emp _ rfl,
    ⟨by simp, fun _ => rfl⟩⟩

theorem ppcGhost_ex (x : FPoly) (s : PState) : ∃ (g : Gh) (s' : PState), SameStored s s' ∧ PpcGhost x.ppcPrep g s' :=
  ⟨x.ppcGh, x.ppcSt s, ppcSt_sameStored x s, ppcGhost_canon x s⟩

theorem ppgGhost_ex (x : FPoly) (s : PState) : ∃ (g : Gh) (s' : PState), SameStored s s' ∧ PpgGhost x.ppgPrep g s' :=
  ⟨x.ppgGh, x.ppgSt s, ppgSt_sameStored x s, ppgGhost_canon x s⟩

theorem ppGhost_ex (x : FPoly) (s : PState) : ∃ (g : Gh) (s' : PState), SameStored s s' ∧ PpGhost x g s' := by
  rcases (Bool.eq_false_or_eq_true x.p.st.cPend).symm with c | c
  · obtain ⟨g, s', h1, h2⟩ := ppgGhost_ex x s
    exact ⟨g, s', h1, ⟨fun hc => (by rw [c] at hc; cases hc), fun _ => h2⟩⟩
  · obtain ⟨g, s', h1, h2⟩ := ppcGhost_ex x s
    exact ⟨g, s', h1, ⟨fun _ => h2, fun hc => (by rw [c] at hc; cases hc)⟩⟩

theorem minGhost_ex (x : FPoly) (s : PState) : ∃ (g : Gh) (s' : PState), SameStored s s' ∧ MinGhost x g s' := by
  rcases (Bool.eq_false_or_eq_true x.p.st.somethingPending).symm with c | c
  · rcases (Bool.eq_false_or_eq_true x.p.st.cUp).symm with e | e
    · exact ⟨{ srcS := x.ucOut.source.sorted }, s, SameStored.refl s,
        ⟨fun _ _ hc => (by rw [c] at hc; cases hc), fun _ _ _ _ he => (by rw [e] at he; cases he), fun _ _ _ _ _ => rfl⟩⟩
    · obtain ⟨g, s', h1, h2⟩ := ugGhost_ex x s
      exact ⟨g, s', h1,
        ⟨fun _ _ hc => (by rw [c] at hc; cases hc), fun _ _ _ _ _ => h2, fun _ _ _ _ he => (by rw [e] at he; cases he)⟩⟩
  · obtain ⟨g, s', h1, h2⟩ := ppGhost_ex x s
    exact ⟨g, s', h1,
      ⟨fun _ _ _ => h2, fun _ _ hc => (by rw [c] at hc; cases hc), fun _ _ hc => (by rw [c] at hc; cases hc)⟩⟩

theorem needConsGhost_ex (x : FPoly) (s : PState) :
    ∃ (g : Gh) (s' : PState), SameStored s s' ∧ NeedConsGhost x g s' := by
  rcases (Bool.eq_false_or_eq_true x.p.st.gPend).symm with c | c
  · exact ⟨{ srcS := x.ucOut.source.sorted }, s, SameStored.refl s,
      ⟨fun hc => (by rw [c] at hc; cases hc), fun _ _ => rfl⟩⟩
  · obtain ⟨g, s', h1, h2⟩ := ppgGhost_ex x s
    exact ⟨g, s', h1, ⟨fun _ => h2, fun hc => (by rw [c] at hc; cases hc)⟩⟩

/-! ## `f_matches` -/

theorem updateSatC_matches (x : FPoly) (s : PState) (h : Sim x s) :
    ∃ s', SameStored s s' ∧ Sim x s' ∧ Sim x.updateSatC (PPLV.PolyStatus.updateSatC s') :=
  ⟨s, .refl s, h, updateSatC_sim x s h⟩
theorem updateSatG_matches (x : FPoly) (s : PState) (h : Sim x s) :
    ∃ s', SameStored s s' ∧ Sim x s' ∧ Sim x.updateSatG (PPLV.PolyStatus.updateSatG s') :=
  ⟨s, .refl s, h, updateSatG_sim x s h⟩
theorem obtainSortedConstraints_matches (x : FPoly) (s : PState) (h : Sim x s) :
    ∃ s', SameStored s s' ∧ Sim x s' ∧ Sim x.obtainSortedConstraints (PPLV.PolyStatus.obtainSortedConstraints s') :=
  ⟨s, .refl s, h, obtainSortedConstraints_sim x s h⟩
theorem obtainSortedGenerators_matches (x : FPoly) (s : PState) (h : Sim x s) :
    ∃ s', SameStored s s' ∧ Sim x s' ∧ Sim x.obtainSortedGenerators (PPLV.PolyStatus.obtainSortedGenerators s') :=
  ⟨s, .refl s, h, obtainSortedGenerators_sim x s h⟩
theorem obtainSortedConstraintsWithSatC_matches (x : FPoly) (s : PState) (h : Sim x s) :
    ∃ s', SameStored s s' ∧ Sim x s' ∧
      Sim x.obtainSortedConstraintsWithSatC (PPLV.PolyStatus.obtainSortedConstraintsWithSatC s') :=
  ⟨s, .refl s, h, obtainSortedConstraintsWithSatC_sim x s h⟩
theorem obtainSortedGeneratorsWithSatG_matches (x : FPoly) (s : PState) (h : Sim x s) :
    ∃ s', SameStored s s' ∧ Sim x s' ∧
      Sim x.obtainSortedGeneratorsWithSatG (PPLV.PolyStatus.obtainSortedGeneratorsWithSatG s') :=
  ⟨s, .refl s, h, obtainSortedGeneratorsWithSatG_sim x s h⟩

theorem updateConstraints_matches (x : FPoly) (s : PState) (h : Sim x s) :
    ∃ (g : Gh) (s' : PState), SameStored s s' ∧ Sim x s' ∧
      Sim x.updateConstraints (PPLV.PolyStatus.updateConstraints g s') :=
  ⟨{ srcS := x.ucOut.source.sorted }, s, .refl s, h, updateConstraints_sim x s _ h rfl⟩

theorem updateGenerators_matches (x : FPoly) (s : PState) (h : Sim x s) :
    ∃ (g : Gh) (s' : PState), SameStored s s' ∧ Sim x s' ∧
      (PPLV.PolyStatus.updateGenerators g s').1 = x.updateGenerators.1 ∧
      Sim x.updateGenerators.2 (PPLV.PolyStatus.updateGenerators g s').2 := by
  obtain ⟨g, s', k1, k2⟩ := ugGhost_ex x s
  exact ⟨g, s', k1, h.of_sameStored k1, updateGenerators_sim' x s' g (h.of_sameStored k1) k2⟩

theorem processPendingConstraints_matches (x : FPoly) (s : PState) (h : Sim x s) :
    ∃ (g : Gh) (s' : PState), SameStored s s' ∧ Sim x s' ∧
      (PPLV.PolyStatus.processPendingConstraints g s').1 = x.processPendingConstraints.1 ∧
      Sim x.processPendingConstraints.2 (PPLV.PolyStatus.processPendingConstraints g s').2 := by
  obtain ⟨g, s', k1, k2⟩ := ppcGhost_ex x s
  exact ⟨g, s', k1, h.of_sameStored k1, processPendingConstraints_sim x s' g (h.of_sameStored k1) k2⟩

theorem processPendingGenerators_matches (x : FPoly) (s : PState) (h : Sim x s) :
    ∃ (g : Gh) (s' : PState), SameStored s s' ∧ Sim x s' ∧
      Sim x.processPendingGenerators (PPLV.PolyStatus.processPendingGenerators g s') := by
  obtain ⟨g, s', k1, k2⟩ := ppgGhost_ex x s
  exact ⟨g, s', k1, h.of_sameStored k1, processPendingGenerators_sim x s' g (h.of_sameStored k1) k2⟩

theorem removePendingToObtainConstraints_matches (x : FPoly) (s : PState) (h : Sim x s) :
    ∃ (g : Gh) (s' : PState), SameStored s s' ∧ Sim x s' ∧
      Sim x.removePendingToObtainConstraints (PPLV.PolyStatus.removePendingToObtainConstraints g s') := by
  obtain ⟨g, s', k1, k2⟩ := ppgGhost_ex x s
  exact ⟨g, s', k1, h.of_sameStored k1,
    removePendingToObtainConstraints_sim x s' g (h.of_sameStored k1) (fun _ => k2)⟩

theorem removePendingToObtainGenerators_matches (x : FPoly) (s : PState) (h : Sim x s) :
    ∃ (g : Gh) (s' : PState), SameStored s s' ∧ Sim x s' ∧
      (PPLV.PolyStatus.removePendingToObtainGenerators g s').1 = x.removePendingToObtainGenerators.1 ∧
      Sim x.removePendingToObtainGenerators.2 (PPLV.PolyStatus.removePendingToObtainGenerators g s').2 := by
  obtain ⟨g, s', k1, k2⟩ := ppcGhost_ex x s
  exact ⟨g, s', k1, h.of_sameStored k1,
    removePendingToObtainGenerators_sim x s' g (h.of_sameStored k1) (fun _ => k2)⟩

theorem processPending_matches (x : FPoly) (s : PState) (h : Sim x s) :
    ∃ (g : Gh) (s' : PState), SameStored s s' ∧ Sim x s' ∧
      (PPLV.PolyStatus.processPending g s').1 = x.processPending.1 ∧
      Sim x.processPending.2 (PPLV.PolyStatus.processPending g s').2 := by
  obtain ⟨g, s', k1, k2⟩ := ppGhost_ex x s
  exact ⟨g, s', k1, h.of_sameStored k1, processPending_sim x s' g (h.of_sameStored k1) k2⟩

theorem minimize_matches (x : FPoly) (s : PState) (h : Sim x s) :
    ∃ (g : Gh) (s' : PState), SameStored s s' ∧ Sim x s' ∧
      (PPLV.PolyStatus.minimize g s').1 = x.minimize.1 ∧ Sim x.minimize.2 (PPLV.PolyStatus.minimize g s').2 := by
  obtain ⟨g, s', k1, k2⟩ := minGhost_ex x s
  exact ⟨g, s', k1, h.of_sameStored k1, minimize_sim x s' g (h.of_sameStored k1) k2⟩

theorem isEmpty_matches (x : FPoly) (s : PState) (h : Sim x s) :
    ∃ (g : Gh) (s' : PState), SameStored s s' ∧ Sim x s' ∧
      (PPLV.PolyStatus.isEmpty g s').1 = x.isEmpty.1 ∧ Sim x.isEmpty.2 (PPLV.PolyStatus.isEmpty g s').2 := by
  obtain ⟨g, s', k1, k2⟩ := minGhost_ex x s
  exact ⟨g, s', k1, h.of_sameStored k1, isEmpty_sim x s' g (h.of_sameStored k1) (fun _ _ => k2)⟩

theorem needCons_matches (x : FPoly) (s : PState) (h : Sim x s) :
    ∃ (g : Gh) (s' : PState), SameStored s s' ∧ Sim x s' ∧ Sim x.needCons (PPLV.PolyStatus.needCons g s') := by
  obtain ⟨g, s', k1, k2⟩ := needConsGhost_ex x s
  exact ⟨g, s', k1, h.of_sameStored k1, needCons_sim x s' g (h.of_sameStored k1) k2⟩

/-! ## legality of the status word the full model leaves -/

/-- `Sim` transports the two legality predicates that only read the stored part -/
theorem Sim.legal {x : FPoly} {s : PState} (_h : Sim x s) (hi : PPLV.PolyStatus.Inv s) :
    s.statusOK = true ∧ s.polyOK = true := by
  simp only [PPLV.PolyStatus.Inv, PState.invB, Bool.and_eq_true] at hi
  exact ⟨hi.1.1, hi.1.2⟩

/-- `minimize()`: if the abstract state satisfies the protocol invariant and its ghost Booleans are the ones
    the full model computes, the status word of the full model's result is legal -/
theorem minimize_status_legal (x : FPoly) (s : PState) (g : Gh) (h : Sim x s) (hi : PPLV.PolyStatus.Inv s)
    (hg : MinGhost x g s) :
    (PPLV.PolyStatus.minimize g s).2.statusOK = true ∧ (PPLV.PolyStatus.minimize g s).2.polyOK = true
    ∧ (PPLV.PolyStatus.minimize g s).1 = x.minimize.1 ∧ Sim x.minimize.2 (PPLV.PolyStatus.minimize g s).2 := by
  obtain ⟨m1, m2⟩ := minimize_sim x s g h hg
  obtain ⟨l1, l2⟩ := m2.legal (PPLV.PolyStatus.minimize_spec g s hi).1
  exact ⟨l1, l2, m1, m2⟩

theorem isEmpty_status_legal (x : FPoly) (s : PState) (g : Gh) (h : Sim x s) (hi : PPLV.PolyStatus.Inv s)
    (hg : IsEmptyGhost x g s) :
    (PPLV.PolyStatus.isEmpty g s).2.statusOK = true ∧ (PPLV.PolyStatus.isEmpty g s).2.polyOK = true
    ∧ (PPLV.PolyStatus.isEmpty g s).1 = x.isEmpty.1 ∧ Sim x.isEmpty.2 (PPLV.PolyStatus.isEmpty g s).2 := by
  obtain ⟨m1, m2⟩ := isEmpty_sim x s g h hg
  obtain ⟨l1, l2⟩ := m2.legal (PPLV.PolyStatus.isEmpty_spec g s hi).1
  exact ⟨l1, l2, m1, m2⟩

theorem needCons_status_legal (x : FPoly) (s : PState) (g : Gh) (h : Sim x s) (hi : PPLV.PolyStatus.Inv s)
    (he : x.p.st.empty = false) (hd : x.p.dim ≠ 0) (hg : NeedConsGhost x g s) :
    (PPLV.PolyStatus.needCons g s).statusOK = true ∧ (PPLV.PolyStatus.needCons g s).polyOK = true
    ∧ Sim x.needCons (PPLV.PolyStatus.needCons g s) := by
  have m2 := needCons_sim x s g h hg
  have he' : s.b .em = false := by rw [← he]; exact h.1
  have hd' : s.dim ≠ 0 := by rw [h.2.2.2.2.2.2.2.2.2.1]; exact hd
  obtain ⟨l1, l2⟩ := m2.legal (PPLV.PolyStatus.needCons_spec g s hi he' hd').1
  exact ⟨l1, l2, m2⟩

/-! ## summary -/

/-- the helpers covered -/
inductive Helper
  | updateSatC | updateSatG | obtainSortedConstraints | obtainSortedGenerators
  | obtainSortedConstraintsWithSatC | obtainSortedGeneratorsWithSatG
  | updateConstraints | updateGenerators | processPendingConstraints | processPendingGenerators
  | removePendingToObtainConstraints | removePendingToObtainGenerators | processPending | minimize | isEmpty
  | needCons
deriving DecidableEq, Repr

/-- the full-model helper: "Boolean answer" (`true` where there is none) and the new state -/
def Helper.full : Helper → FPoly → Bool × FPoly
  | .updateSatC, x => (true, x.updateSatC) | .updateSatG, x => (true, x.updateSatG)
  | .obtainSortedConstraints, x => (true, x.obtainSortedConstraints)
  | .obtainSortedGenerators, x => (true, x.obtainSortedGenerators)
  | .obtainSortedConstraintsWithSatC, x => (true, x.obtainSortedConstraintsWithSatC)
  | .obtainSortedGeneratorsWithSatG, x => (true, x.obtainSortedGeneratorsWithSatG)
  | .updateConstraints, x => (true, x.updateConstraints) | .updateGenerators, x => x.updateGenerators
  | .processPendingConstraints, x => x.processPendingConstraints
  | .processPendingGenerators, x => (true, x.processPendingGenerators)
  | .removePendingToObtainConstraints, x => (true, x.removePendingToObtainConstraints)
  | .removePendingToObtainGenerators, x => x.removePendingToObtainGenerators
  | .processPending, x => x.processPending | .minimize, x => x.minimize | .isEmpty, x => x.isEmpty
  | .needCons, x => (true, x.needCons)

/-- the status-protocol helper -/
def Helper.abs : Helper → Gh → PState → Bool × PState
  | .updateSatC, _, s => (true, PPLV.PolyStatus.updateSatC s) | .updateSatG, _, s => (true, PPLV.PolyStatus.updateSatG s)
  | .obtainSortedConstraints, _, s => (true, PPLV.PolyStatus.obtainSortedConstraints s)
  | .obtainSortedGenerators, _, s => (true, PPLV.PolyStatus.obtainSortedGenerators s)
  | .obtainSortedConstraintsWithSatC, _, s => (true, PPLV.PolyStatus.obtainSortedConstraintsWithSatC s)
  | .obtainSortedGeneratorsWithSatG, _, s => (true, PPLV.PolyStatus.obtainSortedGeneratorsWithSatG s)
  | .updateConstraints, g, s => (true, PPLV.PolyStatus.updateConstraints g s)
  | .updateGenerators, g, s => PPLV.PolyStatus.updateGenerators g s
  | .processPendingConstraints, g, s => PPLV.PolyStatus.processPendingConstraints g s
  | .processPendingGenerators, g, s => (true, PPLV.PolyStatus.processPendingGenerators g s)
  | .removePendingToObtainConstraints, g, s => (true, PPLV.PolyStatus.removePendingToObtainConstraints g s)
  | .removePendingToObtainGenerators, g, s => PPLV.PolyStatus.removePendingToObtainGenerators g s
  | .processPending, g, s => PPLV.PolyStatus.processPending g s
  | .minimize, g, s => PPLV.PolyStatus.minimize g s | .isEmpty, g, s => PPLV.PolyStatus.isEmpty g s
  | .needCons, g, s => (true, PPLV.PolyStatus.needCons g s)

/-- **the status word (and `sorted` flags, dimension, topology) the full model leaves is one of the outcomes
    the status-protocol model allows**, for every private helper of the list, from every pair of states
    whose stored parts agree; the ghost data are chosen from what the full model computes and `s'` differs
    from `s` in ghost Booleans only. -/
theorem full_matches_status_model (f : Helper) (x : FPoly) (s : PState) (h : Sim x s) :
    ∃ (g : Gh) (s' : PState), SameStored s s' ∧ Sim x s' ∧
      (f.abs g s').1 = (f.full x).1 ∧ Sim (f.full x).2 (f.abs g s').2 := by
  cases f
  case updateSatC => exact ⟨{}, s, .refl s, h, rfl, updateSatC_sim x s h⟩
  case updateSatG => exact ⟨{}, s, .refl s, h, rfl, updateSatG_sim x s h⟩
  case obtainSortedConstraints => exact ⟨{}, s, .refl s, h, rfl, obtainSortedConstraints_sim x s h⟩
  case obtainSortedGenerators => exact ⟨{}, s, .refl s, h, rfl, obtainSortedGenerators_sim x s h⟩
  case obtainSortedConstraintsWithSatC => exact ⟨{}, s, .refl s, h, rfl, obtainSortedConstraintsWithSatC_sim x s h⟩
  case obtainSortedGeneratorsWithSatG => exact ⟨{}, s, .refl s, h, rfl, obtainSortedGeneratorsWithSatG_sim x s h⟩
  case updateConstraints =>
    obtain ⟨g, s', a, b, c⟩ := updateConstraints_matches x s h; exact ⟨g, s', a, b, rfl, c⟩
  case updateGenerators => exact updateGenerators_matches x s h
  case processPendingConstraints => exact processPendingConstraints_matches x s h
  case processPendingGenerators =>
    obtain ⟨g, s', a, b, c⟩ := processPendingGenerators_matches x s h; exact ⟨g, s', a, b, rfl, c⟩
  case removePendingToObtainConstraints =>
    obtain ⟨g, s', a, b, c⟩ := removePendingToObtainConstraints_matches x s h; exact ⟨g, s', a, b, rfl, c⟩
  case removePendingToObtainGenerators => exact removePendingToObtainGenerators_matches x s h
  case processPending => exact processPending_matches x s h
  case minimize => exact minimize_matches x s h
  case isEmpty => exact isEmpty_matches x s h
  case needCons =>
    obtain ⟨g, s', a, b, c⟩ := needCons_matches x s h; exact ⟨g, s', a, b, rfl, c⟩

end PPLV.PolyFull
