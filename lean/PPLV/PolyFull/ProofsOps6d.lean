import PPLV.PolyFull.ProofsOps6

/-!
# Integration stage — the low-level constraints survive `set_space_dimension` (zero columns added)
-/
namespace PPLV.PolyFull
open PPLV.Lin PPLV.PolyOps
open PPLV.Conv (holdsAll holds scalarProduct Vec)

theorem sp_nilR (a : Vec) : scalarProduct a [] = 0 := by cases a <;> rfl
theorem sp_nilL (x : Vec) : scalarProduct [] x = 0 := by cases x <;> rfl

theorem sp_append (a b x : Vec) :
    scalarProduct (a ++ b) x = scalarProduct a x + scalarProduct b (x.drop a.length) := by
  induction a generalizing x with
  | nil => simp [sp_nilL]
  | cons h t ih =>
    cases x with
    | nil => simp [sp_nilR]
    | cons y ys =>
      simp only [List.cons_append, scalarProduct, List.length_cons, List.drop_succ_cons]
      rw [ih]; ring

theorem sp_replicate_zero (m : Nat) (x : Vec) : scalarProduct (List.replicate m 0) x = 0 := by
  induction m generalizing x with
  | zero => simp [sp_nilL]
  | succ k ih =>
    cases x with
    | nil => simp [sp_nilR]
    | cons y ys => simp [List.replicate_succ, scalarProduct, ih]

theorem sp_single_drop (e : Int) (x : Vec) (j : Nat) : scalarProduct [e] (x.drop j) = e * x.getD j 0 := by
  induction j generalizing x with
  | zero =>
    cases x with
    | nil => simp [sp_nilR]
    | cons y ys => simp [scalarProduct]
  | succ k ih =>
    cases x with
    | nil => simp [sp_nilR]
    | cons y ys => simpa using ih ys

/-- the first `k` columns of `x`, padded with zeros -/
def padTake (k : Nat) (x : Vec) : Vec := (List.range k).map fun i => x.getD i 0

theorem padTake_length (k : Nat) (x : Vec) : (padTake k x).length = k := by simp [padTake]

theorem padTake_succ (k : Nat) (y : Int) (ys : Vec) : padTake (k + 1) (y :: ys) = y :: padTake k ys := by
  unfold padTake
  rw [List.range_succ_eq_map]
  simp [List.map_map, Function.comp_def]

theorem padTake_succ_nil (k : Nat) : padTake (k + 1) [] = 0 :: padTake k [] := by
  unfold padTake
  rw [List.range_succ_eq_map]
  simp [List.map_map, Function.comp_def]

theorem sp_padTake (a x : Vec) (k : Nat) (h : a.length ≤ k) :
    scalarProduct a (padTake k x) = scalarProduct a x := by
  induction a generalizing x k with
  | nil => simp [sp_nilL]
  | cons h t ih =>
    cases k with
    | zero => simp at h
    | succ k =>
      cases x with
      | nil =>
        rw [padTake_succ_nil, sp_nilR]
        simp only [scalarProduct, mul_zero, zero_add]
        rw [ih [] k (by simpa using h), sp_nilR]
      | cons y ys =>
        rw [padTake_succ]
        simp only [scalarProduct]
        rw [ih ys k (by simpa using h)]

/-- the column vector seen by the rows before the zero columns were added -/
def squeeze (nnc : Bool) (n m : Nat) (x : Vec) : Vec :=
  padTake (n + 1) x ++ (if nnc then [x.getD (n + m + 1) 0] else [])

theorem squeeze_length (nnc : Bool) (n m : Nat) (x : Vec) : (squeeze nnc n m x).length = numCols nnc n := by
  unfold squeeze numCols
  cases nnc <;> simp [padTake_length]

theorem squeeze_getD_zero (nnc : Bool) (n m : Nat) (x : Vec) : (squeeze nnc n m x).getD 0 0 = x.getD 0 0 := by
  unfold squeeze padTake
  rw [List.range_succ_eq_map]
  simp

theorem squeeze_getD_eps (n m : Nat) (x : Vec) : (squeeze true n m x).getD (n + 1) 0 = x.getD (n + m + 1) 0 := by
  unfold squeeze
  simp only [if_true]
  rw [List.getD_eq_getElem?_getD, List.getElem?_append_right (by rw [padTake_length]), padTake_length]
  simp

theorem sp_append_right (a p e : Vec) (h : a.length ≤ p.length) :
    scalarProduct a (p ++ e) = scalarProduct a p := by
  induction a generalizing p with
  | nil => simp [sp_nilL]
  | cons h t ih =>
    cases p with
    | nil => simp at h
    | cons y ys =>
      simp only [List.cons_append, scalarProduct]
      rw [ih ys (by simpa using h)]

theorem sp_toL_addZeroCols (nnc : Bool) (n m : Nat) (r : Row) (x : Vec) (hr : r.cf.length = n) :
    scalarProduct (toL nnc (r.addZeroCols m)).v x = scalarProduct (toL nnc r).v (squeeze nnc n m x) := by
  have hl : (r.b :: r.cf).length = n + 1 := by simp [hr]
  have hp : (r.b :: r.cf).length ≤ (padTake (n + 1) x).length := by rw [padTake_length, hl]
  cases nnc
  · unfold toL Row.addZeroCols squeeze
    simp only [Bool.false_eq_true, if_false, List.append_nil]
    rw [← List.cons_append, sp_append, sp_replicate_zero, sp_padTake _ _ _ (le_of_eq hl), add_zero]
  · unfold toL Row.addZeroCols squeeze
    simp only [if_true]
    rw [← List.cons_append, ← List.cons_append, ← List.cons_append, sp_append, sp_append, sp_append,
      sp_replicate_zero, sp_append_right _ _ _ hp, sp_padTake _ _ _ (le_of_eq hl), hl,
      List.drop_append_of_le_length (by rw [padTake_length])]
    have : (padTake (n + 1) x).drop (n + 1) = [] := by
      apply List.drop_eq_nil_of_le; rw [padTake_length]
    rw [this, List.length_append, hl, List.length_replicate, sp_single_drop,
      show n + 1 + m = n + m + 1 by omega]
    simp [scalarProduct]

theorem holds_toL_addZeroCols (nnc : Bool) (n m : Nat) (r : Row) (x : Vec) (hr : r.cf.length = n) :
    holds (toL nnc (r.addZeroCols m)) x ↔ holds (toL nnc r) (squeeze nnc n m x) := by
  unfold holds
  rw [sp_toL_addZeroCols nnc n m r x hr]
  rfl

/-- `LowLevel` after `m` zero columns were added to every row -/
theorem LowLevel_addZeroCols (nnc : Bool) (n m : Nat) (cs : List Row) (hlen : ∀ r ∈ cs, r.cf.length = n)
    (h : LowLevel nnc n cs) : LowLevel nnc (n + m) (cs.map (Row.addZeroCols m)) := by
  intro x _ hx
  have h1 := h (squeeze nnc n m x) (le_of_eq (squeeze_length nnc n m x)) (by
    intro l hl
    obtain ⟨r, hr, rfl⟩ := List.mem_map.mp hl
    exact (holds_toL_addZeroCols nnc n m r x (hlen r hr)).mp
      (hx _ (List.mem_map.mpr ⟨r.addZeroCols m, List.mem_map.mpr ⟨r, hr, rfl⟩, rfl⟩)))
  rw [squeeze_getD_zero] at h1
  refine ⟨h1.1, fun hn => ?_⟩
  subst hn
  have h2 := h1.2 rfl
  rw [squeeze_getD_eps] at h2
  exact h2

/-- the low-level constraints of a fresh universe polyhedron -/
theorem LowLevel_lowLevelCons (nnc : Bool) (m : Nat) : LowLevel nnc m (lowLevelCons nnc m) := by
  intro x _ hx
  cases nnc
  · have h := hx (toL false ⟨false, 1, List.replicate m 0, 0⟩) (by simp [lowLevelCons])
    unfold holds toL at h
    simp only [Bool.false_eq_true, if_false, List.append_nil] at h
    refine ⟨?_, fun h => by cases h⟩
    cases x with
    | nil => simp
    | cons y ys => simpa [scalarProduct, sp_replicate_zero] using h
  · have h1 := hx (toL true ⟨false, 1, List.replicate m 0, -1⟩) (by simp [lowLevelCons])
    have h2 := hx (toL true ⟨false, 0, List.replicate m 0, 1⟩) (by simp [lowLevelCons])
    unfold holds toL at h1 h2
    simp only [Bool.false_eq_true, if_false, if_true] at h1 h2
    cases x with
    | nil => simp
    | cons y ys =>
      simp only [scalarProduct, sp_append, sp_replicate_zero, List.length_replicate, sp_single_drop] at h1 h2
      have e : (y :: ys).getD (m + 1) 0 = ys.getD m 0 := by simp
      rw [e]
      simp only [List.getD_cons_zero]
      refine ⟨by omega, fun _ => ⟨by omega, by omega⟩⟩

end PPLV.PolyFull
