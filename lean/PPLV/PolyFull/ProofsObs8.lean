import PPLV.PolyFull.ProofsObs7

/-!
# Integration stage — the binary observers, part 8: `operator==`

`equals_facts`: `x == y` (Polyhedron_public.cc:3939) keeps `Inv S` / `Inv T`; the answer `true` is only
given of equal sets (`S = T`), and — unless `quick_equivalence_test` answered `TVB_FALSE` — it is given
of all of them.  (The soundness of `TVB_FALSE` rests on the uniqueness of sorted minimal forms, which is
not part of `FPoly.Inv`: it is the explicit hypothesis `QetFalseSound` of the completeness half.)
-/
namespace PPLV.PolyFull
open PPLV.Lin PPLV.PolyOps

/-- the second object is never marked empty by `is_included_in` -/
theorem isIncludedIn_y_nonempty (G : GlueFacts) (x y : FPoly) (S T : Set Val) (hx : x.Inv S) (hy : y.Inv T)
    (hdim : y.p.dim = x.p.dim) (hex : x.p.st.empty = false) (hey : y.p.st.empty = false)
    (hd : 0 < x.p.dim) : (x.isIncludedIn y).2.2.p.st.empty = false := by
  obtain ⟨hs1, hi1, he1, hn1⟩ := prepPC_facts G x S hx hex
  rw [isIncludedIn_eq]
  cases hb1 : (prepPC x).1
  · simp only [Bool.not_false, if_true]; exact hey
  · obtain ⟨hne1, hcp1⟩ := hn1 hb1
    obtain ⟨hs2, hi2, hne2, hgp2⟩ := prepPG_facts G y T hy hey
    simp only [Bool.not_true, Bool.false_eq_true, if_false]
    cases hb3 : (prepUG (prepPC x).2).1
    · simp only [Bool.not_false, if_true]; exact hne2
    · have hd2 : 0 < (prepPG y).p.dim := by rw [hs2.2, hdim]; exact hd
      simp only [Bool.not_true, Bool.false_eq_true, if_false]
      exact (prepUC_facts G _ T hi2 hne2 hd2 hgp2).2.2.1

/-- :3961-3974, after `quick_equivalence_test` answered `TVB_DONT_KNOW` -/
def equalsTail (x y : FPoly) : Bool × FPoly × FPoly :=
  let r := x.isIncludedIn y
  if r.1 then
    if r.2.1.st.empty then let e := r.2.2.isEmpty; (e.1, r.2.1, e.2)
    else let r2 := r.2.2.isIncludedIn r.2.1; (r2.1, r2.2.2, r2.2.1)
  else (false, r.2.1, r.2.2)

theorem equals_eq (x y : FPoly) : x.equals y =
    if x.st.empty then (y.isEmpty.1, x, y.isEmpty.2)
    else if y.st.empty then (x.isEmpty.1, x.isEmpty.2, y)
    else if x.dim == 0 then (true, x, y)
    else match (x.quickEquivalenceTest y).1 with
      | some b => (b, (x.quickEquivalenceTest y).2.1, (x.quickEquivalenceTest y).2.2)
      | none => equalsTail (x.quickEquivalenceTest y).2.1 (x.quickEquivalenceTest y).2.2 := rfl

theorem equalsTail_facts (G : GlueFacts) (x y : FPoly) (S T : Set Val) (hx : x.Inv S) (hy : y.Inv T)
    (hdim : y.p.dim = x.p.dim) (hnnc : y.p.nnc = x.p.nnc)
    (hex : x.p.st.empty = false) (hey : y.p.st.empty = false) (hd : 0 < x.p.dim) :
    (equalsTail x y).2.1.Inv S ∧ (equalsTail x y).2.2.Inv T ∧
    x.SameShape (equalsTail x y).2.1 ∧ y.SameShape (equalsTail x y).2.2 ∧
    ((equalsTail x y).1 = true ↔ S = T) := by
  obtain ⟨i1, i2, s1, s2, ans⟩ := isIncludedIn_facts G x y S T hx hy hdim hnnc hex hey hd
  have hne2 := isIncludedIn_y_nonempty G x y S T hx hy hdim hex hey hd
  unfold equalsTail
  simp only []
  cases hr : (x.isIncludedIn y).1
  · simp only [Bool.false_eq_true, if_false]
    refine ⟨i1, i2, s1, s2, ?_⟩
    have hns : ¬ S ⊆ T := fun h => by have := ans.mpr h; rw [hr] at this; cases this
    exact ⟨fun h => (by cases h), fun h => absurd (by rw [h]) hns⟩
  · have hST : S ⊆ T := ans.mp hr
    simp only [if_true]
    by_cases he : (x.isIncludedIn y).2.1.p.st.empty = true
    · have : (x.isIncludedIn y).2.1.st.empty = true := he
      rw [if_pos this]
      have hS : S = ∅ := i1.den.1 he
      obtain ⟨t1, j1, a1, -⟩ := G.isEmpty _ T i2
      refine ⟨i1, j1, s1, SameShape.trans s2 t1, ?_⟩
      show ((x.isIncludedIn y).2.2.isEmpty).1 = true ↔ _
      rw [a1, hS]
      exact ⟨fun h => h.symm, fun h => h.symm⟩
    · have he' : (x.isIncludedIn y).2.1.p.st.empty = false := by simpa using he
      have : ¬ (x.isIncludedIn y).2.1.st.empty = true := he
      rw [if_neg this]
      have hd' : 0 < (x.isIncludedIn y).2.2.p.dim := by rw [s2.2, hdim]; exact hd
      obtain ⟨j2, j1, t2, t1, ans2⟩ := isIncludedIn_facts G _ _ T S i2 i1
        (by rw [s1.2, s2.2, hdim]) (by rw [s1.1, s2.1, hnnc]) hne2 he' hd'
      refine ⟨j1, j2, SameShape.trans s1 t1, SameShape.trans s2 t2, ?_⟩
      show ((x.isIncludedIn y).2.2.isIncludedIn (x.isIncludedIn y).2.1).1 = true ↔ _
      rw [ans2]
      exact ⟨fun h => Set.Subset.antisymm hST h, fun h => by rw [h]⟩

/-- `quick_equivalence_test` answers `TVB_FALSE` only of different sets (uniqueness of the sorted minimal
    forms: NOT derived here) -/
def QetFalseSound (x y : FPoly) (S T : Set Val) : Prop :=
  (x.quickEquivalenceTest y).1 = some false → S ≠ T

/-- **`operator==`**: both objects keep denoting their sets; `true` only of equal sets; and of all equal
    sets whenever `quick_equivalence_test` did not answer `TVB_FALSE` wrongly -/
theorem equals_facts (G : GlueFacts) (x y : FPoly) (S T : Set Val)
    (hx : x.Inv S) (hy : y.Inv T) (hdim : y.p.dim = x.p.dim) (hnnc : y.p.nnc = x.p.nnc) :
    (x.equals y).2.1.Inv S ∧ (x.equals y).2.2.Inv T ∧
    x.SameShape (x.equals y).2.1 ∧ y.SameShape (x.equals y).2.2 ∧
    ((x.equals y).1 = true → S = T) ∧
    (QetFalseSound x y S T → S = T → (x.equals y).1 = true) := by
  rw [equals_eq]
  by_cases hex : x.p.st.empty = true
  · have : x.st.empty = true := hex
    rw [if_pos this]
    have hS := hx.den.1 hex
    obtain ⟨s1, i1, a1, -⟩ := G.isEmpty y T hy
    refine ⟨hx, i1, SameShape.refl x, s1, ?_, ?_⟩
    · intro h; rw [hS]; exact ((a1.mp h)).symm
    · intro _ h; exact a1.mpr (by rw [← h, hS])
  · have hex' : x.p.st.empty = false := by simpa using hex
    have : ¬ x.st.empty = true := hex
    rw [if_neg this]
    by_cases hey : y.p.st.empty = true
    · have : y.st.empty = true := hey
      rw [if_pos this]
      have hT := hy.den.1 hey
      obtain ⟨s1, i1, a1, -⟩ := G.isEmpty x S hx
      refine ⟨i1, hy, s1, SameShape.refl y, ?_, ?_⟩
      · intro h; rw [hT]; exact a1.mp h
      · intro _ h; exact a1.mpr (by rw [h, hT])
    · have hey' : y.p.st.empty = false := by simpa using hey
      have : ¬ y.st.empty = true := hey
      rw [if_neg this]
      by_cases hz : x.p.dim = 0
      · have : (x.dim == 0) = true := by show (x.p.dim == 0) = true; rw [hz]; rfl
        rw [if_pos this]
        have hzy : y.p.dim = 0 := by rw [hdim]; exact hz
        have hS : S = Set.univ :=
          (hx.den.2 hex').2.2 (hx.wf.zero_dim hz).1 (hx.wf.zero_dim hz).2
        have hT : T = Set.univ :=
          (hy.den.2 hey').2.2 (hy.wf.zero_dim hzy).1 (hy.wf.zero_dim hzy).2
        exact ⟨hx, hy, SameShape.refl x, SameShape.refl y, fun _ => by rw [hS, hT], fun _ _ => rfl⟩
      · have : ¬ (x.dim == 0) = true := by
          show ¬ (x.p.dim == 0) = true
          simpa using hz
        rw [if_neg this]
        obtain ⟨i1, i2, s1, s2, n1, n2, hq⟩ :=
          quickEquivalenceTest_true_sound x y S T hx hy hdim hnnc hex' hey'
        split
        · rename_i b hb
          refine ⟨i1, i2, s1, s2, ?_, ?_⟩
          · intro h; simp only at h; subst h; exact hq hb
          · intro hF h
            cases b
            · exact absurd h (hF hb)
            · rfl
        · have hd : 0 < (x.quickEquivalenceTest y).2.1.p.dim := by rw [s1.2]; omega
          obtain ⟨j1, j2, t1, t2, ans⟩ := equalsTail_facts G _ _ S T i1 i2
            (by rw [s1.2, s2.2, hdim]) (by rw [s1.1, s2.1, hnnc]) n1 n2 hd
          exact ⟨j1, j2, SameShape.trans s1 t1, SameShape.trans s2 t2, ans.mp, fun _ h => ans.mpr h⟩

end PPLV.PolyFull
