import PPLV.PolyFull.ProofsGlue3
import PPLV.PolyFull.ProofsGlue4

/-!
# Integration stage — `GlueFacts` from `ConvContract`, part 5: `process_pending_constraints()`

`processPendingConstraints x = (ppcPrepared x).ppcTail` (by `rfl`): `ppcPrepared` is the state right before
`sort_pending_and_remove_duplicates` (:752) — `sat_c` obtained, the non-pending rows sorted together with
the saturation rows —, `ppcTail` the rest.  `ppcTail_facts` is proved for every prepared state
(`PreparedC`); what `PreparedC` asks of `ppcPrepared x` beyond shape and status (proved here:
`ppcPrepared_shape`) is the content of `SortKeepsC`.
-/
namespace PPLV.PolyFull
open PPLV.Lin PPLV.PolyOps
open PPLV.Conv (LRow BRow Vec Sound SatCorrect holds holdsAll Generated)

/-- a constraint that compares equal to another one of the same length has the same engine reading -/
def CmpExactC : Prop := ∀ (nnc : Bool) (a b : Row), a.cf.length = b.cf.length →
  cmpRow false nnc a b = 0 → toL nnc a = toL nnc b

theorem EnginePair.weakenC {nnc n cs gs fG sC sG} (f : Bool)
    (h : EnginePair nnc n cs gs true fG sC sG) : EnginePair nnc n cs gs f fG sC sG :=
  ⟨h.sound, h.complete, h.minC, h.minG, h.minL, fun _ => h.satC rfl, h.satG⟩

theorem EnginePair.weakenG {nnc n cs gs fC sC sG} (f : Bool)
    (h : EnginePair nnc n cs gs fC true sC sG) : EnginePair nnc n cs gs fC f sC sG :=
  ⟨h.sound, h.complete, h.minC, h.minG, h.minL, h.satC, fun _ => h.satG rfl⟩

theorem EnginePair.dropG {nnc n cs gs fC fG sC sG} (sG' : BitMat)
    (h : EnginePair nnc n cs gs fC fG sC sG) : EnginePair nnc n cs gs fC false sC sG' :=
  ⟨h.sound, h.complete, h.minC, h.minG, h.minL, h.satC, fun h' => (by cases h')⟩

theorem EnginePair.dropC {nnc n cs gs fC fG sC sG} (sC' : BitMat)
    (h : EnginePair nnc n cs gs fC fG sC sG) : EnginePair nnc n cs gs false fG sC' sG :=
  ⟨h.sound, h.complete, h.minC, h.minG, h.minL, fun h' => (by cases h'), h.satG⟩

theorem legal_dim {s : Status} {d : Nat} (h : statusLegalB s d = true) (hc : s.cUp = true) : 0 < d := by
  simp only [statusLegalB, Bool.and_eq_true] at h
  have := h.1.2
  simp [hc] at this
  omega

/-- the status word after a pending part turned out to be void -/
theorem legal_pend_cleared (s : Status) (d : Nat) (a b cp gp : Bool) (hl : statusLegalB s d = true)
    (he : s.empty = false) (hcan : s.canPend = true) (hcp : cp = false) (hgp : gp = false) :
    statusLegalB { s with satC := a, satG := b, cPend := cp, gPend := gp } d = true := by
  obtain ⟨hcm, hgm, _⟩ := (canPend_iff s).mp hcan
  have hcu := legal_cMin hl hcm
  have hgu := legal_gMin hl hgm
  have hd := legal_dim hl hcu
  have hd' : (d != 0) = true := by simp; omega
  simp [statusLegalB, he, hcu, hgu, hcm, hgm, hcp, hgp, hd']

/-! ### `sort_pending_and_remove_duplicates` -/

theorem sortPending_fp (gen nnc : Bool) (s : Sys) :
    (s.sortPendingAndRemoveDuplicates gen nnc).firstPending = s.firstPending := rfl

theorem sortPending_take (gen nnc : Bool) (s : Sys) (hfp : s.firstPending ≤ s.rows.length) :
    (s.sortPendingAndRemoveDuplicates gen nnc).rows.take s.firstPending = s.rows.take s.firstPending := by
  unfold Sys.sortPendingAndRemoveDuplicates
  simp only
  apply List.take_left'
  rw [List.length_take]; omega

theorem sortPending_len (gen nnc : Bool) (s : Sys) (hfp : s.firstPending ≤ s.rows.length) :
    s.firstPending ≤ (s.sortPendingAndRemoveDuplicates gen nnc).rows.length := by
  unfold Sys.sortPendingAndRemoveDuplicates
  simp only [List.length_append, List.length_take]
  omega

theorem sortPending_sub (gen nnc : Bool) (s : Sys) (r : Row)
    (h : r ∈ (s.sortPendingAndRemoveDuplicates gen nnc).rows) : r ∈ s.rows := by
  unfold Sys.sortPendingAndRemoveDuplicates at h
  simp only [List.mem_append] at h
  rcases h with h | h
  · exact List.mem_of_mem_take h
  · have := dropDupPending_sub _ _ _ _ _ _ h
    rw [mem_sortRowList] at this
    exact List.mem_of_mem_drop this

theorem sortPending_sup (gen nnc : Bool) (s : Sys) (r : Row) (h : r ∈ s.rows) :
    r ∈ (s.sortPendingAndRemoveDuplicates gen nnc).rows ∨
      ∃ a ∈ s.rows.take s.firstPending, cmpRow gen nnc a r = 0 := by
  unfold Sys.sortPendingAndRemoveDuplicates
  simp only [List.mem_append]
  rw [← List.take_append_drop s.firstPending s.rows, List.mem_append] at h
  rcases h with h | h
  · exact Or.inl (Or.inl h)
  · have h' : r ∈ sortRowList gen nnc (s.rows.drop s.firstPending) := (mem_sortRowList ..).mpr h
    rcases dropDupPending_sup gen nnc _ (s.rows.take s.firstPending) _ r h' with h2 | h2
    · exact Or.inl (Or.inr h2)
    · exact Or.inr h2

theorem sortPending_all_dup (gen nnc : Bool) (s : Sys) (hfp : s.firstPending ≤ s.rows.length)
    (h : (s.sortPendingAndRemoveDuplicates gen nnc).rows.length = s.firstPending) :
    (s.sortPendingAndRemoveDuplicates gen nnc).rows = s.rows.take s.firstPending := by
  rw [← sortPending_take gen nnc s hfp, ← h, List.take_length]

/-! ### the two halves of `process_pending_constraints` -/

/-- the state right before `sort_pending_and_remove_duplicates` (:744-750) -/
def FPoly.ppcPrepared (x : FPoly) : FPoly :=
  let x := if !x.st.satC then { x with satC := x.satG.transposeOf } else x
  if !x.p.cs.sorted then x.obtainSortedConstraintsWithSatC else x

/-- :752-771 -/
def FPoly.ppcTail (x : FPoly) : Bool × FPoly :=
  let cs := x.p.cs.sortPendingAndRemoveDuplicates false x.nnc
  let x := x.withCs cs
  if cs.rows.length == cs.firstPending then
    (true, x.withSt { x.st with cPend := false })
  else
    let o := FPoly.engineAddAndMinimize true x.nnc x.dim cs x.p.gs x.satC
    if o.empty then (false, x.setEmpty)
    else
      (true, { x with satC := o.sat,
                      p := { x.p with cs := o.source, gs := o.dest,
                                      st := { x.p.st with cPend := false, satG := false, satC := true } } })

theorem ppc_eq (x : FPoly) : x.processPendingConstraints = x.ppcPrepared.ppcTail := rfl

/-- what the second half needs of the prepared state `x1` of `x` -/
structure PreparedC (x x1 : FPoly) : Prop where
  nnc : x1.p.nnc = x.p.nnc
  dim : x1.p.dim = x.p.dim
  gs : x1.p.gs = x.p.gs
  st : ∃ a b, x1.p.st = { x.p.st with satC := a, satG := b }
  fp : x1.p.cs.firstPending ≤ x1.p.cs.rows.length
  rows : ∀ r, r ∈ x1.p.cs.rows ↔ r ∈ x.p.cs.rows
  np : ∀ r, r ∈ x1.npC ↔ r ∈ x.npC
  pair : EnginePair x.p.nnc x.p.dim x1.npC x.p.gs.rows true x1.p.st.satG x1.satC x1.satG

theorem ppcTail_facts (C : ConvContract) (hcmp : CmpExactC) (x x1 : FPoly) (S : Set Val) (hx : x.Inv S)
    (he : x.p.st.empty = false) (hcp : x.p.st.cPend = true) (hP : PreparedC x x1) :
    x.SameShape x1.ppcTail.2 ∧ x1.ppcTail.2.Inv S ∧
    (x1.ppcTail.1 = false → S = ∅ ∧ x1.ppcTail.2.p.st.empty = true) ∧
    (x1.ppcTail.1 = true → x1.ppcTail.2.FullyMin) := by
  -- the old status word
  have hcan := legal_cPend hx.legal hcp
  obtain ⟨hcm, hgm, _⟩ := (canPend_iff _).mp hcan
  have hcu := legal_cMin hx.legal hcm
  have hgu := legal_gMin hx.legal hgm
  have hd := legal_dim hx.legal hcu
  have hgp : x.p.st.gPend = false := by
    cases h : x.p.st.gPend
    · rfl
    · exact absurd ⟨hcp, h⟩ (legal_not_both hx.legal)
  have hfpG := (hx.fpG he hgu).2 hgp
  obtain ⟨a, b, hst⟩ := hP.st
  have hn1 := hP.nnc
  have hd1 := hP.dim
  have hg1 := hP.gs
  have he1 : x1.p.st.empty = false := by rw [hst]; exact he
  have hcu1 : x1.p.st.cUp = true := by rw [hst]; exact hcu
  have hgu1 : x1.p.st.gUp = true := by rw [hst]; exact hgu
  have hcm1 : x1.p.st.cMin = true := by rw [hst]; exact hcm
  have hgm1 : x1.p.st.gMin = true := by rw [hst]; exact hgm
  have hgp1 : x1.p.st.gPend = false := by rw [hst]; exact hgp
  -- the rows
  have hlenx := hx.wf.cs_len he hcu
  have hlen1 : ∀ r ∈ x1.p.cs.rows, r.cf.length = x.p.dim := fun r hr => hlenx r ((hP.rows r).mp hr)
  have hsub := sortPending_sub false x1.p.nnc x1.p.cs
  have hlen' : ∀ r ∈ (x1.p.cs.sortPendingAndRemoveDuplicates false x1.p.nnc).rows,
      r.cf.length = x1.p.dim := fun r hr => by rw [hd1]; exact hlen1 r (hsub r hr)
  have hT1 : ToLSub x1.p.nnc x.p.cs.rows (x1.p.cs.sortPendingAndRemoveDuplicates false x1.p.nnc).rows := by
    intro r hr
    have hr1 := (hP.rows r).mpr hr
    rcases sortPending_sup false x1.p.nnc x1.p.cs r hr1 with h | ⟨a', ha', hc'⟩
    · exact ⟨r, h, rfl⟩
    · have ha1 : a' ∈ x1.p.cs.rows := List.mem_of_mem_take ha'
      refine ⟨a', ?_, ?_⟩
      · unfold Sys.sortPendingAndRemoveDuplicates
        exact List.mem_append_left _ ha'
      · exact hcmp _ _ _ ((hlen1 a' ha1).trans (hlen1 r hr1).symm) hc'
  have hT2 : ToLSub x1.p.nnc (x1.p.cs.sortPendingAndRemoveDuplicates false x1.p.nnc).rows x.p.cs.rows :=
    ToLSub.of_subset fun r hr => (hP.rows r).mp (hsub r hr)
  have hconS : conSem x1.p.nnc x.p.cs.rows = S := by rw [hn1]; exact (hx.den.2 he).1 hcu hgp
  have hcon' : conSem x1.p.nnc (x1.p.cs.sortPendingAndRemoveDuplicates false x1.p.nnc).rows = S := by
    rw [← hconS]
    exact (conSem_congr_toL _ _ _ hT1 hT2).symm
  have hlow' : LowLevel x1.p.nnc x1.p.dim (x1.p.cs.sortPendingAndRemoveDuplicates false x1.p.nnc).rows := by
    have hl : LowLevel x1.p.nnc x1.p.dim x.p.cs.rows := by rw [hn1, hd1]; exact hx.low he hcu
    exact hl.of_toLSub hT1
  have hgwf1 : ∀ r ∈ x1.p.gs.rows, r.genWF x1.p.nnc x1.p.dim := by
    rw [hg1, hn1, hd1]; exact hx.wf.gs_wf he hgu
  have hgpt1 : ∃ r ∈ x1.p.gs.rows, r.isPoint x1.p.nnc := by
    rw [hg1, hn1]; exact hx.wf.gs_pt he hgu
  have hfpG1 : x1.p.gs.firstPending = x1.p.gs.rows.length := by rw [hg1]; exact hfpG
  have htake := sortPending_take false x1.p.nnc x1.p.cs hP.fp
  have hlenfp := sortPending_len false x1.p.nnc x1.p.cs hP.fp
  have hpair1 : EnginePair x1.p.nnc x1.p.dim x1.npC x1.p.gs.rows true x1.p.st.satG x1.satC x1.satG := by
    rw [hn1, hd1, hg1]; exact hP.pair
  by_cases hA : (x1.p.cs.sortPendingAndRemoveDuplicates false x1.p.nnc).rows.length = x1.p.cs.firstPending
  · -- every pending row was a duplicate
    have e : x1.ppcTail = (true, (x1.withCs (x1.p.cs.sortPendingAndRemoveDuplicates false x1.p.nnc)).withSt
        { x1.p.st with cPend := false }) := by
      simp [FPoly.ppcTail, FPoly.nnc, FPoly.st, FPoly.withCs, FPoly.withSt, sortPending_fp, hA]
    rw [e]
    have hrowsA := sortPending_all_dup false x1.p.nnc x1.p.cs hP.fp hA
    have hgenS : genSem x1.p.nnc x1.p.dim x1.p.gs.rows = S := by
      have h1 : genSem x1.p.nnc x1.p.dim x1.p.gs.rows = conSem x1.p.nnc x.npC := by
        rw [hn1, hd1, hg1]; exact hx.denNPc he hcp
      rw [h1, conSem_congr_mem _ _ _ fun r => (hP.np r).symm]
      have : x1.npC = (x1.p.cs.sortPendingAndRemoveDuplicates false x1.p.nnc).rows := hrowsA.symm
      rw [this]
      exact hcon'
    refine ⟨⟨hn1, hd1⟩, ?_, fun h => (by cases h), fun _ => ⟨he1, hcu1, hgu1, hcm1, hgm1, rfl, hgp1⟩⟩
    exact {
      wf := {
        cs_len := fun _ _ => hlen'
        gs_wf := fun _ _ => hgwf1
        gs_pt := fun _ _ => hgpt1
        pend_c := fun h => (by cases h)
        pend_g := fun h => (by have h' : x1.p.st.gPend = true := h; rw [hgp1] at h'; cases h')
        pend_one := fun h => (by cases h.1)
        some_up := fun _ _ => Or.inl hcu1
        zero_dim := fun h => (by have : x1.p.dim = 0 := h; omega) }
      den := ⟨fun h => (by have h' : x1.p.st.empty = true := h; rw [he1] at h'; cases h'),
        fun _ => ⟨fun _ _ => hcon', fun _ _ => hgenS, fun h => (by have h' : x1.p.st.cUp = false := h; rw [hcu1] at h'; cases h')⟩⟩
      legal := by
        show statusLegalB { x1.p.st with cPend := false } x1.p.dim = true
        rw [hst, hd1]
        exact legal_pend_cleared x.p.st x.p.dim a b false x.p.st.gPend hx.legal he hcan rfl hgp
      fpC := fun _ _ => ⟨hlenfp, fun _ => hA.symm⟩
      fpG := fun _ _ => ⟨le_of_eq hfpG1, fun _ => hfpG1⟩
      low := fun _ _ => hlow'
      denNPc := fun _ h => (by cases h)
      denNPg := fun _ h => (by have h' : x1.p.st.gPend = true := h; rw [hgp1] at h'; cases h')
      eng := fun _ _ => by
        show EnginePair x1.p.nnc x1.p.dim
          ((x1.p.cs.sortPendingAndRemoveDuplicates false x1.p.nnc).rows.take x1.p.cs.firstPending)
          (x1.p.gs.rows.take x1.p.gs.firstPending) x1.p.st.satC x1.p.st.satG x1.satC x1.satG
        rw [htake, hfpG1, List.take_length]
        exact hpair1.weakenC _ }
  · -- the engine is called
    have hpairE : EnginePair x1.p.nnc x1.p.dim
        ((x1.p.cs.sortPendingAndRemoveDuplicates false x1.p.nnc).rows.take
          (x1.p.cs.sortPendingAndRemoveDuplicates false x1.p.nnc).firstPending)
        x1.p.gs.rows true false x1.satC BitMat.clear := by
      rw [sortPending_fp, htake]
      exact hpair1.dropG _
    have hd1' : 0 < x1.p.dim := by omega
    have hC := C.add_c x1.p.nnc x1.p.dim (x1.p.cs.sortPendingAndRemoveDuplicates false x1.p.nnc) x1.p.gs
      x1.satC hd1' hlen' hgwf1 hgpt1 (by rw [sortPending_fp]; exact hlenfp) hfpG1 hlow' hpairE
    rw [hcon'] at hC
    have hA' : ((x1.p.cs.sortPendingAndRemoveDuplicates false x1.p.nnc).rows.length ==
        x1.p.cs.firstPending) = false := by simpa using hA
    cases ho : (FPoly.engineAddAndMinimize true x1.p.nnc x1.p.dim
        (x1.p.cs.sortPendingAndRemoveDuplicates false x1.p.nnc) x1.p.gs x1.satC).empty
    · have e : x1.ppcTail = (true,
          { x1.withCs (x1.p.cs.sortPendingAndRemoveDuplicates false x1.p.nnc) with
            satC := (FPoly.engineAddAndMinimize true x1.p.nnc x1.p.dim
              (x1.p.cs.sortPendingAndRemoveDuplicates false x1.p.nnc) x1.p.gs x1.satC).sat,
            p := { x1.p with
              cs := (FPoly.engineAddAndMinimize true x1.p.nnc x1.p.dim
                (x1.p.cs.sortPendingAndRemoveDuplicates false x1.p.nnc) x1.p.gs x1.satC).source,
              gs := (FPoly.engineAddAndMinimize true x1.p.nnc x1.p.dim
                (x1.p.cs.sortPendingAndRemoveDuplicates false x1.p.nnc) x1.p.gs x1.satC).dest,
              st := { x1.p.st with cPend := false, satG := false, satC := true } } }) := by
        simp [FPoly.ppcTail, FPoly.nnc, FPoly.dim, FPoly.withCs, sortPending_fp, hA', ho]
      have hpost := (hC.2 ho).of_flagG_false x1.satG
      have := inv_of_post x1.ppcTail.2 S (by rw [e]; exact hd1') (by rw [e]; exact hpost)
        (by rw [e]; exact he1) (by rw [e]; exact hcu1) (by rw [e]; exact hgu1) (by rw [e]; exact hcm1)
        (by rw [e]; exact hgm1) (by rw [e]) (by rw [e]; exact hgp1)
      refine ⟨by rw [e]; exact ⟨hn1, hd1⟩, this.1, fun h => ?_, fun _ => this.2⟩
      rw [e] at h; cases h
    · have e : x1.ppcTail = (false,
          (x1.withCs (x1.p.cs.sortPendingAndRemoveDuplicates false x1.p.nnc)).setEmpty) := by
        simp [FPoly.ppcTail, FPoly.nnc, FPoly.dim, FPoly.withCs, sortPending_fp, hA', ho]
      rw [e]
      have hS : S = ∅ := hC.1 ho
      subst hS
      exact ⟨⟨hn1, hd1⟩, inv_setEmpty _, fun _ => ⟨rfl, rfl⟩, fun h => (by cases h)⟩

end PPLV.PolyFull
