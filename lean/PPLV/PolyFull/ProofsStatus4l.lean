import PPLV.PolyFull.ProofsStatus4k

/-!
# Integration stage — `is_included_in` against `PolyStatus/Ops2.lean` (`y` another object)

The abstract `isIncludedIn ga gb` has ONE ghost input per object for its two possible engine calls on that
object (`process_pending_*`, then `update_*`); on status words with `CS_PENDING → G_UP_TO_DATE` (for `x`) and
`GS_PENDING → C_UP_TO_DATE` (for `y`) only one of the two runs.  The ghost conditions are those of the idioms
`needGens` (on `x`) and `needCons` (on `y`).
-/
namespace PPLV.PolyFull
open PPLV.PolyOps PPLV.Lin
open PPLV.PolyStatus (PState Gh Two)

attribute [local simp] FPoly.st FPoly.nnc FPoly.dim FPoly.withSt FPoly.withCs FPoly.withGs

/-- the four statements of `is_included_in`, abstract side, on the two components -/
def absA1 (ga : Gh) (s : PState) : Bool × PState :=
  if s.cpend then PPLV.PolyStatus.processPendingConstraints ga s else (true, s)
def absB1 (gb : Gh) (t : PState) : PState := if t.gpend then PPLV.PolyStatus.processPendingGenerators gb t else t
def absA2 (ga : Gh) (s : PState) : Bool × PState :=
  if !s.gup then PPLV.PolyStatus.updateGenerators ga s else (true, s)
def absB2 (gb : Gh) (t : PState) : PState := if !t.cup then PPLV.PolyStatus.updateConstraints gb t else t

theorem abs_isIncludedIn_eq (ga gb : Gh) (s t : PState) (go : Bool) :
    PPLV.PolyStatus.isIncludedIn ga gb { x := s, y := t, al := false, go := go } =
      (if !(absA1 ga s).1 then { x := (absA1 ga s).2, y := t, al := false, go := go }
       else if !(absA2 ga (absA1 ga s).2).1 then
         { x := (absA2 ga (absA1 ga s).2).2, y := absB1 gb t, al := false, go := go }
       else { x := (absA2 ga (absA1 ga s).2).2, y := absB2 gb (absB1 gb t), al := false, go := go }) := by
  simp only [PPLV.PolyStatus.isIncludedIn, PPLV.PolyStatus.inclA1, PPLV.PolyStatus.inclA2, PPLV.PolyStatus.inclB1,
    PPLV.PolyStatus.inclB2, Two.onXb, Two.onY, absA1, absA2, absB1, absB2]
  split
  · rfl
  · simp only [Bool.false_eq_true, ↓reduceIte]
    split <;> rfl

/-- the same four statements on the full model -/
def FPoly.fA1 (x : FPoly) : Bool × FPoly := if x.st.cPend then x.processPendingConstraints else (true, x)
def FPoly.fB1 (y : FPoly) : FPoly := if y.st.gPend then y.processPendingGenerators else y
def FPoly.fA2 (x : FPoly) : Bool × FPoly := if !x.st.gUp then x.updateGenerators else (true, x)
def FPoly.fB2 (y : FPoly) : FPoly := if !y.st.cUp then y.updateConstraints else y

theorem isIncludedIn_states (x y : FPoly) :
    ((x.isIncludedIn y).2.1, (x.isIncludedIn y).2.2) =
      (if !x.fA1.1 then (x.fA1.2, y)
       else if !x.fA1.2.fA2.1 then (x.fA1.2.fA2.2, y.fB1)
       else (x.fA1.2.fA2.2, y.fB1.fB2)) := by
  have e : x.isIncludedIn y =
      (if !x.fA1.1 then (true, x.fA1.2, y)
       else if !x.fA1.2.fA2.1 then (true, x.fA1.2.fA2.2, y.fB1)
       else (FPoly.includedLoops x.fA1.2.fA2.2.nnc x.fA1.2.fA2.2.p.gs.rows y.fB1.fB2.p.cs.rows,
             x.fA1.2.fA2.2, y.fB1.fB2)) := rfl
  rw [e]
  rcases (Bool.eq_false_or_eq_true x.fA1.1).symm with r | r
  · simp only [r, Bool.not_false, ↓reduceIte]
  · rcases (Bool.eq_false_or_eq_true x.fA1.2.fA2.1).symm with r2 | r2
    · simp only [r, r2, Bool.not_true, Bool.not_false, Bool.false_eq_true, ↓reduceIte]
    · simp only [r, r2, Bool.not_true, Bool.false_eq_true, ↓reduceIte]

theorem isIncludedIn_sim (x y : FPoly) (s t : PState) (ga gb : Gh) (go : Bool) (hx : Sim x s) (hy : Sim y t)
    (hlx : x.p.st.cPend = true → x.p.st.gUp = true) (hly : y.p.st.gPend = true → y.p.st.cUp = true)
    (hga : NeedGensGhost x ga s) (hgb : NeedConsGhost y gb t) :
    Sim (x.isIncludedIn y).2.1 (PPLV.PolyStatus.isIncludedIn ga gb { x := s, y := t, al := false, go := go }).x
    ∧ Sim (x.isIncludedIn y).2.2 (PPLV.PolyStatus.isIncludedIn ga gb { x := s, y := t, al := false, go := go }).y := by
  have hst := isIncludedIn_states x y
  rw [abs_isIncludedIn_eq]
  -- stage A1
  have A1 : (absA1 ga s).1 = x.fA1.1 ∧ Sim x.fA1.2 (absA1 ga s).2
      ∧ (x.fA1.1 = true → (x.fA1.2.p.st.gUp = false → x.p.st.cPend = false ∧ x.p.st.gUp = false)
          ∧ (x.p.st.cPend = false → x.fA1.2 = x ∧ (absA1 ga s).2 = s)) := by
    rcases (Bool.eq_false_or_eq_true x.p.st.cPend).symm with c | c
    · have e1 : x.fA1 = (true, x) := by simp [FPoly.fA1, c]
      have e2 : absA1 ga s = (true, s) := by simp [absA1, PState.cpend, hx.cpend, c]
      rw [e1, e2]
      exact ⟨rfl, hx, fun _ => ⟨fun h => ⟨c, h⟩, fun _ => ⟨rfl, rfl⟩⟩⟩
    · have e1 : x.fA1 = x.processPendingConstraints := by simp [FPoly.fA1, c]
      have e2 : absA1 ga s = PPLV.PolyStatus.processPendingConstraints ga s := by
        simp [absA1, PState.cpend, hx.cpend, c]
      obtain ⟨m1, m2⟩ := processPendingConstraints_sim x s ga hx (hga.ppc c)
      rw [e1, e2]
      refine ⟨m1, m2, fun hr => ⟨fun h => ?_, fun hc => (by rw [c] at hc; cases hc)⟩⟩
      rw [(processPendingConstraints_keeps x hr).1, hlx c] at h; cases h
  obtain ⟨a1, a2, a3⟩ := A1
  -- stage B1
  have B1 : Sim y.fB1 (absB1 gb t) ∧ (y.fB1.p.st.cUp = false → y.p.st.gPend = false ∧ y.p.st.cUp = false)
      ∧ (y.p.st.gPend = false → y.fB1 = y ∧ absB1 gb t = t) := by
    rcases (Bool.eq_false_or_eq_true y.p.st.gPend).symm with c | c
    · have e1 : y.fB1 = y := by simp [FPoly.fB1, c]
      have e2 : absB1 gb t = t := by simp [absB1, PState.gpend, hy.gpend, c]
      rw [e1, e2]; exact ⟨hy, fun h => ⟨c, h⟩, fun _ => ⟨rfl, rfl⟩⟩
    · have e1 : y.fB1 = y.processPendingGenerators := by simp [FPoly.fB1, c]
      have e2 : absB1 gb t = PPLV.PolyStatus.processPendingGenerators gb t := by
        simp [absB1, PState.gpend, hy.gpend, c]
      rw [e1, e2]
      refine ⟨processPendingGenerators_sim y t gb hy (hgb.ppg c), fun h => ?_, fun hc => (by rw [c] at hc; cases hc)⟩
      rw [(processPendingGenerators_keeps y).2.1, hly c] at h; cases h
  obtain ⟨b1, b2, b3⟩ := B1
  rcases (Bool.eq_false_or_eq_true x.fA1.1).symm with r | r
  · -- process_pending_constraints found x empty
    simp only [r, a1, Bool.not_false, ↓reduceIte] at hst ⊢
    have h1 : (x.isIncludedIn y).2.1 = x.fA1.2 := congrArg Prod.fst hst
    have h2 : (x.isIncludedIn y).2.2 = y := congrArg Prod.snd hst
    rw [h1, h2]; exact ⟨a2, hy⟩
  obtain ⟨a3g, a3e⟩ := a3 r
  -- stage A2
  have A2 : (absA2 ga (absA1 ga s).2).1 = x.fA1.2.fA2.1 ∧ Sim x.fA1.2.fA2.2 (absA2 ga (absA1 ga s).2).2 := by
    rcases (Bool.eq_false_or_eq_true x.fA1.2.p.st.gUp).symm with c | c
    · obtain ⟨q1, q2⟩ := a3g c
      obtain ⟨q3, q4⟩ := a3e q1
      have e1 : x.fA1.2.fA2 = x.updateGenerators := by rw [q3]; simp [FPoly.fA2, q2]
      have e2 : absA2 ga (absA1 ga s).2 = PPLV.PolyStatus.updateGenerators ga s := by
        rw [q4]; simp [absA2, PState.gup, hx.gup, q2]
      rw [e1, e2]
      exact updateGenerators_sim' x s ga hx (hga.ug q1 q2)
    · have e1 : x.fA1.2.fA2 = (true, x.fA1.2) := by simp [FPoly.fA2, c]
      have e2 : absA2 ga (absA1 ga s).2 = (true, (absA1 ga s).2) := by
        simp [absA2, PState.gup, a2.gup, c]
      rw [e1, e2]; exact ⟨rfl, a2⟩
  obtain ⟨c1, c2⟩ := A2
  rcases (Bool.eq_false_or_eq_true x.fA1.2.fA2.1).symm with r2 | r2
  · simp only [r, r2, a1, c1, Bool.not_true, Bool.not_false, Bool.false_eq_true, ↓reduceIte] at hst ⊢
    have h1 : (x.isIncludedIn y).2.1 = x.fA1.2.fA2.2 := congrArg Prod.fst hst
    have h2 : (x.isIncludedIn y).2.2 = y.fB1 := congrArg Prod.snd hst
    rw [h1, h2]; exact ⟨c2, b1⟩
  -- stage B2
  have B2 : Sim y.fB1.fB2 (absB2 gb (absB1 gb t)) := by
    rcases (Bool.eq_false_or_eq_true y.fB1.p.st.cUp).symm with c | c
    · obtain ⟨q1, q2⟩ := b2 c
      obtain ⟨q3, q4⟩ := b3 q1
      have e1 : y.fB1.fB2 = y.updateConstraints := by rw [q3]; simp [FPoly.fB2, q2]
      have e2 : absB2 gb (absB1 gb t) = PPLV.PolyStatus.updateConstraints gb t := by
        rw [q4]; simp [absB2, PState.cup, hy.cup, q2]
      rw [e1, e2]
      exact updateConstraints_sim y t gb hy (hgb.uc q1 q2)
    · have e1 : y.fB1.fB2 = y.fB1 := by simp [FPoly.fB2, c]
      have e2 : absB2 gb (absB1 gb t) = absB1 gb t := by simp [absB2, PState.cup, b1.cup, c]
      rw [e1, e2]; exact b1
  simp only [r, r2, a1, c1, Bool.not_true, Bool.false_eq_true, ↓reduceIte] at hst ⊢
  have h1 : (x.isIncludedIn y).2.1 = x.fA1.2.fA2.2 := congrArg Prod.fst hst
  have h2 : (x.isIncludedIn y).2.2 = y.fB1.fB2 := congrArg Prod.snd hst
  rw [h1, h2]; exact ⟨c2, B2⟩

end PPLV.PolyFull
