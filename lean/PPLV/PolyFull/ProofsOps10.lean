import PPLV.PolyFull.ProofsOps5c
import PPLV.PolyOps.ProofsCon2
import PPLV.Conv.ProofsCompleteEmb2
import PPLV.Conv.ProofsSimp4

/-!
# Integration stage — `LowLevel` is kept by `Constraint_System::affine_preimage`

At cone level the rewritten row `r'` satisfies `r' · X = r · Y` (up to a positive factor) where `Y` is
`den · X` with the column of `var` replaced by `expr · X`; `Y` keeps the divisor and epsilon columns
up to the factor `den > 0`, so the low-level constraints are carried over.
-/
namespace PPLV.PolyFull
open PPLV.Lin PPLV.PolyOps
open PPLV.Conv (scalarProduct holds holdsAll Vec sp_eq_sum sp_comm)

/-- the coefficient vector of a row as the engine sees it -/
def Lv (nnc : Bool) (r : Row) : Vec := r.b :: (r.cf ++ (if nnc then [r.eps] else []))

theorem toL_v (nnc : Bool) (r : Row) : (toL nnc r).v = Lv nnc r := rfl
theorem toL_le (nnc : Bool) (r : Row) : (toL nnc r).le = r.eq := rfl

theorem tail_getD (nnc : Bool) (eps : Int) (k : Nat) (d : Int) :
    (if nnc then [d * eps] else []).getD k 0 = d * (if nnc then [eps] else []).getD k 0 := by
  cases nnc
  · simp
  · cases k <;> simp

theorem getD_append_lt (l l' : List Int) (j : Nat) (h : j < l.length) : (l ++ l').getD j 0 = l.getD j 0 := by
  simp [List.getD_eq_getElem?_getD, List.getElem?_append_left h]

theorem getD_append_ge (l l' : List Int) (j : Nat) (h : l.length ≤ j) :
    (l ++ l').getD j 0 = l'.getD (j - l.length) 0 := by
  simp [List.getD_eq_getElem?_getD, List.getElem?_append_right h]

/-- the row the loop body builds before `strong_normalize()` -/
def preRow (v : Nat) (E : LinExpr) (d : Int) (r : Row) : Row :=
  { eq := r.eq, b := d * r.b + r.cf.getD v 0 * E.k,
    cf := (addMul (r.cf.getD v 0) E.coeffs (r.cf.map (d * ·))).set v (r.cf.getD v 0 * E.coeffs.getD v 0),
    eps := d * r.eps }

theorem Lv_preRow_getD (nnc : Bool) (n v : Nat) (E : LinExpr) (d : Int) (r : Row)
    (hr : r.cf.length = n) (hE : E.coeffs.length = n) (hv : v < n) (i : Nat) :
    (Lv nnc (preRow v E d r)).getD i 0 =
      d * (Lv nnc r).getD i 0 + r.cf.getD v 0 * (E.k :: E.coeffs).getD i 0
        - (if i = v + 1 then d * r.cf.getD v 0 else 0) := by
  cases i with
  | zero => simp [Lv, preRow]
  | succ j =>
    show ((preRow v E d r).cf ++ (if nnc then [(preRow v E d r).eps] else [])).getD j 0 =
      d * (r.cf ++ (if nnc then [r.eps] else [])).getD j 0 + r.cf.getD v 0 * E.coeffs.getD j 0 - _
    have hlen : (preRow v E d r).cf.length = n := by
      simp [preRow, addMul_length, hr]
    by_cases hj : j < n
    · rw [getD_append_lt _ _ _ (by rw [hlen]; exact hj), getD_append_lt _ _ _ (by rw [hr]; exact hj)]
      show ((addMul (r.cf.getD v 0) E.coeffs (r.cf.map (d * ·))).set v _).getD j 0 = _
      by_cases hjv : j = v
      · subst hjv
        rw [List.getD_eq_getElem?_getD, List.getElem?_set_self (by simp [addMul_length, hr, hj])]
        simp
      · have hne : ¬ (j + 1 = v + 1) := by omega
        rw [if_neg hne, List.getD_eq_getElem?_getD, List.getElem?_set_ne (Ne.symm hjv),
          ← List.getD_eq_getElem?_getD, getD_addMul _ _ _ (by simp [hE, hr]), getD_map_mul']
        ring
    · have hj' : n ≤ j := Nat.le_of_not_lt hj
      have hne : ¬ (j + 1 = v + 1) := by omega
      rw [if_neg hne, getD_append_ge _ _ _ (by rw [hlen]; exact hj'),
        getD_append_ge _ _ _ (by rw [hr]; exact hj'), hlen, hr]
      have hE0 : E.coeffs.getD j 0 = 0 := by
        rw [List.getD_eq_getElem?_getD, List.getElem?_eq_none (by rw [hE]; exact hj')]; rfl
      rw [hE0]
      show (if nnc then [d * r.eps] else []).getD (j - n) 0 = _
      rw [tail_getD]; ring

theorem Lv_length (nnc : Bool) (n : Nat) (r : Row) (h : r.cf.length = n) :
    (Lv nnc r).length = numCols nnc n := by
  unfold Lv numCols; cases nnc <;> simp [h]

theorem Lv_getD_var (nnc : Bool) (n v : Nat) (r : Row) (h : r.cf.length = n) (hv : v < n) :
    (Lv nnc r).getD (v + 1) 0 = r.cf.getD v 0 := by
  show (r.cf ++ _).getD v 0 = _
  rw [getD_append_lt _ _ _ (by rw [h]; exact hv)]

/-- `Y`: `d · X` with the column of `var` replaced by `expr · X` -/
def subVec (N v : Nat) (E : LinExpr) (d : Int) (X : Vec) : Vec :=
  (List.range N).map fun i => if i = v + 1 then scalarProduct (E.k :: E.coeffs) X else d * X.getD i 0

theorem subVec_length (N v : Nat) (E : LinExpr) (d : Int) (X : Vec) : (subVec N v E d X).length = N := by
  simp [subVec]

theorem subVec_getD (N v : Nat) (E : LinExpr) (d : Int) (X : Vec) (i : Nat) (hi : i < N) :
    (subVec N v E d X).getD i 0 =
      if i = v + 1 then scalarProduct (E.k :: E.coeffs) X else d * X.getD i 0 := by
  simp [subVec, List.getD_eq_getElem?_getD, hi]

theorem sp_subVec (nnc : Bool) (n v : Nat) (E : LinExpr) (d : Int) (r : Row) (X : Vec)
    (hr : r.cf.length = n) (hv : v < n) :
    scalarProduct (Lv nnc r) (subVec (numCols nnc n) v E d X) =
      d * (∑ i ∈ Finset.range (numCols nnc n), (Lv nnc r).getD i 0 * X.getD i 0) +
        r.cf.getD v 0 * (scalarProduct (E.k :: E.coeffs) X - d * X.getD (v + 1) 0) := by
  have hvN : v + 1 < numCols nnc n := by unfold numCols; omega
  rw [sp_eq_sum (numCols nnc n) _ (subVec _ v E d X) (by rw [subVec_length])]
  have h2 : ∀ i ∈ Finset.range (numCols nnc n),
      (Lv nnc r).getD i 0 * (subVec (numCols nnc n) v E d X).getD i 0 =
        d * ((Lv nnc r).getD i 0 * X.getD i 0)
          + (if i = v + 1 then (Lv nnc r).getD i 0 * (scalarProduct (E.k :: E.coeffs) X - d * X.getD i 0) else 0) := by
    intro i hi
    rw [subVec_getD _ _ _ _ _ _ (Finset.mem_range.mp hi)]
    split_ifs <;> ring
  rw [Finset.sum_congr rfl h2, Finset.sum_add_distrib, Finset.sum_ite_eq', Lv_getD_var nnc n v r hr hv,
    ← Finset.mul_sum]
  have hmem : v + 1 ∈ Finset.range (numCols nnc n) := Finset.mem_range.mpr hvN
  simp only [hmem, if_true]

theorem sp_preRow (nnc : Bool) (n v : Nat) (E : LinExpr) (d : Int) (r : Row) (X : Vec)
    (hr : r.cf.length = n) (hE : E.coeffs.length = n) (hv : v < n) (hX : X.length ≤ numCols nnc n) :
    scalarProduct (Lv nnc (preRow v E d r)) X = scalarProduct (Lv nnc r) (subVec (numCols nnc n) v E d X) := by
  have hvN : v + 1 < numCols nnc n := by unfold numCols; omega
  rw [sp_subVec nnc n v E d r X hr hv, sp_eq_sum _ _ X hX]
  have hE' : scalarProduct (E.k :: E.coeffs) X =
      ∑ i ∈ Finset.range (numCols nnc n), (E.k :: E.coeffs).getD i 0 * X.getD i 0 := sp_eq_sum _ _ X hX
  have h1 : ∀ i ∈ Finset.range (numCols nnc n),
      (Lv nnc (preRow v E d r)).getD i 0 * X.getD i 0 =
        d * ((Lv nnc r).getD i 0 * X.getD i 0) + r.cf.getD v 0 * ((E.k :: E.coeffs).getD i 0 * X.getD i 0)
          - (if i = v + 1 then d * r.cf.getD v 0 * X.getD i 0 else 0) := by
    intro i _
    rw [Lv_preRow_getD nnc n v E d r hr hE hv i]
    split_ifs <;> ring
  rw [Finset.sum_congr rfl h1, Finset.sum_sub_distrib, Finset.sum_add_distrib, Finset.sum_ite_eq',
    ← Finset.mul_sum, ← Finset.mul_sum, ← hE']
  have hmem : v + 1 ∈ Finset.range (numCols nnc n) := Finset.mem_range.mpr hvN
  simp only [hmem, if_true]
  ring

/-! ## normalisation -/

theorem Lv_divBy (nnc : Bool) (r : Row) (g : Int) : Lv nnc (r.divBy g) = (Lv nnc r).map (· / g) := by
  cases nnc <;> simp [Lv, Row.divBy]

theorem Lv_scale (nnc : Bool) (r : Row) (k : Int) : Lv nnc (r.scale k) = (Lv nnc r).map (k * ·) := by
  cases nnc <;> simp [Lv, Row.scale]

theorem sp_Lv_normalize (nnc : Bool) (r : Row) :
    ∃ g : Int, 0 < g ∧ r.normalize.eq = r.eq ∧
      ∀ X, scalarProduct (Lv nnc r) X = g * scalarProduct (Lv nnc r.normalize) X := by
  obtain ⟨g, hg, hb, he, hcf, hn⟩ := normalize_eq r
  refine ⟨g, hg, by rw [hn]; rfl, fun X => ?_⟩
  have hdiv : ∀ a ∈ Lv nnc r, g ∣ a := by
    intro a ha
    unfold Lv at ha
    rcases List.mem_cons.mp ha with rfl | ha
    · exact hb
    · rcases List.mem_append.mp ha with ha | ha
      · exact hcf a ha
      · cases nnc
        · simp at ha
        · simp at ha; rw [ha]; exact he
  rw [hn, Lv_divBy, sp_comm, PPLV.Conv.sp_map_div g X (Lv nnc r) hdiv, sp_comm]

theorem holds_of_sp_pos (l l' : PPLV.Conv.LRow) (X X' : Vec) (t : Int) (ht : 0 < t) (hle : l.le = l'.le)
    (h : scalarProduct l.v X = t * scalarProduct l'.v X') : holds l X ↔ holds l' X' := by
  unfold holds
  rw [hle, h]
  split
  · constructor
    · intro h0
      rcases mul_eq_zero.mp h0 with h1 | h1
      · omega
      · exact h1
    · intro h0; rw [h0, mul_zero]
  · constructor
    · intro h0
      by_contra hneg
      have : t * scalarProduct l'.v X' < 0 := mul_neg_of_pos_of_neg ht (not_le.mp hneg)
      omega
    · intro h0; exact mul_nonneg (le_of_lt ht) h0

theorem holds_strongNormalize (nnc : Bool) (r : Row) (X : Vec) :
    holds (toL nnc r.strongNormalize) X ↔ holds (toL nnc r) X := by
  obtain ⟨g, hg, heq, hsp⟩ := sp_Lv_normalize nnc r
  have h1 : holds (toL nnc r) X ↔ holds (toL nnc r.normalize) X :=
    holds_of_sp_pos _ _ X X g hg (by show r.eq = r.normalize.eq; rw [heq]) (hsp X)
  rw [h1]
  unfold Row.strongNormalize
  rcases signNormalize_eq r.normalize with h | ⟨he, h⟩
  · rw [h]
  · rw [h]
    unfold holds
    have hle : (toL nnc (r.normalize.scale (-1))).le = true := he
    have hle' : (toL nnc r.normalize).le = true := he
    rw [hle, hle', if_pos rfl, if_pos rfl, toL_v, toL_v, Lv_scale, sp_comm, PPLV.Conv.sp_map_mul, sp_comm]
    constructor <;> intro h0 <;> omega

/-! ## one row, then the system -/

theorem scale_one (r : Row) : r.scale 1 = r := by
  cases r; simp [Row.scale]

theorem conRow_pre (v : Nat) (E : LinExpr) (d : Int) (r : Row) (hc : r.cf.getD v 0 ≠ 0) :
    conRowAffinePreimage v E d r = (preRow v E d r).strongNormalize := by
  have h1 : (if (d != 1) = true then r.scale d else r) = r.scale d := by
    by_cases hd : d = 1
    · subst hd; simp [scale_one]
    · simp [hd]
  have h2 : (if (E.coeffs.getD v 0 == 0) = true then 0 else r.cf.getD v 0 * E.coeffs.getD v 0) =
      r.cf.getD v 0 * E.coeffs.getD v 0 := by
    split
    · rename_i h; rw [beq_iff_eq.mp h, mul_zero]
    · rfl
  unfold conRowAffinePreimage
  simp only [bne_iff_ne, ne_eq, hc, not_false_eq_true, if_true]
  have h1' : (if ¬ d = 1 then r.scale d else r) = r.scale d := by
    by_cases hd : d = 1
    · subst hd; simp [scale_one]
    · simp [hd]
  rw [h1']
  congr 1
  simp only [preRow, Row.scale]
  congr 1
  rw [h2]

theorem holds_conRow (nnc : Bool) (n v : Nat) (E : LinExpr) (d : Int) (r : Row) (X : Vec)
    (hr : r.cf.length = n) (hE : E.coeffs.length = n) (hv : v < n) (hd : 0 < d)
    (hX : X.length ≤ numCols nnc n) :
    holds (toL nnc (conRowAffinePreimage v E d r)) X ↔
      holds (toL nnc r) (subVec (numCols nnc n) v E d X) := by
  by_cases hc : r.cf.getD v 0 = 0
  · have hid : conRowAffinePreimage v E d r = r := by
      unfold conRowAffinePreimage
      have hne : ¬ ((r.cf.getD v 0 != 0) = true) := by rw [hc]; decide
      simp only [hne, Bool.false_eq_true, if_false]
    rw [hid]
    refine (holds_of_sp_pos (toL nnc r) (toL nnc r) _ X d hd rfl ?_).symm
    rw [toL_v, sp_subVec nnc n v E d r X hr hv, hc, zero_mul, add_zero, ← sp_eq_sum _ _ X hX]
  · rw [conRow_pre v E d r hc, holds_strongNormalize]
    unfold holds
    rw [toL_v, toL_v, sp_preRow nnc n v E d r X hr hE hv hX]
    exact Iff.rfl

/-- **`Constraint_System::affine_preimage` keeps the low-level constraints entailed** (`den > 0`) -/
theorem LowLevel_csAffinePreimage (nnc : Bool) (n v : Nat) (E : LinExpr) (d : Int) (rows : List Row)
    (hlen : ∀ r ∈ rows, r.cf.length = n) (hE : E.coeffs.length = n) (hv : v < n) (hd : 0 < d)
    (h : LowLevel nnc n rows) :
    LowLevel nnc n ((rows.map (conRowAffinePreimage v E d)).map Row.strongNormalize) := by
  intro X hX hall
  have hY : holdsAll (rows.map (toL nnc)) (subVec (numCols nnc n) v E d X) := by
    intro l hl
    obtain ⟨r, hr, rfl⟩ := List.mem_map.mp hl
    have hm : toL nnc (conRowAffinePreimage v E d r).strongNormalize ∈
        ((rows.map (conRowAffinePreimage v E d)).map Row.strongNormalize).map (toL nnc) :=
      List.mem_map.mpr ⟨_, List.mem_map.mpr ⟨_, List.mem_map.mpr ⟨r, hr, rfl⟩, rfl⟩, rfl⟩
    have := hall _ hm
    rw [holds_strongNormalize] at this
    exact (holds_conRow nnc n v E d r X (hlen r hr) hE hv hd hX).mp this
  obtain ⟨h0, h1⟩ := h _ (by rw [subVec_length]) hY
  have hN0 : 0 < numCols nnc n := by unfold numCols; omega
  rw [subVec_getD _ _ _ _ _ 0 hN0, if_neg (by omega)] at h0
  have hX0 : 0 ≤ X.getD 0 0 := (mul_nonneg_iff_of_pos_left hd).mp h0
  refine ⟨hX0, fun hn => ?_⟩
  obtain ⟨h2, h3⟩ := h1 hn
  have hN1 : n + 1 < numCols nnc n := by rw [hn]; unfold numCols; simp
  rw [subVec_getD _ _ _ _ _ (n + 1) hN1, if_neg (by omega)] at h2 h3
  rw [subVec_getD _ _ _ _ _ 0 hN0, if_neg (by omega)] at h3
  exact ⟨(mul_nonneg_iff_of_pos_left hd).mp h2, le_of_mul_le_mul_left h3 hd⟩

end PPLV.PolyFull
