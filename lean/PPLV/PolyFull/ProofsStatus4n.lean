import PPLV.PolyFull.ProofsStatus4m

/-!
# Integration stage — `contains(y)` against `PolyStatus/Ops2.lean` (`y` another object)
-/
namespace PPLV.PolyFull
open PPLV.PolyOps PPLV.Lin
open PPLV.PolyStatus (PState Gh Two)

attribute [local simp] FPoly.st FPoly.nnc FPoly.dim FPoly.withSt FPoly.withCs FPoly.withGs

theorem abs_isIncludedIn_al (ga gb : Gh) (s t : PState) (go : Bool) :
    (PPLV.PolyStatus.isIncludedIn ga gb { x := s, y := t, al := false, go := go }).al = false := by
  rw [abs_isIncludedIn_eq]
  split
  · rfl
  · split <;> rfl

/-- the ghost conditions of the inclusion test `y ⊆ x` inside `x.contains(y)`, on the states the quick test
    leaves -/
structure ContainsIncl (x' y' : FPoly) (gx gy : Gh) (s' t' : PState) : Prop where
  ly : y'.p.st.cPend = true → y'.p.st.gUp = true
  lx : x'.p.st.gPend = true → x'.p.st.cUp = true
  gy : NeedGensGhost y' gy t'
  gx : NeedConsGhost x' gx s'

theorem contains_sim (x y : FPoly) (s t : PState) (gx gy : Gh) (q : PPLV.PolyStatus.GhQ) (go : Bool)
    (hx : Sim x s) (hy : Sim y t)
    (hE : y.p.st.empty = false → x.p.st.empty = true → IsEmptyGhost y gy t)
    (hq : QOk x y q s t)
    (hI : y.p.st.empty = false → x.p.st.empty = false → y.p.dim ≠ 0 → (x.quickEquivalenceTest y).1 ≠ some true →
      ∀ s' t', Sim (x.quickEquivalenceTest y).2.1 s' → Sim (x.quickEquivalenceTest y).2.2 t' →
        (PPLV.PolyStatus.quickEquivalenceTest q { x := s, y := t, al := false, go := go }).2
          = { x := s', y := t', al := false, go := go } →
        ContainsIncl (x.quickEquivalenceTest y).2.1 (x.quickEquivalenceTest y).2.2 gx gy s' t') :
    Sim (x.contains y).2.1 (PPLV.PolyStatus.contains gx gy q { x := s, y := t, al := false, go := go }).x
    ∧ Sim (x.contains y).2.2 (PPLV.PolyStatus.contains gx gy q { x := s, y := t, al := false, go := go }).y := by
  have hsx : s.b .em = x.p.st.empty := hx.em
  have hty : t.b .em = y.p.st.empty := hy.em
  rcases (Bool.eq_false_or_eq_true y.p.st.empty).symm with b | b
  swap
  · have e1 : x.contains y = (true, x, y) := by simp [FPoly.contains, b]
    have e2 : PPLV.PolyStatus.contains gx gy q { x := s, y := t, al := false, go := go }
        = { x := s, y := t, al := false, go := go } := by
      simp [PPLV.PolyStatus.contains, Two.gy, PState.em, hty, b]
    rw [e1, e2]; exact ⟨hx, hy⟩
  rcases (Bool.eq_false_or_eq_true x.p.st.empty).symm with a | a
  swap
  · have e1 : x.contains y = (y.isEmpty.1, x, y.isEmpty.2) := by simp [FPoly.contains, a, b]
    have e2 : PPLV.PolyStatus.contains gx gy q { x := s, y := t, al := false, go := go }
        = { x := s, y := (PPLV.PolyStatus.isEmpty gy t).2, al := false, go := go } := by
      simp [PPLV.PolyStatus.contains, Two.gy, Two.onYb, PState.em, hty, b, hsx, a]
    rw [e1, e2]
    exact ⟨hx, (isEmpty_sim y t gy hy (hE b a)).2⟩
  by_cases d : y.p.dim = 0
  · have e1 : x.contains y = (true, x, y) := by simp [FPoly.contains, a, b, d]
    have e2 : PPLV.PolyStatus.contains gx gy q { x := s, y := t, al := false, go := go }
        = { x := s, y := t, al := false, go := go } := by
      simp [PPLV.PolyStatus.contains, Two.gy, PState.em, hty, b, hsx, a, hy.dim, d]
    rw [e1, e2]; exact ⟨hx, hy⟩
  have d' : (y.p.dim == 0) = false := by simpa using d
  have dt : (t.dim == 0) = false := by rw [hy.dim]; exact d'
  obtain ⟨q1, _, s', t', q3, q4, q5⟩ := hq go
  rcases (Bool.eq_false_or_eq_true ((x.quickEquivalenceTest y).1 == some true)).symm with r | r
  swap
  · have e1 : x.contains y = (true, (x.quickEquivalenceTest y).2.1, (x.quickEquivalenceTest y).2.2) := by
      unfold FPoly.contains
      simp only [FPoly.st, FPoly.dim, a, b, d', r, Bool.false_eq_true, ↓reduceIte]
    have e2 : PPLV.PolyStatus.contains gx gy q { x := s, y := t, al := false, go := go }
        = { x := s', y := t', al := false, go := go } := by
      simp only [PPLV.PolyStatus.contains, Two.gy, PState.em, hty, b, hsx, a, dt, Bool.false_eq_true, ↓reduceIte,
        q1, r, q3]
    rw [e1, e2]; exact ⟨q4, q5⟩
  · have hne : (x.quickEquivalenceTest y).1 ≠ some true := by
      intro hh; rw [hh] at r; simp at r
    have e1 : x.contains y =
        (((x.quickEquivalenceTest y).2.2.isIncludedIn (x.quickEquivalenceTest y).2.1).1,
         ((x.quickEquivalenceTest y).2.2.isIncludedIn (x.quickEquivalenceTest y).2.1).2.2,
         ((x.quickEquivalenceTest y).2.2.isIncludedIn (x.quickEquivalenceTest y).2.1).2.1) := by
      unfold FPoly.contains
      simp only [FPoly.st, FPoly.dim, a, b, d', r, Bool.false_eq_true, ↓reduceIte]
    have e2 : PPLV.PolyStatus.contains gx gy q { x := s, y := t, al := false, go := go }
        = (PPLV.PolyStatus.isIncludedIn gy gx { x := t', y := s', al := false, go := go }).swap := by
      simp only [PPLV.PolyStatus.contains, Two.gy, PState.em, hty, b, hsx, a, dt, Bool.false_eq_true, ↓reduceIte,
        q1, r, q3, Two.swap]
    have hc := hI b a d hne s' t' q4 q5 q3
    obtain ⟨i1, i2⟩ := isIncludedIn_sim (x.quickEquivalenceTest y).2.2 (x.quickEquivalenceTest y).2.1 t' s' gy gx go
      q5 q4 hc.ly hc.lx hc.gy hc.gx
    have hal := abs_isIncludedIn_al gy gx t' s' go
    rw [e1, e2]
    simp only [Two.swap, hal, Bool.false_eq_true, ↓reduceIte]
    exact ⟨i2, i1⟩

end PPLV.PolyFull
