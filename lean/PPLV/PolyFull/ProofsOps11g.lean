import PPLV.PolyFull.ProofsOps11f

/-!
# Integration stage — `minG` of the rewritten generators at the indices that are NOT lines

For a rewritten ray / point `g'_j` (factor `σ_j > 0`): a combination of the other rewritten rows giving
`g'_j` is, multiplied by `σ_j · ∏ σ_i²` and pushed through the inverse map, a combination of the other
old rows giving `g_j`.
-/
namespace PPLV.PolyFull
open PPLV.Lin PPLV.PolyOps
open PPLV.Conv (scalarProduct holds holdsAll Vec Sound SatCorrect Generated colVec sp_colVec)

theorem sum_mul_left (l : List Nat) (f : Nat → Int) (a : Int) :
    a * (l.map f).sum = (l.map fun i => a * f i).sum := by
  induction l with
  | nil => simp
  | cons x l ih => simp only [List.map_cons, List.sum_cons, ← ih]; ring

/-- an identity between functionals is carried through `subVec` -/
theorem push_subVec (N v : Nat) (E : LinExpr) (d : Int) (hvN : v + 1 < N) (Z : Vec) (Zs : Nat → Vec)
    (m : Nat) (Dn : Int) (k : Nat → Int) (hZ : Z.length ≤ N) (hZs : ∀ i, i < m → (Zs i).length ≤ N)
    (h : ∀ c : Vec, Dn * scalarProduct c Z = ((List.range m).map fun i => k i * scalarProduct c (Zs i)).sum)
    (c : Vec) :
    Dn * scalarProduct c (subVec N v E d Z) =
      ((List.range m).map fun i => k i * scalarProduct c (subVec N v E d (Zs i))).sum := by
  calc Dn * scalarProduct c (subVec N v E d Z)
      = d * (Dn * scalarProduct c Z) + c.getD (v + 1) 0 *
          (Dn * scalarProduct (Ev E) Z - d * (Dn * scalarProduct (colVec (v + 1)) Z)) := by
        rw [sp_subVec' N v E d c Z hvN hZ, sp_colVec]; ring
    _ = _ := by
        rw [h c, h (Ev E), h (colVec (v + 1)), sum_lin]
        apply sum_map_congr
        intro i hi
        rw [sp_subVec' N v E d c _ hvN (hZs i (List.mem_range.mp hi)), sp_colVec]
        ring

theorem prod_sq_pos (l : List Row) (σ : Row → Int) (h : ∀ r ∈ l, σ r ≠ 0) :
    0 < (l.map fun r => σ r * σ r).prod := by
  induction l with
  | nil => simp
  | cons a l ih =>
    simp only [List.map_cons, List.prod_cons]
    exact mul_pos (mul_self_pos.mpr (h a (List.mem_cons_self ..)))
      (ih fun r hr => h r (List.mem_cons_of_mem _ hr))

theorem dvd_prod_sq (l : List Row) (σ : Row → Int) (r : Row) (hr : r ∈ l) :
    σ r ∣ (l.map fun r => σ r * σ r).prod := by
  induction l with
  | nil => cases hr
  | cons a l ih =>
    simp only [List.map_cons, List.prod_cons]
    rcases List.mem_cons.mp hr with rfl | hr
    · exact Dvd.dvd.mul_right (Dvd.intro _ rfl) _
    · exact Dvd.dvd.mul_left (ih hr) _

theorem minG_affine_nonline {nnc n v Eg dg Ec dc} (D : AffData nnc n v Eg dg Ec dc) (gs : List Row)
    (hgs : ∀ g ∈ gs, g.cf.length = n)
    (h : ∀ j, j < gs.length → ¬ Generated ((gs.eraseIdx j).map (toL nnc)) (toL nnc (gs.getD j default)).v) :
    ∀ j, j < (gs.map (Fg v Eg dg)).length → ((gs.map (Fg v Eg dg)).getD j default).eq = false →
      ¬ Generated (((gs.map (Fg v Eg dg)).eraseIdx j).map (toL nnc))
        (toL nnc ((gs.map (Fg v Eg dg)).getD j default)).v := by
  intro j hj hline hgen
  have hj' : j < gs.length := by simpa using hj
  apply h j hj'
  have hgj := getD_mem gs j hj'
  have hFj : (gs.map (Fg v Eg dg)).getD j default = Fg v Eg dg (gs.getD j default) := by
    simp [List.getD_eq_getElem?_getD, hj']
  rw [hFj] at hline hgen
  rw [eraseIdx_map'] at hgen
  have hjl : (gs.getD j default).eq = false := by rw [← (Fg_eq D _ (hgs _ hgj)).1]; exact hline
  have hsub : ∀ r ∈ gs.eraseIdx j, r ∈ gs := fun r hr => List.mem_of_mem_eraseIdx hr
  obtain ⟨den, coef, hden, hlen, hnn, hid⟩ := hgen
  have hex : ∀ g : Row, ∃ s : Int, g ∈ gs → (s ≠ 0 ∧ (g.eq = false → 0 < s) ∧
      ∀ a : Vec, scalarProduct a (subVec (numCols nnc n) v Eg dg (Lv nnc g)) =
        s * scalarProduct a (Lv nnc (Fg v Eg dg g))) := by
    intro g
    by_cases hg : g ∈ gs
    · obtain ⟨s, h1, h2, _, _, h3⟩ := genRow_factor nnc n v Eg dg g (hgs g hg) D.hEg D.hv
      exact ⟨s, fun _ => ⟨h1, h2, h3⟩⟩
    · exact ⟨0, fun h => absurd h hg⟩
  choose σ hσ using hex
  have hvN := D.hvN
  have hκ : 0 < dc * dg := mul_pos D.hdc D.hdg
  -- abbreviations
  obtain ⟨rows, hrows⟩ : ∃ rows, rows = gs.eraseIdx j := ⟨_, rfl⟩
  rw [← hrows] at hsub hlen hnn hid ⊢
  obtain ⟨P, hP⟩ : ∃ P, P = (rows.map fun r => σ r * σ r).prod := ⟨_, rfl⟩
  have hPpos : 0 < P := by rw [hP]; exact prod_sq_pos rows σ (fun r hr => (hσ r (hsub r hr)).1)
  have hq : ∀ r ∈ rows, (P / σ r) * σ r = P := fun r hr =>
    Int.ediv_mul_cancel (by rw [hP]; exact dvd_prod_sq rows σ r hr)
  have hm1 : ((rows.map (Fg v Eg dg)).map (toL nnc)).length = rows.length := by simp
  have hm2 : (rows.map (toL nnc)).length = rows.length := by simp
  rw [hm1] at hid
  have sj_pos : 0 < σ (gs.getD j default) := (hσ _ hgj).2.1 hjl
  have hLj : (Lv nnc (gs.getD j default)).length ≤ numCols nnc n := by
    rw [Lv_length nnc n _ (hgs _ hgj)]
  -- the identity between the images under `A`
  have hA : ∀ c : Vec, den * P * scalarProduct c (subVec (numCols nnc n) v Eg dg (Lv nnc (gs.getD j default))) =
      ((List.range rows.length).map fun i =>
        (coef.getD i 0 * σ (gs.getD j default) * (P / σ (rows.getD i default))) *
          scalarProduct c (subVec (numCols nnc n) v Eg dg (Lv nnc (rows.getD i default)))).sum := by
    intro c
    rw [(hσ _ hgj).2.2 c]
    have := hid c
    rw [toL_v] at this
    calc den * P * (σ (gs.getD j default) * scalarProduct c (Lv nnc (Fg v Eg dg (gs.getD j default))))
        = (P * σ (gs.getD j default)) * (den * scalarProduct c (Lv nnc (Fg v Eg dg (gs.getD j default)))) := by
          ring
      _ = _ := by
          rw [this, sum_mul_left]
          apply sum_map_congr
          intro i hi
          have hi' : i < rows.length := List.mem_range.mp hi
          have hri := getD_mem rows i hi'
          rw [getD_map_map nnc rows _ i hi', toL_v, (hσ _ (hsub _ hri)).2.2 c]
          have e := hq _ hri
          linear_combination (-(coef.getD i 0 * σ (gs.getD j default) *
            scalarProduct c (Lv nnc (Fg v Eg dg (rows.getD i default))))) * e
  -- pushed through `B`
  have hB := push_subVec (numCols nnc n) v Ec dc hvN
    (subVec (numCols nnc n) v Eg dg (Lv nnc (gs.getD j default)))
    (fun i => subVec (numCols nnc n) v Eg dg (Lv nnc (rows.getD i default))) rows.length (den * P)
    (fun i => coef.getD i 0 * σ (gs.getD j default) * (P / σ (rows.getD i default)))
    (by rw [subVec_length]) (fun i _ => by rw [subVec_length]) hA
  refine ⟨den * P * (dc * dg),
    (List.range rows.length).map (fun i =>
      coef.getD i 0 * σ (gs.getD j default) * (P / σ (rows.getD i default)) * (dc * dg)),
    mul_pos (mul_pos hden hPpos) hκ, by simp, ?_, ?_⟩
  · intro i hi hle
    have hi' : i < rows.length := by rw [← hm2]; exact hi
    have hri := getD_mem rows i hi'
    have hrg := hsub _ hri
    have e2 : (rows.map (toL nnc))[i] = toL nnc (rows.getD i default) := by
      rw [← getD_map_toL nnc rows i hi', List.getD_eq_getElem?_getD, List.getElem?_eq_getElem hi]; rfl
    rw [e2, toL_le] at hle
    have e1 : ((rows.map (Fg v Eg dg)).map (toL nnc))[i]'(by rw [hm1]; exact hi') =
        toL nnc (Fg v Eg dg (rows.getD i default)) := by
      rw [← getD_map_map nnc rows _ i hi', List.getD_eq_getElem?_getD,
        List.getElem?_eq_getElem (by rw [hm1]; exact hi')]; rfl
    have hc0 := hnn i (by rw [hm1]; exact hi') (by rw [e1, toL_le, (Fg_eq D _ (hgs _ hrg)).1]; exact hle)
    have hsi : 0 < σ (rows.getD i default) := (hσ _ hrg).2.1 hle
    have hqi : 0 < P / σ (rows.getD i default) := by
      have e := hq _ hri
      by_contra hneg'
      have hneg := not_lt.mp hneg'
      have : P / σ (rows.getD i default) * σ (rows.getD i default) ≤ 0 :=
        mul_nonpos_of_nonpos_of_nonneg hneg (le_of_lt hsi)
      omega
    have hget : (List.map (fun i => coef.getD i 0 * σ (gs.getD j default) * (P / σ (rows.getD i default)) *
        (dc * dg)) (List.range rows.length)).getD i 0 =
        coef.getD i 0 * σ (gs.getD j default) * (P / σ (rows.getD i default)) * (dc * dg) := by
      simp [List.getD_eq_getElem?_getD, hi']
    rw [hget]
    exact mul_nonneg (mul_nonneg (mul_nonneg hc0 (le_of_lt sj_pos)) (le_of_lt hqi)) (le_of_lt hκ)
  · intro c
    rw [hm2, toL_v]
    have h1 := hB c
    rw [subVec_comp (numCols nnc n) v Ec dc Eg dg hvN D.hBA c _ hLj] at h1
    calc den * P * (dc * dg) * scalarProduct c (Lv nnc (gs.getD j default))
        = den * P * (dc * dg * scalarProduct c (Lv nnc (gs.getD j default))) := by ring
      _ = _ := by
          rw [h1]
          apply sum_map_congr
          intro i hi
          have hi' : i < rows.length := List.mem_range.mp hi
          have hri := getD_mem rows i hi'
          have hLi : (Lv nnc (rows.getD i default)).length ≤ numCols nnc n := by
            rw [Lv_length nnc n _ (hgs _ (hsub _ hri))]
          have hget : (List.map (fun i => coef.getD i 0 * σ (gs.getD j default) *
              (P / σ (rows.getD i default)) * (dc * dg)) (List.range rows.length)).getD i 0 =
              coef.getD i 0 * σ (gs.getD j default) * (P / σ (rows.getD i default)) * (dc * dg) := by
            simp [List.getD_eq_getElem?_getD, hi']
          rw [hget, getD_map_toL nnc rows i hi', toL_v,
            subVec_comp (numCols nnc n) v Ec dc Eg dg hvN D.hBA c _ hLi]
          ring

end PPLV.PolyFull
