import PPLV.PolyFull.ProofsOps6f

/-!
# Integration stage — `add_space_dimensions_and_project` refines `RefPoly.addDimsProject`
-/
namespace PPLV.PolyFull
open PPLV.Lin PPLV.PolyOps
open PPLV.Conv (holdsAll holds)

/-- the result of the row-level operator on a non-empty polyhedron of positive dimension, in one form -/
def projPoly (p : Poly) (m : Nat) : Poly :=
  { p with dim := p.dim + m,
           st := { p.st with satG := p.st.satG || (p.st.cUp && p.st.gUp) },
           cs := if p.st.cUp = true then p.cs.addUniverseRows p.nnc p.dim m else p.cs,
           gs := if p.st.gUp = true then p.gs.addZeroCols m else p.gs }

theorem project_eq (p : Poly) (m : Nat) (hm : m ≠ 0) (hem : p.st.empty = false) (hd : p.dim ≠ 0) (hp : p.WF) :
    p.add_space_dimensions_and_project m = projPoly p m := by
  have hup := hp.some_up hem (Nat.pos_of_ne_zero hd)
  obtain ⟨nnc, dim, ⟨e, cu, gu, cm, gm, sc, sg, cp, gp⟩, cs, gs⟩ := p
  simp only at hem hd hup
  subst hem
  unfold Poly.add_space_dimensions_and_project projPoly
  cases cu <;> cases gu <;> simp_all

set_option maxRecDepth 4000 in
theorem legalZ_project : ∀ (e cu gu cm gm sc sg cp gp : Bool),
    legalZ ⟨e, cu, gu, cm, gm, sc, sg, cp, gp⟩ false = true →
    legalZ ⟨e, cu, gu, cm, gm, sc, sg || (cu && gu), cp, gp⟩ false = true := by
  decide

theorem legal_project {s : Status} {d d' : Nat} (hd : d ≠ 0) (hd' : d' ≠ 0) (h : statusLegalB s d = true) :
    statusLegalB { s with satG := s.satG || (s.cUp && s.gUp) } d' = true := by
  obtain ⟨e, cu, gu, cm, gm, sc, sg, cp, gp⟩ := s
  rw [statusLegalB_eq, show (d == 0) = false by simpa using hd] at h
  rw [statusLegalB_eq, show (d' == 0) = false by simpa using hd']
  exact legalZ_project _ _ _ _ _ _ _ _ _ h

theorem InvNoEng_project (x : FPoly) (S S' : Set Val) (hx : x.Inv S) (m : Nat) (hm : 0 < m)
    (hem : x.p.st.empty = false) (hd : x.p.dim ≠ 0) (hden : (projPoly x.p m).Denotes S') (a b : BitMat) :
    (⟨projPoly x.p m, a, b⟩ : FPoly).InvNoEng S' := by
  refine ⟨⟨?_, ?_, ?_, hx.wf.pend_c, hx.wf.pend_g, hx.wf.pend_one,
      fun _ _ => hx.wf.some_up hem (Nat.pos_of_ne_zero hd), ?_⟩, hden, ?_, ?_, ?_, ?_, ?_, ?_⟩
  · intro _ hc r hr
    have hc' : x.p.st.cUp = true := hc
    have hr' : r ∈ (if x.p.st.cUp = true then x.p.cs.addUniverseRows x.p.nnc x.p.dim m else x.p.cs).rows := hr
    rw [if_pos hc'] at hr'
    exact addUniverseRows_cf_length _ _ _ _ hm (hx.wf.cs_len hem hc') r hr'
  · intro _ hg r hr
    have hg' : x.p.st.gUp = true := hg
    have hr' : r ∈ (if x.p.st.gUp = true then x.p.gs.addZeroCols m else x.p.gs).rows := hr
    rw [if_pos hg'] at hr'
    obtain ⟨r0, hr0, rfl⟩ := List.mem_map.mp hr'
    exact (addZeroCols_genWF _ _ m r0 (hx.wf.gs_wf hem hg' r0 hr0)).1
  · intro _ hg
    have hg' : x.p.st.gUp = true := hg
    show ∃ r ∈ (if x.p.st.gUp = true then x.p.gs.addZeroCols m else x.p.gs).rows, r.isPoint x.p.nnc
    rw [if_pos hg']
    obtain ⟨r0, hr0, hp0⟩ := hx.wf.gs_pt hem hg'
    exact ⟨r0.addZeroCols m, List.mem_map.mpr ⟨r0, hr0, rfl⟩,
      (addZeroCols_genWF _ _ m r0 (hx.wf.gs_wf hem hg' r0 hr0)).2 hp0⟩
  · intro h
    have : x.p.dim + m = 0 := h
    omega
  · exact legal_project hd (by show x.p.dim + m ≠ 0; omega) hx.legal
  · intro _ hc
    have hc' : x.p.st.cUp = true := hc
    show (if x.p.st.cUp = true then x.p.cs.addUniverseRows x.p.nnc x.p.dim m else x.p.cs).firstPending ≤
        (if x.p.st.cUp = true then x.p.cs.addUniverseRows x.p.nnc x.p.dim m else x.p.cs).rows.length ∧
      (x.p.st.cPend = false → (if x.p.st.cUp = true then x.p.cs.addUniverseRows x.p.nnc x.p.dim m else x.p.cs).firstPending =
        (if x.p.st.cUp = true then x.p.cs.addUniverseRows x.p.nnc x.p.dim m else x.p.cs).rows.length)
    rw [if_pos hc', (addUniverseRows_fp _ _ _ _ hm).1, (addUniverseRows_fp _ _ _ _ hm).2]
    have := hx.fpC hem hc'
    exact ⟨by omega, fun h => by have := this.2 h; omega⟩
  · intro _ hg
    have hg' : x.p.st.gUp = true := hg
    show (if x.p.st.gUp = true then x.p.gs.addZeroCols m else x.p.gs).firstPending ≤
        (if x.p.st.gUp = true then x.p.gs.addZeroCols m else x.p.gs).rows.length ∧
      (x.p.st.gPend = false → (if x.p.st.gUp = true then x.p.gs.addZeroCols m else x.p.gs).firstPending =
        (if x.p.st.gUp = true then x.p.gs.addZeroCols m else x.p.gs).rows.length)
    rw [if_pos hg']
    show x.p.gs.firstPending ≤ (x.p.gs.rows.map _).length ∧ (_ → x.p.gs.firstPending = (x.p.gs.rows.map _).length)
    rw [List.length_map]
    exact hx.fpG hem hg'
  · intro _ hc
    have hc' : x.p.st.cUp = true := hc
    show LowLevel x.p.nnc (x.p.dim + m) (if x.p.st.cUp = true then x.p.cs.addUniverseRows x.p.nnc x.p.dim m else x.p.cs).rows
    rw [if_pos hc']
    exact LowLevel.mono (fun r hr => (mem_addUniverseRows _ _ _ _ hm r).mpr (Or.inr hr))
      (LowLevel_addZeroCols _ _ _ _ (hx.wf.cs_len hem hc') (hx.low hem hc'))
  · intro _ hcp
    have hcp' : x.p.st.cPend = true := hcp
    obtain ⟨hc', hg'⟩ := hx.wf.pend_c hcp'
    show genSem x.p.nnc (x.p.dim + m) (if x.p.st.gUp = true then x.p.gs.addZeroCols m else x.p.gs).rows =
      conSem x.p.nnc ((if x.p.st.cUp = true then x.p.cs.addUniverseRows x.p.nnc x.p.dim m else x.p.cs).rows.take
        (if x.p.st.cUp = true then x.p.cs.addUniverseRows x.p.nnc x.p.dim m else x.p.cs).firstPending)
    rw [if_pos hc', if_pos hg', addUniverseRows_take _ _ _ _ hm, conSem_addUniverseRows _ _ _ _ hm]
    show genSem x.p.nnc (x.p.dim + m) (x.p.gs.rows.map (Row.addZeroCols m)) = _
    rw [genSem_addZeroCols _ _ _ _ (hx.wf.gs_wf hem hg')]
    exact congrArg _ (hx.denNPc hem hcp')
  · intro _ hgp
    have hgp' : x.p.st.gPend = true := hgp
    obtain ⟨hc', hg'⟩ := hx.wf.pend_g hgp'
    show conSem x.p.nnc (if x.p.st.cUp = true then x.p.cs.addUniverseRows x.p.nnc x.p.dim m else x.p.cs).rows =
      genSem x.p.nnc (x.p.dim + m) ((if x.p.st.gUp = true then x.p.gs.addZeroCols m else x.p.gs).rows.take
        (if x.p.st.gUp = true then x.p.gs.addZeroCols m else x.p.gs).firstPending)
    rw [if_pos hc', if_pos hg', conSem_addUniverseRows _ _ _ _ hm]
    show _ = genSem x.p.nnc (x.p.dim + m) ((x.p.gs.rows.map (Row.addZeroCols m)).take x.p.gs.firstPending)
    rw [← List.map_take,
      genSem_addZeroCols _ _ _ _ (fun r hr => hx.wf.gs_wf hem hg' r (List.mem_of_mem_take hr))]
    exact congrArg _ (hx.denNPg hem hgp')

theorem project_empty_eq (p : Poly) (m : Nat) (hm : m ≠ 0) (hem : p.st.empty = true) :
    p.add_space_dimensions_and_project m = { p with dim := p.dim + m, cs := Sys.clear } := by
  simp [Poly.add_space_dimensions_and_project, hm, hem]

/-- the origin of `ℚ^m`: what a zero-dimensional universe becomes -/
def originRows (nnc : Bool) (m : Nat) : List Row :=
  (if nnc then [⟨false, 1, List.replicate m 0, 0⟩] else []) ++
    [⟨false, 1, List.replicate m 0, if nnc then 1 else 0⟩]

def projZeroPoly (p : Poly) (m : Nat) : Poly :=
  { p with dim := m, st := { p.st with gUp := true, gMin := true },
           gs := ⟨originRows p.nnc m, (originRows p.nnc m).length, p.gs.sorted⟩ }

theorem project_zero_eq (p : Poly) (m : Nat) (hm : m ≠ 0) (hem : p.st.empty = false) (hd : p.dim = 0) :
    p.add_space_dimensions_and_project m = projZeroPoly p m := by
  simp [Poly.add_space_dimensions_and_project, projZeroPoly, originRows, hm, hem, hd]

set_option maxRecDepth 4000 in
theorem legalZ_zero_st : ∀ (e cu gu cm gm sc sg cp gp : Bool),
    legalZ ⟨e, cu, gu, cm, gm, sc, sg, cp, gp⟩ true = true → e = false →
    (⟨e, cu, gu, cm, gm, sc, sg, cp, gp⟩ : Status) = Status.zeroDimUniv := by
  decide

theorem legal_zero_st {s : Status} (h : statusLegalB s 0 = true) (he : s.empty = false) :
    s = Status.zeroDimUniv := by
  obtain ⟨e, cu, gu, cm, gm, sc, sg, cp, gp⟩ := s
  exact legalZ_zero_st _ _ _ _ _ _ _ _ _ h he

theorem Inv_project_zero (x : FPoly) (S S' : Set Val) (hx : x.Inv S) (m : Nat) (hm : m ≠ 0)
    (hem : x.p.st.empty = false) (hd : x.p.dim = 0)
    (hden : (projZeroPoly x.p m).Denotes S') :
    ({ x with p := projZeroPoly x.p m } : FPoly).Inv S' := by
  have hst : x.p.st = Status.zeroDimUniv := legal_zero_st (by rw [← hd]; exact hx.legal) hem
  have hst' : (projZeroPoly x.p m).st = { Status.zeroDimUniv with gUp := true, gMin := true } := by
    show ({ x.p.st with gUp := true, gMin := true } : Status) = _
    rw [hst]
  refine Inv_gensOnly _ S' ⟨fun _ h => ?_, fun _ _ r hr => ?_, fun _ _ => ?_, fun h => ?_, fun h => ?_, fun h => ?_,
      fun _ _ => Or.inr rfl, fun h => absurd h hm⟩ hden ?_ ?_ ?_ ?_ ?_ (fun _ => rfl)
  · rw [show ({ x with p := projZeroPoly x.p m } : FPoly).p.st = _ from hst'] at h; cases h
  · have hr' : r ∈ originRows x.p.nnc m := hr
    unfold originRows at hr'
    show r.genWF x.p.nnc m
    cases hnc : x.p.nnc <;> rw [hnc] at hr'
    · simp only [Bool.false_eq_true, if_false, List.nil_append, List.mem_singleton] at hr'
      subst hr'
      simp [Row.genWF]
    · simp only [if_true, List.cons_append, List.nil_append, List.mem_cons, List.not_mem_nil, or_false] at hr'
      rcases hr' with rfl | rfl <;> simp [Row.genWF]
  · refine ⟨⟨false, 1, List.replicate m 0, if x.p.nnc then 1 else 0⟩, ?_, ?_⟩
    · show _ ∈ originRows x.p.nnc m
      simp [originRows]
    · show Row.isPoint x.p.nnc _
      unfold Row.isPoint
      refine ⟨rfl, by norm_num, fun h => ?_⟩
      simp [h]
  · rw [show ({ x with p := projZeroPoly x.p m } : FPoly).p.st = _ from hst'] at h; cases h
  · rw [show ({ x with p := projZeroPoly x.p m } : FPoly).p.st = _ from hst'] at h; cases h
  · rw [show ({ x with p := projZeroPoly x.p m } : FPoly).p.st = _ from hst'] at h; cases h.1
  · show statusLegalB (projZeroPoly x.p m).st m = true
    rw [hst', statusLegalB_eq, show (m == 0) = false by simpa using hm]; rfl
  · show (projZeroPoly x.p m).st.cUp = false
    rw [hst']; rfl
  · show (projZeroPoly x.p m).st.cMin = false
    rw [hst']; rfl
  · show (projZeroPoly x.p m).st.cPend = false
    rw [hst']; rfl
  · show (projZeroPoly x.p m).st.gPend = false
    rw [hst']; rfl

/-- the proof behind the two theorems below: the engine clause of the result is asked for only
    when both descriptions of the receiver are up to date -/
theorem addSpaceDimensionsAndProject_core (x : FPoly) (ref : RefPoly) (m : Nat)
    (hn : ref.n = x.p.dim) (hnnc : ref.nnc = x.p.nnc) (hwf : WF ref.n ref.cs)
    (hx : x.Inv (sem ref.cs))
    (hEng : x.p.st.cUp = true → x.p.st.gUp = true → (x.addSpaceDimensionsAndProject m).p.st.empty = false →
      (x.addSpaceDimensionsAndProject m).p.st.canPend = true →
      EnginePair (x.addSpaceDimensionsAndProject m).p.nnc (x.addSpaceDimensionsAndProject m).p.dim
        (x.addSpaceDimensionsAndProject m).npC (x.addSpaceDimensionsAndProject m).npG
        (x.addSpaceDimensionsAndProject m).p.st.satC (x.addSpaceDimensionsAndProject m).p.st.satG
        (x.addSpaceDimensionsAndProject m).satC (x.addSpaceDimensionsAndProject m).satG) :
    (x.addSpaceDimensionsAndProject m).Inv (sem (ref.addDimsProject m).cs) ∧
    (x.addSpaceDimensionsAndProject m).p.nnc = x.p.nnc ∧
    (x.addSpaceDimensionsAndProject m).p.dim = x.p.dim + m := by
  have hD := add_space_dimensions_and_project_rows_correct x.p m ref hn hnnc hwf hx.wf hx.den
  revert hEng
  unfold FPoly.addSpaceDimensionsAndProject FPoly.st FPoly.dim FPoly.nnc
  by_cases hm : m = 0
  · subst hm
    intro _
    exact ⟨hx.change (by simpa [Poly.add_space_dimensions_and_project] using hD), rfl, rfl⟩
  have hm0 : (m == 0) = false := by simpa using hm
  have hmpos : 0 < m := Nat.pos_of_ne_zero hm
  rw [hm0]
  simp only [Bool.false_eq_true, if_false]
  cases hem : x.p.st.empty
  · by_cases hd : x.p.dim = 0
    · have hd0 : (x.p.dim == 0) = true := by simpa using hd
      rw [hd0]
      simp only [Bool.or_true, if_true]
      intro _
      rw [project_zero_eq x.p m hm hem hd] at hD ⊢
      exact ⟨Inv_project_zero x _ _ hx m hm hem hd hD, rfl, by show m = x.p.dim + m; omega⟩
    · have hd0 : (x.p.dim == 0) = false := by simpa using hd
      rw [hd0]
      simp only [Bool.or_self, Bool.false_eq_true, if_false]
      rw [project_eq x.p m hm hem hd hx.wf] at hD ⊢
      have hfpC : ∀ a b, (⟨projPoly x.p m, a, b⟩ : FPoly).p.st.empty = false →
          (⟨projPoly x.p m, a, b⟩ : FPoly).p.st.cUp = true →
          (FPoly.addUniverseRowsExact false x.p.nnc x.p.dim m x.p.cs).firstPending ≤
            (FPoly.addUniverseRowsExact false x.p.nnc x.p.dim m x.p.cs).rows.length ∧
          ((⟨projPoly x.p m, a, b⟩ : FPoly).p.st.cPend = false →
            (FPoly.addUniverseRowsExact false x.p.nnc x.p.dim m x.p.cs).firstPending =
              (FPoly.addUniverseRowsExact false x.p.nnc x.p.dim m x.p.cs).rows.length) := by
        intro a b _ hc
        have hc' : x.p.st.cUp = true := hc
        rw [(addUniverseRowsExact_fp _ _ _ _ _ hmpos).1, (addUniverseRowsExact_fp _ _ _ _ _ hmpos).2]
        have := hx.fpC hem hc'
        exact ⟨by omega, fun h => by have := this.2 h; omega⟩
      cases hcu : x.p.st.cUp
      · simp only [Bool.false_and, Bool.false_eq_true, if_false]
        intro _
        have h0 := InvNoEng_project x _ _ hx m hmpos hem hd hD x.satC x.satG
        exact ⟨h0.toInv (EngClause_of_not_both _ h0 (Or.inl hcu)), rfl, rfl⟩
      · cases hgu : x.p.st.gUp
        · simp only [Bool.and_false, Bool.false_eq_true, if_false, if_true]
          intro _
          have h0 := InvNoEng_refineC _ _ _ (InvNoEng_project x _ _ hx m hmpos hem hd hD x.satC x.satG) (hfpC _ _)
          exact ⟨h0.toInv (EngClause_of_not_both _ h0 (Or.inr hgu)), rfl, rfl⟩
        · simp only [Bool.and_self, if_true]
          intro hEng
          have h0 := InvNoEng_project x _ _ hx m hmpos hem hd hD
            (FPoly.satAddDims (if (!x.p.st.satG) = true then x.updateSatG else x).satG m).2
            (FPoly.satAddDims (if (!x.p.st.satG) = true then x.updateSatG else x).satG m).1
          exact ⟨(InvNoEng_refineC _ _ _ h0 (hfpC _ _)).toInv (hEng trivial trivial), rfl, rfl⟩
  · simp only [Bool.true_or, if_true]
    intro _
    rw [project_empty_eq x.p m hm hem] at hD ⊢
    exact ⟨Inv_embed_empty x _ _ hx m hm hem hD, rfl, rfl⟩

/-- **`Polyhedron::add_space_dimensions_and_project(m)`, the whole object**: the receiver denotes
    `RefPoly.addDimsProject` and keeps the invariant.  PARTIAL: `hEng` assumes the clause `eng` of
    `FPoly.Inv` for the result — needed only when both descriptions were up to date (the generator rows
    get `m` zero columns, `m` equalities are put in front of the constraints, `m` empty rows in front of
    `sat_g`, `sat_c` is its transpose, and `update_sat_g()` may have run, of which `GlueFacts` says
    nothing); in every other case the clause is vacuous and `hEng` is not used.  Every other clause of
    the invariant is proved. -/
theorem addSpaceDimensionsAndProject_refines_partial (_G : GlueFacts) (x : FPoly) (ref : RefPoly) (m : Nat)
    (hn : ref.n = x.p.dim) (hnnc : ref.nnc = x.p.nnc) (hwf : WF ref.n ref.cs)
    (hx : x.Inv (sem ref.cs))
    (hEng : (x.addSpaceDimensionsAndProject m).p.st.empty = false →
      (x.addSpaceDimensionsAndProject m).p.st.canPend = true →
      EnginePair (x.addSpaceDimensionsAndProject m).p.nnc (x.addSpaceDimensionsAndProject m).p.dim
        (x.addSpaceDimensionsAndProject m).npC (x.addSpaceDimensionsAndProject m).npG
        (x.addSpaceDimensionsAndProject m).p.st.satC (x.addSpaceDimensionsAndProject m).p.st.satG
        (x.addSpaceDimensionsAndProject m).satC (x.addSpaceDimensionsAndProject m).satG) :
    (x.addSpaceDimensionsAndProject m).Inv (sem (ref.addDimsProject m).cs) ∧
    (x.addSpaceDimensionsAndProject m).p.nnc = x.p.nnc ∧
    (x.addSpaceDimensionsAndProject m).p.dim = x.p.dim + m :=
  addSpaceDimensionsAndProject_core x ref m hn hnnc hwf hx (fun _ _ => hEng)

/-- the same, FULLY proved (no `hEng`), for a receiver that does not hold both descriptions (this
    includes a receiver marked empty and the zero-dimensional universe) -/
theorem addSpaceDimensionsAndProject_refines_notBothUp (_G : GlueFacts) (x : FPoly) (ref : RefPoly) (m : Nat)
    (hn : ref.n = x.p.dim) (hnnc : ref.nnc = x.p.nnc) (hwf : WF ref.n ref.cs)
    (hx : x.Inv (sem ref.cs)) (hnb : (x.p.st.cUp && x.p.st.gUp) = false) :
    (x.addSpaceDimensionsAndProject m).Inv (sem (ref.addDimsProject m).cs) ∧
    (x.addSpaceDimensionsAndProject m).p.nnc = x.p.nnc ∧
    (x.addSpaceDimensionsAndProject m).p.dim = x.p.dim + m :=
  addSpaceDimensionsAndProject_core x ref m hn hnnc hwf hx (fun hc hg => by rw [hc, hg] at hnb; cases hnb)

end PPLV.PolyFull
