import PPLV.PolyFull.ProofsOps6g
import PPLV.PolyOps.ProofsDims7

/-!
# Integration stage — `concatenate_assign`: the two main branches
-/
namespace PPLV.PolyFull
open PPLV.Lin PPLV.PolyOps
open PPLV.Conv (holdsAll holds)

theorem legal_dim_change {s : Status} {d d' : Nat} (hd : d ≠ 0) (hd' : d' ≠ 0)
    (h : statusLegalB s d = true) : statusLegalB s d' = true := by
  rw [statusLegalB_eq, show (d == 0) = false by simpa using hd] at h
  rw [statusLegalB_eq, show (d' == 0) = false by simpa using hd']
  exact h

/-- an object that holds only its constraints, nothing pending, not minimized -/
theorem Inv_consOnly (X : FPoly) (S : Set Val) (hwf : X.p.WF) (hden : X.p.Denotes S)
    (hl : statusLegalB X.p.st X.p.dim = true) (hg : X.p.st.gUp = false) (hgm : X.p.st.gMin = false)
    (hcp : X.p.st.cPend = false) (hgp : X.p.st.gPend = false)
    (hfp : X.p.st.cUp = true → X.p.cs.firstPending = X.p.cs.rows.length)
    (hlow : X.p.st.cUp = true → LowLevel X.p.nnc X.p.dim X.p.cs.rows) : X.Inv S := by
  refine ⟨hwf, hden, hl, fun _ hc => ⟨le_of_eq (hfp hc), fun _ => hfp hc⟩, fun _ h => (by rw [hg] at h; cases h),
    fun _ hc => hlow hc, fun _ h => (by rw [hcp] at h; cases h),
    fun _ h => (by rw [hgp] at h; cases h), fun _ h => ?_⟩
  simp [Status.canPend, hgm] at h

theorem foldl_insertRow_fp (gen nnc : Bool) (l : List Row) (s : Sys) (h : s.firstPending = s.rows.length) :
    (l.foldl (fun s r => s.insertRow gen nnc r) s).firstPending =
      (l.foldl (fun s r => s.insertRow gen nnc r) s).rows.length := by
  induction l generalizing s with
  | nil => exact h
  | cons a t ih => exact ih _ rfl

/-- the result of the row-level `concatenate_assign`, receiver without / with pending capability -/
def concatNonpendPoly (p y : Poly) : Poly :=
  { p with dim := p.dim + y.dim,
           cs := (p.cs.addZeroCols y.dim).insertSys (y.cs.rows.map (Row.shiftInto p.dim)),
           st := ({ p.st with cMin := false }).clearGUp }

def concatPendPoly (p y : Poly) : Poly :=
  { p with dim := p.dim + y.dim,
           cs := (p.cs.addZeroCols y.dim).insertPendingSys (y.cs.rows.map (Row.shiftInto p.dim)),
           gs := p.gs.addUniverseRows p.nnc p.dim y.dim,
           st := { p.st with satC := true, satG := false, cPend := true } }

theorem concat_nonpend_eq (p y : Poly) (hex : p.st.empty = false) (hey : y.st.empty = false)
    (hdx : p.dim ≠ 0) (hdy : y.dim ≠ 0) (hcx : p.st.cUp = true) (hgx : p.st.gPend = false)
    (hcy : y.st.cUp = true) (hgy : y.st.gPend = false) (hcp : p.st.canPend = false) :
    p.concatenate_assign y =
      some (concatNonpendPoly p y) := by
  simp [Poly.concatenate_assign, concatNonpendPoly, hex, hey, hdx, hdy, hcx, hgx, hcy, hgy, hcp]

theorem concat_pend_eq (p y : Poly) (hex : p.st.empty = false) (hey : y.st.empty = false)
    (hdx : p.dim ≠ 0) (hdy : y.dim ≠ 0) (hcx : p.st.cUp = true) (hgx : p.st.gPend = false)
    (hcy : y.st.cUp = true) (hgy : y.st.gPend = false) (hcp : p.st.canPend = true) :
    p.concatenate_assign y =
      some (concatPendPoly p y) := by
  simp [Poly.concatenate_assign, concatPendPoly, hex, hey, hdx, hdy, hcx, hgx, hcy, hgy, hcp]

theorem concat_cs_len (x y : Poly) (hx : ∀ r ∈ x.cs.rows, r.cf.length = x.dim)
    (hy : ∀ r ∈ y.cs.rows, r.cf.length = y.dim) :
    ∀ r ∈ x.cs.rows.map (Row.addZeroCols y.dim) ++ y.cs.rows.map (Row.shiftInto x.dim),
      r.cf.length = x.dim + y.dim := by
  intro r hr
  rcases List.mem_append.mp hr with h | h
  · obtain ⟨r0, hr0, rfl⟩ := List.mem_map.mp h
    show (r0.cf ++ List.replicate y.dim 0).length = _
    rw [List.length_append, List.length_replicate, hx r0 hr0]
  · obtain ⟨r0, hr0, rfl⟩ := List.mem_map.mp h
    show (List.replicate x.dim 0 ++ r0.cf).length = _
    rw [List.length_append, List.length_replicate, hy r0 hr0]

/-- the branch of `concatenate_assign` on a receiver that cannot have pending rows: fully proved -/
theorem concat_nonpend (x y : FPoly) (S Sy S' : Set Val) (hx : x.Inv S) (hy : y.Inv Sy)
    (hex : x.p.st.empty = false) (hey : y.p.st.empty = false) (hdx : x.p.dim ≠ 0) (hdy : y.p.dim ≠ 0)
    (hcx : x.p.st.cUp = true) (hcy : y.p.st.cUp = true)
    (hcp : x.p.st.canPend = false) (exact : Sys) (hfp : exact.firstPending = exact.rows.length)
    (hden : (concatNonpendPoly x.p y.p).Denotes S') :
    ({ x with p := { concatNonpendPoly x.p y.p with cs := (concatNonpendPoly x.p y.p).cs.refineBy exact } } : FPoly).Inv S' := by
  have hnp := legal_not_canPend hx.legal hcp
  have h0 : ({ x with p := concatNonpendPoly x.p y.p } : FPoly).Inv S' := by
    refine Inv_consOnly _ S' ⟨fun _ _ => concat_cs_len x.p y.p (hx.wf.cs_len hex hcx) (hy.wf.cs_len hey hcy),
        fun _ h => (by cases h), fun _ h => (by cases h), fun h => ?_, fun h => (by cases h), fun h => (by cases h.2),
        fun _ _ => Or.inl hcx, fun h => ?_⟩ hden ?_ rfl rfl hnp.1 rfl (fun _ => ?_) (fun _ => ?_)
    · rw [show x.p.st.cPend = true from h] at hnp; cases hnp.1
    · have : x.p.dim + y.p.dim = 0 := h
      omega
    · exact legal_dim_change hdx (by show x.p.dim + y.p.dim ≠ 0; omega) (legal_nonpendC hx.legal hex hcx hcp)
    · show (x.p.cs.rows.map _).length + (y.p.cs.rows.map _).length = (x.p.cs.rows.map _ ++ y.p.cs.rows.map _).length
      rw [List.length_append]
    · exact LowLevel.mono (fun r hr => List.mem_append_left _ hr)
        (LowLevel_addZeroCols _ _ _ _ (hx.wf.cs_len hex hcx) (hx.low hex hcx))
  refine Inv_refineC _ S' exact h0 (fun _ _ => ⟨le_of_eq hfp, fun _ => hfp⟩) (fun _ h => ?_)
  simp [Status.canPend, Status.clearGUp, concatNonpendPoly] at h

set_option maxRecDepth 4000 in
theorem legalZ_concatPend : ∀ (e cu gu cm gm sc sg cp gp : Bool),
    legalZ ⟨e, cu, gu, cm, gm, sc, sg, cp, gp⟩ false = true → e = false → gp = false →
    (cm && gm && (sc || sg)) = true → legalZ ⟨e, cu, gu, cm, gm, true, false, true, gp⟩ false = true := by
  decide

theorem legal_concatPend {s : Status} {d d' : Nat} (hd : d ≠ 0) (hd' : d' ≠ 0) (h : statusLegalB s d = true)
    (he : s.empty = false) (hg : s.gPend = false) (hcp : s.canPend = true) :
    statusLegalB { s with satC := true, satG := false, cPend := true } d' = true := by
  obtain ⟨e, cu, gu, cm, gm, sc, sg, cp, gp⟩ := s
  rw [statusLegalB_eq, show (d == 0) = false by simpa using hd] at h
  rw [statusLegalB_eq, show (d' == 0) = false by simpa using hd']
  exact legalZ_concatPend _ _ _ _ _ _ _ _ _ h he hg hcp

/-- the branch of `concatenate_assign` on a receiver that can have pending rows: everything but `eng` -/
theorem concat_pend (x y : FPoly) (S Sy S' : Set Val) (hx : x.Inv S) (hy : y.Inv Sy)
    (hex : x.p.st.empty = false) (hey : y.p.st.empty = false) (hdx : x.p.dim ≠ 0) (hdy : y.p.dim ≠ 0)
    (hcx : x.p.st.cUp = true) (hgx : x.p.st.gPend = false) (hcy : y.p.st.cUp = true)
    (hcp : x.p.st.canPend = true) (a b : BitMat)
    (hden : (concatPendPoly x.p y.p).Denotes S') :
    (⟨concatPendPoly x.p y.p, a, b⟩ : FPoly).InvNoEng S' := by
  have hm : 0 < y.p.dim := Nat.pos_of_ne_zero hdy
  obtain ⟨_, hgu⟩ := legal_canPend_up hx.legal hcp
  have hfpC := hx.fpC hex hcx
  have hfpG := hx.fpG hex hgu
  refine ⟨⟨fun _ _ => concat_cs_len x.p y.p (hx.wf.cs_len hex hcx) (hy.wf.cs_len hey hcy),
      fun _ _ => addUniverseRows_genWF _ _ _ _ hm (hx.wf.gs_wf hex hgu),
      fun _ _ => addUniverseRows_pt _ _ _ _ hm (hx.wf.gs_pt hex hgu),
      fun _ => ⟨hcx, hgu⟩, fun h => ?_, fun h => ?_, fun _ _ => Or.inl hcx, fun h => ?_⟩, hden, ?_, ?_, ?_, ?_, ?_, ?_⟩
  · rw [show x.p.st.gPend = true from h] at hgx; cases hgx
  · rw [show x.p.st.gPend = true from h.2] at hgx; cases hgx
  · have : x.p.dim + y.p.dim = 0 := h
    omega
  · exact legal_concatPend hdx (by show x.p.dim + y.p.dim ≠ 0; omega) hx.legal hex hgx hcp
  · intro _ _
    refine ⟨?_, fun h => by cases h⟩
    show x.p.cs.firstPending ≤ (x.p.cs.rows.map _ ++ y.p.cs.rows.map _).length
    rw [List.length_append, List.length_map]
    have := hfpC.1
    omega
  · intro _ _
    show (x.p.gs.addUniverseRows x.p.nnc x.p.dim y.p.dim).firstPending ≤
        (x.p.gs.addUniverseRows x.p.nnc x.p.dim y.p.dim).rows.length ∧
      (x.p.st.gPend = false → (x.p.gs.addUniverseRows x.p.nnc x.p.dim y.p.dim).firstPending =
        (x.p.gs.addUniverseRows x.p.nnc x.p.dim y.p.dim).rows.length)
    rw [(addUniverseRows_fp _ _ _ _ hm).1, (addUniverseRows_fp _ _ _ _ hm).2]
    exact ⟨by have := hfpG.1; omega, fun _ => by have := hfpG.2 hgx; omega⟩
  · intro _ _
    exact LowLevel.mono (fun r hr => List.mem_append_left _ hr)
      (LowLevel_addZeroCols _ _ _ _ (hx.wf.cs_len hex hcx) (hx.low hex hcx))
  · intro _ _
    show genSem x.p.nnc (x.p.dim + y.p.dim) (x.p.gs.addUniverseRows x.p.nnc x.p.dim y.p.dim).rows =
      conSem x.p.nnc ((x.p.cs.rows.map (Row.addZeroCols y.p.dim) ++ y.p.cs.rows.map (Row.shiftInto x.p.dim)).take
        x.p.cs.firstPending)
    rw [List.take_append_of_le_length (by rw [List.length_map]; exact hfpC.1), ← List.map_take,
      conSem_addZeroCols, genSem_addUniverseRows _ _ _ _ hm (hx.wf.gs_wf hex hgu)]
    cases hcpd : x.p.st.cPend
    · rw [(hx.den.2 hex).2.1 hgu hcpd, ← (hx.den.2 hex).1 hcx hgx, hfpC.2 hcpd, List.take_length]
    · exact hx.denNPc hex hcpd
  · intro _ h
    rw [show x.p.st.gPend = true from h] at hgx; cases hgx

end PPLV.PolyFull
