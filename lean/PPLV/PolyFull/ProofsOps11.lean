import PPLV.PolyFull.ProofsOps11j

/-!
# Integration stage — `affine_image`, `affine_preimage`, `generalized_affine_image`: the final,
UNCONDITIONAL statements

The full model refines the reference operator and keeps the invariant, with no hypothesis about the
result: `low` (ProofsOps10), `denNPc` (ProofsOps9), `denNPg` (ProofsOps11a) and `eng` (ProofsOps11b–11j:
the rewritten non-pending parts are an `EnginePair` with the same saturation matrices, `minG` / `minL`
through the two-sided minimality `MinG2`).
-/
namespace PPLV.PolyFull
open PPLV.Lin PPLV.PolyOps

/-- **`Polyhedron::affine_image(var, expr, den)`, the whole object.** -/
theorem affineImage_refines (G : GlueFacts) (x : FPoly) (ref : RefPoly) (v : Nat) (e : LinExpr)
    (den : Int) (hn : ref.n = x.p.dim) (hnnc : ref.nnc = x.p.nnc) (hwf : WF ref.n ref.cs)
    (hv : v < x.p.dim) (he : e.coeffs.length = x.p.dim) (hden : den ≠ 0) (hx : x.Inv (sem ref.cs)) :
    (x.affineImage v e den).Inv (sem (ref.affineImage v e den).cs) ∧ x.SameShape (x.affineImage v e den) :=
  affineImage_refines_partial2 G x ref v e den hn hnnc hwf hv he hden hx
    (fun hc hex hR => affineImage_denNPg x _ v e den hx hv he hden hc hex hR)
    (fun hc hex hcan => affineImage_eng x _ v e den hx hv he hden hc hex hcan)

/-- **`Polyhedron::affine_preimage(var, expr, den)`, the whole object.** -/
theorem affinePreimage_refines (G : GlueFacts) (x : FPoly) (ref : RefPoly) (v : Nat) (e : LinExpr)
    (den : Int) (hn : ref.n = x.p.dim) (hnnc : ref.nnc = x.p.nnc) (hwf : WF ref.n ref.cs)
    (hv : v < x.p.dim) (he : e.coeffs.length = x.p.dim) (hden : den ≠ 0) (hx : x.Inv (sem ref.cs)) :
    (x.affinePreimage v e den).Inv (sem (ref.affinePreimage v e den).cs) ∧
      x.SameShape (x.affinePreimage v e den) :=
  affinePreimage_refines_partial2 G x ref v e den hn hnnc hwf hv he hden hx
    (fun hc hex hR => affinePreimage_denNPg x _ v e den hx hv he hden hc hex hR)
    (fun hc hex hcan => affinePreimage_eng x _ v e den hx hv he hden hc hex hcan)

/-- **`Polyhedron::generalized_affine_image(var, relsym, expr, den)`, `relsym ∈ {≤, =, ≥}`, the whole object.** -/
theorem generalizedAffineImage_refines (G : GlueFacts) (x : FPoly) (ref : RefPoly) (v : Nat) (r : Rel)
    (e : LinExpr) (den : Int) (hn : ref.n = x.p.dim) (hnnc : ref.nnc = x.p.nnc) (hwf : WF ref.n ref.cs)
    (hv : v < x.p.dim) (he : e.coeffs.length = x.p.dim) (hden : den ≠ 0) (hx : x.Inv (sem ref.cs))
    (hr : r = .le ∨ r = .eq ∨ r = .ge) :
    (x.generalizedAffineImage v r e den).Inv (sem (ref.genAffineImage v r e den).cs) ∧
      x.SameShape (x.generalizedAffineImage v r e den) :=
  generalizedAffineImage_of_affineImage G x ref v r e den hn hwf hv he hden hr
    (affineImage_refines G x ref v e den hn hnnc hwf hv he hden hx)

end PPLV.PolyFull
