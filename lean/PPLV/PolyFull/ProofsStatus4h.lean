import PPLV.PolyFull.ProofsStatus4g

/-!
# Integration stage — `affine_image(var, expr, den)` against `PolyStatus/Ops.lean`

Invertible case (`f.inv`): both systems rewritten in place, the status word untouched; `g.keep` / `g.aux` :=
the `sorted` flags `strong_normalize` leaves.  Non-invertible case: the preparation
(`remove_pending_to_obtain_generators` / `minimize`), then the generators rewritten and every constraint-side
flag dropped; on a legal status word.
-/
namespace PPLV.PolyFull
open PPLV.PolyOps PPLV.Lin
open PPLV.PolyStatus (PState Gh)

attribute [local simp] FPoly.st FPoly.nnc FPoly.dim FPoly.withSt FPoly.withCs FPoly.withGs

/-- `affine_image` after the preparation -/
def FPoly.aiPost (x1 : FPoly) (v : Nat) (e : LinExpr) (den : Int) : FPoly :=
  let q := x1.liftO (x1.p.affine_image v e den)
  if x1.st.empty || e.coeffs.getD v 0 != 0 then q
  else
    let (e', d') := if den > 0 then (e, den) else (exprNeg e, -den)
    let mapped := x1.p.gs.rows.map (genRowAffineImage v e' d')
    let rows := (swapRemove (fun (r : Row) => r.b == 0 && r.allHomZero) (mapped.length + 1) mapped 0).map Row.strongNormalize
    { q with p := { q.p with gs := q.p.gs.refineBy { q.p.gs with rows := rows, firstPending := rows.length } } }

theorem affineImage_eq (x : FPoly) (v : Nat) (e : LinExpr) (den : Int) :
    x.affineImage v e den =
      (if x.st.empty || e.coeffs.getD v 0 != 0 then x
       else x.prepGensDropPending (fun y => y.minimize.2)).aiPost v e den := rfl

theorem lift_self (y : FPoly) : y.lift y.p = y := by
  unfold FPoly.lift
  cases h : y.p.st.empty <;> simp [h]

theorem aiPost_empty (y : FPoly) (v : Nat) (e : LinExpr) (den : Int) (he : y.p.st.empty = true) :
    y.aiPost v e den = y := by
  unfold FPoly.aiPost
  simp [Poly.affine_image, he, FPoly.liftO, lift_self]

/-- the invertible case -/
theorem aiPost_inv (y : FPoly) (v : Nat) (e : LinExpr) (den : Int) (he : y.p.st.empty = false)
    (hi : (e.coeffs.getD v 0 != 0) = true) :
    (y.aiPost v e den).p.st = y.p.st ∧ (y.aiPost v e den).p.dim = y.p.dim ∧ (y.aiPost v e den).p.nnc = y.p.nnc
    ∧ (y.p.st.gUp = false → (y.aiPost v e den).p.gs.sorted = y.p.gs.sorted)
    ∧ (y.p.st.cUp = false → (y.aiPost v e den).p.cs.sorted = y.p.cs.sorted) := by
  unfold FPoly.aiPost
  simp only [FPoly.st, he, hi, Bool.or_true, ↓reduceIte, Poly.affine_image, Bool.false_eq_true, FPoly.liftO, lift_p]
  cases hg : y.p.st.gUp <;> cases hc : y.p.st.cUp <;> simp [hc]

/-- the non-invertible case on a prepared state -/
theorem aiPost_noninv (y : FPoly) (v : Nat) (e : LinExpr) (den : Int) (he : y.p.st.empty = false)
    (hi : (e.coeffs.getD v 0 != 0) = false) (hp : y.p.st.somethingPending = false) (hu : y.p.st.gUp = true) :
    (y.aiPost v e den).p.st = { y.p.st.clearCUp with gMin := false, satC := false, satG := false }
    ∧ (y.aiPost v e den).p.dim = y.p.dim ∧ (y.aiPost v e den).p.nnc = y.p.nnc
    ∧ (y.aiPost v e den).p.cs = y.p.cs := by
  unfold FPoly.aiPost
  simp only [FPoly.st, he, hi, Bool.or_false, Bool.false_eq_true, ↓reduceIte, Poly.affine_image, hp, hu,
    Bool.not_true, Option.map_some, FPoly.liftO, lift_p]
  refine ⟨?_, ?_, ?_, ?_⟩ <;> first | rfl | trivial

/-- the non-invertible case with pending generators: `remove_pending_to_obtain_generators` inside -/
theorem aiPost_noninv_gPend (y : FPoly) (v : Nat) (e : LinExpr) (den : Int) (he : y.p.st.empty = false)
    (hi : (e.coeffs.getD v 0 != 0) = false) (hp : y.p.st.gPend = true) :
    (y.aiPost v e den).p.st =
      { (({ y.p.st with gPend := false, gMin := false }).clearCUp).clearCUp with gMin := false, satC := false, satG := false }
    ∧ (y.aiPost v e den).p.dim = y.p.dim ∧ (y.aiPost v e den).p.nnc = y.p.nnc
    ∧ (y.aiPost v e den).p.cs = y.p.cs := by
  unfold FPoly.aiPost
  have hsp : y.p.st.somethingPending = true := by simp [Status.somethingPending, hp]
  simp only [FPoly.st, he, hi, Bool.or_false, Bool.false_eq_true, ↓reduceIte, Poly.affine_image, hsp, hp,
    Option.map_some, FPoly.liftO, lift_p]
  refine ⟨?_, ?_, ?_, ?_⟩ <;> first | rfl | trivial

/-- the abstract tail of the non-invertible case -/
def absAiTail (g : Gh) (s : PState) : PState :=
  if !s.em then
    let s := PState.genRewrite g.keep (PState.setChanges false s)
    let s := s.set .vC false |>.set .dd false |>.set .mG false |>.set .vSC false |>.set .vSG false
    PState.clearSatGUpToDate (PState.clearSatCUpToDate (PState.clearGeneratorsMinimized (PState.clearConstraintsUpToDate s)))
  else s

theorem absAiTail_sim (y z : FPoly) (t : PState) (g : Gh) (m : Sim y t) (he : y.p.st.empty = false)
    (f1 : z.p.st = { y.p.st.clearCUp with gMin := false, satC := false, satG := false })
    (f2 : z.p.dim = y.p.dim) (f3 : z.p.nnc = y.p.nnc) (f4 : z.p.cs = y.p.cs) (hk : g.keep = z.p.gs.sorted) :
    Sim z (absAiTail g t) := by
  obtain ⟨⟨zn, zd, zst, zcs, ⟨zr, zf, zsrt⟩⟩, zC, zG⟩ := z
  obtain ⟨⟨nnc, dim, ⟨e, cu, gu, cm, gm, sc, sg, cpd, gp⟩, cs, gs⟩, mC, mG⟩ := y
  simp only at f1 f2 f3 f4 hk he
  subst f1 f2 f3 f4 he
  sim_hyps m
  simp_all [Sim, pst, absAiTail, Status.clearCUp]

structure AiGhost (x : FPoly) (v : Nat) (e : LinExpr) (den : Int) (g : Gh) (s : PState) : Prop where
  ppc : x.p.st.empty = false → x.p.st.gPend = false → x.p.st.cPend = true → PpcGhost x.ppcPrep g s
  min : x.p.st.empty = false → x.p.st.somethingPending = false → x.p.st.gUp = false → MinGhost x g s
  keep : g.keep = (x.affineImage v e den).p.gs.sorted
  aux : g.aux = (x.affineImage v e den).p.cs.sorted

theorem affineImage_sim (x : FPoly) (v : Nat) (e : LinExpr) (den : Int) (s : PState) (g : Gh)
    (f : PPLV.PolyStatus.Facts) (h : Sim x s) (hd : x.p.dim ≠ 0) (hf : f.inv = (e.coeffs.getD v 0 != 0))
    (hl : statusLegalB x.p.st x.p.dim = true) (hg : AiGhost x v e den g s) :
    Sim (x.affineImage v e den) (PPLV.PolyStatus.affineImage g f s) := by
  have h' := h
  sim_hyps h'
  have bd : (s.dim == 0) = false := by rw [h10]; simpa using hd
  have hk := hg.keep
  have ha := hg.aux
  rw [affineImage_eq] at hk ha ⊢
  rcases (Bool.eq_false_or_eq_true x.p.st.empty).symm with a | a
  swap
  · have e2 : PPLV.PolyStatus.affineImage g f s = s := by
      simp only [PPLV.PolyStatus.affineImage, bd, pst, h1, a]; simp
    simp only [FPoly.st, a, Bool.true_or, ↓reduceIte]
    rw [e2, aiPost_empty x v e den a]; exact h
  rcases (Bool.eq_false_or_eq_true (e.coeffs.getD v 0 != 0)).symm with i | i
  swap
  · -- invertible
    simp only [FPoly.st, a, i, Bool.or_true, ↓reduceIte] at hk ha ⊢
    obtain ⟨f1, f2, f3, s1, s2⟩ := aiPost_inv x v e den a i
    generalize x.aiPost v e den = z at *
    obtain ⟨⟨zn, zd, zst, ⟨zcr, zcf, zcsrt⟩, ⟨zr, zf, zsrt⟩⟩, zC, zG⟩ := z
    simp only at f1 f2 f3 s1 s2 hk ha
    subst f1 f2 f3
    rw [i] at hf
    cases hgu : x.p.st.gUp <;> cases hcu : x.p.st.cUp <;>
      simp_all [Sim, pst, PPLV.PolyStatus.affineImage]
  -- not invertible
  obtain ⟨l1, l2, l3, l4, l5⟩ := legal_facts hl
  have e2 : PPLV.PolyStatus.affineImage g f s = absAiTail g
      (if s.hasSomethingPending then PPLV.PolyStatus.removePendingToObtainGenerators g s
       else if !s.gup then PPLV.PolyStatus.minimize g s else (true, s)).2 := by
    rw [i] at hf
    simp only [PPLV.PolyStatus.affineImage, bd, h1, a, hf, PState.em, Bool.false_eq_true, ↓reduceIte]
    rfl
  rw [e2]
  simp only [FPoly.st, a, i, Bool.or_false, Bool.false_eq_true, ↓reduceIte] at hk ha ⊢
  rcases (Bool.eq_false_or_eq_true x.p.st.gPend).symm with gp | gp
  swap
  · -- pending generators: unset inside
    have e1 : x.prepGensDropPending (fun y => y.minimize.2) = x := by
      simp [FPoly.prepGensDropPending, a, gp, Status.somethingPending]
    rw [e1] at hk ⊢
    obtain ⟨f1, f2, f3, f4⟩ := aiPost_noninv_gPend x v e den a i gp
    generalize x.aiPost v e den = z at *
    obtain ⟨⟨zn, zd, zst, zcs, ⟨zr, zf, zsrt⟩⟩, zC, zG⟩ := z
    simp only at f1 f2 f3 f4 hk
    subst f1 f2 f3 f4
    cases hpg : s.b .pG <;>
      simp_all [Sim, pst, absAiTail, PPLV.PolyStatus.removePendingToObtainGenerators, Status.clearCUp]
  rcases (Bool.eq_false_or_eq_true x.p.st.cPend).symm with cp | cp
  swap
  · -- pending constraints: processed
    obtain ⟨a1, a2, a3, a4, a5, a6⟩ := l1 cp
    have e1 : x.prepGensDropPending (fun y => y.minimize.2) = x.processPendingConstraints.2 := by
      simp [FPoly.prepGensDropPending, a, gp, cp, Status.somethingPending]
    have e3 : (if s.hasSomethingPending then PPLV.PolyStatus.removePendingToObtainGenerators g s
       else if !s.gup then PPLV.PolyStatus.minimize g s else (true, s))
        = PPLV.PolyStatus.processPendingConstraints g s := by
      simp [PPLV.PolyStatus.removePendingToObtainGenerators, pst, h8, h9, cp, gp]
    rw [e1] at hk ⊢; rw [e3]
    obtain ⟨m1, m2⟩ := processPendingConstraints_sim x s g h (hg.ppc a gp cp)
    rcases (Bool.eq_false_or_eq_true x.processPendingConstraints.1).symm with r | r
    · have ee : x.processPendingConstraints.2.p.st.empty = true := by
        rw [(processPendingConstraints_false x r).2.2]; rfl
      rw [aiPost_empty _ v e den ee]
      have : (PPLV.PolyStatus.processPendingConstraints g s).2.b .em = true := m2.em.trans ee
      simp only [absAiTail, PState.em, this]; exact m2
    · obtain ⟨k1, k2, k3, k4, k5, k6, k7⟩ := processPendingConstraints_keeps x r
      have sp : x.processPendingConstraints.2.p.st.somethingPending = false := by
        simp [Status.somethingPending, k5, k4.trans gp]
      obtain ⟨f1, f2, f3, f4⟩ := aiPost_noninv _ v e den (k3.trans a) i sp (k1.trans a2)
      exact absAiTail_sim _ _ _ g m2 (k3.trans a) f1 f2 f3 f4 hk
  have sp : x.p.st.somethingPending = false := by simp [Status.somethingPending, cp, gp]
  have e3 : (if s.hasSomethingPending then PPLV.PolyStatus.removePendingToObtainGenerators g s
       else if !s.gup then PPLV.PolyStatus.minimize g s else (true, s))
        = (if !x.p.st.gUp then PPLV.PolyStatus.minimize g s else (true, s)) := by
    simp [pst, h8, h9, h3, cp, gp]
  rw [e3]
  rcases (Bool.eq_false_or_eq_true x.p.st.gUp).symm with gu | gu
  · have e1 : x.prepGensDropPending (fun y => y.minimize.2) = x.minimize.2 := by
      simp [FPoly.prepGensDropPending, a, sp, gu]
    rw [e1] at hk ⊢
    simp only [gu, Bool.not_false, ↓reduceIte]
    obtain ⟨m1, m2⟩ := minimize_sim x s g h (hg.min a sp gu)
    obtain ⟨p1, p2⟩ := minimize_post x hl a hd
    rcases (Bool.eq_false_or_eq_true x.minimize.1).symm with r | r
    · have ee : x.minimize.2.p.st.empty = true := by rw [(p1 r).2.2]; rfl
      rw [aiPost_empty _ v e den ee]
      have : (PPLV.PolyStatus.minimize g s).2.b .em = true := m2.em.trans ee
      simp only [absAiTail, PState.em, this]; exact m2
    · have q := p2 r
      have sp' : x.minimize.2.p.st.somethingPending = false := by simp [Status.somethingPending, q.cPend, q.gPend]
      obtain ⟨f1, f2, f3, f4⟩ := aiPost_noninv _ v e den q.empty i sp' q.gUp
      exact absAiTail_sim _ _ _ g m2 q.empty f1 f2 f3 f4 hk
  · have e1 : x.prepGensDropPending (fun y => y.minimize.2) = x := by
      simp [FPoly.prepGensDropPending, a, sp, gu]
    rw [e1] at hk ⊢
    simp only [gu, Bool.not_true, Bool.false_eq_true, ↓reduceIte]
    obtain ⟨f1, f2, f3, f4⟩ := aiPost_noninv x v e den a i sp gu
    exact absAiTail_sim _ _ _ g h a f1 f2 f3 f4 hk

end PPLV.PolyFull
