import PPLV.PolyFull.ProofsOps10b

/-!
# Integration stage — invertible `affine_image` / `affine_preimage`: the field `denNPg` of the result

"With pending generators the constraints describe the non-pending generators" survives the invertible
rewriting: the rewritten constraint rows denote the image (`subst_inverse_eq_imgSet`) of `conSem cs`,
the rewritten non-pending generator rows (all rows are rewritten in place, `firstPending` kept) generate
the image of `genSem npG` (`gsSigned_facts` on the prefix), and `conSem cs = genSem npG` before.
-/
namespace PPLV.PolyFull
open PPLV.Lin PPLV.PolyOps

/-- the non-pending prefix of a system -/
def prefixSys (s : Sys) : Sys := ⟨s.rows.take s.firstPending, s.firstPending, s.sorted⟩

theorem gsAffineImage_take_inv (v : Nat) (e : LinExpr) (den : Int) (s : Sys) (hc : e.coeffs.getD v 0 ≠ 0) :
    (gsAffineImage v e den s).rows.take (gsAffineImage v e den s).firstPending =
      (gsAffineImage v e den (prefixSys s)).rows := by
  have hb : ¬ ((e.coeffs.getD v 0 == 0) = true) := by simpa using hc
  rw [(gsAffineImage_fp_inv v e den s hc).1, gsAffineImage_rows, gsAffineImage_rows, if_neg hb, if_neg hb]
  show _ = ((s.rows.take s.firstPending).map _).map _
  rw [List.map_take, List.map_take]

theorem gsSigned_take_inv (v : Nat) (e : LinExpr) (den : Int) (s : Sys) (hc : e.coeffs.getD v 0 ≠ 0) :
    (gsSigned v e den s).rows.take (gsSigned v e den s).firstPending = (gsSigned v e den (prefixSys s)).rows := by
  unfold gsSigned
  split
  · exact gsAffineImage_take_inv v e den s hc
  · exact gsAffineImage_take_inv v _ _ s (by rw [PPLV.PolyFull.exprNeg_getD]; exact neg_ne_zero.mpr hc)

theorem coordDet_conSem (nnc : Bool) (n : Nat) (rows : List Row) (h : ∀ r ∈ rows, r.cf.length = n) :
    CoordDet n (conSem nnc rows) :=
  coordDet_sem n _ (kitC_wf nnc n rows h)

theorem affine_image_inv_denNPg (p q : Poly) (v : Nat) (e : LinExpr) (den : Int) (hp : p.WF)
    (hem : p.st.empty = false) (hc : e.coeffs.getD v 0 ≠ 0) (hv : v < p.dim) (he : e.coeffs.length = p.dim)
    (hden : den ≠ 0) (hgp : p.st.gPend = true)
    (hnp : conSem p.nnc p.cs.rows = genSem p.nnc p.dim (p.gs.rows.take p.gs.firstPending))
    (h : p.affine_image v e den = some q) :
    conSem q.nnc q.cs.rows = genSem q.nnc q.dim (q.gs.rows.take q.gs.firstPending) := by
  obtain ⟨hst, hqn, hqd, hgs, hcs⟩ := affine_image_inv_shape p q v e den hem hc h
  obtain ⟨hcu, hgu⟩ := hp.pend_g hgp
  rw [hqn, hqd, hgs, hcs, if_pos hcu, if_pos hgu, gsSigned_take_inv v e den p.gs hc]
  have hf := csAffinePreimage_facts p.nnc p.dim v (inverseMap p.dim v e den).1
    (inverseMap p.dim v e den).2 p.cs (hp.cs_len hem hcu) hv (inverseMap_length _ _ _ _)
    (inverseMap_den_pos _ _ _ _ hc)
  have hg := gsSigned_facts p.nnc p.dim v e den (prefixSys p.gs)
    (fun r hr => hp.gs_wf hem hgu r (List.mem_of_mem_take hr)) hv (le_of_eq he) hden
  rw [hf.1, hg.1, subst_inverse_eq_imgSet p.dim v e den hv he hden hc _
    (coordDet_conSem p.nnc p.dim _ (hp.cs_len hem hcu)), hnp]
  rfl

theorem affine_preimage_inv_denNPg (p q : Poly) (v : Nat) (e : LinExpr) (den : Int) (hp : p.WF)
    (hem : p.st.empty = false) (hc : e.coeffs.getD v 0 ≠ 0) (hv : v < p.dim) (he : e.coeffs.length = p.dim)
    (hden : den ≠ 0) (hgp : p.st.gPend = true)
    (hnp : conSem p.nnc p.cs.rows = genSem p.nnc p.dim (p.gs.rows.take p.gs.firstPending))
    (h : p.affine_preimage v e den = some q) :
    conSem q.nnc q.cs.rows = genSem q.nnc q.dim (q.gs.rows.take q.gs.firstPending) := by
  obtain ⟨hst, hqn, hqd, hcs, hgs⟩ := affine_preimage_inv_shape p q v e den hem hc h
  obtain ⟨hcu, hgu⟩ := hp.pend_g hgp
  have hc' : (inverseMap p.dim v e den).1.coeffs.getD v 0 ≠ 0 := inverseMap_getD p.dim v e den hv hden
  rw [hqn, hqd, hgs, hcs, if_pos hcu, if_pos hgu, gsAffineImage_take_inv v _ _ p.gs hc']
  have hf := csSigned_facts p.nnc p.dim v e den p.cs (hp.cs_len hem hcu) hv he hden
  have hg := gsAffineImage_facts p.nnc p.dim v (inverseMap p.dim v e den).1 (inverseMap p.dim v e den).2
    (prefixSys p.gs) (fun r hr => hp.gs_wf hem hgu r (List.mem_of_mem_take hr)) hv
    (le_of_eq (inverseMap_length _ _ _ _)) (inverseMap_den_pos _ _ _ _ hc)
  rw [hf.1, hg.1, preSet_eq_subst p.dim v e den hden _ (coordDet_conSem p.nnc p.dim _ (hp.cs_len hem hcu)),
    imgSet_inverse_eq_preSet p.dim v e den hv he hden hc, hnp]
  rfl

/-- the field `denNPg` of `x.affineImage v e den`, invertible case -/
theorem affineImage_denNPg (x : FPoly) (S : Set Val) (v : Nat) (e : LinExpr) (den : Int) (hx : x.Inv S)
    (hv : v < x.p.dim) (he : e.coeffs.length = x.p.dim) (hden : den ≠ 0)
    (hc : e.coeffs.getD v 0 ≠ 0) (hex : x.p.st.empty = false)
    (hR : (x.affineImage v e den).p.st.gPend = true) :
    conSem (x.affineImage v e den).p.nnc (x.affineImage v e den).p.cs.rows =
      genSem (x.affineImage v e den).p.nnc (x.affineImage v e den).p.dim (x.affineImage v e den).npG := by
  obtain ⟨q, hq, hp⟩ := affineImage_inv_p x v e den hex hc
  obtain ⟨hst, _⟩ := affine_image_inv_shape x.p q v e den hex hc hq
  unfold FPoly.npG
  rw [hp] at hR ⊢
  have hgp : x.p.st.gPend = true := by rw [← hst]; exact hR
  exact affine_image_inv_denNPg x.p q v e den hx.wf hex hc hv he hden hgp (hx.denNPg hex hgp) hq

theorem affinePreimage_denNPg (x : FPoly) (S : Set Val) (v : Nat) (e : LinExpr) (den : Int) (hx : x.Inv S)
    (hv : v < x.p.dim) (he : e.coeffs.length = x.p.dim) (hden : den ≠ 0)
    (hc : e.coeffs.getD v 0 ≠ 0) (hex : x.p.st.empty = false)
    (hR : (x.affinePreimage v e den).p.st.gPend = true) :
    conSem (x.affinePreimage v e den).p.nnc (x.affinePreimage v e den).p.cs.rows =
      genSem (x.affinePreimage v e den).p.nnc (x.affinePreimage v e den).p.dim (x.affinePreimage v e den).npG := by
  obtain ⟨q, hq, hp⟩ := affinePreimage_inv_p x v e den hex hc
  obtain ⟨hst, _⟩ := affine_preimage_inv_shape x.p q v e den hex hc hq
  unfold FPoly.npG
  rw [hp] at hR ⊢
  have hgp : x.p.st.gPend = true := by rw [← hst]; exact hR
  exact affine_preimage_inv_denNPg x.p q v e den hx.wf hex hc hv he hden hgp (hx.denNPg hex hgp) hq

end PPLV.PolyFull
