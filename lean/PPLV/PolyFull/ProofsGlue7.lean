import PPLV.PolyFull.ProofsGlue6

/-!
# Integration stage — `GlueFacts` from `ConvContract`, part 7: the preparation steps keep topology,
dimension, the other system and every status flag but `sat_c` / `sat_g`

`obtain_sorted_constraints_with_sat_c` / `obtain_sorted_generators_with_sat_g` cut into their steps
(`osc_eq`, `osg_eq`, by `rfl`).
-/
namespace PPLV.PolyFull
open PPLV.Lin PPLV.PolyOps
open PPLV.Conv (LRow BRow Vec Sound SatCorrect holds holdsAll Generated)

/-- the same status word but for the two saturation flags -/
def StatusSameButSat (s t : Status) : Prop :=
  t.empty = s.empty ∧ t.cUp = s.cUp ∧ t.gUp = s.gUp ∧ t.cMin = s.cMin ∧ t.gMin = s.gMin ∧
    t.cPend = s.cPend ∧ t.gPend = s.gPend

theorem StatusSameButSat.exists {s t : Status} (h : StatusSameButSat s t) :
    ∃ a b, t = { s with satC := a, satG := b } := by
  obtain ⟨h1, h2, h3, h4, h5, h6, h7⟩ := h
  refine ⟨t.satC, t.satG, ?_⟩
  cases t; cases s
  simp only at h1 h2 h3 h4 h5 h6 h7
  simp [h1, h2, h3, h4, h5, h6, h7]

theorem StatusSameButSat.refl (s : Status) : StatusSameButSat s s := ⟨rfl, rfl, rfl, rfl, rfl, rfl, rfl⟩
theorem StatusSameButSat.trans {s t u : Status} (h1 : StatusSameButSat s t) (h2 : StatusSameButSat t u) :
    StatusSameButSat s u :=
  ⟨h2.1.trans h1.1, h2.2.1.trans h1.2.1, h2.2.2.1.trans h1.2.2.1, h2.2.2.2.1.trans h1.2.2.2.1,
   h2.2.2.2.2.1.trans h1.2.2.2.2.1, h2.2.2.2.2.2.1.trans h1.2.2.2.2.2.1, h2.2.2.2.2.2.2.trans h1.2.2.2.2.2.2⟩

/-- what the preparation steps of the constraint side never touch -/
def SameButC (x y : FPoly) : Prop :=
  y.p.nnc = x.p.nnc ∧ y.p.dim = x.p.dim ∧ y.p.gs = x.p.gs ∧ StatusSameButSat x.p.st y.p.st
/-- what the preparation steps of the generator side never touch -/
def SameButG (x y : FPoly) : Prop :=
  y.p.nnc = x.p.nnc ∧ y.p.dim = x.p.dim ∧ y.p.cs = x.p.cs ∧ StatusSameButSat x.p.st y.p.st

theorem SameButC.refl (x : FPoly) : SameButC x x := ⟨rfl, rfl, rfl, .refl _⟩
theorem SameButC.trans {x y z : FPoly} (h1 : SameButC x y) (h2 : SameButC y z) : SameButC x z :=
  ⟨h2.1.trans h1.1, h2.2.1.trans h1.2.1, h2.2.2.1.trans h1.2.2.1, h1.2.2.2.trans h2.2.2.2⟩
theorem SameButG.refl (x : FPoly) : SameButG x x := ⟨rfl, rfl, rfl, .refl _⟩
theorem SameButG.trans {x y z : FPoly} (h1 : SameButG x y) (h2 : SameButG y z) : SameButG x z :=
  ⟨h2.1.trans h1.1, h2.2.1.trans h1.2.1, h2.2.2.1.trans h1.2.2.1, h1.2.2.2.trans h2.2.2.2⟩

/-! ### `obtain_sorted_constraints_with_sat_c` in steps -/

/-- :1036-1038 -/
def oscStep1 (x : FPoly) : FPoly := if !x.st.satC && !x.st.satG then x.updateSatC else x
/-- :1047-1048 -/
def oscTransG (x : FPoly) : FPoly :=
  if !x.st.satG then
    { x with satG := x.satC.transposeOf, p := { x.p with st := { x.p.st with satG := true } } }
  else x
/-- :1049 -/
def oscSort (x : FPoly) : FPoly :=
  { x with p := { x.p with cs := (x.p.cs.sortAndRemoveWithSat false x.nnc x.satG).1 },
           satG := (x.p.cs.sortAndRemoveWithSat false x.nnc x.satG).2 }
/-- :1046-1050 -/
def oscStep2 (x : FPoly) : FPoly := if x.p.cs.sorted then x else oscSort (oscTransG x)
/-- :1052-1056 -/
def oscStep3 (x : FPoly) : FPoly :=
  { x with satC := x.satG.transposeOf,
           p := { x.p with st := { x.p.st with satC := true }, cs := { x.p.cs with sorted := true } } }

theorem osc_eq (x : FPoly) : x.obtainSortedConstraintsWithSatC =
    if (oscStep1 x).p.cs.sorted && (oscStep1 x).st.satC then oscStep1 x
    else oscStep3 (oscStep2 (oscStep1 x)) := rfl

theorem oscStep1_same (x : FPoly) : SameButC x (oscStep1 x) := by
  unfold oscStep1
  split
  · exact ⟨rfl, rfl, rfl, rfl, rfl, rfl, rfl, rfl, rfl, rfl⟩
  · exact .refl x

theorem oscTransG_same (x : FPoly) : SameButC x (oscTransG x) := by
  unfold oscTransG
  split
  · exact ⟨rfl, rfl, rfl, rfl, rfl, rfl, rfl, rfl, rfl, rfl⟩
  · exact .refl x

theorem oscSort_same (x : FPoly) : SameButC x (oscSort x) := ⟨rfl, rfl, rfl, .refl _⟩

theorem oscStep2_same (x : FPoly) : SameButC x (oscStep2 x) := by
  unfold oscStep2
  split
  · exact .refl x
  · exact (oscTransG_same x).trans (oscSort_same _)

theorem oscStep3_same (x : FPoly) : SameButC x (oscStep3 x) :=
  ⟨rfl, rfl, rfl, rfl, rfl, rfl, rfl, rfl, rfl, rfl⟩

theorem osc_same (x : FPoly) : SameButC x x.obtainSortedConstraintsWithSatC := by
  rw [osc_eq]
  split
  · exact oscStep1_same x
  · exact (oscStep1_same x).trans ((oscStep2_same _).trans (oscStep3_same _))

/-- :744 -/
def ppcStep0 (x : FPoly) : FPoly := if !x.st.satC then { x with satC := x.satG.transposeOf } else x

theorem ppcPrepared_eq (x : FPoly) : x.ppcPrepared =
    if !(ppcStep0 x).p.cs.sorted then (ppcStep0 x).obtainSortedConstraintsWithSatC else ppcStep0 x := rfl

theorem ppcStep0_same (x : FPoly) : SameButC x (ppcStep0 x) := by
  unfold ppcStep0
  split
  · exact ⟨rfl, rfl, rfl, .refl _⟩
  · exact .refl x

theorem ppcPrepared_same (x : FPoly) : SameButC x x.ppcPrepared := by
  rw [ppcPrepared_eq]
  split
  · exact (ppcStep0_same x).trans (osc_same _)
  · exact ppcStep0_same x

/-! ### `obtain_sorted_generators_with_sat_g` in steps -/

def osgStep1 (x : FPoly) : FPoly := if !x.st.satC && !x.st.satG then x.updateSatG else x
def osgTransC (x : FPoly) : FPoly :=
  if !x.st.satC then
    { x with satC := x.satG.transposeOf, p := { x.p with st := { x.p.st with satC := true } } }
  else x
def osgSort (x : FPoly) : FPoly :=
  { x with p := { x.p with gs := (x.p.gs.sortAndRemoveWithSat true x.nnc x.satC).1 },
           satC := (x.p.gs.sortAndRemoveWithSat true x.nnc x.satC).2 }
def osgStep2 (x : FPoly) : FPoly := if x.p.gs.sorted then x else osgSort (osgTransC x)
def osgStep3 (x : FPoly) : FPoly :=
  { x with satG := x.satC.transposeOf,
           p := { x.p with st := { x.p.st with satG := true }, gs := { x.p.gs with sorted := true } } }

theorem osg_eq (x : FPoly) : x.obtainSortedGeneratorsWithSatG =
    if (osgStep1 x).p.gs.sorted && (osgStep1 x).st.satG then osgStep1 x
    else osgStep3 (osgStep2 (osgStep1 x)) := rfl

theorem osgStep1_same (x : FPoly) : SameButG x (osgStep1 x) := by
  unfold osgStep1
  split
  · exact ⟨rfl, rfl, rfl, rfl, rfl, rfl, rfl, rfl, rfl, rfl⟩
  · exact .refl x

theorem osgTransC_same (x : FPoly) : SameButG x (osgTransC x) := by
  unfold osgTransC
  split
  · exact ⟨rfl, rfl, rfl, rfl, rfl, rfl, rfl, rfl, rfl, rfl⟩
  · exact .refl x

theorem osgSort_same (x : FPoly) : SameButG x (osgSort x) := ⟨rfl, rfl, rfl, .refl _⟩

theorem osgStep2_same (x : FPoly) : SameButG x (osgStep2 x) := by
  unfold osgStep2
  split
  · exact .refl x
  · exact (osgTransC_same x).trans (osgSort_same _)

theorem osgStep3_same (x : FPoly) : SameButG x (osgStep3 x) :=
  ⟨rfl, rfl, rfl, rfl, rfl, rfl, rfl, rfl, rfl, rfl⟩

theorem osg_same (x : FPoly) : SameButG x x.obtainSortedGeneratorsWithSatG := by
  rw [osg_eq]
  split
  · exact osgStep1_same x
  · exact (osgStep1_same x).trans ((osgStep2_same _).trans (osgStep3_same _))

def ppgStep0 (x : FPoly) : FPoly := if !x.st.satG then { x with satG := x.satC.transposeOf } else x

theorem ppgPrepared_eq (x : FPoly) : x.ppgPrepared =
    if !(ppgStep0 x).p.gs.sorted then (ppgStep0 x).obtainSortedGeneratorsWithSatG else ppgStep0 x := rfl

theorem ppgStep0_same (x : FPoly) : SameButG x (ppgStep0 x) := by
  unfold ppgStep0
  split
  · exact ⟨rfl, rfl, rfl, .refl _⟩
  · exact .refl x

theorem ppgPrepared_same (x : FPoly) : SameButG x x.ppgPrepared := by
  rw [ppgPrepared_eq]
  split
  · exact (ppgStep0_same x).trans (osg_same _)
  · exact ppgStep0_same x

/-! ### what the preparation steps must keep beyond that (proved in parts 10, …, or hypotheses of the final theorem) -/

/-- the preparation of `process_pending_constraints` keeps the rows and the double description pair -/
def SortKeepsPairC : Prop := ∀ (x : FPoly) (S : Set Val), x.Inv S → x.p.st.empty = false →
  x.p.st.cPend = true →
  x.ppcPrepared.p.cs.firstPending ≤ x.ppcPrepared.p.cs.rows.length ∧
  (∀ r, r ∈ x.ppcPrepared.p.cs.rows ↔ r ∈ x.p.cs.rows) ∧
  (∀ r, r ∈ x.ppcPrepared.npC ↔ r ∈ x.npC) ∧
  EnginePair x.p.nnc x.p.dim x.ppcPrepared.npC x.p.gs.rows true x.ppcPrepared.p.st.satG
    x.ppcPrepared.satC x.ppcPrepared.satG

/-- the preparation of `process_pending_generators` keeps the rows and the double description pair -/
def SortKeepsPairG : Prop := ∀ (x : FPoly) (S : Set Val), x.Inv S → x.p.st.empty = false →
  x.p.st.gPend = true →
  x.ppgPrepared.p.gs.firstPending ≤ x.ppgPrepared.p.gs.rows.length ∧
  (∀ r, r ∈ x.ppgPrepared.p.gs.rows ↔ r ∈ x.p.gs.rows) ∧
  (∀ r, r ∈ x.ppgPrepared.npG ↔ r ∈ x.npG) ∧
  EnginePair x.p.nnc x.p.dim x.p.cs.rows x.ppgPrepared.npG x.ppgPrepared.p.st.satC true
    x.ppgPrepared.satC x.ppgPrepared.satG

end PPLV.PolyFull
