import PPLV.PolyFull.ProofsOps1

/-!
# Integration stage — `intersection_assign` and `add_constraint` refine `RefPoly.meet` / `RefPoly.addCons`
-/
namespace PPLV.PolyFull
open PPLV.Lin PPLV.PolyOps

theorem legal_cPend_canPend {s : Status} {d : Nat} (h : statusLegalB s d = true) (hc : s.cPend = true) :
    s.canPend = true := by
  cases hcp : s.canPend
  · rw [(legal_not_canPend h hcp).1] at hc; cases hc
  · rfl

theorem legal_gPend_canPend {s : Status} {d : Nat} (h : statusLegalB s d = true) (hc : s.gPend = true) :
    s.canPend = true := by
  cases hcp : s.canPend
  · rw [(legal_not_canPend h hcp).2] at hc; cases hc
  · rfl

/-- the receiver is unchanged by the row-level operator -/
theorem Inv_lift_same (x : FPoly) (S S' : Set Val) (hx : x.Inv S) (hd : x.p.Denotes S') :
    (x.lift x.p).Inv S' ∧ x.SameShape (x.lift x.p) := by
  rw [lift_self]; exact ⟨hx.change hd, rfl, rfl⟩

/-- the row-level operator answered `set_empty()` -/
theorem Inv_lift_setEmpty (x : FPoly) (S' : Set Val) (hwf : x.p.WF) (hS : S' = ∅) :
    (x.lift x.p.setEmpty).Inv S' ∧ x.SameShape (x.lift x.p.setEmpty) := by
  unfold FPoly.lift
  split
  · exact ⟨Inv_of_empty _ _ rfl (wf_setEmpty x.p hwf) (denotes_setEmpty x.p S' hS) (legal_setEmpty _), rfl, rfl⟩
  · exact ⟨Inv_of_empty _ _ rfl (wf_setEmpty x.p hwf) (denotes_setEmpty x.p S' hS) (legal_setEmpty _), rfl, rfl⟩

theorem lift_p (x : FPoly) (q : Poly) : (x.lift q).p = q := by
  unfold FPoly.lift; split <;> rfl

theorem Inv_liftO_refineC (x : FPoly) (q : Poly) (S' : Set Val) (exact : Sys) (hne : q.st.empty = false)
    (hI : ({ x with p := q } : FPoly).Inv S')
    (hfp : q.st.empty = false → q.st.cUp = true →
      exact.firstPending ≤ exact.rows.length ∧ (q.st.cPend = false → exact.firstPending = exact.rows.length))
    (heng : q.st.empty = false → q.st.canPend = true →
      exact.rows.take exact.firstPending = q.cs.rows.take q.cs.firstPending) :
    ({ x.liftO (some q) with p := { (x.liftO (some q)).p with
        cs := (x.liftO (some q)).p.cs.refineBy exact } } : FPoly).Inv S' := by
  have : x.liftO (some q) = { x with p := q } := lift_of_nonempty x q hne
  rw [this]; exact Inv_refineC _ _ _ hI hfp heng

theorem Inv_liftO_refineG (x : FPoly) (q : Poly) (S' : Set Val) (exact : Sys) (hne : q.st.empty = false)
    (hI : ({ x with p := q } : FPoly).Inv S')
    (hfp : q.st.empty = false → q.st.gUp = true →
      exact.firstPending ≤ exact.rows.length ∧ (q.st.gPend = false → exact.firstPending = exact.rows.length))
    (heng : q.st.empty = false → q.st.canPend = true →
      exact.rows.take exact.firstPending = q.gs.rows.take q.gs.firstPending) :
    ({ x.liftO (some q) with p := { (x.liftO (some q)).p with
        gs := (x.liftO (some q)).p.gs.refineBy exact } } : FPoly).Inv S' := by
  have : x.liftO (some q) = { x with p := q } := lift_of_nonempty x q hne
  rw [this]; exact Inv_refineG _ _ _ hI hfp heng

theorem intersection_assign_trivial (x y : Poly) (h : (x.st.empty || y.st.empty || x.dim == 0) = true) :
    x.intersection_assign y = some x ∨ (x.intersection_assign y = some x.setEmpty) := by
  unfold Poly.intersection_assign
  cases hex : x.st.empty
  · cases hey : y.st.empty
    · rw [hex, hey] at h
      simp only [Bool.false_or] at h
      simp [h]
    · simp
  · simp

theorem intersection_assign_pend (x y : Poly) (hex : x.st.empty = false) (hey : y.st.empty = false)
    (hd : x.dim ≠ 0) (hcx : x.st.cUp = true) (hgx : x.st.gPend = false) (hcy : y.st.cUp = true)
    (hgy : y.st.gPend = false) (hcp : x.st.canPend = true) :
    x.intersection_assign y =
      some { x with cs := x.cs.insertPendingSys y.cs.rows, st := { x.st with cPend := true } } := by
  simp [Poly.intersection_assign, Poly.obtainConstraintsNoConv, hex, hey, hd, hcx, hgx, hcy, hgy, hcp]

theorem intersection_assign_nonpend (x y : Poly) (hex : x.st.empty = false) (hey : y.st.empty = false)
    (hd : x.dim ≠ 0) (hcx : x.st.cUp = true) (hgx : x.st.gPend = false) (hcy : y.st.cUp = true)
    (hgy : y.st.gPend = false) (hcp : x.st.canPend = false) :
    x.intersection_assign y =
      some { x with cs := (if (x.cs.sorted && y.cs.sorted && !y.st.cPend) = true then x.cs.mergeRowsAssign y.cs.rows
                            else x.cs.insertSys y.cs.rows),
                    st := ({ x.st with cMin := false }).clearGUp } := by
  simp [Poly.intersection_assign, Poly.obtainConstraintsNoConv, hex, hey, hd, hcx, hgx, hcy, hgy, hcp]

theorem mergeRowsAssign_fp (s : Sys) (ys : List Row) :
    (s.mergeRowsAssign ys).firstPending = (s.mergeRowsAssign ys).rows.length := rfl
theorem insertSys_fp (s : Sys) (ys : List Row) :
    (s.insertSys ys).firstPending = (s.insertSys ys).rows.length := by
  show s.rows.length + ys.length = (s.rows ++ ys).length
  rw [List.length_append]

/-- the main branch of `intersection_assign` on prepared operands -/
theorem intersection_main (x y : FPoly) (S Sy S' : Set Val) (hx : x.Inv S) (hy : y.Inv Sy)
    (hdim : y.p.dim = x.p.dim)
    (hex : x.p.st.empty = false) (hey : y.p.st.empty = false) (hd : x.p.dim ≠ 0)
    (hcx : x.p.st.cUp = true) (hgx : x.p.st.gPend = false) (hcy : y.p.st.cUp = true)
    (hgy : y.p.st.gPend = false)
    (hden : ∀ q, x.p.intersection_assign y.p = some q → q.Denotes S') :
    ({ x.liftO (x.p.intersection_assign y.p) with
        p := { (x.liftO (x.p.intersection_assign y.p)).p with
          cs := (x.liftO (x.p.intersection_assign y.p)).p.cs.refineBy
            (if x.st.canPend then x.p.cs.insertPendingSys y.p.cs.rows
             else if x.p.cs.sorted && y.p.cs.sorted && !y.st.cPend then x.p.cs.mergeRowsExact false x.nnc y.p.cs.rows
             else x.p.cs.insertSysExact false x.nnc y.p.cs) } } : FPoly).Inv S' ∧
    (x.liftO (x.p.intersection_assign y.p)).p.nnc = x.p.nnc ∧
    (x.liftO (x.p.intersection_assign y.p)).p.dim = x.p.dim := by
  have hwfq : ∀ q, x.p.intersection_assign y.p = some q → q.WF := fun q h =>
    intersection_assign_rows_wf x.p y.p q hdim hx.wf hy.wf
      (fun h => (legal_canPend_up hx.legal h).2) (legal_cPend_canPend hx.legal) h
  cases hcp : x.p.st.canPend
  · have hq := intersection_assign_nonpend x.p y.p hex hey hd hcx hgx hcy hgy hcp
    rw [hq]
    have hI := Inv_nonpendC x S S' _ hx hex hcx hcp
      (by split; exact mergeRowsAssign_fp _ _; exact insertSys_fp _ _)
      (by intro r hr; split
          · exact (mem_mergeRows _ _ r).mpr (List.mem_append_left _ hr)
          · exact List.mem_append_left _ hr)
      (hwfq _ hq) (hden _ hq)
    refine ⟨Inv_liftO_refineC x _ S' _ (by simp [Status.clearGUp, hex]) hI ?_ ?_, ?_, ?_⟩
    · intro _ _
      unfold FPoly.st
      rw [hcp]
      simp only [Bool.false_eq_true, if_false]
      split
      · exact ⟨le_of_eq rfl, fun _ => rfl⟩
      · unfold Sys.insertSysExact
        split
        · have := hx.fpC hex hcx
          exact ⟨this.1, fun _ => this.2 (legal_not_canPend hx.legal hcp).1⟩
        · refine ⟨le_of_eq ?_, fun _ => ?_⟩ <;> simp [List.length_append]
    · intro _ h
      simp [Status.canPend, Status.clearGUp] at h
    · show (x.lift _).p.nnc = _
      rw [lift_p]
    · show (x.lift _).p.dim = _
      rw [lift_p]
  · have hq := intersection_assign_pend x.p y.p hex hey hd hcx hgx hcy hgy hcp
    rw [hq]
    have hI := Inv_pendC x S S' y.p.cs.rows hx hex hcx hgx hcp (hwfq _ hq) (hden _ hq)
    refine ⟨Inv_liftO_refineC x _ S' _ hex hI ?_ ?_, ?_, ?_⟩
    · intro h1 h2
      unfold FPoly.st
      rw [hcp]
      simp only [if_true]
      exact hI.fpC h1 h2
    · intro _ _
      unfold FPoly.st
      rw [hcp]
      simp only [if_true]
    · show (x.lift _).p.nnc = _
      rw [lift_p]
    · show (x.lift _).p.dim = _
      rw [lift_p]

/-- **`Polyhedron::intersection_assign(y)`, the whole object** (preparation by `needCons` on both
    operands, the row-level operator, the exact row order): the receiver denotes `RefPoly.meet`, the
    argument (lazily updated) still denotes its set, both keep the invariant and their shape. -/
theorem intersectionAssign_refines (G : GlueFacts) (x y : FPoly) (refx refy : RefPoly)
    (hdim : y.p.dim = x.p.dim) (hnnc : y.p.nnc = x.p.nnc)
    (hx : x.Inv (sem refx.cs)) (hy : y.Inv (sem refy.cs)) :
    (x.intersectionAssign y).1.Inv (sem (refx.meet refy).cs) ∧ (x.intersectionAssign y).2.Inv (sem refy.cs) ∧
    x.SameShape (x.intersectionAssign y).1 ∧ y.SameShape (x.intersectionAssign y).2 := by
  unfold FPoly.intersectionAssign
  by_cases hc : (x.st.empty || y.st.empty || x.dim == 0) = true
  · rw [if_pos hc]
    refine ⟨?_, hy, ?_, rfl, rfl⟩
    all_goals
      rcases intersection_assign_trivial x.p y.p hc with h | h
      · have hd := intersection_assign_rows_correct x.p y.p _ refx refy hdim hnnc hx.wf hy.wf hx.den hy.den h
        rw [h]
        first
          | exact (Inv_lift_same x _ _ hx hd).1
          | exact (Inv_lift_same x _ _ hx hd).2
      · have hd := intersection_assign_rows_correct x.p y.p _ refx refy hdim hnnc hx.wf hy.wf hx.den hy.den h
        rw [h]
        first
          | exact (Inv_lift_setEmpty x _ hx.wf (hd.1 rfl)).1
          | exact (Inv_lift_setEmpty x _ hx.wf (hd.1 rfl)).2
  · rw [if_neg hc]
    simp only [Bool.or_eq_true, not_or, Bool.not_eq_true] at hc
    obtain ⟨⟨hex, hey⟩, hd0⟩ := hc
    have hd : x.p.dim ≠ 0 := by simpa [FPoly.dim] using hd0
    obtain ⟨hsx, hix, hex1, hcx1, hgx1⟩ := G.needCons x _ hx hex (Nat.pos_of_ne_zero hd)
    obtain ⟨hsy, hiy, hey1, hcy1, hgy1⟩ := G.needCons y _ hy hey (by rw [hdim]; exact Nat.pos_of_ne_zero hd)
    have hdim1 : y.needCons.p.dim = x.needCons.p.dim := by rw [hsx.2, hsy.2, hdim]
    have hnnc1 : y.needCons.p.nnc = x.needCons.p.nnc := by rw [hsx.1, hsy.1, hnnc]
    have hd1 : x.needCons.p.dim ≠ 0 := by rw [hsx.2]; exact hd
    obtain ⟨h1, h2, h3⟩ := intersection_main x.needCons y.needCons _ _ (sem (refx.meet refy).cs) hix hiy hdim1
      hex1 hey1 hd1 hcx1 hgx1 hcy1 hgy1
      (fun q h => intersection_assign_rows_correct _ _ q refx refy hdim1 hnnc1 hix.wf hiy.wf hix.den hiy.den h)
    exact ⟨h1, hiy, ⟨h2.trans hsx.1, h3.trans hsx.2⟩, hsy⟩

end PPLV.PolyFull
