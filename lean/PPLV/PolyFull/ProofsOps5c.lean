import PPLV.PolyFull.ProofsOps5

/-!
# Integration stage — `affine_preimage` refines `RefPoly.affinePreimage`

PARTIAL.  The constraint rows are rewritten by substitution: `LowLevel` of the rewritten rows is an
explicit hypothesis (`hLow`) in every case where the receiver is not marked empty; in the invertible
case the fields `denNPc`, `denNPg`, `eng` of the result are assumed as well.
-/
namespace PPLV.PolyFull
open PPLV.Lin PPLV.PolyOps

theorem Inv_stConsOnly (X : FPoly) (S : Set Val) (hst : X.p.st = stConsOnly) (hd : 0 < X.p.dim)
    (hwf : X.p.WF) (hden : X.p.Denotes S) (hfp : X.p.cs.firstPending = X.p.cs.rows.length)
    (hlow : LowLevel X.p.nnc X.p.dim X.p.cs.rows) : X.Inv S := by
  refine ⟨hwf, hden, ?_, fun _ _ => ⟨le_of_eq hfp, fun _ => hfp⟩, fun _ h => ?_, fun _ _ => hlow,
    fun _ h => ?_, fun _ h => ?_, fun _ h => ?_⟩
  · rw [hst, statusLegalB_eq]
    have : (X.p.dim == 0) = false := by simpa using Nat.ne_of_gt hd
    rw [this]; rfl
  all_goals (rw [hst] at h; cases h)

theorem csSigned_fp (v : Nat) (e : LinExpr) (den : Int) (s : Sys) :
    (csSigned v e den s).firstPending = s.firstPending ∧ (csSigned v e den s).rows.length = s.rows.length := by
  unfold csSigned
  split <;> exact csAffinePreimage_fp _ _ _ _

/-- the row-level `affine_preimage`, non-invertible case, on a state holding its constraints -/
theorem affine_preimage_noninv_form (p : Poly) (v : Nat) (e : LinExpr) (den : Int)
    (hem : p.st.empty = false) (hc : e.coeffs.getD v 0 = 0) (hcu : p.st.cUp = true)
    (hcase : p.st.cPend = true ∨ (p.st.somethingPending = false ∧ p.cs.firstPending = p.cs.rows.length)) :
    ∃ q, p.affine_preimage v e den = some q ∧ q.nnc = p.nnc ∧ q.dim = p.dim ∧ q.st = stConsOnly ∧
      q.cs.firstPending = q.cs.rows.length := by
  unfold Poly.affine_preimage
  rw [if_neg (by simp [hem]), if_neg (by rw [hc]; decide)]
  rcases hcase with hcp | ⟨hsp, hfp⟩
  · have hsp : p.st.somethingPending = true := by simp [Status.somethingPending, hcp]
    simp only [hsp, hcp, if_true, Option.map_some]
    refine ⟨_, rfl, rfl, rfl, ?_, ?_⟩
    · simp [Status.clearGUp, stConsOnly, hem, hcu]
    · show (csSigned v e den _).firstPending = (csSigned v e den _).rows.length
      rw [(csSigned_fp _ _ _ _).1, (csSigned_fp _ _ _ _).2]; rfl
  · have hg' : (!p.st.cUp) = false := by simp [hcu]
    simp only [hsp, Bool.false_eq_true, if_false, hg', Option.map_some]
    refine ⟨_, rfl, rfl, rfl, ?_, ?_⟩
    · simp only [Status.somethingPending, Bool.or_eq_false_iff] at hsp
      simp [Status.clearGUp, stConsOnly, hem, hcu, hsp.1]
    · show (csSigned v e den _).firstPending = (csSigned v e den _).rows.length
      rw [(csSigned_fp _ _ _ _).1, (csSigned_fp _ _ _ _).2]; exact hfp

/-- the preparation of the non-invertible `affine_preimage` -/
def FPoly.prepConsMin (x : FPoly) : FPoly :=
  if x.st.somethingPending then (if x.st.cPend then x else x.processPendingGenerators)
  else if !x.st.cUp then x.minimize.2 else x

theorem prepConsMin_facts (G : GlueFacts) (x : FPoly) (S : Set Val) (hx : x.Inv S)
    (hex : x.p.st.empty = false) (hd : 0 < x.p.dim) :
    x.SameShape x.prepConsMin ∧ x.prepConsMin.Inv S ∧
    (x.prepConsMin.p.st.empty = true ∨
     (x.prepConsMin.p.st.empty = false ∧ x.prepConsMin.p.st.cUp = true ∧
      (x.prepConsMin.p.st.cPend = true ∨ x.prepConsMin.p.st.somethingPending = false))) := by
  unfold FPoly.prepConsMin
  cases hsp : x.st.somethingPending
  · simp only [Bool.false_eq_true, if_false]
    cases hcu : x.st.cUp
    · simp only [Bool.not_false, if_true]
      obtain ⟨h1, h2, h3, h4, h5⟩ := G.minimize x S hx
      refine ⟨h1, h2, ?_⟩
      cases hm : x.minimize.1
      · exact Or.inl (h4 hm)
      · obtain ⟨f1, f2, f3, f4, f5, f6, f7⟩ := h5 hm hd
        exact Or.inr ⟨f1, f2, Or.inr (by simp [Status.somethingPending, f6, f7])⟩
    · simp only [Bool.not_true, Bool.false_eq_true, if_false]
      exact ⟨⟨rfl, rfl⟩, hx, Or.inr ⟨hex, hcu, Or.inr hsp⟩⟩
  · simp only [if_true]
    cases hcp : x.st.cPend
    · simp only [Bool.false_eq_true, if_false]
      have hgp : x.p.st.gPend = true := by
        have : (x.p.st.cPend || x.p.st.gPend) = true := hsp
        rw [show x.p.st.cPend = false from hcp, Bool.false_or] at this
        exact this
      obtain ⟨h1, h2, f1, f2, f3, f4, f5, f6, f7⟩ := G.ppg x S hx hex hgp
      exact ⟨h1, h2, Or.inr ⟨f1, f2, Or.inr (by simp [Status.somethingPending, f6, f7])⟩⟩
    · simp only [if_true]
      exact ⟨⟨rfl, rfl⟩, hx, Or.inr ⟨hex, (hx.wf.pend_c hcp).1, Or.inl hcp⟩⟩

theorem affinePreimage_eq (x : FPoly) (v : Nat) (e : LinExpr) (den : Int) :
    x.affinePreimage v e den =
      (if (x.st.empty || e.coeffs.getD v 0 != 0) = true then x else x.prepConsMin).liftO
        ((if (x.st.empty || e.coeffs.getD v 0 != 0) = true then x else x.prepConsMin).p.affine_preimage v e den) := rfl

/-- **`Polyhedron::affine_preimage(var, expr, den)`, the whole object.**  PARTIAL: assumed of the
    RESULT, when the receiver is not marked empty: `hLow` (the substituted constraint rows entail the
    low-level constraints at cone level), and in the invertible case (`expr[var] ≠ 0`: both descriptions
    rewritten in place, status word unchanged) `hNPc`, `hNPg`, `hEng` (the fields `denNPc`, `denNPg`,
    `eng`).  Proved: `wf`, `den`, `legal`, `fpC`, `fpG` always; everything for a receiver marked empty
    or found empty by the preparation. -/
theorem affinePreimage_refines_partial (G : GlueFacts) (x : FPoly) (ref : RefPoly) (v : Nat) (e : LinExpr)
    (den : Int) (hn : ref.n = x.p.dim) (hnnc : ref.nnc = x.p.nnc) (hwf : WF ref.n ref.cs)
    (hv : v < x.p.dim) (he : e.coeffs.length = x.p.dim) (hden : den ≠ 0) (hx : x.Inv (sem ref.cs))
    (hLow : x.p.st.empty = false → (x.affinePreimage v e den).p.st.empty = false →
      (x.affinePreimage v e den).p.st.cUp = true →
      LowLevel (x.affinePreimage v e den).p.nnc (x.affinePreimage v e den).p.dim
        (x.affinePreimage v e den).p.cs.rows)
    (hNPc : e.coeffs.getD v 0 ≠ 0 → x.p.st.empty = false → (x.affinePreimage v e den).p.st.cPend = true →
      genSem (x.affinePreimage v e den).p.nnc (x.affinePreimage v e den).p.dim
          (x.affinePreimage v e den).p.gs.rows =
        conSem (x.affinePreimage v e den).p.nnc (x.affinePreimage v e den).npC)
    (hNPg : e.coeffs.getD v 0 ≠ 0 → x.p.st.empty = false → (x.affinePreimage v e den).p.st.gPend = true →
      conSem (x.affinePreimage v e den).p.nnc (x.affinePreimage v e den).p.cs.rows =
        genSem (x.affinePreimage v e den).p.nnc (x.affinePreimage v e den).p.dim (x.affinePreimage v e den).npG)
    (hEng : e.coeffs.getD v 0 ≠ 0 → x.p.st.empty = false → (x.affinePreimage v e den).p.st.canPend = true →
      EnginePair (x.affinePreimage v e den).p.nnc (x.affinePreimage v e den).p.dim
        (x.affinePreimage v e den).npC (x.affinePreimage v e den).npG (x.affinePreimage v e den).p.st.satC
        (x.affinePreimage v e den).p.st.satG (x.affinePreimage v e den).satC (x.affinePreimage v e den).satG) :
    (x.affinePreimage v e den).Inv (sem (ref.affinePreimage v e den).cs) ∧
      x.SameShape (x.affinePreimage v e den) := by
  rw [affinePreimage_eq] at hLow hNPc hNPg hEng ⊢
  by_cases hc1 : (x.st.empty || e.coeffs.getD v 0 != 0) = true
  · simp only [hc1, if_true] at hLow hNPc hNPg hEng ⊢
    cases hex : x.p.st.empty
    · have hc : e.coeffs.getD v 0 ≠ 0 := by
        have hex' : x.st.empty = false := hex
        rw [hex', Bool.false_or] at hc1
        exact bne_iff_ne.mp hc1
      obtain ⟨q, hq⟩ : ∃ q, x.p.affine_preimage v e den = some q := by
        unfold Poly.affine_preimage
        rw [if_neg (by simp [hex]), if_pos (bne_iff_ne.mpr hc)]
        exact ⟨_, rfl⟩
      obtain ⟨hst, hqn, hqd, hcs, hgs⟩ := affine_preimage_inv_shape x.p q v e den hex hc hq
      have hqe : q.st.empty = false := by rw [hst]; exact hex
      have hlift : x.liftO (some q) = { x with p := q } := lift_of_nonempty x q hqe
      rw [hq] at hLow hNPc hNPg hEng ⊢
      rw [hlift] at hLow hNPc hNPg hEng ⊢
      refine ⟨⟨affine_preimage_rows_wf x.p q v e den hx.wf hv he hden hq,
        affine_preimage_rows_correct x.p q v e den ref hn hnnc hwf hx.wf hv he hden hx.den hq, ?_, ?_, ?_,
        fun h => hLow hex h, fun _ => hNPc hc hex, fun _ => hNPg hc hex, fun _ => hEng hc hex⟩, hqn, hqd⟩
      · show statusLegalB q.st q.dim = true
        rw [hst, hqd]; exact hx.legal
      · intro _ hcu
        have hcu' : x.p.st.cUp = true := by rw [← hst]; exact hcu
        show q.cs.firstPending ≤ q.cs.rows.length ∧ (q.st.cPend = false → q.cs.firstPending = q.cs.rows.length)
        rw [hcs, if_pos hcu', (csSigned_fp _ _ _ _).1, (csSigned_fp _ _ _ _).2, hst]
        exact hx.fpC hex hcu'
      · intro _ hgu
        have hgu' : x.p.st.gUp = true := by rw [← hst]; exact hgu
        have hc' : (inverseMap x.p.dim v e den).1.coeffs.getD v 0 ≠ 0 := by
          exact inverseMap_getD x.p.dim v e den hv hden
        show q.gs.firstPending ≤ q.gs.rows.length ∧ (q.st.gPend = false → q.gs.firstPending = q.gs.rows.length)
        rw [hgs, if_pos hgu', (gsAffineImage_fp_inv _ _ _ _ hc').1, (gsAffineImage_fp_inv _ _ _ _ hc').2, hst]
        exact hx.fpG hex hgu'
    · have hq : x.p.affine_preimage v e den = some x.p := by
        unfold Poly.affine_preimage; rw [if_pos hex]
      rw [hq]
      have hd := affine_preimage_rows_correct x.p x.p v e den ref hn hnnc hwf hx.wf hv he hden hx.den hq
      exact Inv_lift_same x _ _ hx hd
  · simp only [hc1, Bool.false_eq_true, if_false] at hLow hNPc hNPg hEng ⊢
    simp only [Bool.or_eq_true, not_or, Bool.not_eq_true] at hc1
    obtain ⟨hex, hc0⟩ := hc1
    have hc : e.coeffs.getD v 0 = 0 := by
      by_contra h
      rw [bne_iff_ne.mpr h] at hc0; cases hc0
    have hdpos : 0 < x.p.dim := Nat.lt_of_le_of_lt (Nat.zero_le _) hv
    obtain ⟨hs1, hi1, hcase⟩ := prepConsMin_facts G x _ hx hex hdpos
    generalize hx1 : x.prepConsMin = x1 at hs1 hi1 hcase hLow ⊢
    have hn1 : ref.n = x1.p.dim := by rw [hs1.2]; exact hn
    have hnnc1 : ref.nnc = x1.p.nnc := by rw [hs1.1]; exact hnnc
    have hv1 : v < x1.p.dim := by rw [hs1.2]; exact hv
    have he1 : e.coeffs.length = x1.p.dim := by rw [hs1.2]; exact he
    rcases hcase with hem1 | ⟨hne1, hcu1, hpc1⟩
    · have hq : x1.p.affine_preimage v e den = some x1.p := by
        unfold Poly.affine_preimage; rw [if_pos hem1]
      have hd := affine_preimage_rows_correct x1.p x1.p v e den ref hn1 hnnc1 hwf hi1.wf hv1 he1 hden hi1.den hq
      rw [hq]
      obtain ⟨h1, h2⟩ := Inv_lift_same x1 _ _ hi1 hd
      exact ⟨h1, h2.1.trans hs1.1, h2.2.trans hs1.2⟩
    · have hcase' : x1.p.st.cPend = true ∨
          (x1.p.st.somethingPending = false ∧ x1.p.cs.firstPending = x1.p.cs.rows.length) := by
        rcases hpc1 with h | h
        · exact Or.inl h
        · refine Or.inr ⟨h, (hi1.fpC hne1 hcu1).2 ?_⟩
          simp only [Status.somethingPending, Bool.or_eq_false_iff] at h
          exact h.1
      obtain ⟨q, hq, hqn, hqd, hqs, hqf⟩ := affine_preimage_noninv_form x1.p v e den hne1 hc hcu1 hcase'
      have hqe : q.st.empty = false := by rw [hqs]; rfl
      have hlift : x1.liftO (some q) = { x1 with p := q } := lift_of_nonempty x1 q hqe
      rw [hq] at hLow ⊢
      rw [hlift] at hLow ⊢
      refine ⟨Inv_stConsOnly _ _ hqs (by show 0 < q.dim; rw [hqd, hs1.2]; exact hdpos)
        (affine_preimage_rows_wf x1.p q v e den hi1.wf hv1 he1 hden hq)
        (affine_preimage_rows_correct x1.p q v e den ref hn1 hnnc1 hwf hi1.wf hv1 he1 hden hi1.den hq) hqf
        (hLow (by exact hex) hqe (by show q.st.cUp = true; rw [hqs]; rfl)), hqn.trans hs1.1, hqd.trans hs1.2⟩

end PPLV.PolyFull
