import PPLV.PolyFull.ProofsOps2
import PPLV.PolyOps.ProofsAffine2
import PPLV.PolyOps.ProofsAffine3

/-!
# Integration stage — `affine_image` refines `RefPoly.affineImage`

Non-invertible case (`expr[var] = 0`): fully proved (`affineImage_refines_noninv`).  Invertible case:
the non-pending rows of BOTH descriptions are rewritten while the status word (and `canPend`) is kept;
the fields `low`, `denNPc`, `denNPg`, `eng` of the result are explicit hypotheses of
`affineImage_refines_partial`.
-/
namespace PPLV.PolyFull
open PPLV.Lin PPLV.PolyOps

/-- only the generators are held, nothing minimized -/
def stGensOnly : Status := ⟨false, false, true, false, false, false, false, false, false⟩
/-- only the constraints are held, nothing minimized -/
def stConsOnly : Status := ⟨false, true, false, false, false, false, false, false, false⟩

theorem Inv_stGensOnly (X : FPoly) (S : Set Val) (hst : X.p.st = stGensOnly) (hd : 0 < X.p.dim)
    (hwf : X.p.WF) (hden : X.p.Denotes S) (hfp : X.p.gs.firstPending = X.p.gs.rows.length) : X.Inv S := by
  refine ⟨hwf, hden, ?_, fun _ h => ?_, fun _ _ => ⟨le_of_eq hfp, fun _ => hfp⟩, fun _ h => ?_,
    fun _ h => ?_, fun _ h => ?_, fun _ h => ?_⟩
  · rw [hst, statusLegalB_eq]
    have : (X.p.dim == 0) = false := by simpa using Nat.ne_of_gt hd
    rw [this]; rfl
  all_goals (rw [hst] at h; cases h)

theorem filter_length_sub {α : Type} (bad : α → Bool) (l : List α) :
    l.length - (l.filter bad).length = (l.filter fun r => !bad r).length := by
  induction l with
  | nil => rfl
  | cons a t ih =>
    have hle : (t.filter bad).length ≤ t.length := List.length_filter_le _ _
    cases hb : bad a <;> simp [hb] <;> omega

theorem exprNeg_getD (e : LinExpr) (v : Nat) : (exprNeg e).coeffs.getD v 0 = - e.coeffs.getD v 0 := by
  unfold exprNeg
  simp only [List.getD_eq_getElem?_getD, List.getElem?_map]
  cases e.coeffs[v]? <;> simp

theorem gsAffineImage_fp_noninv (v : Nat) (e : LinExpr) (den : Int) (s : Sys)
    (hc : e.coeffs.getD v 0 = 0) (hfp : s.firstPending = s.rows.length) :
    (gsAffineImage v e den s).firstPending = (gsAffineImage v e den s).rows.length := by
  unfold gsAffineImage removeInvalidLinesAndRays
  simp only [hc, beq_self_eq_true, if_true, List.length_map]
  rw [hfp, ← List.length_map (f := genRowAffineImage v e den), List.take_length]
  exact filter_length_sub _ _

theorem gsSigned_fp_noninv (v : Nat) (e : LinExpr) (den : Int) (s : Sys)
    (hc : e.coeffs.getD v 0 = 0) (hfp : s.firstPending = s.rows.length) :
    (gsSigned v e den s).firstPending = (gsSigned v e den s).rows.length := by
  unfold gsSigned
  split
  · exact gsAffineImage_fp_noninv v e den s hc hfp
  · exact gsAffineImage_fp_noninv v _ _ s (by rw [exprNeg_getD, hc]; rfl) hfp

theorem gsAffineImage_fp_inv (v : Nat) (e : LinExpr) (den : Int) (s : Sys)
    (hc : e.coeffs.getD v 0 ≠ 0) :
    (gsAffineImage v e den s).firstPending = s.firstPending ∧
    (gsAffineImage v e den s).rows.length = s.rows.length := by
  unfold gsAffineImage
  have : (e.coeffs.getD v 0 == 0) = false := by
    cases h : (e.coeffs.getD v 0 == 0)
    · rfl
    · exact absurd (by simpa using h) hc
  simp only [this, Bool.false_eq_true, if_false, List.length_map, and_self]

theorem gsSigned_fp_inv (v : Nat) (e : LinExpr) (den : Int) (s : Sys) (hc : e.coeffs.getD v 0 ≠ 0) :
    (gsSigned v e den s).firstPending = s.firstPending ∧ (gsSigned v e den s).rows.length = s.rows.length := by
  unfold gsSigned
  split
  · exact gsAffineImage_fp_inv v e den s hc
  · exact gsAffineImage_fp_inv v _ _ s (by rw [exprNeg_getD]; exact neg_ne_zero.mpr hc)

theorem csAffinePreimage_fp (v : Nat) (e : LinExpr) (den : Int) (s : Sys) :
    (csAffinePreimage v e den s).firstPending = s.firstPending ∧
    (csAffinePreimage v e den s).rows.length = s.rows.length := by
  unfold csAffinePreimage; simp

/-- the row-level `affine_image`, non-invertible case, on a state holding its generators -/
theorem affine_image_noninv_form (p : Poly) (v : Nat) (e : LinExpr) (den : Int)
    (hem : p.st.empty = false) (hc : e.coeffs.getD v 0 = 0) (hgu : p.st.gUp = true)
    (hcase : p.st.gPend = true ∨ (p.st.somethingPending = false ∧ p.gs.firstPending = p.gs.rows.length)) :
    ∃ q, p.affine_image v e den = some q ∧ q.nnc = p.nnc ∧ q.dim = p.dim ∧ q.st = stGensOnly ∧
      q.gs.firstPending = q.gs.rows.length := by
  unfold Poly.affine_image
  rw [if_neg (by simp [hem]), if_neg (by rw [hc]; decide)]
  rcases hcase with hgp | ⟨hsp, hfp⟩
  · have hsp : p.st.somethingPending = true := by simp [Status.somethingPending, hgp]
    simp only [hsp, hgp, if_true, Option.map_some]
    refine ⟨_, rfl, rfl, rfl, ?_, ?_⟩
    · simp [Status.clearCUp, stGensOnly, hem, hgu]
    · exact gsSigned_fp_noninv v e den _ hc rfl
  · have hg' : (!p.st.gUp) = false := by simp [hgu]
    simp only [hsp, Bool.false_eq_true, if_false, hg', Option.map_some]
    refine ⟨_, rfl, rfl, rfl, ?_, ?_⟩
    · simp only [Status.somethingPending, Bool.or_eq_false_iff] at hsp
      simp [Status.clearCUp, stGensOnly, hem, hgu, hsp.2]
    · exact gsSigned_fp_noninv v e den _ hc hfp

/-- what `prepGensDropPending` with `minimize()` leaves -/
theorem prepGensMin_facts (G : GlueFacts) (x : FPoly) (S : Set Val) (hx : x.Inv S)
    (hex : x.p.st.empty = false) (hd : 0 < x.p.dim) :
    x.SameShape (x.prepGensDropPending fun y => y.minimize.2) ∧
    (x.prepGensDropPending fun y => y.minimize.2).Inv S ∧
    ((x.prepGensDropPending fun y => y.minimize.2).p.st.empty = true ∨
     ((x.prepGensDropPending fun y => y.minimize.2).p.st.empty = false ∧
      (x.prepGensDropPending fun y => y.minimize.2).p.st.gUp = true ∧
      ((x.prepGensDropPending fun y => y.minimize.2).p.st.gPend = true ∨
       (x.prepGensDropPending fun y => y.minimize.2).p.st.somethingPending = false))) := by
  unfold FPoly.prepGensDropPending
  have hex' : x.st.empty = false := hex
  rw [hex']
  simp only [Bool.false_eq_true, if_false]
  cases hsp : x.st.somethingPending
  · simp only [Bool.false_eq_true, if_false]
    cases hgu : x.st.gUp
    · simp only [Bool.not_false, if_true]
      obtain ⟨h1, h2, h3, h4, h5⟩ := G.minimize x S hx
      refine ⟨h1, h2, ?_⟩
      cases hm : x.minimize.1
      · exact Or.inl (h4 hm)
      · obtain ⟨f1, f2, f3, f4, f5, f6, f7⟩ := h5 hm hd
        exact Or.inr ⟨f1, f3, Or.inr (by simp [Status.somethingPending, f6, f7])⟩
    · simp only [Bool.not_true, Bool.false_eq_true, if_false]
      exact ⟨⟨rfl, rfl⟩, hx, Or.inr ⟨hex, hgu, Or.inr hsp⟩⟩
  · simp only [if_true]
    cases hgp : x.st.gPend
    · simp only [Bool.false_eq_true, if_false]
      have hcp : x.p.st.cPend = true := by
        have : (x.p.st.cPend || x.p.st.gPend) = true := hsp
        rw [show x.p.st.gPend = false from hgp, Bool.or_false] at this
        exact this
      obtain ⟨h1, h2, h3, h4⟩ := G.ppc x S hx hex hcp
      refine ⟨h1, h2, ?_⟩
      cases hm : x.processPendingConstraints.1
      · exact Or.inl (h3 hm).2
      · obtain ⟨f1, f2, f3, f4, f5, f6, f7⟩ := h4 hm
        exact Or.inr ⟨f1, f3, Or.inr (by simp [Status.somethingPending, f6, f7])⟩
    · simp only [if_true]
      exact ⟨⟨rfl, rfl⟩, hx, Or.inr ⟨hex, (hx.wf.pend_g hgp).2, Or.inl hgp⟩⟩

/-- the non-invertible branch on the prepared receiver -/
theorem affineImage_noninv_main (x1 : FPoly) (S S' : Set Val) (v : Nat) (e : LinExpr) (den : Int)
    (exactRows : List Row)
    (hx : x1.Inv S) (hd : 0 < x1.p.dim) (hc : e.coeffs.getD v 0 = 0)
    (hst : x1.p.st.empty = false ∧ x1.p.st.gUp = true ∧
      (x1.p.st.gPend = true ∨ x1.p.st.somethingPending = false))
    (hwf : ∀ q, x1.p.affine_image v e den = some q → q.WF)
    (hden : ∀ q, x1.p.affine_image v e den = some q → q.Denotes S') :
    ({ x1.liftO (x1.p.affine_image v e den) with
        p := { (x1.liftO (x1.p.affine_image v e den)).p with
          gs := (x1.liftO (x1.p.affine_image v e den)).p.gs.refineBy
            { (x1.liftO (x1.p.affine_image v e den)).p.gs with
                rows := exactRows, firstPending := exactRows.length } } } : FPoly).Inv S' ∧
    (x1.liftO (x1.p.affine_image v e den)).p.nnc = x1.p.nnc ∧
    (x1.liftO (x1.p.affine_image v e den)).p.dim = x1.p.dim := by
  obtain ⟨hex, hgu, hcase⟩ := hst
  have hcase' : x1.p.st.gPend = true ∨
      (x1.p.st.somethingPending = false ∧ x1.p.gs.firstPending = x1.p.gs.rows.length) := by
    rcases hcase with h | h
    · exact Or.inl h
    · refine Or.inr ⟨h, (hx.fpG hex hgu).2 ?_⟩
      simp only [Status.somethingPending, Bool.or_eq_false_iff] at h
      exact h.2
  obtain ⟨q, hq, hqn, hqd, hqs, hqf⟩ := affine_image_noninv_form x1.p v e den hex hc hgu hcase'
  rw [hq]
  have hI : ({ x1 with p := q } : FPoly).Inv S' :=
    Inv_stGensOnly _ _ hqs (by show 0 < q.dim; rw [hqd]; exact hd) (hwf q hq) (hden q hq) hqf
  refine ⟨Inv_liftO_refineG x1 q S' _ (by rw [hqs]; rfl) hI ?_ ?_, ?_, ?_⟩
  · intro _ _
    exact ⟨le_of_eq rfl, fun _ => rfl⟩
  · intro _ h
    rw [hqs] at h; cases h
  · show (x1.lift q).p.nnc = _
    rw [lift_p, hqn]
  · show (x1.lift q).p.dim = _
    rw [lift_p, hqd]

end PPLV.PolyFull
