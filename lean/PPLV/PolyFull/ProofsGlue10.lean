import PPLV.PolyFull.ProofsGlue9
import PPLV.Conv.ProofsCompleteMin2

/-!
# Integration stage — the preparation of `process_pending_constraints` keeps the double description pair

`sortKeepsPairC`: `SortKeepsPairC`.  The WIDTH of the saturation matrices (`EnginePair.satC/satG`:
`sat_c.num_columns()` = number of non-pending constraints, `sat_g.num_columns()` = number of non-pending
generators, for the matrices flagged up to date) is what `Bit_Matrix::transpose_assign` turns into the
height of the result.
-/
namespace PPLV.PolyFull
open PPLV.Lin PPLV.PolyOps
open PPLV.Conv (LRow BRow Vec Sound SatCorrect holds holdsAll Generated scalarProduct)

/-- `m` is the exact `sat_c` (rows = generators `gs`, columns = constraints `np`) of the right width -/
def VCl (nnc : Bool) (gs np : List Row) (m : BitMat) : Prop :=
  SatCorrect (np.map (toL nnc)) (gs.map (toL nnc)) m.rows ∧ m.ncols = np.length
/-- `m` is the exact `sat_g` (rows = constraints `np`, columns = generators `gs`) of the right width -/
def VGl (nnc : Bool) (gs np : List Row) (m : BitMat) : Prop :=
  SatCorrect (gs.map (toL nnc)) (np.map (toL nnc)) m.rows ∧ m.ncols = gs.length

theorem VGl.transpose {nnc : Bool} {gs np : List Row} {m : BitMat} (h : VGl nnc gs np m) :
    VCl nnc gs np m.transposeOf := by
  have := PPLV.Conv.satCorrect_transpose _ _ _ h.1
  rw [List.length_map, ← h.2] at this
  refine ⟨this, ?_⟩
  show m.rows.length = np.length
  rw [h.1.1, List.length_map]

theorem VCl.transpose {nnc : Bool} {gs np : List Row} {m : BitMat} (h : VCl nnc gs np m) :
    VGl nnc gs np m.transposeOf := by
  have := PPLV.Conv.satCorrect_transpose _ _ _ h.1
  rw [List.length_map, ← h.2] at this
  refine ⟨this, ?_⟩
  show m.rows.length = gs.length
  rw [h.1.1, List.length_map]

/-- `obtain_sorted_constraints_with_sat_c()` on an unsorted system of a minimal pair -/
theorem osc_keeps (nnc : Bool) (n : Nat) (gs : List Row) (y : FPoly) (hn : y.p.nnc = nnc)
    (hs : y.p.cs.sorted = false) (hf : y.p.st.satC = true ∨ y.p.st.satG = true)
    (hfp : y.p.cs.firstPending ≤ y.p.cs.rows.length)
    (hcore : EnginePair nnc n y.npC gs false false BitMat.clear BitMat.clear)
    (hVC : VCl nnc gs y.npC y.satC) (hVG : y.p.st.satG = true → VGl nnc gs y.npC y.satG) :
    y.obtainSortedConstraintsWithSatC.p.cs.firstPending ≤ y.obtainSortedConstraintsWithSatC.p.cs.rows.length ∧
    (∀ r, r ∈ y.obtainSortedConstraintsWithSatC.p.cs.rows ↔ r ∈ y.p.cs.rows) ∧
    (∀ r, r ∈ y.obtainSortedConstraintsWithSatC.npC ↔ r ∈ y.npC) ∧
    EnginePair nnc n y.obtainSortedConstraintsWithSatC.npC gs true true
      y.obtainSortedConstraintsWithSatC.satC y.obtainSortedConstraintsWithSatC.satG ∧
    y.obtainSortedConstraintsWithSatC.p.st.satG = true := by
  have e1 : oscStep1 y = y := by
    unfold oscStep1
    rcases hf with h | h <;> simp [FPoly.st, h]
  have e : y.obtainSortedConstraintsWithSatC = oscStep3 (oscSort (oscTransG y)) := by
    rw [osc_eq, e1]
    simp [hs, oscStep2]
  -- the transposition
  have hcs1 : (oscTransG y).p.cs = y.p.cs := by unfold oscTransG; split <;> rfl
  have hn1 : (oscTransG y).nnc = nnc := by unfold oscTransG; split <;> exact hn
  have hg1 : (oscTransG y).p.st.satG = true := by
    unfold oscTransG
    split
    · rfl
    · rename_i h; simpa [FPoly.st] using h
  have hVG1 : VGl nnc gs y.npC (oscTransG y).satG := by
    unfold oscTransG
    split
    · exact hVC.transpose
    · rename_i h; exact hVG (by simpa [FPoly.st] using h)
  -- the sort
  have hnpl : y.npC.length = y.p.cs.firstPending := by
    unfold FPoly.npC; rw [List.length_take]; omega
  have hsl : (oscTransG y).satG.rows.length = y.p.cs.firstPending := by
    rw [hVG1.1.1, List.length_map, hnpl]
  obtain ⟨ps, hperm, hrows, hfp', hsat, hnc⟩ := sortAndRemoveWithSat_nodup false nnc y.p.cs (oscTransG y).satG
    hfp hcore.nodupC hsl
  have hz1 : ((y.p.cs.rows.take y.p.cs.firstPending).zip (oscTransG y).satG.rows).map (·.1) = y.npC :=
    List.map_fst_zip (by rw [hsl, List.length_take]; omega)
  have hz2 : ((y.p.cs.rows.take y.p.cs.firstPending).zip (oscTransG y).satG.rows).map (·.2) =
      (oscTransG y).satG.rows :=
    List.map_snd_zip (by rw [hsl, List.length_take]; omega)
  have hp1 : (ps.map (·.1)).Perm y.npC := by rw [← hz1]; exact hperm.map _
  have hcsE : y.obtainSortedConstraintsWithSatC.p.cs.rows =
      ((oscTransG y).p.cs.sortAndRemoveWithSat false (oscTransG y).nnc (oscTransG y).satG).1.rows := by
    rw [e]; rfl
  have hfpE : y.obtainSortedConstraintsWithSatC.p.cs.firstPending =
      ((oscTransG y).p.cs.sortAndRemoveWithSat false (oscTransG y).nnc (oscTransG y).satG).1.firstPending := by
    rw [e]; rfl
  have hsgE : y.obtainSortedConstraintsWithSatC.satG =
      ((oscTransG y).p.cs.sortAndRemoveWithSat false (oscTransG y).nnc (oscTransG y).satG).2 := by
    rw [e]; rfl
  have hscE : y.obtainSortedConstraintsWithSatC.satC =
      ((oscTransG y).p.cs.sortAndRemoveWithSat false (oscTransG y).nnc (oscTransG y).satG).2.transposeOf := by
    rw [e]; rfl
  have hstE : y.obtainSortedConstraintsWithSatC.p.st.satG = (oscTransG y).p.st.satG := by
    rw [e]; rfl
  rw [hcs1, hn1] at hcsE hfpE hsgE hscE
  rw [hrows] at hcsE
  rw [hfp'] at hfpE
  have hpsl : (ps.map (·.1)).length = y.p.cs.firstPending := by rw [hp1.length_eq, hnpl]
  have hnpE : y.obtainSortedConstraintsWithSatC.npC = ps.map (·.1) := by
    unfold FPoly.npC
    rw [hcsE, hfpE]
    exact List.take_left' hpsl
  have hVG2 : VGl nnc gs (ps.map (·.1)) y.obtainSortedConstraintsWithSatC.satG := by
    rw [hsgE]
    refine ⟨?_, by rw [hnc]; exact hVG1.2⟩
    rw [hsat]
    apply satCorrect_perm nnc _ _ _ hperm
    rw [hz1, hz2]
    exact hVG1.1
  have hVC2 : VCl nnc gs (ps.map (·.1)) y.obtainSortedConstraintsWithSatC.satC := by
    rw [hscE, ← hsgE]
    exact hVG2.transpose
  refine ⟨?_, ?_, ?_, ?_, by rw [hstE]; exact hg1⟩
  · rw [hcsE, hfpE, List.length_append]; omega
  · intro r
    rw [hcsE, ← List.take_append_drop y.p.cs.firstPending y.p.cs.rows, List.mem_append, List.mem_append,
      List.take_append_drop]
    exact or_congr (hp1.mem_iff) Iff.rfl
  · intro r
    rw [hnpE]; exact hp1.mem_iff
  · rw [hnpE]
    have := hcore.permC hp1 y.obtainSortedConstraintsWithSatC.satC y.obtainSortedConstraintsWithSatC.satG
      (fun h' => (by cases h'))
    exact ⟨this.sound, this.complete, this.minC, this.minG, this.minL, fun _ => hVC2, fun _ => hVG2⟩

/-- **the preparation of `process_pending_constraints` keeps the pair** -/
theorem sortKeepsPairC : SortKeepsPairC := by
  intro x S hx he hcp
  have hcan := legal_cPend hx.legal hcp
  obtain ⟨hcm, hgm, hsat⟩ := (canPend_iff _).mp hcan
  have hcu := legal_cMin hx.legal hcm
  have hgu := legal_gMin hx.legal hgm
  have hgp : x.p.st.gPend = false := by
    cases h : x.p.st.gPend
    · rfl
    · exact absurd ⟨hcp, h⟩ (legal_not_both hx.legal)
  have hfpG := (hx.fpG he hgu).2 hgp
  have hfpC := (hx.fpC he hcu).1
  have hnpG : x.npG = x.p.gs.rows := by unfold FPoly.npG; rw [hfpG, List.take_length]
  have E := hx.eng he hcan
  rw [hnpG] at E
  have hcore : EnginePair x.p.nnc x.p.dim x.npC x.p.gs.rows false false BitMat.clear BitMat.clear :=
    (E.dropC _).dropG _
  have hyp : (ppcStep0 x).p = x.p := by unfold ppcStep0; split <;> rfl
  have hyG : (ppcStep0 x).satG = x.satG := by unfold ppcStep0; split <;> rfl
  have hynp : (ppcStep0 x).npC = x.npC := by unfold FPoly.npC; rw [hyp]
  have hVG : x.p.st.satG = true → VGl x.p.nnc x.p.gs.rows x.npC x.satG := fun h => E.satG h
  have hVC : VCl x.p.nnc x.p.gs.rows x.npC (ppcStep0 x).satC := by
    unfold ppcStep0
    split
    · rename_i h
      have hC : x.p.st.satC = false := by simpa [FPoly.st] using h
      have hG : x.p.st.satG = true := by
        rcases hsat with h' | h'
        · rw [hC] at h'; cases h'
        · exact h'
      exact (hVG hG).transpose
    · rename_i h
      have hC : x.p.st.satC = true := by simpa [FPoly.st] using h
      exact E.satC hC
  rw [ppcPrepared_eq]
  cases hs : x.p.cs.sorted
  · have e : (if !(ppcStep0 x).p.cs.sorted then (ppcStep0 x).obtainSortedConstraintsWithSatC
        else ppcStep0 x) = (ppcStep0 x).obtainSortedConstraintsWithSatC := by simp [hyp, hs]
    rw [e]
    obtain ⟨k1, k2, k3, k4, k5⟩ := osc_keeps x.p.nnc x.p.dim x.p.gs.rows (ppcStep0 x) (by rw [hyp])
      (by rw [hyp]; exact hs) (by rw [hyp]; exact hsat) (by rw [hyp]; exact hfpC)
      (by rw [hynp]; exact hcore) (by rw [hynp]; exact hVC)
      (fun h => by rw [hynp, hyG]; exact hVG (by rw [hyp] at h; exact h))
    refine ⟨k1, fun r => ?_, fun r => ?_, ?_⟩
    · rw [k2 r, hyp]
    · rw [k3 r, hynp]
    · rw [k5]; exact k4
  · have e : (if !(ppcStep0 x).p.cs.sorted then (ppcStep0 x).obtainSortedConstraintsWithSatC
        else ppcStep0 x) = ppcStep0 x := by simp [hyp, hs]
    rw [e]
    refine ⟨by rw [hyp]; exact hfpC, fun r => by rw [hyp], fun r => by rw [hynp], ?_⟩
    rw [hynp, hyG, hyp]
    exact ⟨E.sound, E.complete, E.minC, E.minG, E.minL, fun _ => hVC, E.satG⟩

end PPLV.PolyFull
