import PPLV.PolyFull.ProofsOps6d
import PPLV.PolyOps.ProofsDims2

/-!
# Integration stage — the invariant without its engine clause, and `refineBy` on it

`add_space_dimensions_and_embed/_project` and `concatenate_assign` REWRITE the non-pending rows of a
pair that can have pending rows (zero columns, new lines in front, new empty saturation rows): the
clause `eng` of `FPoly.Inv` for the result is not derivable from `GlueFacts` (nothing is known there of
`update_sat_c` / `update_sat_g`) and is taken as a hypothesis by the `…_refines_partial` theorems;
every other clause is proved here.
-/
namespace PPLV.PolyFull
open PPLV.Lin PPLV.PolyOps
open PPLV.Conv (holdsAll holds)

/-- `FPoly.Inv` without the clause `eng` -/
structure FPoly.InvNoEng (x : FPoly) (S : Set Val) : Prop where
  wf : x.p.WF
  den : x.p.Denotes S
  legal : statusLegalB x.p.st x.p.dim = true
  fpC : x.p.st.empty = false → x.p.st.cUp = true →
    x.p.cs.firstPending ≤ x.p.cs.rows.length ∧ (x.p.st.cPend = false → x.p.cs.firstPending = x.p.cs.rows.length)
  fpG : x.p.st.empty = false → x.p.st.gUp = true →
    x.p.gs.firstPending ≤ x.p.gs.rows.length ∧ (x.p.st.gPend = false → x.p.gs.firstPending = x.p.gs.rows.length)
  low : x.p.st.empty = false → x.p.st.cUp = true → LowLevel x.p.nnc x.p.dim x.p.cs.rows
  denNPc : x.p.st.empty = false → x.p.st.cPend = true → genSem x.p.nnc x.p.dim x.p.gs.rows = conSem x.p.nnc x.npC
  denNPg : x.p.st.empty = false → x.p.st.gPend = true → conSem x.p.nnc x.p.cs.rows = genSem x.p.nnc x.p.dim x.npG

/-- the engine clause of `FPoly.Inv`, as a proposition about one object -/
def FPoly.EngClause (x : FPoly) : Prop :=
  x.p.st.empty = false → x.p.st.canPend = true →
    EnginePair x.p.nnc x.p.dim x.npC x.npG x.p.st.satC x.p.st.satG x.satC x.satG

theorem FPoly.InvNoEng.toInv {x : FPoly} {S : Set Val} (h : x.InvNoEng S) (he : x.EngClause) : x.Inv S :=
  ⟨h.wf, h.den, h.legal, h.fpC, h.fpG, h.low, h.denNPc, h.denNPg, he⟩

theorem FPoly.Inv.noEng {x : FPoly} {S : Set Val} (h : x.Inv S) : x.InvNoEng S :=
  ⟨h.wf, h.den, h.legal, h.fpC, h.fpG, h.low, h.denNPc, h.denNPg⟩

/-- the clauses other than `eng` do not look at the saturation matrices -/
theorem FPoly.InvNoEng.sat {x : FPoly} {S : Set Val} (h : x.InvNoEng S) (a b : BitMat) :
    ({ x with satC := a, satG := b } : FPoly).InvNoEng S :=
  ⟨h.wf, h.den, h.legal, h.fpC, h.fpG, h.low, h.denNPc, h.denNPg⟩

theorem InvNoEng_refineC (X : FPoly) (S : Set Val) (exact : Sys) (hX : X.InvNoEng S)
    (hfp : X.p.st.empty = false → X.p.st.cUp = true →
      exact.firstPending ≤ exact.rows.length ∧ (X.p.st.cPend = false → exact.firstPending = exact.rows.length)) :
    ({ X with p := { X.p with cs := X.p.cs.refineBy exact } } : FPoly).InvNoEng S := by
  rcases refineBy_cases X.p.cs exact with h | ⟨h, hnp, hpd⟩
  · rw [h]; exact hX
  · rw [h]
    have hall := mem_of_take_drop hnp hpd
    have hcon : conSem X.p.nnc exact.rows = conSem X.p.nnc X.p.cs.rows :=
      conSem_congr_mem _ _ _ (fun r => (hall r).symm)
    refine ⟨⟨fun he hc r hr => hX.wf.cs_len he hc r ((hall r).mpr hr), hX.wf.gs_wf, hX.wf.gs_pt,
        hX.wf.pend_c, hX.wf.pend_g, hX.wf.pend_one, hX.wf.some_up, hX.wf.zero_dim⟩,
      ⟨hX.den.1, fun he => ⟨fun hc hg => hcon.trans ((hX.den.2 he).1 hc hg), (hX.den.2 he).2.1,
        (hX.den.2 he).2.2⟩⟩, hX.legal, hfp, hX.fpG,
      fun he hc => LowLevel.mono (fun r hr => (hall r).mp hr) (hX.low he hc), ?_, ?_⟩
    · intro he hcp
      exact (hX.denNPc he hcp).trans (conSem_congr_mem _ _ _ hnp)
    · intro he hgp
      exact hcon.trans (hX.denNPg he hgp)

theorem InvNoEng_refineG (X : FPoly) (S : Set Val) (exact : Sys) (hX : X.InvNoEng S)
    (hfp : X.p.st.empty = false → X.p.st.gUp = true →
      exact.firstPending ≤ exact.rows.length ∧ (X.p.st.gPend = false → exact.firstPending = exact.rows.length)) :
    ({ X with p := { X.p with gs := X.p.gs.refineBy exact } } : FPoly).InvNoEng S := by
  rcases refineBy_cases X.p.gs exact with h | ⟨h, hnp, hpd⟩
  · rw [h]; exact hX
  · rw [h]
    have hall := mem_of_take_drop hnp hpd
    have hgen : X.p.st.empty = false → X.p.st.gUp = true →
        genSem X.p.nnc X.p.dim exact.rows = genSem X.p.nnc X.p.dim X.p.gs.rows := fun he hg =>
      (genSem_congr_mem _ _ _ _ (hX.wf.gs_wf he hg) hall).symm
    refine ⟨⟨hX.wf.cs_len, fun he hg r hr => hX.wf.gs_wf he hg r ((hall r).mpr hr), ?_,
        hX.wf.pend_c, hX.wf.pend_g, hX.wf.pend_one, hX.wf.some_up, hX.wf.zero_dim⟩,
      ⟨hX.den.1, fun he => ⟨(hX.den.2 he).1, fun hg hc => (hgen he hg).trans ((hX.den.2 he).2.1 hg hc),
        (hX.den.2 he).2.2⟩⟩, hX.legal, hX.fpC, hfp, hX.low, ?_, ?_⟩
    · intro he hg
      obtain ⟨r, hr, hp⟩ := hX.wf.gs_pt he hg
      exact ⟨r, (hall r).mp hr, hp⟩
    · intro he hcp
      exact (hgen he (hX.wf.pend_c hcp).2).trans (hX.denNPc he hcp)
    · intro he hgp
      have hg := (hX.wf.pend_g hgp).2
      refine (hX.denNPg he hgp).trans ?_
      exact genSem_congr_mem _ _ _ _ (fun r hr => hX.wf.gs_wf he hg r (List.mem_of_mem_take hr)) hnp

theorem take_append_len {α : Type} (N L : List α) (k m : Nat) (h : N.length = m) :
    (N ++ L).take (k + m) = N ++ L.take k := by
  subst h
  rw [Nat.add_comm, List.take_length_add_append]

theorem ite_rows_length {α : Type} (c : Bool) (a : α) (f g : Nat → α) (m : Nat) (hm : 0 < m) :
    (if c = true then a :: (List.range (m - 1)).map f else (List.range m).map g).length = m := by
  cases c
  · simp
  · simp; omega

/-- `addUniverseRowsExact`: `m` new rows in front, all of them non-pending -/
theorem addUniverseRowsExact_fp (gen nnc : Bool) (n m : Nat) (s : Sys) (hm : 0 < m) :
    (FPoly.addUniverseRowsExact gen nnc n m s).firstPending = s.firstPending + m ∧
    (FPoly.addUniverseRowsExact gen nnc n m s).rows.length = s.rows.length + m := by
  unfold FPoly.addUniverseRowsExact
  refine ⟨rfl, ?_⟩
  show List.length (_ ++ _) = _
  rw [List.length_append, List.length_map, ite_rows_length _ _ _ _ _ hm]; omega

theorem addUniverseRows_fp (nnc : Bool) (n m : Nat) (s : Sys) (hm : 0 < m) :
    (s.addUniverseRows nnc n m).firstPending = s.firstPending + m ∧
    (s.addUniverseRows nnc n m).rows.length = s.rows.length + m := by
  unfold Sys.addUniverseRows
  refine ⟨rfl, ?_⟩
  show List.length (_ ++ _) = _
  rw [List.length_append, List.length_map, ite_rows_length _ _ _ _ _ hm]; omega

/-- the non-pending part of `addUniverseRows` is `addUniverseRows` of the non-pending part -/
theorem addUniverseRows_take (nnc : Bool) (n m : Nat) (s : Sys) (hm : 0 < m) :
    (s.addUniverseRows nnc n m).rows.take (s.addUniverseRows nnc n m).firstPending =
      (({ s with rows := s.rows.take s.firstPending } : Sys).addUniverseRows nnc n m).rows := by
  unfold Sys.addUniverseRows
  simp only
  rw [take_append_len _ _ _ _ (ite_rows_length _ _ _ _ _ hm), List.map_take]

end PPLV.PolyFull
