import PPLV.PolyFull.ProofsOps11d

/-!
# Integration stage — the invertible affine map keeps `complete` and `minC`
-/
namespace PPLV.PolyFull
open PPLV.Lin PPLV.PolyOps
open PPLV.Conv (scalarProduct holds holdsAll Vec sp_eq_sum sp_comm Sound SatCorrect satisfies Generated LRow
  colVec sp_colVec)

theorem eraseIdx_map' {α β : Type} (f : α → β) : ∀ (l : List α) (i : Nat),
    (l.map f).eraseIdx i = (l.eraseIdx i).map f
  | [], _ => rfl
  | _ :: _, 0 => rfl
  | a :: l, i + 1 => by simp [List.eraseIdx, eraseIdx_map' f l i]

/-- a rewritten constraint row at `X` is the old row at `B X` -/
theorem holds_Fc {nnc n v Eg dg Ec dc} (D : AffData nnc n v Eg dg Ec dc) (c : Row) (hc : c.cf.length = n)
    (X : Vec) (hX : X.length ≤ numCols nnc n) :
    holds (toL nnc (Fc v Ec dc c)) X ↔ holds (toL nnc c) (subVec (numCols nnc n) v Ec dc X) := by
  unfold Fc
  rw [holds_strongNormalize]
  exact holds_conRow nnc n v Ec dc c X hc D.hEc D.hv D.hdc hX

theorem holds_BA {nnc n v Eg dg Ec dc} (D : AffData nnc n v Eg dg Ec dc) (c : Row)
    (X : Vec) (hX : X.length ≤ numCols nnc n) :
    holds (toL nnc c) (subVec (numCols nnc n) v Ec dc (subVec (numCols nnc n) v Eg dg X)) ↔
      holds (toL nnc c) X :=
  holds_of_sp_pos _ _ _ X (dc * dg) (mul_pos D.hdc D.hdg) rfl
    (subVec_comp (numCols nnc n) v Ec dc Eg dg D.hvN D.hBA (toL nnc c).v X hX)

theorem minC_affine {nnc n v Eg dg Ec dc} (D : AffData nnc n v Eg dg Ec dc) (cs : List Row)
    (hcs : ∀ c ∈ cs, c.cf.length = n)
    (h : ∀ i, i < cs.length → ∃ x : Vec, x.length ≤ numCols nnc n ∧
      holdsAll ((cs.eraseIdx i).map (toL nnc)) x ∧ ¬ holdsAll (cs.map (toL nnc)) x) :
    ∀ i, i < (cs.map (Fc v Ec dc)).length → ∃ x : Vec, x.length ≤ numCols nnc n ∧
      holdsAll (((cs.map (Fc v Ec dc)).eraseIdx i).map (toL nnc)) x ∧
        ¬ holdsAll ((cs.map (Fc v Ec dc)).map (toL nnc)) x := by
  intro i hi
  obtain ⟨x0, hx0, hall, hnot⟩ := h i (by simpa using hi)
  have hAl : (subVec (numCols nnc n) v Eg dg x0).length ≤ numCols nnc n := by rw [subVec_length]
  refine ⟨subVec (numCols nnc n) v Eg dg x0, hAl, ?_, ?_⟩
  · rw [eraseIdx_map']
    intro l hl
    obtain ⟨c', hc', rfl⟩ := List.mem_map.mp hl
    obtain ⟨c, hc, rfl⟩ := List.mem_map.mp hc'
    have hcm : c ∈ cs := List.mem_of_mem_eraseIdx hc
    rw [holds_Fc D c (hcs c hcm) _ hAl, holds_BA D c x0 hx0]
    exact hall _ (List.mem_map.mpr ⟨c, hc, rfl⟩)
  · intro hall'
    apply hnot
    intro l hl
    obtain ⟨c, hc, rfl⟩ := List.mem_map.mp hl
    have := hall' (toL nnc (Fc v Ec dc c)) (List.mem_map.mpr ⟨_, List.mem_map.mpr ⟨c, hc, rfl⟩, rfl⟩)
    rw [holds_Fc D c (hcs c hc) _ hAl, holds_BA D c x0 hx0] at this
    exact this

theorem sum_lin (l : List Nat) (f1 f2 f3 : Nat → Int) (a b d : Int) :
    a * (l.map f1).sum + b * ((l.map f2).sum - d * (l.map f3).sum) =
      (l.map fun i => a * f1 i + b * (f2 i - d * f3 i)).sum := by
  induction l with
  | nil => simp
  | cons x l ih => simp only [List.map_cons, List.sum_cons, ← ih]; ring

theorem sum_map_congr (l : List Nat) (f g : Nat → Int) (h : ∀ i ∈ l, f i = g i) :
    (l.map f).sum = (l.map g).sum := by
  rw [List.map_congr_left h]

/-- a combination of `gs` that gives `Y` gives, row by row rewritten, `A Y` up to the factors -/
theorem generated_affine {nnc n v Eg dg Ec dc} (D : AffData nnc n v Eg dg Ec dc) (gs : List Row)
    (hgs : ∀ g ∈ gs, g.cf.length = n) (Y x : Vec) (hY : Y.length ≤ numCols nnc n) (κ : Int) (hκ : 0 < κ)
    (hx : ∀ a : Vec, scalarProduct a (subVec (numCols nnc n) v Eg dg Y) = κ * scalarProduct a x)
    (h : Generated (gs.map (toL nnc)) Y) :
    Generated ((gs.map (Fg v Eg dg)).map (toL nnc)) x := by
  obtain ⟨den, coef, hden, hlen, hnn, hid⟩ := h
  have hex : ∀ g : Row, ∃ s : Int, g ∈ gs → (s ≠ 0 ∧ (g.eq = false → 0 < s) ∧
      ∀ a : Vec, scalarProduct a (subVec (numCols nnc n) v Eg dg (Lv nnc g)) =
        s * scalarProduct a (Lv nnc (Fg v Eg dg g))) := by
    intro g
    by_cases hg : g ∈ gs
    · obtain ⟨s, h1, h2, _, _, h3⟩ := genRow_factor nnc n v Eg dg g (hgs g hg) D.hEg D.hv
      exact ⟨s, fun _ => ⟨h1, h2, h3⟩⟩
    · exact ⟨0, fun h => absurd h hg⟩
  choose σ hσ using hex
  have hm : (gs.map (toL nnc)).length = gs.length := by simp
  have hm' : ((gs.map (Fg v Eg dg)).map (toL nnc)).length = gs.length := by simp
  refine ⟨den * κ, (List.range gs.length).map (fun i => coef.getD i 0 * σ (gs.getD i default)),
    mul_pos hden hκ, by simp, ?_, ?_⟩
  · intro i hi hle
    have hi' : i < gs.length := by rw [← hm']; exact hi
    have hgi := getD_mem gs i hi'
    have e1 : ((gs.map (Fg v Eg dg)).map (toL nnc))[i] = toL nnc (Fg v Eg dg (gs.getD i default)) := by
      rw [← getD_map_map nnc gs _ i hi', List.getD_eq_getElem?_getD, List.getElem?_eq_getElem hi]; rfl
    rw [e1, toL_le, (Fg_eq D _ (hgs _ hgi)).1] at hle
    have e2 : (gs.map (toL nnc))[i]'(by rw [hm]; exact hi') = toL nnc (gs.getD i default) := by
      rw [← getD_map_toL nnc gs i hi', List.getD_eq_getElem?_getD,
        List.getElem?_eq_getElem (by rw [hm]; exact hi')]; rfl
    have hc0 := hnn i (by rw [hm]; exact hi') (by rw [e2]; exact hle)
    have : (List.map (fun i => coef.getD i 0 * σ (gs.getD i default)) (List.range gs.length)).getD i 0 =
        coef.getD i 0 * σ (gs.getD i default) := by
      simp [List.getD_eq_getElem?_getD, hi']
    rw [this]
    exact mul_nonneg hc0 (le_of_lt ((hσ _ hgi).2.1 hle))
  · intro c
    rw [hm'] 
    rw [hm] at hid
    have hvN := D.hvN
    calc den * κ * scalarProduct c x
        = den * scalarProduct c (subVec (numCols nnc n) v Eg dg Y) := by rw [hx c]; ring
      _ = dg * (den * scalarProduct c Y) + c.getD (v + 1) 0 *
            (den * scalarProduct (Ev Eg) Y - dg * (den * scalarProduct (colVec (v + 1)) Y)) := by
          rw [sp_subVec' _ v Eg dg c Y hvN hY, sp_colVec]; ring
      _ = _ := by
          rw [hid c, hid (Ev Eg), hid (colVec (v + 1)), sum_lin]
          apply sum_map_congr
          intro i hi
          have hi' : i < gs.length := List.mem_range.mp hi
          have hgi := getD_mem gs i hi'
          have hL : (Lv nnc (gs.getD i default)).length ≤ numCols nnc n := by
            rw [Lv_length nnc n _ (hgs _ hgi)]
          rw [getD_map_toL nnc gs i hi', getD_map_map nnc gs _ i hi', toL_v, toL_v]
          have e := (hσ _ hgi).2.2 c
          rw [sp_subVec' _ v Eg dg c _ hvN hL, ← sp_colVec (v + 1) (Lv nnc (gs.getD i default))] at e
          have hget : (List.map (fun i => coef.getD i 0 * σ (gs.getD i default)) (List.range gs.length)).getD i 0 =
              coef.getD i 0 * σ (gs.getD i default) := by
            simp [List.getD_eq_getElem?_getD, hi']
          rw [hget]
          linear_combination coef.getD i 0 * e

theorem complete_affine {nnc n v Eg dg Ec dc} (D : AffData nnc n v Eg dg Ec dc) (cs gs : List Row)
    (hcs : ∀ c ∈ cs, c.cf.length = n) (hgs : ∀ g ∈ gs, g.cf.length = n)
    (h : ∀ x : Vec, x.length ≤ numCols nnc n → holdsAll (cs.map (toL nnc)) x → Generated (gs.map (toL nnc)) x) :
    ∀ x : Vec, x.length ≤ numCols nnc n → holdsAll ((cs.map (Fc v Ec dc)).map (toL nnc)) x →
      Generated ((gs.map (Fg v Eg dg)).map (toL nnc)) x := by
  intro x hx hall
  have hBl : (subVec (numCols nnc n) v Ec dc x).length ≤ numCols nnc n := by rw [subVec_length]
  have hold : holdsAll (cs.map (toL nnc)) (subVec (numCols nnc n) v Ec dc x) := by
    intro l hl
    obtain ⟨c, hc, rfl⟩ := List.mem_map.mp hl
    have := hall (toL nnc (Fc v Ec dc c)) (List.mem_map.mpr ⟨_, List.mem_map.mpr ⟨c, hc, rfl⟩, rfl⟩)
    exact (holds_Fc D c (hcs c hc) x hx).mp this
  have hgen := h _ hBl hold
  exact generated_affine D gs hgs _ x hBl (dg * dc) (mul_pos D.hdg D.hdc)
    (fun a => subVec_comp (numCols nnc n) v Eg dg Ec dc D.hvN D.hAB a x hx) hgen

end PPLV.PolyFull
