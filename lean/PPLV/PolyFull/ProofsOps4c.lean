import PPLV.PolyFull.ProofsOps2
import PPLV.PolyOps.ProofsLattice15

/-!
# Integration stage — `time_elapse_assign` refines `timeElapseGens`: the main branch
-/
namespace PPLV.PolyFull
open PPLV.Lin PPLV.PolyOps

theorem time_elapse_nil (x y : Poly) (hex : x.st.empty = false) (hey : y.st.empty = false)
    (hd : x.dim ≠ 0) (hgx : x.st.gUp = true) (hcx : x.st.cPend = false) (hgy : y.st.gUp = true)
    (hcy : y.st.cPend = false) (hnil : (timeElapseRows x.nnc y.gs.rows).isEmpty = true) :
    x.time_elapse_assign y = some x := by
  simp [Poly.time_elapse_assign, Poly.obtainGeneratorsPendingNoConv, hex, hey, hd, hcx, hgx, hcy, hgy, hnil]

theorem time_elapse_pend (x y : Poly) (hex : x.st.empty = false) (hey : y.st.empty = false)
    (hd : x.dim ≠ 0) (hgx : x.st.gUp = true) (hcx : x.st.cPend = false) (hgy : y.st.gUp = true)
    (hcy : y.st.cPend = false) (hnil : (timeElapseRows x.nnc y.gs.rows).isEmpty = false)
    (hcp : x.st.canPend = true) :
    x.time_elapse_assign y =
      some { x with gs := x.gs.insertPendingSys (timeElapseRows x.nnc y.gs.rows),
                    st := { x.st with gPend := true } } := by
  simp [Poly.time_elapse_assign, Poly.obtainGeneratorsPendingNoConv, hex, hey, hd, hcx, hgx, hcy, hgy, hnil, hcp]

theorem time_elapse_nonpend (x y : Poly) (hex : x.st.empty = false) (hey : y.st.empty = false)
    (hd : x.dim ≠ 0) (hgx : x.st.gUp = true) (hcx : x.st.cPend = false) (hgy : y.st.gUp = true)
    (hcy : y.st.cPend = false) (hnil : (timeElapseRows x.nnc y.gs.rows).isEmpty = false)
    (hcp : x.st.canPend = false) :
    x.time_elapse_assign y =
      some { x with gs := x.gs.mergeRowsAssign (timeElapseRows x.nnc y.gs.rows),
                    st := ({ x.st with gMin := false }).clearCUp } := by
  simp [Poly.time_elapse_assign, Poly.obtainGeneratorsPendingNoConv, hex, hey, hd, hcx, hgx, hcy, hgy, hnil, hcp]

/-- the main branch of `time_elapse_assign` on prepared operands: the invariant holds both of the
    plain `PolyOps` result (the `live == 0` exit) and of the result with the generator system
    replaced through `refineBy` by any system `E` that, on a pair that can have pending rows, is the
    receiver's system with pending rows appended, and otherwise has nothing pending -/
theorem time_elapse_main (x y : FPoly) (S Sy S' : Set Val) (E : Sys) (hx : x.Inv S) (hy : y.Inv Sy)
    (hdim : y.p.dim = x.p.dim) (hnnc : y.p.nnc = x.p.nnc)
    (hex : x.p.st.empty = false) (hey : y.p.st.empty = false) (hd : x.p.dim ≠ 0)
    (hgx : x.p.st.gUp = true) (hcx : x.p.st.cPend = false) (hgy : y.p.st.gUp = true)
    (hcy : y.p.st.cPend = false)
    (hden : ∀ q, x.p.time_elapse_assign y.p = some q → q.Denotes S')
    (hEp : x.p.st.canPend = true → ∃ t, E = x.p.gs.insertPendingSys t)
    (hEn : x.p.st.canPend = false → E.firstPending = E.rows.length) :
    (x.liftO (x.p.time_elapse_assign y.p)).Inv S' ∧
    ({ x.liftO (x.p.time_elapse_assign y.p) with
        p := { (x.liftO (x.p.time_elapse_assign y.p)).p with
          gs := (x.liftO (x.p.time_elapse_assign y.p)).p.gs.refineBy E } } : FPoly).Inv S' ∧
    (x.liftO (x.p.time_elapse_assign y.p)).p.nnc = x.p.nnc ∧
    (x.liftO (x.p.time_elapse_assign y.p)).p.dim = x.p.dim := by
  have hwfq : ∀ q, x.p.time_elapse_assign y.p = some q → q.WF := fun q h =>
    time_elapse_assign_rows_wf x.p y.p q hdim hnnc hx.wf hy.wf
      (fun h => (legal_canPend_up hx.legal h).1) (legal_gPend_canPend hx.legal) h
  have hfpx := hx.fpG hex hgx
  cases hnil : (timeElapseRows x.p.nnc y.p.gs.rows).isEmpty
  · cases hcp : x.p.st.canPend
    · have hq := time_elapse_nonpend x.p y.p hex hey hd hgx hcx hgy hcy hnil hcp
      rw [hq]
      have hI := Inv_nonpendG x S S' _ hx hex hgx hcp (mergeRowsAssign_fp _ _) (hwfq _ hq) (hden _ hq)
      refine ⟨?_, Inv_liftO_refineG x _ S' E (by simp [Status.clearCUp, hex]) hI ?_ ?_, ?_, ?_⟩
      · show (x.lift _).Inv S'
        rw [lift_of_nonempty x _ (by simp [Status.clearCUp, hex])]; exact hI
      · intro _ _
        exact ⟨le_of_eq (hEn hcp), fun _ => hEn hcp⟩
      · intro _ h
        simp [Status.canPend, Status.clearCUp] at h
      · show (x.lift _).p.nnc = _
        rw [lift_p]
      · show (x.lift _).p.dim = _
        rw [lift_p]
    · have hq := time_elapse_pend x.p y.p hex hey hd hgx hcx hgy hcy hnil hcp
      rw [hq]
      have hI := Inv_pendG x S S' (timeElapseRows x.p.nnc y.p.gs.rows) hx hex hgx hcx hcp (hwfq _ hq) (hden _ hq)
      obtain ⟨t, rfl⟩ := hEp hcp
      refine ⟨?_, Inv_liftO_refineG x _ S' _ hex hI ?_ ?_, ?_, ?_⟩
      · show (x.lift _).Inv S'
        rw [lift_of_nonempty x _ (by exact hex)]; exact hI
      · intro _ _
        refine ⟨?_, fun h => by cases h⟩
        show x.p.gs.firstPending ≤ (x.p.gs.rows ++ t).length
        rw [List.length_append]; have := hfpx.1; omega
      · intro _ _
        show (x.p.gs.rows ++ t).take x.p.gs.firstPending = (x.p.gs.rows ++ _).take x.p.gs.firstPending
        rw [List.take_append_of_le_length hfpx.1, List.take_append_of_le_length hfpx.1]
      · show (x.lift _).p.nnc = _
        rw [lift_p]
      · show (x.lift _).p.dim = _
        rw [lift_p]
  · have hq := time_elapse_nil x.p y.p hex hey hd hgx hcx hgy hcy hnil
    rw [hq]
    have hI : x.Inv S' := hx.change (hden _ hq)
    have hl : x.liftO (some x.p) = x := lift_self x
    rw [hl]
    refine ⟨hI, ?_, rfl, rfl⟩
    rcases refineBy_cases x.p.gs E with h | ⟨_, hnp, hpd⟩
    · rw [h]; exact hI
    · refine Inv_refineG x S' E hI ?_ ?_
      · intro _ _
        cases hcp : x.p.st.canPend
        · exact ⟨le_of_eq (hEn hcp), fun _ => hEn hcp⟩
        · obtain ⟨t, rfl⟩ := hEp hcp
          refine ⟨?_, fun hgp => ?_⟩
          · show x.p.gs.firstPending ≤ (x.p.gs.rows ++ t).length
            rw [List.length_append]; have := hfpx.1; omega
          · have hfp := hfpx.2 hgp
            have ht : t = [] := by
              apply List.eq_nil_iff_forall_not_mem.mpr
              intro r hr
              have h1 : r ∈ (x.p.gs.rows ++ t).drop x.p.gs.firstPending := by
                rw [hfp, List.drop_left]; exact hr
              have h2 := (hpd r).mpr h1
              rw [hfp, List.drop_length] at h2
              cases h2
            subst ht
            show x.p.gs.firstPending = (x.p.gs.rows ++ []).length
            rw [List.append_nil]; exact hfp
      · intro _ hcp
        obtain ⟨t, rfl⟩ := hEp hcp
        show (x.p.gs.rows ++ t).take x.p.gs.firstPending = _
        rw [List.take_append_of_le_length hfpx.1]

end PPLV.PolyFull
