import PPLV.PolyFull.ProofsOps2
import PPLV.PolyOps.ProofsDims5

/-!
# Integration stage — the dimension-changing operators refine the reference operators: toolkit

`prepGens_facts` (what `prepGensDropPending` leaves), `Inv_gensOnly` (the invariant of an object that
holds only its generators), `finish_refineG` (the exact row order of the generators).
-/
namespace PPLV.PolyFull
open PPLV.Lin PPLV.PolyOps

set_option maxRecDepth 4000 in
theorem legalZ_empty_any : ∀ (e cu gu cm gm sc sg cp gp z z' : Bool),
    legalZ ⟨e, cu, gu, cm, gm, sc, sg, cp, gp⟩ z = true → e = true →
    legalZ ⟨e, cu, gu, cm, gm, sc, sg, cp, gp⟩ z' = true := by
  decide

theorem legal_empty_any {s : Status} {d : Nat} (d' : Nat) (h : statusLegalB s d = true) (he : s.empty = true) :
    statusLegalB s d' = true := by
  obtain ⟨e, cu, gu, cm, gm, sc, sg, cp, gp⟩ := s
  exact legalZ_empty_any _ _ _ _ _ _ _ _ _ _ _ h he

set_option maxRecDepth 4000 in
theorem legalZ_empty_flags : ∀ (e cu gu cm gm sc sg cp gp z : Bool),
    legalZ ⟨e, cu, gu, cm, gm, sc, sg, cp, gp⟩ z = true → e = true → cu = false ∧ gu = false := by
  decide

theorem legal_empty_flags {s : Status} {d : Nat} (h : statusLegalB s d = true) (he : s.empty = true) :
    s.cUp = false ∧ s.gUp = false := by
  obtain ⟨e, cu, gu, cm, gm, sc, sg, cp, gp⟩ := s
  exact legalZ_empty_flags _ _ _ _ _ _ _ _ _ _ h he

set_option maxRecDepth 4000 in
theorem legalZ_gensOnly : ∀ (e cu gu cm gm sc sg cp gp : Bool),
    e = false → gu = true → gp = false →
    legalZ ({ (⟨e, cu, gu, cm, gm, sc, sg, cp, gp⟩ : Status).clearCUp with gMin := false }) false = true := by
  decide

theorem legal_gensOnly {s : Status} {d : Nat} (hd : d ≠ 0) (he : s.empty = false) (hg : s.gUp = true)
    (hp : s.gPend = false) : statusLegalB ({ s.clearCUp with gMin := false }) d = true := by
  obtain ⟨e, cu, gu, cm, gm, sc, sg, cp, gp⟩ := s
  rw [statusLegalB_eq, show (d == 0) = false by simpa using hd]
  exact legalZ_gensOnly _ _ _ _ _ _ _ _ _ he hg hp

/-- an object that holds at most its generators, nothing pending, not minimized -/
theorem Inv_gensOnly (X : FPoly) (S : Set Val) (hwf : X.p.WF) (hden : X.p.Denotes S)
    (hl : statusLegalB X.p.st X.p.dim = true) (hc : X.p.st.cUp = false) (hcm : X.p.st.cMin = false)
    (hcp : X.p.st.cPend = false) (hgp : X.p.st.gPend = false)
    (hfp : X.p.st.gUp = true → X.p.gs.firstPending = X.p.gs.rows.length) : X.Inv S := by
  refine ⟨hwf, hden, hl, fun _ h => (by rw [hc] at h; cases h), fun _ hg => ⟨le_of_eq (hfp hg), fun _ => hfp hg⟩,
    fun _ h => (by rw [hc] at h; cases h), fun _ h => (by rw [hcp] at h; cases h),
    fun _ h => (by rw [hgp] at h; cases h), fun _ h => ?_⟩
  simp [Status.canPend, hcm] at h

/-- `prepGensDropPending`: the set is kept; the result is marked empty or holds its generators with
    no pending constraints -/
theorem prepGens_facts (G : GlueFacts) (x : FPoly) (S : Set Val) (hx : x.Inv S) (hd : 0 < x.p.dim) :
    x.SameShape (x.prepGensDropPending (fun y => y.updateGenerators.2)) ∧
    (x.prepGensDropPending (fun y => y.updateGenerators.2)).Inv S ∧
    ((x.prepGensDropPending (fun y => y.updateGenerators.2)).p.st.empty = false →
      (x.prepGensDropPending (fun y => y.updateGenerators.2)).p.st.gUp = true ∧
      (x.prepGensDropPending (fun y => y.updateGenerators.2)).p.st.cPend = false) := by
  unfold FPoly.prepGensDropPending FPoly.st
  cases hem : x.p.st.empty
  · simp only [Bool.false_eq_true, if_false]
    cases hsp : x.p.st.somethingPending
    · simp only [Bool.false_eq_true, if_false]
      have hcp : x.p.st.cPend = false := by
        simp only [Status.somethingPending, Bool.or_eq_false_iff] at hsp; exact hsp.1
      cases hgu : x.p.st.gUp
      · simp only [Bool.not_false, if_true]
        have hcu : x.p.st.cUp = true := by
          rcases hx.wf.some_up hem hd with h | h
          · exact h
          · rw [hgu] at h; cases h
        obtain ⟨h1, h2, h3, h4⟩ := G.updG x S hx hem hd hcu hsp
        refine ⟨h1, h2, fun he => ?_⟩
        cases hb : x.updateGenerators.1
        · rw [(h3 hb).2] at he; cases he
        · exact ⟨(h4 hb).2.2.1, (h4 hb).2.2.2.2.2.1⟩
      · simp only [Bool.not_true, Bool.false_eq_true, if_false]
        exact ⟨⟨rfl, rfl⟩, hx, fun _ => ⟨hgu, hcp⟩⟩
    · simp only [if_true]
      cases hgp : x.p.st.gPend
      · simp only [Bool.false_eq_true, if_false]
        have hcp : x.p.st.cPend = true := by
          simp only [Status.somethingPending, hgp, Bool.or_false] at hsp; exact hsp
        obtain ⟨h1, h2, h3, h4⟩ := G.ppc x S hx hem hcp
        refine ⟨h1, h2, fun he => ?_⟩
        cases hb : x.processPendingConstraints.1
        · rw [(h3 hb).2] at he; cases he
        · exact ⟨(h4 hb).2.2.1, (h4 hb).2.2.2.2.2.1⟩
      · simp only [if_true]
        refine ⟨⟨rfl, rfl⟩, hx, fun _ => ⟨(hx.wf.pend_g hgp).2, ?_⟩⟩
        cases hcp : x.p.st.cPend
        · rfl
        · exact absurd ⟨hcp, hgp⟩ hx.wf.pend_one
  · simp only [if_true]
    exact ⟨⟨rfl, rfl⟩, hx, fun h => by rw [hem] at h; cases h⟩

/-- the last step of the operators that rewrite the generators: the exact row order -/
theorem finish_refineG (q : FPoly) (S : Set Val) (exact : Sys) (c : Bool) (hq : q.Inv S)
    (hfp : exact.firstPending = exact.rows.length)
    (hcp : q.p.st.empty = false → q.p.st.canPend = false) :
    (if c = true then q else { q with p := { q.p with gs := q.p.gs.refineBy exact } }).Inv S ∧
    (if c = true then q else { q with p := { q.p with gs := q.p.gs.refineBy exact } }).p.nnc = q.p.nnc ∧
    (if c = true then q else { q with p := { q.p with gs := q.p.gs.refineBy exact } }).p.dim = q.p.dim := by
  cases c
  · simp only [Bool.false_eq_true, if_false]
    refine ⟨Inv_refineG q S exact hq (fun _ _ => ⟨le_of_eq hfp, fun _ => hfp⟩) ?_, trivial, trivial⟩
    intro he h
    rw [hcp he] at h; cases h
  · simp only [if_true]
    exact ⟨hq, trivial, trivial⟩

end PPLV.PolyFull
