import PPLV.PolyFull.ProofsOps11b
import PPLV.PolyOps.ProofsGenKit3

/-!
# Integration stage — the rewritten rows at cone level

`conRow_factor`: the constraint row rewritten by `Constraint_System::affine_preimage` (and strongly
normalised) is, up to a non-zero factor (positive on inequalities), the row composed with `subVec`;
`genRow_factor`: the generator row rewritten by `Generator_System::affine_image` is, up to such a factor,
`subVec` of the row.
-/
namespace PPLV.PolyFull
open PPLV.Lin PPLV.PolyOps
open PPLV.Conv (scalarProduct holds holdsAll Vec sp_eq_sum sp_comm)

theorem sp_Lv_strongNormalize (nnc : Bool) (r : Row) :
    ∃ t : Int, t ≠ 0 ∧ (r.eq = false → 0 < t) ∧ r.strongNormalize.eq = r.eq ∧
      ∀ X, scalarProduct (Lv nnc r) X = t * scalarProduct (Lv nnc r.strongNormalize) X := by
  obtain ⟨g, hg, heq, hsp⟩ := sp_Lv_normalize nnc r
  unfold Row.strongNormalize
  rcases signNormalize_eq r.normalize with h | ⟨he, h⟩
  · rw [h]
    exact ⟨g, ne_of_gt hg, fun _ => hg, heq, hsp⟩
  · rw [h]
    refine ⟨-g, by omega, fun hf => ?_, heq, fun X => ?_⟩
    · rw [← heq, he] at hf; cases hf
    · rw [hsp X, Lv_scale, sp_comm (List.map _ _) X, PPLV.Conv.sp_map_mul, sp_comm X]; ring

theorem conRow_factor (nnc : Bool) (n v : Nat) (E : LinExpr) (d : Int) (c : Row)
    (hc : c.cf.length = n) (hE : E.coeffs.length = n) (hv : v < n) (hd : 0 < d) :
    ∃ t : Int, t ≠ 0 ∧ (c.eq = false → 0 < t) ∧
      (conRowAffinePreimage v E d c).strongNormalize.eq = c.eq ∧
      (conRowAffinePreimage v E d c).strongNormalize.cf.length = n ∧
      ∀ X : Vec, X.length ≤ numCols nnc n →
        scalarProduct (Lv nnc c) (subVec (numCols nnc n) v E d X) =
          t * scalarProduct (Lv nnc (conRowAffinePreimage v E d c).strongNormalize) X := by
  have hvN : v + 1 < numCols nnc n := by unfold numCols; omega
  have hlen : (conRowAffinePreimage v E d c).strongNormalize.cf.length = n := by
    rw [strongNormalize_cf_length, conRowAffinePreimage_cf_length, hc]
  by_cases h0 : c.cf.getD v 0 = 0
  · have hid : conRowAffinePreimage v E d c = c := by
      unfold conRowAffinePreimage
      have hne : ¬ ((c.cf.getD v 0 != 0) = true) := by rw [h0]; decide
      simp only [hne, Bool.false_eq_true, if_false]
    rw [hid] at hlen ⊢
    obtain ⟨t, ht, hpos, heq, hsp⟩ := sp_Lv_strongNormalize nnc c
    refine ⟨d * t, mul_ne_zero (ne_of_gt hd) ht, fun h => mul_pos hd (hpos h), heq, hlen, fun X hX => ?_⟩
    rw [sp_subVec' _ v E d _ X hvN hX, Lv_getD_var nnc n v c hc hv, h0, zero_mul, add_zero, hsp X]; ring
  · rw [conRow_pre v E d c h0] at hlen ⊢
    obtain ⟨t1, ht1, hpos1, heq1, hsp1⟩ := sp_Lv_strongNormalize nnc (preRow v E d c)
    obtain ⟨t2, ht2, hpos2, heq2, hsp2⟩ := sp_Lv_strongNormalize nnc (preRow v E d c).strongNormalize
    have hpe : (preRow v E d c).eq = c.eq := rfl
    refine ⟨t1 * t2, mul_ne_zero ht1 ht2, fun h => mul_pos (hpos1 (by rw [hpe]; exact h))
      (hpos2 (by rw [heq1, hpe]; exact h)), by rw [heq2, heq1]; exact hpe, hlen, fun X hX => ?_⟩
    rw [← sp_preRow nnc n v E d c X hc hE hv hX, hsp1 X, hsp2 X]; ring

theorem sp_idot : ∀ (xs ys t : List Int), xs.length ≤ ys.length → scalarProduct xs (ys ++ t) = idot xs ys
  | [], ys, t, _ => by simp [PPLV.Conv.sp_nil_left, idot]
  | x :: xs, [], t, h => by simp at h
  | x :: xs, y :: ys, t, h => by
    simp only [List.cons_append, scalarProduct, idot]
    rw [sp_idot xs ys t (by simpa using h)]

theorem Lv_genRow_getD (nnc : Bool) (n v : Nat) (e : LinExpr) (d : Int) (g : Row)
    (hg : g.cf.length = n) (he : e.coeffs.length = n) (hv : v < n) (i : Nat) (hi : i < numCols nnc n) :
    (Lv nnc (genRowAffineImage v e d g)).getD i 0 = (subVec (numCols nnc n) v e d (Lv nnc g)).getD i 0 := by
  rw [subVec_getD _ _ _ _ _ _ hi, genRowAffineImage_eq]
  cases i with
  | zero => simp [Lv]
  | succ j =>
    show (((g.cf.map (d * ·)).set v (e.k * g.b + idot e.coeffs g.cf)) ++ (if nnc then [d * g.eps] else [])).getD j 0 = _
    have hlen : ((g.cf.map (d * ·)).set v (e.k * g.b + idot e.coeffs g.cf)).length = n := by simp [hg]
    by_cases hj : j < n
    · rw [getD_append_lt _ _ _ (by rw [hlen]; exact hj)]
      by_cases hjv : j = v
      · subst hjv
        rw [if_pos rfl, List.getD_eq_getElem?_getD, List.getElem?_set_self (by simp [hg, hj])]
        show _ = e.k * g.b + scalarProduct e.coeffs (g.cf ++ _)
        rw [sp_idot _ _ _ (by rw [he, hg])]; rfl
      · have hne : ¬ (j + 1 = v + 1) := by omega
        rw [if_neg hne, List.getD_eq_getElem?_getD, List.getElem?_set_ne (Ne.symm hjv),
          ← List.getD_eq_getElem?_getD, getD_map_mul']
        show _ = d * (g.cf ++ _).getD j 0
        rw [getD_append_lt _ _ _ (by rw [hg]; exact hj)]
    · have hj' : n ≤ j := Nat.le_of_not_lt hj
      have hne : ¬ (j + 1 = v + 1) := by omega
      rw [if_neg hne, getD_append_ge _ _ _ (by rw [hlen]; exact hj'), hlen, tail_getD]
      show _ = d * (g.cf ++ _).getD j 0
      rw [getD_append_ge _ _ _ (by rw [hg]; exact hj'), hg]

theorem genRow_cf_length (v : Nat) (e : LinExpr) (d : Int) (g : Row) :
    (genRowAffineImage v e d g).cf.length = g.cf.length := by
  rw [genRowAffineImage_eq]; simp

theorem sp_Lv_genRow (nnc : Bool) (n v : Nat) (e : LinExpr) (d : Int) (g : Row)
    (hg : g.cf.length = n) (he : e.coeffs.length = n) (hv : v < n) (a : Vec) :
    scalarProduct a (Lv nnc (genRowAffineImage v e d g)) =
      scalarProduct a (subVec (numCols nnc n) v e d (Lv nnc g)) := by
  rw [sp_eq_sum (numCols nnc n) a _ (by rw [Lv_length nnc n _ (by rw [genRow_cf_length, hg])]),
    sp_eq_sum (numCols nnc n) a (subVec _ v e d _) (by rw [subVec_length])]
  apply Finset.sum_congr rfl
  intro i hi
  rw [Lv_genRow_getD nnc n v e d g hg he hv i (Finset.mem_range.mp hi)]

theorem genRow_factor (nnc : Bool) (n v : Nat) (e : LinExpr) (d : Int) (g : Row)
    (hg : g.cf.length = n) (he : e.coeffs.length = n) (hv : v < n) :
    ∃ s : Int, s ≠ 0 ∧ (g.eq = false → 0 < s) ∧
      (genRowAffineImage v e d g).strongNormalize.eq = g.eq ∧
      (genRowAffineImage v e d g).strongNormalize.cf.length = n ∧
      ∀ a : Vec, scalarProduct a (subVec (numCols nnc n) v e d (Lv nnc g)) =
        s * scalarProduct a (Lv nnc (genRowAffineImage v e d g).strongNormalize) := by
  obtain ⟨s, hs, hpos, heq, hsp⟩ := sp_Lv_strongNormalize nnc (genRowAffineImage v e d g)
  have hge : (genRowAffineImage v e d g).eq = g.eq := by rw [genRowAffineImage_eq]
  refine ⟨s, hs, fun h => hpos (by rw [hge]; exact h), by rw [heq, hge],
    by rw [strongNormalize_cf_length, genRow_cf_length, hg], fun a => ?_⟩
  rw [← sp_Lv_genRow nnc n v e d g hg he hv a, sp_comm, hsp, sp_comm]

end PPLV.PolyFull
