import PPLV.PolyFull.ProofsStatus4
import PPLV.PolyFull.Spec

/-!
# Integration stage — legality of the status word the full model leaves (private helpers)

`Sim.legalB`: on states whose stored parts agree, the legality table of the status-protocol model
(`statusOK ∧ polyOK`, C01 stage 2) IS the one of the full model's specification (`statusLegalB`).
`f_status_legal`: if the abstract state satisfies the protocol invariant and its ghost Booleans / the ghost
inputs are what the full model computes (`…Ghost`), the state the full helper leaves is simulated by an
abstract state satisfying the invariant, hence its status word is legal (`LegalOut`).  Each is the
simulation lemma + the per-function lemma behind `C01.status_inv`, with that lemma's precondition stated
on the full state.
-/
namespace PPLV.PolyFull
open PPLV.PolyOps
open PPLV.PolyStatus (PState Gh)

/-- the legality table of the status-protocol model is the one of the full model's specification -/
theorem Sim.legalB {x : FPoly} {s : PState} (h : Sim x s) :
    (s.statusOK = true ∧ s.polyOK = true) ↔ statusLegalB x.p.st x.p.dim = true := by
  obtain ⟨⟨nnc, dim, ⟨e, cu, gu, cm, gm, sc, sg, cp, gp⟩, cs, gs⟩, mC, mG⟩ := x
  sim_hyps h
  simp only [PState.statusOK, PState.polyOK, PState.ze, pst, statusLegalB, Status.canPend, h1, h2, h3, h4, h5, h6, h7,
    h8, h9, h10]
  simp only [bne]
  generalize (dim == 0) = z
  clear h1 h2 h3 h4 h5 h6 h7 h8 h9 h10 h11 h12 h13
  revert e cu gu cm gm sc sg cp gp z
  decide

theorem Inv.legal {s : PState} (hi : PPLV.PolyStatus.Inv s) : s.statusOK = true ∧ s.polyOK = true := by
  simp only [PPLV.PolyStatus.Inv, PState.invB, Bool.and_eq_true] at hi
  exact ⟨hi.1.1, hi.1.2⟩

/-- the full state `y` is simulated by an abstract state satisfying the protocol invariant; its status word
    is legal -/
structure LegalOut (y : FPoly) (t : PState) : Prop where
  sim : Sim y t
  inv : PPLV.PolyStatus.Inv t
  legal : statusLegalB y.p.st y.p.dim = true

theorem LegalOut.of {y : FPoly} {t : PState} (hs : Sim y t) (hi : PPLV.PolyStatus.Inv t) : LegalOut y t :=
  ⟨hs, hi, hs.legalB.1 (Inv.legal hi)⟩

section
variable (x : FPoly) (s : PState) (g : Gh) (h : Sim x s) (hi : PPLV.PolyStatus.Inv s)
include h hi

theorem updateSatC_status_legal (he : x.p.st.empty = false) (hc : x.p.st.cUp = true) (hgu : x.p.st.gUp = true) :
    LegalOut x.updateSatC (PPLV.PolyStatus.updateSatC s) := by
  refine .of (updateSatC_sim x s h) ?_
  have a := h.em; have b := h.cup; have c := h.gup
  rw [he] at a; rw [hc] at b; rw [hgu] at c
  spec_tac [s.b .satg] using []

theorem updateSatG_status_legal (he : x.p.st.empty = false) (hc : x.p.st.cUp = true) (hgu : x.p.st.gUp = true) :
    LegalOut x.updateSatG (PPLV.PolyStatus.updateSatG s) := by
  refine .of (updateSatG_sim x s h) ?_
  have a := h.em; have b := h.cup; have c := h.gup
  rw [he] at a; rw [hc] at b; rw [hgu] at c
  spec_tac [s.b .satc] using []

theorem obtainSortedConstraints_status_legal (he : x.p.st.empty = false) (hc : x.p.st.cUp = true) :
    LegalOut x.obtainSortedConstraints (PPLV.PolyStatus.obtainSortedConstraints s) :=
  .of (obtainSortedConstraints_sim x s h)
    (PPLV.PolyStatus.osc_spec s hi (h.cup.trans hc) (h.em.trans he)).1

theorem obtainSortedGenerators_status_legal (he : x.p.st.empty = false) (hgu : x.p.st.gUp = true) :
    LegalOut x.obtainSortedGenerators (PPLV.PolyStatus.obtainSortedGenerators s) :=
  .of (obtainSortedGenerators_sim x s h)
    (PPLV.PolyStatus.osg_spec s hi (h.gup.trans hgu) (h.em.trans he)).1

theorem obtainSortedConstraintsWithSatC_status_legal (he : x.p.st.empty = false) (hc : x.p.st.cUp = true)
    (hgu : x.p.st.gUp = true) :
    LegalOut x.obtainSortedConstraintsWithSatC (PPLV.PolyStatus.obtainSortedConstraintsWithSatC s) :=
  .of (obtainSortedConstraintsWithSatC_sim x s h)
    (PPLV.PolyStatus.oscs_spec s hi (h.cup.trans hc) (h.gup.trans hgu) (h.em.trans he)).1

theorem obtainSortedGeneratorsWithSatG_status_legal (he : x.p.st.empty = false) (hc : x.p.st.cUp = true)
    (hgu : x.p.st.gUp = true) :
    LegalOut x.obtainSortedGeneratorsWithSatG (PPLV.PolyStatus.obtainSortedGeneratorsWithSatG s) :=
  .of (obtainSortedGeneratorsWithSatG_sim x s h)
    (PPLV.PolyStatus.osgs_spec s hi (h.cup.trans hc) (h.gup.trans hgu) (h.em.trans he)).1

theorem updateConstraints_status_legal (he : x.p.st.empty = false) (hd : x.p.dim ≠ 0) (hgu : x.p.st.gUp = true)
    (hcp : x.p.st.cPend = false) (hgp : x.p.st.gPend = false) (hg : UcGhost x g) :
    LegalOut x.updateConstraints (PPLV.PolyStatus.updateConstraints g s) :=
  .of (updateConstraints_sim x s g h hg)
    (PPLV.PolyStatus.updateConstraints_spec g s hi (h.em.trans he) (by rw [h.dim]; exact hd) (h.gup.trans hgu)
      (h.cpend.trans hcp) (h.gpend.trans hgp)).1

theorem updateGenerators_status_legal (he : x.p.st.empty = false) (hd : x.p.dim ≠ 0) (hc : x.p.st.cUp = true)
    (hcp : x.p.st.cPend = false) (hgp : x.p.st.gPend = false) (hg : UgGhost x g s) :
    LegalOut x.updateGenerators.2 (PPLV.PolyStatus.updateGenerators g s).2
    ∧ (PPLV.PolyStatus.updateGenerators g s).1 = x.updateGenerators.1 :=
  ⟨.of (updateGenerators_sim' x s g h hg).2
    (PPLV.PolyStatus.updateGenerators_spec g s hi (h.em.trans he) (by rw [h.dim]; exact hd) (h.cup.trans hc)
      (h.cpend.trans hcp) (h.gpend.trans hgp)).1, (updateGenerators_sim' x s g h hg).1⟩

theorem processPendingConstraints_status_legal (hcp : x.p.st.cPend = true) (hg : PpcGhost x.ppcPrep g s) :
    LegalOut x.processPendingConstraints.2 (PPLV.PolyStatus.processPendingConstraints g s).2
    ∧ (PPLV.PolyStatus.processPendingConstraints g s).1 = x.processPendingConstraints.1 :=
  ⟨.of (processPendingConstraints_sim x s g h hg).2 (PPLV.PolyStatus.ppc_spec g s hi (h.cpend.trans hcp)).1,
    (processPendingConstraints_sim x s g h hg).1⟩

theorem processPendingGenerators_status_legal (hgp : x.p.st.gPend = true) (hg : PpgGhost x.ppgPrep g s) :
    LegalOut x.processPendingGenerators (PPLV.PolyStatus.processPendingGenerators g s) :=
  .of (processPendingGenerators_sim x s g h hg) (PPLV.PolyStatus.ppg_spec g s hi (h.gpend.trans hgp)).1

omit hi in
theorem hasPending_of (hp : x.p.st.somethingPending = true) : s.hasSomethingPending = true := by
  have a := h.cpend; have b := h.gpend
  simp only [Status.somethingPending] at hp
  simp only [PState.hasSomethingPending, PState.cpend, PState.gpend, a, b]; exact hp

theorem removePendingToObtainConstraints_status_legal (hp : x.p.st.somethingPending = true)
    (hg : RpcGhost x g s) :
    LegalOut x.removePendingToObtainConstraints (PPLV.PolyStatus.removePendingToObtainConstraints g s) :=
  .of (removePendingToObtainConstraints_sim x s g h hg)
    (PPLV.PolyStatus.removePendingToObtainConstraints_spec g s hi (hasPending_of x s h hp)).1

theorem removePendingToObtainGenerators_status_legal (hp : x.p.st.somethingPending = true)
    (hg : RpgGhost x g s) :
    LegalOut x.removePendingToObtainGenerators.2 (PPLV.PolyStatus.removePendingToObtainGenerators g s).2
    ∧ (PPLV.PolyStatus.removePendingToObtainGenerators g s).1 = x.removePendingToObtainGenerators.1 :=
  ⟨.of (removePendingToObtainGenerators_sim x s g h hg).2
    (PPLV.PolyStatus.removePendingToObtainGenerators_spec g s hi (hasPending_of x s h hp)).1,
    (removePendingToObtainGenerators_sim x s g h hg).1⟩

theorem processPending_status_legal (hp : x.p.st.somethingPending = true) (hg : PpGhost x g s) :
    LegalOut x.processPending.2 (PPLV.PolyStatus.processPending g s).2
    ∧ (PPLV.PolyStatus.processPending g s).1 = x.processPending.1 :=
  ⟨.of (processPending_sim x s g h hg).2 (PPLV.PolyStatus.processPending_spec g s hi (hasPending_of x s h hp)).1,
    (processPending_sim x s g h hg).1⟩

theorem minimize_status_legal' (hg : MinGhost x g s) :
    LegalOut x.minimize.2 (PPLV.PolyStatus.minimize g s).2
    ∧ (PPLV.PolyStatus.minimize g s).1 = x.minimize.1 :=
  ⟨.of (minimize_sim x s g h hg).2 (PPLV.PolyStatus.minimize_spec g s hi).1, (minimize_sim x s g h hg).1⟩

theorem isEmpty_status_legal' (hg : IsEmptyGhost x g s) :
    LegalOut x.isEmpty.2 (PPLV.PolyStatus.isEmpty g s).2 ∧ (PPLV.PolyStatus.isEmpty g s).1 = x.isEmpty.1 :=
  ⟨.of (isEmpty_sim x s g h hg).2 (PPLV.PolyStatus.isEmpty_spec g s hi).1, (isEmpty_sim x s g h hg).1⟩

theorem needCons_status_legal' (he : x.p.st.empty = false) (hd : x.p.dim ≠ 0) (hg : NeedConsGhost x g s) :
    LegalOut x.needCons (PPLV.PolyStatus.needCons g s) :=
  .of (needCons_sim x s g h hg)
    (PPLV.PolyStatus.needCons_spec g s hi (h.em.trans he) (by rw [h.dim]; exact hd)).1

/-- `CS_PENDING → G_UP_TO_DATE` on a legal status word -/
theorem cPend_gUp_of_inv (hc : x.p.st.cPend = true) : x.p.st.gUp = true := by
  have l := h.legalB.1 (Inv.legal hi)
  obtain ⟨⟨nnc, dim, ⟨e, cu, gu, cm, gm, sc, sg, cp, gp⟩, cs, gs⟩, mC, mG⟩ := x
  simp only at hc ⊢
  subst hc
  cases gu
  · revert l; simp only [statusLegalB, Status.canPend]
    cases e <;> cases cu <;> cases cm <;> cases gm <;> cases sc <;> cases sg <;> cases gp <;> simp
  · rfl

theorem needGens_status_legal (he : x.p.st.empty = false) (hd : x.p.dim ≠ 0) (hg : NeedGensGhost x g s) :
    LegalOut x.needGens.2 (PPLV.PolyStatus.needGens g s).2
    ∧ (PPLV.PolyStatus.needGens g s).1 = x.needGens.1 := by
  have m := needGens_sim x s g h (cPend_gUp_of_inv x s h hi) hg
  exact ⟨.of m.2 (PPLV.PolyStatus.needGens_spec g s hi (h.em.trans he) (by rw [h.dim]; exact hd)).1, m.1⟩

end

end PPLV.PolyFull
