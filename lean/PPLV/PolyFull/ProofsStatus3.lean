import PPLV.PolyFull.ProofsStatus2

/-!
# Integration stage — the full model against the status-protocol model, part 3

The composite private helpers: `remove_pending_to_obtain_*`, `process_pending`, `minimize`, `is_empty`,
and the two idioms `needCons` / `needGens`.  For each: the ghost condition (`…Ghost x g s`: the ghost
inputs `g` and the ghost Booleans `emp`, `pC`, `pG` of `s` are what the full model computes in the branch
that is taken), and `Sim x s → …Ghost x g s → Sim (f x) (F g s)` with equal Boolean answers.
-/
namespace PPLV.PolyFull
open PPLV.PolyOps
open PPLV.PolyStatus (PState Gh)

attribute [local simp] FPoly.st FPoly.nnc FPoly.dim FPoly.withSt FPoly.withCs FPoly.withGs

/-- ghost condition of `update_generators()` -/
structure UgGhost (x : FPoly) (g : Gh) (s : PState) : Prop where
  emp : s.b .emp = x.ugOut.empty
  srcS : x.ugOut.empty = false → g.srcS = x.ugOut.source.sorted
/-- ghost condition of `update_constraints()` -/
def UcGhost (x : FPoly) (g : Gh) : Prop := g.srcS = x.ucOut.source.sorted

theorem updateGenerators_sim' (x : FPoly) (s : PState) (g : Gh) (h : Sim x s) (hg : UgGhost x g s) :
    (PPLV.PolyStatus.updateGenerators g s).1 = x.updateGenerators.1
    ∧ Sim x.updateGenerators.2 (PPLV.PolyStatus.updateGenerators g s).2 :=
  updateGenerators_sim x s g h hg.emp hg.srcS

/-! ## `remove_pending_to_obtain_constraints / generators` -/

def RpcGhost (x : FPoly) (g : Gh) (s : PState) : Prop := x.p.st.cPend = false → PpgGhost x.ppgPrep g s
def RpgGhost (x : FPoly) (g : Gh) (s : PState) : Prop := x.p.st.gPend = false → PpcGhost x.ppcPrep g s

theorem removePendingToObtainConstraints_sim (x : FPoly) (s : PState) (g : Gh) (h : Sim x s)
    (hg : RpcGhost x g s) :
    Sim x.removePendingToObtainConstraints (PPLV.PolyStatus.removePendingToObtainConstraints g s) := by
  have h' := h
  sim_hyps h'
  rcases (Bool.eq_false_or_eq_true x.p.st.cPend).symm with c | c
  · have e1 : x.removePendingToObtainConstraints = x.processPendingGenerators := by
      simp [FPoly.removePendingToObtainConstraints, c]
    have e2 : PPLV.PolyStatus.removePendingToObtainConstraints g s = PPLV.PolyStatus.processPendingGenerators g s := by
      simp [PPLV.PolyStatus.removePendingToObtainConstraints, h8, c]
    rw [e1, e2]; exact processPendingGenerators_sim x s g h (hg c)
  · unfold FPoly.removePendingToObtainConstraints PPLV.PolyStatus.removePendingToObtainConstraints
    rcases Bool.eq_false_or_eq_true (s.b .pC) with d | d <;>
      simp [Sim, pst, Status.clearGUp, Sys.unsetPending, *]

theorem removePendingToObtainGenerators_sim (x : FPoly) (s : PState) (g : Gh) (h : Sim x s)
    (hg : RpgGhost x g s) :
    (PPLV.PolyStatus.removePendingToObtainGenerators g s).1 = x.removePendingToObtainGenerators.1
    ∧ Sim x.removePendingToObtainGenerators.2 (PPLV.PolyStatus.removePendingToObtainGenerators g s).2 := by
  have h' := h
  sim_hyps h'
  rcases (Bool.eq_false_or_eq_true x.p.st.gPend).symm with c | c
  · have e1 : x.removePendingToObtainGenerators = x.processPendingConstraints := by
      simp [FPoly.removePendingToObtainGenerators, c]
    have e2 : PPLV.PolyStatus.removePendingToObtainGenerators g s = PPLV.PolyStatus.processPendingConstraints g s := by
      simp [PPLV.PolyStatus.removePendingToObtainGenerators, h9, c]
    rw [e1, e2]; exact processPendingConstraints_sim x s g h (hg c)
  · unfold FPoly.removePendingToObtainGenerators PPLV.PolyStatus.removePendingToObtainGenerators
    rcases Bool.eq_false_or_eq_true (s.b .pG) with d | d <;>
      simp [Sim, pst, Status.clearCUp, Sys.unsetPending, *]

/-! ## `process_pending()` -/

structure PpGhost (x : FPoly) (g : Gh) (s : PState) : Prop where
  ppc : x.p.st.cPend = true → PpcGhost x.ppcPrep g s
  ppg : x.p.st.cPend = false → PpgGhost x.ppgPrep g s

theorem processPending_sim (x : FPoly) (s : PState) (g : Gh) (h : Sim x s) (hg : PpGhost x g s) :
    (PPLV.PolyStatus.processPending g s).1 = x.processPending.1
    ∧ Sim x.processPending.2 (PPLV.PolyStatus.processPending g s).2 := by
  have h' := h
  sim_hyps h'
  rcases (Bool.eq_false_or_eq_true x.p.st.cPend).symm with c | c
  · have e1 : x.processPending = (true, x.processPendingGenerators) := by simp [FPoly.processPending, c]
    have e2 : PPLV.PolyStatus.processPending g s = (true, PPLV.PolyStatus.processPendingGenerators g s) := by
      simp [PPLV.PolyStatus.processPending, h8, c]
    rw [e1, e2]; exact ⟨rfl, processPendingGenerators_sim x s g h (hg.ppg c)⟩
  · have e1 : x.processPending = x.processPendingConstraints := by simp [FPoly.processPending, c]
    have e2 : PPLV.PolyStatus.processPending g s = PPLV.PolyStatus.processPendingConstraints g s := by
      simp [PPLV.PolyStatus.processPending, h8, c]
    rw [e1, e2]; exact processPendingConstraints_sim x s g h (hg.ppc c)

/-! ## `minimize()` -/

/-- ghost condition of `minimize()`: the one of the branch that runs -/
structure MinGhost (x : FPoly) (g : Gh) (s : PState) : Prop where
  pend : x.p.st.empty = false → x.p.dim ≠ 0 → x.p.st.somethingPending = true → PpGhost x g s
  ug : x.p.st.empty = false → x.p.dim ≠ 0 → x.p.st.somethingPending = false →
        (x.p.st.cMin && x.p.st.gMin) = false → x.p.st.cUp = true → UgGhost x g s
  uc : x.p.st.empty = false → x.p.dim ≠ 0 → x.p.st.somethingPending = false →
        (x.p.st.cMin && x.p.st.gMin) = false → x.p.st.cUp = false → UcGhost x g

theorem minimize_sim (x : FPoly) (s : PState) (g : Gh) (h : Sim x s) (hg : MinGhost x g s) :
    (PPLV.PolyStatus.minimize g s).1 = x.minimize.1 ∧ Sim x.minimize.2 (PPLV.PolyStatus.minimize g s).2 := by
  have h' := h
  sim_hyps h'
  rcases (Bool.eq_false_or_eq_true x.p.st.empty).symm with a | a
  rotate_left
  · simp [FPoly.minimize, PPLV.PolyStatus.minimize, pst, *]
  by_cases b : x.p.dim = 0
  · simp [FPoly.minimize, PPLV.PolyStatus.minimize, pst, *]
  rcases (Bool.eq_false_or_eq_true x.p.st.somethingPending).symm with c | c
  rotate_left
  · have e1 : x.minimize = x.processPending := by simp [FPoly.minimize, *]
    have e2 : PPLV.PolyStatus.minimize g s = PPLV.PolyStatus.processPending g s := by
      simp only [Status.somethingPending] at c
      simp [PPLV.PolyStatus.minimize, pst, *]
    rw [e1, e2]; exact processPending_sim x s g h (hg.pend a b c)
  rcases (Bool.eq_false_or_eq_true (x.p.st.cMin && x.p.st.gMin)).symm with d | d
  rotate_left
  · have e1 : x.minimize = (true, x) := by simp [FPoly.minimize, *]
    have e2 : PPLV.PolyStatus.minimize g s = (true, s) := by
      simp only [Status.somethingPending] at c
      simp [PPLV.PolyStatus.minimize, pst, *]
    rw [e1, e2]; exact ⟨rfl, h⟩
  rcases (Bool.eq_false_or_eq_true x.p.st.cUp).symm with e | e
  · have e1 : x.minimize = (true, x.updateConstraints) := by simp [FPoly.minimize, *]
    have e2 : PPLV.PolyStatus.minimize g s = (true, PPLV.PolyStatus.updateConstraints g s) := by
      simp only [Status.somethingPending] at c
      simp [PPLV.PolyStatus.minimize, pst, *]
    rw [e1, e2]; exact ⟨rfl, updateConstraints_sim x s g h (hg.uc a b c d e)⟩
  · have e1 : x.minimize = x.updateGenerators := by simp [FPoly.minimize, *]
    have e2 : PPLV.PolyStatus.minimize g s = PPLV.PolyStatus.updateGenerators g s := by
      simp only [Status.somethingPending] at c
      simp [PPLV.PolyStatus.minimize, pst, *]
    rw [e1, e2]; exact updateGenerators_sim' x s g h (hg.ug a b c d e)

/-! ## `is_empty()` -/

/-- ghost condition of `is_empty()`: the one of `minimize()` when it is called -/
def IsEmptyGhost (x : FPoly) (g : Gh) (s : PState) : Prop :=
  x.p.st.empty = false → (x.p.st.gUp && !x.p.st.cPend) = false → MinGhost x g s

theorem isEmpty_sim (x : FPoly) (s : PState) (g : Gh) (h : Sim x s) (hg : IsEmptyGhost x g s) :
    (PPLV.PolyStatus.isEmpty g s).1 = x.isEmpty.1 ∧ Sim x.isEmpty.2 (PPLV.PolyStatus.isEmpty g s).2 := by
  have h' := h
  sim_hyps h'
  rcases (Bool.eq_false_or_eq_true x.p.st.empty).symm with a | a
  rotate_left
  · simp [FPoly.isEmpty, PPLV.PolyStatus.isEmpty, pst, *]
  rcases (Bool.eq_false_or_eq_true (x.p.st.gUp && !x.p.st.cPend)).symm with b | b
  rotate_left
  · have e1 : x.isEmpty = (false, x) := by simp [FPoly.isEmpty, a, b]
    have e2 : PPLV.PolyStatus.isEmpty g s = (false, s) := by
      simp only [PPLV.PolyStatus.isEmpty, pst, h1, h3, h8, a, b]; simp
    rw [e1, e2]; exact ⟨rfl, h⟩
  · have e1 : x.isEmpty = (!x.minimize.1, x.minimize.2) := by simp [FPoly.isEmpty, a, b]
    have e2 : PPLV.PolyStatus.isEmpty g s
        = (!(PPLV.PolyStatus.minimize g s).1, (PPLV.PolyStatus.minimize g s).2) := by
      simp only [PPLV.PolyStatus.isEmpty, pst, h1, h3, h8, a, b]; simp
    obtain ⟨m1, m2⟩ := minimize_sim x s g h (hg a b)
    rw [e1, e2]; exact ⟨by simp [m1], m2⟩

/-! ## the idioms `needCons` / `needGens` -/

structure NeedConsGhost (x : FPoly) (g : Gh) (s : PState) : Prop where
  ppg : x.p.st.gPend = true → PpgGhost x.ppgPrep g s
  uc : x.p.st.gPend = false → x.p.st.cUp = false → UcGhost x g

theorem needCons_sim (x : FPoly) (s : PState) (g : Gh) (h : Sim x s) (hg : NeedConsGhost x g s) :
    Sim x.needCons (PPLV.PolyStatus.needCons g s) := by
  have h' := h
  sim_hyps h'
  rcases (Bool.eq_false_or_eq_true x.p.st.gPend).symm with a | a
  rotate_left
  · have e1 : x.needCons = x.processPendingGenerators := by simp [FPoly.needCons, a]
    have e2 : PPLV.PolyStatus.needCons g s = PPLV.PolyStatus.processPendingGenerators g s := by
      simp [PPLV.PolyStatus.needCons, pst, *]
    rw [e1, e2]; exact processPendingGenerators_sim x s g h (hg.ppg a)
  rcases (Bool.eq_false_or_eq_true x.p.st.cUp).symm with b | b
  · have e1 : x.needCons = x.updateConstraints := by simp [FPoly.needCons, a, b]
    have e2 : PPLV.PolyStatus.needCons g s = PPLV.PolyStatus.updateConstraints g s := by
      simp [PPLV.PolyStatus.needCons, pst, *]
    rw [e1, e2]; exact updateConstraints_sim x s g h (hg.uc a b)
  · have e1 : x.needCons = x := by simp [FPoly.needCons, a, b]
    have e2 : PPLV.PolyStatus.needCons g s = s := by
      simp [PPLV.PolyStatus.needCons, pst, *]
    rw [e1, e2]; exact h

end PPLV.PolyFull
