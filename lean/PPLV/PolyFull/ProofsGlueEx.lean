import PPLV.PolyFull.ProofsGlue

/-!
# Integration stage — the hypotheses of the glue facts are satisfiable

`FPoly.Inv` holds of the two states every constructor of `Polyhedron` starts from (the empty polyhedron
of any dimension, the zero-dimensional universe); the list-level hypotheses of part 9 on a concrete pair
of rows.  (`ConvContract` itself is the statement about the engine proved / tied elsewhere.)
-/
namespace PPLV.PolyFull
open PPLV.Lin PPLV.PolyOps

/-- the zero-dimensional universe -/
def exZeroDimUniv : FPoly := ⟨⟨false, 0, Status.zeroDimUniv, Sys.clear, Sys.clear⟩, BitMat.clear, BitMat.clear⟩

example : exZeroDimUniv.Inv Set.univ where
  wf := {
    cs_len := fun _ h => (by cases h)
    gs_wf := fun _ h => (by cases h)
    gs_pt := fun _ h => (by cases h)
    pend_c := fun h => (by cases h)
    pend_g := fun h => (by cases h)
    pend_one := fun h => (by cases h.1)
    some_up := fun _ h => (by cases h)
    zero_dim := fun _ => ⟨rfl, rfl⟩ }
  den := ⟨fun h => (by cases h), fun _ => ⟨fun h => (by cases h), fun h => (by cases h), fun _ _ => rfl⟩⟩
  legal := by decide
  fpC := fun _ h => (by cases h)
  fpG := fun _ h => (by cases h)
  low := fun _ h => (by cases h)
  denNPc := fun _ h => (by cases h)
  denNPg := fun _ h => (by cases h)
  eng := fun _ h => (by cases h)

/-- the empty polyhedron of dimension 3 (NNC) -/
example : (FPoly.setEmpty ⟨⟨true, 3, Status.zeroDimUniv, Sys.clear, Sys.clear⟩, BitMat.clear, BitMat.clear⟩).Inv ∅ :=
  inv_setEmpty _

/-- `compare` is exact: an instance of `cmpExactC` with a non-trivial premise -/
example : toL false ⟨false, 1, [2, 3], 0⟩ = toL false ⟨false, 1, [2, 3], 7⟩ :=
  cmpExactC false _ _ rfl (by decide)

/-- `sort_rows` on two rows out of order: the rows are kept (`mem_sortRowList`) -/
example : (⟨false, 0, [1, 0], 0⟩ : Row) ∈ sortRowList false false [⟨false, 0, [1, 0], 0⟩, ⟨true, 0, [0, 1], 0⟩] :=
  (mem_sortRowList _ _ _ _).mpr (by simp)

end PPLV.PolyFull
