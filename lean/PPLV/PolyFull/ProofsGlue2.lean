import PPLV.PolyFull.ProofsGlue1

/-!
# Integration stage — `GlueFacts` from `ConvContract`, part 2: `update_generators()`, `update_constraints()`
-/

namespace PPLV.PolyFull
open PPLV.Lin PPLV.PolyOps
open PPLV.Conv (LRow BRow Vec Sound SatCorrect holds holdsAll Generated)

theorem EnginePair.of_flagC_false {nnc n cs gs fG sC sG} (sC' : BitMat)
    (h : EnginePair nnc n cs gs false fG sC sG) : EnginePair nnc n cs gs false fG sC' sG :=
  ⟨h.sound, h.complete, h.minC, h.minG, h.minL, fun h' => (by cases h'), h.satG⟩

theorem EnginePair.of_flagG_false {nnc n cs gs fC sC sG} (sG' : BitMat)
    (h : EnginePair nnc n cs gs fC false sC sG) : EnginePair nnc n cs gs fC false sC sG' :=
  ⟨h.sound, h.complete, h.minC, h.minG, h.minL, h.satC, fun h' => by cases h'⟩

theorem EnginePost.of_flagC_false {nnc n S cs gs fG sC sG} (sC' : BitMat)
    (h : EnginePost nnc n S cs gs false fG sC sG) : EnginePost nnc n S cs gs false fG sC' sG :=
  ⟨h.csLen, h.gsWF, h.gsPt, h.fpC, h.fpG, h.denC, h.denG, h.low, h.pair.of_flagC_false sC'⟩

theorem EnginePost.of_flagG_false {nnc n S cs gs fC sC sG} (sG' : BitMat)
    (h : EnginePost nnc n S cs gs fC false sC sG) : EnginePost nnc n S cs gs fC false sC sG' :=
  ⟨h.csLen, h.gsWF, h.gsPt, h.fpC, h.fpG, h.denC, h.denG, h.low, h.pair.of_flagG_false sG'⟩

theorem somethingPending_false {s : Status} (h : s.somethingPending = false) :
    s.cPend = false ∧ s.gPend = false := by
  simpa [Status.somethingPending] using h

theorem updateGenerators_empty (x : FPoly)
    (h : (FPoly.engineMinimize true x.p.nnc x.p.dim x.p.cs x.satG).empty = true) :
    x.updateGenerators = (false, x.setEmpty) := by
  simp [FPoly.updateGenerators, FPoly.nnc, FPoly.dim, h]

theorem updateGenerators_ok (x : FPoly)
    (h : (FPoly.engineMinimize true x.p.nnc x.p.dim x.p.cs x.satG).empty = false) :
    x.updateGenerators = (true,
      { x with satG := (FPoly.engineMinimize true x.p.nnc x.p.dim x.p.cs x.satG).sat,
               p := { x.p with cs := (FPoly.engineMinimize true x.p.nnc x.p.dim x.p.cs x.satG).source,
                               gs := (FPoly.engineMinimize true x.p.nnc x.p.dim x.p.cs x.satG).dest,
                               st := { x.p.st with satG := true, satC := false, cUp := true, cMin := true,
                                                   gUp := true, gMin := true } } }) := by
  simp [FPoly.updateGenerators, FPoly.nnc, FPoly.dim, h]

theorem updateGenerators_facts (C : ConvContract) :
    ∀ (x : FPoly) (S : Set Val), x.Inv S → x.p.st.empty = false → 0 < x.p.dim → x.p.st.cUp = true →
    x.p.st.somethingPending = false →
    x.SameShape x.updateGenerators.2 ∧ x.updateGenerators.2.Inv S ∧
    (x.updateGenerators.1 = false → S = ∅ ∧ x.updateGenerators.2.p.st.empty = true) ∧
    (x.updateGenerators.1 = true → x.updateGenerators.2.FullyMin) := by
  intro x S hx he hd hcu hsp
  obtain ⟨hcp, hgp⟩ := somethingPending_false hsp
  have hfp := hx.fpC he hcu
  have hC := C.minimize_cg x.p.nnc x.p.dim x.p.cs x.satG hd (hx.wf.cs_len he hcu) (hfp.2 hcp)
    (hx.low he hcu)
  have hden : conSem x.p.nnc x.p.cs.rows = S := (hx.den.2 he).1 hcu hgp
  cases ho : (FPoly.engineMinimize true x.p.nnc x.p.dim x.p.cs x.satG).empty
  · have hy := updateGenerators_ok x ho
    have hpost := (hC.2 ho).of_flagC_false x.satC
    rw [hden] at hpost
    have := inv_of_post x.updateGenerators.2 S (by rw [hy]; exact hd) (by rw [hy]; exact hpost)
      (by rw [hy]; exact he) (by rw [hy]) (by rw [hy]) (by rw [hy]) (by rw [hy])
      (by rw [hy]; exact hcp) (by rw [hy]; exact hgp)
    refine ⟨by rw [hy]; exact ⟨rfl, rfl⟩, this.1, fun h => ?_, fun _ => this.2⟩
    rw [hy] at h; cases h
  · rw [updateGenerators_empty x ho]
    have hS : S = ∅ := by rw [← hden]; exact hC.1 ho
    subst hS
    exact ⟨sameShape_setEmpty x, inv_setEmpty x, fun _ => ⟨rfl, rfl⟩, fun h => by cases h⟩

theorem updateConstraints_eq (x : FPoly) :
    x.updateConstraints =
      { x with satC := (FPoly.engineMinimize false x.p.nnc x.p.dim x.p.gs x.satC).sat,
               p := { x.p with gs := (FPoly.engineMinimize false x.p.nnc x.p.dim x.p.gs x.satC).source,
                               cs := (FPoly.engineMinimize false x.p.nnc x.p.dim x.p.gs x.satC).dest,
                               st := { x.p.st with satC := true, satG := false, cUp := true, cMin := true,
                                                   gUp := true, gMin := true } } } := rfl

theorem updateConstraints_facts (C : ConvContract) :
    ∀ (x : FPoly) (S : Set Val), x.Inv S → x.p.st.empty = false → 0 < x.p.dim → x.p.st.gUp = true →
    x.p.st.somethingPending = false →
    x.SameShape x.updateConstraints ∧ x.updateConstraints.Inv S ∧ x.updateConstraints.FullyMin := by
  intro x S hx he hd hgu hsp
  obtain ⟨hcp, hgp⟩ := somethingPending_false hsp
  have hfp := hx.fpG he hgu
  have hC := C.minimize_gc x.p.nnc x.p.dim x.p.gs x.satC hd (hx.wf.gs_wf he hgu) (hx.wf.gs_pt he hgu)
    (hfp.2 hgp)
  have hden : genSem x.p.nnc x.p.dim x.p.gs.rows = S := (hx.den.2 he).2.1 hgu hcp
  have hpost := hC.of_flagG_false x.satG
  rw [hden] at hpost
  have := inv_of_post x.updateConstraints S hd hpost he rfl rfl rfl rfl hcp hgp
  exact ⟨⟨rfl, rfl⟩, this.1, this.2⟩

end PPLV.PolyFull
