import PPLV.PolyFull.ProofsStatus4j

/-!
# Integration stage — `poly_hull_assign(y)` against `PolyStatus/Ops2.lean` (`y` not aliased to `x`)

Where the receiver is (found) empty the C++ executes `*this = y`; the abstract `assign` copies a system and
its `sorted` flag only if the corresponding flag of `y` is set, the full model returns `y` as a whole.  The
two agree on the status word; they agree on the `sorted` flags under the data facts `hcY` / `hgY` below
(a description of `y` that is not up to date is flagged sorted, as the receiver's cleared systems are).
-/
namespace PPLV.PolyFull
open PPLV.PolyOps PPLV.Lin
open PPLV.PolyStatus (PState Gh Two)

attribute [local simp] FPoly.st FPoly.nnc FPoly.dim FPoly.withSt FPoly.withCs FPoly.withGs

/-! ## dimension and topology are never touched by the preparation -/

theorem processPendingConstraints_shape (x : FPoly) :
    x.processPendingConstraints.2.p.dim = x.p.dim ∧ x.processPendingConstraints.2.p.nnc = x.p.nnc := by
  obtain ⟨_, _, _, _, _, _, k7, k8⟩ := ppcPrep_keeps x
  rw [FPoly.processPendingConstraints_eq]
  unfold FPoly.ppcFin
  generalize x.ppcPrep.ppcNoPend = np at *
  generalize x.ppcPrep.ppcOut = o at *
  cases np <;> rcases (Bool.eq_false_or_eq_true o.empty).symm with b | b <;>
    simp_all [FPoly.setEmpty, Poly.setEmpty]

theorem updateGenerators_shape (x : FPoly) :
    x.updateGenerators.2.p.dim = x.p.dim ∧ x.updateGenerators.2.p.nnc = x.p.nnc := by
  unfold FPoly.updateGenerators
  generalize FPoly.engineMinimize true x.nnc x.dim x.p.cs x.satG = o at *
  rcases (Bool.eq_false_or_eq_true o.empty).symm with b | b <;> simp_all [FPoly.setEmpty, Poly.setEmpty]

theorem needGens_shape (x : FPoly) : x.needGens.2.p.dim = x.p.dim ∧ x.needGens.2.p.nnc = x.p.nnc := by
  obtain ⟨a1, a2⟩ := processPendingConstraints_shape x
  unfold FPoly.needGens
  split
  · dsimp only
    split
    · exact ⟨a1, a2⟩
    · split
      · obtain ⟨b1, b2⟩ := updateGenerators_shape x.processPendingConstraints.2
        exact ⟨b1.trans a1, b2.trans a2⟩
      · exact ⟨a1, a2⟩
  · split
    · dsimp only; exact updateGenerators_shape x
    · exact ⟨rfl, rfl⟩

/-! ## `*this = y` -/

theorem assign_sim (y : FPoly) (s t : PState) (hy : Sim y t) (he : y.p.st.empty = false) (hd : y.p.dim ≠ 0)
    (hn : s.nnc = y.p.nnc) (hc : y.p.st.cUp = false → s.b .csS = y.p.cs.sorted)
    (hg : y.p.st.gUp = false → s.b .gsS = y.p.gs.sorted) :
    Sim y (PPLV.PolyStatus.assign s t) := by
  sim_hyps hy
  have bd : (t.dim == 0) = false := by rw [h10]; simpa using hd
  unfold PPLV.PolyStatus.assign
  simp only [PState.em, h1, he, bd, Bool.false_eq_true, ↓reduceIte]
  cases hcu : y.p.st.cUp <;> cases hgu : y.p.st.gUp <;> simp_all [Sim, pst]

/-! ## the insertion -/

/-- `poly_hull_assign` after the two preparations -/
def FPoly.phTail (x y : FPoly) : FPoly :=
  let q := x.liftO (x.p.poly_hull_assign y.p)
  let exact :=
    if x.st.canPend then x.p.gs.insertPendingSys y.p.gs.rows
    else if x.p.gs.sorted && y.p.gs.sorted && !y.st.gPend then x.p.gs.mergeRowsExact true x.nnc y.p.gs.rows
    else x.p.gs.insertSysExact true x.nnc y.p.gs
  { q with p := { q.p with gs := q.p.gs.refineBy exact } }

theorem phTail_p (x y : FPoly) (hex : x.p.st.empty = false) (hey : y.p.st.empty = false) (hd : x.p.dim ≠ 0)
    (hgx : x.p.st.cPend = false) (hcx : x.p.st.gUp = true) (hgy : y.p.st.cPend = false) (hcy : y.p.st.gUp = true) :
    (x.phTail y).p =
      (if x.p.st.canPend then
        { x.p with gs := (x.p.gs.insertPendingSys y.p.gs.rows).refineBy (x.p.gs.insertPendingSys y.p.gs.rows),
                   st := { x.p.st with gPend := true } }
       else
        { x.p with
            gs := (if x.p.gs.sorted && y.p.gs.sorted && !y.p.st.gPend then x.p.gs.mergeRowsAssign y.p.gs.rows
                   else x.p.gs.insertSys y.p.gs.rows).refineBy
                  (if x.p.gs.sorted && y.p.gs.sorted && !y.p.st.gPend then x.p.gs.mergeRowsExact true x.p.nnc y.p.gs.rows
                   else x.p.gs.insertSysExact true x.p.nnc y.p.gs),
            st := ({ x.p.st with gMin := false }).clearCUp }) := by
  have hd' : (x.p.dim == 0) = false := by simpa using hd
  have e : x.p.poly_hull_assign y.p =
      some (if x.p.st.canPend then
              { x.p with gs := x.p.gs.insertPendingSys y.p.gs.rows, st := { x.p.st with gPend := true } }
            else { x.p with
                    gs := (if x.p.gs.sorted && y.p.gs.sorted && !y.p.st.gPend then x.p.gs.mergeRowsAssign y.p.gs.rows
                           else x.p.gs.insertSys y.p.gs.rows),
                    st := ({ x.p.st with gMin := false }).clearCUp }) := by
    unfold Poly.poly_hull_assign Poly.obtainGeneratorsPendingNoConv
    simp only [hex, hey, hd', hgx, hcx, hgy, hcy, Bool.false_eq_true, ↓reduceIte, Bool.not_true]
    split <;> rfl
  unfold FPoly.phTail
  simp only [e, FPoly.liftO, lift_p, FPoly.st, FPoly.nnc]
  rcases (Bool.eq_false_or_eq_true x.p.st.canPend).symm with cp | cp <;> simp [cp]

/-- the generic "rows inserted into `gen_sys`" step with a DERIVED `keep` -/
theorem insertGens_sim_of_facts' (y z : FPoly) (t : PState) (g : Gh) (m : Sim y t)
    (f1 : z.p.st = (if y.p.st.canPend then { y.p.st with gPend := true } else ({ y.p.st with gMin := false }).clearCUp))
    (f2 : z.p.dim = y.p.dim) (f3 : z.p.nnc = y.p.nnc) (f4 : z.p.cs = y.p.cs)
    (s2 : y.p.st.canPend = true → z.p.gs.sorted = y.p.gs.sorted)
    (s3 : y.p.st.canPend = false → z.p.gs.sorted = (y.p.gs.sorted && g.keep)) :
    Sim z (PPLV.PolyStatus.insertGens g t) := by
  obtain ⟨⟨zn, zd, zst, zcs, ⟨zr, zf, zsrt⟩⟩, zC, zG⟩ := z
  obtain ⟨⟨nnc, dim, ⟨e, cu, gu, cm, gm, sc, sg, cpd, gp⟩, cs, ⟨gr', gf, gsrt⟩⟩, mC, mG⟩ := y
  simp only at f1 f2 f3 f4 s2 s3
  subst f1 f2 f3 f4
  sim_hyps m
  cases hkk : g.keep <;> cases cm <;> cases gm <;> cases sc <;> cases sg <;>
    simp_all [Sim, pst, PPLV.PolyStatus.insertGens, Status.canPend, Status.clearCUp]

theorem phTail_sim (x y : FPoly) (s : PState) (ygsS ygpend : Bool) (g : Gh) (m : Sim x s)
    (hex : x.p.st.empty = false) (hey : y.p.st.empty = false) (hd : x.p.dim ≠ 0)
    (hgx : x.p.st.cPend = false) (hcx : x.p.st.gUp = true) (hgy : y.p.st.cPend = false) (hcy : y.p.st.gUp = true)
    (hrows : y.p.gs.rows.isEmpty = false)
    (hpend : y.p.st.gPend = true → y.p.gs.firstPending < y.p.gs.rows.length)
    (h1 : ygsS = y.p.gs.sorted) (h2 : ygpend = y.p.st.gPend) :
    Sim (x.phTail y) (PPLV.PolyStatus.insertGens { g with keep := ygsS && !ygpend } s) := by
  have e := phTail_p x y hex hey hd hgx hcx hgy hcy
  subst h1 h2
  rcases (Bool.eq_false_or_eq_true x.p.st.canPend).symm with cp | cp
  · simp only [cp, Bool.false_eq_true, ↓reduceIte] at e
    refine insertGens_sim_of_facts' x _ s _ m ?_ ?_ ?_ ?_ (fun hh => (by rw [cp] at hh; cases hh)) (fun _ => ?_)
    · rw [e]; simp [cp]
    · rw [e]
    · rw [e]
    · rw [e]
    · rw [e]
      simp only
      rcases (Bool.eq_false_or_eq_true (x.p.gs.sorted && y.p.gs.sorted && !y.p.st.gPend)).symm with A | A
      · simp only [A, Bool.false_eq_true, ↓reduceIte]
        have hx : (x.p.gs.insertSysExact true x.p.nnc y.p.gs).sorted = false := by
          apply insertSysExact_sorted_false _ _ _ _ hrows
          cases hs : x.p.gs.sorted <;> cases hy : y.p.gs.sorted <;> cases hc : y.p.st.gPend <;> simp_all
        have hA : (x.p.gs.sorted && (y.p.gs.sorted && !y.p.st.gPend)) = false := by
          rw [← Bool.and_assoc]; exact A
        rw [hA]
        rcases refineBy_sorted (x.p.gs.insertSys y.p.gs.rows) (x.p.gs.insertSysExact true x.p.nnc y.p.gs) with q | q
        · rw [q]; rfl
        · rw [q]; exact hx
      · simp only [A, ↓reduceIte]
        have hA : (x.p.gs.sorted && (y.p.gs.sorted && !y.p.st.gPend)) = true := by
          rw [← Bool.and_assoc]; exact A
        have hxs : x.p.gs.sorted = true := by
          cases hs : x.p.gs.sorted <;> simp_all
        rw [hA]
        rcases refineBy_sorted (x.p.gs.mergeRowsAssign y.p.gs.rows)
          (x.p.gs.mergeRowsExact true x.p.nnc y.p.gs.rows) with q | q
        · rw [q]; rfl
        · rw [q]; exact hxs
  · simp only [cp, ↓reduceIte] at e
    refine insertGens_sim_of_facts' x _ s _ m ?_ ?_ ?_ ?_ (fun _ => ?_) (fun hh => (by rw [cp] at hh; cases hh))
    · rw [e]; simp [cp]
    · rw [e]
    · rw [e]
    · rw [e]
    · rw [e]
      simp only
      rcases refineBy_sorted (x.p.gs.insertPendingSys y.p.gs.rows) (x.p.gs.insertPendingSys y.p.gs.rows) with q | q <;>
        rw [q] <;> rfl

structure PhGhost (x y : FPoly) (gx gy : Gh) (s t : PState) : Prop where
  px : x.p.st.empty = false → y.p.st.empty = false → NeedGensGhost x gx s
  py : x.p.st.empty = false → y.p.st.empty = false → NeedGensGhost y gy t

/-- `x.poly_hull_assign(y)`, `y` another object of the same (positive) dimension and topology -/
theorem polyHullAssign_sim (x y : FPoly) (s t : PState) (gx gy : Gh) (hx : Sim x s) (hy : Sim y t)
    (hd : x.p.dim ≠ 0) (hdy : y.p.dim = x.p.dim) (hny : y.p.nnc = x.p.nnc)
    (hlx : x.p.st.cPend = true → x.p.st.gUp = true) (hly : y.p.st.cPend = true → y.p.st.gUp = true)
    (hEx : x.p.st.empty = true → x.p.cs.sorted = true ∧ x.p.gs.sorted = true)
    (hcY : y.p.st.cUp = false → y.p.cs.sorted = true) (hgY : y.p.st.gUp = false → y.p.gs.sorted = true)
    (hrows : y.needGens.2.p.gs.rows.isEmpty = false)
    (hpend : y.needGens.2.p.st.gPend = true → y.needGens.2.p.gs.firstPending < y.needGens.2.p.gs.rows.length)
    (hg : PhGhost x y gx gy s t) :
    Sim (x.polyHullAssign y).1 (PPLV.PolyStatus.polyHullAssign gx gy { x := s, y := t, al := false }).x
    ∧ Sim (x.polyHullAssign y).2 (PPLV.PolyStatus.polyHullAssign gx gy { x := s, y := t, al := false }).y := by
  have hx' := hx
  sim_hyps hx'
  have hty : t.b .em = y.p.st.empty := hy.em
  have d' : (x.p.dim == 0) = false := by simpa using hd
  have bd : (s.dim == 0) = false := by rw [h10]; exact d'
  rcases (Bool.eq_false_or_eq_true y.p.st.empty).symm with b | b
  swap
  · have e1 : x.polyHullAssign y = (x, y) := by simp [FPoly.polyHullAssign, b]
    have e2 : PPLV.PolyStatus.polyHullAssign gx gy { x := s, y := t, al := false }
        = { x := s, y := t, al := false } := by
      simp [PPLV.PolyStatus.polyHullAssign, Two.gy, PState.em, hty, b]
    rw [e1, e2]; exact ⟨hx, hy⟩
  have hdy' : y.p.dim ≠ 0 := by rw [hdy]; exact hd
  rcases (Bool.eq_false_or_eq_true x.p.st.empty).symm with a | a
  swap
  · have e1 : x.polyHullAssign y = (y, y) := by simp [FPoly.polyHullAssign, a, b]
    have e2 : PPLV.PolyStatus.polyHullAssign gx gy { x := s, y := t, al := false }
        = { x := PPLV.PolyStatus.assign s t, y := t, al := false } := by
      simp [PPLV.PolyStatus.polyHullAssign, PPLV.PolyStatus.assignFromY, Two.gy, Two.onX, PState.em, hty, b, h1, a]
    rw [e1, e2]
    refine ⟨assign_sim y s t hy b hdy' (h11.trans hny.symm) (fun hc => ?_) (fun hc => ?_), hy⟩
    · rw [h12, (hEx a).1, hcY hc]
    · rw [h13, (hEx a).2, hgY hc]
  obtain ⟨m1, m2⟩ := needGens_sim x s gx hx hlx (hg.px a b)
  rcases (Bool.eq_false_or_eq_true x.needGens.1).symm with r | r
  swap
  · have e1 : x.polyHullAssign y = (y, y) := by
      unfold FPoly.polyHullAssign
      simp only [FPoly.st, FPoly.dim, a, b, d', r, Bool.false_eq_true, ↓reduceIte]
    have e2 : PPLV.PolyStatus.polyHullAssign gx gy { x := s, y := t, al := false }
        = { x := PPLV.PolyStatus.assign (PPLV.PolyStatus.needGens gx s).2 t, y := t, al := false } := by
      simp [PPLV.PolyStatus.polyHullAssign, PPLV.PolyStatus.assignFromY, Two.gy, Two.onX, Two.onXb, PState.em, hty, b,
        h1, a, bd, m1.trans r]
    rw [e1, e2]
    obtain ⟨q1, q2, _⟩ := needGens_found x r
    refine ⟨assign_sim y _ t hy b hdy' ?_ (fun hc => ?_) (fun hc => ?_), hy⟩
    · rw [m2.nnc, (needGens_shape x).2, hny]
    · rw [m2.csS, q2, hcY hc]; rfl
    · rw [m2.gsS, q1, hgY hc]; rfl
  obtain ⟨n1, n2⟩ := needGens_sim y t gy hy hly (hg.py a b)
  rcases (Bool.eq_false_or_eq_true y.needGens.1).symm with r' | r'
  swap
  · have e1 : x.polyHullAssign y = (x.needGens.2, y.needGens.2) := by
      unfold FPoly.polyHullAssign
      simp only [FPoly.st, FPoly.dim, a, b, d', r, r', Bool.false_eq_true, ↓reduceIte]
    have e2 : PPLV.PolyStatus.polyHullAssign gx gy { x := s, y := t, al := false }
        = { x := (PPLV.PolyStatus.needGens gx s).2, y := (PPLV.PolyStatus.needGens gy t).2, al := false } := by
      simp [PPLV.PolyStatus.polyHullAssign, Two.gy, Two.onXb, Two.onYb, PState.em, hty, b,
        h1, a, bd, m1.trans r, n1.trans r']
    rw [e1, e2]; exact ⟨m2, n2⟩
  · have e1 : x.polyHullAssign y = (x.needGens.2.phTail y.needGens.2, y.needGens.2) := by
      unfold FPoly.polyHullAssign
      simp only [FPoly.st, FPoly.dim, a, b, d', r, r', Bool.false_eq_true, ↓reduceIte]
      rfl
    have ex : (PPLV.PolyStatus.polyHullAssign gx gy { x := s, y := t, al := false }).x
        = PPLV.PolyStatus.insertGens
            { gx with keep := (PPLV.PolyStatus.needGens gy t).2.gsS && !(PPLV.PolyStatus.needGens gy t).2.gpend }
            (PPLV.PolyStatus.needGens gx s).2 := by
      simp [PPLV.PolyStatus.polyHullAssign, Two.gy, Two.onX, Two.onXb, Two.onYb, PState.em, hty, b,
        h1, a, bd, m1.trans r, n1.trans r']
    have ey : (PPLV.PolyStatus.polyHullAssign gx gy { x := s, y := t, al := false }).y
        = (PPLV.PolyStatus.needGens gy t).2 := by
      simp [PPLV.PolyStatus.polyHullAssign, Two.gy, Two.onX, Two.onXb, Two.onYb, PState.em, hty, b,
        h1, a, bd, m1.trans r, n1.trans r']
    rw [e1, ex, ey]
    obtain ⟨rx1, rx2, rx3, rx4, _⟩ := needGens_ready x r
    obtain ⟨ry1, ry2, ry3, _, _⟩ := needGens_ready y r'
    exact ⟨phTail_sim _ _ _ _ _ gx m2 (rx3.trans a) (ry3.trans b) (by rw [rx4]; exact hd) rx2 rx1 ry2 ry1 hrows hpend
      n2.gsS n2.gpend, n2⟩

end PPLV.PolyFull
