import PPLV.PolyFull.ProofsOps6b

/-!
# Integration stage — `remove_higher_space_dimensions` refines `RefPoly.removeHigherDims`
-/
namespace PPLV.PolyFull
open PPLV.Lin PPLV.PolyOps

theorem removeInvalid_fp (s : Sys) (h : s.firstPending = s.rows.length) :
    (removeInvalidLinesAndRays s).firstPending = (removeInvalidLinesAndRays s).rows.length := by
  show s.firstPending - ((s.rows.take s.firstPending).filter _).length = (s.rows.filter _).length
  rw [h, List.take_length]
  have := List.length_eq_length_filter_add (l := s.rows) (fun r => (r.b == 0 && r.allHomZero))
  beta_reduce at this ⊢
  omega

theorem rhsd_result (p : Poly) (nd : Nat) (hne : nd ≠ p.dim) (hp : p.WF) (hem : p.st.empty = false)
    (hg : p.st.gUp = true) (hc : p.st.cPend = false)
    (hfp : p.st.gPend = false → p.gs.firstPending = p.gs.rows.length) :
    ∃ q, p.remove_higher_space_dimensions nd = some q ∧ q.nnc = p.nnc ∧ q.dim = nd ∧
      GensOnlyResult p q := by
  obtain ⟨p', hp', hfp'⟩ := obtainGens_ex p hg hc hfp
  obtain ⟨_, _, hn', hd', _, hem', hgu', _, hgp', _, _⟩ := obtainGens_shape p p' hp hp'
  have hne' : (nd == p.dim) = false := by simpa using hne
  have hq : p.remove_higher_space_dimensions nd = some
      (if (nd == 0) = true then p'.setZeroDimUniv
        else { p' with gs := gsTruncate nd p'.gs,
                       st := { p'.st.clearCUp with gMin := false }, dim := nd }) := by
    unfold Poly.remove_higher_space_dimensions
    rw [hne']
    simp only [Bool.false_eq_true, if_false, hem, hp', Option.map_some]
  refine ⟨_, hq, ?_, ?_, ?_⟩
  · split <;> exact hn'
  · split
    · rename_i h0
      have : nd = 0 := by simpa using h0
      rw [this]; rfl
    · rfl
  · split
    · exact zeroDimUniv_gensOnly p p' hem
    · rename_i h0
      have h0' : nd ≠ 0 := by simpa using h0
      refine ⟨fun h => (by rw [hem] at h; cases h), fun _ => ⟨?_, rfl, rfl, rfl, ?_, fun _ => ?_, ?_⟩⟩
      · show p'.st.clearCUp.empty = false
        rw [← hem, ← hem']; rfl
      · show p'.st.clearCUp.gPend = false
        rw [← hgp']; rfl
      · exact removeInvalid_fp _ (by simpa using hfp')
      · exact legal_gensOnly h0' (hem'.trans hem) hgu' hgp'

theorem rhsd_empty (p : Poly) (nd : Nat) (hne : nd ≠ p.dim) (hem : p.st.empty = true) :
    p.remove_higher_space_dimensions nd = some { p with cs := Sys.clear, dim := nd } := by
  have hne' : (nd == p.dim) = false := by simpa using hne
  unfold Poly.remove_higher_space_dimensions
  rw [hne']
  simp [hem]

/-- **`Polyhedron::remove_higher_space_dimensions(nd)`, the whole object**: the receiver denotes
    `RefPoly.removeHigherDims` and keeps the invariant. -/
theorem removeHigherSpaceDimensions_refines (G : GlueFacts) (x : FPoly) (ref : RefPoly) (nd : Nat)
    (hn : ref.n = x.p.dim) (hnnc : ref.nnc = x.p.nnc) (hwf : WF ref.n ref.cs) (hnd : nd ≤ x.p.dim)
    (hx : x.Inv (sem ref.cs)) :
    (x.removeHigherSpaceDimensions nd).Inv (sem (ref.removeHigherDims nd).cs) ∧
    (x.removeHigherSpaceDimensions nd).p.nnc = x.p.nnc ∧
    (x.removeHigherSpaceDimensions nd).p.dim = nd := by
  unfold FPoly.removeHigherSpaceDimensions FPoly.dim
  by_cases hne : nd = x.p.dim
  · have : (nd == x.p.dim) = true := by simpa using hne
    rw [this]
    simp only [if_true, true_and]
    refine ⟨?_, hne.symm⟩
    exact hx.change (remove_higher_space_dimensions_rows_correct x.p x.p nd ref hn hnnc hwf hx.wf hnd hx.den
      (by simp [Poly.remove_higher_space_dimensions, hne]))
  have hne' : (nd == x.p.dim) = false := by simpa using hne
  rw [hne']
  simp only [Bool.false_eq_true, if_false]
  have hdpos : 0 < x.p.dim := by omega
  obtain ⟨hs, hi, hup⟩ := prepGens_facts G x _ hx hdpos
  generalize x.prepGensDropPending (fun y => y.updateGenerators.2) = x1 at hs hi hup ⊢
  have hn1 : ref.n = x1.p.dim := hn.trans hs.2.symm
  have hnnc1 : ref.nnc = x1.p.nnc := hnnc.trans hs.1.symm
  have hnd1 : nd ≤ x1.p.dim := by rw [hs.2]; exact hnd
  have hne1 : nd ≠ x1.p.dim := by rw [hs.2]; exact hne
  have key : ∃ q, x1.p.remove_higher_space_dimensions nd = some q ∧ q.nnc = x1.p.nnc ∧
      q.dim = nd ∧ GensOnlyResult x1.p q := by
    cases hem : x1.p.st.empty
    · obtain ⟨hgu, hcp⟩ := hup hem
      exact rhsd_result x1.p nd hne1 hi.wf hem hgu hcp (fun h => (hi.fpG hem hgu).2 h)
    · exact ⟨_, rhsd_empty x1.p nd hne1 hem, rfl, rfl, fun _ => rfl, fun h => (by rw [hem] at h; cases h)⟩
  obtain ⟨q, hq, hqn, hqd, hr⟩ := key
  rw [hq]
  have hqwf : q.WF := remove_higher_space_dimensions_rows_wf x1.p q nd hi.wf hnd1
    (legal_empty_flags hi.legal) hq
  have hqden := remove_higher_space_dimensions_rows_correct x1.p q nd ref hn1 hnnc1 hwf hi.wf hnd1 hi.den hq
  obtain ⟨hI, hcp⟩ := Inv_lift_gensOnly x1 q _ _ hi hqwf hqden hr
  obtain ⟨h1, h2, h3⟩ := finish_refineG (x1.liftO (some q)) _
    { (x1.liftO (some q)).p.gs with
      rows := swapRemove (fun (r : Row) => r.b == 0 && r.allHomZero)
        ((x1.p.gs.rows.map fun r => ({ r with cf := r.cf.take nd } : Row).strongNormalize).length + 1)
        (x1.p.gs.rows.map fun r => ({ r with cf := r.cf.take nd } : Row).strongNormalize) 0,
      firstPending := (swapRemove (fun (r : Row) => r.b == 0 && r.allHomZero)
        ((x1.p.gs.rows.map fun r => ({ r with cf := r.cf.take nd } : Row).strongNormalize).length + 1)
        (x1.p.gs.rows.map fun r => ({ r with cf := r.cf.take nd } : Row).strongNormalize) 0).length }
    ((x1.liftO (some q)).st.empty || (x1.liftO (some q)).dim == 0) hI rfl hcp
  refine ⟨h1, h2.trans ?_, h3.trans ?_⟩
  · show (x1.lift q).p.nnc = _; rw [lift_p, hqn, hs.1]
  · show (x1.lift q).p.dim = _; rw [lift_p, hqd]

end PPLV.PolyFull
