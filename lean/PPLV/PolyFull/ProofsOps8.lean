import PPLV.PolyFull.ProofsOps5b
import PPLV.PolyOps.ProofsLattice8

/-!
# Integration stage — `add_generator(ray)` and `generalized_affine_image` (`≤ = ≥`)

`generalizedAffineImage_of_affineImage`: fully proved RELATIVE to the refinement statement of
`affine_image` (which is `affineImage_refines_partial`); `generalizedAffineImage_refines_partial`
carries exactly the four hypotheses of `affineImage_refines_partial`.
-/
namespace PPLV.PolyFull
open PPLV.Lin PPLV.PolyOps

/-- `add_generator(g)` for a ray (or line-free non-point row) `g` on a non-empty receiver of positive
    dimension -/
theorem addGenerator_ray_refines (G : GlueFacts) (x : FPoly) (S S' : Set Val) (g : Row) (hx : x.Inv S)
    (hex : x.p.st.empty = false) (hd : 0 < x.p.dim) (hSne : S ≠ ∅) (hg : g.genWF x.p.nnc x.p.dim)
    (hS' : ∀ rows, genSem x.p.nnc x.p.dim rows = S → genSem x.p.nnc x.p.dim (rows ++ [g]) = S') :
    (x.addGenerator .ray g).Inv S' ∧ x.SameShape (x.addGenerator .ray g) := by
  obtain ⟨hs, hi, hemp, hne⟩ := G.needGens x S hx hex hd
  have hr1 : x.needGens.1 = false := by
    cases h : x.needGens.1
    · rfl
    · exact absurd (hemp h).1 hSne
  obtain ⟨he3, hgu3, hcp3⟩ := hne hr1
  have hd0 : (x.dim == 0) = false := by simpa [FPoly.dim] using Nat.ne_of_gt hd
  have hex' : x.st.empty = false := hex
  have hpt : (FPoly.GKindA.ray == FPoly.GKindA.point) = false := rfl
  have key : ∀ x3 : FPoly, x.needGens.2 = x3 → x.addGenerator .ray g =
      (if x3.st.canPend = true then
        ({ x3 with p := { x3.p with gs := x3.p.gs.insertPendingSys [g],
                                    st := { x3.p.st with gPend := true } } } : FPoly)
       else
        { x3 with p := { x3.p with gs := x3.p.gs.insertRow true x3.nnc g,
                                   st := ({ x3.p.st with gMin := false }).clearCUp } }) := by
    intro x3 h3
    subst h3
    unfold FPoly.addGenerator
    simp only [hd0, hex', hr1, hpt, Bool.false_eq_true, if_false, Bool.and_false]
    rfl
  have hR := key _ rfl
  rw [hR]
  generalize x.needGens.2 = x3 at hs hi he3 hgu3 hcp3
  have hg3 : g.genWF x3.p.nnc x3.p.dim := by rw [hs.1, hs.2]; exact hg
  have hwf' : ∀ r ∈ x3.p.gs.rows ++ [g], r.genWF x3.p.nnc x3.p.dim := by
    intro r hr
    rcases List.mem_append.mp hr with hr | hr
    · exact hi.wf.gs_wf he3 hgu3 r hr
    · rw [List.mem_singleton.mp hr]; exact hg3
  have hpt' : ∃ r ∈ x3.p.gs.rows ++ [g], r.isPoint x3.p.nnc := by
    obtain ⟨r, hr, hpr⟩ := hi.wf.gs_pt he3 hgu3
    exact ⟨r, List.mem_append_left _ hr, hpr⟩
  have hgen : genSem x3.p.nnc x3.p.dim (x3.p.gs.rows ++ [g]) = S' := by
    rw [hs.1, hs.2]
    apply hS'
    rw [← hs.1, ← hs.2]
    exact (hi.den.2 he3).2.1 hgu3 hcp3
  by_cases hcan : x3.st.canPend = true
  · rw [if_pos hcan]
    have hcan' : x3.p.st.canPend = true := hcan
    have hcu3 := (legal_canPend_up hi.legal hcan').1
    exact ⟨Inv_pendG x3 S S' [g] hi he3 hgu3 hcp3 hcan'
      (wf_pendForm x3.p (x3.p.gs.insertPendingSys [g]) hi.wf he3 hgu3 hcp3 hcu3 hwf' hpt')
      (denotes_pendForm x3.p (x3.p.gs.insertPendingSys [g]) S' he3 hgu3 hgen), hs⟩
  · rw [if_neg hcan]
    have hcan' : x3.p.st.canPend = false := by simpa [FPoly.st] using hcan
    have hgp3 := (legal_not_canPend hi.legal hcan').2
    exact ⟨Inv_nonpendG x3 S S' (x3.p.gs.insertRow true x3.nnc g) hi he3 hgu3 hcan' rfl
      (wf_dropForm x3.p (x3.p.gs.insertRow true x3.nnc g) hi.wf hgu3 hgp3 hwf' hpt')
      (denotes_dropForm x3.p (x3.p.gs.insertRow true x3.nnc g) S' he3 hgu3 hgen), hs⟩

theorem genImgSet_empty_of_img (n v : Nat) (r : Rel) (e : LinExpr) (den : Int) (hden : den ≠ 0) (S : Set Val)
    (h : imgSet n v e den S = ∅) : genImgSet n v r e den S = ∅ := by
  ext w
  simp only [Set.mem_empty_iff_false, iff_false]
  rintro ⟨x, hx, _, hw⟩
  have : (fun j => if j = v then e.val x / (den : Rat) else x j) ∈ imgSet n v e den S := by
    refine ⟨x, hx, ?_, fun j _ hjv => ?_⟩
    · show (den : Rat) * (if v = v then e.val x / (den : Rat) else x v) = _
      have hd : (den : Rat) ≠ 0 := by exact_mod_cast hden
      rw [if_pos rfl]; field_simp
    · show (if j = v then _ else x j) = x j
      rw [if_neg hjv]
  rw [h] at this
  exact this

/-- the part of `generalized_affine_image` after `affine_image`, for `≤` (`s = -1`) and `≥` (`s = 1`) -/
theorem genAffineImage_tail (G : GlueFacts) (x1 : FPoly) (n v : Nat) (r : Rel) (e : LinExpr) (den : Int)
    (S : Set Val) (s : Int) (hs : s = 1 ∨ s = -1)
    (hrs : ∀ a b : Rat, 0 ≤ (s : Rat) * (a - b) ↔ Rel.holds r a b)
    (hden : den ≠ 0) (hdim : x1.p.dim = n) (hv : v < n) (hI : x1.Inv (imgSet n v e den S)) :
    (if x1.isEmpty.1 = true then x1.isEmpty.2
      else x1.isEmpty.2.addGenerator .ray (rayRow x1.isEmpty.2.dim v s)).Inv (genImgSet n v r e den S) ∧
    x1.SameShape (if x1.isEmpty.1 = true then x1.isEmpty.2
      else x1.isEmpty.2.addGenerator .ray (rayRow x1.isEmpty.2.dim v s)) := by
  obtain ⟨hsh, hi, hiff, hemp, hne⟩ := G.isEmpty x1 _ hI
  cases he1 : x1.isEmpty.1
  · simp only [Bool.false_eq_true, if_false]
    obtain ⟨hne2, _⟩ := hne he1
    have hSne : imgSet n v e den S ≠ ∅ := fun h => by
      rw [hiff.mpr h] at he1; cases he1
    have hd2 : x1.isEmpty.2.p.dim = n := by rw [hsh.2]; exact hdim
    obtain ⟨h1, h2⟩ := addGenerator_ray_refines G x1.isEmpty.2 _ (genImgSet n v r e den S)
      (rayRow x1.isEmpty.2.dim v s) hi hne2 (by rw [hd2]; exact Nat.lt_of_le_of_lt (Nat.zero_le _) hv) hSne
      (by show (rayRow x1.isEmpty.2.p.dim v s).genWF _ _
          exact rayRow_genWF _ _ v s (by rw [hd2]; exact hv))
      (by intro rows hrows
          show genSem _ _ (rows ++ [rayRow x1.isEmpty.2.p.dim v s]) = _
          rw [genSem_append_rayRow _ _ v s hs rows (by rw [hd2]; exact hv), hrows, hd2]
          exact genImgSet_of_ray n v r e den hden _ _ hrs)
    exact ⟨h1, h2.1.trans hsh.1, h2.2.trans hsh.2⟩
  · simp only [if_true]
    have hS1 := hiff.mp he1
    refine ⟨hi.change ?_, hsh⟩
    exact denotes_of_empty _ _ (hemp he1) (genImgSet_empty_of_img n v r e den hden S hS1)

/-- **`generalized_affine_image(var, relsym, expr, den)`, `relsym ∈ {≤, =, ≥}`**, relative to the
    refinement statement of `affine_image` on the same arguments (`hAI`). -/
theorem generalizedAffineImage_of_affineImage (G : GlueFacts) (x : FPoly) (ref : RefPoly) (v : Nat) (r : Rel)
    (e : LinExpr) (den : Int) (hn : ref.n = x.p.dim) (hwf : WF ref.n ref.cs)
    (hv : v < x.p.dim) (he : e.coeffs.length = x.p.dim) (hden : den ≠ 0)
    (hr : r = .le ∨ r = .eq ∨ r = .ge)
    (hAI : (x.affineImage v e den).Inv (sem (ref.affineImage v e den).cs) ∧ x.SameShape (x.affineImage v e den)) :
    (x.generalizedAffineImage v r e den).Inv (sem (ref.genAffineImage v r e den).cs) ∧
      x.SameShape (x.generalizedAffineImage v r e den) := by
  have hv' : v < ref.n := by rw [hn]; exact hv
  have he' : e.coeffs.length ≤ ref.n := by rw [hn]; exact le_of_eq he
  rw [sem_genAffineImage ref v r e den hwf hv' he' hden]
  rw [sem_affineImage ref v e den hwf hv' he'] at hAI
  obtain ⟨hI, hsh⟩ := hAI
  have hdim1 : (x.affineImage v e den).p.dim = ref.n := by rw [hsh.2, hn]
  unfold FPoly.generalizedAffineImage
  rcases hr with rfl | rfl | rfl
  · have hb : (Rel.le == Rel.le) = true := rfl
    simp only [hb, if_true]
    obtain ⟨h1, h2⟩ := genAffineImage_tail G (x.affineImage v e den) ref.n v .le e den (sem ref.cs) (-1)
      (Or.inr rfl) (fun a b => by
        show _ ↔ a ≤ b
        constructor
        · intro hh; push_cast at hh; linarith
        · intro hh; push_cast; linarith) hden hdim1 hv' hI
    exact ⟨h1, h2.1.trans hsh.1, h2.2.trans hsh.2⟩
  · simp only []
    rw [genImgSet_eq _ _ _ _ hden]
    exact ⟨hI, hsh⟩
  · have hb : (Rel.ge == Rel.le) = false := rfl
    simp only [hb, Bool.false_eq_true, if_false]
    obtain ⟨h1, h2⟩ := genAffineImage_tail G (x.affineImage v e den) ref.n v .ge e den (sem ref.cs) 1
      (Or.inl rfl) (fun a b => by
        show _ ↔ b ≤ a
        constructor
        · intro hh; push_cast at hh; linarith
        · intro hh; push_cast; linarith) hden hdim1 hv' hI
    exact ⟨h1, h2.1.trans hsh.1, h2.2.trans hsh.2⟩

/-- **`generalized_affine_image`, `relsym ∈ {≤, =, ≥}`, the whole object.**  PARTIAL exactly as
    `affineImage_refines_partial`: `hLow`, `hNPc`, `hNPg`, `hEng` are the fields `low`, `denNPc`, `denNPg`,
    `eng` of the intermediate `x.affineImage v e den` in the invertible case on a receiver not marked
    empty.  The tail (`is_empty()`, `add_generator(ray)`) is fully proved. -/
theorem generalizedAffineImage_refines_partial (G : GlueFacts) (x : FPoly) (ref : RefPoly) (v : Nat) (r : Rel)
    (e : LinExpr) (den : Int) (hn : ref.n = x.p.dim) (hnnc : ref.nnc = x.p.nnc) (hwf : WF ref.n ref.cs)
    (hv : v < x.p.dim) (he : e.coeffs.length = x.p.dim) (hden : den ≠ 0) (hx : x.Inv (sem ref.cs))
    (hr : r = .le ∨ r = .eq ∨ r = .ge)
    (hLow : e.coeffs.getD v 0 ≠ 0 → x.p.st.empty = false → (x.affineImage v e den).p.st.cUp = true →
      LowLevel (x.affineImage v e den).p.nnc (x.affineImage v e den).p.dim (x.affineImage v e den).p.cs.rows)
    (hNPc : e.coeffs.getD v 0 ≠ 0 → x.p.st.empty = false → (x.affineImage v e den).p.st.cPend = true →
      genSem (x.affineImage v e den).p.nnc (x.affineImage v e den).p.dim (x.affineImage v e den).p.gs.rows =
        conSem (x.affineImage v e den).p.nnc (x.affineImage v e den).npC)
    (hNPg : e.coeffs.getD v 0 ≠ 0 → x.p.st.empty = false → (x.affineImage v e den).p.st.gPend = true →
      conSem (x.affineImage v e den).p.nnc (x.affineImage v e den).p.cs.rows =
        genSem (x.affineImage v e den).p.nnc (x.affineImage v e den).p.dim (x.affineImage v e den).npG)
    (hEng : e.coeffs.getD v 0 ≠ 0 → x.p.st.empty = false → (x.affineImage v e den).p.st.canPend = true →
      EnginePair (x.affineImage v e den).p.nnc (x.affineImage v e den).p.dim (x.affineImage v e den).npC
        (x.affineImage v e den).npG (x.affineImage v e den).p.st.satC (x.affineImage v e den).p.st.satG
        (x.affineImage v e den).satC (x.affineImage v e den).satG) :
    (x.generalizedAffineImage v r e den).Inv (sem (ref.genAffineImage v r e den).cs) ∧
      x.SameShape (x.generalizedAffineImage v r e den) :=
  generalizedAffineImage_of_affineImage G x ref v r e den hn hwf hv he hden hr
    (affineImage_refines_partial G x ref v e den hn hnnc hwf hv he hden hx hLow hNPc hNPg hEng)

/-- non-invertible `generalized_affine_image` (`≤ = ≥`): fully proved -/
theorem generalizedAffineImage_refines_noninv (G : GlueFacts) (x : FPoly) (ref : RefPoly) (v : Nat) (r : Rel)
    (e : LinExpr) (den : Int) (hn : ref.n = x.p.dim) (hnnc : ref.nnc = x.p.nnc) (hwf : WF ref.n ref.cs)
    (hv : v < x.p.dim) (he : e.coeffs.length = x.p.dim) (hden : den ≠ 0) (hx : x.Inv (sem ref.cs))
    (hr : r = .le ∨ r = .eq ∨ r = .ge) (hc : e.coeffs.getD v 0 = 0) :
    (x.generalizedAffineImage v r e den).Inv (sem (ref.genAffineImage v r e den).cs) ∧
      x.SameShape (x.generalizedAffineImage v r e den) :=
  generalizedAffineImage_of_affineImage G x ref v r e den hn hwf hv he hden hr
    (affineImage_refines_noninv G x ref v e den hn hnnc hwf hv he hden hx hc)

end PPLV.PolyFull
