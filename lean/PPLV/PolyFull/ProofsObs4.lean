import PPLV.PolyFull.ProofsObs3

/-!
# Integration stage — the binary observers, part 4: `contains`

`contains_facts`: `x.contains(y)` (Polyhedron_public.cc:3977) leaves both objects denoting their sets
and answers `true` exactly when `T ⊆ S`; `contains_refines`: that is the reference's answer
`RefPoly.contains`.
-/
namespace PPLV.PolyFull
open PPLV.Lin PPLV.PolyOps

theorem contains_facts_of (G : GlueFacts) (K : SortedObsKeep) (x y : FPoly) (S T : Set Val)
    (hx : x.Inv S) (hy : y.Inv T) (hdim : y.p.dim = x.p.dim) (hnnc : y.p.nnc = x.p.nnc) :
    (x.contains y).2.1.Inv S ∧ (x.contains y).2.2.Inv T ∧
    x.SameShape (x.contains y).2.1 ∧ y.SameShape (x.contains y).2.2 ∧
    ((x.contains y).1 = true ↔ T ⊆ S) := by
  unfold FPoly.contains
  by_cases hey : y.p.st.empty = true
  · have : y.st.empty = true := hey
    rw [if_pos this]
    have hT := hy.den.1 hey
    exact ⟨hx, hy, SameShape.refl x, SameShape.refl y, by subst hT; simp⟩
  · have hey' : y.p.st.empty = false := by simpa using hey
    have : ¬ y.st.empty = true := hey
    rw [if_neg this]
    by_cases hex : x.p.st.empty = true
    · have : x.st.empty = true := hex
      rw [if_pos this]
      have hS := hx.den.1 hex
      obtain ⟨s1, i1, a1, -⟩ := G.isEmpty y T hy
      refine ⟨hx, i1, SameShape.refl x, s1, ?_⟩
      show y.isEmpty.1 = true ↔ _
      rw [a1, hS, Set.subset_empty_iff]
    · have hex' : x.p.st.empty = false := by simpa using hex
      have : ¬ x.st.empty = true := hex
      rw [if_neg this]
      by_cases hz : y.p.dim = 0
      · have : (y.dim == 0) = true := by show (y.p.dim == 0) = true; rw [hz]; rfl
        rw [if_pos this]
        have hzx : x.p.dim = 0 := by rw [← hdim]; exact hz
        have hS : S = Set.univ :=
          (hx.den.2 hex').2.2 (hx.wf.zero_dim hzx).1 (hx.wf.zero_dim hzx).2
        have hT : T = Set.univ :=
          (hy.den.2 hey').2.2 (hy.wf.zero_dim hz).1 (hy.wf.zero_dim hz).2
        exact ⟨hx, hy, SameShape.refl x, SameShape.refl y, by rw [hS, hT]; simp⟩
      · have : ¬ (y.dim == 0) = true := by
          show ¬ (y.p.dim == 0) = true
          simpa using hz
        rw [if_neg this]
        obtain ⟨i1, i2, s1, s2, n1, n2, hq⟩ :=
          quickEquivalenceTest_true_sound_of K x y S T hx hy hdim hnnc hex' hey'
        by_cases hqt : (x.quickEquivalenceTest y).1 = some true
        · simp only [hqt, beq_self_eq_true, if_true]
          exact ⟨i1, i2, s1, s2, by rw [hq hqt]; simp⟩
        · have : ¬ ((x.quickEquivalenceTest y).1 == some true) = true := by simpa using hqt
          simp only [this]
          have hd : 0 < (x.quickEquivalenceTest y).2.2.p.dim := by rw [s2.2]; omega
          obtain ⟨j1, j2, t1, t2, ans⟩ := isIncludedIn_facts G _ _ T S i2 i1
            (by rw [s1.2, s2.2, hdim]) (by rw [s1.1, s2.1, hnnc]) n2 n1 hd
          exact ⟨j2, j1, SameShape.trans s1 t2, SameShape.trans s2 t1, ans⟩

/-- **`contains` refines `RefPoly.contains`** -/
theorem contains_refines_of (G : GlueFacts) (K : SortedObsKeep) (x y : FPoly) (refx refy : RefPoly)
    (hdim : y.p.dim = x.p.dim) (hnnc : y.p.nnc = x.p.nnc)
    (hx : x.Inv (sem refx.cs)) (hy : y.Inv (sem refy.cs))
    (hwx : WF refx.n refx.cs) (hwy : WF refx.n refy.cs) :
    (x.contains y).2.1.Inv (sem refx.cs) ∧ (x.contains y).2.2.Inv (sem refy.cs) ∧
    x.SameShape (x.contains y).2.1 ∧ y.SameShape (x.contains y).2.2 ∧
    (x.contains y).1 = refx.contains refy := by
  obtain ⟨h1, h2, h3, h4, h5⟩ := contains_facts_of G K x y _ _ hx hy hdim hnnc
  refine ⟨h1, h2, h3, h4, ?_⟩
  have hr : refx.contains refy = true ↔ sem refy.cs ⊆ sem refx.cs := by
    unfold RefPoly.contains; exact subsetB_iff _ _ _ hwy hwx
  cases hb : refx.contains refy
  · cases ha : (x.contains y).1
    · rfl
    · have := hr.mpr (h5.mp ha); rw [hb] at this; cases this
  · exact h5.mpr (hr.mp hb)

end PPLV.PolyFull
