import PPLV.PolyFull.ProofsStatus1

/-!
# Integration stage — the full model against the status-protocol model, part 2

`process_pending_constraints()` / `process_pending_generators()`: the full-model function is cut into
the same two halves as the abstract one (`ppcPrepare` / `ppcFinish`); the ghost inputs and ghost Booleans
the abstract half reads are tied to what the full model computes:
`pC` ("pending rows exist") to "a row is left after `sort_pending_and_remove_duplicates`", `emp` to the
answer of `add_and_minimize`, `g.srcS` / `g.dstS` to the two `sorted` flags the engine leaves.
-/
namespace PPLV.PolyFull
open PPLV.PolyOps
open PPLV.PolyStatus (PState Gh)

attribute [local simp] FPoly.st FPoly.nnc FPoly.dim FPoly.withSt FPoly.withCs FPoly.withGs

namespace FPoly

/-- `process_pending_constraints()` :744-747 -/
def ppcPrep (x : FPoly) : FPoly :=
  let x := if !x.st.satC then { x with satC := x.satG.transposeOf } else x
  if !x.p.cs.sorted then x.obtainSortedConstraintsWithSatC else x
/-- :752 -/
def ppcCs (x : FPoly) : Sys := x.p.cs.sortPendingAndRemoveDuplicates false x.nnc
/-- :753 "no pending row is left" -/
def ppcNoPend (x : FPoly) : Bool := (ppcCs x).rows.length == (ppcCs x).firstPending
/-- :760 the engine call -/
def ppcOut (x : FPoly) : EngineOut := engineAddAndMinimize true x.nnc x.dim (ppcCs x) x.p.gs x.satC
/-- :752-770 -/
def ppcFin (x : FPoly) : Bool × FPoly :=
  let x1 := x.withCs (ppcCs x)
  if ppcNoPend x then (true, x1.withSt { x1.st with cPend := false })
  else
    let o := ppcOut x
    if o.empty then (false, x1.setEmpty)
    else
      (true, { x1 with satC := o.sat,
                       p := { x1.p with cs := o.source, gs := o.dest,
                                        st := { x1.p.st with cPend := false, satG := false, satC := true } } })

theorem processPendingConstraints_eq (x : FPoly) : x.processPendingConstraints = ppcFin (ppcPrep x) := rfl

def ppgPrep (x : FPoly) : FPoly :=
  let x := if !x.st.satG then { x with satG := x.satC.transposeOf } else x
  if !x.p.gs.sorted then x.obtainSortedGeneratorsWithSatG else x
def ppgGs (x : FPoly) : Sys := x.p.gs.sortPendingAndRemoveDuplicates true x.nnc
def ppgNoPend (x : FPoly) : Bool := (ppgGs x).rows.length == (ppgGs x).firstPending
def ppgOut (x : FPoly) : EngineOut := engineAddAndMinimize false x.nnc x.dim (ppgGs x) x.p.cs x.satG
def ppgFin (x : FPoly) : FPoly :=
  let x1 := x.withGs (ppgGs x)
  if ppgNoPend x then x1.withSt { x1.st with gPend := false }
  else
    let o := ppgOut x
    { x1 with satG := o.sat,
              p := { x1.p with gs := o.source, cs := o.dest,
                               st := { x1.p.st with gPend := false, satC := false, satG := true } } }

theorem processPendingGenerators_eq (x : FPoly) : x.processPendingGenerators = ppgFin (ppgPrep x) := rfl

end FPoly

theorem engineAddAndMinimize_dest_sorted_imp (c nnc : Bool) (n : Nat) (src dst : Sys) (m : BitMat)
    (h : (FPoly.engineAddAndMinimize c nnc n src dst m).dest.sorted = true) : dst.sorted = true :=
  conversionDestSorted_imp _ _ _ _ _ _ _ h

/-! ## first halves -/

theorem ppcPrep_sim (x : FPoly) (s : PState) (h : Sim x s) :
    Sim x.ppcPrep (PPLV.PolyStatus.ppcPrepare s) ∧ x.ppcPrep.p.cs.sorted = true
    ∧ (PPLV.PolyStatus.ppcPrepare s).b .pC = s.b .pC ∧ (PPLV.PolyStatus.ppcPrepare s).b .emp = s.b .emp := by
  obtain ⟨⟨nnc, dim, ⟨e, cu, gu, cm, gm, sc, sg, cp, gp⟩, ⟨cr, cf, csrt⟩, ⟨gr, gf, gsrt⟩⟩, mC, mG⟩ := x
  sim_hyps h
  cases csrt <;> cases sc <;> cases sg <;>
    simp [Sim, pst, FPoly.ppcPrep, PPLV.PolyStatus.ppcPrepare, FPoly.obtainSortedConstraintsWithSatC,
      PPLV.PolyStatus.obtainSortedConstraintsWithSatC, FPoly.updateSatC, *]

theorem ppgPrep_sim (x : FPoly) (s : PState) (h : Sim x s) :
    Sim x.ppgPrep (PPLV.PolyStatus.ppgPrepare s) ∧ x.ppgPrep.p.gs.sorted = true
    ∧ (PPLV.PolyStatus.ppgPrepare s).b .pG = s.b .pG ∧ (PPLV.PolyStatus.ppgPrepare s).b .emp = s.b .emp := by
  obtain ⟨⟨nnc, dim, ⟨e, cu, gu, cm, gm, sc, sg, cp, gp⟩, ⟨cr, cf, csrt⟩, ⟨gr, gf, gsrt⟩⟩, mC, mG⟩ := x
  sim_hyps h
  cases gsrt <;> cases sc <;> cases sg <;>
    simp [Sim, pst, FPoly.ppgPrep, PPLV.PolyStatus.ppgPrepare, FPoly.obtainSortedGeneratorsWithSatG,
      PPLV.PolyStatus.obtainSortedGeneratorsWithSatG, FPoly.updateSatG, *]

/-! ## second halves -/

/-- the ghost conditions of `ppcFinish` against the full state `x` (after the first half) -/
structure PpcGhost (x : FPoly) (g : Gh) (s : PState) : Prop where
  /-- pending rows are left after duplicate removal, as the abstract model decides it -/
  pend : (s.b .pC && !(g.dup && !s.b .emp)) = !x.ppcNoPend
  /-- `emp` is the answer of `add_and_minimize` -/
  emp : x.ppcNoPend = false → s.b .emp = x.ppcOut.empty
  srcS : x.ppcNoPend = false → x.ppcOut.empty = false → g.srcS = x.ppcOut.source.sorted
  dstS : x.ppcNoPend = false → x.ppcOut.empty = false → g.dstS = x.ppcOut.dest.sorted

theorem ppcFin_sim (x : FPoly) (s : PState) (g : Gh) (h : Sim x s) (hs : x.p.cs.sorted = true)
    (hg : PpcGhost x g s) :
    (PPLV.PolyStatus.ppcFinish g s).1 = x.ppcFin.1 ∧ Sim x.ppcFin.2 (PPLV.PolyStatus.ppcFinish g s).2 := by
  obtain ⟨hP, hE, hS, hD⟩ := hg
  have hdst : x.ppcOut.dest.sorted = true → x.p.gs.sorted = true :=
    engineAddAndMinimize_dest_sorted_imp _ _ _ _ _ _
  sim_hyps h
  unfold FPoly.ppcFin PPLV.PolyStatus.ppcFinish PPLV.PolyStatus.addMinC
  generalize x.ppcNoPend = np at *
  generalize x.ppcOut = o at *
  rcases Bool.eq_false_or_eq_true np with a | a <;>
    rcases Bool.eq_false_or_eq_true o.empty with b | b <;>
    rcases Bool.eq_false_or_eq_true (s.b .pC) with c | c <;>
    rcases Bool.eq_false_or_eq_true (s.b .emp) with d | d <;>
    rcases Bool.eq_false_or_eq_true g.dup with e | e <;>
    simp_all [Sim, pst, FPoly.setEmpty, Poly.setEmpty, Status.setEmpty, Sys.clear, FPoly.ppcCs]

structure PpgGhost (x : FPoly) (g : Gh) (s : PState) : Prop where
  pend : (s.b .pG && !g.dup) = !x.ppgNoPend
  srcS : x.ppgNoPend = false → g.srcS = x.ppgOut.source.sorted
  dstS : x.ppgNoPend = false → g.dstS = x.ppgOut.dest.sorted

theorem ppgFin_sim (x : FPoly) (s : PState) (g : Gh) (h : Sim x s) (hs : x.p.gs.sorted = true)
    (hg : PpgGhost x g s) :
    Sim x.ppgFin (PPLV.PolyStatus.ppgFinish g s) := by
  obtain ⟨hP, hS, hD⟩ := hg
  have hdst : x.ppgOut.dest.sorted = true → x.p.cs.sorted = true :=
    engineAddAndMinimize_dest_sorted_imp _ _ _ _ _ _
  sim_hyps h
  unfold FPoly.ppgFin PPLV.PolyStatus.ppgFinish PPLV.PolyStatus.addMinG
  generalize x.ppgNoPend = np at *
  generalize x.ppgOut = o at *
  rcases Bool.eq_false_or_eq_true np with a | a <;>
    rcases Bool.eq_false_or_eq_true (s.b .pG) with c | c <;>
    rcases Bool.eq_false_or_eq_true g.dup with e | e <;>
    simp_all [Sim, pst, FPoly.ppgGs]

/-! ## the whole functions -/

/-- `process_pending_constraints()` under the ghost conditions (stated on the state after the first half;
    the first half touches neither `pC` nor `emp`) -/
theorem processPendingConstraints_sim (x : FPoly) (s : PState) (g : Gh) (h : Sim x s)
    (hg : PpcGhost x.ppcPrep g s) :
    (PPLV.PolyStatus.processPendingConstraints g s).1 = x.processPendingConstraints.1
    ∧ Sim x.processPendingConstraints.2 (PPLV.PolyStatus.processPendingConstraints g s).2 := by
  obtain ⟨h1, h2, h3, h4⟩ := ppcPrep_sim x s h
  rw [FPoly.processPendingConstraints_eq]
  unfold PPLV.PolyStatus.processPendingConstraints
  refine ppcFin_sim _ _ g h1 h2 ⟨?_, ?_, hg.srcS, hg.dstS⟩
  · rw [h3, h4]; exact hg.pend
  · rw [h4]; exact hg.emp

theorem processPendingGenerators_sim (x : FPoly) (s : PState) (g : Gh) (h : Sim x s)
    (hg : PpgGhost x.ppgPrep g s) :
    Sim x.processPendingGenerators (PPLV.PolyStatus.processPendingGenerators g s) := by
  obtain ⟨h1, h2, h3, _⟩ := ppgPrep_sim x s h
  rw [FPoly.processPendingGenerators_eq]
  unfold PPLV.PolyStatus.processPendingGenerators
  refine ppgFin_sim _ _ g h1 h2 ⟨?_, hg.srcS, hg.dstS⟩
  rw [h3]; exact hg.pend

/-! ## canonical ghost choices -/

/-- the ghost inputs the full model computes in `process_pending_constraints()` -/
def FPoly.ppcGh (x : FPoly) : Gh :=
  { dup := false, srcS := x.ppcPrep.ppcOut.source.sorted, dstS := x.ppcPrep.ppcOut.dest.sorted }
/-- the ghost Booleans: pending rows are left; the engine's emptiness answer -/
def FPoly.ppcSt (x : FPoly) (s : PState) : PState :=
  (s.set .pC (!x.ppcPrep.ppcNoPend)).set .emp (!x.ppcPrep.ppcNoPend && x.ppcPrep.ppcOut.empty)

theorem ppcGhost_canon (x : FPoly) (s : PState) : PpcGhost x.ppcPrep x.ppcGh (x.ppcSt s) := by
  constructor <;> simp (config := { contextual := true }) [FPoly.ppcGh, FPoly.ppcSt]

theorem ppcSt_sameStored (x : FPoly) (s : PState) : SameStored s (x.ppcSt s) :=
  (SameStored.set_ghost s .pC _ rfl).trans (SameStored.set_ghost _ .emp _ rfl)

def FPoly.ppgGh (x : FPoly) : Gh :=
  { dup := false, srcS := x.ppgPrep.ppgOut.source.sorted, dstS := x.ppgPrep.ppgOut.dest.sorted }
def FPoly.ppgSt (x : FPoly) (s : PState) : PState := s.set .pG (!x.ppgPrep.ppgNoPend)

theorem ppgGhost_canon (x : FPoly) (s : PState) : PpgGhost x.ppgPrep x.ppgGh (x.ppgSt s) := by
  constructor <;> simp [FPoly.ppgGh, FPoly.ppgSt]

theorem ppgSt_sameStored (x : FPoly) (s : PState) : SameStored s (x.ppgSt s) :=
  SameStored.set_ghost s .pG _ rfl

end PPLV.PolyFull
