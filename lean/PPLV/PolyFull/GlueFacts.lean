import PPLV.PolyFull.Spec

/-!
# Integration stage — the facts about the private helpers that the operator proofs use

`GlueFacts`: every helper of `Polyhedron_nonpublic.cc` keeps the invariant `FPoly.Inv x S` (same set!),
keeps topology and dimension, answers "empty" exactly of the empty set, and establishes the status the
callers rely on.  `ProofsGlue*.lean` proves `GlueFacts` from `ConvContract`; `ProofsOps*.lean` uses it.
-/
namespace PPLV.PolyFull
open PPLV.Lin PPLV.PolyOps

def FPoly.SameShape (x y : FPoly) : Prop := y.p.nnc = x.p.nnc ∧ y.p.dim = x.p.dim

/-- nothing pending, both descriptions up to date and minimized -/
def FPoly.FullyMin (x : FPoly) : Prop :=
  x.p.st.empty = false ∧ x.p.st.cUp = true ∧ x.p.st.gUp = true ∧ x.p.st.cMin = true ∧ x.p.st.gMin = true ∧
    x.p.st.cPend = false ∧ x.p.st.gPend = false

structure GlueFacts : Prop where
  /-- `update_generators()` -/
  updG : ∀ (x : FPoly) (S : Set Val), x.Inv S → x.p.st.empty = false → 0 < x.p.dim → x.p.st.cUp = true →
    x.p.st.somethingPending = false →
    x.SameShape x.updateGenerators.2 ∧ x.updateGenerators.2.Inv S ∧
    (x.updateGenerators.1 = false → S = ∅ ∧ x.updateGenerators.2.p.st.empty = true) ∧
    (x.updateGenerators.1 = true → x.updateGenerators.2.FullyMin)
  /-- `update_constraints()` -/
  updC : ∀ (x : FPoly) (S : Set Val), x.Inv S → x.p.st.empty = false → 0 < x.p.dim → x.p.st.gUp = true →
    x.p.st.somethingPending = false →
    x.SameShape x.updateConstraints ∧ x.updateConstraints.Inv S ∧ x.updateConstraints.FullyMin
  /-- `process_pending_constraints()` -/
  ppc : ∀ (x : FPoly) (S : Set Val), x.Inv S → x.p.st.empty = false → x.p.st.cPend = true →
    x.SameShape x.processPendingConstraints.2 ∧ x.processPendingConstraints.2.Inv S ∧
    (x.processPendingConstraints.1 = false → S = ∅ ∧ x.processPendingConstraints.2.p.st.empty = true) ∧
    (x.processPendingConstraints.1 = true → x.processPendingConstraints.2.FullyMin)
  /-- `process_pending_generators()` -/
  ppg : ∀ (x : FPoly) (S : Set Val), x.Inv S → x.p.st.empty = false → x.p.st.gPend = true →
    x.SameShape x.processPendingGenerators ∧ x.processPendingGenerators.Inv S ∧ x.processPendingGenerators.FullyMin
  /-- `minimize()` -/
  minimize : ∀ (x : FPoly) (S : Set Val), x.Inv S →
    x.SameShape x.minimize.2 ∧ x.minimize.2.Inv S ∧ (x.minimize.1 = false ↔ S = ∅) ∧
    (x.minimize.1 = false → x.minimize.2.p.st.empty = true) ∧
    (x.minimize.1 = true → 0 < x.p.dim → x.minimize.2.FullyMin)
  /-- `is_empty()` -/
  isEmpty : ∀ (x : FPoly) (S : Set Val), x.Inv S →
    x.SameShape x.isEmpty.2 ∧ x.isEmpty.2.Inv S ∧ (x.isEmpty.1 = true ↔ S = ∅) ∧
    (x.isEmpty.1 = true → x.isEmpty.2.p.st.empty = true) ∧
    (x.isEmpty.1 = false → x.isEmpty.2.p.st.empty = false ∧
      (0 < x.p.dim → x.isEmpty.2.p.st.gUp = true ∧ x.isEmpty.2.p.st.cPend = false))
  /-- "the constraints (possibly with pending rows) are required" -/
  needCons : ∀ (x : FPoly) (S : Set Val), x.Inv S → x.p.st.empty = false → 0 < x.p.dim →
    x.SameShape x.needCons ∧ x.needCons.Inv S ∧ x.needCons.p.st.empty = false ∧
    x.needCons.p.st.cUp = true ∧ x.needCons.p.st.gPend = false
  /-- "the generators (possibly with pending rows) are required" -/
  needGens : ∀ (x : FPoly) (S : Set Val), x.Inv S → x.p.st.empty = false → 0 < x.p.dim →
    x.SameShape x.needGens.2 ∧ x.needGens.2.Inv S ∧
    (x.needGens.1 = true → S = ∅ ∧ x.needGens.2.p.st.empty = true) ∧
    (x.needGens.1 = false → x.needGens.2.p.st.empty = false ∧ x.needGens.2.p.st.gUp = true ∧
      x.needGens.2.p.st.cPend = false)

end PPLV.PolyFull
