import PPLV.PolyFull.ProofsOps1
import PPLV.PolyFull.ProofsOps10
import PPLV.PolyFull.ProofsOps10b
import PPLV.PolyFull.ProofsOps11
import PPLV.PolyFull.ProofsOps11a
import PPLV.PolyFull.ProofsOps11b
import PPLV.PolyFull.ProofsOps11c
import PPLV.PolyFull.ProofsOps11d
import PPLV.PolyFull.ProofsOps11e
import PPLV.PolyFull.ProofsOps11f
import PPLV.PolyFull.ProofsOps11g
import PPLV.PolyFull.ProofsOps11i
import PPLV.PolyFull.ProofsOps11j
import PPLV.PolyFull.ProofsOps2
import PPLV.PolyFull.ProofsOps3
import PPLV.PolyFull.ProofsOps4
import PPLV.PolyFull.ProofsOps4b
import PPLV.PolyFull.ProofsOps4c
import PPLV.PolyFull.ProofsOps4d
import PPLV.PolyFull.ProofsOps5
import PPLV.PolyFull.ProofsOps5b
import PPLV.PolyFull.ProofsOps5c
import PPLV.PolyFull.ProofsOps6
import PPLV.PolyFull.ProofsOps6b
import PPLV.PolyFull.ProofsOps6c
import PPLV.PolyFull.ProofsOps6d
import PPLV.PolyFull.ProofsOps6e
import PPLV.PolyFull.ProofsOps6f
import PPLV.PolyFull.ProofsOps6g
import PPLV.PolyFull.ProofsOps6h
import PPLV.PolyFull.ProofsOps6i
import PPLV.PolyFull.ProofsOps7
import PPLV.PolyFull.ProofsOps8
import PPLV.PolyFull.ProofsOps9
import PPLV.PolyFull.ProofsOps9b
import PPLV.PolyFull.ProofsOps9c

/-!
# Integration stage — the public operators of the full `Polyhedron` model refine the reference operators

All of `ProofsOps*.lean`: see the module docs of each file.  Fully proved: `intersectionAssign_refines`,
`addConstraint_refines`, `unconstrain_refines`, `polyHullAssign_refines`, `timeElapseAssign_refines`
(`_empty`), `removeSpaceDimensions_refines`, `removeHigherSpaceDimensions_refines`,
`affineImage_refines_noninv` / `_empty` / `_gensOnly`, `affinePreimage_refines_noninv` / `_gensOnly`,
`generalizedAffineImage_refines_noninv`, `generalizedAffineImage_of_affineImage`.  Partial (explicit
hypotheses about the result, see the doc comments): `affineImage_refines_partial2`,
`affinePreimage_refines_partial2`, `generalizedAffineImage_refines_partial2` (`hNPg`, `hEng`),
`topologicalClosureAssign_refines_partial` (`hLow`), `addSpaceDimensionsAndEmbed_refines_partial`,
`addSpaceDimensionsAndProject_refines_partial`, `concatenateAssign_refines_partial` (`hEng`).
-/
