import PPLV.PolyFull.ProofsOps5b
import PPLV.PolyFull.ProofsOps5c

/-!
# Integration stage — invertible `affine_image` / `affine_preimage`: the field `denNPc` of the result

"With pending constraints the generators describe the non-pending constraints" survives the
invertible rewriting of both descriptions: apply the row-level theorem of C02 to the receiver with
its pending constraints dropped (`dropPendC`), on which both descriptions denote the same set.
`affineImage_refines_partial'` / `affinePreimage_refines_partial'`: the theorems of ProofsOps5b/5c
without the hypothesis `hNPc`.
-/
namespace PPLV.PolyFull
open PPLV.Lin PPLV.PolyOps

/-- the pending constraints dropped -/
def dropPendC (p : Poly) : Poly :=
  { p with cs := ⟨p.cs.rows.take p.cs.firstPending, p.cs.firstPending, p.cs.sorted⟩,
           st := { p.st with cPend := false } }

theorem dropPendC_wf (p : Poly) (hp : p.WF) : (dropPendC p).WF :=
  ⟨fun he hc r hr => hp.cs_len he hc r (List.mem_of_mem_take hr), hp.gs_wf, hp.gs_pt,
    fun h => (by cases h), hp.pend_g, fun h => (by cases h.1), hp.some_up, hp.zero_dim⟩

theorem dropPendC_denotes (p : Poly) (hp : p.WF) (he : p.st.empty = false) (hcp : p.st.cPend = true)
    (hnp : genSem p.nnc p.dim p.gs.rows = conSem p.nnc (p.cs.rows.take p.cs.firstPending)) :
    (dropPendC p).Denotes (conSem p.nnc (p.cs.rows.take p.cs.firstPending)) := by
  refine ⟨fun h => ?_, fun _ => ⟨fun _ _ => rfl, fun _ _ => hnp, fun h => ?_⟩⟩
  · rw [show p.st.empty = true from h] at he; cases he
  · have := (hp.pend_c hcp).1
    rw [show p.st.cUp = false from h] at this; cases this

theorem affine_image_inv_denNPc (p q : Poly) (v : Nat) (e : LinExpr) (den : Int) (hp : p.WF)
    (hem : p.st.empty = false) (hc : e.coeffs.getD v 0 ≠ 0) (hv : v < p.dim) (he : e.coeffs.length = p.dim)
    (hden : den ≠ 0) (hcp : p.st.cPend = true)
    (hnp : genSem p.nnc p.dim p.gs.rows = conSem p.nnc (p.cs.rows.take p.cs.firstPending))
    (h : p.affine_image v e den = some q) :
    genSem q.nnc q.dim q.gs.rows = conSem q.nnc (q.cs.rows.take q.cs.firstPending) := by
  obtain ⟨hst, hqn, hqd, hgs, hcs⟩ := affine_image_inv_shape p q v e den hem hc h
  obtain ⟨hcu, hgu⟩ := hp.pend_c hcp
  have hgp : p.st.gPend = false := by
    cases hh : p.st.gPend
    · rfl
    · exact absurd ⟨hcp, hh⟩ hp.pend_one
  obtain ⟨q', hq'⟩ : ∃ q', (dropPendC p).affine_image v e den = some q' := by
    unfold Poly.affine_image
    rw [if_neg (by show ¬ p.st.empty = true; simp [hem]), if_pos (bne_iff_ne.mpr hc)]
    exact ⟨_, rfl⟩
  obtain ⟨hst', hqn', hqd', hgs', hcs'⟩ := affine_image_inv_shape (dropPendC p) q' v e den hem hc hq'
  have hwf' : WF p.dim (consOf p.nnc (p.cs.rows.take p.cs.firstPending)) :=
    kitC_wf p.nnc p.dim _ (fun r hr => hp.cs_len hem hcu r (List.mem_of_mem_take hr))
  have hD' := affine_image_rows_correct (dropPendC p) q' v e den
    (refOfCons p.nnc p.dim (p.cs.rows.take p.cs.firstPending)) rfl rfl hwf' (dropPendC_wf p hp) hv he hden
    (dropPendC_denotes p hp hem hcp hnp) hq'
  have hqe' : q'.st.empty = false := by rw [hst']; exact hem
  have e1 := (hD'.2 hqe').1 (by rw [hst']; exact hcu) (by rw [hst']; exact hgp)
  have e2 := (hD'.2 hqe').2.1 (by rw [hst']; exact hgu) (by rw [hst']; rfl)
  have hgeq : q'.gs = q.gs := by
    rw [hgs', hgs]; rfl
  have hceq : q'.cs.rows = q.cs.rows.take q.cs.firstPending := by
    rw [hcs', hcs, if_pos hcu, if_pos (show (dropPendC p).st.cUp = true from hcu)]
    rw [(csAffinePreimage_fp _ _ _ _).1, csAffinePreimage_rows, csAffinePreimage_rows]
    show ((p.cs.rows.take p.cs.firstPending).map _).map _ = _
    rw [List.map_take, List.map_take]
    rfl
  rw [hqn, hqd]
  rw [hqn', hqd', hgeq] at e2
  rw [hqn', hceq] at e1
  exact e2.trans e1.symm

theorem affine_preimage_inv_denNPc (p q : Poly) (v : Nat) (e : LinExpr) (den : Int) (hp : p.WF)
    (hem : p.st.empty = false) (hc : e.coeffs.getD v 0 ≠ 0) (hv : v < p.dim) (he : e.coeffs.length = p.dim)
    (hden : den ≠ 0) (hcp : p.st.cPend = true)
    (hnp : genSem p.nnc p.dim p.gs.rows = conSem p.nnc (p.cs.rows.take p.cs.firstPending))
    (h : p.affine_preimage v e den = some q) :
    genSem q.nnc q.dim q.gs.rows = conSem q.nnc (q.cs.rows.take q.cs.firstPending) := by
  obtain ⟨hst, hqn, hqd, hcs, hgs⟩ := affine_preimage_inv_shape p q v e den hem hc h
  obtain ⟨hcu, hgu⟩ := hp.pend_c hcp
  have hgp : p.st.gPend = false := by
    cases hh : p.st.gPend
    · rfl
    · exact absurd ⟨hcp, hh⟩ hp.pend_one
  obtain ⟨q', hq'⟩ : ∃ q', (dropPendC p).affine_preimage v e den = some q' := by
    unfold Poly.affine_preimage
    rw [if_neg (by show ¬ p.st.empty = true; simp [hem]), if_pos (bne_iff_ne.mpr hc)]
    exact ⟨_, rfl⟩
  obtain ⟨hst', hqn', hqd', hcs', hgs'⟩ := affine_preimage_inv_shape (dropPendC p) q' v e den hem hc hq'
  have hwf' : WF p.dim (consOf p.nnc (p.cs.rows.take p.cs.firstPending)) :=
    kitC_wf p.nnc p.dim _ (fun r hr => hp.cs_len hem hcu r (List.mem_of_mem_take hr))
  have hD' := affine_preimage_rows_correct (dropPendC p) q' v e den
    (refOfCons p.nnc p.dim (p.cs.rows.take p.cs.firstPending)) rfl rfl hwf' (dropPendC_wf p hp) hv he hden
    (dropPendC_denotes p hp hem hcp hnp) hq'
  have hqe' : q'.st.empty = false := by rw [hst']; exact hem
  have e1 := (hD'.2 hqe').1 (by rw [hst']; exact hcu) (by rw [hst']; exact hgp)
  have e2 := (hD'.2 hqe').2.1 (by rw [hst']; exact hgu) (by rw [hst']; rfl)
  have hgeq : q'.gs = q.gs := by
    rw [hgs', hgs]; rfl
  have hceq : q'.cs.rows = q.cs.rows.take q.cs.firstPending := by
    rw [hcs', hcs, if_pos hcu, if_pos (show (dropPendC p).st.cUp = true from hcu)]
    rw [(csSigned_fp _ _ _ _).1]
    unfold csSigned
    split
    · rw [csAffinePreimage_rows, csAffinePreimage_rows]
      show ((p.cs.rows.take p.cs.firstPending).map _).map _ = _
      rw [List.map_take, List.map_take]
    · rw [csAffinePreimage_rows, csAffinePreimage_rows]
      show ((p.cs.rows.take p.cs.firstPending).map _).map _ = _
      rw [List.map_take, List.map_take]
  rw [hqn, hqd]
  rw [hqn', hqd', hgeq] at e2
  rw [hqn', hceq] at e1
  exact e2.trans e1.symm

theorem affineImage_inv_p (x : FPoly) (v : Nat) (e : LinExpr) (den : Int) (hex : x.p.st.empty = false)
    (hc : e.coeffs.getD v 0 ≠ 0) :
    ∃ q, x.p.affine_image v e den = some q ∧ (x.affineImage v e den).p = q := by
  obtain ⟨q, hq⟩ : ∃ q, x.p.affine_image v e den = some q := by
    unfold Poly.affine_image
    rw [if_neg (by simp [hex]), if_pos (bne_iff_ne.mpr hc)]
    exact ⟨_, rfl⟩
  refine ⟨q, hq, ?_⟩
  rw [affineImage_eq_of_trivial x v e den (by rw [bne_iff_ne.mpr hc]; simp), hq]
  exact lift_p x q

theorem affinePreimage_inv_p (x : FPoly) (v : Nat) (e : LinExpr) (den : Int) (hex : x.p.st.empty = false)
    (hc : e.coeffs.getD v 0 ≠ 0) :
    ∃ q, x.p.affine_preimage v e den = some q ∧ (x.affinePreimage v e den).p = q := by
  obtain ⟨q, hq⟩ : ∃ q, x.p.affine_preimage v e den = some q := by
    unfold Poly.affine_preimage
    rw [if_neg (by simp [hex]), if_pos (bne_iff_ne.mpr hc)]
    exact ⟨_, rfl⟩
  refine ⟨q, hq, ?_⟩
  rw [affinePreimage_eq, if_pos (by rw [bne_iff_ne.mpr hc]; simp), hq]
  exact lift_p x q

/-- **`affine_image`, the whole object** — as `affineImage_refines_partial` with `hNPc` discharged.
    PARTIAL: assumed of the RESULT in the invertible case on a receiver not marked empty: `hLow`
    (field `low`), `hNPg` (field `denNPg`), `hEng` (field `eng`). -/
theorem affineImage_refines_partial' (G : GlueFacts) (x : FPoly) (ref : RefPoly) (v : Nat) (e : LinExpr)
    (den : Int) (hn : ref.n = x.p.dim) (hnnc : ref.nnc = x.p.nnc) (hwf : WF ref.n ref.cs)
    (hv : v < x.p.dim) (he : e.coeffs.length = x.p.dim) (hden : den ≠ 0) (hx : x.Inv (sem ref.cs))
    (hLow : e.coeffs.getD v 0 ≠ 0 → x.p.st.empty = false → (x.affineImage v e den).p.st.cUp = true →
      LowLevel (x.affineImage v e den).p.nnc (x.affineImage v e den).p.dim (x.affineImage v e den).p.cs.rows)
    (hNPg : e.coeffs.getD v 0 ≠ 0 → x.p.st.empty = false → (x.affineImage v e den).p.st.gPend = true →
      conSem (x.affineImage v e den).p.nnc (x.affineImage v e den).p.cs.rows =
        genSem (x.affineImage v e den).p.nnc (x.affineImage v e den).p.dim (x.affineImage v e den).npG)
    (hEng : e.coeffs.getD v 0 ≠ 0 → x.p.st.empty = false → (x.affineImage v e den).p.st.canPend = true →
      EnginePair (x.affineImage v e den).p.nnc (x.affineImage v e den).p.dim (x.affineImage v e den).npC
        (x.affineImage v e den).npG (x.affineImage v e den).p.st.satC (x.affineImage v e den).p.st.satG
        (x.affineImage v e den).satC (x.affineImage v e den).satG) :
    (x.affineImage v e den).Inv (sem (ref.affineImage v e den).cs) ∧ x.SameShape (x.affineImage v e den) := by
  refine affineImage_refines_partial G x ref v e den hn hnnc hwf hv he hden hx hLow ?_ hNPg hEng
  intro hc hex hcpR
  obtain ⟨q, hq, hp⟩ := affineImage_inv_p x v e den hex hc
  obtain ⟨hst, _⟩ := affine_image_inv_shape x.p q v e den hex hc hq
  unfold FPoly.npC
  rw [hp] at hcpR ⊢
  have hcp : x.p.st.cPend = true := by rw [← hst]; exact hcpR
  exact affine_image_inv_denNPc x.p q v e den hx.wf hex hc hv he hden hcp (hx.denNPc hex hcp) hq

/-- **`affine_preimage`, the whole object** — as `affinePreimage_refines_partial` with `hNPc` discharged.
    PARTIAL: assumed of the RESULT when the receiver is not marked empty: `hLow` (field `low`; all
    cases), and in the invertible case `hNPg` (field `denNPg`), `hEng` (field `eng`). -/
theorem affinePreimage_refines_partial' (G : GlueFacts) (x : FPoly) (ref : RefPoly) (v : Nat) (e : LinExpr)
    (den : Int) (hn : ref.n = x.p.dim) (hnnc : ref.nnc = x.p.nnc) (hwf : WF ref.n ref.cs)
    (hv : v < x.p.dim) (he : e.coeffs.length = x.p.dim) (hden : den ≠ 0) (hx : x.Inv (sem ref.cs))
    (hLow : x.p.st.empty = false → (x.affinePreimage v e den).p.st.empty = false →
      (x.affinePreimage v e den).p.st.cUp = true →
      LowLevel (x.affinePreimage v e den).p.nnc (x.affinePreimage v e den).p.dim
        (x.affinePreimage v e den).p.cs.rows)
    (hNPg : e.coeffs.getD v 0 ≠ 0 → x.p.st.empty = false → (x.affinePreimage v e den).p.st.gPend = true →
      conSem (x.affinePreimage v e den).p.nnc (x.affinePreimage v e den).p.cs.rows =
        genSem (x.affinePreimage v e den).p.nnc (x.affinePreimage v e den).p.dim (x.affinePreimage v e den).npG)
    (hEng : e.coeffs.getD v 0 ≠ 0 → x.p.st.empty = false → (x.affinePreimage v e den).p.st.canPend = true →
      EnginePair (x.affinePreimage v e den).p.nnc (x.affinePreimage v e den).p.dim
        (x.affinePreimage v e den).npC (x.affinePreimage v e den).npG (x.affinePreimage v e den).p.st.satC
        (x.affinePreimage v e den).p.st.satG (x.affinePreimage v e den).satC (x.affinePreimage v e den).satG) :
    (x.affinePreimage v e den).Inv (sem (ref.affinePreimage v e den).cs) ∧
      x.SameShape (x.affinePreimage v e den) := by
  refine affinePreimage_refines_partial G x ref v e den hn hnnc hwf hv he hden hx hLow ?_ hNPg hEng
  intro hc hex hcpR
  obtain ⟨q, hq, hp⟩ := affinePreimage_inv_p x v e den hex hc
  obtain ⟨hst, _⟩ := affine_preimage_inv_shape x.p q v e den hex hc hq
  unfold FPoly.npC
  rw [hp] at hcpR ⊢
  have hcp : x.p.st.cPend = true := by rw [← hst]; exact hcpR
  exact affine_preimage_inv_denNPc x.p q v e den hx.wf hex hc hv he hden hcp (hx.denNPc hex hcp) hq

end PPLV.PolyFull
