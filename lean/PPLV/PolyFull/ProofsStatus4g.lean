import PPLV.PolyFull.ProofsStatus4f

/-!
# Integration stage — `unconstrain(vars)` against `PolyStatus/Ops.lean`

`insertGens_sim_of_facts`: the generic "rows inserted into `gen_sys`, pending if possible" step — any full
state whose status word, dimension, topology, `con_sys` and `sorted` flag of `gen_sys` relate to the ones of
`y` as the C++ insertion prescribes is simulated by `insertGens`.
-/
namespace PPLV.PolyFull
open PPLV.PolyOps
open PPLV.PolyStatus (PState Gh)

attribute [local simp] FPoly.st FPoly.nnc FPoly.dim FPoly.withSt FPoly.withCs FPoly.withGs

theorem insertGens_sim_of_facts (y z : FPoly) (t : PState) (g : Gh) (m : Sim y t)
    (f1 : z.p.st = (if y.p.st.canPend then { y.p.st with gPend := true } else ({ y.p.st with gMin := false }).clearCUp))
    (f2 : z.p.dim = y.p.dim) (f3 : z.p.nnc = y.p.nnc) (f4 : z.p.cs = y.p.cs)
    (s2 : y.p.st.canPend = true → z.p.gs.sorted = y.p.gs.sorted)
    (s3 : y.p.st.canPend = false → z.p.gs.sorted = true → y.p.gs.sorted = true)
    (hk : g.keep = z.p.gs.sorted) :
    Sim z (PPLV.PolyStatus.insertGens g t) := by
  obtain ⟨⟨zn, zd, zst, zcs, ⟨zr, zf, zsrt⟩⟩, zC, zG⟩ := z
  obtain ⟨⟨nnc, dim, ⟨e, cu, gu, cm, gm, sc, sg, cpd, gp⟩, cs, ⟨gr', gf, gsrt⟩⟩, mC, mG⟩ := y
  simp only at f1 f2 f3 f4 s2 s3 hk
  subst f1 f2 f3 f4
  sim_hyps m
  cases hkk : g.keep <;> cases cm <;> cases gm <;> cases sc <;> cases sg <;>
    simp_all [Sim, pst, PPLV.PolyStatus.insertGens, Status.canPend, Status.clearCUp]

theorem foldl_insertRow_sorted_imp (gen nnc : Bool) (ls : List Row) (s0 : Sys)
    (h : (ls.foldl (fun s l => s.insertRow gen nnc l) s0).sorted = true) : s0.sorted = true := by
  induction ls generalizing s0 with
  | nil => exact h
  | cons a as ih => exact insertRow_sorted_imp _ _ _ _ (ih _ h)

theorem lift_p (x : FPoly) (q : Poly) : (x.lift q).p = q := by
  unfold FPoly.lift; split <;> rfl

/-- the insertion of `unconstrain` (after the preparation) -/
def FPoly.unTail (x : FPoly) (vars : List Nat) : FPoly :=
  let q := x.liftO (x.p.unconstrain vars)
  let lines := vars.map (lineRow x.dim)
  let exact := if x.st.canPend then x.p.gs.insertPendingSys lines
               else lines.foldl (fun s l => s.insertRow true x.nnc l) x.p.gs
  { q with p := { q.p with gs := q.p.gs.refineBy exact } }

theorem unTail_p (y : FPoly) (vars : List Nat) (hv : vars.isEmpty = false) (he : y.p.st.empty = false)
    (hc : y.p.st.cPend = false) (hu : y.p.st.gUp = true) :
    (y.unTail vars).p =
      (if y.p.st.canPend then
        { y.p with gs := (y.p.gs.insertPendingSys (vars.map (lineRow y.p.dim))).refineBy
                            (y.p.gs.insertPendingSys (vars.map (lineRow y.p.dim))),
                   st := { y.p.st with gPend := true } }
       else
        { y.p with gs := (y.p.gs.insertSys (vars.map (lineRow y.p.dim))).refineBy
                            ((vars.map (lineRow y.p.dim)).foldl (fun s l => s.insertRow true y.p.nnc l) y.p.gs),
                   st := ({ y.p.st with gMin := false }).clearCUp }) := by
  have e : y.p.unconstrain vars =
      some (if y.p.st.canPend then
              { y.p with gs := y.p.gs.insertPendingSys (vars.map (lineRow y.p.dim)), st := { y.p.st with gPend := true } }
            else { y.p with gs := y.p.gs.insertSys (vars.map (lineRow y.p.dim)),
                            st := ({ y.p.st with gMin := false }).clearCUp }) := by
    unfold Poly.unconstrain
    simp only [hv, he, hc, hu, Bool.false_eq_true, ↓reduceIte, Bool.not_true]
    split <;> rfl
  unfold FPoly.unTail
  simp only [e, FPoly.liftO, lift_p, FPoly.st, FPoly.dim, FPoly.nnc]
  rcases (Bool.eq_false_or_eq_true y.p.st.canPend).symm with cp | cp <;> simp [cp]

theorem unTail_sim (y : FPoly) (vars : List Nat) (t : PState) (g : Gh) (m : Sim y t)
    (hv : vars.isEmpty = false) (he : y.p.st.empty = false) (hc : y.p.st.cPend = false) (hu : y.p.st.gUp = true)
    (hk : g.keep = (y.unTail vars).p.gs.sorted) :
    Sim (y.unTail vars) (PPLV.PolyStatus.insertGens g t) := by
  have e := unTail_p y vars hv he hc hu
  rcases (Bool.eq_false_or_eq_true y.p.st.canPend).symm with cp | cp
  · simp only [cp, Bool.false_eq_true, ↓reduceIte] at e
    refine insertGens_sim_of_facts y _ t g m ?_ ?_ ?_ ?_ (fun hh => (by rw [cp] at hh; cases hh)) (fun _ hr => ?_) hk
    · rw [e]; simp [cp]
    · rw [e]
    · rw [e]
    · rw [e]
    · rw [e] at hr
      simp only at hr
      rcases refineBy_sorted (y.p.gs.insertSys (vars.map (lineRow y.p.dim)))
        ((vars.map (lineRow y.p.dim)).foldl (fun s l => s.insertRow true y.p.nnc l) y.p.gs) with q | q
      · rw [q] at hr; simp [Sys.insertSys] at hr
      · rw [q] at hr; exact foldl_insertRow_sorted_imp _ _ _ _ hr
  · simp only [cp, ↓reduceIte] at e
    refine insertGens_sim_of_facts y _ t g m ?_ ?_ ?_ ?_ (fun _ => ?_) (fun hh => (by rw [cp] at hh; cases hh)) hk
    · rw [e]; simp [cp]
    · rw [e]
    · rw [e]
    · rw [e]
    · rw [e]
      simp only
      rcases refineBy_sorted (y.p.gs.insertPendingSys (vars.map (lineRow y.p.dim)))
        (y.p.gs.insertPendingSys (vars.map (lineRow y.p.dim))) with q | q <;> rw [q] <;> rfl

structure UnGhost (x : FPoly) (vars : List Nat) (g : Gh) (s : PState) : Prop where
  prep : x.p.st.empty = false → NeedGensGhost x g s
  keep : g.keep = (x.unconstrain vars).p.gs.sorted

/-- `unconstrain(vars)`, `vars` not empty (and `space_dim > 0`: otherwise the C++ throws) -/
theorem unconstrain_sim (x : FPoly) (vars : List Nat) (s : PState) (g : Gh) (h : Sim x s)
    (hv : vars.isEmpty = false) (hd : x.p.dim ≠ 0)
    (hl : x.p.st.cPend = true → x.p.st.gUp = true) (hg : UnGhost x vars g s) :
    Sim (x.unconstrain vars) (PPLV.PolyStatus.unconstrain g s) := by
  have h' := h
  sim_hyps h'
  have bd : (s.dim == 0) = false := by rw [h10]; simpa using hd
  rcases (Bool.eq_false_or_eq_true x.p.st.empty).symm with a | a
  · obtain ⟨m1, m2⟩ := needGens_sim x s g h hl (hg.prep a)
    have hk := hg.keep
    rcases (Bool.eq_false_or_eq_true x.needGens.1).symm with r | r
    · have e1 : x.unconstrain vars = x.needGens.2.unTail vars := by
        unfold FPoly.unconstrain
        simp only [hv, FPoly.st, a, Bool.or_self, Bool.false_eq_true, ↓reduceIte, r]
        rfl
      have e2 : PPLV.PolyStatus.unconstrain g s = PPLV.PolyStatus.insertGens g (PPLV.PolyStatus.needGens g s).2 := by
        simp only [PPLV.PolyStatus.unconstrain, bd, pst, h1, a]; simp [m1.trans r]
      obtain ⟨q1, q2, q3, _, _⟩ := needGens_ready x r
      rw [e1] at hk ⊢; rw [e2]
      exact unTail_sim _ vars _ g m2 hv (q3.trans a) q2 q1 hk
    · have e1 : x.unconstrain vars = x.needGens.2 := by
        unfold FPoly.unconstrain
        simp only [hv, FPoly.st, a, Bool.or_self, Bool.false_eq_true, ↓reduceIte, r]
      have e2 : PPLV.PolyStatus.unconstrain g s = (PPLV.PolyStatus.needGens g s).2 := by
        simp only [PPLV.PolyStatus.unconstrain, bd, pst, h1, a]; simp [m1.trans r]
      rw [e1, e2]; exact m2
  · have e1 : x.unconstrain vars = x := by simp [FPoly.unconstrain, a]
    have e2 : PPLV.PolyStatus.unconstrain g s = s := by
      simp only [PPLV.PolyStatus.unconstrain, bd, pst, h1, a]; simp
    rw [e1, e2]; exact h

end PPLV.PolyFull
