import PPLV.PolyFull.ProofsGlue7

/-!
# Integration stage — `sort_and_remove_with_sat` permutes rows and saturation rows together

List-level facts for the invariance of `EnginePair` under the sort of the CONSTRAINT side: insertion sort
is a permutation, `std::unique` does nothing on a duplicate-free list, the non-pending rows of a minimal
pair are duplicate free, `SatCorrect` is a property of the pairs (row, saturation row), and
`EnginePair` survives a permutation of its constraints.
-/
namespace PPLV.PolyFull
open PPLV.Lin PPLV.PolyOps
open PPLV.Conv (LRow BRow Vec Sound SatCorrect holds holdsAll Generated scalarProduct)

theorem perm_insertWith (gen nnc : Bool) (r : Row × BRow) (l : List (Row × BRow)) :
    (insertWith gen nnc r l).Perm (r :: l) := by
  induction l with
  | nil => simp [insertWith]
  | cons y ys ih =>
    simp only [insertWith]
    split
    · exact List.Perm.refl _
    · exact (List.Perm.cons y ih).trans (List.Perm.swap r y ys)

theorem perm_foldl_insertWith (gen nnc : Bool) (l acc : List (Row × BRow)) :
    (l.foldl (fun acc r => insertWith gen nnc r acc) acc).Perm (l ++ acc) := by
  induction l generalizing acc with
  | nil => simp
  | cons y ys ih =>
    simp only [List.foldl_cons]
    refine (ih _).trans ?_
    refine (List.Perm.append_left ys (perm_insertWith gen nnc y acc)).trans ?_
    simp

theorem uniqueWith_of_nodup (l : List (Row × BRow)) (h : (l.map (·.1)).Nodup) : uniqueWith l = l := by
  induction l with
  | nil => rfl
  | cons x rest ih =>
    simp only [List.map_cons, List.nodup_cons] at h
    simp only [uniqueWith]
    split
    · rename_i hh
      exfalso
      have hh' : rest.head?.map (·.1) = some x.1 := by simpa using hh
      cases rest with
      | nil => simp at hh'
      | cons b bs =>
        simp only [List.head?_cons, Option.map_some, Option.some.injEq] at hh'
        exact h.1 (by rw [← hh']; simp)
    · rw [ih h.2]

theorem sortWith_perm_of_nodup (gen nnc : Bool) (l : List (Row × BRow)) (h : (l.map (·.1)).Nodup) :
    (sortWith gen nnc l).Perm l := by
  have hp := perm_foldl_insertWith gen nnc l []
  rw [List.append_nil] at hp
  unfold sortWith
  rw [uniqueWith_of_nodup]
  · exact hp
  · exact ((hp.map (·.1)).nodup_iff).mpr h

/-- with duplicate-free non-pending rows and a saturation matrix of the right height,
    `sort_and_remove_with_sat` permutes the pairs and moves nothing else -/
theorem sortAndRemoveWithSat_nodup (gen nnc : Bool) (s : Sys) (sat : BitMat)
    (hfp : s.firstPending ≤ s.rows.length) (hnd : (s.rows.take s.firstPending).Nodup)
    (hsl : sat.rows.length = s.firstPending) :
    ∃ ps : List (Row × BRow), ps.Perm ((s.rows.take s.firstPending).zip sat.rows) ∧
      (s.sortAndRemoveWithSat gen nnc sat).1.rows = ps.map (·.1) ++ s.rows.drop s.firstPending ∧
      (s.sortAndRemoveWithSat gen nnc sat).1.firstPending = s.firstPending ∧
      (s.sortAndRemoveWithSat gen nnc sat).2.rows = ps.map (·.2) ∧
      (s.sortAndRemoveWithSat gen nnc sat).2.ncols = sat.ncols := by
  have hnpl : (s.rows.take s.firstPending).length = s.firstPending := by
    rw [List.length_take]; omega
  have hz1 : ((s.rows.take s.firstPending).zip sat.rows).map (·.1) = s.rows.take s.firstPending :=
    List.map_fst_zip (by omega)
  have hz2 : ((s.rows.take s.firstPending).zip sat.rows).map (·.2) = sat.rows :=
    List.map_snd_zip (by omega)
  unfold Sys.sortAndRemoveWithSat
  split
  · refine ⟨_, List.Perm.refl _, ?_, rfl, ?_, rfl⟩
    · simp only [hz1, List.take_append_drop]
    · simp only [hz2]
  · have hpad : (sat.rows ++ List.replicate (s.firstPending - sat.rows.length) []).take
        s.firstPending = sat.rows := by
      rw [hsl, Nat.sub_self, List.replicate_zero, List.append_nil, ← hsl, List.take_length]
    have hperm := sortWith_perm_of_nodup gen nnc ((s.rows.take s.firstPending).zip sat.rows)
      (by rw [hz1]; exact hnd)
    have hlen : (sortWith gen nnc ((s.rows.take s.firstPending).zip sat.rows)).length = s.firstPending := by
      rw [hperm.length_eq, List.length_zip, hnpl, hsl, Nat.min_self]
    refine ⟨sortWith gen nnc ((s.rows.take s.firstPending).zip sat.rows), hperm, ?_, ?_, ?_, rfl⟩
    · simp only [hnpl, hpad, hlen, Nat.sub_self, List.replicate_zero, List.append_nil, List.range_zero,
        List.foldl_nil, ite_self, Nat.sub_zero, List.take_length]
    · simp only [hnpl, hpad, hlen, Nat.sub_self, Nat.sub_zero]
    · simp only [hnpl, hpad]

/-! ### `SatCorrect` pair by pair -/

/-- the saturation row `s` is the one of the row `d` against the columns `cols` -/
def GoodPair (cols : List LRow) (d : LRow) (s : BRow) : Prop :=
  ∀ j, PPLV.Conv.bit s j =
    (decide (j < cols.length) && decide (scalarProduct (cols.getD j default).v d.v ≠ 0))

theorem satCorrect_iff_pairs (nnc : Bool) (cols : List LRow) (ps : List (Row × BRow)) :
    SatCorrect cols ((ps.map (·.1)).map (toL nnc)) (ps.map (·.2)) ↔
      ∀ p ∈ ps, GoodPair cols (toL nnc p.1) p.2 := by
  unfold SatCorrect GoodPair
  constructor
  · rintro ⟨_, h⟩ p hp j
    obtain ⟨i, hi, rfl⟩ := List.getElem_of_mem hp
    have := h i (by simpa using hi) j
    simpa [List.getD_eq_getElem?_getD, hi] using this
  · intro h
    refine ⟨by simp, fun i hi j => ?_⟩
    have hi' : i < ps.length := by simpa using hi
    have := h ps[i] (List.getElem_mem hi') j
    simpa [List.getD_eq_getElem?_getD, hi'] using this

theorem satCorrect_perm (nnc : Bool) (cols : List LRow) (ps ps' : List (Row × BRow)) (hp : ps'.Perm ps)
    (h : SatCorrect cols ((ps.map (·.1)).map (toL nnc)) (ps.map (·.2))) :
    SatCorrect cols ((ps'.map (·.1)).map (toL nnc)) (ps'.map (·.2)) := by
  rw [satCorrect_iff_pairs] at h ⊢
  exact fun p hp' => h p (hp.mem_iff.mp hp')

/-! ### the constraints of a minimal pair -/

theorem EnginePair.nodupC {nnc n cs gs fC fG sC sG} (h : EnginePair nnc n cs gs fC fG sC sG) :
    cs.Nodup := by
  rw [List.nodup_iff_injective_getElem]
  rintro ⟨i, hi⟩ ⟨j, hj⟩ heq
  simp only at heq
  by_contra hne
  have hij : i ≠ j := fun e => hne (by subst e; rfl)
  obtain ⟨x, _, hall, hnot⟩ := h.minC i hi
  apply hnot
  intro l hl
  obtain ⟨s, hs, rfl⟩ := List.mem_map.mp hl
  obtain ⟨m, hm, rfl⟩ := List.getElem_of_mem hs
  apply hall
  apply List.mem_map.mpr
  refine ⟨cs[m], ?_, rfl⟩
  rw [List.mem_eraseIdx_iff_getElem]
  by_cases hmi : m = i
  · subst hmi
    exact ⟨j, hj, fun e => hij e.symm, heq.symm⟩
  · exact ⟨m, hm, hmi, rfl⟩

theorem EnginePair.permC {nnc n cs cs' gs fC fG sC sG} (h : EnginePair nnc n cs gs fC fG sC sG)
    (hp : cs'.Perm cs) (sC' sG' : BitMat)
    (hsG' : fG = true →
      SatCorrect (gs.map (toL nnc)) (cs'.map (toL nnc)) sG'.rows ∧ sG'.ncols = gs.length) :
    EnginePair nnc n cs' gs false fG sC' sG' := by
  have hnd := h.nodupC
  have hnd' : cs'.Nodup := hp.nodup_iff.mpr hnd
  have hall : ∀ x, holdsAll (cs'.map (toL nnc)) x → holdsAll (cs.map (toL nnc)) x := by
    intro x hx l hl
    obtain ⟨s, hs, rfl⟩ := List.mem_map.mp hl
    exact hx _ (List.mem_map.mpr ⟨s, hp.mem_iff.mpr hs, rfl⟩)
  refine ⟨?_, fun x hl hx => h.complete x hl (hall x hx), ?_, h.minG, h.minL, fun h' => (by cases h'), hsG'⟩
  · intro d hd s hs
    obtain ⟨r, hr, rfl⟩ := List.mem_map.mp hs
    exact h.sound d hd _ (List.mem_map.mpr ⟨r, hp.mem_iff.mp hr, rfl⟩)
  · intro i hi
    obtain ⟨k, hk, hkr⟩ := List.getElem_of_mem (hp.mem_iff.mp (List.getElem_mem hi))
    obtain ⟨x, hxl, hxall, hxnot⟩ := h.minC k hk
    refine ⟨x, hxl, ?_, fun hx => hxnot (hall x hx)⟩
    intro l hl
    obtain ⟨s, hs, rfl⟩ := List.mem_map.mp hl
    obtain ⟨m, hm, hmi, rfl⟩ := List.mem_eraseIdx_iff_getElem.mp hs
    apply hxall
    apply List.mem_map.mpr
    refine ⟨cs'[m], ?_, rfl⟩
    obtain ⟨m', hm', hmr⟩ := List.getElem_of_mem (hp.mem_iff.mp (List.getElem_mem hm))
    rw [List.mem_eraseIdx_iff_getElem]
    refine ⟨m', hm', fun e => hmi ?_, hmr⟩
    subst e
    exact (hnd'.getElem_inj_iff).mp (hmr.symm.trans hkr)

end PPLV.PolyFull
