import PPLV.PolyFull.Step
import PPLV.PolyOps.Sem
import PPLV.Conv.Spec

/-!
# Integration stage — what the theorems about the full model talk about

* `FPoly.Inv x S`: the invariant of one object — `Poly.WF` (C02 stage 2), the legality table of the status
  word (C01 stage 2: `Ph_Status::OK()` and the status clauses of `Polyhedron::OK()`), "the stored
  descriptions denote `S`" (`Poly.Denotes`), the pending index lies inside the system, the constraint
  rows entail the low-level constraints at cone level, and — when the pair can have pending rows
  (`C_MINIMIZED`, `G_MINIMIZED`, a saturation matrix up to date) — the non-pending parts are a minimal
  double description pair of the homogeneous cone with the flagged saturation matrices exact
  (`EnginePair`: what `add_and_minimize` relies on).
* `ConvContract`: ONE structure, the four entry points of the engine as the glue uses them.
-/
namespace PPLV.PolyFull
open PPLV.Lin PPLV.PolyOps
open PPLV.Conv (LRow BRow Vec Sound SatCorrect holds holdsAll Generated)

/-- the non-pending rows -/
def FPoly.npC (x : FPoly) : List Row := x.p.cs.rows.take x.p.cs.firstPending
def FPoly.npG (x : FPoly) : List Row := x.p.gs.rows.take x.p.gs.firstPending

/-- `Polyhedron::Status::OK()` (Ph_Status.cc) and the status clauses of `Polyhedron::OK()` -/
def statusLegalB (s : Status) (dim : Nat) : Bool :=
  (!s.empty || (!s.cUp && !s.gUp && !s.cMin && !s.gMin && !s.satC && !s.satG && !s.cPend && !s.gPend)) &&
  (!(s.satC || s.satG) || (s.cUp && s.gUp)) && (!s.cMin || s.cUp) && (!s.gMin || s.gUp) &&
  !(s.cPend && s.gPend) && (!(s.cPend || s.gPend) || s.canPend) &&
  (dim != 0 || (!s.cUp && !s.gUp)) && (s.empty || dim == 0 || s.cUp || s.gUp)

/-- the constraint rows entail, at cone level, the low-level constraints: divisor `≥ 0`, and for the
    NNC topology `0 ≤ ε ≤ divisor` -/
def LowLevel (nnc : Bool) (n : Nat) (cs : List Row) : Prop :=
  ∀ x : Vec, x.length ≤ numCols nnc n → holdsAll (cs.map (toL nnc)) x →
    0 ≤ x.getD 0 0 ∧ (nnc = true → 0 ≤ x.getD (n + 1) 0 ∧ x.getD (n + 1) 0 ≤ x.getD 0 0)

/-- a minimal double description pair of the homogeneous cone, with the flagged saturation matrices
    (`sat_c`: rows = generators, columns = constraints; `sat_g`: the transpose) exact -/
structure EnginePair (nnc : Bool) (n : Nat) (cs gs : List Row) (fC fG : Bool) (satC satG : BitMat) : Prop where
  sound : Sound (cs.map (toL nnc)) (gs.map (toL nnc))
  complete : ∀ x : Vec, x.length ≤ numCols nnc n → holdsAll (cs.map (toL nnc)) x → Generated (gs.map (toL nnc)) x
  minC : ∀ i, i < cs.length → ∃ x : Vec, x.length ≤ numCols nnc n ∧
    holdsAll ((cs.eraseIdx i).map (toL nnc)) x ∧ ¬ holdsAll (cs.map (toL nnc)) x
  minG : ∀ j, j < gs.length → ¬ Generated ((gs.eraseIdx j).map (toL nnc)) (toL nnc (gs.getD j default)).v
  /-- for a line neither is its negation (the lines are a basis of the lineality space: stable under the
      sign normalisation of `strong_normalize`) -/
  minL : ∀ j, j < gs.length → (gs.getD j default).eq = true →
    ¬ Generated ((gs.eraseIdx j).map (toL nnc)) ((toL nnc (gs.getD j default)).v.map (-1 * ·))
  satC : fC = true → SatCorrect (cs.map (toL nnc)) (gs.map (toL nnc)) satC.rows ∧ satC.ncols = cs.length
  satG : fG = true → SatCorrect (gs.map (toL nnc)) (cs.map (toL nnc)) satG.rows ∧ satG.ncols = gs.length

/-- the invariant of one `Polyhedron` object denoting the set `S` -/
structure FPoly.Inv (x : FPoly) (S : Set Val) : Prop where
  wf : x.p.WF
  den : x.p.Denotes S
  legal : statusLegalB x.p.st x.p.dim = true
  fpC : x.p.st.empty = false → x.p.st.cUp = true →
    x.p.cs.firstPending ≤ x.p.cs.rows.length ∧ (x.p.st.cPend = false → x.p.cs.firstPending = x.p.cs.rows.length)
  fpG : x.p.st.empty = false → x.p.st.gUp = true →
    x.p.gs.firstPending ≤ x.p.gs.rows.length ∧ (x.p.st.gPend = false → x.p.gs.firstPending = x.p.gs.rows.length)
  low : x.p.st.empty = false → x.p.st.cUp = true → LowLevel x.p.nnc x.p.dim x.p.cs.rows
  /-- with pending constraints the generators describe the non-pending constraints, and dually -/
  denNPc : x.p.st.empty = false → x.p.st.cPend = true → genSem x.p.nnc x.p.dim x.p.gs.rows = conSem x.p.nnc x.npC
  denNPg : x.p.st.empty = false → x.p.st.gPend = true → conSem x.p.nnc x.p.cs.rows = genSem x.p.nnc x.p.dim x.npG
  eng : x.p.st.empty = false → x.p.st.canPend = true →
    EnginePair x.p.nnc x.p.dim x.npC x.npG x.p.st.satC x.p.st.satG x.satC x.satG

/-- what a successful engine call leaves: both descriptions of `S`, nothing pending, a minimal pair -/
structure EnginePost (nnc : Bool) (n : Nat) (S : Set Val) (cs gs : Sys) (fC fG : Bool) (satC satG : BitMat) : Prop where
  csLen : ∀ r ∈ cs.rows, r.cf.length = n
  gsWF : ∀ r ∈ gs.rows, r.genWF nnc n
  gsPt : ∃ r ∈ gs.rows, r.isPoint nnc
  fpC : cs.firstPending = cs.rows.length
  fpG : gs.firstPending = gs.rows.length
  denC : conSem nnc cs.rows = S
  denG : genSem nnc n gs.rows = S
  low : LowLevel nnc n cs.rows
  pair : EnginePair nnc n cs.rows gs.rows fC fG satC satG

/-- **the conversion contract**: the four entry points of the double-description engine as the glue
    of `Polyhedron_nonpublic.cc` uses them — `minimize(true, con_sys, gen_sys, sat_g)`,
    `minimize(false, gen_sys, con_sys, sat_c)`, `add_and_minimize(true, con_sys, gen_sys, sat_c)`,
    `add_and_minimize(false, gen_sys, con_sys, sat_g)` (models: `FPoly.engineMinimize`,
    `FPoly.engineAddAndMinimize`, i.e. `PPLV.Conv.minimizeUnsorted` / `addAndMinimize` on the raw rows).
    "The output is a double description pair of the input in minimal form with the exact saturation
    matrix; `empty` is reported only of an empty set." -/
structure ConvContract : Prop where
  minimize_cg : ∀ (nnc : Bool) (n : Nat) (cs : Sys) (sat0 : BitMat), 0 < n →
    (∀ r ∈ cs.rows, r.cf.length = n) → cs.firstPending = cs.rows.length → LowLevel nnc n cs.rows →
    ((FPoly.engineMinimize true nnc n cs sat0).empty = true → conSem nnc cs.rows = ∅) ∧
    ((FPoly.engineMinimize true nnc n cs sat0).empty = false →
      EnginePost nnc n (conSem nnc cs.rows) (FPoly.engineMinimize true nnc n cs sat0).source
        (FPoly.engineMinimize true nnc n cs sat0).dest false true BitMat.clear
        (FPoly.engineMinimize true nnc n cs sat0).sat)
  minimize_gc : ∀ (nnc : Bool) (n : Nat) (gs : Sys) (sat0 : BitMat), 0 < n →
    (∀ r ∈ gs.rows, r.genWF nnc n) → (∃ r ∈ gs.rows, r.isPoint nnc) → gs.firstPending = gs.rows.length →
    EnginePost nnc n (genSem nnc n gs.rows) (FPoly.engineMinimize false nnc n gs sat0).dest
      (FPoly.engineMinimize false nnc n gs sat0).source true false
      (FPoly.engineMinimize false nnc n gs sat0).sat BitMat.clear
  add_c : ∀ (nnc : Bool) (n : Nat) (cs gs : Sys) (satC : BitMat), 0 < n →
    (∀ r ∈ cs.rows, r.cf.length = n) → (∀ r ∈ gs.rows, r.genWF nnc n) → (∃ r ∈ gs.rows, r.isPoint nnc) →
    cs.firstPending ≤ cs.rows.length → gs.firstPending = gs.rows.length → LowLevel nnc n cs.rows →
    EnginePair nnc n (cs.rows.take cs.firstPending) gs.rows true false satC BitMat.clear →
    ((FPoly.engineAddAndMinimize true nnc n cs gs satC).empty = true → conSem nnc cs.rows = ∅) ∧
    ((FPoly.engineAddAndMinimize true nnc n cs gs satC).empty = false →
      EnginePost nnc n (conSem nnc cs.rows) (FPoly.engineAddAndMinimize true nnc n cs gs satC).source
        (FPoly.engineAddAndMinimize true nnc n cs gs satC).dest true false
        (FPoly.engineAddAndMinimize true nnc n cs gs satC).sat BitMat.clear)
  add_g : ∀ (nnc : Bool) (n : Nat) (gs cs : Sys) (satG : BitMat), 0 < n →
    (∀ r ∈ cs.rows, r.cf.length = n) → (∀ r ∈ gs.rows, r.genWF nnc n) → (∃ r ∈ gs.rows, r.isPoint nnc) →
    gs.firstPending ≤ gs.rows.length → cs.firstPending = cs.rows.length → LowLevel nnc n cs.rows →
    EnginePair nnc n cs.rows (gs.rows.take gs.firstPending) false true BitMat.clear satG →
    EnginePost nnc n (genSem nnc n gs.rows) (FPoly.engineAddAndMinimize false nnc n gs cs satG).dest
      (FPoly.engineAddAndMinimize false nnc n gs cs satG).source false true BitMat.clear
      (FPoly.engineAddAndMinimize false nnc n gs cs satG).sat

end PPLV.PolyFull
