import PPLV.PolyOps.GenImage
import PPLV.Conv.Sort

/-!
# C01/C02 integration stage — the whole `Polyhedron` object: rows + status + saturation matrices

`FPoly` = the raw pair with its status word (`PPLV.PolyOps.Poly`, C02 stage 2) plus the two
`Bit_Matrix` members `sat_c` (rows = generators, columns = constraints) and `sat_g` (rows =
constraints, columns = generators).  The rows of `PolyOps` (`Row`: kind bit, inhomogeneous term,
coefficients, epsilon) and of the engine model (`Conv.LRow`: kind bit, the whole coefficient vector,
column 0 first, epsilon last) are the same C++ object `Linear_System::rows[i]`; `toL` / `ofL` are the
two readings.  No Mathlib: linked into `pplv_polyfull`.
-/
namespace PPLV.PolyFull
open PPLV.Lin PPLV.PolyOps
open PPLV.Conv (LRow BRow)

/-- `Bit_Matrix`: the rows and `num_columns()` (bits at or beyond `ncols` are never set) -/
structure BitMat where
  rows : List BRow
  ncols : Nat
deriving Repr, Inhabited

namespace BitMat
def clear : BitMat := ⟨[], 0⟩
/-- `transpose_assign(y)` (Bit_Matrix.cc) -/
def transposeOf (y : BitMat) : BitMat := ⟨PPLV.Conv.transpose y.ncols y.rows, y.rows.length⟩
/-- a row cut / padded to `c` columns -/
def fitRow (c : Nat) (r : BRow) : BRow := (r ++ List.replicate (c - r.length) false).take c
/-- `resize(new_n_rows, new_n_columns)`: new rows are empty, bits beyond the new width are cleared -/
def resize (m : BitMat) (r c : Nat) : BitMat :=
  ⟨((m.rows.take r) ++ List.replicate (r - m.rows.length) []).map (fitRow c), c⟩
def removeTrailingRows (m : BitMat) (k : Nat) : BitMat := { m with rows := m.rows.take (m.rows.length - k) }
/-- canonical form for comparison -/
def norm (m : BitMat) : List BRow := m.rows.map (fitRow m.ncols)
end BitMat

structure FPoly where
  p : Poly
  satC : BitMat
  satG : BitMat
deriving Repr, Inhabited

/-- number of columns of a row of the engine: inhomogeneous term, variables, epsilon (NNC) -/
def numCols (nnc : Bool) (n : Nat) : Nat := n + 1 + (if nnc then 1 else 0)

/-- the C++ row as the engine sees it -/
def toL (nnc : Bool) (r : Row) : LRow := ⟨r.eq, r.b :: (r.cf ++ (if nnc then [r.eps] else []))⟩
/-- and back (`n` = space dimension) -/
def ofL (nnc : Bool) (n : Nat) (l : LRow) : Row :=
  ⟨l.le, l.v.getD 0 0, padTo n ((l.v.drop 1).take n), if nnc then l.v.getD (n + 1) 0 else 0⟩

/-- `compare(x, y)` of two constraints (`gen = false`) / generators (`gen = true`) -/
def cmpRow (gen nnc : Bool) (x y : Row) : Int := PPLV.Conv.compareRow gen nnc (toL nnc x) (toL nnc y)

namespace FPoly
def nnc (x : FPoly) : Bool := x.p.nnc
def dim (x : FPoly) : Nat := x.p.dim
def st (x : FPoly) : Status := x.p.st
def ncols (x : FPoly) : Nat := numCols x.p.nnc x.p.dim
def withSt (x : FPoly) (s : Status) : FPoly := { x with p := { x.p with st := s } }
def withCs (x : FPoly) (s : Sys) : FPoly := { x with p := { x.p with cs := s } }
def withGs (x : FPoly) (s : Sys) : FPoly := { x with p := { x.p with gs := s } }
/-- `set_empty()` (Polyhedron_nonpublic.cc:726): both systems and both matrices cleared -/
def setEmpty (x : FPoly) : FPoly := ⟨x.p.setEmpty, BitMat.clear, BitMat.clear⟩
/-- `set_zero_dim_univ()` (:718): the matrices are left alone -/
def setZeroDimUniv (x : FPoly) : FPoly := { x with p := x.p.setZeroDimUniv }
end FPoly

end PPLV.PolyFull
