import PPLV.PolyFull.ProofsGlue5

/-!
# Integration stage — `GlueFacts` from `ConvContract`, part 6: `process_pending_generators()`

The dual of part 5: `processPendingGenerators x = (ppgPrepared x).ppgTail`.
-/
namespace PPLV.PolyFull
open PPLV.Lin PPLV.PolyOps
open PPLV.Conv (LRow BRow Vec Sound SatCorrect holds holdsAll Generated)

/-- a well-formed generator that compares equal to another one has the same engine reading -/
def CmpExactG : Prop := ∀ (nnc : Bool) (n : Nat) (a b : Row), a.genWF nnc n → b.genWF nnc n →
  cmpRow true nnc a b = 0 → toL nnc a = toL nnc b

theorem toL_eq_parts (nnc : Bool) (a b : Row) (h : toL nnc a = toL nnc b) :
    a.eq = b.eq ∧ a.b = b.b ∧ a.cf = b.cf ∧ (nnc = true → a.eps = b.eps) := by
  obtain ⟨ae, ab, ac, aeps⟩ := a
  obtain ⟨be, bb, bc, beps⟩ := b
  simp only [toL, LRow.mk.injEq, List.cons.injEq] at h
  obtain ⟨h1, h2, h3⟩ := h
  cases nnc
  · simp only [Bool.false_eq_true, if_false, List.append_nil] at h3
    exact ⟨h1, h2, h3, fun h => (by cases h)⟩
  · simp only [if_true] at h3
    obtain ⟨h4, h5⟩ := List.append_inj' h3 rfl
    simp only [List.cons.injEq, and_true] at h5
    exact ⟨h1, h2, h4, fun _ => h5⟩

theorem toGen_congr_toL (nnc : Bool) (a b : Row) (h : toL nnc a = toL nnc b) :
    a.toGen nnc = b.toGen nnc := by
  obtain ⟨h1, h2, h3, h4⟩ := toL_eq_parts nnc a b h
  unfold Row.toGen
  rw [h1, h2, h3]
  cases nnc
  · simp
  · rw [h4 rfl]

theorem isPoint_congr_toL (nnc : Bool) (a b : Row) (h : toL nnc a = toL nnc b) (ha : a.isPoint nnc) :
    b.isPoint nnc := by
  obtain ⟨h1, h2, _, h4⟩ := toL_eq_parts nnc a b h
  unfold Row.isPoint at ha ⊢
  rw [← h1, ← h2]
  refine ⟨ha.1, ha.2.1, fun hn => ?_⟩
  rw [← h4 hn]; exact ha.2.2 hn

theorem genSem_congr_toL (nnc : Bool) (n : Nat) (A B : List Row) (hA : ∀ r ∈ A, r.genWF nnc n)
    (h1 : ToLSub nnc A B) (h2 : ToLSub nnc B A) : genSem nnc n A = genSem nnc n B := by
  unfold genSem
  apply kit_memEquiv n _ _ (gensWF_gensOf nnc n A hA)
  intro g
  unfold gensOf
  simp only [List.mem_map]
  constructor
  · rintro ⟨r, hr, e⟩
    obtain ⟨r', hr', e'⟩ := h1 r hr
    exact ⟨r', hr', (toGen_congr_toL nnc r' r e').trans e⟩
  · rintro ⟨r, hr, e⟩
    obtain ⟨r', hr', e'⟩ := h2 r hr
    exact ⟨r', hr', (toGen_congr_toL nnc r' r e').trans e⟩

/-- the state right before `sort_pending_and_remove_duplicates` (:784-790) -/
def FPoly.ppgPrepared (x : FPoly) : FPoly :=
  let x := if !x.st.satG then { x with satG := x.satC.transposeOf } else x
  if !x.p.gs.sorted then x.obtainSortedGeneratorsWithSatG else x

/-- :792-806 -/
def FPoly.ppgTail (x : FPoly) : FPoly :=
  let gs := x.p.gs.sortPendingAndRemoveDuplicates true x.nnc
  let x := x.withGs gs
  if gs.rows.length == gs.firstPending then x.withSt { x.st with gPend := false }
  else
    let o := FPoly.engineAddAndMinimize false x.nnc x.dim gs x.p.cs x.satG
    { x with satG := o.sat,
             p := { x.p with gs := o.source, cs := o.dest,
                             st := { x.p.st with gPend := false, satC := false, satG := true } } }

theorem ppg_eq (x : FPoly) : x.processPendingGenerators = x.ppgPrepared.ppgTail := rfl

/-- what the second half needs of the prepared state `x1` of `x` -/
structure PreparedG (x x1 : FPoly) : Prop where
  nnc : x1.p.nnc = x.p.nnc
  dim : x1.p.dim = x.p.dim
  cs : x1.p.cs = x.p.cs
  st : ∃ a b, x1.p.st = { x.p.st with satC := a, satG := b }
  fp : x1.p.gs.firstPending ≤ x1.p.gs.rows.length
  rows : ∀ r, r ∈ x1.p.gs.rows ↔ r ∈ x.p.gs.rows
  np : ∀ r, r ∈ x1.npG ↔ r ∈ x.npG
  pair : EnginePair x.p.nnc x.p.dim x.p.cs.rows x1.npG x1.p.st.satC true x1.satC x1.satG

theorem ppgTail_facts (C : ConvContract) (hcmp : CmpExactG) (x x1 : FPoly) (S : Set Val) (hx : x.Inv S)
    (he : x.p.st.empty = false) (hgp : x.p.st.gPend = true) (hP : PreparedG x x1) :
    x.SameShape x1.ppgTail ∧ x1.ppgTail.Inv S ∧ x1.ppgTail.FullyMin := by
  have hcan := legal_gPend hx.legal hgp
  obtain ⟨hcm, hgm, _⟩ := (canPend_iff _).mp hcan
  have hcu := legal_cMin hx.legal hcm
  have hgu := legal_gMin hx.legal hgm
  have hd := legal_dim hx.legal hcu
  have hcp : x.p.st.cPend = false := by
    cases h : x.p.st.cPend
    · rfl
    · exact absurd ⟨h, hgp⟩ (legal_not_both hx.legal)
  have hfpC := (hx.fpC he hcu).2 hcp
  obtain ⟨a, b, hst⟩ := hP.st
  have hn1 := hP.nnc
  have hd1 := hP.dim
  have hc1 := hP.cs
  have he1 : x1.p.st.empty = false := by rw [hst]; exact he
  have hcu1 : x1.p.st.cUp = true := by rw [hst]; exact hcu
  have hgu1 : x1.p.st.gUp = true := by rw [hst]; exact hgu
  have hcm1 : x1.p.st.cMin = true := by rw [hst]; exact hcm
  have hgm1 : x1.p.st.gMin = true := by rw [hst]; exact hgm
  have hcp1 : x1.p.st.cPend = false := by rw [hst]; exact hcp
  -- the rows
  have hwfx : ∀ r ∈ x.p.gs.rows, r.genWF x1.p.nnc x1.p.dim := by
    rw [hn1, hd1]; exact hx.wf.gs_wf he hgu
  have hwf1 : ∀ r ∈ x1.p.gs.rows, r.genWF x1.p.nnc x1.p.dim := fun r hr => hwfx r ((hP.rows r).mp hr)
  have hsub := sortPending_sub true x1.p.nnc x1.p.gs
  have hwf' : ∀ r ∈ (x1.p.gs.sortPendingAndRemoveDuplicates true x1.p.nnc).rows,
      r.genWF x1.p.nnc x1.p.dim := fun r hr => hwf1 r (hsub r hr)
  have hT1 : ToLSub x1.p.nnc x.p.gs.rows (x1.p.gs.sortPendingAndRemoveDuplicates true x1.p.nnc).rows := by
    intro r hr
    have hr1 := (hP.rows r).mpr hr
    rcases sortPending_sup true x1.p.nnc x1.p.gs r hr1 with h | ⟨a', ha', hc'⟩
    · exact ⟨r, h, rfl⟩
    · have ha1 : a' ∈ x1.p.gs.rows := List.mem_of_mem_take ha'
      refine ⟨a', ?_, ?_⟩
      · unfold Sys.sortPendingAndRemoveDuplicates
        exact List.mem_append_left _ ha'
      · exact hcmp _ _ _ _ (hwf1 a' ha1) (hwf1 r hr1) hc'
  have hT2 : ToLSub x1.p.nnc (x1.p.gs.sortPendingAndRemoveDuplicates true x1.p.nnc).rows x.p.gs.rows :=
    ToLSub.of_subset fun r hr => (hP.rows r).mp (hsub r hr)
  have hgenS : genSem x1.p.nnc x1.p.dim x.p.gs.rows = S := by
    rw [hn1, hd1]; exact (hx.den.2 he).2.1 hgu hcp
  have hgen' : genSem x1.p.nnc x1.p.dim (x1.p.gs.sortPendingAndRemoveDuplicates true x1.p.nnc).rows = S := by
    rw [← hgenS]
    exact (genSem_congr_toL _ _ _ _ hwfx hT1 hT2).symm
  have hpt' : ∃ r ∈ (x1.p.gs.sortPendingAndRemoveDuplicates true x1.p.nnc).rows, r.isPoint x1.p.nnc := by
    obtain ⟨r, hr, hp⟩ := hx.wf.gs_pt he hgu
    obtain ⟨r', hr', e⟩ := hT1 r hr
    refine ⟨r', hr', isPoint_congr_toL _ r r' e.symm ?_⟩
    rw [hn1]; exact hp
  have hlen1 : ∀ r ∈ x1.p.cs.rows, r.cf.length = x1.p.dim := by
    rw [hc1, hd1]; exact hx.wf.cs_len he hcu
  have hlow1 : LowLevel x1.p.nnc x1.p.dim x1.p.cs.rows := by
    rw [hc1, hn1, hd1]; exact hx.low he hcu
  have hfpC1 : x1.p.cs.firstPending = x1.p.cs.rows.length := by rw [hc1]; exact hfpC
  have htake := sortPending_take true x1.p.nnc x1.p.gs hP.fp
  have hlenfp := sortPending_len true x1.p.nnc x1.p.gs hP.fp
  have hpair1 : EnginePair x1.p.nnc x1.p.dim x1.p.cs.rows x1.npG x1.p.st.satC true x1.satC x1.satG := by
    rw [hn1, hd1, hc1]; exact hP.pair
  have hd1' : 0 < x1.p.dim := by omega
  by_cases hA : (x1.p.gs.sortPendingAndRemoveDuplicates true x1.p.nnc).rows.length = x1.p.gs.firstPending
  · have e : x1.ppgTail = (x1.withGs (x1.p.gs.sortPendingAndRemoveDuplicates true x1.p.nnc)).withSt
        { x1.p.st with gPend := false } := by
      simp [FPoly.ppgTail, FPoly.nnc, FPoly.st, FPoly.withGs, FPoly.withSt, sortPending_fp, hA]
    rw [e]
    have hrowsA := sortPending_all_dup true x1.p.nnc x1.p.gs hP.fp hA
    have hconS : conSem x1.p.nnc x1.p.cs.rows = S := by
      have h1 : conSem x1.p.nnc x1.p.cs.rows = genSem x1.p.nnc x1.p.dim x.npG := by
        rw [hn1, hd1, hc1]; exact hx.denNPg he hgp
      have hwfnp : ∀ r ∈ x.npG, r.genWF x1.p.nnc x1.p.dim := fun r hr => hwfx r (List.mem_of_mem_take hr)
      rw [h1, genSem_congr_mem _ _ _ _ hwfnp fun r => (hP.np r).symm]
      have : x1.npG = (x1.p.gs.sortPendingAndRemoveDuplicates true x1.p.nnc).rows := hrowsA.symm
      rw [this]
      exact hgen'
    refine ⟨⟨hn1, hd1⟩, ?_, he1, hcu1, hgu1, hcm1, hgm1, hcp1, rfl⟩
    exact {
      wf := {
        cs_len := fun _ _ => hlen1
        gs_wf := fun _ _ => hwf'
        gs_pt := fun _ _ => hpt'
        pend_c := fun h => (by have h' : x1.p.st.cPend = true := h; rw [hcp1] at h'; cases h')
        pend_g := fun h => (by cases h)
        pend_one := fun h => (by cases h.2)
        some_up := fun _ _ => Or.inl hcu1
        zero_dim := fun h => (by have : x1.p.dim = 0 := h; omega) }
      den := ⟨fun h => (by have h' : x1.p.st.empty = true := h; rw [he1] at h'; cases h'),
        fun _ => ⟨fun _ _ => hconS, fun _ _ => hgen',
          fun h => (by have h' : x1.p.st.cUp = false := h; rw [hcu1] at h'; cases h')⟩⟩
      legal := by
        show statusLegalB { x1.p.st with gPend := false } x1.p.dim = true
        rw [hst, hd1]
        exact legal_pend_cleared x.p.st x.p.dim a b x.p.st.cPend false hx.legal he hcan hcp rfl
      fpC := fun _ _ => ⟨le_of_eq hfpC1, fun _ => hfpC1⟩
      fpG := fun _ _ => ⟨hlenfp, fun _ => hA.symm⟩
      low := fun _ _ => hlow1
      denNPc := fun _ h => (by have h' : x1.p.st.cPend = true := h; rw [hcp1] at h'; cases h')
      denNPg := fun _ h => (by cases h)
      eng := fun _ _ => by
        show EnginePair x1.p.nnc x1.p.dim (x1.p.cs.rows.take x1.p.cs.firstPending)
          ((x1.p.gs.sortPendingAndRemoveDuplicates true x1.p.nnc).rows.take x1.p.gs.firstPending)
          x1.p.st.satC x1.p.st.satG x1.satC x1.satG
        rw [htake, hfpC1, List.take_length]
        exact hpair1.weakenG _ }
  · have hpairE : EnginePair x1.p.nnc x1.p.dim x1.p.cs.rows
        ((x1.p.gs.sortPendingAndRemoveDuplicates true x1.p.nnc).rows.take
          (x1.p.gs.sortPendingAndRemoveDuplicates true x1.p.nnc).firstPending)
        false true BitMat.clear x1.satG := by
      rw [sortPending_fp, htake]
      exact hpair1.dropC _
    have hC := C.add_g x1.p.nnc x1.p.dim (x1.p.gs.sortPendingAndRemoveDuplicates true x1.p.nnc) x1.p.cs
      x1.satG hd1' hlen1 hwf' hpt' (by rw [sortPending_fp]; exact hlenfp) hfpC1 hlow1 hpairE
    rw [hgen'] at hC
    have hA' : ((x1.p.gs.sortPendingAndRemoveDuplicates true x1.p.nnc).rows.length ==
        x1.p.gs.firstPending) = false := by simpa using hA
    have e : x1.ppgTail =
        { x1.withGs (x1.p.gs.sortPendingAndRemoveDuplicates true x1.p.nnc) with
          satG := (FPoly.engineAddAndMinimize false x1.p.nnc x1.p.dim
            (x1.p.gs.sortPendingAndRemoveDuplicates true x1.p.nnc) x1.p.cs x1.satG).sat,
          p := { x1.p with
            gs := (FPoly.engineAddAndMinimize false x1.p.nnc x1.p.dim
              (x1.p.gs.sortPendingAndRemoveDuplicates true x1.p.nnc) x1.p.cs x1.satG).source,
            cs := (FPoly.engineAddAndMinimize false x1.p.nnc x1.p.dim
              (x1.p.gs.sortPendingAndRemoveDuplicates true x1.p.nnc) x1.p.cs x1.satG).dest,
            st := { x1.p.st with gPend := false, satC := false, satG := true } } } := by
      simp [FPoly.ppgTail, FPoly.nnc, FPoly.dim, FPoly.withGs, sortPending_fp, hA']
    have hpost := hC.of_flagC_false x1.satC
    have := inv_of_post x1.ppgTail S (by rw [e]; exact hd1') (by rw [e]; exact hpost)
      (by rw [e]; exact he1) (by rw [e]; exact hcu1) (by rw [e]; exact hgu1) (by rw [e]; exact hcm1)
      (by rw [e]; exact hgm1) (by rw [e]; exact hcp1) (by rw [e])
    exact ⟨by rw [e]; exact ⟨hn1, hd1⟩, this.1, this.2⟩

end PPLV.PolyFull
