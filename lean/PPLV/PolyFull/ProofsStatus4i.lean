import PPLV.PolyFull.ProofsStatus4h

/-!
# Integration stage — `affine_preimage(var, expr, den)` against `PolyStatus/Ops.lean`

The mirror image of `ProofsStatus4h.lean`.  The abstract non-invertible branch does not test emptiness after
`minimize()`: on a state that went through `set_empty()` its flag updates are no-ops, and `csS := g.keep` is
the `sorted = true` of the cleared `con_sys`.
-/
namespace PPLV.PolyFull
open PPLV.PolyOps PPLV.Lin
open PPLV.PolyStatus (PState Gh)

attribute [local simp] FPoly.st FPoly.nnc FPoly.dim FPoly.withSt FPoly.withCs FPoly.withGs

/-- `affine_preimage` after the preparation -/
def FPoly.apPost (x1 : FPoly) (v : Nat) (e : LinExpr) (den : Int) : FPoly :=
  x1.liftO (x1.p.affine_preimage v e den)

theorem affinePreimage_eq_st (x : FPoly) (v : Nat) (e : LinExpr) (den : Int) :
    x.affinePreimage v e den =
      (if x.st.empty || e.coeffs.getD v 0 != 0 then x
       else if x.st.somethingPending then (if x.st.cPend then x else x.processPendingGenerators)
       else if !x.st.cUp then x.minimize.2 else x).apPost v e den := rfl

theorem apPost_empty (y : FPoly) (v : Nat) (e : LinExpr) (den : Int) (he : y.p.st.empty = true) :
    y.apPost v e den = y := by
  unfold FPoly.apPost
  simp [Poly.affine_preimage, he, FPoly.liftO, lift_self]

theorem apPost_inv (y : FPoly) (v : Nat) (e : LinExpr) (den : Int) (he : y.p.st.empty = false)
    (hi : (e.coeffs.getD v 0 != 0) = true) :
    (y.apPost v e den).p.st = y.p.st ∧ (y.apPost v e den).p.dim = y.p.dim ∧ (y.apPost v e den).p.nnc = y.p.nnc
    ∧ (y.p.st.gUp = false → (y.apPost v e den).p.gs.sorted = y.p.gs.sorted)
    ∧ (y.p.st.cUp = false → (y.apPost v e den).p.cs.sorted = y.p.cs.sorted) := by
  unfold FPoly.apPost
  simp only [he, hi, ↓reduceIte, Poly.affine_preimage, Bool.false_eq_true, FPoly.liftO, lift_p]
  cases hg : y.p.st.gUp <;> cases hc : y.p.st.cUp <;> simp [hg]

theorem apPost_noninv (y : FPoly) (v : Nat) (e : LinExpr) (den : Int) (he : y.p.st.empty = false)
    (hi : (e.coeffs.getD v 0 != 0) = false) (hp : y.p.st.somethingPending = false) (hu : y.p.st.cUp = true) :
    (y.apPost v e den).p.st = { y.p.st.clearGUp with cMin := false, satC := false, satG := false }
    ∧ (y.apPost v e den).p.dim = y.p.dim ∧ (y.apPost v e den).p.nnc = y.p.nnc
    ∧ (y.apPost v e den).p.gs = y.p.gs := by
  unfold FPoly.apPost
  simp only [he, hi, Bool.false_eq_true, ↓reduceIte, Poly.affine_preimage, hp, hu,
    Bool.not_true, Option.map_some, FPoly.liftO, lift_p]
  refine ⟨?_, ?_, ?_, ?_⟩ <;> first | rfl | trivial

theorem apPost_noninv_cPend (y : FPoly) (v : Nat) (e : LinExpr) (den : Int) (he : y.p.st.empty = false)
    (hi : (e.coeffs.getD v 0 != 0) = false) (hp : y.p.st.cPend = true) :
    (y.apPost v e den).p.st =
      { (({ y.p.st with cPend := false, cMin := false }).clearGUp).clearGUp with cMin := false, satC := false, satG := false }
    ∧ (y.apPost v e den).p.dim = y.p.dim ∧ (y.apPost v e den).p.nnc = y.p.nnc
    ∧ (y.apPost v e den).p.gs = y.p.gs := by
  unfold FPoly.apPost
  have hsp : y.p.st.somethingPending = true := by simp [Status.somethingPending, hp]
  simp only [he, hi, Bool.false_eq_true, ↓reduceIte, Poly.affine_preimage, hsp, hp,
    Option.map_some, FPoly.liftO, lift_p]
  refine ⟨?_, ?_, ?_, ?_⟩ <;> first | rfl | trivial

/-- the abstract tail of the non-invertible case -/
def absApTail (g : Gh) (s : PState) : PState :=
  let s := PState.conRewrite g.keep (PState.setChanges g.be s)
  let s := s.set .vG false |>.set .dd false |>.set .mC false |>.set .vSC false |>.set .vSG false
  PState.clearSatGUpToDate (PState.clearSatCUpToDate (PState.clearConstraintsMinimized (PState.clearGeneratorsUpToDate s)))

theorem absApTail_sim (y z : FPoly) (t : PState) (g : Gh) (m : Sim y t)
    (f1 : z.p.st = { y.p.st.clearGUp with cMin := false, satC := false, satG := false })
    (f2 : z.p.dim = y.p.dim) (f3 : z.p.nnc = y.p.nnc) (f4 : z.p.gs = y.p.gs) (hk : g.keep = z.p.cs.sorted) :
    Sim z (absApTail g t) := by
  obtain ⟨⟨zn, zd, zst, ⟨zr, zf, zsrt⟩, zgs⟩, zC, zG⟩ := z
  obtain ⟨⟨nnc, dim, ⟨e, cu, gu, cm, gm, sc, sg, cpd, gp⟩, cs, gs⟩, mC, mG⟩ := y
  simp only at f1 f2 f3 f4 hk
  subst f1 f2 f3 f4
  sim_hyps m
  simp_all [Sim, pst, absApTail, Status.clearGUp]

/-- on a state that went through `set_empty()` the abstract tail changes nothing stored -/
theorem absApTail_sim_empty (y : FPoly) (t : PState) (g : Gh) (m : Sim y t) (hs : y.p.st = Status.setEmpty)
    (hk : g.keep = y.p.cs.sorted) : Sim y (absApTail g t) := by
  obtain ⟨⟨nnc, dim, st, ⟨cr, cf, csrt⟩, gs⟩, mC, mG⟩ := y
  simp only at hs hk
  subst hs
  sim_hyps m
  simp_all [Sim, pst, absApTail, Status.setEmpty]

structure ApGhost (x : FPoly) (v : Nat) (e : LinExpr) (den : Int) (g : Gh) (s : PState) : Prop where
  ppg : x.p.st.empty = false → x.p.st.cPend = false → x.p.st.gPend = true → PpgGhost x.ppgPrep g s
  min : x.p.st.empty = false → x.p.st.somethingPending = false → x.p.st.cUp = false → MinGhost x g s
  keep : (e.coeffs.getD v 0 != 0) = true → g.keep = (x.affinePreimage v e den).p.gs.sorted
  aux : (e.coeffs.getD v 0 != 0) = true → g.aux = (x.affinePreimage v e den).p.cs.sorted
  /-- the non-invertible branch uses `g.keep` for `con_sys` -/
  keepC : (e.coeffs.getD v 0 != 0) = false → g.keep = (x.affinePreimage v e den).p.cs.sorted

theorem affinePreimage_sim (x : FPoly) (v : Nat) (e : LinExpr) (den : Int) (s : PState) (g : Gh)
    (f : PPLV.PolyStatus.Facts) (h : Sim x s) (hd : x.p.dim ≠ 0) (hf : f.inv = (e.coeffs.getD v 0 != 0))
    (hl : statusLegalB x.p.st x.p.dim = true) (hg : ApGhost x v e den g s) :
    Sim (x.affinePreimage v e den) (PPLV.PolyStatus.affinePreimage g f s) := by
  have h' := h
  sim_hyps h'
  have bd : (s.dim == 0) = false := by rw [h10]; simpa using hd
  have hk' := hg.keep
  have ha' := hg.aux
  have hkc := hg.keepC
  rw [affinePreimage_eq_st] at hk' ha' hkc ⊢
  rcases (Bool.eq_false_or_eq_true x.p.st.empty).symm with a | a
  swap
  · have e2 : PPLV.PolyStatus.affinePreimage g f s = s := by
      simp only [PPLV.PolyStatus.affinePreimage, bd, pst, h1, a]; simp
    simp only [FPoly.st, a, Bool.true_or, ↓reduceIte]
    rw [e2, apPost_empty x v e den a]; exact h
  rcases (Bool.eq_false_or_eq_true (e.coeffs.getD v 0 != 0)).symm with i | i
  swap
  · -- invertible
    have hk := hk' i
    have ha := ha' i
    simp only [FPoly.st, a, i, Bool.or_true, ↓reduceIte] at hk ha ⊢
    clear hk' ha' hkc
    obtain ⟨f1, f2, f3, s1, s2⟩ := apPost_inv x v e den a i
    generalize x.apPost v e den = z at *
    obtain ⟨⟨zn, zd, zst, ⟨zcr, zcf, zcsrt⟩, ⟨zr, zf, zsrt⟩⟩, zC, zG⟩ := z
    simp only at f1 f2 f3 s1 s2 hk ha
    subst f1 f2 f3
    rw [i] at hf
    cases hgu : x.p.st.gUp <;> cases hcu : x.p.st.cUp <;>
      simp_all [Sim, pst, PPLV.PolyStatus.affinePreimage]
  -- not invertible
  have hk := hkc i
  clear hk' ha' hkc
  obtain ⟨l1, l2, l3, l4, l5⟩ := legal_facts hl
  have e2 : PPLV.PolyStatus.affinePreimage g f s = absApTail g
      (if s.hasSomethingPending then PPLV.PolyStatus.removePendingToObtainConstraints g s
       else if !s.cup then (PPLV.PolyStatus.minimize g s).2 else s) := by
    rw [i] at hf
    simp only [PPLV.PolyStatus.affinePreimage, bd, h1, a, hf, PState.em, Bool.false_eq_true, ↓reduceIte]
    rfl
  rw [e2]
  simp only [FPoly.st, a, i, Bool.or_false, Bool.false_eq_true, ↓reduceIte] at hk ⊢
  rcases (Bool.eq_false_or_eq_true x.p.st.cPend).symm with cp | cp
  swap
  · -- pending constraints: unset inside
    have sp : x.p.st.somethingPending = true := by simp [Status.somethingPending, cp]
    simp only [sp, cp, ↓reduceIte] at hk ⊢
    obtain ⟨f1, f2, f3, f4⟩ := apPost_noninv_cPend x v e den a i cp
    generalize x.apPost v e den = z at *
    obtain ⟨⟨zn, zd, zst, ⟨zr, zf, zsrt⟩, zgs⟩, zC, zG⟩ := z
    simp only at f1 f2 f3 f4 hk
    subst f1 f2 f3 f4
    cases hpc : s.b .pC <;>
      simp_all [Sim, pst, absApTail, PPLV.PolyStatus.removePendingToObtainConstraints, Status.clearGUp]
  rcases (Bool.eq_false_or_eq_true x.p.st.gPend).symm with gp | gp
  swap
  · -- pending generators: processed
    obtain ⟨a1, a2, a3, a4, a5, a6⟩ := l2 gp
    have sp : x.p.st.somethingPending = true := by simp [Status.somethingPending, gp]
    have e3 : (if s.hasSomethingPending then PPLV.PolyStatus.removePendingToObtainConstraints g s
       else if !s.cup then (PPLV.PolyStatus.minimize g s).2 else s)
        = PPLV.PolyStatus.processPendingGenerators g s := by
      simp [PPLV.PolyStatus.removePendingToObtainConstraints, pst, h8, h9, cp, gp]
    simp only [sp, cp, Bool.false_eq_true, ↓reduceIte] at hk ⊢
    rw [e3]
    have m2 := processPendingGenerators_sim x s g h (hg.ppg a cp gp)
    obtain ⟨k1, k2, k3, k4, k5, k6, k7, k8, k9⟩ := processPendingGenerators_keeps x
    have sp' : x.processPendingGenerators.p.st.somethingPending = false := by
      simp [Status.somethingPending, k5, k4.trans cp]
    obtain ⟨f1, f2, f3, f4⟩ := apPost_noninv _ v e den (k3.trans a) i sp' (k2.trans a1)
    exact absApTail_sim _ _ _ g m2 f1 f2 f3 f4 hk
  have sp : x.p.st.somethingPending = false := by simp [Status.somethingPending, cp, gp]
  have e3 : (if s.hasSomethingPending then PPLV.PolyStatus.removePendingToObtainConstraints g s
       else if !s.cup then (PPLV.PolyStatus.minimize g s).2 else s)
        = (if !x.p.st.cUp then (PPLV.PolyStatus.minimize g s).2 else s) := by
    simp [pst, h8, h9, h2, cp, gp]
  rw [e3]
  simp only [sp, Bool.false_eq_true, ↓reduceIte] at hk ⊢
  rcases (Bool.eq_false_or_eq_true x.p.st.cUp).symm with cu | cu
  · simp only [cu, Bool.not_false, ↓reduceIte] at hk ⊢
    obtain ⟨m1, m2⟩ := minimize_sim x s g h (hg.min a sp cu)
    obtain ⟨p1, p2⟩ := minimize_post x hl a hd
    rcases (Bool.eq_false_or_eq_true x.minimize.1).symm with r | r
    · have ee : x.minimize.2.p.st.empty = true := by rw [(p1 r).2.2]; rfl
      rw [apPost_empty _ v e den ee] at hk ⊢
      exact absApTail_sim_empty _ _ g m2 (p1 r).2.2 hk
    · have q := p2 r
      have sp' : x.minimize.2.p.st.somethingPending = false := by simp [Status.somethingPending, q.cPend, q.gPend]
      obtain ⟨f1, f2, f3, f4⟩ := apPost_noninv _ v e den q.empty i sp' q.cUp
      exact absApTail_sim _ _ _ g m2 f1 f2 f3 f4 hk
  · simp only [cu, Bool.not_true, Bool.false_eq_true, ↓reduceIte] at hk ⊢
    obtain ⟨f1, f2, f3, f4⟩ := apPost_noninv x v e den a i sp cu
    exact absApTail_sim _ _ _ g h f1 f2 f3 f4 hk

end PPLV.PolyFull
