import PPLV.PolyFull.ProofsObs3
import PPLV.PolyFull.ProofsGlue12

/-!
# Integration stage — the binary observers, part 5: sorting a system with nothing pending

List-level facts on `sort_and_remove_with_sat` when nothing is pending (`sortSat_mem`: the row set is
kept and nothing is pending afterwards, duplicates or not; `sortSat_perm`: on duplicate-free rows the
pairs (row, saturation row) are permuted), and the two "replace one system by a re-ordering of itself"
lemmas for `FPoly.Inv` (`Inv_resortG`, `Inv_resortC`).
-/
namespace PPLV.PolyFull
open PPLV.Lin PPLV.PolyOps
open PPLV.Conv (LRow BRow Vec Sound SatCorrect holds holdsAll Generated)

theorem uniqueWith_length_le (l : List (Row × BRow)) : (uniqueWith l).length ≤ l.length := by
  induction l with
  | nil => simp [uniqueWith]
  | cons a rest ih =>
    simp only [uniqueWith]
    split
    · simp only [List.length_cons]; omega
    · simp only [List.length_cons]; omega

theorem sortWith_length_le (gen nnc : Bool) (l : List (Row × BRow)) :
    (sortWith gen nnc l).length ≤ l.length := by
  unfold sortWith
  refine (uniqueWith_length_le _).trans ?_
  rw [(perm_foldl_insertWith gen nnc l []).length_eq, List.append_nil]

/-- nothing pending: `sort_and_remove_with_sat` keeps the row set and leaves nothing pending -/
theorem sortSat_mem (gen nnc : Bool) (s : Sys) (sat : BitMat) (hfp : s.firstPending = s.rows.length) :
    (s.sortAndRemoveWithSat gen nnc sat).1.firstPending = (s.sortAndRemoveWithSat gen nnc sat).1.rows.length ∧
    ∀ r, r ∈ (s.sortAndRemoveWithSat gen nnc sat).1.rows ↔ r ∈ s.rows := by
  unfold Sys.sortAndRemoveWithSat
  split
  · exact ⟨hfp, fun _ => Iff.rfl⟩
  · have htake : s.rows.take s.firstPending = s.rows := by rw [hfp, List.take_length]
    have hdrop : s.rows.drop s.firstPending = [] := by rw [hfp, List.drop_length]
    have hnot : ¬ s.rows.length > s.firstPending := by omega
    simp only [htake, hdrop, List.append_nil, hnot, if_false]
    set satRows := (sat.rows ++ List.replicate (s.rows.length - sat.rows.length) []).take s.rows.length
      with hsr
    have hsl : satRows.length = s.rows.length := by
      rw [hsr, List.length_take, List.length_append, List.length_replicate]; omega
    set sorted := sortWith gen nnc (s.rows.zip satRows) with hso
    have hle : sorted.length ≤ s.rows.length := by
      have := sortWith_length_le gen nnc (s.rows.zip satRows)
      rw [List.length_zip, hsl, Nat.min_self] at this
      exact this
    have hlen : (sorted.map (·.1) ++ List.replicate (s.rows.length - sorted.length) (default : Row)).length
        - (s.rows.length - sorted.length) = (sorted.map (·.1)).length := by
      rw [List.length_append, List.length_replicate, List.length_map]; omega
    rw [hlen, List.take_left']
    · refine ⟨?_, fun r => ?_⟩
      · rw [List.length_map, hfp]; omega
      · rw [mem_sortWith_fst, List.map_fst_zip (by omega)]
    · rfl

/-- nothing pending, duplicate-free rows, a saturation matrix of the right height: the pairs are permuted -/
theorem sortSat_perm (gen nnc : Bool) (s : Sys) (sat : BitMat) (hfp : s.firstPending = s.rows.length)
    (hnd : s.rows.Nodup) (hsl : sat.rows.length = s.rows.length) :
    ∃ ps : List (Row × BRow), ps.Perm (s.rows.zip sat.rows) ∧
      (s.sortAndRemoveWithSat gen nnc sat).1.rows = ps.map (·.1) ∧
      (s.sortAndRemoveWithSat gen nnc sat).2.rows = ps.map (·.2) ∧
      (s.sortAndRemoveWithSat gen nnc sat).2.ncols = sat.ncols := by
  have htake : s.rows.take s.firstPending = s.rows := by rw [hfp, List.take_length]
  have hdrop : s.rows.drop s.firstPending = [] := by rw [hfp, List.drop_length]
  obtain ⟨ps, h1, h2, _, h4, h5⟩ := sortAndRemoveWithSat_nodup gen nnc s sat (by omega)
    (by rw [htake]; exact hnd) (by rw [hsl, hfp])
  rw [htake] at h1
  rw [hdrop, List.append_nil] at h2
  exact ⟨ps, h1, h2, h4, h5⟩

theorem legal_sameButSat {s t : Status} {d : Nat} (h : statusLegalB s d = true) (hne : s.empty = false)
    (hs : StatusSameButSat s t) (hf : (t.satC || t.satG) = (s.satC || s.satG)) :
    statusLegalB t d = true ∧ t.canPend = s.canPend := by
  obtain ⟨a, b, rfl⟩ := hs.exists
  obtain ⟨e, cu, gu, cm, gm, sc, sg, cp, gp⟩ := s
  simp only at hf hne
  subst hne
  simp only [statusLegalB, Status.canPend, Bool.not_false, Bool.true_or, Bool.true_and] at h ⊢
  rw [hf]
  exact ⟨h, rfl⟩

/-- the generator system replaced by a re-ordering of itself (nothing pending), the saturation flags
    and matrices replaced by others that are still exact -/
theorem Inv_resortG (x : FPoly) (S : Set Val) (hx : x.Inv S) (hne : x.p.st.empty = false)
    (hgu : x.p.st.gUp = true) (hcp : x.p.st.cPend = false) (hgp : x.p.st.gPend = false)
    (gs' : Sys) (st' : Status) (sC' sG' : BitMat)
    (hst : StatusSameButSat x.p.st st') (hflag : (st'.satC || st'.satG) = (x.p.st.satC || x.p.st.satG))
    (hmem : ∀ r, r ∈ gs'.rows ↔ r ∈ x.p.gs.rows) (hfp : gs'.firstPending = gs'.rows.length)
    (heng : x.p.st.canPend = true → EnginePair x.p.nnc x.p.dim x.npC gs'.rows st'.satC st'.satG sC' sG') :
    (⟨{ x.p with gs := gs', st := st' }, sC', sG'⟩ : FPoly).Inv S := by
  obtain ⟨hl, hcan⟩ := legal_sameButSat hx.legal hne hst hflag
  obtain ⟨e1, e2, e3, e4, e5, e6, e7⟩ := hst
  have hgen : genSem x.p.nnc x.p.dim gs'.rows = genSem x.p.nnc x.p.dim x.p.gs.rows :=
    (genSem_congr_mem _ _ _ _ (hx.wf.gs_wf hne hgu) (fun r => (hmem r).symm)).symm
  refine ⟨⟨?_, ?_, ?_, ?_, ?_, ?_, ?_, ?_⟩, ⟨?_, ?_⟩, hl, ?_, ?_, ?_, ?_, ?_, ?_⟩
  · intro he hc; exact hx.wf.cs_len hne (by rw [← e2]; exact hc)
  · intro _ _ r hr; exact hx.wf.gs_wf hne hgu r ((hmem r).mp hr)
  · intro _ _
    obtain ⟨r, hr, hp⟩ := hx.wf.gs_pt hne hgu
    exact ⟨r, (hmem r).mpr hr, hp⟩
  · intro h; have : x.p.st.cPend = true := by rw [← e6]; exact h
    rw [hcp] at this; cases this
  · intro h; have : x.p.st.gPend = true := by rw [← e7]; exact h
    rw [hgp] at this; cases this
  · rintro ⟨h, -⟩; have : x.p.st.cPend = true := by rw [← e6]; exact h
    rw [hcp] at this; cases this
  · intro _ hd
    rcases hx.wf.some_up hne hd with h | h
    · exact Or.inl (by show st'.cUp = true; rw [e2]; exact h)
    · exact Or.inr (by show st'.gUp = true; rw [e3]; exact h)
  · intro hd
    have := hx.wf.zero_dim hd
    exact ⟨by show st'.cUp = false; rw [e2]; exact this.1, by show st'.gUp = false; rw [e3]; exact this.2⟩
  · intro h; have : x.p.st.empty = true := by rw [← e1]; exact h
    rw [hne] at this; cases this
  · intro _
    refine ⟨fun hc hg => (hx.den.2 hne).1 (by rw [← e2]; exact hc) hgp,
      fun _ _ => hgen.trans ((hx.den.2 hne).2.1 hgu hcp), fun _ hc => ?_⟩
    have : x.p.st.gUp = false := by rw [← e3]; exact hc
    rw [hgu] at this; cases this
  · intro _ hc
    have := hx.fpC hne (by rw [← e2]; exact hc)
    exact ⟨this.1, fun _ => this.2 hcp⟩
  · intro _ _; exact ⟨by show gs'.firstPending ≤ gs'.rows.length; omega, fun _ => hfp⟩
  · intro _ hc; exact hx.low hne (by rw [← e2]; exact hc)
  · intro _ h; have : x.p.st.cPend = true := by rw [← e6]; exact h
    rw [hcp] at this; cases this
  · intro _ h; have : x.p.st.gPend = true := by rw [← e7]; exact h
    rw [hgp] at this; cases this
  · intro _ hc
    have hc' : x.p.st.canPend = true := by rw [← hcan]; exact hc
    show EnginePair x.p.nnc x.p.dim x.npC (gs'.rows.take gs'.firstPending) st'.satC st'.satG sC' sG'
    rw [hfp, List.take_length]
    exact heng hc'

/-- the dual: the constraint system replaced by a re-ordering of itself -/
theorem Inv_resortC (x : FPoly) (S : Set Val) (hx : x.Inv S) (hne : x.p.st.empty = false)
    (hcu : x.p.st.cUp = true) (hcp : x.p.st.cPend = false) (hgp : x.p.st.gPend = false)
    (cs' : Sys) (st' : Status) (sC' sG' : BitMat)
    (hst : StatusSameButSat x.p.st st') (hflag : (st'.satC || st'.satG) = (x.p.st.satC || x.p.st.satG))
    (hmem : ∀ r, r ∈ cs'.rows ↔ r ∈ x.p.cs.rows) (hfp : cs'.firstPending = cs'.rows.length)
    (heng : x.p.st.canPend = true → EnginePair x.p.nnc x.p.dim cs'.rows x.npG st'.satC st'.satG sC' sG') :
    (⟨{ x.p with cs := cs', st := st' }, sC', sG'⟩ : FPoly).Inv S := by
  obtain ⟨hl, hcan⟩ := legal_sameButSat hx.legal hne hst hflag
  obtain ⟨e1, e2, e3, e4, e5, e6, e7⟩ := hst
  have hcon : conSem x.p.nnc cs'.rows = conSem x.p.nnc x.p.cs.rows := by
    ext w; rw [mem_conSem, mem_conSem]
    exact ⟨fun h r hr => h r ((hmem r).mpr hr), fun h r hr => h r ((hmem r).mp hr)⟩
  refine ⟨⟨?_, ?_, ?_, ?_, ?_, ?_, ?_, ?_⟩, ⟨?_, ?_⟩, hl, ?_, ?_, ?_, ?_, ?_, ?_⟩
  · intro _ _ r hr; exact hx.wf.cs_len hne hcu r ((hmem r).mp hr)
  · intro _ hg; exact hx.wf.gs_wf hne (by rw [← e3]; exact hg)
  · intro _ hg; exact hx.wf.gs_pt hne (by rw [← e3]; exact hg)
  · intro h; have : x.p.st.cPend = true := by rw [← e6]; exact h
    rw [hcp] at this; cases this
  · intro h; have : x.p.st.gPend = true := by rw [← e7]; exact h
    rw [hgp] at this; cases this
  · rintro ⟨h, -⟩; have : x.p.st.cPend = true := by rw [← e6]; exact h
    rw [hcp] at this; cases this
  · intro _ hd
    rcases hx.wf.some_up hne hd with h | h
    · exact Or.inl (by show st'.cUp = true; rw [e2]; exact h)
    · exact Or.inr (by show st'.gUp = true; rw [e3]; exact h)
  · intro hd
    have := hx.wf.zero_dim hd
    exact ⟨by show st'.cUp = false; rw [e2]; exact this.1, by show st'.gUp = false; rw [e3]; exact this.2⟩
  · intro h; have : x.p.st.empty = true := by rw [← e1]; exact h
    rw [hne] at this; cases this
  · intro _
    refine ⟨fun _ _ => hcon.trans ((hx.den.2 hne).1 hcu hgp),
      fun hg _ => (hx.den.2 hne).2.1 (by rw [← e3]; exact hg) hcp, fun hc _ => ?_⟩
    have : x.p.st.cUp = false := by rw [← e2]; exact hc
    rw [hcu] at this; cases this
  · intro _ _; exact ⟨by show cs'.firstPending ≤ cs'.rows.length; omega, fun _ => hfp⟩
  · intro _ hg
    have := hx.fpG hne (by rw [← e3]; exact hg)
    exact ⟨this.1, fun _ => this.2 hgp⟩
  · intro _ _
    exact LowLevel.mono (fun r hr => (hmem r).mpr hr) (hx.low hne hcu)
  · intro _ h; have : x.p.st.cPend = true := by rw [← e6]; exact h
    rw [hcp] at this; cases this
  · intro _ h; have : x.p.st.gPend = true := by rw [← e7]; exact h
    rw [hgp] at this; cases this
  · intro _ hc
    have hc' : x.p.st.canPend = true := by rw [← hcan]; exact hc
    show EnginePair x.p.nnc x.p.dim (cs'.rows.take cs'.firstPending) x.npG st'.satC st'.satG sC' sG'
    rw [hfp, List.take_length]
    exact heng hc'

end PPLV.PolyFull
