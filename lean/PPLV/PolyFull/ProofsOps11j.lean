import PPLV.PolyFull.ProofsOps11i

/-!
# Integration stage — the field `eng` of the result of the invertible `affine_image` / `affine_preimage`

`MinG2` (ProofsOps11i.lean) = `EnginePair.minG ∧ EnginePair.minL` is kept by the invertible maps
(`minG2_affine`); with `enginePair_affine` this gives the whole `EnginePair` of the result from the one of
the receiver (`affineImage_eng`, `affinePreimage_eng`).  The `_minG2` theorems are the earlier
formulation with `MinG2` of the receiver as an explicit hypothesis.
-/
namespace PPLV.PolyFull
open PPLV.Lin PPLV.PolyOps
open PPLV.Conv (scalarProduct holds holdsAll Vec Sound SatCorrect Generated)

theorem affineImage_eng_minG2 (x : FPoly) (S : Set Val) (v : Nat) (e : LinExpr) (den : Int) (hx : x.Inv S)
    (hv : v < x.p.dim) (he : e.coeffs.length = x.p.dim) (hden : den ≠ 0)
    (hc : e.coeffs.getD v 0 ≠ 0) (hex : x.p.st.empty = false)
    (hcan : (x.affineImage v e den).p.st.canPend = true) (hL : MinG2 x.p.nnc x.npG) :
    EnginePair (x.affineImage v e den).p.nnc (x.affineImage v e den).p.dim (x.affineImage v e den).npC
      (x.affineImage v e den).npG (x.affineImage v e den).p.st.satC (x.affineImage v e den).p.st.satG
      (x.affineImage v e den).satC (x.affineImage v e den).satG ∧
    MinG2 (x.affineImage v e den).p.nnc (x.affineImage v e den).npG := by
  obtain ⟨q, hq, hR⟩ := affineImage_inv_eq x v e den hex hc
  obtain ⟨hst, hqn, hqd, hgs, hcs⟩ := affine_image_inv_shape x.p q v e den hex hc hq
  rw [hR] at hcan ⊢
  have hcp : x.p.st.canPend = true := by rw [← hst]; exact hcan
  obtain ⟨hcu, hgu⟩ := legal_canPend_up hx.legal hcp
  have hnpC : q.cs.rows.take q.cs.firstPending =
      x.npC.map (Fc v (inverseMap x.p.dim v e den).1 (inverseMap x.p.dim v e den).2) := by
    rw [hcs, if_pos hcu]; exact csAffinePreimage_take_Fc _ _ _ _
  have hnpG : q.gs.rows.take q.gs.firstPending = x.npG.map (Fg v (sgnE e den) (sgnD den)) := by
    rw [hgs, if_pos hgu, gsSigned_eq]; exact gsAffineImage_take_Fg _ _ _ _ (sgnE_getD_ne e den v hc)
  show EnginePair q.nnc q.dim (q.cs.rows.take q.cs.firstPending) (q.gs.rows.take q.gs.firstPending)
    q.st.satC q.st.satG x.satC x.satG ∧ MinG2 q.nnc (q.gs.rows.take q.gs.firstPending)
  rw [hnpC, hnpG, hqn, hqd, hst]
  have D := affData_image x.p.nnc x.p.dim v e den he hv hden hc
  have hgl : ∀ g ∈ x.npG, g.cf.length = x.p.dim :=
    fun g hg' => (hx.wf.gs_wf hex hgu g (List.mem_of_mem_take hg')).1
  have hM := minG2_affine D x.npG hgl hL
  exact ⟨enginePair_affine D x.npC x.npG
    (fun c hc' => hx.wf.cs_len hex hcu c (List.mem_of_mem_take hc')) hgl _ _ _ _ (hx.eng hex hcp)
    (fun j hj => (hM j hj).1) (fun j hj => (hM j hj).2), hM⟩

theorem affinePreimage_eng_minG2 (x : FPoly) (S : Set Val) (v : Nat) (e : LinExpr) (den : Int) (hx : x.Inv S)
    (hv : v < x.p.dim) (he : e.coeffs.length = x.p.dim) (hden : den ≠ 0)
    (hc : e.coeffs.getD v 0 ≠ 0) (hex : x.p.st.empty = false)
    (hcan : (x.affinePreimage v e den).p.st.canPend = true) (hL : MinG2 x.p.nnc x.npG) :
    EnginePair (x.affinePreimage v e den).p.nnc (x.affinePreimage v e den).p.dim (x.affinePreimage v e den).npC
      (x.affinePreimage v e den).npG (x.affinePreimage v e den).p.st.satC (x.affinePreimage v e den).p.st.satG
      (x.affinePreimage v e den).satC (x.affinePreimage v e den).satG ∧
    MinG2 (x.affinePreimage v e den).p.nnc (x.affinePreimage v e den).npG := by
  obtain ⟨q, hq, hR⟩ := affinePreimage_inv_eq x v e den hex hc
  obtain ⟨hst, hqn, hqd, hcs, hgs⟩ := affine_preimage_inv_shape x.p q v e den hex hc hq
  rw [hR] at hcan ⊢
  have hcp : x.p.st.canPend = true := by rw [← hst]; exact hcan
  obtain ⟨hcu, hgu⟩ := legal_canPend_up hx.legal hcp
  have hnpC : q.cs.rows.take q.cs.firstPending = x.npC.map (Fc v (sgnE e den) (sgnD den)) := by
    rw [hcs, if_pos hcu, csSigned_eq]; exact csAffinePreimage_take_Fc _ _ _ _
  have hnpG : q.gs.rows.take q.gs.firstPending =
      x.npG.map (Fg v (inverseMap x.p.dim v e den).1 (inverseMap x.p.dim v e den).2) := by
    rw [hgs, if_pos hgu]
    exact gsAffineImage_take_Fg _ _ _ _ (inverseMap_getD x.p.dim v e den hv hden)
  show EnginePair q.nnc q.dim (q.cs.rows.take q.cs.firstPending) (q.gs.rows.take q.gs.firstPending)
    q.st.satC q.st.satG x.satC x.satG ∧ MinG2 q.nnc (q.gs.rows.take q.gs.firstPending)
  rw [hnpC, hnpG, hqn, hqd, hst]
  have D := affData_preimage x.p.nnc x.p.dim v e den he hv hden hc
  have hgl : ∀ g ∈ x.npG, g.cf.length = x.p.dim :=
    fun g hg' => (hx.wf.gs_wf hex hgu g (List.mem_of_mem_take hg')).1
  have hM := minG2_affine D x.npG hgl hL
  exact ⟨enginePair_affine D x.npC x.npG
    (fun c hc' => hx.wf.cs_len hex hcu c (List.mem_of_mem_take hc')) hgl _ _ _ _ (hx.eng hex hcp)
    (fun j hj => (hM j hj).1) (fun j hj => (hM j hj).2), hM⟩

/-- `MinG2` of the non-pending generators from the engine clause of the invariant -/
theorem minG2_of_eng {nnc : Bool} {n : Nat} {cs gs : List Row} {fC fG : Bool} {sC sG : BitMat}
    (E : EnginePair nnc n cs gs fC fG sC sG) : MinG2 nnc gs :=
  fun j hj => ⟨E.minG j hj, E.minL j hj⟩

theorem canPend_of_result_image (x : FPoly) (v : Nat) (e : LinExpr) (den : Int)
    (hc : e.coeffs.getD v 0 ≠ 0) (hex : x.p.st.empty = false)
    (hcan : (x.affineImage v e den).p.st.canPend = true) : x.p.st.canPend = true := by
  obtain ⟨q, hq, hp⟩ := affineImage_inv_p x v e den hex hc
  obtain ⟨hst, _⟩ := affine_image_inv_shape x.p q v e den hex hc hq
  rw [hp, hst] at hcan; exact hcan

theorem canPend_of_result_preimage (x : FPoly) (v : Nat) (e : LinExpr) (den : Int)
    (hc : e.coeffs.getD v 0 ≠ 0) (hex : x.p.st.empty = false)
    (hcan : (x.affinePreimage v e den).p.st.canPend = true) : x.p.st.canPend = true := by
  obtain ⟨q, hq, hp⟩ := affinePreimage_inv_p x v e den hex hc
  obtain ⟨hst, _⟩ := affine_preimage_inv_shape x.p q v e den hex hc hq
  rw [hp, hst] at hcan; exact hcan

/-- the field `eng` of `x.affineImage v e den`, invertible case -/
theorem affineImage_eng (x : FPoly) (S : Set Val) (v : Nat) (e : LinExpr) (den : Int) (hx : x.Inv S)
    (hv : v < x.p.dim) (he : e.coeffs.length = x.p.dim) (hden : den ≠ 0)
    (hc : e.coeffs.getD v 0 ≠ 0) (hex : x.p.st.empty = false)
    (hcan : (x.affineImage v e den).p.st.canPend = true) :
    EnginePair (x.affineImage v e den).p.nnc (x.affineImage v e den).p.dim (x.affineImage v e den).npC
      (x.affineImage v e den).npG (x.affineImage v e den).p.st.satC (x.affineImage v e den).p.st.satG
      (x.affineImage v e den).satC (x.affineImage v e den).satG :=
  (affineImage_eng_minG2 x S v e den hx hv he hden hc hex hcan
    (minG2_of_eng (hx.eng hex (canPend_of_result_image x v e den hc hex hcan)))).1

/-- the field `eng` of `x.affinePreimage v e den`, invertible case -/
theorem affinePreimage_eng (x : FPoly) (S : Set Val) (v : Nat) (e : LinExpr) (den : Int) (hx : x.Inv S)
    (hv : v < x.p.dim) (he : e.coeffs.length = x.p.dim) (hden : den ≠ 0)
    (hc : e.coeffs.getD v 0 ≠ 0) (hex : x.p.st.empty = false)
    (hcan : (x.affinePreimage v e den).p.st.canPend = true) :
    EnginePair (x.affinePreimage v e den).p.nnc (x.affinePreimage v e den).p.dim (x.affinePreimage v e den).npC
      (x.affinePreimage v e den).npG (x.affinePreimage v e den).p.st.satC (x.affinePreimage v e den).p.st.satG
      (x.affinePreimage v e den).satC (x.affinePreimage v e den).satG :=
  (affinePreimage_eng_minG2 x S v e den hx hv he hden hc hex hcan
    (minG2_of_eng (hx.eng hex (canPend_of_result_preimage x v e den hc hex hcan)))).1

/-- **`affine_image`, the whole object — unconditional under `MinG2` of the receiver**, which the result
    satisfies again (invertible case; in the other cases the result cannot have pending rows). -/
theorem affineImage_refines_minG2 (G : GlueFacts) (x : FPoly) (ref : RefPoly) (v : Nat) (e : LinExpr)
    (den : Int) (hn : ref.n = x.p.dim) (hnnc : ref.nnc = x.p.nnc) (hwf : WF ref.n ref.cs)
    (hv : v < x.p.dim) (he : e.coeffs.length = x.p.dim) (hden : den ≠ 0) (hx : x.Inv (sem ref.cs))
    (hL : x.p.st.empty = false → x.p.st.canPend = true → MinG2 x.p.nnc x.npG) :
    (x.affineImage v e den).Inv (sem (ref.affineImage v e den).cs) ∧ x.SameShape (x.affineImage v e den) ∧
    (e.coeffs.getD v 0 ≠ 0 → x.p.st.empty = false → (x.affineImage v e den).p.st.canPend = true →
      MinG2 (x.affineImage v e den).p.nnc (x.affineImage v e den).npG) := by
  have hmain := affineImage_refines_partial2 G x ref v e den hn hnnc hwf hv he hden hx
    (fun hc hex hR => affineImage_denNPg x _ v e den hx hv he hden hc hex hR)
    (fun hc hex hcan => (affineImage_eng_minG2 x _ v e den hx hv he hden hc hex hcan
      (hL hex (canPend_of_result_image x v e den hc hex hcan))).1)
  exact ⟨hmain.1, hmain.2, fun hc hex hcan => (affineImage_eng_minG2 x _ v e den hx hv he hden hc hex hcan
      (hL hex (canPend_of_result_image x v e den hc hex hcan))).2⟩

theorem affinePreimage_refines_minG2 (G : GlueFacts) (x : FPoly) (ref : RefPoly) (v : Nat) (e : LinExpr)
    (den : Int) (hn : ref.n = x.p.dim) (hnnc : ref.nnc = x.p.nnc) (hwf : WF ref.n ref.cs)
    (hv : v < x.p.dim) (he : e.coeffs.length = x.p.dim) (hden : den ≠ 0) (hx : x.Inv (sem ref.cs))
    (hL : x.p.st.empty = false → x.p.st.canPend = true → MinG2 x.p.nnc x.npG) :
    (x.affinePreimage v e den).Inv (sem (ref.affinePreimage v e den).cs) ∧
      x.SameShape (x.affinePreimage v e den) ∧
    (e.coeffs.getD v 0 ≠ 0 → x.p.st.empty = false → (x.affinePreimage v e den).p.st.canPend = true →
      MinG2 (x.affinePreimage v e den).p.nnc (x.affinePreimage v e den).npG) := by
  have hmain := affinePreimage_refines_partial2 G x ref v e den hn hnnc hwf hv he hden hx
    (fun hc hex hR => affinePreimage_denNPg x _ v e den hx hv he hden hc hex hR)
    (fun hc hex hcan => (affinePreimage_eng_minG2 x _ v e den hx hv he hden hc hex hcan
      (hL hex (canPend_of_result_preimage x v e den hc hex hcan))).1)
  exact ⟨hmain.1, hmain.2, fun hc hex hcan => (affinePreimage_eng_minG2 x _ v e den hx hv he hden hc hex hcan
      (hL hex (canPend_of_result_preimage x v e den hc hex hcan))).2⟩

theorem generalizedAffineImage_refines_minG2 (G : GlueFacts) (x : FPoly) (ref : RefPoly) (v : Nat) (r : Rel)
    (e : LinExpr) (den : Int) (hn : ref.n = x.p.dim) (hnnc : ref.nnc = x.p.nnc) (hwf : WF ref.n ref.cs)
    (hv : v < x.p.dim) (he : e.coeffs.length = x.p.dim) (hden : den ≠ 0) (hx : x.Inv (sem ref.cs))
    (hr : r = .le ∨ r = .eq ∨ r = .ge)
    (hL : x.p.st.empty = false → x.p.st.canPend = true → MinG2 x.p.nnc x.npG) :
    (x.generalizedAffineImage v r e den).Inv (sem (ref.genAffineImage v r e den).cs) ∧
      x.SameShape (x.generalizedAffineImage v r e den) :=
  generalizedAffineImage_of_affineImage G x ref v r e den hn hwf hv he hden hr
    ⟨(affineImage_refines_minG2 G x ref v e den hn hnnc hwf hv he hden hx hL).1,
     (affineImage_refines_minG2 G x ref v e den hn hnnc hwf hv he hden hx hL).2.1⟩

end PPLV.PolyFull
