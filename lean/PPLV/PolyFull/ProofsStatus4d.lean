import PPLV.PolyFull.ProofsStatus4c

/-!
# Integration stage — `minimized_constraints()` / `minimized_generators()` (closed topology)

The abstract methods are two steps (`minimize()`, then `constraints()` / `generators()`) with one ghost
input each; the ghost Booleans of the intermediate abstract state are determined by the first step.  On a
LEGAL status word the second step does not read them: after `minimize()` answered "not empty" both
descriptions are up to date and nothing is pending (`minimize_post`, proved on the full model).
-/
namespace PPLV.PolyFull
open PPLV.PolyOps
open PPLV.PolyStatus (PState Gh)

attribute [local simp] FPoly.st FPoly.nnc FPoly.dim FPoly.withSt FPoly.withCs FPoly.withGs

/-- the clauses of `Status::OK()` used below -/
theorem legal_facts {st : Status} {d : Nat} (hl : statusLegalB st d = true) :
    (st.cPend = true → st.cUp = true ∧ st.gUp = true ∧ st.cMin = true ∧ st.gMin = true ∧ st.gPend = false
        ∧ st.empty = false)
    ∧ (st.gPend = true → st.cUp = true ∧ st.gUp = true ∧ st.cMin = true ∧ st.gMin = true ∧ st.cPend = false
        ∧ st.empty = false)
    ∧ (st.cMin = true → st.cUp = true) ∧ (st.gMin = true → st.gUp = true)
    ∧ (st.empty = false → (d == 0) = false → st.cUp = false → st.gUp = true) := by
  obtain ⟨e, cu, gu, cm, gm, sc, sg, cp, gp⟩ := st
  simp only [statusLegalB, Status.canPend, bne] at hl
  simp only
  generalize (d == 0) = z at *
  revert hl
  cases e <;> cases cu <;> cases gu <;> cases cm <;> cases gm <;> cases sc <;> cases sg <;> cases cp <;> cases gp <;>
    cases z <;> simp

theorem ppgPrep_keeps (x : FPoly) :
    x.ppgPrep.p.st.gUp = x.p.st.gUp ∧ x.ppgPrep.p.st.cUp = x.p.st.cUp ∧ x.ppgPrep.p.st.empty = x.p.st.empty
    ∧ x.ppgPrep.p.st.cPend = x.p.st.cPend ∧ x.ppgPrep.p.st.cMin = x.p.st.cMin ∧ x.ppgPrep.p.st.gMin = x.p.st.gMin
    ∧ x.ppgPrep.p.dim = x.p.dim ∧ x.ppgPrep.p.nnc = x.p.nnc := by
  obtain ⟨⟨nnc, dim, ⟨e, cu, gu, cm, gm, sc, sg, cp, gp⟩, ⟨cr, cf, csrt⟩, ⟨gr, gf, gsrt⟩⟩, mC, mG⟩ := x
  cases gsrt <;> cases sc <;> cases sg <;>
    simp [FPoly.ppgPrep, FPoly.obtainSortedGeneratorsWithSatG, FPoly.updateSatG]

theorem processPendingGenerators_keeps (x : FPoly) :
    x.processPendingGenerators.p.st.gUp = x.p.st.gUp
    ∧ x.processPendingGenerators.p.st.cUp = x.p.st.cUp
    ∧ x.processPendingGenerators.p.st.empty = x.p.st.empty
    ∧ x.processPendingGenerators.p.st.cPend = x.p.st.cPend
    ∧ x.processPendingGenerators.p.st.gPend = false
    ∧ x.processPendingGenerators.p.st.cMin = x.p.st.cMin ∧ x.processPendingGenerators.p.st.gMin = x.p.st.gMin
    ∧ x.processPendingGenerators.p.dim = x.p.dim ∧ x.processPendingGenerators.p.nnc = x.p.nnc := by
  obtain ⟨k1, k2, k3, k4, k5, k6, k7, k8⟩ := ppgPrep_keeps x
  rw [FPoly.processPendingGenerators_eq]
  unfold FPoly.ppgFin
  generalize x.ppgPrep.ppgNoPend = np at *
  generalize x.ppgPrep.ppgOut = o at *
  cases np <;> simp_all

theorem processPendingConstraints_keepsMin (x : FPoly) (h : x.processPendingConstraints.1 = true) :
    x.processPendingConstraints.2.p.st.cMin = x.p.st.cMin ∧ x.processPendingConstraints.2.p.st.gMin = x.p.st.gMin := by
  obtain ⟨_, _, _, _, k5, k6, _, _⟩ := ppcPrep_keeps x
  rw [FPoly.processPendingConstraints_eq] at h ⊢
  unfold FPoly.ppcFin at h ⊢
  generalize x.ppcPrep.ppcNoPend = np at *
  generalize x.ppcPrep.ppcOut = o at *
  cases np <;> rcases (Bool.eq_false_or_eq_true o.empty).symm with b | b <;> simp_all

/-- what `minimize()` leaves -/
structure MinPost (x y : FPoly) : Prop where
  empty : y.p.st.empty = false
  cUp : y.p.st.cUp = true
  gUp : y.p.st.gUp = true
  cMin : y.p.st.cMin = true
  gMin : y.p.st.gMin = true
  cPend : y.p.st.cPend = false
  gPend : y.p.st.gPend = false
  dim : y.p.dim = x.p.dim
  nnc : y.p.nnc = x.p.nnc

theorem minimize_post (x : FPoly) (hl : statusLegalB x.p.st x.p.dim = true) (he : x.p.st.empty = false)
    (hd : x.p.dim ≠ 0) :
    (x.minimize.1 = false → x.minimize.2.p.gs = Sys.clear ∧ x.minimize.2.p.cs = Sys.clear
        ∧ x.minimize.2.p.st = Status.setEmpty)
    ∧ (x.minimize.1 = true → MinPost x x.minimize.2) := by
  obtain ⟨l1, l2, l3, l4, l5⟩ := legal_facts hl
  have hd' : (x.p.dim == 0) = false := by simpa using hd
  rcases (Bool.eq_false_or_eq_true x.p.st.cPend).symm with c | c
  · rcases (Bool.eq_false_or_eq_true x.p.st.gPend).symm with c' | c'
    · rcases (Bool.eq_false_or_eq_true (x.p.st.cMin && x.p.st.gMin)).symm with d | d
      · rcases (Bool.eq_false_or_eq_true x.p.st.cUp).symm with e | e
        · have e1 : x.minimize = (true, x.updateConstraints) := by
            simp [FPoly.minimize, Status.somethingPending, *]
          rw [e1]
          refine ⟨fun hf => (by cases hf), fun _ => ?_⟩
          constructor <;> simp [FPoly.updateConstraints, *]
        · have e1 : x.minimize = x.updateGenerators := by
            simp [FPoly.minimize, Status.somethingPending, *]
          rw [e1]
          refine ⟨updateGenerators_false x, fun hr => ?_⟩
          unfold FPoly.updateGenerators at hr ⊢
          generalize FPoly.engineMinimize true x.nnc x.dim x.p.cs x.satG = o at *
          rcases (Bool.eq_false_or_eq_true o.empty).symm with b | b
          · constructor <;> simp_all
          · simp [b] at hr
      · have e1 : x.minimize = (true, x) := by simp [FPoly.minimize, Status.somethingPending, *]
        rw [e1]
        simp only [Bool.and_eq_true] at d
        exact ⟨fun hf => (by cases hf), fun _ => ⟨he, l3 d.1, l4 d.2, d.1, d.2, c, c', rfl, rfl⟩⟩
    · have e1 : x.minimize = (true, x.processPendingGenerators) := by
        simp [FPoly.minimize, FPoly.processPending, Status.somethingPending, *]
      obtain ⟨k1, k2, k3, k4, k5, k6, k7, k8, k9⟩ := processPendingGenerators_keeps x
      obtain ⟨a1, a2, a3, a4, a5, a6⟩ := l2 c'
      rw [e1]
      exact ⟨fun hf => (by cases hf), fun _ =>
        ⟨k3.trans he, k2.trans a1, k1.trans a2, k6.trans a3, k7.trans a4, k4.trans c, k5, k8, k9⟩⟩
  · have e1 : x.minimize = x.processPendingConstraints := by
      simp [FPoly.minimize, FPoly.processPending, Status.somethingPending, *]
    obtain ⟨a1, a2, a3, a4, a5, a6⟩ := l1 c
    rw [e1]
    refine ⟨processPendingConstraints_false x, fun hr => ?_⟩
    obtain ⟨k1, k2, k3, k4, k5, k6, k7⟩ := processPendingConstraints_keeps x hr
    obtain ⟨k8, k9⟩ := processPendingConstraints_keepsMin x hr
    exact ⟨k3.trans he, k2.trans a1, k1.trans a2, k8.trans a3, k9.trans a4, k5, k4.trans a5, k6, k7⟩

/-! ## the two observers -/

/-- `minimized_constraints()`, closed topology, legal status word -/
theorem minimizedConstraints_sim (x : FPoly) (s : PState) (g1 g2 : Gh) (h : Sim x s) (hn : x.p.nnc = false)
    (hl : statusLegalB x.p.st x.p.dim = true)
    (hE : x.p.st.empty = true → x.p.cs.rows.isEmpty = false → x.p.cs.sorted = true)
    (hg : MinGhost x g1 s) :
    Sim x.minimizedConstraints
      (PPLV.PolyStatus.runSteps PPLV.PolyStatus.minimizedConstraintsSteps [g1, g2] s) := by
  obtain ⟨_, m2⟩ := minimize_sim x s g1 h hg
  have e1 : x.minimizedConstraints = x.minimize.2.constraints := by simp [FPoly.minimizedConstraints, hn]
  have e2 : PPLV.PolyStatus.runSteps PPLV.PolyStatus.minimizedConstraintsSteps [g1, g2] s
      = PPLV.PolyStatus.constraints g2 (PPLV.PolyStatus.minimize g1 s).2 := by
    have : s.nnc = false := h.nnc.trans hn
    simp [PPLV.PolyStatus.runSteps, PPLV.PolyStatus.minimizedConstraintsSteps, this]
  rw [e1, e2]
  rcases (Bool.eq_false_or_eq_true x.p.st.empty).symm with a | a
  · by_cases b : x.p.dim = 0
    · have e3 : x.minimize = (true, x) := by simp [FPoly.minimize, a, b]
      rw [e3] at m2 ⊢
      exact constraints_sim _ _ g2 m2 hE (fun _ hd => absurd b hd)
    · obtain ⟨p1, p2⟩ := minimize_post x hl a b
      rcases (Bool.eq_false_or_eq_true x.minimize.1).symm with r | r
      · refine constraints_sim _ _ g2 m2 (fun _ hne => ?_) (fun hf => ?_)
        · rw [(p1 r).2.1] at hne; simp [Sys.clear] at hne
        · rw [(p1 r).2.2] at hf; simp [Status.setEmpty] at hf
      · have q := p2 r
        refine constraints_sim _ _ g2 m2 (fun hf => ?_) (fun _ _ => ⟨fun hp => ?_, fun _ hc => ?_⟩)
        · rw [q.empty] at hf; cases hf
        · rw [q.gPend] at hp; cases hp
        · rw [q.cUp] at hc; cases hc
  · have e3 : x.minimize = (false, x) := by simp [FPoly.minimize, a]
    rw [e3] at m2 ⊢
    exact constraints_sim _ _ g2 m2 hE (fun hf => by rw [a] at hf; cases hf)

/-- `minimized_generators()`, closed topology, legal status word -/
theorem minimizedGenerators_sim (x : FPoly) (s : PState) (g1 g2 : Gh) (h : Sim x s) (hn : x.p.nnc = false)
    (hl : statusLegalB x.p.st x.p.dim = true)
    (hE : x.p.st.empty = true → x.p.gs.sorted = true)
    (hg : MinGhost x g1 s) :
    Sim x.minimizedGenerators
      (PPLV.PolyStatus.runSteps PPLV.PolyStatus.minimizedGeneratorsSteps [g1, g2] s) := by
  obtain ⟨_, m2⟩ := minimize_sim x s g1 h hg
  have e1 : x.minimizedGenerators = x.minimize.2.generators := by simp [FPoly.minimizedGenerators, hn]
  have e2 : PPLV.PolyStatus.runSteps PPLV.PolyStatus.minimizedGeneratorsSteps [g1, g2] s
      = PPLV.PolyStatus.generators g2 (PPLV.PolyStatus.minimize g1 s).2 := by
    have : s.nnc = false := h.nnc.trans hn
    simp [PPLV.PolyStatus.runSteps, PPLV.PolyStatus.minimizedGeneratorsSteps, this]
  rw [e1, e2]
  have hcg := (legal_facts hl).1
  rcases (Bool.eq_false_or_eq_true x.p.st.empty).symm with a | a
  · by_cases b : x.p.dim = 0
    · have e3 : x.minimize = (true, x) := by simp [FPoly.minimize, a, b]
      rw [e3] at m2 ⊢
      exact generators_sim _ _ g2 m2 hE (fun hc => (hcg hc).2.1) (fun _ hd => absurd b hd)
    · obtain ⟨p1, p2⟩ := minimize_post x hl a b
      rcases (Bool.eq_false_or_eq_true x.minimize.1).symm with r | r
      · refine generators_sim _ _ g2 m2 (fun _ => ?_) (fun hc => ?_) (fun hf => ?_)
        · rw [(p1 r).1]; rfl
        · rw [(p1 r).2.2] at hc; simp [Status.setEmpty] at hc
        · rw [(p1 r).2.2] at hf; simp [Status.setEmpty] at hf
      · have q := p2 r
        refine generators_sim _ _ g2 m2 (fun hf => ?_) (fun _ => q.gUp) (fun _ _ => ⟨fun hp => ?_, fun _ hc => ?_⟩)
        · rw [q.empty] at hf; cases hf
        · rw [q.cPend] at hp; cases hp
        · rw [q.gUp] at hc; cases hc
  · have e3 : x.minimize = (false, x) := by simp [FPoly.minimize, a]
    rw [e3] at m2 ⊢
    exact generators_sim _ _ g2 m2 hE (fun hc => (hcg hc).2.1) (fun hf => by rw [a] at hf; cases hf)

end PPLV.PolyFull
