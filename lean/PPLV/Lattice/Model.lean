/-!
# K2 — rational grids by generators (executable model, no Mathlib)

A grid is kept in *generator form*: `empty`, or a point `p`, parameters `q₁…q_k` and lines
`l₁…l_r` (finite lists of rationals; a list denotes the vector padded with zeros), denoting
`{ p + Σ kⱼ qⱼ + Σ cⱼ lⱼ | kⱼ ∈ ℤ, cⱼ ∈ ℚ }`.  Membership is defined inductively over valuations
`Pt = ℕ → ℚ`.  A congruence `⟨a,x⟩ + b ≡ 0 (mod f)` (`f = 0`: equality) is `Cg`.

The one core algorithm is `intersectCon`; everything else (conversion of a congruence system,
the deciders `memB / subsetB / equivB`, the reference operations) is built from it.  Theorems are
in `PPLV/Lattice/Proofs*.lean`, the property statements in `PPLV/Props/C05.lean`.
-/
namespace PPLV.Lattice

abbrev Vec := List Rat
abbrev Pt := Nat → Rat

/-! ### vectors -/

def Vec.toFun (v : Vec) : Pt := fun i => v.getD i 0

def Pt.tail (x : Pt) : Pt := fun i => x (i+1)
/-- `x + c • q` -/
def Pt.axpy (x : Pt) (c : Rat) (q : Pt) : Pt := fun i => x i + c * q i

def vadd : Vec → Vec → Vec
  | [], ys => ys
  | xs, [] => xs
  | x :: xs, y :: ys => (x + y) :: vadd xs ys

def vsmul (c : Rat) (v : Vec) : Vec := v.map (c * ·)
def vsub (u v : Vec) : Vec := vadd u (vsmul (-1) v)
/-- `x + c • q` -/
def vaxpy (x : Vec) (c : Rat) (q : Vec) : Vec := vadd x (vsmul c q)

def dot : Vec → Vec → Rat
  | a :: as, x :: xs => a * x + dot as xs
  | _, _ => 0

/-- `Σ aᵢ xᵢ` on a valuation -/
def dotF : Vec → Pt → Rat
  | [], _ => 0
  | a :: as, x => a * x 0 + dotF as x.tail

def Vec.isZero (v : Vec) : Bool := v.all (· == 0)
def unit (i : Nat) : Vec := List.replicate i 0 ++ [1]
def maxLenL (vs : List Vec) : Nat := vs.foldr (fun v m => max v.length m) 0

/-! ### grids in generator form and congruences -/

structure Gens where
  pt : Vec
  params : List Vec
  lines : List Vec
deriving Repr, Inhabited, DecidableEq

inductive GridGens where
  | empty
  | gens (g : Gens)
deriving Repr, Inhabited, DecidableEq

/-- membership, inductively: the point; closed under integer multiples of parameters and
    rational multiples of lines -/
inductive Gens.Mem (g : Gens) : Pt → Prop
  | pt : Gens.Mem g g.pt.toFun
  | param {x : Pt} {q : Vec} (k : Int) : q ∈ g.params → Gens.Mem g x → Gens.Mem g (x.axpy (k : Rat) q.toFun)
  | line {x : Pt} {l : Vec} (c : Rat) : l ∈ g.lines → Gens.Mem g x → Gens.Mem g (x.axpy c l.toFun)

/-- the point set of a generator-form grid -/
def Gen.sem : GridGens → Pt → Prop
  | .empty => fun _ => False
  | .gens g => g.Mem

/-- congruence `⟨a,x⟩ + b ≡ 0 (mod f)`; `f = 0` is the equality `⟨a,x⟩ + b = 0` -/
structure Cg where
  a : Vec
  b : Rat
  f : Rat
deriving Repr, Inhabited

def Cg.sem (c : Cg) (x : Pt) : Prop := ∃ t : Int, dotF c.a x + c.b = (t : Rat) * c.f

/-- valuations of the `n`-dimensional space: zero outside the first `n` coordinates -/
def Supp (n : Nat) (x : Pt) : Prop := ∀ i, n ≤ i → x i = 0

/-- point set of a congruence system in dimension `n` -/
def CgSys.sem (n : Nat) (cs : List Cg) (x : Pt) : Prop := Supp n x ∧ ∀ c ∈ cs, c.sem x

def GridGens.isEmpty : GridGens → Bool
  | .empty => true
  | .gens _ => false

def Gens.maxLen (g : Gens) : Nat := max g.pt.length (max (maxLenL g.params) (maxLenL g.lines))
def GridGens.maxLen : GridGens → Nat
  | .empty => 0
  | .gens g => g.maxLen

/-! ### extended gcd -/

/-- Bézout coefficients: `(s, t)` with `s*a + t*b` a common divisor of `a` and `b` -/
def xgcd (a b : Int) : Int × Int :=
  if h : b = 0 then (if 0 ≤ a then 1 else -1, 0)
  else
    let r := xgcd b (a % b)
    (r.2, r.1 - (a / b) * r.2)
termination_by b.natAbs
decreasing_by
  have h1 := Int.emod_nonneg a h
  have h2 := Int.emod_lt a h
  omega

/-- `r ∈ f ℤ` -/
def inModZ (r f : Rat) : Bool := if f = 0 then r == 0 else (r / f).den == 1

/-! ### the core: intersection with one congruence -/

/-- projection of a direction along `l0` onto `ker a` (`β = ⟨a,l0⟩ ≠ 0`) -/
def projLin (a : Vec) (l0 : Vec) (β : Rat) (v : Vec) : Vec := vsub v (vsmul (dot a v / β) l0)

def dropZero (vs : List Vec) : List Vec := vs.filter (fun v => !v.isZero)

/-- some line `l0` has `β = ⟨a,l0⟩ ≠ 0`: project everything along `l0` -/
def lineCase (g : Gens) (c : Cg) (l0 : Vec) (β : Rat) : Gens :=
  { pt := vsub g.pt (vsmul ((dot c.a g.pt + c.b) / β) l0),
    params := dropZero (g.params.map (projLin c.a l0 β) ++ (if c.f = 0 then [] else [vsmul (c.f / β) l0])),
    lines := dropZero (g.lines.map (projLin c.a l0 β)) }

/-- coefficients `(s, t, c, d)` of the unimodular step for products `r1 r2 ≠ 0`:
    `u = s q1 + t q2` carries a generator of `ℤr1 + ℤr2`, `v = c q1 + d q2` has product 0 -/
def combineCoef (r1 r2 : Rat) : Int × Int × Int × Int :=
  let R1 : Int := r1.num * r2.den
  let R2 : Int := r2.num * r1.den
  let st := xgcd R1 R2
  let g := st.1 * R1 + st.2 * R2
  (st.1, st.2, -(R2 / g), R1 / g)

/-- unimodular step on two parameters with non-zero products `r1 r2`: returns `(u, v)` with
    `ℤu + ℤv = ℤq1 + ℤq2`, `⟨a,v⟩ = 0` and `⟨a,u⟩` a generator of `ℤr1 + ℤr2` -/
def combine (q1 q2 : Vec) (r1 r2 : Rat) : Vec × Vec :=
  let k := combineCoef r1 r2
  (vadd (vsmul k.1 q1) (vsmul k.2.1 q2), vadd (vsmul k.2.2.1 q1) (vsmul k.2.2.2 q2))

/-- reduce the parameters: at most one (the carrier) keeps a non-zero product with `a` -/
def reduceParams (a : Vec) : List Vec → Option Vec × List Vec
  | [] => (none, [])
  | q :: qs =>
    let r := reduceParams a qs
    if dot a q = 0 then (r.1, q :: r.2)
    else match r.1 with
      | none => (some q, r.2)
      | some q1 =>
        let uv := combine q1 q (dot a q1) (dot a q)
        (some uv.1, uv.2 :: r.2)

/-- solve `r0 + k rs ∈ f ℤ` for `k ∈ ℤ` (`rs ≠ 0`): `some (k0, m)` = a solution and the period
    (`m = 0` when `f = 0`), `none` when there is no solution -/
def solveCg (r0 rs f : Rat) : Option (Int × Int) :=
  -- common integer scaling of r0, rs, f
  let R0 : Int := r0.num * rs.den * f.den
  let R : Int := rs.num * r0.den * f.den
  let F : Int := f.num * r0.den * rs.den
  let st := xgcd R F
  let gg := st.1 * R + st.2 * F
  if R0 % gg != 0 then none else some (-(R0 / gg) * st.1, F / gg)

/-- no line moves `a`: reduce the parameters, then solve for the point shift -/
def paramCase (g : Gens) (c : Cg) : GridGens :=
  let r0 := dot c.a g.pt + c.b
  match reduceParams c.a g.params with
  | (none, ker) => if inModZ r0 c.f then .gens { g with params := ker } else .empty
  | (some qs, ker) =>
    match solveCg r0 (dot c.a qs) c.f with
    | none => .empty
    | some (k0, m) =>
      .gens { pt := vaxpy g.pt k0 qs,
              params := if m = 0 then ker else vsmul m qs :: ker,
              lines := g.lines }

def intersectCon (G : GridGens) (c : Cg) : GridGens :=
  match G with
  | .empty => .empty
  | .gens g =>
    match g.lines.find? (fun l => dot c.a l != 0) with
    | some l0 => .gens (lineCase g c l0 (dot c.a l0))
    | none => paramCase g c

def univ (n : Nat) : GridGens :=
  .gens { pt := [], params := [], lines := (List.range n).map unit }

def intersectCons (G : GridGens) (cs : List Cg) : GridGens := cs.foldl intersectCon G

/-- generator form of the grid described by the congruence system `cs` in dimension `n` -/
def consToGens (n : Nat) (cs : List Cg) : GridGens := intersectCons (univ n) cs

/-! ### deciders on generator form -/

/-- the equalities `xᵢ = vᵢ`, `i < n` -/
def eqCgs (n : Nat) (v : Vec) : List Cg :=
  (List.range n).map fun i => { a := unit i, b := -(v.getD i 0), f := 0 }

/-- `v ∈ G` -/
def memB (G : GridGens) (v : Vec) : Bool :=
  !(intersectCons G (eqCgs (max v.length G.maxLen) v)).isEmpty

/-- `l` is a rational combination of `ls` -/
def inSpanB (ls : List Vec) (l : Vec) : Bool := memB (.gens { pt := [], params := [], lines := ls }) l

def subsetB (G H : GridGens) : Bool :=
  match G with
  | .empty => true
  | .gens g =>
    match H with
    | .empty => false
    | .gens h =>
      memB H g.pt && g.params.all (fun q => memB H (vadd g.pt q)) && g.lines.all (fun l => inSpanB h.lines l)

def equivB (G H : GridGens) : Bool := subsetB G H && subsetB H G

/-- every generator of `G` satisfies `c` in the way that makes `G ⊆ sem c` -/
def satCgB (G : GridGens) (c : Cg) : Bool :=
  match G with
  | .empty => true
  | .gens g =>
    inModZ (dot c.a g.pt + c.b) c.f && g.params.all (fun q => inModZ (dot c.a q) c.f)
      && g.lines.all (fun l => dot c.a l == 0)

end PPLV.Lattice
