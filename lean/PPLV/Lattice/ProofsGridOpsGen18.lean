import PPLV.Lattice.ProofsGridOpsGen17
import PPLV.Lattice.ProofsGridOpsLazy12

/-!
# Generator side of the `Grid` object, part 18 — the answer `TVB_TRUE` of `Grid::quick_equivalence_test` is right
# (`gn_quickTrueSound`); `Grid::contains(y)` unconditionally
-/
namespace PPLV.Lattice.GO
open PPLV.Lattice PPLV.Lattice.Red

/-- `Congruence_System::operator==`: the same solutions -/
theorem gn_csysEq_set {n : Nat} {X Y : List CRow} (hX : CWf n X) (hY : CWf n Y) (h : csysEq X Y = true) :
    consSet n X = consSet n Y := by
  unfold csysEq at h
  simp only [Bool.and_eq_true, beq_iff_eq, List.all_eq_true] at h
  obtain ⟨hlen, hall⟩ := h
  have key : ∀ x ∈ X, ∀ y ∈ Y, (x, y) ∈ X.zip Y → CRow.set x = CRow.set y := by
    intro x hx y hy hz
    have := hall (x, y) hz
    unfold cgEq at this
    simp only [Bool.and_eq_true, beq_iff_eq] at this
    have e : x.strongNormalize = y.strongNormalize := by
      obtain ⟨_, e1, e2⟩ := this
      cases hxs : x.strongNormalize
      cases hys : y.strongNormalize
      rw [hxs, hys] at e1 e2
      simp only at e1 e2
      rw [e1, e2]
    rw [← cn_strongNormalize_set x (hX x hx).2, ← cn_strongNormalize_set y (hY y hy).2, e]
  ext p
  rw [cn_mem_consSet, cn_mem_consSet]
  constructor
  · rintro ⟨hs, hr⟩
    refine ⟨hs, fun y hy => ?_⟩
    obtain ⟨x, hx, hz⟩ := gn_zip_mem_right X Y hlen y hy
    rw [← key x hx y hy hz]; exact hr x hx
  · rintro ⟨hs, hr⟩
    refine ⟨hs, fun x hx => ?_⟩
    obtain ⟨y, hy, hz⟩ := gn_zip_mem_left X Y hlen x hx
    rw [key x hx y hy hz]; exact hr y hy

/-- **`quick_equivalence_test` answers `TVB_TRUE` only for equal grids** -/
theorem gn_quickTrueSound : gn_QuickTrueSound := by
  intro x y hIx hIy hex hey hn hd hq
  have hny : 0 < y.spaceDim := by omega
  unfold quickEquivalenceTest at hq
  simp only [] at hq
  split_ifs at hq with h1 h2 h3 h4 h5 h6 h7 h8
  all_goals first
    | (exfalso; revert hq; decide)
    | skip
  · -- both generator systems minimized, no lines, `operator==`
    have hb : x.generatorsAreMinimized = true ∧ y.generatorsAreMinimized = true := by
      simpa using h5.1
    obtain ⟨_, wx, _, sx⟩ := gn_sem_of_gUp hIx hn hex (hIx.gminUp hb.1)
    obtain ⟨gy, wy, _, sy⟩ := gn_sem_of_gUp hIy hny hey (hIy.gminUp hb.2)
    obtain ⟨gx, _, _⟩ := hIx.gwf hex hn (hIx.gminUp hb.1)
    rw [sx, sy]
    rw [← hd] at wy
    have hnl : ∀ r ∈ x.gen, r.line = false := by
      intro r hr
      have h0 : (x.gen.filter (·.line)).length = 0 := h5.2
      have : x.gen.filter (·.line) = [] := List.length_eq_zero_iff.mp h0
      cases hl : r.line with
      | false => rfl
      | true =>
        have : r ∈ x.gen.filter (·.line) := List.mem_filter.mpr ⟨hr, hl⟩
        simp_all
    refine gn_gsysEq_set wx wy hnl ?_
    have e1 : x.gs = GSys.mk x.spaceDim x.gen := by show GSys.mk x.genDim x.gen = _; rw [gx]
    have e2 : y.gs = GSys.mk x.spaceDim y.gen := by show GSys.mk y.genDim y.gen = _; rw [gy, hd]
    rw [← e1, ← e2]; exact h6
  · -- both congruence systems minimized, no equalities, `operator==`
    have hb : (x.congruencesAreMinimized = true ∧ y.congruencesAreMinimized = true) ∧ x.cs.numEqualities = 0 := by
      simpa using h7
    obtain ⟨_, wx, sx⟩ := gn_sem_of_cUp hIx hn hex (hIx.cminUp hb.1.1)
    obtain ⟨_, wy, sy⟩ := gn_sem_of_cUp hIy hny hey (hIy.cminUp hb.1.2)
    rw [sx, sy, ← hd]
    rw [← hd] at wy
    exact gn_csysEq_set wx wy h8

/-- **`Grid::contains(y)`** for grids of one dimension: invariants and denotations are kept and the answer is `y ⊆ x` -/
theorem gn_contains (x y : Grid) (hIx : GridInv x) (hIy : GridInv y) (hd : x.spaceDim = y.spaceDim) :
    GridInv (contains x y).1 ∧ GridInv (contains x y).2.1 ∧ (contains x y).1.sem = x.sem ∧
    (contains x y).2.1.sem = y.sem ∧ (contains x y).1.spaceDim = x.spaceDim ∧ (contains x y).2.1.spaceDim = y.spaceDim ∧
    ∃ b, (contains x y).2.2 = some b ∧ (b = true ↔ y.sem ⊆ x.sem) :=
  gn_contains_partial updateGenerators_spec updateCongruences_spec isEmpty_spec gn_quickTrueSound x y hIx hIy hd

/-- **`is_included_in`** with the lazy machinery discharged -/
theorem gn_isIncludedIn' (x y : Grid) (hIx : GridInv x) (hIy : GridInv y) (hex : x.st.empty = false)
    (hey : y.st.empty = false) (hn : 0 < x.spaceDim) (hd : x.spaceDim = y.spaceDim) :
    GridInv (isIncludedIn x y).1 ∧ GridInv (isIncludedIn x y).2.1 ∧ (isIncludedIn x y).1.sem = x.sem ∧
    (isIncludedIn x y).2.1.sem = y.sem ∧ (isIncludedIn x y).1.spaceDim = x.spaceDim ∧
    (isIncludedIn x y).2.1.spaceDim = y.spaceDim ∧ ((isIncludedIn x y).2.2 = true ↔ x.sem ⊆ y.sem) :=
  gn_isIncludedIn updateGenerators_spec updateCongruences_spec x y hIx hIy hex hey hn hd

end PPLV.Lattice.GO
