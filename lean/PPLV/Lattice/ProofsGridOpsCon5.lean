import PPLV.Lattice.ProofsGridOpsCon4

/-!
# `Grid` stage 3, congruence-side mutators, part 5: `add_congruence` (= `refine_with_congruence`),
# `add_recycled_congruences`, `add_congruences` (= `refine_with_congruences`)
-/
namespace PPLV.Lattice.GO
open PPLV.Lattice PPLV.Lattice.Red

/-- Grid_inlines.hh `add_congruence(cg)` / `refine_with_congruence(cg)`: throws exactly on a dimension mismatch (object
    unchanged); otherwise the grid is cut by the congruence; a marked-empty receiver is not touched -/
theorem cn_addCongruence (hUC : UpdateCongruencesSpec) (g : Grid) (cg : CRow) (hI : GridInv g) (hm : 0 ≤ cg.m)
    (he : cg.e ≠ []) :
    ((addCongruence g cg).thrown = true ↔ g.spaceDim < cg.spaceDim) ∧
    ((addCongruence g cg).thrown = true → (addCongruence g cg).g = g) ∧
    (g.st.empty = true → (addCongruence g cg).g = g) ∧
    ((addCongruence g cg).thrown = false →
      GridInv (addCongruence g cg).g ∧ (addCongruence g cg).g.sem = g.sem ∩ CRow.set cg ∧
        (addCongruence g cg).g.spaceDim = g.spaceDim) := by
  unfold addCongruence
  by_cases hd : g.spaceDim < cg.spaceDim
  · rw [if_pos hd]
    exact ⟨⟨fun _ => hd, fun _ => rfl⟩, fun _ => rfl, fun _ => rfl, (fun h => by cases h)⟩
  · rw [if_neg hd]
    by_cases hemp : g.st.empty = true
    · have : (!g.markedEmpty) = false := by simp [Grid.markedEmpty, hemp]
      rw [this, if_neg Bool.false_ne_true]
      refine ⟨⟨(fun h => by cases h), fun h => absurd h hd⟩, fun _ => rfl, fun _ => rfl, fun _ => ⟨hI, ?_, rfl⟩⟩
      rw [cn_sem_empty g hemp, Set.empty_inter]
    · have hne : g.st.empty = false := by simpa using hemp
      have : (!g.markedEmpty) = true := by simp [Grid.markedEmpty, hne]
      rw [this, if_pos rfl]
      exact ⟨⟨(fun h => by cases h), fun h => absurd h hd⟩, (fun h => by cases h), fun h => absurd h hemp,
        fun _ => cn_addCongruenceNoCheck hUC g cg hI hne (by omega) hm he⟩

example : (addCongruence cn_exGrid ⟨[1, 3], 6⟩).thrown = false ∧ (addCongruence cn_exGrid ⟨[1, 3, 1], 6⟩).thrown = true := by
  decide

/-! ### systems of dimension 0 -/

theorem cn_rowsSet_dim0 (rows : List CRow) (hw : CWf 0 rows) :
    (rows.any (fun r => !r.isTautological) = true → cn_rowsSet rows = ∅) ∧
    (rows.any (fun r => !r.isTautological) = false → cn_rowsSet rows = Set.univ) := by
  have hrow : ∀ r ∈ rows, r.spaceDim ≤ 0 ∧ r.e ≠ [] := fun r hr => by
    have := (hw r hr).1
    exact ⟨by unfold CRow.spaceDim; omega, fun h => by rw [h] at this; simp at this⟩
  constructor
  · intro h
    obtain ⟨r, hr, hnt⟩ := List.any_eq_true.mp h
    have hf := (cn_isTautological_dim0 r (hrow r hr).1 (hrow r hr).2).2.1.mp (by simpa using hnt)
    ext x
    simp only [cn_rowsSet, Set.mem_ofPred_eq, Set.mem_empty_iff_false, iff_false]
    intro hall
    have := hall r hr
    rw [hf] at this; exact this
  · intro h
    ext x
    simp only [cn_rowsSet, Set.mem_ofPred_eq, Set.mem_univ, iff_true]
    intro r hr
    have hnt : r.isTautological = true := by
      by_contra hc
      have : rows.any (fun r => !r.isTautological) = true := List.any_eq_true.mpr ⟨r, hr, by simpa using hc⟩
      rw [h] at this; cases this
    rw [(cn_isTautological_dim0 r (hrow r hr).1 (hrow r hr).2).1.mp hnt]; trivial

/-! ### `add_recycled_congruences(cgs)` -/

/-- the body of `add_recycled_congruences` in dimension `> 0` on a grid that is not marked empty -/
def cn_recycledBody (g1 : Grid) (cgs : CSys) : Grid :=
  ((g1.withCs (g1.cs.insertSys cgs)).clearCongruencesMinimized).clearGeneratorsUpToDate

theorem cn_addRecycled_body (hUC : UpdateCongruencesSpec) (g : Grid) (cgs : CSys) (hI : GridInv g)
    (hne : g.st.empty = false) (hpos : 0 < g.spaceDim) (hd : cgs.dim ≤ g.spaceDim) (hm : ∀ r ∈ cgs.rows, 0 ≤ r.m) :
    GridInv (cn_recycledBody (if !g.congruencesAreUpToDate then updateCongruences g else g) cgs) ∧
    (cn_recycledBody (if !g.congruencesAreUpToDate then updateCongruences g else g) cgs).sem = g.sem ∩ cn_rowsSet cgs.rows ∧
    (cn_recycledBody (if !g.congruencesAreUpToDate then updateCongruences g else g) cgs).spaceDim = g.spaceDim := by
  obtain ⟨hI1, hs1, hd1, he1, hc1⟩ := cn_ensureCon hUC g hI hne hpos
  generalize (if !g.congruencesAreUpToDate then updateCongruences g else g) = g1 at hI1 hs1 hd1 he1 hc1 ⊢
  have hpos1 : 0 < g1.spaceDim := by omega
  obtain ⟨hcd1, hw1⟩ := hI1.cwf he1 hpos1 hc1
  have hdc : cgs.dim ≤ g1.cs.dim := by show cgs.dim ≤ g1.conDim; omega
  have hw1' : CWf g1.cs.dim g1.cs.rows := by show CWf g1.conDim g1.con; rw [hcd1]; exact hw1
  have hdim := cn_insertSys_dim g1.cs cgs hdc
  have hcons := cn_insertSys_consSet g1.cs cgs hdc
  have hcwf := cn_insertSys_CWf g1.cs cgs hw1' hdc hm
  have hcsd : g1.cs.dim = g1.spaceDim := hcd1
  rw [hcsd] at hcons hcwf hdim
  have := cn_inv_of_conOnly (cn_recycledBody g1 cgs) hpos1 he1 hc1 rfl rfl rfl (hI1.hi0 he1) hdim hcwf
  refine ⟨this.1, ?_, hd1⟩
  rw [this.2]
  show consSet g1.spaceDim (g1.cs.insertSys cgs).rows = _
  rw [hcons, ← hs1, cn_sem_of_cUp g1 hI1 he1 hpos1 hc1]; rfl

/-- Grid_public.cc:1333 `add_recycled_congruences(cgs)`: throws exactly on a dimension mismatch (object unchanged);
    otherwise the grid is cut by every row of `cgs` -/
theorem cn_addRecycledCongruences (hUC : UpdateCongruencesSpec) (g : Grid) (cgs : CSys) (hI : GridInv g)
    (hw : CWf cgs.dim cgs.rows) :
    ((addRecycledCongruences g cgs).thrown = true ↔ g.spaceDim < cgs.dim) ∧
    ((addRecycledCongruences g cgs).thrown = true → (addRecycledCongruences g cgs).g = g) ∧
    (g.st.empty = true → (addRecycledCongruences g cgs).g = g) ∧
    ((addRecycledCongruences g cgs).thrown = false →
      GridInv (addRecycledCongruences g cgs).g ∧
        (addRecycledCongruences g cgs).g.sem = g.sem ∩ cn_rowsSet cgs.rows ∧
        (addRecycledCongruences g cgs).g.spaceDim = g.spaceDim) := by
  unfold addRecycledCongruences
  by_cases hd : g.spaceDim < cgs.dim
  · rw [if_pos hd]
    exact ⟨⟨fun _ => hd, fun _ => rfl⟩, fun _ => rfl, fun _ => rfl, (fun h => by cases h)⟩
  · rw [if_neg hd]
    have hthr : ∀ p : Prop, ((false = true) ↔ g.spaceDim < cgs.dim) ∧ ((false = true) → p) :=
      fun p => ⟨⟨(fun h => by cases h), fun h => absurd h hd⟩, (fun h => by cases h)⟩
    by_cases hnil : cgs.rows.isEmpty = true
    · rw [if_pos hnil]
      refine ⟨(hthr True).1, fun _ => rfl, fun _ => rfl, fun _ => ⟨hI, ?_, rfl⟩⟩
      rw [List.isEmpty_iff.mp hnil, cn_rowsSet_nil, Set.inter_univ]
    · rw [if_neg hnil]
      by_cases hemp : g.st.empty = true
      · have : g.markedEmpty = true := hemp
        rw [if_pos this]
        refine ⟨(hthr True).1, fun _ => rfl, fun _ => rfl, fun _ => ⟨hI, ?_, rfl⟩⟩
        rw [cn_sem_empty g hemp, Set.empty_inter]
      · have hne : g.st.empty = false := by simpa using hemp
        have : ¬ (g.markedEmpty = true) := hemp
        rw [if_neg this]
        by_cases h0 : g.spaceDim = 0
        · rw [if_pos h0]
          have hcd : cgs.dim = 0 := by omega
          rw [hcd] at hw
          obtain ⟨hany, hnone⟩ := cn_rowsSet_dim0 cgs.rows hw
          refine ⟨(hthr True).1, (fun h => by cases h), fun h => absurd h hemp, fun _ => ?_⟩
          by_cases ha : cgs.rows.any (fun r => !r.isTautological) = true
          · rw [if_pos ha]
            exact ⟨cn_setEmpty_inv g, by rw [cn_setEmpty_sem, hany ha, Set.inter_empty], rfl⟩
          · rw [if_neg ha]
            exact ⟨hI, by rw [hnone (by simpa using ha), Set.inter_univ], rfl⟩
        · rw [if_neg h0]
          exact ⟨(hthr True).1, (fun h => by cases h), fun h => absurd h hemp,
            fun _ => cn_addRecycled_body hUC g cgs hI hne (by omega) (by omega) (fun r hr => (hw r hr).2)⟩

/-- Grid_inlines.hh `add_congruences(cgs)` / `refine_with_congruences(cgs)` -/
theorem cn_addCongruences (hUC : UpdateCongruencesSpec) (g : Grid) (cgs : CSys) (hI : GridInv g)
    (hw : CWf cgs.dim cgs.rows) :
    ((addCongruences g cgs).thrown = true ↔ g.spaceDim < cgs.dim) ∧
    ((addCongruences g cgs).thrown = true → (addCongruences g cgs).g = g) ∧
    (g.st.empty = true → (addCongruences g cgs).g = g) ∧
    ((addCongruences g cgs).thrown = false →
      GridInv (addCongruences g cgs).g ∧ (addCongruences g cgs).g.sem = g.sem ∩ cn_rowsSet cgs.rows ∧
        (addCongruences g cgs).g.spaceDim = g.spaceDim) := by
  unfold addCongruences
  by_cases hd : g.spaceDim < cgs.dim
  · rw [if_pos hd]
    exact ⟨⟨fun _ => hd, fun _ => rfl⟩, fun _ => rfl, fun _ => rfl, (fun h => by cases h)⟩
  · rw [if_neg hd]
    by_cases hemp : g.st.empty = true
    · have : (!g.markedEmpty) = false := by simp [Grid.markedEmpty, hemp]
      rw [this, if_neg Bool.false_ne_true]
      refine ⟨⟨(fun h => by cases h), fun h => absurd h hd⟩, fun _ => rfl, fun _ => rfl, fun _ => ⟨hI, ?_, rfl⟩⟩
      rw [cn_sem_empty g hemp, Set.empty_inter]
    · have hne : g.st.empty = false := by simpa using hemp
      have : (!g.markedEmpty) = true := by simp [Grid.markedEmpty, hne]
      rw [this, if_pos rfl]
      exact cn_addRecycledCongruences hUC g cgs hI hw

example : CWf 1 [{ e := [1, 3], m := 6 }, { e := [0, 1], m := 0 }] ∧
    (addCongruences cn_exGrid ⟨1, [{ e := [1, 3], m := 6 }, { e := [0, 1], m := 0 }]⟩).g.con =
      [{ e := [0, 1], m := 2 }, { e := [1, 3], m := 6 }, { e := [0, 1], m := 0 }] :=
  ⟨by unfold CWf; decide, by decide⟩

end PPLV.Lattice.GO
