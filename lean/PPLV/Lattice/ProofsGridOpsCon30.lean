import PPLV.Lattice.ProofsGridOpsCon29
import PPLV.Lattice.ProofsGridOpsCon2

/-!
# `Grid` stage 3, part 30: `map_space_dimensions(pfunc)`, the permutation case on a grid described by its generators only
# (`permuteRow` on every generator row, lines sign-normalised again): the image under `cn_pfMap`
-/
namespace PPLV.Lattice.GO
open PPLV.Lattice PPLV.Lattice.Red

/-- `cn_gn_set_image` where the image of a line may be any non-zero multiple of the mapped vector -/
theorem cn_gn_set_image' (rows : List GRow) (f : GRow → GRow) (π : Pt →ₗ[ℚ] Pt)
    (hpt : ∀ r ∈ rows, gn_isPt (f r) = gn_isPt r) (hpar : ∀ r ∈ rows, gn_isPar (f r) = gn_isPar r)
    (hline : ∀ r ∈ rows, (f r).line = r.line)
    (hv : ∀ r ∈ rows, r.line = false → gn_vecOf (f r) = π (gn_vecOf r))
    (hvl : ∀ r ∈ rows, r.line = true → ∃ s : ℚ, s ≠ 0 ∧ gn_vecOf (f r) = s • π (gn_vecOf r)) :
    gn_set (rows.map f) = π '' gn_set rows := by
  have hvp : ∀ r ∈ rows, gn_isPt r = true → gn_vecOf (f r) = π (gn_vecOf r) :=
    fun r hr p => hv r hr ((gn_isPt_iff r).mp p).1
  have fwd : ∀ w, gn_Dir (rows.map f) w → ∃ v, gn_Dir rows v ∧ w = π v := by
    intro w hw
    refine gn_dir_le (S := fun w => ∃ v, gn_Dir rows v ∧ w = π v) ⟨0, gn_dir_zero _, by simp⟩ ?_ ?_ ?_ ?_ ?_ hw
    · rintro _ _ ⟨v1, h1, rfl⟩ ⟨v2, h2, rfl⟩; exact ⟨v1 + v2, gn_dir_add h1 h2, by simp⟩
    · rintro k _ ⟨v, h, rfl⟩; exact ⟨(k : ℚ) • v, gn_dir_zsmul k h, by simp⟩
    · intro r1' h1 p1 r2' h2 p2
      obtain ⟨r1, m1, rfl⟩ := List.mem_map.mp h1
      obtain ⟨r2, m2, rfl⟩ := List.mem_map.mp h2
      rw [hpt r1 m1] at p1; rw [hpt r2 m2] at p2
      exact ⟨_, gn_dir_ptdiff m1 p1 m2 p2, by rw [hvp r1 m1 p1, hvp r2 m2 p2]; simp⟩
    · intro r' h p
      obtain ⟨r, m, rfl⟩ := List.mem_map.mp h
      rw [hpar r m] at p
      exact ⟨_, gn_dir_par m p, hv r m ((gn_isPar_iff r).mp p).1⟩
    · intro r' h p c
      obtain ⟨r, m, rfl⟩ := List.mem_map.mp h
      rw [hline r m] at p
      obtain ⟨s, _, hs⟩ := hvl r m p
      exact ⟨_, gn_dir_line m p (c * s), by rw [hs, map_smul, smul_smul]⟩
  have bwd : ∀ v, gn_Dir rows v → gn_Dir (rows.map f) (π v) := by
    intro v hv'
    refine gn_dir_le (S := fun v => gn_Dir (rows.map f) (π v)) (by simpa using gn_dir_zero _) ?_ ?_ ?_ ?_ ?_ hv'
    · intro v w h1 h2; simpa using gn_dir_add h1 h2
    · intro k v h; simpa using gn_dir_zsmul k h
    · intro r1 m1 p1 r2 m2 p2
      have := gn_dir_ptdiff (List.mem_map_of_mem m1) (by rw [hpt r1 m1]; exact p1) (List.mem_map_of_mem m2)
        (by rw [hpt r2 m2]; exact p2) (rows := rows.map f) (r1 := f r1) (r2 := f r2)
      rw [hvp r1 m1 p1, hvp r2 m2 p2] at this; simpa using this
    · intro r m p
      have := gn_dir_par (List.mem_map_of_mem m) (by rw [hpar r m]; exact p) (rows := rows.map f) (r := f r)
      rwa [hv r m ((gn_isPar_iff r).mp p).1] at this
    · intro r m p c
      obtain ⟨s, hs0, hs⟩ := hvl r m p
      have := gn_dir_line (List.mem_map_of_mem m) (by rw [hline r m]; exact p) (c / s) (rows := rows.map f) (r := f r)
      rw [hs, smul_smul, div_mul_cancel₀ c hs0] at this
      simpa using this
  ext y
  simp only [gn_set, Set.mem_image, Set.mem_ofPred_eq]
  constructor
  · rintro ⟨r', h, p, d⟩
    obtain ⟨r, m, rfl⟩ := List.mem_map.mp h
    rw [hpt r m] at p
    obtain ⟨v, dv, e⟩ := fwd _ d
    refine ⟨gn_vecOf r + v, gn_mem_add_dir (gn_mem_pt m p) dv, ?_⟩
    rw [map_add, ← hvp r m p, ← e]; module
  · rintro ⟨x, ⟨r, m, p, d⟩, rfl⟩
    refine ⟨f r, List.mem_map_of_mem m, by rw [hpt r m]; exact p, ?_⟩
    have := bwd _ d
    rwa [map_sub, ← hvp r m p] at this

/-! ### `permuteRow` -/

theorem cn_permuteRow_length (pf : PFunc) (n : Nat) (e : Row) : (permuteRow pf n e).length = e.length := by
  simp [permuteRow, tab]

theorem cn_permuteRow_get0 (pf : PFunc) (n : Nat) (e : Row) : Red.get (permuteRow pf n e) 0 = Red.get e 0 := by
  unfold permuteRow
  rw [get_tab]
  split
  · rw [if_neg (by omega)]
  · rename_i h; exact (get_of_length_le e 0 (by omega)).symm

theorem cn_permuteRow_getLast (pf : PFunc) (n : Nat) (e : Row) (hl : e.length = n + 2) :
    Red.get (permuteRow pf n e) (n + 1) = Red.get e (n + 1) := by
  unfold permuteRow
  rw [get_tab, if_pos (by omega), if_neg (by omega)]

theorem cn_permuteRow_getMid (pf : PFunc) (n : Nat) (e : Row) (hl : e.length = n + 2) (k : Nat) (hk : k < n) :
    Red.get (permuteRow pf n e) (k + 1) =
      match (List.range n).find? (fun j => pf.maps j = some k) with | some j => Red.get e (j + 1) | none => 0 := by
  unfold permuteRow
  rw [get_tab, if_pos (by omega), if_pos (by omega)]
  rfl

/-- the generator row as the permutation case rewrites it -/
def cn_permGRow (pf : PFunc) (n : Nat) (r : GRow) : GRow :=
  { r with e := if r.line then signNormalizeRow (permuteRow pf n r.e) else permuteRow pf n r.e }

theorem cn_signNormalizeRow_cases (e : Row) : signNormalizeRow e = e ∨ signNormalizeRow e = e.map (fun x => -x) := by
  unfold signNormalizeRow
  split
  · split
    · exact Or.inr rfl
    · exact Or.inl rfl
  · exact Or.inl rfl

theorem cn_find_lt (pf : PFunc) (n k j : Nat) (h : (List.range n).find? (fun j => pf.maps j = some k) = some j) :
    j < n ∧ pf.maps j = some k :=
  ⟨List.mem_range.mp (List.mem_of_find?_eq_some h), by simpa using List.find?_some h⟩

/-- the system after the permutation of the coordinates -/
theorem cn_perm_rows (pf : PFunc) (n : Nat) (D : Int) (rows : List GRow) (hw : GWf n rows) (hN : GNorm n D rows)
    (hrange : ∀ j, j < n → ∀ k, pf.maps j = some k → k < n) :
    GWf n (rows.map (cn_permGRow pf n)) ∧ GNorm n D (rows.map (cn_permGRow pf n)) ∧
    gn_set (rows.map (cn_permGRow pf n)) = cn_pfMap pf n '' gn_set rows := by
  have hnl : ∀ r, r.line = false → (cn_permGRow pf n r).e = permuteRow pf n r.e := fun r hl => by
    unfold cn_permGRow; simp [hl]
  have hline : ∀ r, (cn_permGRow pf n r).line = r.line := fun r => rfl
  have hlen : ∀ r ∈ rows, (cn_permGRow pf n r).e.length = n + 2 := by
    intro r hr
    unfold cn_permGRow
    simp only
    split
    · rw [cn_signNormalizeRow_length, cn_permuteRow_length]; exact hw r hr
    · rw [cn_permuteRow_length]; exact hw r hr
  -- a line keeps a zero inhomogeneous term; its entries are kept up to one common sign
  have hlin : ∀ r ∈ rows, r.line = true → ∃ s : Int, (s = 1 ∨ s = -1) ∧
      ∀ i, Red.get (cn_permGRow pf n r).e i = s * Red.get (permuteRow pf n r.e) i := by
    intro r hr hl
    unfold cn_permGRow
    simp only [hl, if_true]
    rcases cn_signNormalizeRow_cases (permuteRow pf n r.e) with h | h
    · exact ⟨1, Or.inl rfl, fun i => by rw [h]; ring⟩
    · exact ⟨-1, Or.inr rfl, fun i => by rw [h, cn_get_map _ _ (by simp)]; ring⟩
  have h0 : ∀ r ∈ rows, (Red.get (cn_permGRow pf n r).e 0 = 0 ↔ Red.get r.e 0 = 0) ∧
      (r.line = false → Red.get (cn_permGRow pf n r).e 0 = Red.get r.e 0) := by
    intro r hr
    cases hl : r.line
    · rw [hnl r hl, cn_permuteRow_get0]; exact ⟨Iff.rfl, fun _ => rfl⟩
    · obtain ⟨s, hs, hg⟩ := hlin r hr hl
      rw [hg 0, cn_permuteRow_get0, hN.lin r hr hl]
      exact ⟨by simp, fun h => by cases h⟩
  have hpt : ∀ r ∈ rows, gn_isPt (cn_permGRow pf n r) = gn_isPt r := by
    intro r hr
    by_cases hz : Red.get r.e 0 = 0
    · simp [gn_isPt, hline, hz, (h0 r hr).1.mpr hz]
    · have hz' : Red.get (cn_permGRow pf n r).e 0 ≠ 0 := fun q => hz ((h0 r hr).1.mp q)
      have a1 : (Red.get r.e 0 != 0) = true := bne_iff_ne.mpr hz
      have a2 : (Red.get (cn_permGRow pf n r).e 0 != 0) = true := bne_iff_ne.mpr hz'
      simp only [gn_isPt, hline, a1, a2]
  have hpar : ∀ r ∈ rows, gn_isPar (cn_permGRow pf n r) = gn_isPar r := by
    intro r hr
    by_cases hz : Red.get r.e 0 = 0
    · simp [gn_isPar, hline, hz, (h0 r hr).1.mpr hz]
    · have hz' : Red.get (cn_permGRow pf n r).e 0 ≠ 0 := fun q => hz ((h0 r hr).1.mp q)
      have a1 : (Red.get r.e 0 == 0) = false := beq_eq_false_iff_ne.mpr hz
      have a2 : (Red.get (cn_permGRow pf n r).e 0 == 0) = false := beq_eq_false_iff_ne.mpr hz'
      simp only [gn_isPar, hline, a1, a2]
  -- the vector of a permuted row
  have hvraw : ∀ r ∈ rows, ∀ (e' : Row) (d : ℚ), e'.length = n + 2 →
      (∀ k, k < n → (Red.get e' (k + 1) : ℚ) = (match (List.range n).find? (fun j => pf.maps j = some k) with
        | some j => (Red.get r.e (j + 1) : ℚ) | none => 0)) →
      (fun k => if k < n then (Red.get e' (k + 1) : ℚ) / d else 0) =
        cn_pfMap pf n (fun j => if j < n then (Red.get r.e (j + 1) : ℚ) / d else 0) := by
    intro r _ e' d _ he'
    funext k
    rw [cn_pfMap_apply]
    by_cases hk : k < n
    · rw [if_pos hk, he' k hk]
      cases hf : (List.range n).find? (fun j => pf.maps j = some k) with
      | none => simp
      | some j => simp only; rw [if_pos (cn_find_lt pf n k j hf).1]
    · rw [if_neg hk]
      cases hf : (List.range n).find? (fun j => pf.maps j = some k) with
      | none => rfl
      | some j =>
        have := cn_find_lt pf n k j hf
        exact absurd (hrange j this.1 k this.2) hk
  have hgw : GWf n (rows.map (cn_permGRow pf n)) := by
    intro r' hr'
    obtain ⟨r, hr, rfl⟩ := List.mem_map.mp hr'
    exact hlen r hr
  refine ⟨hgw, ⟨hN.pos, ?_, ?_, ?_, ?_⟩, ?_⟩
  · obtain ⟨r, hr, hl, h⟩ := hN.pt
    exact ⟨_, List.mem_map_of_mem hr, hl, by rw [(h0 r hr).2 hl]; exact h⟩
  · intro r' hr' hl
    obtain ⟨r, hr, rfl⟩ := List.mem_map.mp hr'
    rw [(h0 r hr).2 hl]; exact hN.col0 r hr hl
  · intro r' hr' hl hz
    obtain ⟨r, hr, rfl⟩ := List.mem_map.mp hr'
    have hl' : r.line = false := hl
    rw [(h0 r hr).2 hl'] at hz
    rw [hnl r hl', cn_permuteRow_getLast pf n r.e (hw r hr)]; exact hN.par r hr hl' hz
  · intro r' hr' hl
    obtain ⟨r, hr, rfl⟩ := List.mem_map.mp hr'
    exact (h0 r hr).1.mpr (hN.lin r hr hl)
  · refine cn_gn_set_image' rows (cn_permGRow pf n) (cn_pfMap pf n) hpt hpar (fun r _ => hline r) ?_ ?_
    · intro r hr hl
      have hdiv : (cn_permGRow pf n r).divisor = r.divisor := by
        by_cases hz : Red.get r.e 0 = 0
        · rw [divisor_param n _ (hlen r hr) ((h0 r hr).1.mpr hz), divisor_param n r (hw r hr) hz, hnl r hl,
            cn_permuteRow_getLast pf n r.e (hw r hr)]
        · rw [divisor_point _ (fun q => hz ((h0 r hr).1.mp q)), divisor_point r hz, (h0 r hr).2 hl]
      unfold gn_vecOf
      rw [gn_spaceDim_of_len (hlen r hr), gn_spaceDim_of_len (hw r hr), hline r, hl, hdiv]
      simp only [Bool.false_eq_true, if_false]
      refine hvraw r hr _ _ (hlen r hr) (fun k hk => ?_)
      rw [hnl r hl, cn_permuteRow_getMid pf n r.e (hw r hr) k hk]
      cases (List.range n).find? (fun j => pf.maps j = some k) <;> simp
    · intro r hr hl
      obtain ⟨s, hs, hg⟩ := hlin r hr hl
      refine ⟨(s : ℚ), by rcases hs with h | h <;> rw [h] <;> simp, ?_⟩
      have hraw := hvraw r hr (permuteRow pf n r.e) 1 (by rw [cn_permuteRow_length]; exact hw r hr) (fun k hk => by
        rw [cn_permuteRow_getMid pf n r.e (hw r hr) k hk]
        cases (List.range n).find? (fun j => pf.maps j = some k) <;> simp)
      unfold gn_vecOf
      rw [gn_spaceDim_of_len (hlen r hr), gn_spaceDim_of_len (hw r hr), hline r, hl]
      simp only [if_true]
      rw [← hraw]
      funext k
      simp only [Pi.smul_apply, smul_eq_mul]
      by_cases hk : k < n
      · rw [if_pos hk, if_pos hk, hg (k + 1)]; push_cast; ring
      · rw [if_neg hk, if_neg hk, mul_zero]

end PPLV.Lattice.GO
