import PPLV.Lattice.ProofsGridOpsLazy24
import PPLV.Lattice.ProofsGridOpsGen38

/-!
# The affine transformers — part 25: the (lhs, rhs) forms with `relsym = EQUAL` when no variable of `lhs` occurs in `rhs`
# (Grid_public.cc:2398, :2552): the lines of the variables of `lhs` (`new_lines`) and the congruence `lhs ≡ rhs`
-/
namespace PPLV.Lattice.GO
open PPLV.Lattice PPLV.Lattice.Red

/-! ### `new_lines`: the system of the lines of the variables of `lhs` -/

theorem lz_insert_line (s : GSys) (v : Nat) :
    s.insert (gridLineVar v) =
      if s.dim < v + 1 then ⟨v + 1, s.rows.map (·.setSpaceDim (v + 1)) ++ [gridLineVar v]⟩
      else ⟨s.dim, s.rows ++ [(gridLineVar v).setSpaceDim s.dim]⟩ := by
  have h1 : (gridLineVar v).isParameter = false := by simp [GRow.isParameter, gridLineVar]
  have h2 : (gridLineVar v).spaceDim = v + 1 := gn_spaceDim_of_len (gn_gridLineVar_len v)
  unfold GSys.insert GSys.sysInsert
  rw [h1, h2]
  simp only [Bool.false_and, Bool.false_eq_true, if_false]
  split <;> rfl

theorem lz_gridLineVar_rowN (v : Nat) : gn_RowN (v + 1) (gridLineVar v) :=
  ⟨gn_gridLineVar_len v, (fun h => by cases h), (fun _ => by rw [gn_gridLineVar_get]; simp)⟩

/-- the invariant of the fold that builds `new_lines` -/
structure lz_LinesOK (n : Nat) (s : GSys) (ws : List Nat) : Prop where
  dim : s.dim ≤ n
  rows : ∀ r ∈ s.rows, gn_RowN s.dim r ∧ r.line = true
  vec : ∀ r ∈ s.rows, ∃ w ∈ ws, gn_vecOf r = (unit w).toFun
  all : ∀ w ∈ ws, ∃ r ∈ s.rows, gn_vecOf r = (unit w).toFun

theorem lz_LinesOK_step {n : Nat} {s : GSys} {ws : List Nat} (h : lz_LinesOK n s ws) (v : Nat) (hv : v + 1 ≤ n) :
    lz_LinesOK n (s.insert (gridLineVar v)) (ws ++ [v]) := by
  rw [lz_insert_line]
  by_cases hlt : s.dim < v + 1
  · rw [if_pos hlt]
    have hres : ∀ r ∈ s.rows, _ := fun r hr => gn_resize_row (h.rows r hr).1 (show s.dim ≤ v + 1 by omega)
    refine ⟨hv, fun r' hr' => ?_, fun r' hr' => ?_, fun w hw => ?_⟩
    · rcases List.mem_append.mp hr' with hm | hm
      · obtain ⟨r, hr, rfl⟩ := List.mem_map.mp hm
        exact ⟨(hres r hr).2, by rw [(hres r hr).1.1]; exact (h.rows r hr).2⟩
      · rw [List.mem_singleton.mp hm]; exact ⟨lz_gridLineVar_rowN v, rfl⟩
    · rcases List.mem_append.mp hr' with hm | hm
      · obtain ⟨r, hr, rfl⟩ := List.mem_map.mp hm
        obtain ⟨w, hw, e⟩ := h.vec r hr
        exact ⟨w, List.mem_append_left _ hw, by rw [(hres r hr).1.2.2.2, e]⟩
      · rw [List.mem_singleton.mp hm]
        exact ⟨v, by simp, gn_gridLineVar_vecOf v⟩
    · rcases List.mem_append.mp hw with hm | hm
      · obtain ⟨r, hr, e⟩ := h.all w hm
        exact ⟨_, List.mem_append_left _ (List.mem_map_of_mem hr), by rw [(hres r hr).1.2.2.2, e]⟩
      · rw [List.mem_singleton.mp hm]
        exact ⟨gridLineVar v, by simp, gn_gridLineVar_vecOf v⟩
  · rw [if_neg hlt]
    have hres := gn_resize_row (lz_gridLineVar_rowN v) (show v + 1 ≤ s.dim by omega)
    refine ⟨h.dim, fun r' hr' => ?_, fun r' hr' => ?_, fun w hw => ?_⟩
    · rcases List.mem_append.mp hr' with hm | hm
      · exact h.rows r' hm
      · rw [List.mem_singleton.mp hm]; exact ⟨hres.2, by rw [hres.1.1]; rfl⟩
    · rcases List.mem_append.mp hr' with hm | hm
      · obtain ⟨w, hw, e⟩ := h.vec r' hm
        exact ⟨w, List.mem_append_left _ hw, e⟩
      · rw [List.mem_singleton.mp hm]
        exact ⟨v, by simp, by rw [hres.1.2.2.2, gn_gridLineVar_vecOf]⟩
    · rcases List.mem_append.mp hw with hm | hm
      · obtain ⟨r, hr, e⟩ := h.all w hm
        exact ⟨r, List.mem_append_left _ hr, e⟩
      · rw [List.mem_singleton.mp hm]
        exact ⟨(gridLineVar v).setSpaceDim s.dim, by simp, by rw [hres.1.2.2.2, gn_gridLineVar_vecOf]⟩

theorem lz_LinesOK_fold {n : Nat} : ∀ (vs : List Nat) (s : GSys) (ws : List Nat), lz_LinesOK n s ws →
    (∀ v ∈ vs, v + 1 ≤ n) → lz_LinesOK n (vs.foldl (fun s v => s.insert (gridLineVar v)) s) (ws ++ vs)
  | [], s, ws, h, _ => by simpa using h
  | v :: vs, s, ws, h, hv => by
    rw [List.foldl_cons]
    have := lz_LinesOK_fold vs _ _ (lz_LinesOK_step h v (hv v (by simp))) (fun w hw => hv w (by simp [hw]))
    rwa [List.append_assoc] at this

/-- **`new_lines(lhs)`**: rows of one size, all lines, one for each variable of `lhs` and no other -/
theorem lz_newLines_spec (lhs : LinExpr) (n : Nat) (hl : lhs.spaceDim ≤ n) : lz_LinesOK n (newLines lhs) (varsOf lhs) := by
  have h0 : lz_LinesOK n ⟨0, []⟩ [] :=
    ⟨Nat.zero_le n, (fun r hr => by cases hr), (fun r hr => by cases hr), (fun w hw => by cases hw)⟩
  have := lz_LinesOK_fold (varsOf lhs) ⟨0, []⟩ [] h0 (fun v hv => by have := lz_mem_varsOf hv; omega)
  simpa [newLines] using this

theorem lz_newLines_gsOK (lhs : LinExpr) (n : Nat) (hl : lhs.spaceDim ≤ n) : gn_GsOK (newLines lhs) :=
  fun r hr => ((lz_newLines_spec lhs n hl).rows r hr).1

/-- adding the rows of `new_lines(lhs)` to a non-empty grid: the least closed set that contains it and absorbs the lines
    of the variables of `lhs` -/
def lz_AddVarLines (S X : Set Pt) (lhs : LinExpr) : Prop := gn_IsAddGens S X (newLines lhs).rows

/-! ### the branch "no variable of `lhs` occurs in `rhs`" -/

theorem lz_addLinesStep (g : Grid) (lhs : LinExpr) (hI : GridInv g) (hl : lhs.spaceDim ≤ g.spaceDim)
    (hvs : varsOf lhs ≠ []) (hne : (g.sem).Nonempty) :
    (addRecycledGridGenerators g (newLines lhs)).thrown = false ∧
    GridInv (addRecycledGridGenerators g (newLines lhs)).g ∧
    (addRecycledGridGenerators g (newLines lhs)).g.spaceDim = g.spaceDim ∧
    lz_AddVarLines (addRecycledGridGenerators g (newLines lhs)).g.sem g.sem lhs ∧
    (addRecycledGridGenerators g (newLines lhs)).g.st.empty = false := by
  have hsp := lz_newLines_spec lhs g.spaceDim hl
  obtain ⟨v, hv⟩ := List.exists_mem_of_ne_nil _ hvs
  have hpos : 0 < g.spaceDim := by have := lz_mem_varsOf hv; omega
  have hrows : (newLines lhs).rows ≠ [] := by
    obtain ⟨r, hr, _⟩ := hsp.all v hv
    exact List.ne_nil_of_mem hr
  obtain ⟨a, b, c, _, e⟩ := gn_addRecycledGridGenerators g hI (newLines lhs) (lz_newLines_gsOK lhs _ hl) hsp.dim hpos hrows
  have hnt : (addRecycledGridGenerators g (newLines lhs)).thrown = false := by
    cases ht : (addRecycledGridGenerators g (newLines lhs)).thrown
    · rfl
    · have := (c.mp ht).1; rw [this] at hne; exact absurd hne Set.not_nonempty_empty
  have hS := (e hnt).2 hne
  refine ⟨hnt, a, b, hS, ?_⟩
  cases hem : (addRecycledGridGenerators g (newLines lhs)).g.st.empty
  · rfl
  · have h1 := lz_sem_of_empty hem
    obtain ⟨x, hx⟩ := hne
    have := hS.2.1 hx
    rw [h1] at this; exact absurd this (Set.notMem_empty x)

/-- **image, `relsym = EQUAL`, no common variable** (Grid_public.cc:2398): the lines of the variables of `lhs` are added,
    then the congruence `lhs ≡ rhs (mod |modulus|)` -/
theorem generalizedAffineImageLR_nocommon (g : Grid) (lhs rhs : LinExpr) (modulus : Int) (hI : GridInv g)
    (hne : g.st.empty = false) (h1 : lhs.spaceDim ≤ g.spaceDim) (h2 : rhs.spaceDim ≤ g.spaceDim)
    (h0 : lastNonzero lhs ≠ 0) (hvs : varsOf lhs ≠ [])
    (hnc : haveCommonVariable lhs rhs (min (lastNonzero lhs) rhs.spaceDim) = false) :
    (generalizedAffineImageLR g lhs EQUAL rhs modulus).thrown = false ∧
    GridInv (generalizedAffineImageLR g lhs EQUAL rhs modulus).g ∧
    (generalizedAffineImageLR g lhs EQUAL rhs modulus).g.spaceDim = g.spaceDim ∧
    (g.sem = ∅ → (generalizedAffineImageLR g lhs EQUAL rhs modulus).g.sem = ∅) ∧
    ((g.sem).Nonempty → ∃ S, lz_AddVarLines S g.sem lhs ∧
      (generalizedAffineImageLR g lhs EQUAL rhs modulus).g.sem = S ∩ CRow.set (cgCreate lhs rhs (absI modulus))) := by
  have hl : lhs ≠ [] := by
    intro h; rw [h] at hvs; exact hvs rfl
  have hunf : generalizedAffineImageLR g lhs EQUAL rhs modulus =
      if (isEmpty g).2 = true then { g := (isEmpty g).1 }
      else if (addRecycledGridGenerators (isEmpty g).1 (newLines lhs)).thrown = true then
        addRecycledGridGenerators (isEmpty g).1 (newLines lhs)
      else { g := addCongruenceNoCheck (addRecycledGridGenerators (isEmpty g).1 (newLines lhs)).g
                    (cgCreate lhs rhs (absI modulus)) } := by
    unfold generalizedAffineImageLR
    rw [if_neg (show ¬ (g.spaceDim < lhs.spaceDim ∨ g.spaceDim < rhs.spaceDim) by omega),
      if_neg (show ¬ (EQUAL = NOT_EQUAL) by decide), if_neg (show ¬ (EQUAL ≠ EQUAL ∧ modulus ≠ 0) from fun h => h.1 rfl),
      if_neg (show ¬ (g.markedEmpty = true) by simpa [Grid.markedEmpty] using hne),
      if_neg (show ¬ (EQUAL ≠ EQUAL) by simp)]
    simp only [h0, if_false, hnc, Bool.false_eq_true]
  rw [hunf]
  obtain ⟨i1, i2, i3, i4, i5, i6⟩ := isEmpty_spec g hI
  by_cases hb : (isEmpty g).2 = true
  · rw [if_pos hb]
    have hemp := i4.mp hb
    refine ⟨rfl, i1, i3, fun _ => by rw [i2, hemp], fun h => ?_⟩
    rw [hemp] at h; exact absurd h Set.not_nonempty_empty
  · rw [if_neg hb]
    have hnemp : (g.sem).Nonempty := Set.nonempty_iff_ne_empty.mpr (fun h => hb (i4.mpr h))
    obtain ⟨a, b, c, d, e⟩ := lz_addLinesStep (isEmpty g).1 lhs i1 (by rw [i3]; exact h1) hvs (by rw [i2]; exact hnemp)
    rw [if_neg (by rw [a]; simp)]
    obtain ⟨p1, p2, p3⟩ := lz_cgCreate_facts lhs rhs (absI modulus)
      (addRecycledGridGenerators (isEmpty g).1 (newLines lhs)).g.spaceDim (by rw [c, i3]; exact h1) (by rw [c, i3]; exact h2) hl
    obtain ⟨c1, c2, c3⟩ := cn_addCongruenceNoCheck updateCongruences_spec _ _ b e p1 p2 p3
    refine ⟨rfl, c1, c3.trans (c.trans i3), fun h => ?_, fun _ => ⟨_, ?_, c2⟩⟩
    · rw [h] at hnemp; exact absurd hnemp Set.not_nonempty_empty
    · rw [i2] at d; exact d

/-- **preimage, `relsym = EQUAL`, no common variable** (Grid_public.cc:2552): the congruence `lhs ≡ rhs (mod |modulus|)` is
    added, then the lines of the variables of `lhs` -/
theorem generalizedAffinePreimageLR_nocommon (g : Grid) (lhs rhs : LinExpr) (modulus : Int) (hI : GridInv g)
    (hne : g.st.empty = false) (h1 : lhs.spaceDim ≤ g.spaceDim) (h2 : rhs.spaceDim ≤ g.spaceDim)
    (h0 : lastNonzero lhs ≠ 0) (hvs : varsOf lhs ≠ [])
    (hnc : haveCommonVariable lhs rhs (min (lastNonzero lhs) rhs.spaceDim) = false) :
    (generalizedAffinePreimageLR g lhs EQUAL rhs modulus).thrown = false ∧
    GridInv (generalizedAffinePreimageLR g lhs EQUAL rhs modulus).g ∧
    (generalizedAffinePreimageLR g lhs EQUAL rhs modulus).g.spaceDim = g.spaceDim ∧
    (g.sem ∩ CRow.set (cgCreate lhs rhs (absI modulus)) = ∅ →
      (generalizedAffinePreimageLR g lhs EQUAL rhs modulus).g.sem = ∅) ∧
    ((g.sem ∩ CRow.set (cgCreate lhs rhs (absI modulus))).Nonempty →
      lz_AddVarLines (generalizedAffinePreimageLR g lhs EQUAL rhs modulus).g.sem
        (g.sem ∩ CRow.set (cgCreate lhs rhs (absI modulus))) lhs) := by
  have hl : lhs ≠ [] := by
    intro h; rw [h] at hvs; exact hvs rfl
  have hunf : generalizedAffinePreimageLR g lhs EQUAL rhs modulus =
      if (isEmpty (addCongruenceNoCheck g (cgCreate lhs rhs (absI modulus)))).2 = true then
        { g := (isEmpty (addCongruenceNoCheck g (cgCreate lhs rhs (absI modulus)))).1 }
      else addRecycledGridGenerators (isEmpty (addCongruenceNoCheck g (cgCreate lhs rhs (absI modulus)))).1 (newLines lhs) := by
    unfold generalizedAffinePreimageLR
    rw [if_neg (show ¬ (g.spaceDim < lhs.spaceDim ∨ g.spaceDim < rhs.spaceDim) by omega),
      if_neg (show ¬ (EQUAL = NOT_EQUAL) by decide), if_neg (show ¬ (EQUAL ≠ EQUAL ∧ modulus ≠ 0) from fun h => h.1 rfl),
      if_neg (show ¬ (g.markedEmpty = true) by simpa [Grid.markedEmpty] using hne),
      if_neg (show ¬ (EQUAL ≠ EQUAL) by simp)]
    simp only [h0, if_false, hnc, Bool.false_eq_true]
  rw [hunf]
  obtain ⟨p1, p2, p3⟩ := lz_cgCreate_facts lhs rhs (absI modulus) g.spaceDim h1 h2 hl
  obtain ⟨c1, c2, c3⟩ := cn_addCongruenceNoCheck updateCongruences_spec g _ hI hne p1 p2 p3
  obtain ⟨i1, i2, i3, i4, i5, i6⟩ := isEmpty_spec _ c1
  by_cases hb : (isEmpty (addCongruenceNoCheck g (cgCreate lhs rhs (absI modulus)))).2 = true
  · rw [if_pos hb]
    have hemp := i4.mp hb
    refine ⟨rfl, i1, i3.trans c3, fun _ => by rw [i2, hemp], fun h => ?_⟩
    rw [← c2, hemp] at h; exact absurd h Set.not_nonempty_empty
  · rw [if_neg hb]
    have hnemp : ((addCongruenceNoCheck g (cgCreate lhs rhs (absI modulus))).sem).Nonempty :=
      Set.nonempty_iff_ne_empty.mpr (fun h => hb (i4.mpr h))
    obtain ⟨a, b, c, d, _⟩ := lz_addLinesStep _ lhs i1 (by rw [i3, c3]; exact h1) hvs (by rw [i2]; exact hnemp)
    refine ⟨a, b, c.trans (i3.trans c3), fun h => ?_, fun _ => ?_⟩
    · rw [c2, h] at hnemp; exact absurd hnemp Set.not_nonempty_empty
    · rw [i2, c2] at d; exact d

end PPLV.Lattice.GO
