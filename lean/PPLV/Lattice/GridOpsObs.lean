import PPLV.Lattice.GridOps
/-!
# The `Grid` object, part 2 — observers (code-shaped, no Mathlib)

`relation_with` ×3, `is_universe`, `is_bounded`, `is_discrete`, `constrains`, `quick_equivalence_test`,
`is_included_in`, `contains`, `operator==`, `bounds`, `max_min`, `frequency`, `affine_dimension` of
/repo/src/Grid_public.cc and Grid_nonpublic.cc.  The functions are `const` in C++ but update the lazy state
(`const_cast`): every model returns the new object(s) with the answer.
-/
namespace PPLV.Lattice.GO
open PPLV.Lattice.Red

/-- `Poly_Con_Relation` as `(is_disjoint, strictly_intersects, is_included, saturates)` -/
structure Rel where
  disjoint : Bool := false
  strictlyIntersects : Bool := false
  included : Bool := false
  saturates : Bool := false
deriving Repr, Inhabited, DecidableEq, BEq

def Rel.all3 : Rel := { disjoint := true, included := true, saturates := true }
def Rel.si : Rel := { strictlyIntersects := true }

/-! ### `relation_with(const Congruence&)` (Grid_public.cc:390) -/

structure RelSt where
  pointSp : Int := 0
  div : Int
  knownToIntersect : Bool := false
  parameterFails : Bool := false
deriving Repr, Inhabited

/-- the body of the loop over `gen_sys` for one generator: `inr r` = `return r` -/
def relCgStep (cg : CRow) (st : RelSt) (g : GRow) : RelSt ⊕ Rel :=
  let sp0 := sp cg.e g.e
  if g.line then
    if sp0 = 0 then .inl st else .inr Rel.si
  else if g.isPoint then
    let sp1 := if cg.isProperCongruence then Int.tmod sp0 st.div else sp0
    if sp1 = 0 then
      if st.pointSp = 0 then
        if st.parameterFails then .inr Rel.si else .inl { st with knownToIntersect := true }
      else .inr Rel.si
    else if st.pointSp = 0 then
      if st.knownToIntersect then .inr Rel.si
      else if st.div ≠ 0 ∧ Int.tmod sp1 st.div = 0 then .inr Rel.si
      else .inl { st with pointSp := sp1 }
    else
      let sp2 := sp1 - st.pointSp
      if sp2 ≠ 0 then
        let d := gcdI st.div sp2
        if Int.tmod st.pointSp d = 0 then .inr Rel.si else .inl { st with div := d }
      else .inl st
  else
    -- PARAMETER
    let sp1 := if cg.isProperCongruence then Int.tmod sp0 st.div else sp0
    if sp1 = 0 then .inl st
    else if st.knownToIntersect then .inr Rel.si
    else
      let d := gcdI st.div sp1
      if st.pointSp ≠ 0 ∧ Int.tmod st.pointSp d = 0 then .inr Rel.si
      else .inl { st with parameterFails := true, div := d }

def relCgLoop (cg : CRow) : RelSt → List GRow → RelSt ⊕ Rel
  | st, [] => .inl st
  | st, g :: gs =>
    match relCgStep cg st g with
    | .inl st' => relCgLoop cg st' gs
    | .inr r => .inr r

/-- Grid_public.cc:390; `none`: dimension-incompatible (throws) -/
def relationWithCg (g : Grid) (cg : CRow) : Grid × Option Rel :=
  if g.spaceDim < cg.spaceDim then (g, none)
  else if g.markedEmpty then (g, some Rel.all3)
  else if g.spaceDim = 0 ∧ cg.isInconsistent then (g, some { disjoint := true })
  else if g.spaceDim = 0 ∧ (cg.isEquality ∨ Int.tmod (get cg.e 0) cg.m = 0) then
    (g, some { included := true, saturates := true })
  else
    let r : Grid × Bool := if !g.generatorsAreUpToDate then updateGenerators g else (g, true)
    if !r.2 then (r.1, some Rel.all3)
    else
      let g1 := r.1
      let div0 := cg.m
      let div := match g1.gen.find? (·.isPoint) with
        | some p => div0 * p.divisor
        | none => div0
      match relCgLoop cg { div := div } g1.gen with
      | .inr rel => (g1, some rel)
      | .inl st =>
        if st.pointSp = 0 then
          (g1, some (if cg.isEquality then { included := true, saturates := true } else { included := true }))
        else (g1, some { disjoint := true })

/-! ### `relation_with(const Grid_Generator&)` (Grid_public.cc:578) -/

/-- `none`: dimension-incompatible; `true`: `subsumes` -/
def relationWithGen (g : Grid) (x : GRow) : Grid × Option Bool :=
  if g.spaceDim < x.spaceDim then (g, none)
  else if g.markedEmpty then (g, some false)
  else if g.spaceDim = 0 then (g, some true)
  else
    let r := isEmpty g
    if r.2 then (r.1, some false)
    else
      let g1 := if !r.1.congruencesAreUpToDate then updateCongruences r.1 else r.1
      (g1, some (g1.cs.satisfiesAll x))

/-! ### `relation_with(const Constraint&)` (Grid_public.cc:654) -/

/-- a `Constraint` argument: `kind` 0 `=`, 1 `≥`, 2 `>`; `e` = inhomogeneous term and the coefficients (without the
    ε-coefficient of a strict inequality, which is `-1` in the column after the last one) -/
structure Con where
  kind : Nat
  inconsistent : Bool
  tautological : Bool
  e : LinExpr
deriving Repr, Inhabited, DecidableEq, BEq

def Con.isEquality (c : Con) : Bool := c.kind == 0
def Con.isStrict (c : Con) : Bool := c.kind == 2
def Con.spaceDim (c : Con) : Nat := c.e.length - 1
/-- `c.expr` as the library holds it -/
def Con.raw (c : Con) : Row := if c.isStrict then c.e ++ [-1] else c.e
/-- `Congruence(c)` of an equality -/
def Con.toCg (c : Con) : CRow := { e := c.e, m := 0 }

def sgnI (z : Int) : Int := if z < 0 then -1 else if z = 0 then 0 else 1

structure RelConSt where
  pointIsIncluded : Bool := false
  pointSaturates : Bool := false
  firstPoint : Option GRow := none
deriving Repr, Inhabited

/-- the conversion of a further point into a parameter, in place (Grid_public.cc:730-741) -/
def pointToParameter (gen point : GRow) : GRow :=
  let pDiv := point.divisor
  let gDiv := gen.divisor
  let e1 := linearCombine gen.e point.e pDiv (-gDiv) 1 (gen.e.length - 1)
  let e2 := e1.set 0 (gDiv * pDiv)
  (({ gen with e := e2 } : GRow).strongNormalize).setIsParameter

/-- the loop over `gen_sys`; the rows visited so far (possibly rewritten) are accumulated in `done`.
    `fx = true`: the repaired code (1e4d543: the sign of the first point of a strict inequality is the reduced one, the
    ε-coefficient does not meet a coordinate); `fx = false`: the code before the repair (KF-C05-25) -/
def relConLoop (fx : Bool) (c : Con) : RelConSt → List GRow → List GRow → (RelConSt × List GRow) ⊕ List GRow
  | st, done, [] => .inl (st, done)
  | st, done, g :: gs =>
    if g.isPoint ∧ st.firstPoint.isNone then
      let sign := sgnI (sp (if fx then c.e else c.raw) g.e)
      let st1 : RelConSt :=
        if sign = 0 then { st with pointSaturates := !c.isStrict, firstPoint := some g }
        else if sign > 0 then { st with pointIsIncluded := !c.isEquality, firstPoint := some g }
        else { st with firstPoint := some g }
      relConLoop fx c st1 (done ++ [g]) gs
    else
      let g1 := if g.isPoint then pointToParameter g (st.firstPoint.getD default) else g
      let sign := sgnI (sp c.e g1.e)      -- `reduced_sign` (strict) and `sign` (non-strict) both stop before ε
      if sign ≠ 0 then .inr (done ++ g1 :: gs)
      else relConLoop fx c st (done ++ [g1]) gs

/-- Grid_public.cc:654; `fx` as in `relConLoop` -/
def relationWithConV (fx : Bool) (g : Grid) (c : Con) : Grid × Option Rel :=
  if g.spaceDim < c.spaceDim then (g, none)
  else if c.isEquality then relationWithCg g c.toCg
  else if g.markedEmpty then (g, some Rel.all3)
  else if g.spaceDim = 0 then
    if c.inconsistent then
      if c.isStrict ∧ get c.e 0 = 0 then (g, some { disjoint := true, saturates := true })
      else (g, some { disjoint := true })
    else if get c.e 0 = 0 then (g, some { included := true, saturates := true })
    else (g, some { included := true })
  else
    let r : Grid × Bool := if !g.generatorsAreUpToDate then updateGenerators g else (g, true)
    if !r.2 then (r.1, some Rel.all3)
    else
      let g1 := r.1
      match relConLoop fx c {} [] g1.gen with
      | .inr rows => ({ g1 with gen := rows }, some Rel.si)
      | .inl (st, rows) =>
        let g2 := { g1 with gen := rows }
        if st.pointSaturates then (g2, some { included := true, saturates := true })
        else if st.pointIsIncluded then (g2, some { included := true })
        else (g2, some { disjoint := true })

/-- `relation_with(const Constraint&)` as the repaired library does it -/
def relationWithCon (g : Grid) (c : Con) : Grid × Option Rel := relationWithConV true g c
/-- … and before the repair of KF-C05-25 (kept as the witness of the historical defect) -/
def relationWithConBeforeFix (g : Grid) (c : Con) : Grid × Option Rel := relationWithConV false g c

/-! ### `is_universe`, `is_bounded`, `is_discrete`, `constrains` (Grid_public.cc:802-1002) -/

/-- `grid_line(Variable(i))` / `grid_point(0)` in dimension `n` -/
def lineOfDim (n i : Nat) : GRow := { line := true, e := (List.replicate (n + 2) 0).set (i + 1) 1 }
def originOfDim (n : Nat) : GRow := { line := false, e := 1 :: List.replicate (n + 1) 0 }

def isUniverse (g : Grid) : Grid × Bool :=
  if g.markedEmpty then (g, false)
  else if g.spaceDim = 0 then (g, true)
  else if g.congruencesAreUpToDate ∧ g.congruencesAreMinimized then
    (g, g.con.length == 1 && (rowAt g.con 0).isTautological)
  else if !g.congruencesAreUpToDate then
    let g1 := updateCongruences g
    (g1, g1.con.length == 1 && (rowAt g1.con 0).isTautological)
  else
    (g, ((List.range g.spaceDim).reverse.all fun i => g.cs.satisfiesAll (lineOfDim g.spaceDim i))
          && g.cs.satisfiesAll (originOfDim g.spaceDim))

/-- the loop of `is_bounded` over the rows, last to first; `fp` = `first_point` -/
def isBoundedLoop : Option GRow → List GRow → Bool
  | _, [] => true
  | fp, gen :: rest =>
    if gen.isLineOrParameter then
      if gen.allHomZero then isBoundedLoop fp rest else false
    else match fp with
      | none => isBoundedLoop (some gen) rest
      | some p => if !gen.isEquivalentTo p then false else isBoundedLoop fp rest

def isBounded (g : Grid) : Grid × Bool :=
  if g.spaceDim = 0 ∨ g.markedEmpty then (g, true)
  else
    let r : Grid × Bool := if !g.generatorsAreUpToDate then updateGenerators g else (g, true)
    if !r.2 then (r.1, true)
    else if r.1.gen.length > 1 then (r.1, isBoundedLoop none r.1.gen.reverse) else (r.1, true)

def isDiscrete (g : Grid) : Grid × Bool :=
  if g.spaceDim = 0 ∨ g.markedEmpty then (g, true)
  else
    let r : Grid × Bool := if !g.generatorsAreUpToDate then updateGenerators g else (g, true)
    if !r.2 then (r.1, true)
    else (r.1, r.1.gen.reverse.all fun row => !(row.line && !row.allHomZero))

/-- the `syntactic_check` label -/
def syntacticCheck (g : Grid) (v : Nat) : Bool := g.con.reverse.any fun cg => get cg.e (v + 1) ≠ 0

/-- Grid_public.cc:931; `none`: dimension-incompatible -/
def constrains (g : Grid) (v : Nat) : Grid × Option Bool :=
  if g.spaceDim < v + 1 then (g, none)
  else if g.markedEmpty then (g, some true)
  else if g.generatorsAreUpToDate then
    if g.congruencesAreUpToDate then (g, some (syntacticCheck g v))
    else if g.generatorsAreMinimized ∧ g.gs.numLines = g.spaceDim then (g, some false)
    else if g.gen.reverse.any (fun gi => gi.line && get gi.e (v + 1) ≠ 0 && allZ gi.e 1 (v + 1)
                && allZ gi.e (v + 2) (g.spaceDim + 1)) then (g, some false)
    else
      let g1 := updateCongruences g
      (g1, some (syntacticCheck g1 v))
  else
    let r := minimize g
    if !r.2 then (r.1, some true) else (r.1, some (syntacticCheck r.1 v))

/-! ### `quick_equivalence_test`, `is_included_in`, `contains`, `operator==` -/

/-- `Three_Valued_Boolean`: 0 `TVB_TRUE`, 1 `TVB_FALSE`, 2 `TVB_DONT_KNOW` (Grid_defs.hh) -/
def TVB_TRUE : Nat := 0
def TVB_FALSE : Nat := 1
def TVB_DONT_KNOW : Nat := 2

/-- `Congruence` `operator==` (Congruence_inlines.hh:181) -/
def cgEq (x y : CRow) : Bool :=
  x.spaceDim == y.spaceDim && (x.strongNormalize.e == y.strongNormalize.e && x.strongNormalize.m == y.strongNormalize.m)

/-- `Congruence_System` `operator==` (Congruence_System.cc:447) -/
def csysEq (x y : List CRow) : Bool := x.length == y.length && (x.zip y).all fun p => cgEq p.1 p.2

/-- `Grid_Generator_System` `operator==` (`Linear_System` `operator==`) -/
def gsysEq (x y : GSys) : Bool :=
  x.dim == y.dim && x.rows.length == y.rows.length && (x.rows.zip y.rows).all fun p => p.1.isEquivalentTo p.2

/-- Grid_nonpublic.cc:181 -/
def quickEquivalenceTest (x y : Grid) : Nat :=
  let bothC := x.congruencesAreMinimized && y.congruencesAreMinimized
  if bothC ∧ x.con.length ≠ y.con.length then TVB_FALSE
  else if bothC ∧ x.cs.numEqualities ≠ y.cs.numEqualities then TVB_FALSE
  else
    let cssNormalized := bothC && x.cs.numEqualities == 0
    let bothG := x.generatorsAreMinimized && y.generatorsAreMinimized
    if bothG ∧ x.gen.length ≠ y.gen.length then TVB_FALSE
    else if bothG ∧ x.gs.numLines ≠ y.gs.numLines then TVB_FALSE
    else if bothG ∧ x.gs.numLines = 0 then (if gsysEq x.gs y.gs then TVB_TRUE else TVB_FALSE)
    else if cssNormalized then (if csysEq x.con y.con then TVB_TRUE else TVB_FALSE)
    else TVB_DONT_KNOW

/-- Grid_nonpublic.cc:246 `x.is_included_in(y)`: `(x', y', answer)` -/
def isIncludedIn (x y : Grid) : Grid × Grid × Bool :=
  let r : Grid × Bool := if !x.generatorsAreUpToDate then updateGenerators x else (x, true)
  if !r.2 then (r.1, y, true)
  else
    let y1 := if !y.congruencesAreUpToDate then updateCongruences y else y
    (r.1, y1, r.1.gen.reverse.all fun gi => y1.cs.satisfiesAll gi)

/-- Grid_public.cc:2808 `x.contains(y)`; `none`: dimension-incompatible -/
def contains (x y : Grid) : Grid × Grid × Option Bool :=
  if x.spaceDim ≠ y.spaceDim then (x, y, none)
  else if y.markedEmpty then (x, y, some true)
  else if x.markedEmpty then
    let r := isEmpty y
    (x, r.1, some r.2)
  else if y.spaceDim = 0 then (x, y, some true)
  else if quickEquivalenceTest x y = TVB_TRUE then (x, y, some true)
  else
    let r := isIncludedIn y x
    (r.2.1, r.1, some r.2.2)

/-- Grid_public.cc:2775 `operator==(x, y)` -/
def equals (x y : Grid) : Grid × Grid × Bool :=
  if x.spaceDim ≠ y.spaceDim then (x, y, false)
  else if x.markedEmpty then
    let r := isEmpty y
    (x, r.1, r.2)
  else if y.markedEmpty then
    let r := isEmpty x
    (r.1, y, r.2)
  else if x.spaceDim = 0 then (x, y, true)
  else
    let q := quickEquivalenceTest x y
    if q = TVB_TRUE then (x, y, true)
    else if q = TVB_FALSE then (x, y, false)
    else
      let r := isIncludedIn x y
      if r.2.2 then
        if r.1.markedEmpty then
          let e := isEmpty r.2.1
          (r.1, e.1, e.2)
        else
          let r2 := isIncludedIn r.2.1 r.1
          (r2.2.1, r2.1, r2.2.2)
      else (r.1, r.2.1, false)

/-- Grid_inlines.hh `strictly_contains` -/
def strictlyContains (x y : Grid) : Grid × Grid × Option Bool :=
  let r := contains x y
  match r.2.2 with
  | none => r
  | some false => (r.1, r.2.1, some false)
  | some true =>
    let r2 := contains r.2.1 r.1
    (r2.2.1, r2.1, r2.2.2.map (!·))

/-! ### `bounds`, `max_min`, `frequency` (Grid_nonpublic.cc:288-467, Grid_public.cc:2745) -/

/-- Grid_nonpublic.cc:309 -/
def boundsNoCheck (g : Grid) (e : LinExpr) : Bool :=
  g.gen.reverse.all fun row => !(row.isLineOrParameter && spHom e row.e ≠ 0)

/-- Grid_nonpublic.cc:288; `none`: dimension-incompatible -/
def bounds (g : Grid) (e : LinExpr) : Grid × Option Bool :=
  if g.spaceDim < e.spaceDim then (g, none)
  else if g.spaceDim = 0 ∨ g.markedEmpty then (g, some true)
  else
    let r : Grid × Bool := if !g.generatorsAreUpToDate then updateGenerators g else (g, true)
    if !r.2 then (r.1, some true)
    else
      let r2 : Grid × Bool := if !r.1.generatorsAreMinimized then minimize r.1 else (r.1, true)
      if !r2.2 then (r2.1, some true) else (r2.1, some (boundsNoCheck r2.1 e))

/-- the answer of `max_min` / `frequency`: `ok`, then the numbers -/
structure MaxMin where
  ok : Bool
  num : Int := 0
  den : Int := 1
  included : Bool := false
deriving Repr, Inhabited, DecidableEq, BEq

/-- Grid_nonpublic.cc:423 -/
def maxMin (g : Grid) (e : LinExpr) : Grid × Option MaxMin :=
  match bounds g e with
  | (g1, none) => (g1, none)
  | (g1, some false) => (g1, some { ok := false })
  | (g1, some true) =>
    if g1.markedEmpty then (g1, some { ok := false })
    else if g1.spaceDim = 0 then (g1, some { ok := true, num := get e 0, den := 1, included := true })
    else
      let g2 := if !g1.generatorsAreMinimized then (simplifyGenSys g1).setGeneratorsMinimized else g1
      let gen := rowAt g2.gen 0
      let extD := gen.divisor
      let extN := spHom e gen.e + get e 0 * extD
      let gcd := gcdI extN extD
      (g2, some { ok := true, num := extN / gcd, den := extD / gcd, included := true })

structure Freq where
  ok : Bool
  fn : Int := 0
  fd : Int := 1
  vn : Int := 0
  vd : Int := 1
deriving Repr, Inhabited, DecidableEq, BEq

/-- the loop of `frequency_no_check` over rows `1 ..`: `none` = a line moves the expression -/
def freqLoop (e : LinExpr) : Int → List GRow → Option Int
  | f, [] => some f
  | f, gen :: rest =>
    let s := spHom e gen.e
    if gen.line then (if s ≠ 0 then none else freqLoop e f rest)
    else freqLoop e (if s ≠ 0 then gcdI f s else f) rest

/-- Grid_nonpublic.cc:331 -/
def frequencyNoCheck (g : Grid) (e : LinExpr) : Freq :=
  let point := rowAt g.gen 0
  if boundsNoCheck g e then
    let valD := point.divisor
    let valN := spHom e point.e + get e 0 * valD
    let gcd := gcdI valN valD
    { ok := true, fn := 0, fd := 1, vn := valN / gcd, vd := valD / gcd }
  else
    match freqLoop e 0 (g.gen.drop 1) with
    | none => { ok := false }
    | some freqN =>
      let freqD := point.divisor
      let valD := freqD
      let valN0 := Int.tmod (spHom e point.e + get e 0 * valD) freqN
      let valN := if 2 * valN0 > freqN then valN0 - freqN else if -(2 * valN0) > freqN then valN0 + freqN else valN0
      let g1 := gcdI freqN freqD
      let g2 := gcdI valN valD
      { ok := true, fn := freqN / g1, fd := freqD / g1, vn := valN / g2, vd := valD / g2 }

/-- Grid_public.cc:2745; `none`: dimension-incompatible -/
def frequency (g : Grid) (e : LinExpr) : Grid × Option Freq :=
  if g.spaceDim < e.spaceDim then (g, none)
  else if g.spaceDim = 0 then
    let r := isEmpty g
    if r.2 then (r.1, some { ok := false }) else (r.1, some { ok := true, fn := 0, fd := 1, vn := get e 0, vd := 1 })
  else
    let r : Grid × Bool := if !g.generatorsAreMinimized then minimize g else (g, true)
    if !r.2 then (r.1, some { ok := false }) else (r.1, some (frequencyNoCheck r.1 e))

/-! ### `affine_dimension` (Grid_public.cc:277) -/

def affineDimension (g : Grid) : Grid × Nat :=
  if g.spaceDim = 0 then (g, 0)
  else
    let r := isEmpty g
    if r.2 then (r.1, 0)
    else
      let g1 := r.1
      if g1.generatorsAreUpToDate ∧ g1.generatorsAreMinimized then (g1, g1.gen.length - 1)
      else if g1.generatorsAreUpToDate ∧ !(g1.congruencesAreUpToDate && g1.congruencesAreMinimized) then
        let g2 := minimizedGridGenerators g1
        (g2, g2.gen.length - 1)
      else
        let g2 := if g1.generatorsAreUpToDate then g1 else minimizedCongruences g1
        (g2, g2.spaceDim - (g2.con.filter (·.isEquality)).length)

end PPLV.Lattice.GO
