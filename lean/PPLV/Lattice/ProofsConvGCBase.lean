import PPLV.Lattice.ProofsConvGCDef
import PPLV.Lattice.ProofsRedRow
import Mathlib.Tactic.LinearCombination

/-!
# `Grid::conversion` (generators → congruences): folds, counters, partial products

* `foldl_dimsDown_inv`: the invariant principle of the loops `for (dim = dims; dim-- > 0; )`;
* `cntBelow P d`: number of indices `< d` with `P`; `nv` counts the non-virtual dimensions (index of
  the source row of a dimension), `nl` the non-line dimensions (`pos`: index of the dest row);
* `dotUpto` under row operations.
-/
namespace PPLV.Lattice.Red

theorem gc_dimsDown_succ (m : Nat) : dimsDown (m + 1) = m :: dimsDown m := by
  simp [dimsDown, List.range_succ]

theorem foldl_dimsDown_inv {σ : Type} (f : σ → Nat → σ) (I : Nat → σ → Prop) :
    ∀ (m : Nat) (s : σ), I m s → (∀ d s, d < m → I (d + 1) s → I d (f s d)) → I 0 ((dimsDown m).foldl f s)
  | 0, s, h0, _ => by simpa [dimsDown] using h0
  | m + 1, s, h0, hstep => by
    rw [gc_dimsDown_succ, List.foldl_cons]
    exact foldl_dimsDown_inv f I m (f s m) (hstep m s (by omega) h0) (fun d s hd h => hstep d s (by omega) h)

/-! ### counters -/

def cntBelow (P : Nat → Bool) : Nat → Nat
  | 0 => 0
  | d + 1 => cntBelow P d + (if P d then 1 else 0)

theorem cntBelow_succ_pos (P : Nat → Bool) (d : Nat) (h : P d = true) : cntBelow P (d + 1) = cntBelow P d + 1 := by
  simp [cntBelow, h]
theorem cntBelow_succ_neg (P : Nat → Bool) (d : Nat) (h : P d = false) : cntBelow P (d + 1) = cntBelow P d := by
  simp [cntBelow, h]

theorem cntBelow_mono (P : Nat → Bool) {a b : Nat} (h : a ≤ b) : cntBelow P a ≤ cntBelow P b := by
  induction b with
  | zero => have : a = 0 := by omega
            subst this; exact Nat.le_refl _
  | succ b ih =>
    rcases Nat.lt_or_ge b a with h1 | h1
    · have : a = b + 1 := by omega
      subst this; exact Nat.le_refl _
    · have := ih h1
      simp only [cntBelow]; omega

theorem cntBelow_lt (P : Nat → Bool) {q m : Nat} (hq : q < m) (hP : P q = true) : cntBelow P q < cntBelow P m := by
  have := cntBelow_mono P (show q + 1 ≤ m from hq)
  rw [cntBelow_succ_pos P q hP] at this; omega

theorem cntBelow_surj (P : Nat → Bool) (m j : Nat) (h : j < cntBelow P m) : ∃ q, q < m ∧ P q = true ∧ cntBelow P q = j := by
  induction m with
  | zero => simp [cntBelow] at h
  | succ m ih =>
    by_cases hj : j < cntBelow P m
    · obtain ⟨q, hq, h1, h2⟩ := ih hj
      exact ⟨q, by omega, h1, h2⟩
    · by_cases hP : P m = true
      · rw [cntBelow_succ_pos P m hP] at h
        exact ⟨m, by omega, hP, by omega⟩
      · rw [cntBelow_succ_neg P m (by simpa using hP)] at h; omega

theorem cntBelow_inj (P : Nat → Bool) {q q' : Nat} (hq : P q = true) (hq' : P q' = true)
    (h : cntBelow P q = cntBelow P q') : q = q' := by
  rcases Nat.lt_trichotomy q q' with h1 | h1 | h1
  · have := cntBelow_lt P h1 hq; omega
  · exact h1
  · have := cntBelow_lt P h1 hq'; omega

/-- non-virtual dimension (there is a source row) -/
def nvB (dk : List Nat) (d : Nat) : Bool := kind dk d != GEN_VIRTUAL
/-- non-line dimension (there is a dest row) -/
def nlB (dk : List Nat) (d : Nat) : Bool := kind dk d != LINE
/-- index of the source row of a non-virtual dimension -/
def nv (dk : List Nat) : Nat → Nat := cntBelow (nvB dk)
def nl (dk : List Nat) : Nat → Nat := cntBelow (nlB dk)
/-- index of the dest row of the non-line dimension `q` (`dims` columns) -/
def pos (dk : List Nat) (dims q : Nat) : Nat := nl dk dims - nl dk (q + 1)

theorem nvB_iff (dk : List Nat) (d : Nat) : nvB dk d = true ↔ kind dk d ≠ GEN_VIRTUAL := by simp [nvB]
theorem nlB_iff (dk : List Nat) (d : Nat) : nlB dk d = true ↔ kind dk d ≠ LINE := by simp [nlB]

theorem pos_lt (dk : List Nat) (dims q : Nat) (hq : q < dims) (h : nlB dk q = true) : pos dk dims q < nl dk dims := by
  have := cntBelow_mono (nlB dk) (show q + 1 ≤ dims from hq)
  have h2 := cntBelow_succ_pos (nlB dk) q h
  simp only [pos, nl] at *; omega

theorem pos_inj (dk : List Nat) (dims q q' : Nat) (hq : q < dims) (hq' : q' < dims) (h : nlB dk q = true)
    (h' : nlB dk q' = true) (e : pos dk dims q = pos dk dims q') : q = q' := by
  have a1 := cntBelow_mono (nlB dk) (show q + 1 ≤ dims from hq)
  have a2 := cntBelow_mono (nlB dk) (show q' + 1 ≤ dims from hq')
  have b1 := cntBelow_succ_pos (nlB dk) q h
  have b2 := cntBelow_succ_pos (nlB dk) q' h'
  apply cntBelow_inj (nlB dk) h h'
  simp only [pos, nl] at *; omega

theorem pos_surj (dk : List Nat) (dims i : Nat) (hi : i < nl dk dims) :
    ∃ q, q < dims ∧ nlB dk q = true ∧ pos dk dims q = i := by
  obtain ⟨q, hq, h1, h2⟩ := cntBelow_surj (nlB dk) dims (nl dk dims - 1 - i) (by simp only [nl] at *; omega)
  refine ⟨q, hq, h1, ?_⟩
  have a1 := cntBelow_mono (nlB dk) (show q + 1 ≤ dims from hq)
  have b1 := cntBelow_succ_pos (nlB dk) q h1
  simp only [pos, nl] at *; omega

/-- rows before `cnt(e+1)` are the rows of the dimensions above `e` -/
theorem pos_lt_iff (dk : List Nat) (dims q e : Nat) (hq : q < dims) (he : e < dims) (h : nlB dk q = true) :
    pos dk dims q < nl dk dims - nl dk (e + 1) ↔ e < q := by
  have a1 := cntBelow_mono (nlB dk) (show q + 1 ≤ dims from hq)
  have a2 := cntBelow_mono (nlB dk) (show e + 1 ≤ dims from he)
  have b1 := cntBelow_succ_pos (nlB dk) q h
  constructor
  · intro hlt
    by_contra hc
    have := cntBelow_mono (nlB dk) (show q + 1 ≤ e + 1 by omega)
    simp only [pos, nl] at *; omega
  · intro hlt
    have := cntBelow_mono (nlB dk) (show e + 1 ≤ q by omega)
    simp only [pos, nl] at *; omega

/-! ### partial products under row operations -/

theorem dotUpto_lin_from (c c' p g : Row) (x y : Int) (d : Nat) :
    ∀ m, (∀ k, d ≤ k → k < m → get c' k = x * get c k + y * get p k) → d ≤ m →
      dotUpto c' g m - dotUpto c' g d = x * (dotUpto c g m - dotUpto c g d) + y * (dotUpto p g m - dotUpto p g d) := by
  intro m
  induction m with
  | zero => intro _ hd; have : d = 0 := by omega
            subst this; ring
  | succ m ih =>
    intro h hd
    rcases Nat.lt_or_ge m d with h1 | h1
    · have : d = m + 1 := by omega
      subst this; ring
    · have := ih (fun k h1 h2 => h k h1 (by omega)) h1
      simp only [dotUpto]
      rw [h m h1 (by omega)]
      linear_combination this

theorem dotUpto_scale_from (c c' g : Row) (f : Int) (d m : Nat)
    (h : ∀ k, d ≤ k → k < m → get c' k = get c k * f) (hd : d ≤ m) :
    dotUpto c' g m - dotUpto c' g d = (dotUpto c g m - dotUpto c g d) * f := by
  have := dotUpto_lin_from c c' c g f 0 d m (fun k h1 h2 => by rw [h k h1 h2]; ring) hd
  linear_combination this

theorem dotUpto_congr_from (c c' g : Row) (d m : Nat)
    (h : ∀ k, d ≤ k → k < m → get c' k = get c k) (hd : d ≤ m) :
    dotUpto c' g m - dotUpto c' g d = dotUpto c g m - dotUpto c g d := by
  have := dotUpto_scale_from c c' g 1 d m (fun k h1 h2 => by rw [h k h1 h2]; ring) hd
  linear_combination this

theorem dotUpto_zero_from (c g : Row) (d m : Nat) (h : ∀ k, d ≤ k → k < m → get c k = 0) (hd : d ≤ m) :
    dotUpto c g m = dotUpto c g d := by
  have := dotUpto_lin_from c c c g 0 0 d m (fun k h1 h2 => by rw [h k h1 h2]; ring) hd
  linear_combination this

theorem dotUpto_sub (c c' p g : Row) (q : Int) (m : Nat) (h : ∀ k, k < m → get c' k = get c k - q * get p k) :
    dotUpto c' g m = dotUpto c g m - q * dotUpto p g m := by
  have := dotUpto_lin_from c c' p g 1 (-q) 0 m (fun k _ h2 => by rw [h k h2]; ring) (Nat.zero_le _)
  simp only [dotUpto] at this
  linear_combination this

/-- zeros of the right factor -/
theorem dotUpto_zero_right (c g : Row) (m : Nat) (h : ∀ k, k < m → get g k = 0) : dotUpto c g m = 0 := by
  induction m with
  | zero => rfl
  | succ m ih => simp only [dotUpto]; rw [ih (fun k hk => h k (by omega)), h m (by omega)]; ring

theorem dotUpto_succ (c g : Row) (m : Nat) : dotUpto c g (m + 1) = dotUpto c g m + get c m * get g m := rfl

/-! ### rows of lists -/

theorem rowAt_append_one {R : Type} [Inhabited R] (l : List R) (r : R) (i : Nat) :
    rowAt (l ++ [r]) i = if i < l.length then rowAt l i else if i = l.length then r else default := by
  unfold rowAt
  by_cases h : i < l.length
  · simp [h, List.getElem?_append_left h]
  · by_cases h2 : i = l.length
    · subst h2; simp
    · have : (l ++ [r]).length ≤ i := by simp; omega
      simp [h, h2, List.getElem?_eq_none this]

theorem rowAt_mapIdx {R : Type} [Inhabited R] (l : List R) (f : Nat → R → R) (i : Nat) (h : i < l.length) :
    rowAt (l.mapIdx f) i = f i (rowAt l i) := by
  simp [rowAt, List.getElem?_mapIdx, h]

theorem gc_rowAt_map {R : Type} [Inhabited R] (l : List R) (f : R → R) (i : Nat) (h : i < l.length) :
    rowAt (l.map f) i = f (rowAt l i) := by
  simp [rowAt, h]

theorem rowAt_of_length_le {R : Type} [Inhabited R] (l : List R) (i : Nat) (h : l.length ≤ i) : rowAt l i = default := by
  simp [rowAt, List.getElem?_eq_none h]

theorem gc_mem_iff_rowAt {R : Type} [Inhabited R] (l : List R) (r : R) : r ∈ l ↔ ∃ i, i < l.length ∧ rowAt l i = r := by
  constructor
  · intro h
    obtain ⟨i, hi, rfl⟩ := List.getElem_of_mem h
    exact ⟨i, hi, rowAt_eq_getElem l i hi⟩
  · rintro ⟨i, hi, rfl⟩
    exact rowAt_mem l i hi

/-! ### `Congruence::scale` -/

theorem scale_m (r : CRow) (f : Int) : (r.scale f).m = r.m * f := by
  unfold CRow.scale; split
  · subst_vars; simp
  · rfl

theorem scale_length (r : CRow) (f : Int) : (r.scale f).e.length = r.e.length := by
  unfold CRow.scale; split <;> simp

theorem scale_get (r : CRow) (f : Int) (k : Nat) : get (r.scale f).e k = get r.e k * f := by
  unfold CRow.scale; split
  · subst_vars; simp
  · simp [get_mulAll]

theorem allZeroes_iff (x : Row) (s e : Nat) : allZeroes x s e = true ↔ ∀ i, s ≤ i → i < e → get x i = 0 := by
  simp only [allZeroes, List.all_eq_true, List.mem_range, Bool.or_eq_true, Bool.not_eq_true', decide_eq_false_iff_not,
    beq_iff_eq]
  constructor
  · intro h i h1 h2
    by_cases hl : i < x.length
    · rcases h i hl with h3 | h3
      · exact absurd ⟨h1, h2⟩ h3
      · exact h3
    · exact get_of_length_le x i (by omega)
  · intro h i _
    by_cases h3 : s ≤ i ∧ i < e
    · exact Or.inr (h i h3.1 h3.2)
    · exact Or.inl h3

end PPLV.Lattice.Red
