import PPLV.Lattice.ProofsGridOpsGen11

/-!
# Generator side of the `Grid` object, part 12 — `Grid::time_elapse_assign(y)` (Grid_public.cc:2686)
-/
namespace PPLV.Lattice.GO
open PPLV.Lattice PPLV.Lattice.Red

theorem gn_timeElapseAssign_eq (x y : Grid) (hd : x.spaceDim = y.spaceDim) (hx : x.markedEmpty = false)
    (hy : y.markedEmpty = false) (hn : 0 < x.spaceDim) :
    timeElapseAssign x y =
      if (gn_ens x).2 = false then { x := setEmpty (gn_ens x).1, y := y }
      else if (gn_ens y).2 = false then { x := setEmpty (gn_ens x).1, y := (gn_ens y).1 }
      else if ((normalizeDivisors2 (gn_ens y).1.gs (gn_ens x).1.gs).1.rows.map gn_toPar).isEmpty = true then
        { x := (gn_ens x).1.withGs (normalizeDivisors2 (gn_ens y).1.gs (gn_ens x).1.gs).2, y := (gn_ens y).1 }
      else { x := (((gn_ens x).1.withGs ((normalizeDivisors2 (gn_ens y).1.gs (gn_ens x).1.gs).2.insertSys
                    { (normalizeDivisors2 (gn_ens y).1.gs (gn_ens x).1.gs).1 with
                      rows := (normalizeDivisors2 (gn_ens y).1.gs (gn_ens x).1.gs).1.rows.map gn_toPar })
                    ).clearCongruencesUpToDate).clearGeneratorsMinimized,
             y := (gn_ens y).1 } := by
  unfold timeElapseAssign
  rw [if_neg (not_not.mpr hd), if_neg (by omega), hx, if_neg (by simp), hy, if_neg (by simp),
    gn_ens_of_not_marked hx, gn_ens_of_not_marked hy]
  cases h1 : (gn_ens x).2 <;> cases h2 : (gn_ens y).2 <;> first | rfl | (simp [h1, h2]; done) | (simp [h1, h2]; rfl)

/-- the generator system of the receiver after `normalize_divisors(gs, gen_sys)`, `set_is_parameter` on the points of `gs`
    and `gen_sys.insert(gs)` -/
theorem gn_te_rows {n : Nat} (hn : 0 < n) {X Y : List GRow} {DX DY : Int} (hwX : GWf n X) (hNX : GNorm n DX X)
    (hwY : GWf n Y) (hNY : GNorm n DY Y) :
    ((normalizeDivisors2 (GSys.mk n Y) (GSys.mk n X)).1.rows.map gn_toPar).isEmpty = false ∧
    ∃ rows D', (normalizeDivisors2 (GSys.mk n Y) (GSys.mk n X)).2.insertSys
        { (normalizeDivisors2 (GSys.mk n Y) (GSys.mk n X)).1 with
          rows := (normalizeDivisors2 (GSys.mk n Y) (GSys.mk n X)).1.rows.map gn_toPar } = GSys.mk n rows ∧
      GWf n rows ∧ GNorm n D' rows ∧ gn_IsTE (gn_set rows) (gn_set X) (gn_set Y) := by
  obtain ⟨D', d1, d2, w1, n1, w2, n2, s1, s2⟩ :=
    gn_normalizeDivisors2 (sys := GSys.mk n Y) (genSys := GSys.mk n X) hn rfl rfl (gn_wf_of_gnorm hNY hwY) hNX hwX
  have spec := fun r hr => gn_toPar_spec n1 w1 (r := r) hr
  have wpar : GWf n ((normalizeDivisors2 (GSys.mk n Y) (GSys.mk n X)).1.rows.map gn_toPar) := by
    intro r' hr'
    obtain ⟨r, hr, rfl⟩ := List.mem_map.mp hr'
    exact (spec r hr).2.1
  constructor
  · obtain ⟨r, hr, _⟩ := (gn_wf_of_gnorm n1 w1).pt
    cases hm : (normalizeDivisors2 (GSys.mk n Y) (GSys.mk n X)).1.rows with
    | nil => rw [hm] at hr; cases hr
    | cons a l => rfl
  · rw [gn_insertSys _ _ (by rw [d2]; exact d1) (by rw [d2]; exact wpar)]
    refine ⟨_, D', congrArg (fun d => GSys.mk d _) d2, gn_gwf_append w2 wpar, ?_, ?_⟩
    · refine gn_gnorm_append n2 ?_ ?_ ?_
      · intro r' hr' _
        obtain ⟨r, hr, rfl⟩ := List.mem_map.mp hr'
        exact Or.inl (spec r hr).2.2.1
      · intro r' hr' hl _
        obtain ⟨r, hr, rfl⟩ := List.mem_map.mp hr'
        exact (spec r hr).2.2.2.1 (by rw [← (spec r hr).1]; exact hl)
      · intro r' hr' _
        obtain ⟨r, hr, rfl⟩ := List.mem_map.mp hr'
        exact (spec r hr).2.2.1
    · have hj := gn_set_te (X := (normalizeDivisors2 (GSys.mk n Y) (GSys.mk n X)).2.rows)
        (Y := (normalizeDivisors2 (GSys.mk n Y) (GSys.mk n X)).1.rows) gn_toPar
        (gn_wf_of_gnorm n2 w2).pt (gn_wf_of_gnorm n1 w1).pt (fun r hr => (spec r hr).1)
        (fun r hr => (spec r hr).2.2.2.2)
        (fun r hr hl => (gn_isPar_iff _).mpr ⟨by rw [(spec r hr).1]; exact hl, (spec r hr).2.2.1⟩)
      rw [s1, s2] at hj
      exact hj

theorem gn_isTE_dim0 : gn_IsTE {y : Pt | Supp 0 y} {y | Supp 0 y} {y | Supp 0 y} := by
  constructor
  · intro p hp q hq μ i hi
    have h1 : p i = 0 := hp i hi
    have h2 : q i = 0 := hq i hi
    simp [h1, h2]
  · intro K _ hall p hp
    have := hall p hp p hp 0
    simpa using this

/-- **`Grid::time_elapse_assign(y)`** for grids of one dimension: both invariants are kept, nothing is thrown, `y` denotes
    what it denoted, the receiver becomes the least grid containing every `p + μ q` (`p` in the receiver, `q ∈ y`,
    `μ ∈ ℤ`); it is empty when one of the two is -/
theorem gn_timeElapseAssign (hEG : EnsureGeneratorsSpec) (x y : Grid) (hIx : GridInv x) (hIy : GridInv y)
    (hd : x.spaceDim = y.spaceDim) :
    GridInv (timeElapseAssign x y).x ∧ GridInv (timeElapseAssign x y).y ∧ (timeElapseAssign x y).thrown = false ∧
    (timeElapseAssign x y).x.spaceDim = x.spaceDim ∧ (timeElapseAssign x y).y.spaceDim = y.spaceDim ∧
    (timeElapseAssign x y).y.sem = y.sem ∧ gn_IsTE (timeElapseAssign x y).x.sem x.sem y.sem := by
  obtain ⟨se1, se2, se3⟩ := gn_inv_setEmpty x
  by_cases h0 : x.spaceDim = 0
  · cases hy : y.markedEmpty with
    | true =>
      have e : timeElapseAssign x y = { x := setEmpty x, y := y } := by
        unfold timeElapseAssign; rw [if_neg (not_not.mpr hd), if_pos h0, hy, if_pos rfl]
      rw [e, gn_sem_of_empty (g := y) hy]
      refine ⟨se1, hIy, rfl, se3, rfl, rfl, ?_⟩
      show gn_IsTE (setEmpty x).sem x.sem ∅
      rw [se2]; exact gn_isTE_empty_right _
    | false =>
      have e : timeElapseAssign x y = { x := x, y := y } := by
        unfold timeElapseAssign; rw [if_neg (not_not.mpr hd), if_pos h0, hy, if_neg (by simp)]
      rw [e]
      refine ⟨hIx, hIy, rfl, rfl, rfl, rfl, ?_⟩
      show gn_IsTE x.sem x.sem y.sem
      cases hx : x.st.empty with
      | true => rw [gn_sem_of_empty hx]; exact gn_isTE_empty_left _
      | false =>
        rw [gn_sem_dim0 hx h0, gn_sem_dim0 (g := y) hy (by rw [← hd]; exact h0)]
        exact gn_isTE_dim0
  · have hn : 0 < x.spaceDim := by omega
    have hny : 0 < y.spaceDim := by omega
    cases hx : x.markedEmpty with
    | true =>
      have e : timeElapseAssign x y = { x := x, y := y } := by
        unfold timeElapseAssign; rw [if_neg (not_not.mpr hd), if_neg h0, hx, if_pos rfl]
      rw [e]
      refine ⟨hIx, hIy, rfl, rfl, rfl, rfl, ?_⟩
      show gn_IsTE x.sem x.sem y.sem
      rw [gn_sem_of_empty (g := x) hx]; exact gn_isTE_empty_left _
    | false =>
    cases hy : y.markedEmpty with
    | true =>
      have e : timeElapseAssign x y = { x := setEmpty x, y := y } := by
        unfold timeElapseAssign; rw [if_neg (not_not.mpr hd), if_neg h0, hx, if_neg (by simp), hy, if_pos rfl]
      rw [e, gn_sem_of_empty (g := y) hy]
      refine ⟨se1, hIy, rfl, se3, rfl, rfl, ?_⟩
      show gn_IsTE (setEmpty x).sem x.sem ∅
      rw [se2]; exact gn_isTE_empty_right _
    | false =>
    rw [gn_timeElapseAssign_eq x y hd hx hy hn]
    obtain ⟨t1, t2, t3⟩ := gn_inv_setEmpty (gn_ens x).1
    obtain ⟨_, sx', bx', _⟩ := gn_ens_spec hEG x hIx hn
    cases h1 : (gn_ens x).2 with
    | false =>
      obtain ⟨_, _, _, _, ex⟩ := gn_ens_false hEG x hIx hn h1
      rw [if_pos rfl, ex]
      refine ⟨t1, hIy, rfl, by rw [← bx']; exact t3, rfl, rfl, ?_⟩
      show gn_IsTE (setEmpty (gn_ens x).1).sem ∅ y.sem
      rw [t2]; exact gn_isTE_empty_left _
    | true =>
      rw [if_neg (by simp)]
      obtain ⟨ax, bx, cx, dx, ex, fx, wx, nx, sx⟩ := gn_ens_true hEG x hIx hn h1
      cases h2 : (gn_ens y).2 with
      | false =>
        obtain ⟨ay, by', _, dy, ey⟩ := gn_ens_false hEG y hIy hny h2
        rw [if_pos rfl]
        refine ⟨t1, ay, rfl, by rw [← bx']; exact t3, by', by rw [ey]; exact dy, ?_⟩
        show gn_IsTE (setEmpty (gn_ens x).1).sem x.sem y.sem
        rw [t2, ey]; exact gn_isTE_empty_right _
      | true =>
        rw [if_neg (by simp)]
        obtain ⟨ay, by', cy, dy, ey, fy, wy, ny, sy⟩ := gn_ens_true hEG y hIy hny h2
        obtain ⟨_, sy', _⟩ := gn_ens_spec hEG y hIy hny
        have hgx : (gn_ens x).1.gs = GSys.mk x.spaceDim (gn_ens x).1.gen := by
          show GSys.mk (gn_ens x).1.genDim (gn_ens x).1.gen = _
          rw [fx]
        have hgy : (gn_ens y).1.gs = GSys.mk x.spaceDim (gn_ens y).1.gen := by
          show GSys.mk (gn_ens y).1.genDim (gn_ens y).1.gen = _
          rw [fy, hd]
        rw [← hd] at wy ny
        obtain ⟨hne, rows, D', e1, a1, b1, c1⟩ := gn_te_rows hn wx nx wy ny
        rw [hgx, hgy, hne, if_neg (by simp), e1]
        have key := gn_inv_gens
          (g := ((((gn_ens x).1.withGs (GSys.mk x.spaceDim rows)).clearCongruencesUpToDate).clearGeneratorsMinimized))
          (by show 0 < (gn_ens x).1.spaceDim; rw [bx]; exact hn) cx rfl dx rfl rfl ex
          (by show x.spaceDim = (gn_ens x).1.spaceDim; rw [bx])
          (by show GWf (gn_ens x).1.spaceDim rows; rw [bx]; exact a1)
          (D := D') (by show GNorm (gn_ens x).1.spaceDim _ rows; rw [bx]; exact b1)
        refine ⟨key.1, ay, rfl, bx, by', sy', ?_⟩
        show gn_IsTE (Grid.sem _) x.sem y.sem
        rw [key.2, ← sx, ← sy]
        exact c1

/-- the same, against K2's generator forms -/
theorem gn_timeElapseAssign_least (hEG : EnsureGeneratorsSpec) (x y : Grid) (hIx : GridInv x) (hIy : GridInv y)
    (hd : x.spaceDim = y.spaceDim) :
    (∀ p ∈ x.sem, ∀ q ∈ y.sem, ∀ μ : Int, p + (μ : ℚ) • q ∈ (timeElapseAssign x y).x.sem) ∧
    ∀ K : GridGens, (∀ p ∈ x.sem, ∀ q ∈ y.sem, ∀ μ : Int, Gen.sem K (p + (μ : ℚ) • q)) →
      (timeElapseAssign x y).x.sem ⊆ {p | Gen.sem K p} := by
  obtain ⟨_, _, _, _, _, _, h⟩ := gn_timeElapseAssign hEG x y hIx hIy hd
  exact ⟨h.1, fun K => h.least K⟩

end PPLV.Lattice.GO
