import PPLV.Lattice.ProofsGridOpsCon22
import PPLV.Lattice.ProofsGridOpsCon12
import PPLV.Lattice.ProofsGridOpsCon4

/-!
# `Grid` stage 3, part 32: `constrains(var)` (Grid_public.cc:931) against `g.sem`

The answer is `false` iff the grid is not empty and coordinate `var` of any of its points can be replaced by any rational
(`cn_Unconstrained`).  The syntactic check ("some congruence mentions `var`") is right on ANY up-to-date congruence system of
a non-empty grid, minimized or not: a row that mentions `var` cannot hold along the whole line.  One branch is `_partial`:
"minimized generators with `space_dim` lines" answers `false` — that such a grid is the whole space is the hypothesis
`hLines`.
-/
namespace PPLV.Lattice.GO
open PPLV.Lattice PPLV.Lattice.Red

/-- `S` is not empty and invariant under any change of coordinate `v` -/
def cn_Unconstrained (v : Nat) (S : Set Pt) : Prop := S.Nonempty ∧ ∀ x ∈ S, ∀ t : ℚ, cn_upd x v t ∈ S

theorem cn_allZ_iff (e : Row) (s t : Nat) : allZ e s t = true ↔ ∀ i, s ≤ i → i < t → Red.get e i = 0 := by
  unfold allZ
  rw [List.all_eq_true]
  constructor
  · intro h i h1 h2
    have := h i (by rw [List.mem_range']; exact ⟨i - s, by omega, by omega⟩)
    simpa using this
  · intro h i hi
    rw [List.mem_range'] at hi
    obtain ⟨k, hk, rfl⟩ := hi
    simpa using h (s + 1 * k) (by omega) (by omega)

/-- the syntactic check on a non-empty solution set -/
theorem cn_syntactic (n v : Nat) (hv : v < n) (rows : List CRow) (hne : (consSet n rows).Nonempty) :
    (rows.reverse.any fun cg => Red.get cg.e (v + 1) ≠ 0) = false ↔ cn_Unconstrained v (consSet n rows) := by
  rw [List.any_reverse, List.any_eq_false]
  constructor
  · intro h
    refine ⟨hne, fun x hx t => ?_⟩
    rw [cn_mem_consSet] at hx ⊢
    refine ⟨cn_upd_supp n v x t hv hx.1, fun r hr => ?_⟩
    have h0 : Red.get r.e (v + 1) = 0 := by simpa using h r hr
    have := hx.2 r hr
    rw [cn_mem_set] at this ⊢
    unfold rsem at this ⊢
    rw [cn_evalRow_upd, h0]; simpa using this
  · rintro ⟨_, hinv⟩ r hr
    by_contra hc
    have ha : Red.get r.e (v + 1) ≠ 0 := by simpa using hc
    have haq : (Red.get r.e (v + 1) : ℚ) ≠ 0 := by exact_mod_cast ha
    obtain ⟨x, hx⟩ := hne
    have h1 := ((cn_mem_consSet n rows x).mp hx).2 r hr
    rw [cn_mem_set] at h1
    obtain ⟨k, hk⟩ := h1
    by_cases hm : r.m = 0
    · have h2 := ((cn_mem_consSet n rows _).mp (hinv x hx (x v + 1))).2 r hr
      rw [cn_mem_set] at h2
      obtain ⟨k', hk'⟩ := h2
      rw [cn_evalRow_upd, hk, hm] at hk'
      simp at hk'
      exact ha (by exact_mod_cast hk')
    · have hmq : (r.m : ℚ) ≠ 0 := by exact_mod_cast hm
      have h2 := ((cn_mem_consSet n rows _).mp
        (hinv x hx (x v + (r.m : ℚ) / (2 * (Red.get r.e (v + 1) : ℚ))))).2 r hr
      rw [cn_mem_set] at h2
      obtain ⟨k', hk'⟩ := h2
      rw [cn_evalRow_upd, hk] at hk'
      have h3 : (1 : ℚ) = 2 * ((k' : ℚ) - (k : ℚ)) := by
        field_simp at hk'
        have : (r.m : ℚ) * (1 - 2 * ((k' : ℚ) - (k : ℚ))) = 0 := by linarith
        rcases mul_eq_zero.mp this with h | h
        · exact absurd h hmq
        · linarith
      have h4 : (1 : Int) = 2 * (k' - k) := by exact_mod_cast h3
      omega

/-- the syntactic check on an object with up-to-date congruences and a non-empty grid -/
theorem cn_syntacticCheck (g1 : Grid) (v : Nat) (hI : GridInv g1) (he : g1.st.empty = false) (hv : v < g1.spaceDim)
    (hc : g1.st.cUp = true) (hne : g1.sem.Nonempty) :
    syntacticCheck g1 v = false ↔ cn_Unconstrained v g1.sem := by
  have hs := cn_sem_of_cUp g1 hI he (by omega) hc
  rw [hs] at hne ⊢
  exact cn_syntactic g1.spaceDim v hv g1.con hne

theorem cn_unconstrained_empty (v : Nat) : ¬ cn_Unconstrained v ∅ := fun h => Set.not_nonempty_empty h.1

theorem cn_unconstrained_space (n v : Nat) (hv : v < n) : cn_Unconstrained v (spaceSet n) :=
  ⟨⟨0, fun _ _ => rfl⟩, fun x hx t => cn_upd_supp n v x t hv hx⟩

/-- a line row along `e_v` makes `v` unconstrained -/
theorem cn_line_unconstrained {n : Nat} {D : Int} {rows : List GRow} (hN : GNorm n D rows) (hw : GWf n rows) (v : Nat)
    (hv : v < n) (gi : GRow) (hgi : gi ∈ rows) (hl : gi.line = true) (ha : Red.get gi.e (v + 1) ≠ 0)
    (h1 : allZ gi.e 1 (v + 1) = true) (h2 : allZ gi.e (v + 2) (n + 1) = true) : cn_Unconstrained v (gn_set rows) := by
  obtain ⟨p, hp, hpl, hp0⟩ := hN.pt
  have hpp : gn_isPt p = true := (gn_isPt_iff p).mpr ⟨hpl, by rw [hp0]; exact ne_of_gt hN.pos⟩
  refine ⟨⟨_, gn_mem_pt hp hpp⟩, fun x hx t => ?_⟩
  have haq : (Red.get gi.e (v + 1) : ℚ) ≠ 0 := by exact_mod_cast ha
  have := gn_mem_line_step hgi hl hx ((t - x v) / (Red.get gi.e (v + 1) : ℚ))
  have heq : cn_upd x v t = x + ((t - x v) / (Red.get gi.e (v + 1) : ℚ)) • gn_vecOf gi := by
    funext k
    simp only [cn_upd, Pi.add_apply, Pi.smul_apply, smul_eq_mul]
    unfold gn_vecOf
    rw [gn_spaceDim_of_len (hw gi hgi), hl]
    simp only [if_true, div_one]
    by_cases hk : k = v
    · subst hk; rw [if_pos rfl, if_pos hv]; field_simp; ring
    · rw [if_neg hk]
      by_cases hkn : k < n
      · rw [if_pos hkn]
        have : Red.get gi.e (k + 1) = 0 := by
          by_cases hlt : k < v
          · exact (cn_allZ_iff _ _ _).mp h1 (k + 1) (by omega) (by omega)
          · exact (cn_allZ_iff _ _ _).mp h2 (k + 1) (by omega) (by omega)
        rw [this]; simp
      · rw [if_neg hkn]; simp
  rw [heq]; exact this

/-- Grid_public.cc:931 `constrains(var)`.  `hLines` (not proved here): minimized generators with as many lines as
    dimensions generate the whole space -/
theorem cn_constrains_partial (g : Grid) (v : Nat) (hI : GridInv g)
    (hLines : g.st.empty = false → g.st.gUp = true → g.st.cUp = false → g.st.gMin = true →
      g.gs.numLines = g.spaceDim → g.sem = spaceSet g.spaceDim) :
    ((constrains g v).2 = none ↔ g.spaceDim < v + 1) ∧ GridInv (constrains g v).1 ∧ (constrains g v).1.sem = g.sem ∧
    (constrains g v).1.spaceDim = g.spaceDim ∧
    (∀ b, (constrains g v).2 = some b → (b = false ↔ cn_Unconstrained v g.sem)) := by
  unfold constrains
  by_cases hd : g.spaceDim < v + 1
  · rw [if_pos hd]; exact ⟨⟨fun _ => hd, fun _ => rfl⟩, hI, rfl, rfl, (fun b h => by cases h)⟩
  · rw [if_neg hd]
    have hnone : ∀ (G : Grid) (o : Bool), ((G, some o).2 = none ↔ g.spaceDim < v + 1) :=
      fun G o => ⟨(fun h => by cases h), fun h => absurd h hd⟩
    have hv : v < g.spaceDim := by omega
    by_cases hemp : g.st.empty = true
    · rw [if_pos (show g.markedEmpty = true from hemp)]
      refine ⟨⟨(fun h => by cases h), fun h => absurd h hd⟩, hI, rfl, rfl, fun b hb => ?_⟩
      have : b = true := (Option.some.inj hb).symm
      rw [this, lz_sem_of_empty hemp]
      exact ⟨(fun h => by cases h), fun h => absurd h (cn_unconstrained_empty v)⟩
    · have he : g.st.empty = false := by simpa using hemp
      rw [if_neg (show ¬ (g.markedEmpty = true) from hemp)]
      have hpos : 0 < g.spaceDim := by omega
      by_cases hg : g.st.gUp = true
      · rw [if_pos (show g.generatorsAreUpToDate = true from hg)]
        obtain ⟨_, hgw, hgn, hgs⟩ := gn_sem_of_gUp hI hpos he hg
        have hnonempty : g.sem.Nonempty := by
          rw [lz_sem_of_gUp he hpos hg]; exact lz_gensSet_nonempty hgn
        by_cases hc : g.st.cUp = true
        · rw [if_pos (show g.congruencesAreUpToDate = true from hc)]
          refine ⟨⟨(fun h => by cases h), fun h => absurd h hd⟩, hI, rfl, rfl, fun b hb => ?_⟩
          have : b = syntacticCheck g v := (Option.some.inj hb).symm
          rw [this]; exact cn_syntacticCheck g v hI he hv hc hnonempty
        · have hcf : g.st.cUp = false := by simpa using hc
          rw [if_neg (show ¬ (g.congruencesAreUpToDate = true) from hc)]
          by_cases hl : g.generatorsAreMinimized = true ∧ g.gs.numLines = g.spaceDim
          · rw [if_pos hl]
            refine ⟨⟨(fun h => by cases h), fun h => absurd h hd⟩, hI, rfl, rfl, fun b hb => ?_⟩
            have : b = false := (Option.some.inj hb).symm
            rw [this, hLines he hg hcf hl.1 hl.2]
            exact ⟨fun _ => cn_unconstrained_space _ v hv, fun _ => rfl⟩
          · rw [if_neg hl]
            by_cases hany : (g.gen.reverse.any fun gi => gi.line && Red.get gi.e (v + 1) ≠ 0 && allZ gi.e 1 (v + 1)
                && allZ gi.e (v + 2) (g.spaceDim + 1)) = true
            · rw [if_pos hany]
              refine ⟨⟨(fun h => by cases h), fun h => absurd h hd⟩, hI, rfl, rfl, fun b hb => ?_⟩
              have : b = false := (Option.some.inj hb).symm
              rw [this]
              refine ⟨fun _ => ?_, fun _ => rfl⟩
              rw [List.any_reverse, List.any_eq_true] at hany
              obtain ⟨gi, hgi, hcond⟩ := hany
              simp only [Bool.and_eq_true, decide_eq_true_eq] at hcond
              rw [hgs]
              exact cn_line_unconstrained hgn hgw v hv gi hgi hcond.1.1.1 hcond.1.1.2 hcond.1.2 hcond.2
            · rw [if_neg hany]
              obtain ⟨u1, u2, u3, u4, _, _, u7, _⟩ := updateCongruences_spec' g hI he hpos hg hcf
              refine ⟨⟨(fun h => by cases h), fun h => absurd h hd⟩, u1, u2, u3, fun b hb => ?_⟩
              have : b = syntacticCheck (updateCongruences g) v := (Option.some.inj hb).symm
              rw [this, ← u2]
              exact cn_syntacticCheck _ v u1 u4 (by omega) u7 (by rw [u2]; exact hnonempty)
      · rw [if_neg (show ¬ (g.generatorsAreUpToDate = true) from hg)]
        obtain ⟨m1, m2, m3, m4, m5, m6⟩ := minimize_spec' g hI
        by_cases hb2 : (minimize g).2 = true
        · have : (!(minimize g).2) = false := by rw [hb2]; rfl
          simp only [this, Bool.false_eq_true, if_false]
          obtain ⟨a, _, c⟩ := m6 hb2 hpos
          refine ⟨⟨(fun h => by cases h), fun h => absurd h hd⟩, m1, m2, m3, fun b hb => ?_⟩
          have : b = syntacticCheck (minimize g).1 v := (Option.some.inj hb).symm
          rw [this, ← m2]
          exact cn_syntacticCheck _ v m1 a (by omega) (m1.cminUp c) (by rw [m2]; exact m4.mp hb2)
        · have hbf : (minimize g).2 = false := by simpa using hb2
          have : (!(minimize g).2) = true := by rw [hbf]; rfl
          simp only [this, if_true]
          refine ⟨⟨(fun h => by cases h), fun h => absurd h hd⟩, m1, m2, m3, fun b hb => ?_⟩
          have : b = true := (Option.some.inj hb).symm
          rw [this, ← m2, lz_sem_of_empty (m5 hbf)]
          exact ⟨(fun h => by cases h), fun h => absurd h (cn_unconstrained_empty v)⟩

example : (constrains cn_exGrid' 0).2 = some true ∧ (constrains cn_exGrid' 1).2 = none := by decide +kernel

end PPLV.Lattice.GO
