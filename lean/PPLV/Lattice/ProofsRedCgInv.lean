import PPLV.Lattice.ProofsRedCgStep

/-!
# `Grid::simplify(Congruence_System&)`: the shape invariant and `reduce_reduced`

`KInv dk p k d nc`: the rows `0..k-1` are the pivot rows of the non-virtual dimensions among
`d..nc-1`, in descending order (`p i` = dimension of row `i`).  With it the walk `skipUp` of
`reduce_reduced` over `dim_kinds` finds the kind of each row, and `reduce_reduced` keeps the
solution set.
-/
namespace PPLV.Lattice.Red

/-- rows `< k` are the pivot rows of the non-virtual dimensions in `[d, nc)`, descending -/
structure KInv (dk : List Nat) (p : Nat → Nat) (k d nc : Nat) : Prop where
  rng : ∀ i, i < k → d ≤ p i ∧ p i < nc
  anti : ∀ i i', i < i' → i' < k → p i' < p i
  nv : ∀ j, d ≤ j → j < nc → (kind dk j ≠ CON_VIRTUAL ↔ ∃ i, i < k ∧ p i = j)

/-- the kind recorded in `dim_kinds` is the kind of the row -/
def KindOK (r : CRow) (kd : Nat) : Prop := (r.m = 0 ∧ kd = EQUALITY) ∨ (0 < r.m ∧ kd = PROPER_CONGRUENCE)

/-- `r` is the pivot row of column `c`: positive there, zero after it, kind recorded as `kd` -/
structure PivRow (r : CRow) (kd c : Nat) : Prop where
  kindok : KindOK r kd
  pos : 0 < get r.e c
  zero : ∀ j, c < j → get r.e j = 0

/-! ### `skipUp` -/

theorem skipUpAux_eq (dk : List Nat) (j : Nat) (hnv : kind dk j ≠ CON_VIRTUAL) :
    ∀ fuel k, k ≤ j → j - k < fuel → (∀ i, k ≤ i → i < j → kind dk i = CON_VIRTUAL) → skipUpAux dk fuel k = j := by
  intro fuel
  induction fuel with
  | zero => intro k h1 h2; omega
  | succ fuel ih =>
    intro k h1 h2 hv
    simp only [skipUpAux]
    by_cases e : k = j
    · subst e; rw [if_neg hnv]
    · rw [if_pos (hv k (le_refl _) (by omega))]
      exact ih (k + 1) (by omega) (by omega) (fun i hi1 hi2 => hv i (by omega) hi2)

theorem skipUp_eq (dk : List Nat) (k j : Nat) (hkj : k < j) (hj : j < dk.length) (hnv : kind dk j ≠ CON_VIRTUAL)
    (hv : ∀ i, k < i → i < j → kind dk i = CON_VIRTUAL) : skipUp dk k = j := by
  unfold skipUp
  exact skipUpAux_eq dk j hnv _ (k + 1) (by omega) (by omega) (fun i hi1 hi2 => hv i (by omega) hi2)

/-- the walk of `reduce_reduced` meets the dimensions of the rows `k-1, k-2, …` -/
theorem KInv.skip {dk : List Nat} {p : Nat → Nat} {k dim nc : Nat} (h : KInv dk p k (dim + 1) nc)
    (hdk : dk.length = nc) (ri : Nat) (hri : ri < k) :
    skipUp dk (if ri + 1 = k then dim else p (ri + 1)) = p ri := by
  have hr := h.rng ri hri
  apply skipUp_eq
  · split
    · omega
    · exact h.anti ri (ri + 1) (by omega) (by omega)
  · omega
  · exact (h.nv (p ri) hr.1 hr.2).mpr ⟨ri, hri, rfl⟩
  · intro j hj1 hj2
    by_contra hnv
    have hjd : dim + 1 ≤ j := by
      split at hj1
      · omega
      · have := (h.rng (ri + 1) (by omega)).1; omega
    obtain ⟨i, hi, hpi⟩ := (h.nv j hjd (by omega)).mp hnv
    rcases Nat.lt_trichotomy i ri with hlt | heq | hgt
    · have := h.anti i ri hlt hri; omega
    · subst heq; omega
    · split at hj1
      · omega
      · rcases Nat.lt_or_ge (ri + 1) i with h1 | h1
        · have := h.anti (ri + 1) i h1 hi; omega
        · have : i = ri + 1 := by omega
          subst this; omega

/-! ### `reduce_reduced` -/

/-- what `reduce_reduced` may do to a system: rows `≥ k` untouched, moduli, sizes and the columns
    after `dim` untouched, same solutions -/
structure RRel (k dim : Nat) (rows rows' : List CRow) : Prop where
  len : rows'.length = rows.length
  same : ∀ i, k ≤ i → rowAt rows' i = rowAt rows i
  row : ∀ i, (rowAt rows' i).m = (rowAt rows i).m ∧ (rowAt rows' i).e.length = (rowAt rows i).e.length ∧
    ∀ j, dim < j → get (rowAt rows' i).e j = get (rowAt rows i).e j
  sol : ∀ x, Sol rows' x ↔ Sol rows x

theorem RRel.refl (k dim : Nat) (rows : List CRow) : RRel k dim rows rows :=
  ⟨rfl, fun _ _ => rfl, fun _ => ⟨rfl, rfl, fun _ _ => rfl⟩, fun _ => Iff.rfl⟩

theorem RRel.trans {k dim : Nat} {a b c : List CRow} (h1 : RRel k dim a b) (h2 : RRel k dim b c) : RRel k dim a c :=
  ⟨h2.len.trans h1.len, fun i hi => (h2.same i hi).trans (h1.same i hi),
   fun i => ⟨(h2.row i).1.trans (h1.row i).1, (h2.row i).2.1.trans (h1.row i).2.1,
     fun j hj => ((h2.row i).2.2 j hj).trans ((h1.row i).2.2 j hj)⟩,
   fun x => (h2.sol x).trans (h1.sol x)⟩

/-- the number of copies of the pivot that `reduce_reduced` subtracts -/
def rrNum (rowDim pivotDim half : Int) : Int :=
  let q := Int.tdiv rowDim pivotDim
  let rem := Int.tmod rowDim pivotDim
  if rem < 0 then (if rem ≤ -half then q - 1 else q)
  else if rem > 0 ∧ rem > half then q + 1 else q

/-- the body of the loop of `reduce_reduced` for row `ri` (congruence version) -/
def rrStep (dk : List Nat) (pivotE : Row) (pivotDim half : Int) (dim s e : Nat) (rle : Bool) (rk : Nat)
    (ri ki' : Nat) (rows : List CRow) : List CRow :=
  if rle || (rk == PARAMETER && kind dk ki' == PARAMETER) then
    let row := rowAt rows ri
    let num := rrNum (get (HasExpr.expr row) dim) pivotDim half
    if num ≠ 0 then
      rows.set ri (HasExpr.setExpr row (linearCombine (HasExpr.expr row) pivotE 1 (-num) s (e + 1)))
    else rows
  else rows

theorem reduceReducedLoop_zero (dk : List Nat) (pivotE : Row) (pivotDim half : Int) (dim s e : Nat) (rle : Bool)
    (rk ki : Nat) (rows : List CRow) :
    reduceReducedLoop false dk pivotE pivotDim half dim s e rle rk 0 ki rows = rows := rfl

theorem reduceReducedLoop_succ (dk : List Nat) (pivotE : Row) (pivotDim half : Int) (dim s e : Nat) (rle : Bool)
    (rk ri ki : Nat) (rows : List CRow) :
    reduceReducedLoop false dk pivotE pivotDim half dim s e rle rk (ri + 1) ki rows =
      reduceReducedLoop false dk pivotE pivotDim half dim s e rle rk ri (skipUp dk ki)
        (rrStep dk pivotE pivotDim half dim s e rle rk ri (skipUp dk ki) rows) := rfl

theorem rrStep_cases (dk : List Nat) (pivotE : Row) (pivotDim half : Int) (dim s e : Nat) (rle : Bool) (rk : Nat)
    (ri ki' : Nat) (rows : List CRow) :
    rrStep dk pivotE pivotDim half dim s e rle rk ri ki' rows = rows ∨
      ((rle || (rk == PARAMETER && kind dk ki' == PARAMETER)) = true ∧
        ∃ q : Int, rrStep dk pivotE pivotDim half dim s e rle rk ri ki' rows =
          rows.set ri { rowAt rows ri with e := linearCombine (rowAt rows ri).e pivotE 1 (-q) s (e + 1) }) := by
  unfold rrStep
  by_cases hc : (rle || (rk == PARAMETER && kind dk ki' == PARAMETER)) = true
  · rw [if_pos hc]
    simp only []
    by_cases hq : rrNum (get (HasExpr.expr (rowAt rows ri)) dim) pivotDim half ≠ 0
    · rw [if_pos hq]; right; exact ⟨hc, _, rfl⟩
    · rw [if_neg hq]; left; rfl
  · rw [if_neg hc]; left; rfl

/-- what the loop of `reduce_reduced` needs to know about the rows it still has to visit -/
structure RRHyp (n : Nat) (dk : List Nat) (p : Nat → Nat) (k : Nat) (M : Int) (pivot : CRow) (c : Nat)
    (rows : List CRow) : Prop where
  hk : k < rows.length
  piv : rowAt rows k = pivot
  rowsok : ∀ i, i < c → (rowAt rows i).e.length = n + 1 ∧ KindOK (rowAt rows i) (kind dk (p i)) ∧
    ((rowAt rows i).m = 0 ∨ (rowAt rows i).m = M)

theorem reduceReducedLoop_rel (n : Nat) (dk : List Nat) (p : Nat → Nat) (k dim : Nat) (M : Int) (pivot : CRow)
    (pivotDim half : Int)
    (hpl : pivot.e.length = n + 1) (hpk : KindOK pivot (kind dk dim)) (hpm : pivot.m = 0 ∨ pivot.m = M)
    (hpz : ∀ j, dim < j → get pivot.e j = 0)
    (hskip : ∀ ri, ri < k → skipUp dk (if ri + 1 = k then dim else p (ri + 1)) = p ri) :
    ∀ (c : Nat) (rows : List CRow), c ≤ k → RRHyp n dk p k M pivot c rows →
      RRel k dim rows (reduceReducedLoop false dk pivot.e pivotDim half dim 0 dim (kind dk dim == EQUALITY)
        (kind dk dim) c (if c = k then dim else p c) rows) := by
  intro c
  induction c with
  | zero => intro rows _ _; rw [reduceReducedLoop_zero]; exact RRel.refl _ _ _
  | succ c ih =>
    intro rows hck hyp
    rw [reduceReducedLoop_succ, hskip c (by omega)]
    have hweak : RRHyp n dk p k M pivot c rows := ⟨hyp.hk, hyp.piv, fun i hi => hyp.rowsok i (by omega)⟩
    have hrow := hyp.rowsok c (by omega)
    have hstep : RRel k dim rows (rrStep dk pivot.e pivotDim half dim 0 dim (kind dk dim == EQUALITY) (kind dk dim) c (p c) rows) ∧
        RRHyp n dk p k M pivot c (rrStep dk pivot.e pivotDim half dim 0 dim (kind dk dim == EQUALITY) (kind dk dim) c (p c) rows) := by
      rcases rrStep_cases dk pivot.e pivotDim half dim 0 dim (kind dk dim == EQUALITY) (kind dk dim) c (p c) rows with e | ⟨hcond, q, e⟩
      · rw [e]; exact ⟨RRel.refl _ _ _, hweak⟩
      · rw [e]
        have hclt : c < rows.length := by have := hyp.hk; omega
        have hent : ∀ j, get (linearCombine (rowAt rows c).e pivot.e 1 (-q) 0 (dim + 1)) j =
            1 * get (rowAt rows c).e j + (-q) * get pivot.e j :=
          get_linearCombine_full _ _ _ _ _ (by rw [hpl, hrow.1]) (fun i hi => hpz i (by omega)) (Or.inl rfl)
        -- the pivot is an equality or has the modulus of the row
        have hmods : pivot.m = 0 ∨ pivot.m = (rowAt rows c).m := by
          have h1 := hrow.2.1
          have h2 := hrow.2.2
          simp only [Bool.or_eq_true, Bool.and_eq_true, beq_iff_eq] at hcond
          simp only [KindOK, EQUALITY, PROPER_CONGRUENCE, PARAMETER] at hcond hpk h1
          rcases hcond with hc | ⟨hc1, hc2⟩
          · left; rcases hpk with hp | hp
            · exact hp.1
            · omega
          · rcases hpk with hp | hp
            · left; exact hp.1
            · right
              rcases h1 with h1 | h1
              · omega
              · rcases hpm with hpm | hpm
                · omega
                · rcases h2 with h2 | h2
                  · omega
                  · rw [hpm, h2]
        constructor
        · refine ⟨by simp, ?_, ?_, ?_⟩
          · intro i hi
            rw [rowAt_set, if_neg (by omega)]
          · intro i
            rw [rowAt_set]
            by_cases hi : i = c ∧ c < rows.length
            · rw [if_pos hi, hi.1]
              refine ⟨rfl, by simp, ?_⟩
              intro j hj
              show get (linearCombine _ _ _ _ _ _) j = _
              rw [get_linearCombine, if_neg (by omega)]
            · rw [if_neg hi]; exact ⟨rfl, rfl, fun _ _ => rfl⟩
          · intro x
            apply Sol_set_iff rows c k _ x hyp.hk (by omega)
            intro hp
            rw [hyp.piv] at hp
            refine rsem_add_mul (rowAt rows c) pivot
              ⟨linearCombine (rowAt rows c).e pivot.e 1 (-q) 0 (dim + 1), (rowAt rows c).m⟩ (-q) x ?_ rfl hmods hp
            have := evalRow_lin _ (rowAt rows c).e pivot.e 1 (-q) x (by simp) (by rw [hpl, hrow.1]) hent
            rw [this]; push_cast; ring
        · refine ⟨by simpa using hyp.hk, ?_, ?_⟩
          · rw [rowAt_set, if_neg (by omega)]; exact hyp.piv
          · intro i hi
            rw [rowAt_set, if_neg (by omega)]
            exact hyp.rowsok i (by omega)
    have := ih _ (by omega) hstep.2
    rw [if_neg (by omega : ¬ c = k)] at this
    exact hstep.1.trans this

/-- `reduce_reduced(rows, dim, k, 0, dim, dim_kinds, false)` under the shape invariant -/
theorem reduceReduced_rel (n : Nat) (dk : List Nat) (p : Nat → Nat) (k dim : Nat) (M : Int) (rows : List CRow)
    (hK : KInv dk p k (dim + 1) (n + 1)) (hdk : dk.length = n + 1) (hk : k < rows.length) (hwf : RWf n rows)
    (hkinds : ∀ i, i < k → KindOK (rowAt rows i) (kind dk (p i)))
    (hpk : KindOK (rowAt rows k) (kind dk dim)) (hpz : ∀ j, dim < j → get (rowAt rows k).e j = 0)
    (hmod : SameMod rows M) :
    RRel k dim rows (reduceReduced rows dim k 0 dim dk false) := by
  have hloop := reduceReducedLoop_rel n dk p k dim M (rowAt rows k) (get (rowAt rows k).e dim)
    (Int.tdiv (get (rowAt rows k).e dim + 1) 2) (hwf k hk).1 hpk (hmod.2 k hk) hpz
    (fun ri hri => hK.skip hdk ri hri) k rows (le_refl _)
    ⟨hk, rfl, fun i hi => ⟨(hwf i (by omega)).1, hkinds i hi, hmod.2 i (by omega)⟩⟩
  rw [if_pos rfl] at hloop
  unfold reduceReduced
  simp only [HasExpr.expr]
  split
  · exact RRel.refl _ _ _
  · exact hloop

end PPLV.Lattice.Red
