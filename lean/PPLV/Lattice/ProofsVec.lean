import PPLV.Lattice.Model
import PPLV.Lattice.ProofsAbs
import Mathlib.Algebra.Module.Pi
import Mathlib.Algebra.Order.Field.Rat
import Mathlib.Data.Rat.Lemmas

/-!
# K2: list vectors as valuations; bridge from the executable model to the abstract theory
-/
namespace PPLV.Lattice
open List

/-! ### `toFun` -/

@[simp] theorem toFun_nil : Vec.toFun [] = 0 := by funext i; simp [Vec.toFun]
@[simp] theorem toFun_cons_zero (a : Rat) (v : Vec) : Vec.toFun (a :: v) 0 = a := rfl
@[simp] theorem toFun_cons_succ (a : Rat) (v : Vec) (i : Nat) : Vec.toFun (a :: v) (i+1) = v.toFun i := rfl
@[simp] theorem toFun_cons_tail (a : Rat) (v : Vec) : (Vec.toFun (a :: v)).tail = v.toFun := rfl

theorem toFun_apply (v : Vec) (i : Nat) : v.toFun i = v.getD i 0 := rfl

theorem toFun_of_length_le (v : Vec) (i : Nat) (h : v.length ≤ i) : v.toFun i = 0 := by
  simp [Vec.toFun, List.getElem?_eq_none h]

theorem toFun_vadd (u v : Vec) : (vadd u v).toFun = u.toFun + v.toFun := by
  induction u generalizing v with
  | nil => simp [vadd]
  | cons a u ih =>
    cases v with
    | nil => simp [vadd]
    | cons b v =>
      funext i
      cases i with
      | zero => simp [vadd]
      | succ i => simp [vadd, ih v]

theorem toFun_vsmul (c : Rat) (v : Vec) : (vsmul c v).toFun = c • v.toFun := by
  induction v with
  | nil => simp [vsmul]
  | cons a v ih =>
    funext i
    cases i with
    | zero => simp [vsmul]
    | succ i =>
      have := congrFun ih i
      simp only [vsmul] at this
      simp [vsmul, this]

theorem toFun_vsub (u v : Vec) : (vsub u v).toFun = u.toFun - v.toFun := by
  simp [vsub, toFun_vadd, toFun_vsmul, sub_eq_add_neg]

theorem toFun_vaxpy (x : Vec) (c : Rat) (q : Vec) : (vaxpy x c q).toFun = x.toFun + c • q.toFun := by
  simp [vaxpy, toFun_vadd, toFun_vsmul]

theorem axpy_eq (x : Pt) (c : Rat) (q : Pt) : x.axpy c q = x + c • q := by
  funext i; simp [Pt.axpy]

theorem isZero_iff (v : Vec) : v.isZero = true ↔ v.toFun = 0 := by
  induction v with
  | nil => simp [Vec.isZero]
  | cons a v ih =>
    simp only [Vec.isZero, List.all_cons, Bool.and_eq_true, beq_iff_eq] at ih ⊢
    rw [ih]
    constructor
    · rintro ⟨h1, h2⟩; funext i
      cases i with
      | zero => simpa using h1
      | succ i => simpa using congrFun h2 i
    · intro h
      refine ⟨by simpa using congrFun h 0, ?_⟩
      funext i; simpa using congrFun h (i+1)

theorem length_vadd (u v : Vec) : (vadd u v).length = max u.length v.length := by
  induction u generalizing v with
  | nil => simp [vadd]
  | cons a u ih =>
    cases v with
    | nil => simp [vadd]
    | cons b v => simp [vadd, ih v]

@[simp] theorem length_vsmul (c : Rat) (v : Vec) : (vsmul c v).length = v.length := by simp [vsmul]

theorem length_vsub (u v : Vec) : (vsub u v).length = max u.length v.length := by
  simp [vsub, length_vadd]

theorem length_vaxpy (x : Vec) (c : Rat) (q : Vec) : (vaxpy x c q).length = max x.length q.length := by
  simp [vaxpy, length_vadd]

/-! ### `dot`, `dotF` -/

@[simp] theorem dotF_nil (x : Pt) : dotF [] x = 0 := rfl
@[simp] theorem dotF_cons (a : Rat) (as : Vec) (x : Pt) : dotF (a :: as) x = a * x 0 + dotF as x.tail := rfl

theorem tail_add (x y : Pt) : Pt.tail (x + y) = Pt.tail x + Pt.tail y := rfl
theorem tail_smul (c : Rat) (x : Pt) : Pt.tail (c • x) = c • Pt.tail x := rfl

theorem dotF_add (a : Vec) (x y : Pt) : dotF a (x + y) = dotF a x + dotF a y := by
  induction a generalizing x y with
  | nil => simp
  | cons c a ih => simp only [dotF_cons, tail_add, ih, Pi.add_apply]; ring

theorem dotF_smul (a : Vec) (c : Rat) (x : Pt) : dotF a (c • x) = c * dotF a x := by
  induction a generalizing x with
  | nil => simp
  | cons d a ih => simp only [dotF_cons, tail_smul, ih, Pi.smul_apply, smul_eq_mul]; ring

theorem dot_eq_dotF (a v : Vec) : dot a v = dotF a v.toFun := by
  induction a generalizing v with
  | nil => cases v <;> simp [dot]
  | cons c a ih =>
    cases v with
    | nil =>
      simp only [dot, toFun_nil, dotF_cons, Pi.zero_apply, mul_zero, zero_add]
      have : Pt.tail (0 : Pt) = (0 : Pt) := rfl
      rw [this]
      have h0 : (0 : Pt) = (0 : Rat) • (0 : Pt) := by simp
      rw [h0, dotF_smul]; simp
    | cons b v => simp [dot, ih v]

/-- the linear form `x ↦ Σ aᵢ xᵢ` -/
def alphaOf (a : Vec) : Pt →ₗ[ℚ] ℚ where
  toFun := dotF a
  map_add' := dotF_add a
  map_smul' := by intro c x; simp [dotF_smul]

@[simp] theorem alphaOf_apply (a : Vec) (x : Pt) : alphaOf a x = dotF a x := rfl
theorem alphaOf_toFun (a v : Vec) : alphaOf a v.toFun = dot a v := (dot_eq_dotF a v).symm

theorem dotF_agree (a : Vec) (x y : Pt) (h : ∀ i < a.length, x i = y i) : dotF a x = dotF a y := by
  induction a generalizing x y with
  | nil => rfl
  | cons c a ih =>
    simp only [dotF_cons]
    rw [h 0 (by simp), ih x.tail y.tail (fun i hi => h (i+1) (by simpa using hi))]

theorem dotF_unit (i : Nat) (x : Pt) : dotF (unit i) x = x i := by
  induction i generalizing x with
  | zero => simp [unit]
  | succ i ih =>
    have : unit (i+1) = 0 :: unit i := by simp [unit, List.replicate_succ]
    rw [this, dotF_cons, ih]; simp [Pt.tail]

theorem toFun_unit (i j : Nat) : (unit i).toFun j = if j = i then 1 else 0 := by
  induction i generalizing j with
  | zero =>
    cases j with
    | zero => simp [unit]
    | succ j => simp [unit, Vec.toFun]
  | succ i ih =>
    have : unit (i+1) = 0 :: unit i := by simp [unit, List.replicate_succ]
    rw [this]
    cases j with
    | zero => simp
    | succ j => simp [ih]

@[simp] theorem length_unit (i : Nat) : (unit i).length = i + 1 := by simp [unit]

/-! ### bridge to the abstract grids -/

def toAbs (g : Gens) : Abs.Grid Pt :=
  { pt := g.pt.toFun, params := g.params.map Vec.toFun, lines := g.lines.map Vec.toFun }

theorem mem_iff_abs (g : Gens) (x : Pt) : g.Mem x ↔ Abs.Mem (toAbs g) x := by
  constructor
  · intro h
    induction h with
    | pt => exact Abs.Mem.pt
    | param k hq _ ih =>
      rw [axpy_eq]; exact Abs.Mem.param k (List.mem_map_of_mem hq) ih
    | line c hl _ ih =>
      rw [axpy_eq]; exact Abs.Mem.line c (List.mem_map_of_mem hl) ih
  · intro h
    induction h with
    | pt => exact Gens.Mem.pt
    | param k hq _ ih =>
      obtain ⟨q, hq', rfl⟩ := List.mem_map.mp hq
      rw [← axpy_eq]; exact Gens.Mem.param k hq' ih
    | line c hl _ ih =>
      obtain ⟨l, hl', rfl⟩ := List.mem_map.mp hl
      rw [← axpy_eq]; exact Gens.Mem.line c hl' ih

/-- directions of a concrete generator system -/
def GDir (P L : List Vec) (v : Pt) : Prop := Abs.Dir (P.map Vec.toFun) (L.map Vec.toFun) v

theorem mem_iff_gdir (g : Gens) (x : Pt) : g.Mem x ↔ GDir g.params g.lines (x - g.pt.toFun) := by
  rw [mem_iff_abs, Abs.mem_iff_dir]; rfl

/-- membership only depends on the point and the set of directions -/
theorem mem_congr_dir (g h : Gens) (hpt : g.pt.toFun = h.pt.toFun)
    (hd : ∀ v, GDir g.params g.lines v ↔ GDir h.params h.lines v) (x : Pt) : g.Mem x ↔ h.Mem x := by
  rw [mem_iff_gdir, mem_iff_gdir, hpt, hd]

theorem gdir_dropZero (P L : List Vec) (v : Pt) :
    GDir (dropZero P) (dropZero L) v ↔ GDir P L v := by
  constructor
  · intro h
    refine Abs.Dir.mono_subset ?_ ?_ h
    · intro q hq
      obtain ⟨w, hw, rfl⟩ := List.mem_map.mp hq
      exact List.mem_map_of_mem (List.mem_filter.mp hw).1
    · intro q hq
      obtain ⟨w, hw, rfl⟩ := List.mem_map.mp hq
      exact List.mem_map_of_mem (List.mem_filter.mp hw).1
  · intro h
    have key : ∀ (X : List Vec) (q : Pt), q ∈ X.map Vec.toFun → q = 0 ∨ q ∈ (dropZero X).map Vec.toFun := by
      intro X q hq
      obtain ⟨w, hw, rfl⟩ := List.mem_map.mp hq
      by_cases hz : w.isZero = true
      · left; exact (isZero_iff w).mp hz
      · right; exact List.mem_map_of_mem (List.mem_filter.mpr ⟨hw, by simp [hz]⟩)
    exact Abs.Dir.mono_subset0 (key P) (key L) h

/-- support: all members vanish beyond the longest generator -/
theorem mem_supp (g : Gens) (n : Nat) (hn : g.maxLen ≤ n) (x : Pt) (h : g.Mem x) : Supp n x := by
  have hL : ∀ (X : List Vec), maxLenL X ≤ n → ∀ v ∈ X, v.length ≤ n := by
    intro X
    induction X with
    | nil => simp
    | cons a X ih =>
      intro hX v hv
      simp only [maxLenL, List.foldr_cons] at hX
      rcases List.mem_cons.mp hv with rfl | hv
      · omega
      · exact ih (by simp only [maxLenL]; omega) v hv
  simp only [Gens.maxLen] at hn
  induction h with
  | pt => intro i hi; exact toFun_of_length_le _ _ (by omega)
  | @param y q k hq _ ih =>
    intro i hi
    have := hL g.params (by omega) q hq
    simp [Pt.axpy, ih i hi, toFun_of_length_le q i (by omega)]
  | @line y l c hl _ ih =>
    intro i hi
    have := hL g.lines (by omega) l hl
    simp [Pt.axpy, ih i hi, toFun_of_length_le l i (by omega)]

end PPLV.Lattice
