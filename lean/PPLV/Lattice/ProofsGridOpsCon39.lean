import PPLV.Lattice.ProofsGridOpsCon34
import PPLV.Lattice.ProofsGridOpsLazy8
import PPLV.Lattice.ProofsGridOpsLazy6

/-!
# `Grid` stage 3, part 39: `map_space_dimensions(pfunc)`, the non-permutation case on the EMPTY grid: the empty grid of
# the new dimension.  (The non-empty non-permutation case — the generator rows rebuilt by `mkLine`/`mkParameter`/`mkPoint`
# and `construct` — is not treated.)
-/
namespace PPLV.Lattice.GO
open PPLV.Lattice PPLV.Lattice.Red

theorem cn_mapSD_nonperm_empty (g : Grid) (pf : PFunc) (hI : GridInv g) (hpos : 0 < g.spaceDim)
    (hne : pf.hasEmptyCodomain = false) (hdim : pf.maxInCodomain + 1 ≠ g.spaceDim) (hemp : g.sem = ∅) :
    (mapSpaceDimensions g pf).thrown = false ∧ GridInv (mapSpaceDimensions g pf).g ∧
      (mapSpaceDimensions g pf).g.spaceDim = pf.maxInCodomain + 1 ∧
      (mapSpaceDimensions g pf).g.sem = cn_pfMap pf g.spaceDim '' g.sem := by
  obtain ⟨g1, _, _, g4, _, _⟩ := gridGenerators_spec g hI
  have hme : (gridGenerators g).st.empty = true := g4.mpr hemp
  have hgen : (gridGenerators g).gen = [] := (g1.emp hme).2.1
  have heq : mapSpaceDimensions g pf = { g := constructDeg (pf.maxInCodomain + 1) false } := by
    unfold mapSpaceDimensions
    rw [if_neg (by omega), if_neg (by rw [hne]; simp)]
    simp only [if_neg hdim, hgen, List.isEmpty_nil, if_true]
  rw [heq]
  exact ⟨rfl, constructDeg_empty_inv _, constructDeg_spaceDim _ _, by rw [constructDeg_empty_sem, hemp, Set.image_empty]⟩

end PPLV.Lattice.GO
