import PPLV.Lattice.ProofsGridOpsCon30
import PPLV.Lattice.ProofsGridOpsCon13

/-!
# `Grid` stage 3, part 31: `map_space_dimensions(pfunc)`, the permutation case on the object

Hypothesis-free: the marked-empty object; the object described by its generators only.  With up-to-date congruences
(`_partial`): the congruence rows are permuted by `permuteRow` as well — that their solutions are the image is the explicit
hypothesis `hCon` (a re-indexing of the sum over a bijection, which needs `pf` injective; not proved here).
-/
namespace PPLV.Lattice.GO
open PPLV.Lattice PPLV.Lattice.Red

/-- the two steps of the permutation case -/
def cn_permCon (g : Grid) (pf : PFunc) : Grid :=
  if g.congruencesAreUpToDate then
    ({ g with con := g.con.map fun (c : CRow) => ({ c with e := permuteRow pf g.spaceDim c.e } : CRow) }).clearCongruencesMinimized
  else g
def cn_permGen (g1 : Grid) (pf : PFunc) (n : Nat) : Grid :=
  if g1.generatorsAreUpToDate then ({ g1 with gen := g1.gen.map (cn_permGRow pf n) }).clearGeneratorsMinimized else g1

theorem cn_mapSD_perm_eq (g : Grid) (pf : PFunc) (hpos : 0 < g.spaceDim) (hne : pf.hasEmptyCodomain = false)
    (hdim : pf.maxInCodomain + 1 = g.spaceDim)
    (hmoved : ((List.range g.spaceDim).any fun j => pf.maps j ≠ some j) = true) :
    mapSpaceDimensions g pf = { g := cn_permGen (cn_permCon g pf) pf g.spaceDim } := by
  unfold mapSpaceDimensions
  rw [if_neg (by omega), if_neg (by rw [hne]; simp)]
  simp only [hdim, if_true, hmoved, Bool.not_true, Bool.false_eq_true, if_false]
  rfl

/-- the permutation case on a marked-empty object: nothing happens -/
theorem cn_mapSD_perm_empty (g : Grid) (pf : PFunc) (hI : GridInv g) (he : g.st.empty = true) (hpos : 0 < g.spaceDim)
    (hne : pf.hasEmptyCodomain = false) (hdim : pf.maxInCodomain + 1 = g.spaceDim)
    (hmoved : ((List.range g.spaceDim).any fun j => pf.maps j ≠ some j) = true) :
    mapSpaceDimensions g pf = { g := g } := by
  rw [cn_mapSD_perm_eq g pf hpos hne hdim hmoved]
  have hst := (hI.emp he).1
  have hc : g.st.cUp = false := by rw [hst]; rfl
  have hg : g.st.gUp = false := by rw [hst]; rfl
  unfold cn_permCon
  rw [if_neg (show ¬ (g.congruencesAreUpToDate = true) by simp [Grid.congruencesAreUpToDate, hc])]
  unfold cn_permGen
  rw [if_neg (show ¬ (g.generatorsAreUpToDate = true) by simp [Grid.generatorsAreUpToDate, hg])]

/-- the permutation case on a grid described by its generators only: the image under the coordinate map -/
theorem cn_mapSD_perm_gen (g : Grid) (pf : PFunc) (hI : GridInv g) (he : g.st.empty = false) (hpos : 0 < g.spaceDim)
    (hne : pf.hasEmptyCodomain = false) (hdim : pf.maxInCodomain + 1 = g.spaceDim)
    (hmoved : ((List.range g.spaceDim).any fun j => pf.maps j ≠ some j) = true)
    (hrange : ∀ j, j < g.spaceDim → ∀ k, pf.maps j = some k → k < g.spaceDim)
    (hc : g.st.cUp = false) (hg : g.st.gUp = true) :
    (mapSpaceDimensions g pf).thrown = false ∧ GridInv (mapSpaceDimensions g pf).g ∧
      (mapSpaceDimensions g pf).g.spaceDim = g.spaceDim ∧
      (mapSpaceDimensions g pf).g.sem = cn_pfMap pf g.spaceDim '' g.sem := by
  rw [cn_mapSD_perm_eq g pf hpos hne hdim hmoved]
  have e1 : cn_permCon g pf = g := by
    unfold cn_permCon
    rw [if_neg (show ¬ (g.congruencesAreUpToDate = true) by simp [Grid.congruencesAreUpToDate, hc])]
  have e2 : cn_permGen g pf g.spaceDim =
      ({ g with gen := g.gen.map (cn_permGRow pf g.spaceDim) }).clearGeneratorsMinimized := by
    unfold cn_permGen; rw [if_pos (show g.generatorsAreUpToDate = true from hg)]
  rw [e1, e2]
  obtain ⟨hgd, hw, hN, hs⟩ := gn_sem_of_gUp hI hpos he hg
  obtain ⟨r1, r2, r3⟩ := cn_perm_rows pf g.spaceDim _ g.gen hw hN hrange
  have hcm : g.st.cMin = false := by
    by_contra h
    have := hI.cminUp (by simpa using h)
    rw [hc] at this; cases this
  have := gn_inv_gens (g := ({ g with gen := g.gen.map (cn_permGRow pf g.spaceDim) }).clearGeneratorsMinimized)
    hpos he hc hg hcm rfl (hI.hi0 he) hgd r1 r2
  refine ⟨rfl, this.1, rfl, ?_⟩
  rw [this.2]
  show gn_set (g.gen.map (cn_permGRow pf g.spaceDim)) = _
  rw [r3, hs]

theorem cn_permGen_pos (g1 : Grid) (pf : PFunc) (n : Nat) (h : g1.st.gUp = true) :
    cn_permGen g1 pf n = ({ g1 with gen := g1.gen.map (cn_permGRow pf n) }).clearGeneratorsMinimized := by
  unfold cn_permGen; rw [if_pos (show g1.generatorsAreUpToDate = true from h)]
theorem cn_permGen_neg (g1 : Grid) (pf : PFunc) (n : Nat) (h : ¬ g1.st.gUp = true) : cn_permGen g1 pf n = g1 := by
  unfold cn_permGen; rw [if_neg (show ¬ (g1.generatorsAreUpToDate = true) from h)]

/-- the permutation case with up-to-date congruences.  `hCon` (NOT proved here): the permuted congruence rows are well
    formed and their solutions are the image of the solutions — a re-indexing of `evalRow` over the bijection `pf` -/
theorem cn_mapSD_perm_con_partial (g : Grid) (pf : PFunc) (hI : GridInv g) (he : g.st.empty = false) (hpos : 0 < g.spaceDim)
    (hne : pf.hasEmptyCodomain = false) (hdim : pf.maxInCodomain + 1 = g.spaceDim)
    (hmoved : ((List.range g.spaceDim).any fun j => pf.maps j ≠ some j) = true)
    (hrange : ∀ j, j < g.spaceDim → ∀ k, pf.maps j = some k → k < g.spaceDim)
    (hc : g.st.cUp = true)
    (hCon : CWf g.spaceDim (g.con.map fun (c : CRow) => ({ c with e := permuteRow pf g.spaceDim c.e } : CRow)) ∧
      consSet g.spaceDim (g.con.map fun (c : CRow) => ({ c with e := permuteRow pf g.spaceDim c.e } : CRow)) =
        cn_pfMap pf g.spaceDim '' consSet g.spaceDim g.con) :
    (mapSpaceDimensions g pf).thrown = false ∧ GridInv (mapSpaceDimensions g pf).g ∧
      (mapSpaceDimensions g pf).g.spaceDim = g.spaceDim ∧
      (mapSpaceDimensions g pf).g.sem = cn_pfMap pf g.spaceDim '' g.sem := by
  rw [cn_mapSD_perm_eq g pf hpos hne hdim hmoved]
  obtain ⟨hcd, _⟩ := hI.cwf he hpos hc
  have e1 : cn_permCon g pf = ({ g with con := g.con.map fun (c : CRow) =>
      ({ c with e := permuteRow pf g.spaceDim c.e } : CRow) }).clearCongruencesMinimized := by
    unfold cn_permCon; rw [if_pos (show g.congruencesAreUpToDate = true from hc)]
  have hsem : g.sem = consSet g.spaceDim g.con := cn_sem_of_cUp g hI he hpos hc
  by_cases hg : g.st.gUp = true
  · obtain ⟨hgd, hw, hN, hs⟩ := gn_sem_of_gUp hI hpos he hg
    obtain ⟨r1, r2, r3⟩ := cn_perm_rows pf g.spaceDim _ g.gen hw hN hrange
    have hfp := gn_firstPointDiv r2
    have r2' : GNorm g.spaceDim (firstPointDiv (g.gen.map (cn_permGRow pf g.spaceDim))) (g.gen.map (cn_permGRow pf g.spaceDim)) := by
      rw [hfp]; exact r2
    rw [cn_permGen_pos (cn_permCon g pf) pf g.spaceDim (by rw [e1]; exact hg), e1]
    have hgs : gensSet g.spaceDim (g.gen.map (cn_permGRow pf g.spaceDim)) = cn_pfMap pf g.spaceDim '' g.sem := by
      rw [gn_bridge r2 r1, r3, hs]
    refine ⟨rfl, cn_inv_of_noMin _ hpos he rfl rfl (hI.hi0 he) (Or.inl hc) (fun _ => ⟨hcd, hCon.1⟩)
      (fun _ => ⟨hgd, r1, r2'⟩) (fun _ _ => ?_), rfl, ?_⟩
    · show consSet g.spaceDim (g.con.map _) = gensSet g.spaceDim (g.gen.map (cn_permGRow pf g.spaceDim))
      rw [hCon.2, hgs, hsem]
    · exact (cn_sem_of_gUp (({ (({ g with con := g.con.map fun (c : CRow) =>
        ({ c with e := permuteRow pf g.spaceDim c.e } : CRow) } : Grid).clearCongruencesMinimized) with
        gen := g.gen.map (cn_permGRow pf g.spaceDim) } : Grid).clearGeneratorsMinimized) he hpos hg).trans hgs
  · have hgf : g.st.gUp = false := by simpa using hg
    have hgm : g.st.gMin = false := by
      by_contra h; exact hg (hI.gminUp (by simpa using h))
    rw [cn_permGen_neg (cn_permCon g pf) pf g.spaceDim (by rw [e1]; exact hg), e1]
    have := cn_inv_of_conOnly (({ g with con := g.con.map fun (c : CRow) =>
      ({ c with e := permuteRow pf g.spaceDim c.e } : CRow) }).clearCongruencesMinimized) hpos he hc hgf rfl hgm
      (hI.hi0 he) hcd hCon.1
    refine ⟨rfl, this.1, rfl, ?_⟩
    rw [this.2]
    show consSet g.spaceDim (g.con.map _) = _
    rw [hCon.2, hsem]

end PPLV.Lattice.GO
