import PPLV.Lattice.Convert
/-!
# The `Grid` object — code-shaped model of /repo/src/Grid_nonpublic.cc, Grid_public.cc, Grid_chdims.cc (no Mathlib)

Part 1: the raw state, the primitives of `Congruence_System` / `Grid_Generator_System` the class uses, and the
lazy machinery (`set_empty`, `set_zero_dim_univ`, `update_congruences`, `update_generators`, `minimize`,
`congruences()`, `minimized_congruences()`, `grid_generators()`, `minimized_grid_generators()`, `is_empty`,
the constructors).

The state is what the C++ object holds (`Grid_defs.hh`): `space_dim`, the status word (`Grid_Status_idefs.hh:137`:
`ZERO_DIM_UNIV = 0`, `EMPTY = 1`, `C_UP_TO_DATE = 2`, `G_UP_TO_DATE = 4`, `C_MINIMIZED = 8`, `G_MINIMIZED = 16`; the
`SAT_*` and `*_PENDING` bits are never set by `Grid`, they are carried in `hi`), `con_sys` (its own space dimension and
rows), `gen_sys` (its own space dimension and rows), `dim_kinds`.  Rows are the raw rows of
`PPLV/Lattice/Reduce.lean`.  Where the C++ calls `simplify` / `conversion` / `normalize_divisors` the stage-2
models are called.  Functions are named after the C++ functions; file:line refer to the repaired tree.
-/
namespace PPLV.Lattice.Red

/-! ### `Linear_Expression` / row primitives -/

/-- a row of exactly `len` entries: truncated or padded with zeros (`set_space_dimension` of an expression) -/
def resizeRow (e : Row) (len : Nat) : Row := (List.range len).map fun i => get e i

/-- `Linear_Expression::gcd(0, size)`: non-negative gcd of all the entries -/
def rowGcd (e : Row) : Int := e.foldl (fun g x => gcdI g x) 0

/-- `Linear_Expression::normalize()` (Dense_Row.cc:396): divide by the gcd of all the entries -/
def normalizeRow (e : Row) : Row :=
  let g := rowGcd e
  if g = 0 ∨ g = 1 then e else e.map (· / g)

/-- index of the first non-zero entry at an index `≥ 1` -/
def firstNonZeroFrom1 (e : Row) : Option Int := (e.drop 1).find? (· ≠ 0)

/-- `Linear_Expression::sign_normalize()` (Linear_Expression_Impl_templates.hh:696): if the first non-zero
    homogeneous coefficient is negative the whole row (the inhomogeneous term too) is negated -/
def signNormalizeRow (e : Row) : Row :=
  match firstNonZeroFrom1 e with
  | some c => if c < 0 then e.map (fun x => -x) else e
  | none => e

/-- `expr.all_zeroes(start, end)` of a row of any size -/
def allZ (e : Row) (s t : Nat) : Bool := (List.range' s (t - s)).all fun i => get e i == 0

/-- `Scalar_Products::assign(z, x, y)` over the size of `x` -/
def sp (x y : Row) : Int := ((List.range x.length).map fun i => get x i * get y i).foldl (· + ·) 0
/-- `Scalar_Products::homogeneous_assign(z, x, y)`: indices `1 .. x.size()-1` -/
def spHom (x y : Row) : Int := ((List.range' 1 (x.length - 1)).map fun i => get x i * get y i).foldl (· + ·) 0

/-- a `Linear_Expression` argument: `e[0]` the inhomogeneous term, `e.length - 1` its space dimension -/
abbrev LinExpr := Row
def LinExpr.spaceDim (e : LinExpr) : Nat := e.length - 1
/-- `expr.coefficient(Variable(v))` -/
def LinExpr.coeff (e : LinExpr) (v : Nat) : Int := if v + 1 < e.length then get e (v + 1) else 0

/-! ### `Congruence` (Congruence.cc) -/

/-- `Congruence::space_dimension()` -/
def CRow.spaceDim (r : CRow) : Nat := r.e.length - 1
/-- `Congruence::set_space_dimension(n)` -/
def CRow.setSpaceDim (r : CRow) (n : Nat) : CRow := { r with e := resizeRow r.e (n + 1) }

/-- `Congruence::normalize()` (Congruence.cc:75) -/
def CRow.normalize (r : CRow) : CRow :=
  let e := signNormalizeRow r.e
  if r.m = 0 then { r with e := e }
  else
    let c0 := Int.tmod (get e 0) r.m
    let c := if c0 < 0 then c0 + r.m else c0
    { r with e := e.set 0 c }

/-- `Congruence::strong_normalize()` (Congruence.cc:95) -/
def CRow.strongNormalize (r : CRow) : CRow :=
  let r1 := r.normalize
  let g0 := rowGcd r1.e
  let g := if g0 = 0 then r1.m else gcdI r1.m g0
  if g ≠ 0 ∧ g ≠ 1 then { e := r1.e.map (· / g), m := r1.m / g } else r1

/-- `Congruence::is_tautological()` / `is_inconsistent()` (Congruence.cc:238, :246) -/
def CRow.isTautological (r : CRow) : Bool :=
  (if r.m = 0 then get r.e 0 == 0 else Int.tmod (get r.e 0) r.m == 0) && allZ r.e 1 r.e.length
def CRow.isInconsistent (r : CRow) : Bool :=
  (if r.m = 0 then get r.e 0 != 0 else Int.tmod (get r.e 0) r.m != 0) && allZ r.e 1 r.e.length

/-- `Congruence::affine_preimage(v, e, denominator)` (Congruence.cc:123) -/
def CRow.affinePreimage (r : CRow) (v : Nat) (e : LinExpr) (den : Int) : CRow :=
  let c := get r.e (v + 1)
  if c = 0 then r
  else
    let r1 := r.scale den
    let e1 := tab r1.e fun i => if i < e.length then get r1.e i + c * get e i else get r1.e i
    if v + 1 > e.spaceDim ∨ e.coeff v = 0 then { r1 with e := e1.set (v + 1) 0 }
    else { r1 with e := e1.set (v + 1) (c * e.coeff v) }

/-- `Congruence::zero_dim_false()`: `1 = 0` -/
def zeroDimFalse : CRow := { e := [1], m := 0 }

/-- `Grid_Generator::divisor()` is `Red.GRow.divisor`; `is_line()`, `is_parameter()`, `is_point()` -/
def GRow.isParameter (g : GRow) : Bool := !g.line && get g.e 0 == 0
def GRow.isPoint (g : GRow) : Bool := !g.line && get g.e 0 != 0
/-- `Grid_Generator::space_dimension()` -/
def GRow.spaceDim (g : GRow) : Nat := g.e.length - 2
/-- `all_homogeneous_terms_are_zero()` (Grid_Generator.cc:263): indices `1 .. space_dimension()` -/
def GRow.allHomZero (g : GRow) : Bool := allZ g.e 1 (g.e.length - 1)


/-- `Grid_Generator::set_space_dimension(n)` (Grid_Generator_inlines.hh): the parameter divisor column stays last -/
def GRow.setSpaceDim (g : GRow) (n : Nat) : GRow :=
  let old := g.spaceDim
  if n > old then
    let e1 := resizeRow g.e (n + 2)
    { g with e := (e1.set (n + 1) (get e1 (old + 1))).set (old + 1) (get e1 (n + 1)) }
  else
    let e1 := (g.e.set (n + 1) (get g.e (old + 1))).set (old + 1) (get g.e (n + 1))
    { g with e := resizeRow e1 (n + 2) }

/-- `Grid_Generator::strong_normalize()` of a line or point (Grid_Generator_inlines.hh:303) -/
def GRow.strongNormalize (g : GRow) : GRow :=
  let e := normalizeRow g.e
  { g with e := if g.line then signNormalizeRow e else e }

/-- `grid_line(Variable(v))` -/
def gridLineVar (v : Nat) : GRow := { line := true, e := (List.replicate (v + 3) 0).set (v + 1) 1 }
/-- `grid_point()` (the origin of the 0-dimensional space) -/
def gridPoint0 : GRow := { line := false, e := [1, 0] }

/-- `Grid_Generator::set_is_parameter()` (Grid_Generator.cc:204) -/
def GRow.setIsParameter (g : GRow) : GRow :=
  if g.line then { g with line := false }
  else if get g.e 0 ≠ 0 then { g with e := (g.e.set (g.e.length - 1) (get g.e 0)).set 0 0 }
  else g

/-- `Grid_Generator::is_equivalent_to` (Grid_Generator.cc:232) on rows of one system -/
def GRow.isEquivalentTo (x y : GRow) : Bool :=
  x.spaceDim == y.spaceDim && x.line == y.line && x.isParameter == y.isParameter &&
    (let clear (g : GRow) : Row := if g.isParameter then g.e else g.e.set (g.e.length - 1) 0
     normalizeRow (clear x) == normalizeRow (clear y))

end PPLV.Lattice.Red

namespace PPLV.Lattice.GO
open PPLV.Lattice.Red

/-! ### status (Grid_Status_inlines.hh) -/

structure Status where
  empty : Bool := false
  cUp : Bool := false
  gUp : Bool := false
  cMin : Bool := false
  gMin : Bool := false
  /-- the bits above `G_MINIMIZED` (never set by `Grid`) shifted down by 5 -/
  hi : Nat := 0
deriving Repr, Inhabited, DecidableEq, BEq

/-- `Status::set_zero_dim_univ()`: `flags = ZERO_DIM_UNIV` -/
def Status.zeroDimUniv : Status := {}
/-- `Status::test_zero_dim_univ()`: `flags == ZERO_DIM_UNIV` -/
def Status.testZeroDimUniv (s : Status) : Bool := s == {}
/-- `Status::set_empty()`: `flags = EMPTY` -/
def Status.setEmpty : Status := { empty := true }

def Status.toNat (s : Status) : Nat :=
  (if s.empty then 1 else 0) + (if s.cUp then 2 else 0) + (if s.gUp then 4 else 0) + (if s.cMin then 8 else 0)
    + (if s.gMin then 16 else 0) + 32 * s.hi
def Status.ofNat (f : Nat) : Status :=
  { empty := f % 2 == 1, cUp := f / 2 % 2 == 1, gUp := f / 4 % 2 == 1, cMin := f / 8 % 2 == 1, gMin := f / 16 % 2 == 1,
    hi := f / 32 }

/-! ### the object -/

structure Grid where
  spaceDim : Nat
  st : Status
  /-- `con_sys.space_dimension()` -/
  conDim : Nat
  con : List CRow
  /-- `gen_sys.space_dimension()` -/
  genDim : Nat
  gen : List GRow
  dk : List Nat
deriving Repr, Inhabited, DecidableEq, BEq

namespace Grid
def markedEmpty (g : Grid) : Bool := g.st.empty
def congruencesAreUpToDate (g : Grid) : Bool := g.st.cUp
def generatorsAreUpToDate (g : Grid) : Bool := g.st.gUp
def congruencesAreMinimized (g : Grid) : Bool := g.st.cMin
def generatorsAreMinimized (g : Grid) : Bool := g.st.gMin
/-- Grid_inlines.hh: `set_congruences_up_to_date` … `clear_generators_up_to_date` -/
def setCongruencesUpToDate (g : Grid) : Grid := { g with st := { g.st with cUp := true } }
def setGeneratorsUpToDate (g : Grid) : Grid := { g with st := { g.st with gUp := true } }
def setCongruencesMinimized (g : Grid) : Grid := { g with st := { g.st with cUp := true, cMin := true } }
def setGeneratorsMinimized (g : Grid) : Grid := { g with st := { g.st with gUp := true, gMin := true } }
def clearEmpty (g : Grid) : Grid := { g with st := { g.st with empty := false } }
def clearCongruencesMinimized (g : Grid) : Grid := { g with st := { g.st with cMin := false } }
def clearGeneratorsMinimized (g : Grid) : Grid := { g with st := { g.st with gMin := false } }
def clearCongruencesUpToDate (g : Grid) : Grid := { g with st := { g.st with cMin := false, cUp := false } }
def clearGeneratorsUpToDate (g : Grid) : Grid := { g with st := { g.st with gMin := false, gUp := false } }
end Grid

/-! ### `Congruence_System` (Congruence_System.cc, Congruence_System_inlines.hh) -/

structure CSys where
  dim : Nat
  rows : List CRow
deriving Repr, Inhabited, DecidableEq, BEq

/-- `Congruence_System::set_space_dimension(n)` -/
def CSys.setSpaceDim (s : CSys) (n : Nat) : CSys :=
  if s.dim ≠ n then { dim := n, rows := s.rows.map (·.setSpaceDim n) } else s

/-- `insert_verbatim(cg, Recycle_Input)` (Congruence_System.cc:106) -/
def CSys.insertVerbatim (s : CSys) (cg : CRow) : CSys :=
  if cg.spaceDim ≥ s.dim then
    let s1 := s.setSpaceDim cg.spaceDim
    { s1 with rows := s1.rows ++ [cg] }
  else { s with rows := s.rows ++ [cg.setSpaceDim s.dim] }

/-- `insert(const Congruence&)`: strong normalisation, then `insert_verbatim` (Congruence_System_inlines.hh:53) -/
def CSys.insert (s : CSys) (cg : CRow) : CSys := s.insertVerbatim cg.strongNormalize

/-- `insert(const Congruence_System&)` and `insert(Congruence_System&, Recycle_Input)` (Congruence_System.cc:137, :158):
    the rows are appended as they are, resized -/
def CSys.insertSys (s y : CSys) : CSys :=
  let s1 := if s.dim < y.dim then s.setSpaceDim y.dim else s
  { s1 with rows := s1.rows ++ y.rows.map (·.setSpaceDim s1.dim) }

/-- `Congruence_System(cg)`: a fresh system holding the normalised `cg` -/
def CSys.single (cg : CRow) : CSys := (CSys.mk 0 []).insert cg

/-- `normalize_moduli()` (Congruence_System.cc:187) -/
def CSys.normalizeModuli (s : CSys) : CSys := { s with rows := Red.normalizeModuli s.rows }

/-- `add_unit_rows_and_space_dimensions(dims)` (Congruence_System.cc:467): the new equalities come first, the one
    of the last new dimension in row 0 -/
def CSys.addUnitRowsAndSpaceDimensions (s : CSys) (dims : Nat) : CSys :=
  let s1 := s.setSpaceDim (s.dim + dims)
  let dim := s1.dim
  let unitRow (row : Nat) : CRow := { e := (List.replicate (dim + 1) 0).set (dim - row - 1 + 1) 1, m := 0 }
  { s1 with rows := (List.range dims).map unitRow ++ s1.rows }

/-- `concatenate(y)` (Congruence_System.cc:490) -/
def CSys.concatenate (s y : CSys) : CSys :=
  let oldDim := s.dim
  let s1 := s.setSpaceDim (s.dim + y.dim)
  let shift (r : CRow) : CRow :=
    { r with e := get r.e 0 :: (List.replicate oldDim 0 ++ (resizeRow r.e (y.dim + 1)).drop 1) }
  { s1 with rows := s1.rows ++ y.rows.map shift }

/-- `remove_rows(0, n, true)` (Congruence_System.cc:66) -/
def CSys.removeFirstRows (s : CSys) (n : Nat) : CSys := { s with rows := s.rows.drop n }

/-- `affine_preimage(v, expr, denominator)` (Congruence_System.cc:330) -/
def CSys.affinePreimage (s : CSys) (v : Nat) (e : LinExpr) (den : Int) : CSys :=
  { s with rows := s.rows.map (·.affinePreimage v e den) }

def CSys.numEqualities (s : CSys) : Nat := (s.rows.filter (·.isEquality)).length

/-- `satisfies_all_congruences(g)` (Congruence_System.cc:279); the scalar product runs over the generator's
    `space_dimension() + 1` entries -/
def CSys.satisfiesAll (s : CSys) (g : GRow) : Bool :=
  let spg (cg : CRow) : Int := ((List.range (g.spaceDim + 1)).map fun i => get g.e i * get cg.e i).foldl (· + ·) 0
  if g.line then s.rows.all fun cg => spg cg == 0
  else
    let divisor := g.divisor
    s.rows.all fun cg =>
      if cg.isEquality then spg cg == 0 else Int.tmod (spg cg) (cg.m * divisor) == 0

/-! ### `Grid_Generator` / `Grid_Generator_System` (Grid_Generator.cc, Grid_Generator_System.cc, Linear_System) -/

structure GSys where
  dim : Nat
  rows : List GRow
deriving Repr, Inhabited, DecidableEq, BEq

/-- `Grid_Generator_System::set_space_dimension(n)` -/
def GSys.setSpaceDim (s : GSys) (n : Nat) : GSys := { dim := n, rows := s.rows.map (·.setSpaceDim n) }

/-- `Linear_System::insert(row, Recycle_Input)` (Linear_System_templates.hh:262) -/
def GSys.sysInsert (s : GSys) (g : GRow) : GSys :=
  if s.dim < g.spaceDim then
    let s1 := s.setSpaceDim g.spaceDim
    { s1 with rows := s1.rows ++ [g] }
  else { s with rows := s.rows ++ [g.setSpaceDim s.dim] }

/-- `Grid_Generator_System::insert(g)` (Grid_Generator_System.cc:55): the origin as a parameter is dropped -/
def GSys.insert (s : GSys) (g : GRow) : GSys :=
  if g.isParameter && g.allHomZero then
    if s.dim < g.spaceDim then s.setSpaceDim g.spaceDim else s
  else s.sysInsert g

/-- `insert(gs, Recycle_Input)` (Grid_Generator_System.cc:35): every row through `Linear_System::insert` -/
def GSys.insertSys (s gs : GSys) : GSys :=
  let s1 := if s.dim < gs.dim then s.setSpaceDim gs.dim else s
  let gs1 := if s.dim < gs.dim then gs else gs.setSpaceDim s.dim
  gs1.rows.foldl GSys.sysInsert s1

/-- `remove_invalid_lines_and_parameters()` (Grid_Generator_System.cc:223): `remove_row(i, false)` swaps the
    last row into place; `fuel` = number of rows -/
def removeInvalidAux : Nat → Nat → List GRow → List GRow
  | 0, _, rows => rows
  | fuel + 1, i, rows =>
    if i < rows.length then
      let g := rowAt rows i
      if g.isLineOrParameter && g.allHomZero then
        removeInvalidAux fuel i ((rows.set i (rowAt rows (rows.length - 1))).take (rows.length - 1))
      else removeInvalidAux fuel (i + 1) rows
    else rows
def GSys.removeInvalidLinesAndParameters (s : GSys) : GSys :=
  { s with rows := removeInvalidAux s.rows.length 0 s.rows }

/-- `affine_image(v, expr, denominator)` (Grid_Generator_System.cc:66) -/
def GSys.affineImage (s : GSys) (v : Nat) (e : LinExpr) (den : Int) : GSys :=
  let s1 : GSys := { s with rows := s.rows.map fun row =>
    let numerator := sp e row.e
    let e1 := if den ≠ 1 then mulAll row.e den else row.e
    { row with e := e1.set (v + 1) numerator } }
  -- `v.space_dimension() >= expr.space_dimension()` as written (`>` would do): the last variable of `expr` counts as absent
  let notInvertible := v + 1 ≥ e.spaceDim ∨ e.coeff v = 0
  if notInvertible then s1.removeInvalidLinesAndParameters else s1

/-- `add_universe_rows_and_columns(dims)` (Grid_Generator_System.cc:173) -/
def GSys.addUniverseRowsAndColumns (s : GSys) (dims : Nat) : GSys :=
  let col := s.dim
  let s1 := s.setSpaceDim (s.dim + dims)
  { s1 with rows := s1.rows ++ (List.range dims).map fun i =>
      { line := true, e := (List.replicate (s1.dim + 2) 0).set (col + i + 1) 1 } }

/-- `remove_space_dimensions(vars)`: the columns of `vars` are erased (no row is dropped:
    `Grid_Generator::remove_space_dimensions` always answers `true`, Grid_Generator.cc:137) -/
def GSys.removeSpaceDimensions (s : GSys) (vars : List Nat) : GSys :=
  { dim := s.dim - vars.length,
    rows := s.rows.map fun g =>
      { g with e := ((List.range g.e.length).filter fun i => !(i ≥ 1 ∧ vars.contains (i - 1))).map (get g.e) } }

def GSys.hasPoints (s : GSys) : Bool := s.rows.any fun g => !g.isLineOrParameter
def GSys.numLines (s : GSys) : Nat := (s.rows.filter (·.line)).length

/-! ### `normalize_divisors` (Grid_nonpublic.cc:602, :645; Grid_inlines.hh) -/

/-- `normalize_divisors(sys)`: divisor 1 -/
def normalizeDivisors1 (s : GSys) : GSys := { s with rows := (normalizeDivisors s.dim s.rows 1).1 }

/-- `normalize_divisors(sys, divisor, first_point)` with `first_point ≠ nullptr` -/
def normalizeDivisorsFP (s : GSys) (divisor : Int) (firstPointDivisor : Int) : GSys :=
  if s.dim > 0 ∧ divisor > 0 then
    let d := lcmI divisor firstPointDivisor
    { s with rows := s.rows.map (·.scaleToDivisor d) }
  else s

/-- `normalize_divisors(sys, gen_sys)` (Grid_nonpublic.cc:602): returns `(sys, gen_sys)` -/
def normalizeDivisors2 (sys genSys : GSys) : GSys × GSys :=
  match genSys.rows.find? (fun g => !g.isLineOrParameter) with
  | none => (sys, genSys)          -- excluded by the callers: `gen_sys` holds a point
  | some firstPoint =>
    let genSysDivisor := firstPoint.divisor
    let r := normalizeDivisors sys.dim sys.rows genSysDivisor
    let sys1 : GSys := { sys with rows := r.1 }
    if r.2 ≠ genSysDivisor then (sys1, normalizeDivisorsFP genSys r.2 genSysDivisor) else (sys1, genSys)

/-! ### `set_empty`, `set_zero_dim_univ`, the constructors (Grid_nonpublic.cc:51-179, :469-491) -/

/-- the inconsistent system of dimension `n`: `Congruence_System(zero_dim_false())`, `set_space_dimension(n)` -/
def falseCSys (n : Nat) : CSys := (CSys.single zeroDimFalse).setSpaceDim n

/-- Grid_nonpublic.cc:478 `set_empty()` -/
def setEmpty (g : Grid) : Grid :=
  let cs := falseCSys g.spaceDim
  { g with st := Status.setEmpty, genDim := g.spaceDim, gen := [], conDim := cs.dim, con := cs.rows }

/-- Grid_nonpublic.cc:469 `set_zero_dim_univ()` -/
def setZeroDimUniv (g : Grid) : Grid :=
  { g with st := Status.zeroDimUniv, spaceDim := 0, conDim := 0, con := [], genDim := 0, gen := [gridPoint0] }

/-- the state a constructor starts from: default `Status` (`ZERO_DIM_UNIV`), empty `dim_kinds` -/
def blank (n : Nat) : Grid := { spaceDim := n, st := {}, conDim := 0, con := [], genDim := n, gen := [], dk := [] }

/-- Grid_nonpublic.cc:51 `construct(num_dimensions, kind)`; `univ = false` is `EMPTY` -/
def constructDeg (n : Nat) (univ : Bool) : Grid :=
  let g0 := blank n
  if !univ then
    let cs := falseCSys n
    { g0 with st := Status.setEmpty, conDim := cs.dim, con := cs.rows }
  else if n = 0 then setZeroDimUniv g0
  else
    let g1 := (g0.setCongruencesMinimized).setGeneratorsMinimized
    let gs0 : GSys := (GSys.mk n []).insert gridPoint0
    let gs := (List.range n).foldl (fun s d => s.insert (gridLineVar d)) gs0
    { g1 with conDim := n, con := [{ e := 1 :: List.replicate n 0, m := 1 }],
              genDim := gs.dim, gen := gs.rows,
              dk := PROPER_CONGRUENCE :: List.replicate n CON_VIRTUAL }

/-- Grid_nonpublic.cc:102 `construct(Congruence_System& cgs)` (the callers prepared `con_sys(cgs.dim)`, `gen_sys(cgs.dim)`) -/
def constructCgs (cgs : CSys) : Grid :=
  let g0 : Grid := { blank cgs.dim with conDim := cgs.dim }
  if cgs.dim > 0 then
    let cs := cgs.normalizeModuli
    ({ g0 with conDim := cs.dim, con := cs.rows }).setCongruencesUpToDate
  else if cgs.rows.any (·.isInconsistent) then
    let cs := (CSys.mk 0 []).insert zeroDimFalse
    { g0 with st := Status.setEmpty, conDim := cs.dim, con := cs.rows }
  else setZeroDimUniv g0

/-- Grid_nonpublic.cc:140 `construct(Grid_Generator_System& ggs)`; `none`: `throw_invalid_generators` -/
def constructGgs (ggs : GSys) : Option Grid :=
  let g0 : Grid := { blank ggs.dim with conDim := ggs.dim }
  if ggs.rows.isEmpty then
    let cs := (CSys.mk ggs.dim []).insert zeroDimFalse
    some { g0 with st := Status.setEmpty, conDim := cs.dim, con := cs.rows }
  else if !ggs.hasPoints then none
  else if ggs.dim = 0 then some (setZeroDimUniv g0)
  else
    let gs := normalizeDivisors1 ggs
    some ({ g0 with genDim := gs.dim, gen := gs.rows }).setGeneratorsUpToDate

/-- Grid_public.cc:38 the copy constructor -/
def copyCtor (y : Grid) : Grid :=
  let x : Grid := { spaceDim := y.spaceDim, st := y.st, conDim := 0, con := [], genDim := 0, gen := [], dk := y.dk }
  if y.markedEmpty then setEmpty x
  else if y.spaceDim = 0 then { x with conDim := y.conDim, con := y.con, genDim := y.genDim, gen := y.gen }
  else
    let x1 := if y.congruencesAreUpToDate then { x with conDim := y.conDim, con := y.con } else { x with conDim := y.spaceDim }
    if y.generatorsAreUpToDate then { x1 with genDim := y.genDim, gen := y.gen } else { x1 with genDim := y.spaceDim, gen := [] }

/-- Grid_public.cc:255 `operator=` -/
def assign (x y : Grid) : Grid :=
  let x0 := { x with spaceDim := y.spaceDim, dk := y.dk }
  if y.markedEmpty then setEmpty x0
  else if y.spaceDim = 0 then setZeroDimUniv x0
  else
    let x1 := { x0 with st := y.st }
    let x2 := if y.congruencesAreUpToDate then { x1 with conDim := y.conDim, con := y.con } else x1
    if y.generatorsAreUpToDate then { x2 with genDim := y.genDim, gen := y.gen } else x2

/-! ### `simplify` on the object's own systems -/

/-- `simplify(gen_sys, dim_kinds)` (Grid_simplify.cc:252) -/
def simplifyGenSys (g : Grid) : Grid :=
  let r := simplifyGens g.genDim g.gen g.dk
  { g with gen := r.1, dk := r.2 }

/-- `simplify(con_sys, dim_kinds)` (Grid_simplify.cc:390): the object and the emptiness flag -/
def simplifyConSys (g : Grid) : Grid × Bool :=
  let r := simplifyCgs g.conDim g.con g.dk
  ({ g with con := r.1, dk := r.2.1 }, r.2.2)

/-! ### the lazy machinery (Grid_nonpublic.cc:493-600) -/

/-- Grid_nonpublic.cc:493 `update_congruences()` -/
def updateCongruences (g : Grid) : Grid :=
  let g1 := if !g.generatorsAreMinimized then simplifyGenSys g else g
  let cs := conversionGensToCgs g1.genDim g1.gen g1.dk
  (({ g1 with conDim := g1.genDim, con := cs }).setCongruencesMinimized).setGeneratorsMinimized

/-- Grid_nonpublic.cc:520 `update_generators()` -/
def updateGenerators (g : Grid) : Grid × Bool :=
  let r : Grid × Bool := if !g.congruencesAreMinimized then simplifyConSys g else (g, false)
  if r.2 then (setEmpty r.1, false)
  else
    let g1 := r.1
    let gs := conversionCgsToGens g1.conDim g1.con g1.dk
    ((({ g1 with genDim := g1.conDim, gen := gs }).setCongruencesMinimized).setGeneratorsMinimized, true)

/-- Grid_nonpublic.cc:546 `minimize()` -/
def minimize (g : Grid) : Grid × Bool :=
  if g.markedEmpty then (g, false)
  else if g.spaceDim = 0 then (g, true)
  else if g.congruencesAreMinimized && g.generatorsAreMinimized then (g, true)
  else if g.congruencesAreUpToDate then
    if g.generatorsAreUpToDate then
      if g.congruencesAreMinimized then ((simplifyGenSys g).setGeneratorsMinimized, true)
      else
        let g1 := ((simplifyConSys g).1).setCongruencesMinimized
        if !g1.generatorsAreMinimized then ((simplifyGenSys g1).setGeneratorsMinimized, true) else (g1, true)
    else updateGenerators g
  else (updateCongruences g, true)

/-- Grid_public.cc:776 `is_empty()` -/
def isEmpty (g : Grid) : Grid × Bool :=
  if g.markedEmpty then (g, true)
  else if g.generatorsAreUpToDate then (g, false)
  else if g.spaceDim = 0 then (g, false)
  else if g.congruencesAreMinimized then (g, false)
  else
    let r := simplifyConSys g
    if r.2 then (setEmpty r.1, true) else (r.1.setCongruencesMinimized, false)

/-- Grid_public.cc:304 `congruences()` -/
def congruences (g : Grid) : Grid :=
  if g.markedEmpty then g
  else if g.spaceDim = 0 then g
  else if !g.congruencesAreUpToDate then updateCongruences g else g

/-- Grid_public.cc:323 `minimized_congruences()` -/
def minimizedCongruences (g : Grid) : Grid :=
  let g1 :=
    if g.congruencesAreUpToDate && !g.congruencesAreMinimized then
      let r := simplifyConSys g
      if r.2 then setEmpty r.1 else r.1.setCongruencesMinimized
    else g
  congruences g1

/-- Grid_public.cc:338 `grid_generators()` -/
def gridGenerators (g : Grid) : Grid :=
  if g.spaceDim = 0 then g
  else if g.markedEmpty then g
  else if !g.generatorsAreUpToDate then
    let r := updateGenerators g
    if !r.2 then setEmpty r.1 else r.1
  else g

/-- Grid_public.cc:360 `minimized_grid_generators()` -/
def minimizedGridGenerators (g : Grid) : Grid :=
  if g.spaceDim = 0 then g
  else if g.markedEmpty then g
  else if g.generatorsAreUpToDate then
    if !g.generatorsAreMinimized then (simplifyGenSys g).setGeneratorsMinimized else g
  else
    let r := updateGenerators g
    if !r.2 then setEmpty r.1 else r.1

/-- views of the two systems -/
def Grid.cs (g : Grid) : CSys := { dim := g.conDim, rows := g.con }
def Grid.gs (g : Grid) : GSys := { dim := g.genDim, rows := g.gen }
def Grid.withCs (g : Grid) (s : CSys) : Grid := { g with conDim := s.dim, con := s.rows }
def Grid.withGs (g : Grid) (s : GSys) : Grid := { g with genDim := s.dim, gen := s.rows }

end PPLV.Lattice.GO
