import PPLV.Lattice.ProofsGridOpsCon31
import PPLV.Lattice.ProofsGridOpsCon21

/-!
# `Grid` stage 3, part 34: `map_space_dimensions(pfunc)`, the permutation case — the congruence rows (`permuteRow`) for a
# bijection `pf` of `{0..n-1}`: their solutions are the image (closes `hCon` of `cn_mapSD_perm_con_partial`)
-/
namespace PPLV.Lattice.GO
open PPLV.Lattice PPLV.Lattice.Red

/-- `pf` is a bijection of `{0, …, n-1}` -/
structure cn_IsPerm (pf : PFunc) (n : Nat) : Prop where
  tot : ∀ j, j < n → ∃ k, pf.maps j = some k
  range : ∀ j, j < n → ∀ k, pf.maps j = some k → k < n
  inj : ∀ j1 j2 k, j1 < n → j2 < n → pf.maps j1 = some k → pf.maps j2 = some k → j1 = j2
  surj : ∀ k, k < n → ∃ j, j < n ∧ pf.maps j = some k

/-- the image of `j`, the preimage of `k` -/
def cn_fw (pf : PFunc) (j : Nat) : Nat := (pf.maps j).getD 0
def cn_bw (pf : PFunc) (n k : Nat) : Nat := ((List.range n).find? (fun j => pf.maps j = some k)).getD 0

theorem cn_bw_spec {pf : PFunc} {n : Nat} (h : cn_IsPerm pf n) (k : Nat) (hk : k < n) :
    (List.range n).find? (fun j => pf.maps j = some k) = some (cn_bw pf n k) ∧ cn_bw pf n k < n ∧
      pf.maps (cn_bw pf n k) = some k := by
  obtain ⟨j, hj, hjk⟩ := h.surj k hk
  cases hf : (List.range n).find? (fun j => pf.maps j = some k) with
  | none =>
    rw [List.find?_eq_none] at hf
    exact absurd hjk (by simpa using hf j (List.mem_range.mpr hj))
  | some j' =>
    have := cn_find_lt pf n k j' hf
    have e : cn_bw pf n k = j' := by unfold cn_bw; rw [hf]; rfl
    rw [e]; exact ⟨rfl, this⟩

theorem cn_fw_spec {pf : PFunc} {n : Nat} (h : cn_IsPerm pf n) (j : Nat) (hj : j < n) :
    pf.maps j = some (cn_fw pf j) ∧ cn_fw pf j < n := by
  obtain ⟨k, hk⟩ := h.tot j hj
  have e : cn_fw pf j = k := by unfold cn_fw; rw [hk]; rfl
  rw [e]; exact ⟨hk, h.range j hj k hk⟩

theorem cn_fw_bw {pf : PFunc} {n : Nat} (h : cn_IsPerm pf n) (k : Nat) (hk : k < n) : cn_fw pf (cn_bw pf n k) = k := by
  have := (cn_bw_spec h k hk).2.2
  unfold cn_fw; rw [this]; rfl

theorem cn_bw_fw {pf : PFunc} {n : Nat} (h : cn_IsPerm pf n) (j : Nat) (hj : j < n) : cn_bw pf n (cn_fw pf j) = j := by
  obtain ⟨h1, h2⟩ := cn_fw_spec h j hj
  obtain ⟨_, b2, b3⟩ := cn_bw_spec h _ h2
  exact h.inj _ _ _ b2 hj b3 h1

/-- the point read through `pf`: `x_j = y_{pf j}` -/
def cn_pull (pf : PFunc) (n : Nat) (y : Pt) : Pt := fun j => if j < n then y (cn_fw pf j) else 0

theorem cn_pfMap_pull {pf : PFunc} {n : Nat} (h : cn_IsPerm pf n) (y : Pt) (hy : Supp n y) :
    cn_pfMap pf n (cn_pull pf n y) = y := by
  funext k
  rw [cn_pfMap_apply]
  by_cases hk : k < n
  · obtain ⟨b1, b2, _⟩ := cn_bw_spec h k hk
    rw [b1]; simp only
    unfold cn_pull; rw [if_pos b2, cn_fw_bw h k hk]
  · have : (List.range n).find? (fun j => pf.maps j = some k) = none := by
      rw [List.find?_eq_none]; intro j hj
      have hj' := List.mem_range.mp hj
      intro hc
      exact hk (h.range j hj' k (by simpa using hc))
    rw [this]; exact (hy k (by omega)).symm

theorem cn_pull_pfMap {pf : PFunc} {n : Nat} (h : cn_IsPerm pf n) (x : Pt) (hx : Supp n x) :
    cn_pull pf n (cn_pfMap pf n x) = x := by
  funext j
  unfold cn_pull
  by_cases hj : j < n
  · rw [if_pos hj, cn_pfMap_apply]
    obtain ⟨_, h2⟩ := cn_fw_spec h j hj
    rw [(cn_bw_spec h _ h2).1]; simp only
    rw [cn_bw_fw h j hj]
  · rw [if_neg hj]; exact (hx j (by omega)).symm

theorem cn_pfMap_supp {pf : PFunc} {n : Nat} (h : cn_IsPerm pf n) (x : Pt) : Supp n (cn_pfMap pf n x) := by
  intro k hk
  rw [cn_pfMap_apply]
  have : (List.range n).find? (fun j => pf.maps j = some k) = none := by
    rw [List.find?_eq_none]; intro j hj hc
    have := h.range j (List.mem_range.mp hj) k (by simpa using hc)
    omega
  rw [this]

/-- the value of a permuted congruence row at `y` is the value of the row at the pulled-back point -/
theorem cn_evalRow_perm {pf : PFunc} {n : Nat} (h : cn_IsPerm pf n) (e : Row) (hl : e.length = n + 1) (y : Pt) :
    evalRow (permuteRow pf n e) y = evalRow e (cn_pull pf n y) := by
  rw [cn_evalRow_lam, cn_evalRow_lam, cn_permuteRow_get0, cn_lam_sum, cn_lam_sum, cn_permuteRow_length, hl]
  congr 1
  simp only [Nat.add_sub_cancel]
  refine Finset.sum_nbij' (cn_bw pf n) (cn_fw pf) ?_ ?_ ?_ ?_ ?_
  · intro k hk; exact Finset.mem_range.mpr (cn_bw_spec h k (Finset.mem_range.mp hk)).2.1
  · intro j hj; exact Finset.mem_range.mpr (cn_fw_spec h j (Finset.mem_range.mp hj)).2
  · intro k hk; exact cn_fw_bw h k (Finset.mem_range.mp hk)
  · intro j hj; exact cn_bw_fw h j (Finset.mem_range.mp hj)
  · intro k hk
    have hk' := Finset.mem_range.mp hk
    obtain ⟨b1, b2, _⟩ := cn_bw_spec h k hk'
    have hget : Red.get (permuteRow pf n e) (k + 1) = Red.get e (cn_bw pf n k + 1) := by
      unfold permuteRow
      rw [get_tab, if_pos (by omega), if_pos (by omega)]
      simp only [Nat.add_sub_cancel]
      rw [b1]
    rw [hget]
    unfold cn_pull
    rw [if_pos b2, cn_fw_bw h k hk']

/-- the congruence system after the permutation: well formed, and its solutions are the image -/
theorem cn_perm_con {pf : PFunc} {n : Nat} (h : cn_IsPerm pf n) (con : List CRow) (hw : CWf n con) :
    CWf n (con.map fun (c : CRow) => ({ c with e := permuteRow pf n c.e } : CRow)) ∧
    consSet n (con.map fun (c : CRow) => ({ c with e := permuteRow pf n c.e } : CRow)) = cn_pfMap pf n '' consSet n con := by
  constructor
  · intro r' hr'
    obtain ⟨c, hc, rfl⟩ := List.mem_map.mp hr'
    exact ⟨by show (permuteRow pf n c.e).length = _; rw [cn_permuteRow_length]; exact (hw c hc).1, (hw c hc).2⟩
  · have hrs : ∀ c ∈ con, ∀ y, rsem ({ c with e := permuteRow pf n c.e } : CRow) y ↔ rsem c (cn_pull pf n y) := by
      intro c hc y
      unfold rsem
      simp only
      rw [cn_evalRow_perm h c.e (hw c hc).1 y]
    ext y
    simp only [cn_mem_consSet, Set.mem_image, List.mem_map, forall_exists_index, and_imp, forall_apply_eq_imp_iff₂, cn_mem_set]
    constructor
    · rintro ⟨hy, hall⟩
      refine ⟨cn_pull pf n y, ⟨fun j hj => by unfold cn_pull; rw [if_neg (by omega)], fun c hc => ?_⟩, cn_pfMap_pull h y hy⟩
      exact (hrs c hc y).mp (hall c hc)
    · rintro ⟨x, ⟨hx, hall⟩, rfl⟩
      refine ⟨cn_pfMap_supp h x, fun c hc => ?_⟩
      rw [hrs c hc, cn_pull_pfMap h x hx]
      exact hall c hc

/-- `map_space_dimensions` by a permutation `pf` that moves something, on a grid that is not marked empty: the image of
    the grid under the coordinate permutation, whatever is up to date — hypothesis-free -/
theorem cn_mapSD_perm (g : Grid) (pf : PFunc) (hI : GridInv g) (he : g.st.empty = false) (hpos : 0 < g.spaceDim)
    (hne : pf.hasEmptyCodomain = false) (hdim : pf.maxInCodomain + 1 = g.spaceDim)
    (hmoved : ((List.range g.spaceDim).any fun j => pf.maps j ≠ some j) = true) (hperm : cn_IsPerm pf g.spaceDim) :
    (mapSpaceDimensions g pf).thrown = false ∧ GridInv (mapSpaceDimensions g pf).g ∧
      (mapSpaceDimensions g pf).g.spaceDim = g.spaceDim ∧
      (mapSpaceDimensions g pf).g.sem = cn_pfMap pf g.spaceDim '' g.sem := by
  by_cases hc : g.st.cUp = true
  · exact cn_mapSD_perm_con_partial g pf hI he hpos hne hdim hmoved hperm.range hc
      (cn_perm_con hperm g.con (hI.cwf he hpos hc).2)
  · exact cn_mapSD_perm_gen g pf hI he hpos hne hdim hmoved hperm.range (by simpa using hc)
      ((hI.some he hpos).resolve_left hc)

example : (mapSpaceDimensions (addSpaceDimensionsAndEmbed cn_exGrid 1) [some 1, some 0]).g.con = [{ e := [0, 0, 1], m := 2 }] := by
  decide

end PPLV.Lattice.GO
