import PPLV.Lattice.ProofsGridOpsLazy23

/-!
# The affine transformers — part 24: `generalized_affine_image(lhs, relsym, rhs, modulus)` and
# `generalized_affine_preimage(lhs, relsym, rhs, modulus)` (Grid_public.cc:2313, :2456): the exits, the relation symbols
# other than `=` (the lines of the variables of `lhs` are added), the constant `lhs` (one congruence is added)
-/
namespace PPLV.Lattice.GO
open PPLV.Lattice PPLV.Lattice.Red

/-- `S + ℚ·e_v` -/
def lz_addLine (S : Set Pt) (v : Nat) : Set Pt := {y | ∃ a ∈ S, ∃ c : ℚ, y = a + c • (unit v).toFun}

theorem lz_addLine_nonempty {S : Set Pt} (h : S.Nonempty) (v : Nat) : (lz_addLine S v).Nonempty := by
  obtain ⟨a, ha⟩ := h
  exact ⟨a, a, ha, 0, by simp⟩

theorem lz_addLine_empty (v : Nat) : lz_addLine ∅ v = ∅ := by ext y; simp [lz_addLine]

theorem lz_foldl_addLine_empty (vs : List Nat) : vs.foldl lz_addLine ∅ = ∅ := by
  induction vs with
  | nil => rfl
  | cons v vs ih => rw [List.foldl_cons, lz_addLine_empty, ih]

/-- the loop `for each variable of lhs: add_grid_generator(grid_line(var))` -/
theorem lz_foldLines_spec (n : Nat) (hn : 0 < n) : ∀ (vs : List Nat) (r0 : R), (∀ v ∈ vs, v + 1 ≤ n) →
    r0.thrown = false → GridInv r0.g → r0.g.spaceDim = n → (r0.g.sem).Nonempty →
    (vs.foldl (fun (r : R) v => if r.thrown then r else addGridGenerator r.g (gridLineVar v)) r0).thrown = false ∧
    GridInv (vs.foldl (fun (r : R) v => if r.thrown then r else addGridGenerator r.g (gridLineVar v)) r0).g ∧
    (vs.foldl (fun (r : R) v => if r.thrown then r else addGridGenerator r.g (gridLineVar v)) r0).g.spaceDim = n ∧
    (vs.foldl (fun (r : R) v => if r.thrown then r else addGridGenerator r.g (gridLineVar v)) r0).g.sem =
      vs.foldl lz_addLine r0.g.sem
  | [], r0, _, h1, h2, h3, _ => ⟨h1, h2, h3, rfl⟩
  | v :: vs, r0, hv, h1, h2, h3, h4 => by
    rw [List.foldl_cons, List.foldl_cons]
    have hstep : (if r0.thrown = true then r0 else addGridGenerator r0.g (gridLineVar v)) =
        addGridGenerator r0.g (gridLineVar v) := by rw [h1]; rfl
    rw [hstep]
    have hsd : (gridLineVar v).spaceDim ≤ r0.g.spaceDim := by
      rw [gn_spaceDim_of_len (gn_gridLineVar_len v), h3]; exact hv v (by simp)
    obtain ⟨a, b, c, _, e⟩ := gn_addGridGenerator ensureGenerators_spec r0.g h2 (gridLineVar v) (lz_gridLineVar_ok v) hsd
      (by rw [h3]; exact hn)
    have hnt : (addGridGenerator r0.g (gridLineVar v)).thrown = false := by
      cases ht : (addGridGenerator r0.g (gridLineVar v)).thrown
      · rfl
      · have := (c.mp ht).1; rw [this] at h4; exact absurd h4 Set.not_nonempty_empty
    have hsem : (addGridGenerator r0.g (gridLineVar v)).g.sem = lz_addLine r0.g.sem v := by
      rw [(e hnt).1 rfl, gn_gridLineVar_vecOf]; rfl
    have := lz_foldLines_spec n hn vs (addGridGenerator r0.g (gridLineVar v)) (fun w hw => hv w (by simp [hw])) hnt a
      (b.trans h3) (by rw [hsem]; exact lz_addLine_nonempty h4 v)
    rw [hsem] at this
    exact this

theorem lz_mem_varsOf {e : LinExpr} {v : Nat} (h : v ∈ varsOf e) : v + 1 ≤ e.spaceDim := by
  unfold varsOf at h
  have := (List.mem_filter.mp h).1
  rw [List.mem_range] at this
  unfold LinExpr.spaceDim; omega

/-- the branch of the relation symbols other than `=` (shared by image and preimage) -/
def lz_lrLines (g : Grid) (lhs : LinExpr) : R :=
  if (lz_minGen g).markedEmpty = true then { g := lz_minGen g }
  else (varsOf lhs).foldl (fun (r : R) v => if r.thrown then r else addGridGenerator r.g (gridLineVar v)) { g := lz_minGen g }

theorem lz_lrLines_spec (g : Grid) (lhs : LinExpr) (hI : GridInv g) (hl : lhs.spaceDim ≤ g.spaceDim) :
    (lz_lrLines g lhs).thrown = false ∧ GridInv (lz_lrLines g lhs).g ∧ (lz_lrLines g lhs).g.spaceDim = g.spaceDim ∧
    (lz_lrLines g lhs).g.sem = (varsOf lhs).foldl lz_addLine g.sem := by
  unfold lz_lrLines
  by_cases hvs : varsOf lhs = []
  · -- no variable: nothing but the `minimize`
    have hg1 : GridInv (lz_minGen g) ∧ (lz_minGen g).sem = g.sem ∧ (lz_minGen g).spaceDim = g.spaceDim := by
      unfold lz_minGen
      split
      · obtain ⟨m1, m2, m3, _⟩ := minimize_spec g hI; exact ⟨m1, m2, m3⟩
      · exact ⟨hI, rfl, rfl⟩
    rw [hvs]
    split
    · exact ⟨rfl, hg1.1, hg1.2.2, by rw [List.foldl_nil]; exact hg1.2.1⟩
    · exact ⟨rfl, hg1.1, hg1.2.2, by rw [List.foldl_nil]; exact hg1.2.1⟩
  · obtain ⟨v, hv⟩ := List.exists_mem_of_ne_nil _ hvs
    have hpos : 0 < g.spaceDim := by have := lz_mem_varsOf hv; omega
    obtain ⟨m1, m2, m3, m4, m5⟩ := lz_minGen_spec g hI hpos
    by_cases he : (lz_minGen g).st.empty = true
    · rw [if_pos (show (lz_minGen g).markedEmpty = true from he)]
      refine ⟨rfl, m1, m3, ?_⟩
      rw [m2, m4.mp he, lz_foldl_addLine_empty]
    · rw [if_neg (show ¬ ((lz_minGen g).markedEmpty = true) from he)]
      have he' : (lz_minGen g).st.empty = false := by simpa using he
      obtain ⟨a, b, c, d⟩ := lz_foldLines_spec g.spaceDim hpos (varsOf lhs) { g := lz_minGen g }
        (fun w hw => by have := lz_mem_varsOf hw; omega) rfl m1 m3 (by rw [m2]; exact (m5 he').2)
      exact ⟨a, b, c, by rw [d, m2]⟩

/-! ### `(lhs %= rhs) / m` -/

theorem lz_cgCreate_facts (lhs rhs : LinExpr) (m : Int) (n : Nat) (h1 : lhs.spaceDim ≤ n) (h2 : rhs.spaceDim ≤ n)
    (hl : lhs ≠ []) :
    (cgCreate lhs rhs m).spaceDim ≤ n ∧ 0 ≤ (cgCreate lhs rhs m).m ∧ (cgCreate lhs rhs m).e ≠ [] := by
  have hlen : (cgCreate lhs rhs m).e.length = max lhs.length rhs.length := by
    simp [cgCreate, resizeRow]
  have hl0 : 0 < lhs.length := List.length_pos_of_ne_nil hl
  refine ⟨?_, ?_, ?_⟩
  · unfold CRow.spaceDim; rw [hlen]; unfold LinExpr.spaceDim at h1 h2; omega
  · show 0 ≤ absI m; unfold absI; split <;> omega
  · intro h; rw [h] at hlen; simp at hlen; omega

/-! ### the two functions -/

theorem lz_gaiLR_relsym_eq (g : Grid) (lhs : LinExpr) (relsym : Nat) (rhs : LinExpr)
    (hdim : ¬ (g.spaceDim < lhs.spaceDim ∨ g.spaceDim < rhs.spaceDim)) (hne : g.st.empty = false)
    (hr1 : relsym ≠ NOT_EQUAL) (hr2 : relsym ≠ EQUAL) :
    generalizedAffineImageLR g lhs relsym rhs 0 = lz_lrLines g lhs ∧
    generalizedAffinePreimageLR g lhs relsym rhs 0 = lz_lrLines g lhs := by
  constructor
  · unfold generalizedAffineImageLR
    rw [if_neg hdim, if_neg hr1, if_neg (show ¬ (relsym ≠ EQUAL ∧ (0 : Int) ≠ 0) from fun h => h.2 rfl),
      if_neg (show ¬ (g.markedEmpty = true) by simpa [Grid.markedEmpty] using hne), if_pos hr2]
    rfl
  · unfold generalizedAffinePreimageLR
    rw [if_neg hdim, if_neg hr1, if_neg (show ¬ (relsym ≠ EQUAL ∧ (0 : Int) ≠ 0) from fun h => h.2 rfl),
      if_neg (show ¬ (g.markedEmpty = true) by simpa [Grid.markedEmpty] using hne), if_pos hr2]
    rfl

/-- **relation symbols `<`, `≤`, `≥`, `>`** (`modulus = 0`), image and preimage alike: the lines of the variables of `lhs`
    are added -/
theorem generalizedAffineImageLR_relsym (g : Grid) (lhs : LinExpr) (relsym : Nat) (rhs : LinExpr) (hI : GridInv g)
    (hne : g.st.empty = false) (h1 : lhs.spaceDim ≤ g.spaceDim) (h2 : rhs.spaceDim ≤ g.spaceDim)
    (hr1 : relsym ≠ NOT_EQUAL) (hr2 : relsym ≠ EQUAL) :
    (generalizedAffineImageLR g lhs relsym rhs 0).thrown = false ∧
    GridInv (generalizedAffineImageLR g lhs relsym rhs 0).g ∧
    (generalizedAffineImageLR g lhs relsym rhs 0).g.spaceDim = g.spaceDim ∧
    (generalizedAffineImageLR g lhs relsym rhs 0).g.sem = (varsOf lhs).foldl lz_addLine g.sem := by
  rw [(lz_gaiLR_relsym_eq g lhs relsym rhs (by omega) hne hr1 hr2).1]
  exact lz_lrLines_spec g lhs hI h1

theorem generalizedAffinePreimageLR_relsym (g : Grid) (lhs : LinExpr) (relsym : Nat) (rhs : LinExpr) (hI : GridInv g)
    (hne : g.st.empty = false) (h1 : lhs.spaceDim ≤ g.spaceDim) (h2 : rhs.spaceDim ≤ g.spaceDim)
    (hr1 : relsym ≠ NOT_EQUAL) (hr2 : relsym ≠ EQUAL) :
    (generalizedAffinePreimageLR g lhs relsym rhs 0).thrown = false ∧
    GridInv (generalizedAffinePreimageLR g lhs relsym rhs 0).g ∧
    (generalizedAffinePreimageLR g lhs relsym rhs 0).g.spaceDim = g.spaceDim ∧
    (generalizedAffinePreimageLR g lhs relsym rhs 0).g.sem = (varsOf lhs).foldl lz_addLine g.sem := by
  rw [(lz_gaiLR_relsym_eq g lhs relsym rhs (by omega) hne hr1 hr2).2]
  exact lz_lrLines_spec g lhs hI h1

/-- **`relsym = EQUAL`, constant `lhs`** (`lhs.last_nonzero() = 0`), image and preimage alike: the congruence
    `lhs ≡ rhs (mod |modulus|)` is added -/
theorem generalizedAffineLR_const (g : Grid) (lhs rhs : LinExpr) (modulus : Int) (hI : GridInv g)
    (hne : g.st.empty = false) (h1 : lhs.spaceDim ≤ g.spaceDim) (h2 : rhs.spaceDim ≤ g.spaceDim) (hl : lhs ≠ [])
    (h0 : lastNonzero lhs = 0) :
    generalizedAffineImageLR g lhs EQUAL rhs modulus = { g := addCongruenceNoCheck g (cgCreate lhs rhs (absI modulus)) } ∧
    generalizedAffinePreimageLR g lhs EQUAL rhs modulus = { g := addCongruenceNoCheck g (cgCreate lhs rhs (absI modulus)) } ∧
    GridInv (addCongruenceNoCheck g (cgCreate lhs rhs (absI modulus))) ∧
    (addCongruenceNoCheck g (cgCreate lhs rhs (absI modulus))).sem = g.sem ∩ CRow.set (cgCreate lhs rhs (absI modulus)) ∧
    (addCongruenceNoCheck g (cgCreate lhs rhs (absI modulus))).spaceDim = g.spaceDim := by
  obtain ⟨p1, p2, p3⟩ := lz_cgCreate_facts lhs rhs (absI modulus) g.spaceDim h1 h2 hl
  obtain ⟨c1, c2, c3⟩ := cn_addCongruenceNoCheck updateCongruences_spec g _ hI hne p1 p2 p3
  refine ⟨?_, ?_, c1, c2, c3⟩
  · unfold generalizedAffineImageLR
    rw [if_neg (show ¬ (g.spaceDim < lhs.spaceDim ∨ g.spaceDim < rhs.spaceDim) by omega),
      if_neg (show ¬ (EQUAL = NOT_EQUAL) by decide), if_neg (show ¬ (EQUAL ≠ EQUAL ∧ modulus ≠ 0) from fun h => h.1 rfl),
      if_neg (show ¬ (g.markedEmpty = true) by simpa [Grid.markedEmpty] using hne),
      if_neg (show ¬ (EQUAL ≠ EQUAL) by simp)]
    simp only [h0, if_true]
  · unfold generalizedAffinePreimageLR
    rw [if_neg (show ¬ (g.spaceDim < lhs.spaceDim ∨ g.spaceDim < rhs.spaceDim) by omega),
      if_neg (show ¬ (EQUAL = NOT_EQUAL) by decide), if_neg (show ¬ (EQUAL ≠ EQUAL ∧ modulus ≠ 0) from fun h => h.1 rfl),
      if_neg (show ¬ (g.markedEmpty = true) by simpa [Grid.markedEmpty] using hne),
      if_neg (show ¬ (EQUAL ≠ EQUAL) by simp)]
    simp only [h0, if_true]

/-- the argument checks (before the test for the marked-empty grid, a13dde6) and the marked-empty receiver, image and
    preimage alike -/
theorem generalizedAffineLR_exits (g : Grid) (lhs : LinExpr) (relsym : Nat) (rhs : LinExpr) (modulus : Int) :
    ((g.spaceDim < lhs.spaceDim ∨ g.spaceDim < rhs.spaceDim ∨ relsym = NOT_EQUAL ∨ (relsym ≠ EQUAL ∧ modulus ≠ 0)) →
      generalizedAffineImageLR g lhs relsym rhs modulus = { g := g, thrown := true } ∧
      generalizedAffinePreimageLR g lhs relsym rhs modulus = { g := g, thrown := true }) ∧
    (¬ (g.spaceDim < lhs.spaceDim ∨ g.spaceDim < rhs.spaceDim ∨ relsym = NOT_EQUAL ∨ (relsym ≠ EQUAL ∧ modulus ≠ 0)) →
      g.st.empty = true →
      generalizedAffineImageLR g lhs relsym rhs modulus = { g := g } ∧
      generalizedAffinePreimageLR g lhs relsym rhs modulus = { g := g }) := by
  constructor
  · intro h
    by_cases hdim : g.spaceDim < lhs.spaceDim ∨ g.spaceDim < rhs.spaceDim
    · constructor
      · unfold generalizedAffineImageLR; rw [if_pos hdim]
      · unfold generalizedAffinePreimageLR; rw [if_pos hdim]
    by_cases hr1 : relsym = NOT_EQUAL
    · constructor
      · unfold generalizedAffineImageLR; rw [if_neg hdim, if_pos hr1]
      · unfold generalizedAffinePreimageLR; rw [if_neg hdim, if_pos hr1]
    have hr3 : relsym ≠ EQUAL ∧ modulus ≠ 0 := by
      rcases h with h | h | h | h
      · exact absurd (Or.inl h) hdim
      · exact absurd (Or.inr h) hdim
      · exact absurd h hr1
      · exact h
    constructor
    · unfold generalizedAffineImageLR; rw [if_neg hdim, if_neg hr1, if_pos hr3]
    · unfold generalizedAffinePreimageLR; rw [if_neg hdim, if_neg hr1, if_pos hr3]
  · intro h he
    have hdim : ¬ (g.spaceDim < lhs.spaceDim ∨ g.spaceDim < rhs.spaceDim) := fun h' =>
      h (h'.elim Or.inl (fun x => Or.inr (Or.inl x)))
    have hr1 : ¬ relsym = NOT_EQUAL := fun h' => h (Or.inr (Or.inr (Or.inl h')))
    have hr3 : ¬ (relsym ≠ EQUAL ∧ modulus ≠ 0) := fun h' => h (Or.inr (Or.inr (Or.inr h')))
    constructor
    · unfold generalizedAffineImageLR
      rw [if_neg hdim, if_neg hr1, if_neg hr3, if_pos (show g.markedEmpty = true from he)]
    · unfold generalizedAffinePreimageLR
      rw [if_neg hdim, if_neg hr1, if_neg hr3, if_pos (show g.markedEmpty = true from he)]

/-- `x ≡ 1 (mod 2)` in dimension 2 (point `(1,0)`, parameter `(2,0)`, line `y`), `x ≤ …`: the line of `x` is added -/
example :
    let g : Grid := Grid.mk 2 { gUp := true } 2 [] 2 [⟨false, [1, 1, 0, 0]⟩, ⟨false, [0, 2, 0, 1]⟩, ⟨true, [0, 0, 1, 0]⟩] []
    invB g = true ∧ (generalizedAffineImageLR g [0, 1] 1 [0, 0, 1] 0).thrown = false ∧
      invB (generalizedAffineImageLR g [0, 1] 1 [0, 0, 1] 0).g = true := by decide +kernel

end PPLV.Lattice.GO
