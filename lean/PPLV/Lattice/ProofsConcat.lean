import PPLV.Lattice.ProofsDims

/-!
# K2: `concat` is the product of the two grids
-/
set_option linter.unusedSimpArgs false
namespace PPLV.Lattice
open List

/-- `z ↦ (0,…,0, z₀, z₁, …)` (`n` zeros) -/
def shiftLin (n : Nat) : Pt →ₗ[ℚ] Pt where
  toFun z j := if j < n then 0 else z (j - n)
  map_add' x y := by funext j; by_cases h : j < n <;> simp [h]
  map_smul' c x := by funext j; by_cases h : j < n <;> simp [h]

theorem shiftLin_apply (n : Nat) (z : Pt) (j : Nat) : shiftLin n z j = if j < n then 0 else z (j - n) := rfl

theorem toFun_replicate_append (n : Nat) (v : Vec) : Vec.toFun (List.replicate n (0:Rat) ++ v) = shiftLin n v.toFun := by
  funext j
  rw [shiftLin_apply]
  simp only [Vec.toFun, List.getD_eq_getElem?_getD]
  by_cases h : j < n
  · simp [h, List.getElem?_append_left (by simpa using h : j < (List.replicate n (0:Rat)).length)]
  · simp only [h, if_false]
    rw [List.getElem?_append_right (by simp only [List.length_replicate]; omega)]
    simp

theorem toFun_append_of_length (u v : Vec) (n : Nat) (hu : u.length = n) : Vec.toFun (u ++ v) = fun j => if j < n then u.toFun j else v.toFun (j - n) := by
  funext j
  simp only [Vec.toFun, List.getD_eq_getElem?_getD]
  by_cases h : j < n
  · simp [h, List.getElem?_append_left (by omega : j < u.length)]
  · simp only [h, if_false]
    rw [List.getElem?_append_right (by omega), hu]

theorem length_padTo (n : Nat) (v : Vec) : (padTo n v).length = n := by simp [padTo, vecOfFn]

theorem dir_image (φ : Pt →ₗ[ℚ] Pt) (P L : List Pt) {v : Pt} (h : Abs.Dir P L v) : Abs.Dir (P.map φ) (L.map φ) (φ v) := by
  induction h with
  | zero => simpa using Abs.Dir.zero
  | param k hq _ ih => rw [map_add, map_smul]; exact Abs.Dir.param k (List.mem_map_of_mem hq) ih
  | line c hl _ ih => rw [map_add, map_smul]; exact Abs.Dir.line c (List.mem_map_of_mem hl) ih

/-- the product of two grids, the first of dimension `n` -/
theorem concat_sem (n : Nat) (G H : GridGens) (hG : ∀ x, Gen.sem G x → Supp n x) (y : Pt) :
    Gen.sem (concat n G H) y ↔ ∃ x z, Gen.sem G x ∧ Gen.sem H z ∧ y = x + shiftLin n z := by
  cases G with
  | empty => simp [concat, Gen.sem]
  | gens g =>
    cases H with
    | empty => simp [concat, Gen.sem]
    | gens h =>
      simp only [concat, Gen.sem]
      have hpt : Vec.toFun (padTo n g.pt ++ h.pt) = g.pt.toFun + shiftLin n h.pt.toFun := by
        rw [toFun_append_of_length _ _ n (length_padTo n g.pt), toFun_padTo]
        have hs := hG _ (Gens.Mem.pt (g := g))
        funext j
        simp only [Pi.add_apply, shiftLin_apply]
        by_cases hj : j < n
        · simp [hj]
        · simp [hj, hs j (by omega)]
      have hsh : ∀ X : List Vec, (X.map (fun v => List.replicate n (0:Rat) ++ v)).map Vec.toFun = (X.map Vec.toFun).map (shiftLin n) := by
        intro X; simp only [List.map_map]; apply List.map_congr_left; intro v _; exact toFun_replicate_append n v
      constructor
      · intro hy
        rw [mem_iff_gdir] at hy
        simp only [GDir, List.map_append, hsh, hpt] at hy
        -- decompose the direction
        have split : ∀ v, Abs.Dir (g.params.map Vec.toFun ++ (h.params.map Vec.toFun).map (shiftLin n))
            (g.lines.map Vec.toFun ++ (h.lines.map Vec.toFun).map (shiftLin n)) v →
            ∃ a b, GDir g.params g.lines a ∧ GDir h.params h.lines b ∧ v = a + shiftLin n b := by
          intro v hv
          induction hv with
          | zero => exact ⟨0, 0, Abs.Dir.zero, Abs.Dir.zero, by simp⟩
          | @param w q k hq _ ih =>
            obtain ⟨a, b, ha, hb, rfl⟩ := ih
            rcases List.mem_append.mp hq with hq | hq
            · exact ⟨a + (k:Rat) • q, b, Abs.Dir.param k hq ha, hb, by module⟩
            · obtain ⟨q0, hq0, rfl⟩ := List.mem_map.mp hq
              exact ⟨a, b + (k:Rat) • q0, ha, Abs.Dir.param k hq0 hb, by rw [map_add, map_smul]; module⟩
          | @line w l c hl _ ih =>
            obtain ⟨a, b, ha, hb, rfl⟩ := ih
            rcases List.mem_append.mp hl with hl | hl
            · exact ⟨a + c • l, b, Abs.Dir.line c hl ha, hb, by module⟩
            · obtain ⟨l0, hl0, rfl⟩ := List.mem_map.mp hl
              exact ⟨a, b + c • l0, ha, Abs.Dir.line c hl0 hb, by rw [map_add, map_smul]; module⟩
        obtain ⟨a, b, ha, hb, hab⟩ := split _ hy
        refine ⟨g.pt.toFun + a, h.pt.toFun + b, ?_, ?_, ?_⟩
        · rw [mem_iff_gdir]; simpa using ha
        · rw [mem_iff_gdir]; simpa using hb
        · rw [map_add]
          have : y = (g.pt.toFun + shiftLin n h.pt.toFun) + (y - (g.pt.toFun + shiftLin n h.pt.toFun)) := by module
          rw [this, hab]; module
      · rintro ⟨x, z, hx, hz, rfl⟩
        rw [mem_iff_gdir] at hx hz ⊢
        simp only [GDir, List.map_append, hsh, hpt]
        have e : x + shiftLin n z - (g.pt.toFun + shiftLin n h.pt.toFun) = (x - g.pt.toFun) + shiftLin n (z - h.pt.toFun) := by
          rw [map_sub]; module
        rw [e]
        refine Abs.Dir.add (Abs.Dir.mono_subset ?_ ?_ hx) (Abs.Dir.mono_subset ?_ ?_ (dir_image (shiftLin n) _ _ hz))
        · intro q hq; exact List.mem_append_left _ hq
        · intro q hq; exact List.mem_append_left _ hq
        · intro q hq; exact List.mem_append_right _ hq
        · intro q hq; exact List.mem_append_right _ hq

end PPLV.Lattice
