import PPLV.Lattice.ProofsGridOpsGen42

/-!
# Generator side of the `Grid` object, part 43 — `Grid::is_bounded()` (Grid_public.cc:838): the answer says whether the grid
# has at most one point
-/
namespace PPLV.Lattice.GO
open PPLV.Lattice PPLV.Lattice.Red

theorem gn_lop_iff {n : Nat} {D : Int} {rows : List GRow} (hN : GNorm n D rows) {r : GRow} (hr : r ∈ rows) :
    (r.isLineOrParameter = false ↔ gn_isPt r = true) ∧ (r.isLineOrParameter = true ↔ get r.e 0 = 0) := by
  have h2 : r.isLineOrParameter = true ↔ get r.e 0 = 0 := by simp [GRow.isLineOrParameter]
  refine ⟨?_, h2⟩
  constructor
  · intro h
    have h0 : get r.e 0 ≠ 0 := by simpa [GRow.isLineOrParameter] using h
    have hl : r.line = false := by
      cases hl : r.line with
      | false => rfl
      | true => exact absurd (hN.lin r hr hl) h0
    exact (gn_isPt_iff r).mpr ⟨hl, h0⟩
  · intro h
    simpa [GRow.isLineOrParameter] using ((gn_isPt_iff r).mp h).2

/-- **the loop of `is_bounded()` on a normalised generator system** -/
theorem gn_bounded_rows {n : Nat} {D : Int} {rows : List GRow} (hN : GNorm n D rows) (hw : GWf n rows) :
    isBoundedLoop none rows.reverse = true ↔ (gn_set rows).Subsingleton := by
  have hDne : D ≠ 0 := ne_of_gt hN.pos
  have hwf := gn_wf_of_gnorm hN hw
  -- the reference point of the loop
  obtain ⟨p, hfind⟩ : ∃ p, rows.reverse.find? (fun r => !r.isLineOrParameter) = some p := by
    cases hf : rows.reverse.find? (fun r => !r.isLineOrParameter) with
    | some p => exact ⟨p, rfl⟩
    | none =>
      obtain ⟨r, hr, hl, h0⟩ := hN.pt
      have := List.find?_eq_none.mp hf r (List.mem_reverse.mpr hr)
      simp [GRow.isLineOrParameter, h0, hDne] at this
  have hp : p ∈ rows := List.mem_reverse.mp (List.mem_of_find?_eq_some hfind)
  have hplop : p.isLineOrParameter = false := by simpa using List.find?_some hfind
  have ppt : gn_isPt p = true := (gn_lop_iff hN hp).1.mp hplop
  obtain ⟨pl, p0⟩ := (gn_isPt_iff p).mp ppt
  have pD : get p.e 0 = D := by
    rcases hN.col0 p hp pl with q | q
    · exact absurd q p0
    · exact q
  rw [gn_isBoundedLoop_none, hfind]
  constructor
  · rintro ⟨hH, hE⟩
    have hE' := hE p rfl
    have hsub : gn_set rows ⊆ {gn_vecOf p} := by
      have hzero : ∀ r ∈ rows, get r.e 0 = 0 → gn_vecOf r = 0 := fun r hr h0 =>
        gn_vecOf_allHomZero (hH r (List.mem_reverse.mpr hr) ((gn_lop_iff hN hr).2.mpr h0))
      refine gn_mem_least ?_ ?_ ?_ ?_
      · rintro _ h1 _ h2 _ h3 k
        rw [Set.mem_singleton_iff] at *
        subst h1 h2 h3; simp
      · intro r hr pr
        have hb := hE' r (List.mem_reverse.mpr hr)
        unfold gn_bRow at hb
        rw [(gn_lop_iff hN hr).1.mpr pr] at hb
        simp only [Bool.false_eq_true, if_false] at hb
        obtain ⟨_, _, hv⟩ := gn_equiv_rows (hw r hr) (hw p hp) ((gn_isPt_iff r).mp pr).1 hb
        rw [Set.mem_singleton_iff, hv]
      · intro r hr pr a ha k
        rw [hzero r hr ((gn_isPar_iff r).mp pr).2]; simpa using ha
      · intro r hr hl a ha q
        rw [hzero r hr (hN.lin r hr hl)]; simpa using ha
    exact Set.subsingleton_singleton.anti hsub
  · intro hS
    obtain ⟨a0, ha0⟩ := gn_mem_nonempty hwf.pt
    have hH : ∀ r ∈ rows.reverse, r.isLineOrParameter = true → r.allHomZero = true := by
      intro r hr hlop
      have hr' := List.mem_reverse.mp hr
      have h0 := (gn_lop_iff hN hr').2.mp hlop
      have hv : gn_vecOf r = 0 := by
        have hmem : a0 + gn_vecOf r ∈ gn_set rows := by
          show gn_Mem rows (a0 + gn_vecOf r)
          cases hl : r.line with
          | true => have := gn_mem_line_step hr' hl ha0 1; simpa using this
          | false =>
            have := gn_mem_par_step hr' ((gn_isPar_iff r).mpr ⟨hl, h0⟩) ha0 1; simpa using this
        have := hS hmem ha0
        have e : gn_vecOf r = (a0 + gn_vecOf r) - a0 := by module
        rw [e, this]; simp
      exact gn_allHomZero_of_vecOf (hw r hr') (fun hl => by rw [gn_divisor_of_gnorm hN hw hr' hl]; exact hDne) hv
    refine ⟨hH, fun p' hp' r hr => ?_⟩
    have : p = p' := by simpa using hp'
    subst this
    have hr' := List.mem_reverse.mp hr
    unfold gn_bRow
    cases hlop : r.isLineOrParameter with
    | true => simp only [if_true]; exact hH r hr hlop
    | false =>
      simp only [Bool.false_eq_true, if_false]
      have rpt := (gn_lop_iff hN hr').1.mp hlop
      obtain ⟨rl, r0⟩ := (gn_isPt_iff r).mp rpt
      have rD : get r.e 0 = D := by
        rcases hN.col0 r hr' rl with q | q
        · exact absurd q r0
        · exact q
      exact gn_equiv_of_vecOf hDne (hw r hr') (hw p hp) rl pl rD pD (hS (gn_mem_pt hr' rpt) (gn_mem_pt hp ppt))

/-- **`Grid::is_bounded()`**: the invariant and the denotation are kept and the answer says whether the grid has at most
    one point -/
theorem gn_isBounded (g : Grid) (hI : GridInv g) :
    GridInv (isBounded g).1 ∧ (isBounded g).1.sem = g.sem ∧ (isBounded g).1.spaceDim = g.spaceDim ∧
    ((isBounded g).2 = true ↔ g.sem.Subsingleton) := by
  unfold isBounded
  by_cases h0 : g.spaceDim = 0 ∨ g.markedEmpty = true
  · rw [if_pos h0]
    refine ⟨hI, rfl, rfl, ⟨fun _ => ?_, fun _ => rfl⟩⟩
    cases he : g.st.empty with
    | true => rw [gn_sem_of_empty he]; exact Set.subsingleton_empty
    | false =>
      rcases h0 with h0 | h0
      · rw [gn_sem_dim0 he h0]
        intro x hx y hy
        funext i
        rw [hx i (Nat.zero_le i), hy i (Nat.zero_le i)]
      · rw [show g.st.empty = true from h0] at he; cases he
  · rw [if_neg h0]
    have hn : 0 < g.spaceDim := by
      by_contra h; exact h0 (Or.inl (by omega))
    have he : g.st.empty = false := by
      cases he : g.st.empty with
      | false => rfl
      | true => exact absurd (Or.inr he) h0
    simp only [show (if (!g.generatorsAreUpToDate) = true then updateGenerators g else (g, true)) = gn_incX g from rfl]
    obtain ⟨a, b, c, d, e⟩ := gn_incX_spec updateGenerators_spec g hI he hn
    cases h2 : (gn_incX g).2 with
    | false =>
      simp only [Bool.not_false, if_true]
      exact ⟨a, b, c, ⟨fun _ => by rw [e h2]; exact Set.subsingleton_empty, fun _ => trivial⟩⟩
    | true =>
      simp only [Bool.not_true, Bool.false_eq_true, if_false]
      obtain ⟨g1, g2⟩ := d h2
      obtain ⟨_, w, N, s⟩ := gn_sem_of_gUp a (by rw [c]; exact hn) g1 g2
      by_cases hlen : (gn_incX g).1.gen.length > 1
      · rw [if_pos hlen]
        refine ⟨a, b, c, ?_⟩
        rw [← b, s]
        exact gn_bounded_rows N w
      · rw [if_neg hlen]
        refine ⟨a, b, c, ⟨fun _ => ?_, fun _ => rfl⟩⟩
        rw [← b, s]
        obtain ⟨p, hp, pp⟩ := (gn_wf_of_gnorm N w).pt
        have hrows : (gn_incX g).1.gen = [p] := by
          cases hg : (gn_incX g).1.gen with
          | nil => rw [hg] at hp; cases hp
          | cons x l =>
            rw [hg] at hlen hp
            have : l = [] := by
              cases l with
              | nil => rfl
              | cons y l' => simp at hlen
            subst this
            rw [List.mem_singleton.mp hp]
        rw [hrows, gn_set_single_pt p pp]
        exact Set.subsingleton_singleton

end PPLV.Lattice.GO
