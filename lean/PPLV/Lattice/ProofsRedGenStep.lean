import PPLV.Lattice.ProofsRedGenBase

/-!
# `Grid::simplify(Grid_Generator_System&)`: every elementary step keeps the lattice (up to a positive scale)

`HomSim n rows rows'` unfolds to `∃ k : ℤ, 0 < k ∧ ∀ v, Hom n rows v ↔ Hom n rows' ((k:ℚ) • v)`.
`IStep` bundles what one pass of the inner loop guarantees (sizes, the zero prefix of the rows from the pivot
on, line flags and signs of the other rows, the lattice).
-/
namespace PPLV.Lattice.Red
open PPLV.Lattice

/-- rows have `n + 2` entries (index form of `GWf`) -/
def WfI (n : Nat) (rows : List GRow) : Prop := ∀ i, i < rows.length → (rowAt rows i).e.length = n + 2

/-- the rows from index `p` on vanish in the columns before `dim` -/
def ZeroPre (p dim : Nat) (rows : List GRow) : Prop :=
  ∀ i, p ≤ i → i < rows.length → ∀ c, c < dim → get (rowAt rows i).e c = 0

/-- rows before index `p` keep their line flag and the signs of their entries in the columns before `D` -/
def PreRel (p D : Nat) (rows rows' : List GRow) : Prop :=
  ∀ j, j < p → (rowAt rows' j).line = (rowAt rows j).line ∧
    ∀ c, c < D → (get (rowAt rows' j).e c).sign = (get (rowAt rows j).e c).sign

theorem PreRel.refl (p D : Nat) (rows : List GRow) : PreRel p D rows rows := fun _ _ => ⟨rfl, fun _ _ => rfl⟩

theorem PreRel.trans {p D : Nat} {r1 r2 r3 : List GRow} (h1 : PreRel p D r1 r2) (h2 : PreRel p D r2 r3) :
    PreRel p D r1 r3 := fun j hj =>
  ⟨(h2 j hj).1.trans (h1 j hj).1, fun c hc => ((h2 j hj).2 c hc).trans ((h1 j hj).2 c hc)⟩

theorem wfI_of_gwf {n : Nat} {rows : List GRow} (h : GWf n rows) : WfI n rows :=
  fun i hi => h _ (rowAt_mem rows i hi)

theorem gwf_of_wfI {n : Nat} {rows : List GRow} (h : WfI n rows) : GWf n rows := by
  intro r hr
  obtain ⟨i, hi, rfl⟩ := (mem_iff_rowAt rows r).mp hr
  exact h i hi

theorem rowAt_mapG (rows : List GRow) (f : GRow → GRow) (i : Nat) (hi : i < rows.length) :
    rowAt (rows.map f) i = f (rowAt rows i) := by
  simp [rowAt, hi]

theorem rowAt_set2 (rows : List GRow) (ri p : Nat) (A B : GRow) (hp : p < rows.length) (i : Nat) :
    rowAt ((rows.set ri A).set p B) i = if i = p then B else if i = ri ∧ ri < rows.length then A else rowAt rows i := by
  rw [rowAt_set, rowAt_set]
  by_cases h : i = p
  · simp [h, hp]
  · simp [h]

/-! ### entries of `linear_combine` on the range `[s, n+1)` -/

theorem get_lc_zero {x y : Row} {n s : Nat} (c1 c2 : Int) (hx : x.length = n + 2)
    (hzx : ∀ c, c < s → get x c = 0) (hzy : ∀ c, c < s → get y c = 0) (c : Nat) (hc : c ≤ n) :
    get (linearCombine x y c1 c2 s (n + 1)) c = c1 * get x c + c2 * get y c := by
  rw [get_linearCombine]
  by_cases h : s ≤ c
  · rw [if_pos ⟨by omega, h, by omega⟩]
  · rw [if_neg (fun h' => h h'.2.1), hzx c (by omega), hzy c (by omega)]; simp

theorem get_lc_one {x y : Row} {n s : Nat} (c2 : Int) (hx : x.length = n + 2)
    (hzy : ∀ c, c < s → get y c = 0) (c : Nat) (hc : c ≤ n) :
    get (linearCombine x y 1 c2 s (n + 1)) c = get x c + c2 * get y c := by
  rw [get_linearCombine]
  by_cases h : s ≤ c
  · rw [if_pos ⟨by omega, h, by omega⟩]; ring
  · rw [if_neg (fun h' => h h'.2.1), hzy c (by omega)]; simp

theorem get_lc_pre {x y : Row} (c1 c2 : Int) (s e c : Nat) (hc : c < s) :
    get (linearCombine x y c1 c2 s e) c = get x c := by
  rw [get_linearCombine, if_neg (fun h' => by omega)]

theorem get_lc_post {x y : Row} (c1 c2 : Int) (s e c : Nat) (hc : e ≤ c) :
    get (linearCombine x y c1 c2 s e) c = get x c := by
  rw [get_linearCombine, if_neg (fun h' => by omega)]

/-! ### the reduced ratio of two entries -/

theorem red_cols (pc rc : Int) (hpc : pc ≠ 0) :
    ∃ P R : Int, pc / gcdI pc rc = P ∧ rc / gcdI pc rc = R ∧ P ≠ 0 ∧ P * rc - R * pc = 0 ∧
      pc = gcdI pc rc * P ∧ rc = gcdI pc rc * R ∧ gcdI pc rc ≠ 0 := by
  have hg : (Int.gcd pc rc : Int) ≠ 0 := by
    have := Int.gcd_pos_of_ne_zero_left rc hpc
    omega
  obtain ⟨P, hP⟩ := Int.gcd_dvd_left pc rc
  obtain ⟨R, hR⟩ := Int.gcd_dvd_right pc rc
  refine ⟨P, R, Int.ediv_eq_of_eq_mul_right hg hP, Int.ediv_eq_of_eq_mul_right hg hR, ?_, ?_, hP, hR, hg⟩
  · intro h; apply hpc; rw [hP, h, mul_zero]
  · calc P * rc - R * pc = P * ((Int.gcd pc rc : Int) * R) - R * ((Int.gcd pc rc : Int) * P) := by
          rw [← hR, ← hP]
      _ = 0 := by ring

/-! ### one row replaced by a combination with the pivot row -/

/-- row `j` becomes `a·row_j + b·row_p`: allowed when `row_j` is a line, the pivot is a line and `a ≠ 0`;
    or `row_j` is a parameter/point and `a = 1` -/
theorem hom_iff_comb {n : Nat} {rows rows' : List GRow} (j p : Nat) (a b : Int)
    (hlen : rows'.length = rows.length) (hj : j < rows.length) (hp : p < rows.length) (hjp : j ≠ p)
    (hsame : ∀ i, i ≠ j → rowAt rows' i = rowAt rows i) (hline : (rowAt rows' j).line = (rowAt rows j).line)
    (hcomb : hv n (rowAt rows' j) = (a : Rat) • hv n (rowAt rows j) + (b : Rat) • hv n (rowAt rows p))
    (hLg : (rowAt rows j).line = true → (rowAt rows p).line = true ∧ a ≠ 0)
    (hPg : (rowAt rows j).line = false → a = 1) (v : Pt) : Hom n rows v ↔ Hom n rows' v := by
  have hp' : p < rows'.length := by omega
  have hj' : j < rows'.length := by omega
  have hpe : rowAt rows' p = rowAt rows p := hsame p (fun e => hjp e.symm)
  refine hom_iff_one_row j hlen hsame hline (fun hl => ?_) (fun hl => ?_) v
  · obtain ⟨hpl, ha⟩ := hLg hl
    have ha' : (a : Rat) ≠ 0 := by exact_mod_cast ha
    constructor
    · intro c
      have e : c • hv n (rowAt rows j)
          = (c / a) • hv n (rowAt rows' j) + (-(c * b / a)) • hv n (rowAt rows' p) := by
        rw [hcomb, hpe]; funext x
        simp only [Pi.add_apply, Pi.smul_apply, smul_eq_mul]; field_simp; ring
      rw [e]
      exact hom_add (hom_line hj' (by rw [hline]; exact hl) _) (hom_line hp' (by rw [hpe]; exact hpl) _)
    · intro c
      have e : c • hv n (rowAt rows' j) = (c * a) • hv n (rowAt rows j) + (c * b) • hv n (rowAt rows p) := by
        rw [hcomb]; module
      rw [e]
      exact hom_add (hom_line hj hl _) (hom_line hp hpl _)
  · have ha := hPg hl
    subst ha
    constructor
    · have e : hv n (rowAt rows j) = hv n (rowAt rows' j) + ((-b : Int) : Rat) • hv n (rowAt rows' p) := by
        rw [hcomb, hpe]; push_cast; module
      rw [e]
      exact hom_add (hom_pc hj' (by rw [hline]; exact hl)) (hom_int hp' _)
    · rw [hcomb]
      have e : ((1 : Int) : Rat) • hv n (rowAt rows j) = hv n (rowAt rows j) := by simp
      rw [e]
      exact hom_add (hom_pc hj hl) (hom_int hp _)

/-! ### what one pass of the inner loop guarantees -/

structure IStep (n p dim ri : Nat) (rows rows' : List GRow) : Prop where
  len : rows'.length = rows.length
  wf : WfI n rows'
  zero : ZeroPre p dim rows'
  other : ∀ i, i < rows.length → i ≠ ri → i ≠ p → (rowAt rows' i).line = (rowAt rows i).line ∧
    ∀ c, (get (rowAt rows' i).e c).sign = (get (rowAt rows i).e c).sign
  hom : HomSim n rows rows'
  pivNZ : get (rowAt rows' p).e dim ≠ 0
  rowZ : get (rowAt rows' ri).e dim = 0

/-- only row `ri` is replaced -/
theorem istep_set_one {n p dim ri : Nat} {rows : List GRow} (R' : GRow) (hri : ri < rows.length) (hne : ri ≠ p)
    (hwf : WfI n rows) (hz : ZeroPre p dim rows) (hlen : R'.e.length = n + 2)
    (hzero : ∀ c, c < dim → get R'.e c = 0) (hR0 : get R'.e dim = 0) (hpc : get (rowAt rows p).e dim ≠ 0)
    (hhom : HomSim n rows (rows.set ri R')) : IStep n p dim ri rows (rows.set ri R') where
  len := by simp
  wf := by
    intro i hi; rw [rowAt_set]; split
    · exact hlen
    · exact hwf i (by simpa using hi)
  zero := by
    intro i hpi hi c hc; rw [rowAt_set]; split
    · exact hzero c hc
    · exact hz i hpi (by simpa using hi) c hc
  other := by
    intro i _ h1 _
    rw [rowAt_set, if_neg (fun h => h1 h.1)]
    exact ⟨rfl, fun _ => rfl⟩
  hom := hhom
  pivNZ := by rw [rowAt_set, if_neg (fun h => hne h.1.symm)]; exact hpc
  rowZ := by rw [rowAt_set, if_pos ⟨rfl, hri⟩]; exact hR0

/-! ### `swap` -/

theorem swap_spec {n p dim ri : Nat} {rows : List GRow} (hri : ri < rows.length) (hp : p < rows.length) (hpr : p ≤ ri)
    (hwf : WfI n rows) (hz : ZeroPre p dim rows) :
    (swapRows rows ri p).length = rows.length ∧ WfI n (swapRows rows ri p) ∧ ZeroPre p dim (swapRows rows ri p) ∧
      (∀ i, i ≠ ri → i ≠ p → rowAt (swapRows rows ri p) i = rowAt rows i) ∧
      rowAt (swapRows rows ri p) ri = rowAt rows p ∧ rowAt (swapRows rows ri p) p = rowAt rows ri ∧
      ∀ v, Hom n rows v ↔ Hom n (swapRows rows ri p) v := by
  have hrow := rowAt_swapRows rows ri p
  refine ⟨length_swapRows _ _ _, ?_, ?_, ?_, ?_, ?_, ?_⟩
  · intro i hi
    rw [hrow i hri hp]
    rw [length_swapRows] at hi
    split
    · exact hwf ri hri
    · split
      · exact hwf p hp
      · exact hwf i hi
  · intro i hpi hi c hc
    rw [hrow i hri hp]
    rw [length_swapRows] at hi
    split
    · exact hz ri hpr hri c hc
    · split
      · exact hz p (Nat.le_refl _) hp c hc
      · exact hz i hpi hi c hc
  · intro i h1 h2; rw [hrow i hri hp, if_neg h2, if_neg h1]
  · rw [hrow ri hri hp]
    by_cases h : ri = p
    · rw [if_pos h, h]
    · rw [if_neg h, if_pos rfl]
  · rw [hrow p hri hp, if_pos rfl]
  · exact hom_iff_perm (fun r => mem_swapRows rows ri p hri hp r)

/-- the swap step of `Grid::simplify` keeps the lattice -/
theorem swapRows_homSim (n : Nat) (rows : List GRow) (i j : Nat) (hi : i < rows.length) (hj : j < rows.length) :
    HomSim n rows (swapRows rows i j) :=
  HomSim.of_iff (hom_iff_perm (fun r => mem_swapRows rows i j hi hj r))

/-! ### `reduce_line_with_line` -/

theorem step_LL {n p dim ri : Nat} {rows : List GRow} (hri : ri < rows.length) (hp : p < rows.length) (hne : ri ≠ p)
    (hpr : p ≤ ri) (hwf : WfI n rows) (hz : ZeroPre p dim rows) (hdim : dim ≤ n)
    (hpc : get (rowAt rows p).e dim ≠ 0) (hl1 : (rowAt rows ri).line = true) (hl2 : (rowAt rows p).line = true) :
    IStep n p dim ri rows (rows.set ri (reduceLineWithLine (rowAt rows ri) (rowAt rows p) dim)) := by
  obtain ⟨P, R, hP, hR, hP0, hPR, -, -, -⟩ := red_cols (get (rowAt rows p).e dim) (get (rowAt rows ri).e dim) hpc
  have hzr := hz ri hpr hri
  have hzp := hz p (Nat.le_refl _) hp
  have hRe : (reduceLineWithLine (rowAt rows ri) (rowAt rows p) dim).e
      = linearCombine (rowAt rows ri).e (rowAt rows p).e P (-R) dim (n + 1) := by
    show linearCombine _ _ _ _ _ _ = _
    rw [hP, hR, hwf p hp]; rfl
  have hent : ∀ c, c ≤ n → get (reduceLineWithLine (rowAt rows ri) (rowAt rows p) dim).e c
      = P * get (rowAt rows ri).e c + (-R) * get (rowAt rows p).e c := by
    intro c hc; rw [hRe]; exact get_lc_zero P (-R) (hwf ri hri) hzr hzp c hc
  refine istep_set_one _ hri hne hwf hz ?_ ?_ ?_ hpc (HomSim.of_iff ?_)
  · rw [hRe, length_linearCombine]; exact hwf ri hri
  · intro c hc; rw [hent c (by omega), hzr c hc, hzp c hc]; simp
  · rw [hent dim hdim]; linarith
  · refine hom_iff_comb ri p P (-R) (by simp) hri hp hne ?_ ?_ ?_ (fun _ => ⟨hl2, hP0⟩)
      (fun h => by rw [hl1] at h; cases h)
    · intro i hi; rw [rowAt_set, if_neg (fun h => hi h.1)]
    · rw [rowAt_set, if_pos ⟨rfl, hri⟩]; rfl
    · rw [rowAt_set, if_pos ⟨rfl, hri⟩]; exact hv_comb P (-R) hent

/-- `reduce_line_with_line` on two line rows that vanish before `dim` keeps the lattice -/
theorem reduceLineWithLine_homSim {n p dim ri : Nat} {rows : List GRow} (hri : ri < rows.length) (hp : p < rows.length)
    (hne : ri ≠ p) (hpr : p ≤ ri) (hwf : WfI n rows) (hz : ZeroPre p dim rows) (hdim : dim ≤ n)
    (hpc : get (rowAt rows p).e dim ≠ 0) (hl1 : (rowAt rows ri).line = true) (hl2 : (rowAt rows p).line = true) :
    HomSim n rows (rows.set ri (reduceLineWithLine (rowAt rows ri) (rowAt rows p) dim)) :=
  (step_LL hri hp hne hpr hwf hz hdim hpc hl1 hl2).hom

/-! ### `reduce_pc_with_pc` -/

theorem step_PP {n p dim ri : Nat} {rows : List GRow} (hri : ri < rows.length) (hp : p < rows.length) (hne : ri ≠ p)
    (hpr : p ≤ ri) (hwf : WfI n rows) (hz : ZeroPre p dim rows) (hdim : dim ≤ n)
    (hpc : get (rowAt rows p).e dim ≠ 0) (hrc : get (rowAt rows ri).e dim ≠ 0)
    (hl1 : (rowAt rows ri).line = false) (hl2 : (rowAt rows p).line = false) :
    IStep n p dim ri rows
      ((rows.set ri (reducePcWithPc (rowAt rows ri) (rowAt rows p) dim dim (n + 1)).1).set p
        (reducePcWithPc (rowAt rows ri) (rowAt rows p) dim dim (n + 1)).2) ∧
    (rowAt ((rows.set ri (reducePcWithPc (rowAt rows ri) (rowAt rows p) dim dim (n + 1)).1).set p
        (reducePcWithPc (rowAt rows ri) (rowAt rows p) dim dim (n + 1)).2) p).line = false := by
  obtain ⟨P, R, hP, hR, hP0, hPR, hpcg, hrcg, hg0⟩ :=
    red_cols (get (rowAt rows p).e dim) (get (rowAt rows ri).e dim) hpc
  obtain ⟨-, hbez⟩ := gcdext_spec (get (rowAt rows p).e dim) (get (rowAt rows ri).e dim) hrc
  generalize hs : (gcdext (get (rowAt rows p).e dim) (get (rowAt rows ri).e dim)).2.1 = s at hbez
  generalize ht : (gcdext (get (rowAt rows p).e dim) (get (rowAt rows ri).e dim)).2.2 = t at hbez
  have hzr := hz ri hpr hri
  have hzp := hz p (Nat.le_refl _) hp
  -- the determinant
  have hdet : s * P + t * R = 1 := by
    have h1 : gcdI (get (rowAt rows p).e dim) (get (rowAt rows ri).e dim) * (s * P + t * R)
        = gcdI (get (rowAt rows p).e dim) (get (rowAt rows ri).e dim) * 1 := by
      have : (Int.gcd (get (rowAt rows p).e dim) (get (rowAt rows ri).e dim) : Int)
          = gcdI (get (rowAt rows p).e dim) (get (rowAt rows ri).e dim) := rfl
      rw [this] at hbez
      calc gcdI (get (rowAt rows p).e dim) (get (rowAt rows ri).e dim) * (s * P + t * R)
          = s * (gcdI (get (rowAt rows p).e dim) (get (rowAt rows ri).e dim) * P)
            + t * (gcdI (get (rowAt rows p).e dim) (get (rowAt rows ri).e dim) * R) := by ring
        _ = gcdI (get (rowAt rows p).e dim) (get (rowAt rows ri).e dim) * 1 := by
            rw [← hpcg, ← hrcg, hbez, mul_one]
    exact Int.eq_of_mul_eq_mul_left hg0 h1
  set A := (reducePcWithPc (rowAt rows ri) (rowAt rows p) dim dim (n + 1)).1 with hA
  set B := (reducePcWithPc (rowAt rows ri) (rowAt rows p) dim dim (n + 1)).2 with hB
  have hAl : A.line = (rowAt rows ri).line := rfl
  have hBl : B.line = (rowAt rows p).line := rfl
  have hAe : A.e = linearCombine (rowAt rows ri).e (rowAt rows p).e P (-R) dim (n + 1) := by
    show linearCombine _ _ _ _ _ _ = _
    have : (gcdext (get (rowAt rows p).e dim) (get (rowAt rows ri).e dim)).1
        = gcdI (get (rowAt rows p).e dim) (get (rowAt rows ri).e dim) := rfl
    show linearCombine (rowAt rows ri).e (rowAt rows p).e
      (get (rowAt rows p).e dim / (gcdext (get (rowAt rows p).e dim) (get (rowAt rows ri).e dim)).1)
      (-(get (rowAt rows ri).e dim / (gcdext (get (rowAt rows p).e dim) (get (rowAt rows ri).e dim)).1)) dim (n + 1) = _
    rw [this, hP, hR]
  have hBe : B.e = linearCombine (rowAt rows p).e (rowAt rows ri).e s t dim (n + 1) := by
    show linearCombine (rowAt rows p).e (rowAt rows ri).e
      (gcdext (get (rowAt rows p).e dim) (get (rowAt rows ri).e dim)).2.1
      (gcdext (get (rowAt rows p).e dim) (get (rowAt rows ri).e dim)).2.2 dim (n + 1) = _
    rw [hs, ht]
  have hAent : ∀ c, c ≤ n → get A.e c = P * get (rowAt rows ri).e c + (-R) * get (rowAt rows p).e c := by
    intro c hc; rw [hAe]; exact get_lc_zero P (-R) (hwf ri hri) hzr hzp c hc
  have hBent : ∀ c, c ≤ n → get B.e c = s * get (rowAt rows p).e c + t * get (rowAt rows ri).e c := by
    intro c hc; rw [hBe]; exact get_lc_zero s t (hwf p hp) hzp hzr c hc
  have hrow : ∀ i, rowAt ((rows.set ri A).set p B) i = if i = p then B else if i = ri ∧ ri < rows.length then A else rowAt rows i :=
    rowAt_set2 rows ri p A B hp
  have hrp : rowAt ((rows.set ri A).set p B) p = B := by rw [hrow, if_pos rfl]
  have hrr : rowAt ((rows.set ri A).set p B) ri = A := by rw [hrow, if_neg hne, if_pos ⟨rfl, hri⟩]
  have hro : ∀ i, i ≠ ri → i ≠ p → rowAt ((rows.set ri A).set p B) i = rowAt rows i := by
    intro i h1 h2; rw [hrow, if_neg h2, if_neg (fun h => h1 h.1)]
  refine ⟨⟨by simp, ?_, ?_, ?_, HomSim.of_iff ?_, ?_, ?_⟩, ?_⟩
  · intro i hi
    rw [hrow]; split
    · rw [hBe, length_linearCombine]; exact hwf p hp
    · split
      · rw [hAe, length_linearCombine]; exact hwf ri hri
      · exact hwf i (by simpa using hi)
  · intro i hpi hi c hc
    rw [hrow]; split
    · rw [hBent c (by omega), hzr c hc, hzp c hc]; simp
    · split
      · rw [hAent c (by omega), hzr c hc, hzp c hc]; simp
      · exact hz i hpi (by simpa using hi) c hc
  · intro i _ h1 h2; rw [hro i h1 h2]; exact ⟨rfl, fun _ => rfl⟩
  · -- the lattice: a unimodular change of the pair
    have hvA := hv_comb (n := n) (r := A) (r1 := rowAt rows ri) (r2 := rowAt rows p) P (-R) hAent
    have hvB := hv_comb (n := n) (r := B) (r1 := rowAt rows p) (r2 := rowAt rows ri) s t hBent
    have hvp : hv n (rowAt rows p) = (P : Rat) • hv n B + ((-t : Int) : Rat) • hv n A := by
      refine hv_comb P (-t) fun c hc => ?_
      rw [hAent c hc, hBent c hc]; linear_combination (-(get (rowAt rows p).e c)) * hdet
    have hvr : hv n (rowAt rows ri) = (R : Rat) • hv n B + (s : Rat) • hv n A := by
      refine hv_comb R s fun c hc => ?_
      rw [hAent c hc, hBent c hc]; linear_combination (-(get (rowAt rows ri).e c)) * hdet
    have hlen' : ((rows.set ri A).set p B).length = rows.length := by simp
    have hp' : p < ((rows.set ri A).set p B).length := by omega
    have hri' : ri < ((rows.set ri A).set p B).length := by omega
    refine hom_iff_two_rows ri p hlen' hro hl1 hl2 (by rw [hrr, hAl]; exact hl1) (by rw [hrp, hBl]; exact hl2)
      ?_ ?_ ?_ ?_
    · rw [hvr]
      have h1 : Hom n ((rows.set ri A).set p B) ((R : Rat) • hv n (rowAt ((rows.set ri A).set p B) p)) := hom_int hp' R
      have h2 : Hom n ((rows.set ri A).set p B) ((s : Rat) • hv n (rowAt ((rows.set ri A).set p B) ri)) := hom_int hri' s
      rw [hrp] at h1; rw [hrr] at h2
      exact hom_add h1 h2
    · rw [hvp]
      have h1 : Hom n ((rows.set ri A).set p B) ((P : Rat) • hv n (rowAt ((rows.set ri A).set p B) p)) := hom_int hp' P
      have h2 : Hom n ((rows.set ri A).set p B) (((-t : Int) : Rat) • hv n (rowAt ((rows.set ri A).set p B) ri)) :=
        hom_int hri' (-t)
      rw [hrp] at h1; rw [hrr] at h2
      exact hom_add h1 h2
    · rw [hrr, hvA]; exact hom_add (hom_int hri P) (hom_int hp (-R))
    · rw [hrp, hvB]; exact hom_add (hom_int hp s) (hom_int hri t)
  · rw [hrp, hBent dim hdim]
    have : (Int.gcd (get (rowAt rows p).e dim) (get (rowAt rows ri).e dim) : Int)
        = gcdI (get (rowAt rows p).e dim) (get (rowAt rows ri).e dim) := rfl
    rw [hbez, this]; exact hg0
  · rw [hrr, hAent dim hdim]; linarith
  · rw [hrp, hBl]; exact hl2

/-- `reduce_pc_with_pc` on two parameter/point rows that vanish before `dim` keeps the lattice -/
theorem reducePcWithPc_homSim {n p dim ri : Nat} {rows : List GRow} (hri : ri < rows.length) (hp : p < rows.length)
    (hne : ri ≠ p) (hpr : p ≤ ri) (hwf : WfI n rows) (hz : ZeroPre p dim rows) (hdim : dim ≤ n)
    (hpc : get (rowAt rows p).e dim ≠ 0) (hrc : get (rowAt rows ri).e dim ≠ 0)
    (hl1 : (rowAt rows ri).line = false) (hl2 : (rowAt rows p).line = false) :
    HomSim n rows
      ((rows.set ri (reducePcWithPc (rowAt rows ri) (rowAt rows p) dim dim (n + 1)).1).set p
        (reducePcWithPc (rowAt rows ri) (rowAt rows p) dim dim (n + 1)).2) :=
  (step_PP hri hp hne hpr hwf hz hdim hpc hrc hl1 hl2).1.hom

end PPLV.Lattice.Red
