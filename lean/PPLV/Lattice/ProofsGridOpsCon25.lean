import PPLV.Lattice.ProofsGridOpsCon24

/-!
# `Grid` stage 3, part 25: `frequency(expr, …)` (Grid_public.cc:2745) against `g.sem`

`none` exactly on a dimension mismatch; `ok = false` iff the grid is empty or a line of the grid moves the expression;
otherwise the numbers satisfy `cn_FreqOK` (frequency: reduced non-negative generator of the differences of the values;
value: reduced, attained, of least magnitude).
-/
namespace PPLV.Lattice.GO
open PPLV.Lattice PPLV.Lattice.Red

/-- `if (!generators_are_minimized()) minimize()` on any object of positive dimension -/
theorem cn_min2_spec' (g : Grid) (hI : GridInv g) (hpos : 0 < g.spaceDim) :
    GridInv (cn_min2 g).1 ∧ (cn_min2 g).1.sem = g.sem ∧ (cn_min2 g).1.spaceDim = g.spaceDim ∧
      ((cn_min2 g).2 = true ↔ g.sem.Nonempty) ∧ ((cn_min2 g).2 = false → (cn_min2 g).1.st.empty = true) ∧
      ((cn_min2 g).2 = true → (cn_min2 g).1.st.empty = false ∧ (cn_min2 g).1.st.gUp = true ∧
        (cn_min2 g).1.st.gMin = true) := by
  by_cases hm : g.st.gMin = true
  · have he : g.st.empty = false := by
      by_contra h
      have := (hI.emp (by simpa using h)).1
      rw [this] at hm; cases hm
    exact cn_min2_spec g hI he hpos (hI.gminUp hm)
  · have : cn_min2 g = minimize g := by simp [cn_min2, Grid.generatorsAreMinimized, hm]
    rw [this]
    obtain ⟨m1, m2, m3, m4, m5, m6⟩ := minimize_spec' g hI
    refine ⟨m1, m2, m3, m4, m5, fun h => ?_⟩
    obtain ⟨a, b, _⟩ := m6 h hpos
    exact ⟨a, m1.gminUp b, b⟩

theorem cn_frequency_eq (g : Grid) (e : LinExpr) : frequency g e =
    if g.spaceDim < e.spaceDim then (g, none)
    else if g.spaceDim = 0 then
      (if (isEmpty g).2 then ((isEmpty g).1, some { ok := false })
       else ((isEmpty g).1, some { ok := true, fn := 0, fd := 1, vn := Red.get e 0, vd := 1 }))
    else if (cn_min2 g).2 = false then ((cn_min2 g).1, some { ok := false })
    else ((cn_min2 g).1, some (frequencyNoCheck (cn_min2 g).1 e)) := by
  unfold frequency
  split
  · rfl
  · split
    · rfl
    · show (if (!(cn_min2 g).2) = true then _ else _) = _
      cases (cn_min2 g).2 <;> rfl

theorem cn_zero_of_supp0 (x : Pt) (hx : Supp 0 x) : x = 0 := by funext i; exact hx i (Nat.zero_le _)

/-- Grid_public.cc:2745 `frequency(expr, freq_n, freq_d, val_n, val_d)` -/
theorem cn_frequency (g : Grid) (e : LinExpr) (hI : GridInv g) :
    ((frequency g e).2 = none ↔ g.spaceDim < e.spaceDim) ∧ GridInv (frequency g e).1 ∧ (frequency g e).1.sem = g.sem ∧
    (frequency g e).1.spaceDim = g.spaceDim ∧
    (∀ fr, (frequency g e).2 = some fr →
      (fr.ok = false ↔ g.sem = ∅ ∨ cn_LineMoves e g.sem) ∧ (fr.ok = true → cn_FreqOK e g.sem fr)) := by
  rw [cn_frequency_eq]
  by_cases hd : g.spaceDim < e.spaceDim
  · rw [if_pos hd]; exact ⟨⟨fun _ => hd, fun _ => rfl⟩, hI, rfl, rfl, (fun fr h => by cases h)⟩
  · rw [if_neg hd]
    have hnone : ∀ (G : Grid) (o : Freq), ((G, some o).2 = none ↔ g.spaceDim < e.spaceDim) :=
      fun G o => ⟨(fun h => by cases h), fun h => absurd h hd⟩
    by_cases h0 : g.spaceDim = 0
    · rw [if_pos h0]
      obtain ⟨e1, e2, e3, e4, e5, e6⟩ := isEmpty_spec g hI
      by_cases hb : (isEmpty g).2 = true
      · rw [if_pos hb]
        refine ⟨hnone _ _, e1, e2, e3, fun fr hfr => ?_⟩
        have : fr = { ok := false } := (Option.some.inj hfr).symm
        rw [this]
        exact ⟨⟨fun _ => Or.inl (e4.mp hb), fun _ => rfl⟩, (fun h => by cases h)⟩
      · rw [if_neg hb]
        have hne : (isEmpty g).1.st.empty = false := e6 (by simpa using hb)
        have hs : g.sem = spaceSet 0 := by rw [← e2]; exact lz_sem_of_zdim hne (by rw [e3]; exact h0)
        have hz : (0 : Pt) ∈ g.sem := by rw [hs]; exact fun i _ => rfl
        refine ⟨hnone _ _, e1, e2, e3, fun fr hfr => ?_⟩
        have : fr = { ok := true, fn := 0, fd := 1, vn := Red.get e 0, vd := 1 } := (Option.some.inj hfr).symm
        rw [this]
        refine ⟨⟨(fun h => by cases h), ?_⟩, fun _ => ?_⟩
        · rintro (h | ⟨x, hx, v, hv, hlv⟩)
          · rw [h] at hz; exact absurd hz (Set.notMem_empty _)
          · rw [hs] at hx hv
            have hx0 := cn_zero_of_supp0 x hx
            have := cn_zero_of_supp0 _ (hv 1)
            rw [hx0, one_smul, zero_add] at this
            rw [this, cn_lam_zero] at hlv; exact absurd rfl hlv
        · have hev : ∀ x ∈ g.sem, evalRow e x = (Red.get e 0 : ℚ) := fun x hx => by
            rw [hs] at hx; exact cn_eval_zdim e x hx
          refine ⟨le_refl _, (by show (0 : Int) < 1; decide), (by show Int.gcd 0 1 = 1; decide),
            (by show (0 : Int) < 1; decide), (by show Int.gcd _ 1 = 1; simp), ⟨0, hz, by rw [hev 0 hz]; simp⟩, ?_, ?_,
            (fun h => absurd rfl h)⟩
          · intro x hx y hy; exact ⟨0, by rw [hev x hx, hev y hy]; simp⟩
          · exact ⟨0, hz, 0, hz, by simp⟩
    · rw [if_neg h0]
      have hpos : 0 < g.spaceDim := by omega
      obtain ⟨p1, p2, p3, p4, p5, p6⟩ := cn_min2_spec' g hI hpos
      by_cases hb : (cn_min2 g).2 = false
      · rw [if_pos hb]
        refine ⟨hnone _ _, p1, p2, p3, fun fr hfr => ?_⟩
        have : fr = { ok := false } := (Option.some.inj hfr).symm
        rw [this]
        have hse : g.sem = ∅ := by rw [← p2]; exact lz_sem_of_empty (p5 hb)
        exact ⟨⟨fun _ => Or.inl hse, fun _ => rfl⟩, (fun h => by cases h)⟩
      · rw [if_neg hb]
        have hbt : (cn_min2 g).2 = true := by simpa using hb
        obtain ⟨q1, q2, q3⟩ := p6 hbt
        obtain ⟨w1, w2, w3, w4, w5⟩ := cn_prep_gens _ p1 q1 (by omega) q2 q3
        obtain ⟨f1, f2⟩ := cn_frequencyNoCheck (cn_min2 g).1 e w1 w2 w4 w5 (by omega)
        have hsem : gn_set (cn_min2 g).1.gen = g.sem := by rw [← w3, p2]
        rw [hsem] at f1 f2
        refine ⟨hnone _ _, p1, p2, p3, fun fr hfr => ?_⟩
        have : fr = frequencyNoCheck (cn_min2 g).1 e := (Option.some.inj hfr).symm
        rw [this]
        refine ⟨⟨fun h => Or.inr (f1.mp h), ?_⟩, f2⟩
        rintro (h | h)
        · exact absurd h (Set.nonempty_iff_ne_empty.mp (p4.mp hbt))
        · exact f1.mpr h

/-- on `{x ≡ 0 (mod 2)}`: the expression `x + 3` has frequency `2` and value `1`; `3x + 1` has frequency `6`, value `1` -/
example : (frequency cn_exGrid' [3, 1]).2 = some { ok := true, fn := 2, fd := 1, vn := 1, vd := 1 } ∧
    (frequency cn_exGrid' [1, 3]).2 = some { ok := true, fn := 6, fd := 1, vn := 1, vd := 1 } := by decide +kernel

end PPLV.Lattice.GO
